import Mdsort.Proofs.WorldWholeSyntax
import Mdsort.Proofs.WorldOwn
import Mdsort.Proofs.WorldFrameMain

/-!
# Where the argument vector of a `fork` comes from (package p14, property C13)

`Call.fork argv s` carries the vector the child hands to `execvp`.  This file proves, for ARBITRARY results of all
calls, that every `fork` of a run of `main` carries the interpolation of the configured strings of an `exec` action or of
a `command` condition of the configuration - one argument per configured string, in order:

* `ExecIn S ml`: every `exec` entry of the match list `ml` has as its `strings` a list satisfying `S`; `ExecSub S e`: the
  string list of every `exec` NODE of the rule tree `e` satisfies `S`.  `xs_eval` / `xs_evalT`: evaluation only appends
  `exec` entries for `exec` nodes (`matches_append`, `matches_merge`, the removal of `pass` / `break` entries and the roll-back
  of a negation leave type and strings of every entry alone) - the same induction as `whole_nd_eval` for `discard`;
* `interp_go_argv`: after `matches_interpolate` the `argv` of every `exec` entry is `strings.map (cstr ∘ interpolate before macros)`
  with every string interpolating (`Proofs.argv_full` for each entry);
* `cmd_evalT`: every question `command av` the evaluation asks comes from a `command` node of the tree:
  `argv.mapM (interpolate before none) = some av`;
* `ForkArgv A`: a call that is a `fork` carries a vector satisfying `A`; the scripts of maildir.c / message.c issue no
  `fork`; `exec()` issues one, with the vector it was handed; hence `fa_matchesExec`, `fa_evalP`, `fa_processMessage`,
  `fa_mainP`.
-/

namespace Mdsort.Proofs
open Mdsort Mdsort.Model

/-- The string list of every `exec` node of the rule tree satisfies `S`. -/
def ExecSub (S : List Bytes → Prop) : Expr → Prop
  | .block _ e | .neg _ e | .attachment _ e | .attBlock _ e => ExecSub S e
  | .and _ l r | .or _ l r | .mtch _ l r => ExecSub S l ∧ ExecSub S r
  | .exec _ _ _ argv => S argv
  | _ => True

/-- Every `exec` entry of the match list was built from a string list satisfying `S`. -/
def ExecIn (S : List Bytes → Prop) (ml : MatchList) : Prop := ∀ m ∈ ml, m.ty = .exec → S m.strings

variable {S : List Bytes → Prop}

theorem xs_snoc {a : MatchList} {x : Match} (h : ExecIn S a) (hx : x.ty = .exec → S x.strings) : ExecIn S (a ++ [x]) := by
  intro m hm
  rcases List.mem_append.1 hm with h1 | h1
  · exact h m h1
  · simp only [List.mem_singleton] at h1
    rw [h1]; exact hx

theorem xs_sub {a b : MatchList} (h : ExecIn S b) (hs : ∀ m ∈ a, m ∈ b) : ExecIn S a :=
  fun m hm => h m (hs m hm)

theorem xs_merge (ml : MatchList) (mh : Match) (h : ExecIn S ml) :
    ExecIn S (matchesMerge ml mh).1 ∧ (matchesMerge ml mh).2.ty = mh.ty ∧ (matchesMerge ml mh).2.strings = mh.strings := by
  unfold matchesMerge
  split
  · exact ⟨h, rfl, rfl⟩
  · split
    · split
      · exact ⟨xs_sub h (fun m hm => (List.dropLast_sublist _).subset hm), rfl, rfl⟩
      · dsimp only
        split
        · exact ⟨h, rfl, rfl⟩
        · refine ⟨xs_sub h (fun m hm => whole_mem_removeFirst _ ml m hm), ?_⟩
          dsimp only
          split <;> exact ⟨rfl, rfl⟩
    · exact ⟨h, rfl, rfl⟩

theorem xs_append (env : Env) (ml : MatchList) (mh : Match) (h : ExecIn S ml) (hm : mh.ty = .exec → S mh.strings) :
    ExecIn S (matchesAppend env ml mh).1 := by
  unfold matchesAppend
  obtain ⟨h1, h2⟩ := xs_merge ml mh h
  generalize matchesMerge ml mh = r at h1 h2
  obtain ⟨ml1, mh1⟩ := r
  dsimp only at h1 h2 ⊢
  have hm1 : mh1.ty = .exec → S mh1.strings := by rw [h2.1, h2.2]; exact hm
  repeat' (first | exact xs_snoc h1 hm1 | split)

theorem xs_exprAppend (env : Env) (mh : Match) (st : St) (ok : Tri) (h : ExecIn S st.ml) (hm : mh.ty = .exec → S mh.strings) :
    ExecIn S (exprAppend env mh st ok).2.ml := by
  unfold exprAppend
  have := xs_append env st.ml mh h hm
  generalize matchesAppend env st.ml mh = r at this
  obtain ⟨ml, failed⟩ := r
  exact this

theorem xs_regexec (env : Env) (ty : MType) (lno part : Nat) (p : Pat) (key val : Bytes) (st : St)
    (h : ExecIn S st.ml) (hty : ty ≠ .exec) : ExecIn S (exprRegexec env ty lno part p key val st).2.ml := by
  unfold exprRegexec
  split
  · exact h
  · exact h
  · rename_i groups _
    dsimp only
    have := xs_append env st.ml
      { ty := ty, lno := lno, part := part, subs := matchCopy p val groups, pat := some p } h (fun hh => absurd hh hty)
    generalize matchesAppend env st.ml
      { ty := ty, lno := lno, part := part, subs := matchCopy p val groups, pat := some p } = r at this ⊢
    obtain ⟨ml, failed⟩ := r
    dsimp only at this ⊢
    split
    · exact this
    · split
      · intro m hm
        have hm' : m ∈ ml.dropLast ++ (ml.getLast?.map fun m => { m with key := some key, val := some val }).toList := hm
        rcases List.mem_append.1 hm' with h1 | h1
        · exact this m ((List.dropLast_sublist _).subset h1)
        · cases hl : ml.getLast? with
          | none => rw [hl] at h1; cases h1
          | some last =>
            rw [hl] at h1
            simp only [Option.map_some, Option.toList_some, List.mem_singleton] at h1
            rw [h1]
            exact this last (List.mem_of_getLast? hl)
      · exact this

theorem xs_loop (env : Env) (root : Msg) (e : Expr)
    (ih : ∀ (part : Nat) (m : Msg) (st : St), ExecIn S st.ml → ExecIn S (eval env root e part m st).2.ml)
    (part : Nat) (ps : List Msg) :
    ∀ (i : Nat) (st : St), ExecIn S st.ml → ExecIn S (eval.loop env root e part ps i st).2.ml := by
  induction ps with
  | nil => intro i st h; simp only [eval.loop]; exact h
  | cons p rest ihp =>
    intro i st h
    simp only [eval.loop]
    have h1 := ih (if part == 0 then i + 1 else part) p st h
    generalize eval env root e (if part == 0 then i + 1 else part) p st = r at h1
    obtain ⟨ev, s1⟩ := r
    cases ev
    · exact h1
    · exact ihp (i + 1) s1 h1
    · exact h1

theorem xs_loopB (env : Env) (root : Msg) (e : Expr)
    (ih : ∀ (part : Nat) (m : Msg) (st : St), ExecIn S st.ml → ExecIn S (eval env root e part m st).2.ml)
    (part : Nat) (ps : List Msg) :
    ∀ (i : Nat) (ev : Tri) (st : St), ExecIn S st.ml → ExecIn S (eval.loopB env root e part ps i ev st).2.ml := by
  induction ps with
  | nil => intro i ev st h; simp only [eval.loopB]; exact h
  | cons p rest ihp =>
    intro i ev0 st h
    simp only [eval.loopB]
    have h1 := ih (if part == 0 then i + 1 else part) p st h
    generalize eval env root e (if part == 0 then i + 1 else part) p st = r at h1
    obtain ⟨ev, s1⟩ := r
    cases ev
    · exact ihp (i + 1) .match s1 h1
    · exact ihp (i + 1) ev0 s1 h1
    · exact h1

theorem xs_values (env : Env) (lno : Nat) (p : Pat) (part : Nat) (k : Bytes) (vs : List Bytes) :
    ∀ (st : St), ExecIn S st.ml → ∀ r, eval.keys.values env lno p part k vs st = some r → ExecIn S r.2.ml := by
  induction vs with
  | nil => intro st h r hr; simp only [eval.keys.values] at hr; cases hr
  | cons v more ihv =>
    intro st h r hr
    simp only [eval.keys.values] at hr
    have h1 := xs_regexec env .header lno part p k v st h (by intro hh; cases hh)
    generalize exprRegexec env .header lno part p k v st = x at h1 hr
    obtain ⟨ev, s1⟩ := x
    cases ev
    · simp only [Option.some.injEq] at hr; rw [← hr]; exact h1
    · exact ihv s1 h1 r hr
    · simp only [Option.some.injEq] at hr; rw [← hr]; exact h1

theorem xs_keys (env : Env) (lno : Nat) (p : Pat) (part : Nat) (m : Msg) (ks : List Bytes) :
    ∀ (st : St), ExecIn S st.ml → ExecIn S (eval.keys env lno p part m ks st).2.ml := by
  induction ks with
  | nil => intro st h; simp only [eval.keys]; exact h
  | cons k rest ihk =>
    intro st h
    simp only [eval.keys]
    cases getHeader m k with
    | none => exact ihk st h
    | some vals =>
      dsimp only
      have hv := xs_values env lno p part k vals st h
      generalize eval.keys.values env lno p part k vals st = o at hv
      cases o with
      | none => exact ihk st h
      | some r => exact hv r rfl

/-- Evaluation adds `exec` entries only for the `exec` nodes of the tree. -/
theorem xs_eval (env : Env) (root : Msg) (e : Expr) (he : ExecSub S e) :
    ∀ (part : Nat) (m : Msg) (st : St), ExecIn S st.ml → ExecIn S (eval env root e part m st).2.ml := by
  induction e with
  | block lno e ih =>
    intro part m st h
    simp only [eval]
    have h1 := ih he part m st h
    generalize eval env root e part m st = r at h1
    obtain ⟨ev, s1⟩ := r
    have hrem : ∀ t, ExecIn S (matchesRemove s1.ml t).1 := fun t =>
      xs_sub h1 (fun m hm => (List.mem_filter.1 hm).1)
    cases ev
    · dsimp only
      split
      · exact hrem _
      · split
        · exact hrem _
        · exact h1
    · dsimp only
      split
      · exact hrem _
      · split
        · exact hrem _
        · exact h1
    · exact h1
  | and lno l r ihl ihr =>
    intro part m st h
    simp only [ExecSub] at he
    simp only [eval]
    have h1 := ihl he.1 part m st h
    generalize eval env root l part m st = x at h1
    obtain ⟨ev, s1⟩ := x
    cases ev
    · exact ihr he.2 part m s1 h1
    · exact h1
    · exact h1
  | or lno l r ihl ihr =>
    intro part m st h
    simp only [ExecSub] at he
    simp only [eval]
    have h1 := ihl he.1 part m st h
    generalize eval env root l part m st = x at h1
    obtain ⟨ev, s1⟩ := x
    cases ev
    · exact h1
    · exact ihr he.2 part m s1 h1
    · exact h1
  | neg lno e ih =>
    intro part m st h
    simp only [eval]
    have h1 := ih he part m st h
    generalize eval env root e part m st = x at h1
    obtain ⟨ev, s1⟩ := x
    cases ev
    · exact xs_sub h1 (fun m hm => List.mem_of_mem_take hm)
    · exact h1
    · exact h1
  | mtch lno c rhs ihc ihr =>
    intro part m st h
    simp only [ExecSub] at he
    simp only [eval]
    have h0 := xs_append env st.ml { ty := .mtch, lno := lno, part := part } h (by intro hh; cases hh)
    generalize matchesAppend env st.ml _ = x at h0
    obtain ⟨ml1, f1⟩ := x
    dsimp only at h0 ⊢
    cases f1
    · simp only [Bool.false_eq_true, ↓reduceIte]
      have h1 := ihc he.1 part m { st with ml := ml1 } h0
      generalize eval env root c part m { st with ml := ml1 } = y at h1
      obtain ⟨ev, s1⟩ := y
      cases ev
      · exact ihr he.2 part m s1 h1
      · exact h1
      · exact h1
    · simp only [↓reduceIte]
      exact h0
  | all lno => intro part m st h; simp only [eval]; exact h
  | attachment lno e ih =>
    intro part m st h
    simp only [eval]
    cases getAttachments m with
    | none => exact h
    | some parts => exact xs_loop env root e (ih he) part parts 0 st h
  | attBlock lno e ih =>
    intro part m st h
    simp only [eval]
    cases getAttachments m with
    | none => exact h
    | some parts => exact xs_loopB env root e (ih he) part parts 0 .nomatch st h
  | body lno p =>
    intro part m st h
    simp only [eval]
    cases getBody m with
    | none => exact h
    | some b => exact xs_regexec env .body lno part p _ b st h (by intro hh; cases hh)
  | date lno field cmp age =>
    intro part m st h
    have tail : ∀ (tim : Int) (date : Bytes), ExecIn S
        (if (!dateMatches cmp (↑age) env.now tim) = true then (Tri.nomatch, st)
          else exprRegexec env MType.date lno part { src := [46, 42] } (ofString "Date") date st).2.ml := by
      intro tim date
      split
      · exact h
      · exact xs_regexec env .date lno part _ _ _ st h (by intro hh; cases hh)
    cases field <;> simp only [eval]
    · cases getHeader1 m (ofString "Date") with
      | none => exact h
      | some d =>
        dsimp only
        cases timeParse env.strptime env.zoneName d with
        | none => exact h
        | some t => exact tail t d
    all_goals
      rcases env.fileTime _ with _ | sb
      · exact h
      · dsimp only
        rcases env.timeFormat _ with _ | s
        · exact h
        · exact tail _ s
  | header lno names p =>
    intro part m st h
    simp only [eval]
    exact xs_keys env lno p part m names st h
  | new lno => intro part m st h; simp only [eval]; exact h
  | old lno =>
    intro part m st h
    simp only [eval]
    by_cases hf : flagsIsSet (if (part == 0) = true then st.flags else MFlags.empty) 83 = true
    · simp only [hf, ↓reduceIte]; exact h
    · simp only [hf, Bool.false_eq_true, ↓reduceIte]; exact h
  | stat lno path =>
    intro part m st h
    simp only [eval]
    have h0 := xs_append env st.ml { ty := .stat, lno := lno, part := part, strings := [path] } h (by intro hh; cases hh)
    generalize matchesAppend env st.ml _ = x at h0
    obtain ⟨ml1, f1⟩ := x
    exact xs_sub h0 (fun m hm => (List.dropLast_sublist _).subset hm)
  | command lno argv =>
    intro part m st h
    simp only [eval]
    have h0 := xs_append env st.ml { ty := .command, lno := lno, part := part, strings := argv } h (by intro hh; cases hh)
    generalize matchesAppend env st.ml _ = x at h0
    obtain ⟨ml1, f1⟩ := x
    exact xs_sub h0 (fun m hm => (List.dropLast_sublist _).subset hm)
  | move lno path =>
    intro part m st h
    simp only [eval]
    cases strlcpyFits PATH_MAX path with
    | none => exact h
    | some p => exact xs_exprAppend env _ st _ h (by intro hh; cases hh)
  | flag lno subdir =>
    intro part m st h
    simp only [eval]
    cases strlcpyFits NAME_MAX1 subdir with
    | none => exact h
    | some p => exact xs_exprAppend env _ st _ h (by intro hh; cases hh)
  | flags lno fl =>
    intro part m st h
    simp only [eval]
    generalize eval.setAll fl st.flags false = r
    obtain ⟨mf, err⟩ := r
    dsimp only
    cases err
    · simp only [Bool.false_eq_true, ↓reduceIte]
      exact xs_exprAppend env _ { st with flags := mf } _ h (by intro hh; cases hh)
    · simp only [↓reduceIte]
      exact h
  | discard lno => intro part m st h; simp only [eval]; exact xs_exprAppend env _ st _ h (by intro hh; cases hh)
  | brk lno => intro part m st h; simp only [eval]; exact xs_exprAppend env _ st _ h (by intro hh; cases hh)
  | label lno ls => intro part m st h; simp only [eval]; exact xs_exprAppend env _ st _ h (by intro hh; cases hh)
  | pass lno => intro part m st h; simp only [eval]; exact xs_exprAppend env _ st _ h (by intro hh; cases hh)
  | reject lno => intro part m st h; simp only [eval]; exact xs_exprAppend env _ st _ h (by intro hh; cases hh)
  | exec lno si bo argv =>
    intro part m st h; simp only [eval]; exact xs_exprAppend env _ st _ h (fun _ => he)
  | addHeader lno k v =>
    intro part m st h; simp only [eval]; exact xs_exprAppend env _ st _ h (by intro hh; cases hh)

theorem xs_loopT (env : Env) (root : Msg) (e : Expr)
    (ih : ∀ (part : Nat) (m : Msg) (st : St), ExecIn S st.ml →
      (evalT env root e part m st).AllRet fun r => ExecIn S r.2.ml)
    (part : Nat) (ps : List Msg) :
    ∀ (i : Nat) (st : St), ExecIn S st.ml → (evalT.loop env root e part ps i st).AllRet fun r => ExecIn S r.2.ml := by
  induction ps with
  | nil => intro i st h; simp only [evalT.loop]; exact h
  | cons p rest ihp =>
    intro i st h
    simp only [evalT.loop]
    refine Ask.AllRet.bind (ih _ p st h) ?_
    rintro ⟨ev, s1⟩ h1
    cases ev
    · exact h1
    · exact ihp (i + 1) s1 h1
    · exact h1

theorem xs_loopBT (env : Env) (root : Msg) (e : Expr)
    (ih : ∀ (part : Nat) (m : Msg) (st : St), ExecIn S st.ml →
      (evalT env root e part m st).AllRet fun r => ExecIn S r.2.ml)
    (part : Nat) (ps : List Msg) :
    ∀ (i : Nat) (ev : Tri) (st : St), ExecIn S st.ml →
      (evalT.loopB env root e part ps i ev st).AllRet fun r => ExecIn S r.2.ml := by
  induction ps with
  | nil => intro i ev st h; simp only [evalT.loopB]; exact h
  | cons p rest ihp =>
    intro i ev0 st h
    simp only [evalT.loopB]
    refine Ask.AllRet.bind (ih _ p st h) ?_
    rintro ⟨ev, s1⟩ h1
    cases ev
    · exact ihp (i + 1) .match s1 h1
    · exact ihp (i + 1) ev0 s1 h1
    · exact h1

/-- ... and so does the evaluation that asks the operating system, whatever the answers. -/
theorem xs_evalT (env : Env) (root : Msg) (e : Expr) (he : ExecSub S e) :
    ∀ (part : Nat) (m : Msg) (st : St), ExecIn S st.ml →
      (evalT env root e part m st).AllRet fun r => ExecIn S r.2.ml := by
  -- nodes handed to `eval`
  have leaf : ∀ (e : Expr), ExecSub S e → ∀ (part : Nat) (m : Msg) (st : St), ExecIn S st.ml →
      (Ask.ret (eval env root e part m st) : Ask (Tri × St)).AllRet fun r => ExecIn S r.2.ml :=
    fun e he part m st h => xs_eval env root e he part m st h
  induction e with
  | block lno e ih =>
    intro part m st h
    simp only [evalT]
    refine Ask.AllRet.bind (ih he part m st h) ?_
    rintro ⟨ev, s1⟩ h1
    have hrem : ∀ t, ExecIn S (matchesRemove s1.ml t).1 := fun t =>
      xs_sub h1 (fun m hm => (List.mem_filter.1 hm).1)
    cases ev
    · dsimp only
      split
      · exact hrem _
      · split
        · exact hrem _
        · exact h1
    · dsimp only
      split
      · exact hrem _
      · split
        · exact hrem _
        · exact h1
    · exact h1
  | and lno l r ihl ihr =>
    intro part m st h
    simp only [ExecSub] at he
    simp only [evalT]
    refine Ask.AllRet.bind (ihl he.1 part m st h) ?_
    rintro ⟨ev, s1⟩ h1
    cases ev
    · exact ihr he.2 part m s1 h1
    · exact h1
    · exact h1
  | or lno l r ihl ihr =>
    intro part m st h
    simp only [ExecSub] at he
    simp only [evalT]
    refine Ask.AllRet.bind (ihl he.1 part m st h) ?_
    rintro ⟨ev, s1⟩ h1
    cases ev
    · exact h1
    · exact ihr he.2 part m s1 h1
    · exact h1
  | neg lno e ih =>
    intro part m st h
    simp only [evalT]
    refine Ask.AllRet.bind (ih he part m st h) ?_
    rintro ⟨ev, s1⟩ h1
    cases ev
    · exact xs_sub h1 (fun m hm => List.mem_of_mem_take hm)
    · exact h1
    · exact h1
  | mtch lno c rhs ihc ihr =>
    intro part m st h
    simp only [ExecSub] at he
    simp only [evalT]
    have h0 := xs_append env st.ml { ty := .mtch, lno := lno, part := part } h (by intro hh; cases hh)
    generalize matchesAppend env st.ml _ = x at h0
    obtain ⟨ml1, f1⟩ := x
    dsimp only at h0 ⊢
    cases f1
    · simp only [Bool.false_eq_true, ↓reduceIte]
      refine Ask.AllRet.bind (ihc he.1 part m { st with ml := ml1 } h0) ?_
      rintro ⟨ev, s1⟩ h1
      cases ev
      · exact ihr he.2 part m s1 h1
      · exact h1
      · exact h1
    · simp only [↓reduceIte]
      exact h0
  | attachment lno e ih =>
    intro part m st h
    simp only [evalT]
    cases getAttachments m with
    | none => exact h
    | some parts => exact xs_loopT env root e (ih he) part parts 0 st h
  | attBlock lno e ih =>
    intro part m st h
    simp only [evalT]
    cases getAttachments m with
    | none => exact h
    | some parts => exact xs_loopBT env root e (ih he) part parts 0 .nomatch st h
  | date lno field cmp age =>
    intro part m st h
    cases field
    · simp only [evalT]; exact leaf _ he part m st h
    all_goals
      simp only [evalT, ask, Ask.ask_bind, Ask.ret_bind]
      intro a
      dsimp only
      split
      · exact h
      · split
        · exact h
        · exact xs_regexec env .date lno part _ _ _ st h (by intro hh; cases hh)
  | stat lno path =>
    intro part m st h
    simp only [evalT, ask, Ask.ask_bind, Ask.ret_bind]
    have h0 := xs_append env st.ml { ty := .stat, lno := lno, part := part, strings := [path] } h (by intro hh; cases hh)
    generalize matchesAppend env st.ml _ = x at h0
    obtain ⟨ml1, f1⟩ := x
    have hd : ExecIn S ml1.dropLast := xs_sub h0 (fun m hm => (List.dropLast_sublist _).subset hm)
    dsimp only
    repeat' (first | exact hd | (intro _; exact hd) | split)
  | command lno argv =>
    intro part m st h
    simp only [evalT, ask, Ask.ask_bind, Ask.ret_bind]
    have h0 := xs_append env st.ml { ty := .command, lno := lno, part := part, strings := argv } h (by intro hh; cases hh)
    generalize matchesAppend env st.ml _ = x at h0
    obtain ⟨ml1, f1⟩ := x
    have hd : ExecIn S ml1.dropLast := xs_sub h0 (fun m hm => (List.dropLast_sublist _).subset hm)
    dsimp only
    repeat' (first | exact hd | (intro _; exact hd) | split)
  | discard lno => intro part m st h; simp only [evalT]; exact leaf _ he part m st h
  | all lno => intro part m st h; simp only [evalT]; exact leaf _ he part m st h
  | body lno p => intro part m st h; simp only [evalT]; exact leaf _ he part m st h
  | header lno names p => intro part m st h; simp only [evalT]; exact leaf _ he part m st h
  | new lno => intro part m st h; simp only [evalT]; exact leaf _ he part m st h
  | old lno => intro part m st h; simp only [evalT]; exact leaf _ he part m st h
  | move lno path => intro part m st h; simp only [evalT]; exact leaf _ he part m st h
  | flag lno subdir => intro part m st h; simp only [evalT]; exact leaf _ he part m st h
  | flags lno fl => intro part m st h; simp only [evalT]; exact leaf _ he part m st h
  | brk lno => intro part m st h; simp only [evalT]; exact leaf _ he part m st h
  | label lno ls => intro part m st h; simp only [evalT]; exact leaf _ he part m st h
  | pass lno => intro part m st h; simp only [evalT]; exact leaf _ he part m st h
  | reject lno => intro part m st h; simp only [evalT]; exact leaf _ he part m st h
  | exec lno si bo argv => intro part m st h; simp only [evalT]; exact leaf _ he part m st h
  | addHeader lno k v => intro part m st h; simp only [evalT]; exact leaf _ he part m st h


/-! ## after `matches_interpolate`: the vector of every `exec` entry -/

/-- The argument vector of an `exec` entry is the interpolation of a configured string list: one argument per string, in
order, each the C string of the one-pass interpolation (in some context `before` of captures and macro table `macros`),
and every string does interpolate. -/
def ArgvFrom (S : List Bytes → Prop) (M : Option (List (Bytes × Bytes)) → Prop) (av : List Bytes) : Prop :=
  ∃ strings before macros, S strings ∧ M macros ∧
    av = strings.map (fun t => cstr ((interpolate before macros t).getD [])) ∧
    ∀ t ∈ strings, (interpolate before macros t).isSome = true

variable {M : Option (List (Bytes × Bytes)) → Prop}

/-- The entry, if it is an `exec` entry, carries such a vector. -/
def ArgvOf (S : List Bytes → Prop) (M : Option (List (Bytes × Bytes)) → Prop) (m : Match) : Prop :=
  m.ty = .exec → ArgvFrom S M m.argv

theorem interp_go_argv (macros : Option (List (Bytes × Bytes))) (hM : M macros) :
    ∀ (rest : MatchList) (i : Nat) (cur : MatchList) (msgs : Nat → Msg) (r : MatchList × (Nat → Msg)),
      matchesInterpolate.go macros i rest cur msgs = some r → cur.drop i = rest →
      (∀ m ∈ cur.take i, ArgvOf S M m) → ExecIn S rest → ∀ m ∈ r.1, ArgvOf S M m := by
  intro rest
  induction rest with
  | nil =>
    intro i cur msgs r hr hdrop htake _ m hm
    rw [matchesInterpolate.go] at hr
    cases hr
    have hlen : cur.length ≤ i := List.drop_eq_nil_iff.1 hdrop
    rw [List.take_of_length_le hlen] at htake
    exact htake m hm
  | cons m0 more ih =>
    intro i cur msgs r hr hdrop htake hrest
    rw [matchesInterpolate.go] at hr
    cases hmi : matchInterpolate macros cur i m0 msgs with
    | none => rw [hmi] at hr; cases hr
    | some x =>
      obtain ⟨mh', upd⟩ := x
      rw [hmi] at hr
      dsimp only at hr
      have hi : i < cur.length := by
        apply Nat.lt_of_not_le
        intro hle
        rw [List.drop_eq_nil_iff.2 hle] at hdrop
        cases hdrop
      have hty : mh'.ty = m0.ty := congrArg Prod.fst (matchInterpolate_key macros cur i m0 mh' msgs upd hmi)
      refine ih (i + 1) _ _ r hr ?_ ?_ (fun m hm => hrest m (List.mem_cons_of_mem _ hm))
      · rw [List.drop_set_of_lt (by omega)]
        have : cur.drop (i + 1) = (cur.drop i).drop 1 := by rw [List.drop_drop]
        rw [this, hdrop]
        rfl
      · intro m hm
        rw [List.take_add_one, List.take_set_of_le (Nat.le_refl _)] at hm
        rcases List.mem_append.1 hm with h1 | h1
        · exact htake m h1
        · rw [List.getElem?_set_self hi] at h1
          simp only [Option.toList_some, List.mem_singleton] at h1
          subst h1
          intro hex
          have hty0 : m0.ty = .exec := by rw [← hty]; exact hex
          obtain ⟨hav, hsome, -, -⟩ := argv_full macros cur i m0 m msgs upd (.inl hty0) hmi
          exact ⟨m0.strings, cur.take i, macros, hrest m0 (List.mem_cons_self ..) hty0, hM, hav, hsome⟩

/-- **After `matches_interpolate`** of a list whose `exec` entries were built from string lists satisfying `S`, every
`exec` entry carries the interpolation of such a list. -/
theorem matchesInterpolate_argv (env : Env) (ml ml' : MatchList) (msgs msgs' : Nat → Msg) (h : ExecIn S ml)
    (hi : matchesInterpolate env ml msgs = some (ml', msgs')) :
    ∀ m ∈ ml', ArgvOf S (fun mc => mc = some [(ofString "path", env.path)]) m := by
  unfold matchesInterpolate at hi
  exact interp_go_argv (M := fun mc => mc = some [(ofString "path", env.path)]) _ rfl ml 0 ml msgs (ml', msgs') hi rfl
    (by intro m hm; cases hm) h

/-! ## the questions `command av` of evaluation -/

/-- The string list of every `command` node of the rule tree satisfies `C`. -/
def CmdSub (C : List Bytes → Prop) : Expr → Prop
  | .block _ e | .neg _ e | .attachment _ e | .attBlock _ e => CmdSub C e
  | .and _ l r | .or _ l r | .mtch _ l r => CmdSub C l ∧ CmdSub C r
  | .command _ argv => C argv
  | _ => True

/-- A question `command av` asks for the interpolation of the strings of a `command` node: one argument per configured
string, in order (`List.mapM`), in the context `before` of the captures of the rule so far, without a macro table. -/
def CmdQ (C : List Bytes → Prop) : Req → Prop
  | .command av => ∃ argv before, C argv ∧ argv.mapM (interpolate before none) = some av
  | _ => True

variable {C : List Bytes → Prop}

/-- Every `command` question of the evaluation of `e` comes from a `command` node of `e`. -/
theorem cmd_evalT (env : Env) (root : Msg) (e : Expr) (he : CmdSub C e) :
    ∀ (part : Nat) (m : Msg) (st : St), (evalT env root e part m st).Qs (CmdQ C) := by
  induction e with
  | block lno e ih =>
    intro part m st
    simp only [evalT]
    refine Ask.Qs.bind (ih he part m st) fun a => ?_
    obtain ⟨ev, s1⟩ := a
    cases ev <;> qs_tail
  | and lno l r ihl ihr =>
    intro part m st
    simp only [CmdSub] at he
    simp only [evalT]
    refine Ask.Qs.bind (ihl he.1 part m st) fun a => ?_
    obtain ⟨ev, s1⟩ := a
    cases ev <;> first | exact True.intro | exact ihr he.2 part m s1
  | or lno l r ihl ihr =>
    intro part m st
    simp only [CmdSub] at he
    simp only [evalT]
    refine Ask.Qs.bind (ihl he.1 part m st) fun a => ?_
    obtain ⟨ev, s1⟩ := a
    cases ev <;> first | exact True.intro | exact ihr he.2 part m s1
  | neg lno e ih =>
    intro part m st
    simp only [evalT]
    refine Ask.Qs.bind (ih he part m st) fun a => ?_
    obtain ⟨ev, s1⟩ := a
    cases ev <;> exact True.intro
  | mtch lno c rhs ihc ihr =>
    intro part m st
    simp only [CmdSub] at he
    simp only [evalT]
    generalize matchesAppend env st.ml _ = r1
    obtain ⟨ml1, f1⟩ := r1
    cases f1
    · simp only [Bool.false_eq_true, ↓reduceIte]
      refine Ask.Qs.bind (ihc he.1 part m _) fun a => ?_
      obtain ⟨ev, s1⟩ := a
      cases ev <;> first | exact True.intro | exact ihr he.2 part m s1
    · exact True.intro
  | attachment lno e ih =>
    intro part m st
    simp only [evalT]
    cases getAttachments m with
    | none => exact True.intro
    | some parts => exact loop_qs (ih he) part parts 0 st
  | attBlock lno e ih =>
    intro part m st
    simp only [evalT]
    cases getAttachments m with
    | none => exact True.intro
    | some parts => exact loopB_qs (ih he) part parts 0 .nomatch st
  | date lno field cmp age =>
    intro part m st
    cases field
    · simp only [evalT]; exact True.intro
    all_goals
      simp only [evalT, ask, Ask.ask_bind, Ask.ret_bind]
      refine ⟨True.intro, fun a => ?_⟩
      qs_tail
  | stat lno path =>
    intro part m st
    simp only [evalT, ask, Ask.ask_bind, Ask.ret_bind]
    generalize matchesAppend env st.ml _ = r1
    obtain ⟨ml1, f1⟩ := r1
    dsimp only
    repeat' (first | exact True.intro | exact ⟨True.intro, fun _ => True.intro⟩ | split)
  | command lno argv =>
    intro part m st
    simp only [evalT, ask, Ask.ask_bind, Ask.ret_bind]
    generalize matchesAppend env st.ml _ = r1
    obtain ⟨ml1, f1⟩ := r1
    dsimp only
    repeat' (first | exact True.intro | exact ⟨⟨argv, _, he, by assumption⟩, fun _ => True.intro⟩ | split)
  | all lno => intro part m st; simp only [evalT]; exact True.intro
  | body lno p => intro part m st; simp only [evalT]; exact True.intro
  | header lno names p => intro part m st; simp only [evalT]; exact True.intro
  | new lno => intro part m st; simp only [evalT]; exact True.intro
  | old lno => intro part m st; simp only [evalT]; exact True.intro
  | move lno path => intro part m st; simp only [evalT]; exact True.intro
  | flag lno subdir => intro part m st; simp only [evalT]; exact True.intro
  | flags lno fl => intro part m st; simp only [evalT]; exact True.intro
  | discard lno => intro part m st; simp only [evalT]; exact True.intro
  | brk lno => intro part m st; simp only [evalT]; exact True.intro
  | label lno ls => intro part m st; simp only [evalT]; exact True.intro
  | pass lno => intro part m st; simp only [evalT]; exact True.intro
  | reject lno => intro part m st; simp only [evalT]; exact True.intro
  | exec lno si bo argv => intro part m st; simp only [evalT]; exact True.intro
  | addHeader lno k v => intro part m st; simp only [evalT]; exact True.intro

/-! ## which vector a `fork` carries -/

open Mdsort.Proofs.World (bind_eq pure_eq ret_bind call_bind' call_bind bind_assoc Calls All)
open Mdsort.Proofs.Own (matchesExec_nil matchesExec_cons errTail)

/-- A call that is a `fork` carries a vector satisfying `A`. -/
def ForkArgv (A : List Bytes → Prop) : Call → Prop
  | .fork av _ => A av
  | _ => True

variable {A : List Bytes → Prop}

theorem ForkArgv.of_not_isFork {c : Call} (h : c.isFork = false) : ForkArgv A c := by
  cases c <;> first | exact True.intro | cases h

macro "fa_step" : tactic =>
  `(tactic| first
      | (with_reducible exact Own.Calls.ret_intro _)
      | ((with_reducible show ForkArgv _ _); exact True.intro)
      | (with_reducible apply Own.Calls.call_intro)
      | (intro _)
      | (with_reducible apply Calls.bind)
      | split
      | (dsimp only; split))

theorem fa_genname (env : PEnv) (md : Maildir) (flags : Option Bytes) (fuel count : Nat) :
    Calls (ForkArgv A) (genname env md flags fuel count) := by
  induction fuel generalizing count with
  | zero => unfold genname; exact Own.Calls.ret_intro _
  | succ fuel ih =>
    unfold genname
    simp only [bind_eq, pure_eq, call_bind]
    repeat' (first | exact ih _ | fa_step)

theorem fa_hdrs (newfd : Handle) (hs : List Hdr) : Calls (ForkArgv A) (messageWriteP.hdrs newfd hs) := by
  induction hs with
  | nil => unfold messageWriteP.hdrs; exact Own.Calls.ret_intro _
  | cons h rest ih =>
    unfold messageWriteP.hdrs
    simp only [bind_eq, pure_eq, call_bind]
    repeat' (first | exact ih | fa_step)

theorem fa_messageWriteP (m : Msg) (fd : Handle) : Calls (ForkArgv A) (messageWriteP m fd) := by
  unfold messageWriteP
  simp only [bind_eq, pure_eq, call_bind]
  repeat' (first | exact fa_hdrs _ _ | fa_step)

theorem fa_writeAll (fd : Handle) (fuel : Nat) (data : Bytes) : Calls (ForkArgv A) (writeAll fd fuel data) := by
  induction fuel generalizing data with
  | zero => unfold writeAll; exact Own.Calls.ret_intro _
  | succ fuel ih =>
    unfold writeAll
    simp only [bind_eq, pure_eq, call_bind]
    repeat' (first | exact ih _ | fa_step)

theorem fa_readAll (fd : Handle) (fuel : Nat) : Calls (ForkArgv A) (readAll fd fuel) := by
  induction fuel with
  | zero => exact Own.Calls.ret_intro _
  | succ n ih =>
    unfold readAll
    simp only [bind_eq, pure_eq, call_bind]
    repeat' (first | exact ih | fa_step)

theorem fa_maildirClose (md : Maildir) : Calls (ForkArgv A) (maildirClose md) := by
  unfold maildirClose
  simp only [bind_eq, pure_eq, call_bind]
  repeat' fa_step

theorem fa_maildirOpendir (md : Maildir) (path : Bytes) : Calls (ForkArgv A) (maildirOpendir md path) := by
  unfold maildirOpendir
  simp only [bind_eq, pure_eq, call_bind]
  repeat' fa_step

theorem fa_maildirOpenDst (path : Bytes) : Calls (ForkArgv A) (maildirOpenDst path) := by
  unfold maildirOpenDst
  simp only [bind_eq, pure_eq]
  repeat' (first | exact fa_maildirOpendir _ _ | fa_step)

theorem fa_maildirUnlink (md : Maildir) (name : Bytes) : Calls (ForkArgv A) (maildirUnlink md name) := by
  unfold maildirUnlink
  simp only [bind_eq, pure_eq, call_bind]
  repeat' fa_step

theorem fa_messageSetFile (ms : MsgSt) (dir name : Bytes) (fd : Option Handle) :
    Calls (ForkArgv A) (messageSetFile ms dir name fd) := by
  unfold messageSetFile
  simp only [bind_eq, pure_eq, call_bind]
  repeat' fa_step

theorem fa_messageSetFileMoved (ms : MsgSt) (s d : Subdir) (dir name : Bytes) :
    Calls (ForkArgv A) (messageSetFileMoved ms s d dir name) := by
  unfold messageSetFileMoved
  simp only [bind_eq, pure_eq, call_bind]
  repeat' fa_step

theorem fa_maildirMove (env : PEnv) (s dst : Maildir) (ms : MsgSt) : Calls (ForkArgv A) (maildirMove env s dst ms) := by
  unfold maildirMove gennameStart
  simp only [bind_eq, pure_eq, call_bind]
  repeat' (first | exact fa_genname env _ _ _ _ | exact fa_messageWriteP _ _ | exact fa_maildirUnlink _ _ | exact fa_messageSetFileMoved _ _ _ _ _ | fa_step)

theorem fa_maildirWrite (env : PEnv) (md : Maildir) (ms : MsgSt) : Calls (ForkArgv A) (maildirWrite env md ms) := by
  unfold maildirWrite gennameStart
  simp only [bind_eq, pure_eq, call_bind]
  repeat' (first | exact fa_genname env _ _ _ _ | exact fa_messageWriteP _ _ | exact fa_maildirUnlink _ _ | exact fa_messageSetFile _ _ _ _ | fa_step)

theorem fa_writefd (tmpdir : Bytes) : Calls (ForkArgv A) (writefd tmpdir) := by
  unfold writefd
  simp only [bind_eq, pure_eq, call_bind]
  repeat' fa_step

theorem fa_messageGetFd (env : PEnv) (ms : MsgSt) (part : Option Msg) (dobody : Bool) :
    Calls (ForkArgv A) (messageGetFd env ms part dobody) := by
  unfold messageGetFd
  simp only [bind_eq, pure_eq, call_bind]
  repeat' (first | exact fa_writefd _ | exact fa_writeAll _ _ _ | exact fa_messageWriteP _ _ | fa_step)

/-- **`exec(argv, fdin)` forks exactly once at most, with the vector it was handed.** -/
theorem fa_execP (argv : List Bytes) (fdin : Option Handle) (h : A argv) : Calls (ForkArgv A) (execP argv fdin) := by
  unfold execP
  simp only [bind_eq, pure_eq, call_bind]
  repeat' (first | ((with_reducible show ForkArgv _ (Call.fork _ _)); exact h) | fa_step)

/-- One entry of `matches_exec`: an `exec` entry forks with its own `argv` (what `match_interpolate` stored in it); no other
entry forks. -/
theorem fa_execOne (env : PEnv) (mh : Match) (st : ExecSt) (h : mh.ty = .exec → A mh.argv) :
    Calls (ForkArgv A) (execOne env mh st) := by
  unfold execOne
  cases hty : mh.ty <;> simp only [bind_eq, pure_eq, call_bind]
  case exec =>
    repeat' (first | exact fa_messageGetFd _ _ _ _ | exact fa_execP _ _ (h hty) | fa_step)
  all_goals
    repeat' (first | exact fa_maildirOpenDst _ | exact fa_maildirMove env _ _ _ | exact fa_maildirWrite env _ _ | exact fa_maildirClose _ | exact fa_maildirUnlink _ _ | fa_step)

theorem fa_matchesExec (env : PEnv) (ml : MatchList) (st : ExecSt) (h : ∀ mh ∈ ml, mh.ty = .exec → A mh.argv) :
    Calls (ForkArgv A) (matchesExec env ml st) := by
  induction ml generalizing st with
  | nil =>
    rw [matchesExec_nil]
    repeat' (first | exact fa_maildirClose _ | fa_step)
  | cons mh rest ih =>
    rw [matchesExec_cons]
    refine Calls.bind (fa_execOne env mh st (h mh (List.mem_cons_self ..))) fun x => ?_
    split
    · unfold errTail
      repeat' (first | exact fa_maildirClose _ | fa_step)
    · exact ih _ fun m hm => h m (List.mem_cons_of_mem _ hm)

/-- The `fork` of a `command` question carries the C strings of its vector. -/
theorem fa_sysCall (q : Req) (h : ∀ av, q = .command av → A (av.map cstr)) : Calls (ForkArgv A) (sysCall q) := by
  cases q with
  | command av => exact Calls.bind (fa_execP _ _ (h av rfl)) fun _ => True.intro
  | isDir p => exact ⟨True.intro, fun _ => True.intro⟩
  | fileTime p f => exact ⟨True.intro, fun _ => True.intro⟩

/-! ## the rule tree as the source of every vector -/

/-- `ss` is the string list of an `exec` action of the rule tree. -/
def IsExecNode : Expr → List Bytes → Prop
  | .block _ e, ss | .neg _ e, ss | .attachment _ e, ss | .attBlock _ e, ss => IsExecNode e ss
  | .and _ l r, ss | .or _ l r, ss | .mtch _ l r, ss => IsExecNode l ss ∨ IsExecNode r ss
  | .exec _ _ _ argv, ss => ss = argv
  | _, _ => False

/-- `ss` is the string list of a `command` condition of the rule tree. -/
def IsCmdNode : Expr → List Bytes → Prop
  | .block _ e, ss | .neg _ e, ss | .attachment _ e, ss | .attBlock _ e, ss => IsCmdNode e ss
  | .and _ l r, ss | .or _ l r, ss | .mtch _ l r, ss => IsCmdNode l ss ∨ IsCmdNode r ss
  | .command _ argv, ss => ss = argv
  | _, _ => False

theorem ExecSub.mono {S S' : List Bytes → Prop} (h : ∀ x, S x → S' x) : ∀ {e : Expr}, ExecSub S e → ExecSub S' e := by
  intro e
  induction e <;> intro he <;> simp only [ExecSub] at he ⊢ <;>
    first | exact True.intro | exact h _ he | (rename_i ih; exact ih he) | (rename_i ihl ihr; exact ⟨ihl he.1, ihr he.2⟩)

theorem CmdSub.mono {C C' : List Bytes → Prop} (h : ∀ x, C x → C' x) : ∀ {e : Expr}, CmdSub C e → CmdSub C' e := by
  intro e
  induction e <;> intro he <;> simp only [CmdSub] at he ⊢ <;>
    first | exact True.intro | exact h _ he | (rename_i ih; exact ih he) | (rename_i ihl ihr; exact ⟨ihl he.1, ihr he.2⟩)

theorem execSub_self (e : Expr) : ExecSub (IsExecNode e) e := by
  induction e <;> simp only [ExecSub] <;>
    first
      | exact True.intro
      | rfl
      | (rename_i ih; exact ExecSub.mono (fun x hx => by simpa only [IsExecNode] using hx) ih)
      | (rename_i ihl ihr
         exact ⟨ExecSub.mono (fun x hx => by simp only [IsExecNode]; exact .inl hx) ihl,
                ExecSub.mono (fun x hx => by simp only [IsExecNode]; exact .inr hx) ihr⟩)

theorem cmdSub_self (e : Expr) : CmdSub (IsCmdNode e) e := by
  induction e <;> simp only [CmdSub] <;>
    first
      | exact True.intro
      | rfl
      | (rename_i ih; exact CmdSub.mono (fun x hx => by simpa only [IsCmdNode] using hx) ih)
      | (rename_i ihl ihr
         exact ⟨CmdSub.mono (fun x hx => by simp only [IsCmdNode]; exact .inl hx) ihl,
                CmdSub.mono (fun x hx => by simp only [IsCmdNode]; exact .inr hx) ihr⟩)

/-- The macro table of an action list: exactly `path`, the path of the message (`matches_interpolate`). -/
def PathMacro (mc : Option (List (Bytes × Bytes))) : Prop := ∃ p, mc = some [(ofString "path", p)]

/-- **The vectors a child of a run over the rule tree `e` can be started with**: the interpolation of the strings of an
`exec` action of `e` (macro table: `path`), or of the strings of a `command` condition of `e` (no macro table) - one
argument per configured string, in order, each the C string of the one-pass interpolation. -/
def ChildArgv (e : Expr) (av : List Bytes) : Prop :=
  ArgvFrom (IsExecNode e) PathMacro av ∨ ArgvFrom (IsCmdNode e) (fun mc => mc = none) av

theorem cmdQ_childArgv {e : Expr} {av : List Bytes} (h : CmdQ (IsCmdNode e) (.command av)) : ChildArgv e (av.map cstr) := by
  obtain ⟨argv, before, hc, hm⟩ := h
  obtain ⟨h1, h2⟩ := mapM_eq_map (interpolate before none) [] argv av hm
  refine .inr ⟨argv, before, none, hc, rfl, ?_, h2⟩
  rw [h1, List.map_map]
  rfl

/-- Evaluation: the `fork` of every `command` condition carries the interpolation of that condition's strings. -/
theorem fa_evalP (env : Env) (e : Expr) (m : Msg) (fl : MFlags) : Calls (ForkArgv (ChildArgv e)) (evalP env e m fl) := by
  refine calls_toProg_qs (cmd_evalT env m e (cmdSub_self e) 0 m _) fun q hq => ?_
  refine fa_sysCall q fun av hav => ?_
  subst hav
  exact cmdQ_childArgv hq

theorem fa_freeP (ms : MsgSt) : Calls (ForkArgv A) (freeP ms) := by
  unfold freeP
  repeat' (first | exact World.Calls.call True.intro | fa_step)

theorem fa_messageParseP (d : Handle) (dir name content : Bytes) : Calls (ForkArgv A) (messageParseP d dir name content) := by
  unfold messageParseP
  simp only [bind_eq, pure_eq, call_bind]
  repeat' (first | exact fa_readAll _ _ | fa_step)

/-- Once the rules have decided: the `exec` entries of the interpolated list carry the interpolation of the strings of an
`exec` action of the tree, and `matches_exec` forks with exactly these. -/
theorem fa_afterVerdict (env : PEnv) (orc : EvalOracles) (e : Expr) (md : Maildir) (name : Bytes) (st : MainSt) (ms : MsgSt)
    (ev : Tri × St) (hev : ExecIn (IsExecNode e) ev.2.ml) :
    Calls (ForkArgv (ChildArgv e)) (afterVerdict env md name st ms (evVerdict env orc ms ev)) := by
  obtain ⟨t, est⟩ := ev
  cases t with
  | error => simp only [evVerdict, afterVerdict]; exact Calls.bind (fa_freeP _) fun _ => True.intro
  | «nomatch» => simp only [evVerdict, afterVerdict]; exact Calls.bind (fa_freeP _) fun _ => True.intro
  | «match» =>
    simp only [evVerdict]
    cases hmi : matchesInterpolate (msgEnv env orc ms.path) est.ml (partMsg ms.msg ms.parts) with
    | none => simp only [afterVerdict]; exact Calls.bind (fa_freeP _) fun _ => True.intro
    | some x =>
      obtain ⟨ml, msgs⟩ := x
      simp only [afterVerdict]
      split
      · exact Calls.bind (fa_freeP _) fun _ => True.intro
      · refine Calls.bind (fa_matchesExec env ml _ ?_) fun x => Calls.bind (fa_freeP _) fun _ => True.intro
        intro mh hmh hty
        obtain ⟨ss, before, mc, hs, hmc, hav, hsome⟩ := matchesInterpolate_argv _ est.ml ml _ msgs hev hmi mh hmh hty
        exact .inl ⟨ss, before, mc, hs, ⟨_, hmc⟩, hav, hsome⟩

theorem fa_processMessage (env : PEnv) (orc : EvalOracles) (e : Expr) (md : Maildir) (name : Bytes) (st : MainSt) :
    Calls (ForkArgv (ChildArgv e)) (processMessage env orc e md name st) := by
  cases hd : md.dirH with
  | none => rw [processMessage_noDir env orc e md name st hd]; exact True.intro
  | some d =>
    cases hf : st.files.get md.path name with
    | none => rw [processMessage_unknown env orc e md name st d hd hf]; exact True.intro
    | some content =>
      rw [processMessage_eq env orc e md name st d content hd hf]
      refine Calls.bind (fa_messageParseP d md.path name content) fun pm => ?_
      cases pm with
      | none => exact True.intro
      | some ms =>
        unfold afterParse evalMs
        refine calls_bind_all (fa_evalP _ e ms.msg ms.flags)
          (Ask.AllRet.toProg (xs_evalT (S := IsExecNode e) _ ms.msg e (execSub_self e) 0 ms.msg _ (by intro m hm; cases hm))) ?_
        intro ev hev
        exact fa_afterVerdict env orc e md name st ms ev hev

end Mdsort.Proofs

namespace Mdsort.Proofs.Own
open Mdsort Mdsort.Model Mdsort.Proofs
open Mdsort.Proofs.World (bind_eq pure_eq ret_bind call_bind' call_bind bind_assoc Calls All)

variable {A : List Bytes → Prop}

theorem fa_walk (env : PEnv) (orc : EvalOracles) (e : Expr) (fuel : Nat) (md : Maildir) (st : MainSt) :
    Calls (ForkArgv (ChildArgv e)) (walk env orc e fuel md st) := by
  induction fuel generalizing md st with
  | zero => exact Calls.ret_intro _
  | succ n ih =>
    unfold walk
    simp only [bind_eq, pure_eq, call_bind]
    repeat' (first | exact ih _ _ | exact fa_processMessage _ _ _ _ _ _ | exact fa_maildirOpendir _ _ | fa_step)

theorem fa_wr (fd : Handle) (fuel : Nat) (chunk : Bytes) : Calls (ForkArgv A) (copyStdin.wr fd fuel chunk) := by
  induction fuel generalizing chunk with
  | zero => unfold copyStdin.wr; exact Calls.ret_intro _
  | succ n ih =>
    unfold copyStdin.wr
    simp only [bind_eq, pure_eq, call_bind]
    repeat' (first | exact ih _ | fa_step)

theorem fa_copyStdin (fd : Handle) (fuel : Nat) (input : Bytes) : Calls (ForkArgv A) (copyStdin fd fuel input) := by
  induction fuel generalizing input with
  | zero => unfold copyStdin; exact Calls.ret_intro _
  | succ n ih =>
    unfold copyStdin
    simp only [bind_eq, pure_eq, call_bind]
    repeat' (first | exact ih _ | exact fa_wr _ _ _ | fa_step)

theorem fa_closeLoop (d : Handle) (fuel : Nat) : Calls (ForkArgv A) (closeStdin.loop d fuel) := by
  induction fuel with
  | zero => unfold closeStdin.loop; exact Calls.ret_intro _
  | succ n ih =>
    unfold closeStdin.loop
    simp only [bind_eq, pure_eq, call_bind]
    repeat' (first | exact ih | fa_step)

theorem fa_closeStdin (fuel : Nat) (md : Maildir) : Calls (ForkArgv A) (closeStdin fuel md) := by
  unfold closeStdin
  simp only [bind_eq, pure_eq, call_bind]
  repeat' (first | exact fa_closeLoop _ _ | fa_step)

theorem fa_maildirStdin (env : PEnv) (input : Bytes) : Calls (ForkArgv A) (maildirStdin env input) := by
  unfold maildirStdin gennameStart
  simp only [bind_eq, pure_eq, call_bind]
  repeat' (first | exact fa_genname env _ _ _ _ | exact fa_maildirOpendir _ _ | exact fa_copyStdin _ _ _ | fa_step)

/-- The vectors a child of a run over the configuration can be started with: those of one of its rule trees. -/
def ConfArgv (conf : List ConfBlock) (av : List Bytes) : Prop := ∃ b ∈ conf, ChildArgv b.expr av

theorem fa_paths (env : PEnv) (orc : EvalOracles) (input : Bytes) (b : ConfBlock) (ps : List Bytes) (st : MainSt) :
    Calls (ForkArgv (ChildArgv b.expr)) (mainP.blocks.paths env orc input b ps st) := by
  induction ps generalizing st with
  | nil => rw [paths_nil]; exact Calls.ret_intro _
  | cons p more ih =>
    rw [paths_cons]
    repeat' (first | exact ih _ | exact fa_walk _ _ _ _ _ _ | exact fa_maildirOpendir _ _ | exact fa_maildirClose _ | exact fa_maildirStdin _ _ | exact fa_closeStdin _ _ | fa_step)

theorem ForkArgv.mono {A B : List Bytes → Prop} (h : ∀ av, A av → B av) {c : Call} (hc : ForkArgv A c) : ForkArgv B c := by
  cases c <;> first | exact True.intro | exact h _ hc

theorem fa_blocks (env : PEnv) (orc : EvalOracles) (input : Bytes) (conf : List ConfBlock) (bs : List ConfBlock)
    (hbs : ∀ b ∈ bs, b ∈ conf) (st : MainSt) :
    Calls (ForkArgv (ConfArgv conf)) (mainP.blocks env orc input bs st) := by
  induction bs generalizing st with
  | nil => rw [blocks_nil]; exact Calls.ret_intro _
  | cons b rest ih =>
    rw [blocks_cons]
    refine Calls.bind (calls_mono (fa_paths env orc input b b.paths st) fun c hc =>
      ForkArgv.mono (fun av hav => ⟨b, hbs b (List.mem_cons_self ..), hav⟩) hc) fun st' => ?_
    exact ih (fun x hx => hbs x (List.mem_cons_of_mem _ hx)) _

/-- **Every `fork` of a run of `main` carries the interpolation of the configured strings of an `exec` action or a `command`
condition of the configuration** - whatever the calls return. -/
theorem fa_mainP (env : PEnv) (orc : EvalOracles) (ok : Bool) (conf : List ConfBlock) (files : Files) (input : Bytes) :
    Calls (ForkArgv (ConfArgv conf)) (mainP env orc ok conf files input) := by
  rw [mainP_eq]
  refine Calls.call_intro True.intro fun r => ?_
  cases r with
  | ok h =>
    refine Calls.call_intro True.intro fun _ => ?_
    unfold mainK
    repeat' (first | exact fa_blocks env orc input conf conf (fun _ h => h) _ | fa_step)
  | err e => exact Calls.ret_intro _
  | name n => exact Calls.ret_intro _
  | eof => exact Calls.ret_intro _

end Mdsort.Proofs.Own
