import Mdsort.Proofs.WorldHoare

/-! Specifications of the scripts of `matches_exec` in the calculus of `WorldHoare`. -/

namespace Mdsort.Proofs.World
open Mdsort Mdsort.Model

theorem dirPath_congr {w w' : World} {d : Handle} (h : w'.obj d = w.obj d) : w'.dirPath d = w.dirPath d := by
  unfold World.dirPath; rw [h]

theorem core_openExcl_ok {w : World} {d : Handle} {n p : Bytes} (hp : w.dirPath d = some p) (hl : w.lookup p n = none) (v : Nat) :
    core w (.openExcl d n) (.ok v) =
      (((({ w with nextFid := w.nextFid + 1 } : World).setFile w.nextFid ⟨[], []⟩).bind p n w.nextFid).newHandle (.file w.nextFid 0 true)).1 := by
  simp [core, applyOk, hp, hl]

theorem openExcl_results (f : Option Fault) (w : World) (d : Handle) (n : Bytes) :
    (∃ e, faultResult f w (.openExcl d n) = .err e) ∨
    (faultResult f w (.openExcl d n) = .ok w.handles.length ∧ ∃ p, w.dirPath d = some p ∧ w.lookup p n = none) := by
  rcases faultResult_cases f w (.openExcl d n) (by intro _ h; cases h) (by intro _ _ h; cases h) with h | h
  · rw [h]
    simp only [predict]
    split
    · exact .inl ⟨_, rfl⟩
    · rename_i p hp
      split
      · exact .inl ⟨_, rfl⟩
      · rename_i hl
        right
        refine ⟨rfl, p, hp, ?_⟩
        simpa using hl
  · exact .inl h

/-- What a successful exclusive create leaves behind. -/
structure NewFile (w : World) (d fd : Handle) (name p : Bytes) (fid : Nat) : Prop where
  dirPath : w.dirPath d = some p
  bound : (w.dir p).isSome → w.lookup p name = some fid
  file : w.file fid = some ⟨[], []⟩
  fidLt : fid < w.nextFid
  obj : w.obj fd = .file fid 0 true
  fdLt : fd < w.handles.length
  dLt : d < fd

theorem newFile_of_openExcl {w : World} {d : Handle} {n p : Bytes} (hp : w.dirPath d = some p) (hl : w.lookup p n = none) :
    NewFile (stepWorld w (.openExcl d n) (.ok w.handles.length)) d w.handles.length n p w.nextFid := by
  have hd : d < w.handles.length := lt_of_dirPath hp
  have hne : d ≠ w.handles.length := Nat.ne_of_lt hd
  refine ⟨?_, ?_, ?_, ?_, ?_, ?_, hd⟩
  · rw [← hp]
    exact dirPath_congr (core_obj w _ _ d hd (by simp [Call.subject]))
  · intro hdir
    simp only [stepWorld_dir, stepWorld_lookup, core_openExcl_ok hp hl, dir_newHandle, dir_bind_isSome, dir_setFile, lookup_newHandle] at hdir ⊢
    rw [lookup_bind _ _ _ _ _ _ (by exact hdir)]
    simp
  · simp [core_openExcl_ok hp hl, file_setFile]
  · simp [core_openExcl_ok hp hl]
  · simp [core_openExcl_ok hp hl, obj_newHandle]
  · simp [core_openExcl_ok hp hl]


theorem spec_genname (env : PEnv) (md : Maildir) (flags : Option Bytes) (cs : List Bytes) (p0 n0 : Bytes) (fid0 : Nat)
    (J : World → Prop) (hJ : ∀ w d n r, J w → J (stepWorld w (.openExcl d n) r))
    (fuel count : Nat) {w : World} (hg : GoodAt w cs p0 n0 fid0) (hj : J w) :
    wp (fun w' => GoodAt w' cs p0 n0 fid0) (genname env md flags fuel count)
      (fun res w' => GoodAt w' cs p0 n0 fid0 ∧ J w' ∧
        ∀ fd name, res = some (fd, name) →
          ∃ d p fid, md.dirH = some d ∧ NewFile w' d fd name p fid ∧ fid0 < fid ∧ ¬(p = p0 ∧ name = n0)) w := by
  induction fuel generalizing count w with
  | zero => exact ⟨hg, hj, by intro _ _ h; cases h⟩
  | succ fuel ih =>
    unfold genname
    simp only [bind_eq, pure_eq, call_bind]
    generalize (decimalInt env.now ++ [46] ++ decimal env.pid ++ [95] ++ decimal ((count + 1) % gennameWrap) ++ [46] ++ env.host ++
          flags.getD []) = nm
    split
    · exact ⟨hg, hj, by intro _ _ h; cases h⟩
    · split
      · exact ⟨hg, hj, by intro _ _ h; cases h⟩
      · rename_i d hd
        intro f
        have hg' := hg.step (.openExcl d nm) (faultResult f w (.openExcl d nm)) trivial trivial
        have hj' := hJ w d nm (faultResult f w (.openExcl d nm)) hj
        refine ⟨hg', ?_⟩
        rcases openExcl_results f w d nm with ⟨e, he⟩ | ⟨he, p, hp, hl⟩
        · rw [he] at hg' hj' ⊢
          dsimp only
          split
          · exact ih _ hg' hj'
          · exact ⟨hg', hj', by intro _ _ h; cases h⟩
        · rw [he] at hg' hj' ⊢
          refine ⟨hg', hj', ?_⟩
          intro fd name h
          simp only [Option.some.injEq, Prod.mk.injEq] at h
          obtain ⟨rfl, rfl⟩ := h
          refine ⟨d, p, w.nextFid, hd, newFile_of_openExcl hp hl, hg.2.1, ?_⟩
          rintro ⟨rfl, rfl⟩
          rw [hg.1] at hl; cases hl

theorem results_simple (f : Option Fault) (w : World) (c : Call) (v : Nat)
    (h1 : ∀ fd, c ≠ .read fd) (h2 : ∀ fd d, c ≠ .write fd d) (hp : predict w c = .ok v) :
    faultResult f w c = .ok v ∨ ∃ e, faultResult f w c = .err e := by
  rcases faultResult_cases f w c h1 h2 with h | h
  · exact .inl (h.trans hp)
  · exact .inr h

theorem dirSafe_of_not_dirOp {c : Call} (h : Call.dirOp c = false) (w : World) (p n : Bytes) : dirSafe w p n c := by
  cases c <;> first | trivial | (simp [Call.dirOp] at h)

/-- Frame of `message_write` and of the temporary-file scripts, relative to the world `w0` at their start:
a fixed good entry, the same directories, no new file ids, the handles that existed are untouched. -/
structure Fr (cs : List Bytes) (p0 n0 : Bytes) (fid0 : Nat) (w0 w : World) : Prop where
  good : GoodAt w cs p0 n0 fid0
  dirs : w.dirs = w0.dirs
  objs : ∀ h, h < w0.handles.length → w.obj h = w0.obj h
  len : w0.handles.length ≤ w.handles.length
  nextFid : w0.nextFid ≤ w.nextFid

theorem Fr.refl {cs p0 n0 fid0} {w : World} (hg : GoodAt w cs p0 n0 fid0) : Fr cs p0 n0 fid0 w w :=
  ⟨hg, rfl, fun _ _ => rfl, Nat.le_refl _, Nat.le_refl _⟩

theorem Fr.step {cs p0 n0 fid0} {w0 w : World} (fr : Fr cs p0 n0 fid0 w0 w) (c : Call) (r : Res)
    (hd : Call.dirOp c = false) (hsub : ∀ h, Call.subject c = some h → w0.handles.length ≤ h)
    (hfs : fileSafe w fid0 c) : Fr cs p0 n0 fid0 w0 (stepWorld w c r) := by
  refine ⟨fr.good.step c r (dirSafe_of_not_dirOp hd _ _ _) hfs, ?_, ?_, ?_, ?_⟩
  · simp [core_dirs w c r hd, fr.dirs]
  · intro h hh
    rw [stepWorld_obj, core_obj w c r h (Nat.lt_of_lt_of_le hh fr.len), fr.objs h hh]
    intro hs
    have := hsub h hs
    omega
  · simpa using Nat.le_trans fr.len (core_len w c r)
  · simpa using Nat.le_trans fr.nextFid (core_nextFid w c r)

theorem Fr.trans {cs p0 n0 fid0} {w0 w1 w2 : World} (a : Fr cs p0 n0 fid0 w0 w1) (b : Fr cs p0 n0 fid0 w1 w2) :
    Fr cs p0 n0 fid0 w0 w2 :=
  ⟨b.good, b.dirs.trans a.dirs, fun h hh => (b.objs h (Nat.lt_of_lt_of_le hh a.len)).trans (a.objs h hh),
   Nat.le_trans a.len b.len, Nat.le_trans a.nextFid b.nextFid⟩

def hdrLine (h : Hdr) : Bytes := h.key ++ [58, 32] ++ h.val ++ [10]

theorem spec_hdrs {cs : List Bytes} {p0 n0 : Bytes} {fid0 : Nat} (w0 : World) (newfd : Handle) (fid : Nat) (f : File)
    (hne : fid ≠ fid0) (hN : w0.handles.length ≤ newfd) (hs : List Hdr) {w : World} {buf : Bytes}
    (fr : Fr cs p0 n0 fid0 w0 w) (ho : w.obj newfd = .stream fid buf) (hf : w.file fid = some f) :
    wp (fun w' => GoodAt w' cs p0 n0 fid0) (messageWriteP.hdrs newfd hs)
      (fun err w' => Fr cs p0 n0 fid0 w0 w' ∧ w'.file fid = some f ∧
        ∃ buf', w'.obj newfd = .stream fid buf' ∧ (err = false → buf' = buf ++ hs.flatMap hdrLine)) w := by
  induction hs generalizing w buf with
  | nil =>
    unfold messageWriteP.hdrs
    exact ⟨fr, hf, buf, ho, by simp⟩
  | cons h rest ih =>
    unfold messageWriteP.hdrs
    simp only [bind_eq, pure_eq, call_bind]
    have hfs : fileSafe w fid0 (.fprintf newfd (h.key ++ [58, 32] ++ h.val ++ [10])) := by
      simp [fileSafe, ho, objFid, hne]
    refine wp_call (fun r => r = .ok (hdrLine h).length ∨ ∃ e, r = .err e)
      (fun ft => results_simple ft w _ _ (by intro _ h; cases h) (by intro _ _ h; cases h) rfl) ?_
    intro r hr
    have fr' := fr.step (.fprintf newfd (hdrLine h)) r rfl (by intro x hx; cases hx; exact hN) hfs
    refine ⟨fr'.good, ?_⟩
    rcases hr with rfl | ⟨e, rfl⟩
    · have hc := core_fprintf_ok ho (hdrLine h)
      simp only [isOk, if_true]
      have := ih fr' (buf := buf ++ hdrLine h) (by simp [hc, obj_setObj, lt_of_obj_ne_closed w newfd (by simp [ho])])
        (by simp [hc, hf])
      refine wp_mono this ?_
      rintro err w' ⟨a, b, buf', c, d⟩
      exact ⟨a, b, buf', c, fun he => by simp [d he, List.flatMap_cons]⟩
    · simp only [isOk]
      have hc := core_err w (.fprintf newfd (hdrLine h)) e (by intro _ h; cases h) (by intro _ h; cases h) (by intro _ h; cases h)
      refine ⟨fr', ?_, buf, ?_, by intro h; cases h⟩
      · show (core w (.fprintf newfd (hdrLine h)) (.err e)).file fid = some f
        rw [hc]; exact hf
      · show (core w (.fprintf newfd (hdrLine h)) (.err e)).obj newfd = _
        rw [hc]; exact ho

/-- State while the stream `N` on file `fid` is being written. -/
structure WSt (cs : List Bytes) (p0 n0 : Bytes) (fid0 : Nat) (w0 : World) (N : Handle) (fid : Nat) (w : World) (f : File) (buf : Bytes) : Prop where
  fr : Fr cs p0 n0 fid0 w0 w
  obj : w.obj N = .stream fid buf
  file : w.file fid = some f

theorem WSt.lt {cs p0 n0 fid0 w0 N fid w f buf} (s : WSt cs p0 n0 fid0 w0 N fid w f buf) : N < w.handles.length :=
  lt_of_obj_ne_closed w N (by simp [s.obj])

theorem WSt.err {cs p0 n0 fid0 w0 N fid w f buf} (s : WSt cs p0 n0 fid0 w0 N fid w f buf) (_hne : fid ≠ fid0)
    (hN : w0.handles.length ≤ N) (c : Call) (e : String)
    (hd : Call.dirOp c = false) (hsub : ∀ h, Call.subject c = some h → h = N)
    (h1 : ∀ d, c ≠ .closedir d) (h2 : ∀ d, c ≠ .close d) (h3 : ∀ d, c ≠ .fclose d)
    (hfs : fileSafe w fid0 c) :
    WSt cs p0 n0 fid0 w0 N fid (stepWorld w c (.err e)) f buf := by
  have hc := core_err w c e h1 h2 h3
  refine ⟨s.fr.step c _ hd (fun h hh => by rw [hsub h hh]; exact hN) hfs, ?_, ?_⟩
  · rw [stepWorld_obj, hc]; exact s.obj
  · rw [stepWorld_file, hc]; exact s.file

theorem WSt.fileSafe {cs p0 n0 fid0 w0 N fid w f buf} (s : WSt cs p0 n0 fid0 w0 N fid w f buf) (hne : fid ≠ fid0) :
    objFid (w.obj N) ≠ some fid0 := by
  simp [s.obj, objFid, hne]

theorem WSt.fprintf {cs p0 n0 fid0 w0 N fid w f buf} (s : WSt cs p0 n0 fid0 w0 N fid w f buf) (hne : fid ≠ fid0)
    (hN : w0.handles.length ≤ N) (data : Bytes) :
    WSt cs p0 n0 fid0 w0 N fid (stepWorld w (.fprintf N data) (.ok data.length)) f (buf ++ data) := by
  have hc := core_fprintf_ok s.obj data
  refine ⟨s.fr.step _ _ rfl (fun h hh => by cases hh; exact hN) (s.fileSafe hne), ?_, ?_⟩
  · rw [stepWorld_obj, hc]; simp [obj_setObj, s.lt]
  · rw [stepWorld_file, hc]; simpa using s.file

theorem WSt.fflush {cs p0 n0 fid0 w0 N fid w f buf} (s : WSt cs p0 n0 fid0 w0 N fid w f buf) (hne : fid ≠ fid0)
    (hN : w0.handles.length ≤ N) (v : Nat) :
    WSt cs p0 n0 fid0 w0 N fid (stepWorld w (.fflush N) (.ok v)) { f with data := f.data ++ buf } [] := by
  have hc := core_fflush_ok s.obj s.file v
  refine ⟨s.fr.step _ _ rfl (fun h hh => by cases hh; exact hN) (s.fileSafe hne), ?_, ?_⟩
  · rw [stepWorld_obj, hc]; simp [obj_setObj, s.lt]
  · rw [stepWorld_file, hc]; simp [file_setFile]

theorem WSt.fsync {cs p0 n0 fid0 w0 N fid w f buf} (s : WSt cs p0 n0 fid0 w0 N fid w f buf) (hne : fid ≠ fid0)
    (_hN : w0.handles.length ≤ N) (v : Nat) :
    WSt cs p0 n0 fid0 w0 N fid (stepWorld w (.fsync N) (.ok v)) { f with durable := f.data } buf := by
  have hc := core_fsync_stream_ok s.obj s.file v
  refine ⟨s.fr.step _ _ rfl (fun h hh => by cases hh) (s.fileSafe hne), ?_, ?_⟩
  · rw [stepWorld_obj, hc]; simpa using s.obj
  · rw [stepWorld_file, hc]; simp [file_setFile]

/-- The part of `message_write` between the header lines and `fclose`. -/
def mwTail (newfd : Handle) (body : Bytes) (herr : Bool) : Prog Bool :=
  if herr = true then Prog.ret true
  else
    Prog.call (Call.fprintf newfd ([10] ++ body)) fun r =>
      if (!isOk r) = true then Prog.ret true
      else
        Prog.call (Call.fflush newfd) fun r =>
          if (!isOk r) = true then Prog.ret true
          else Prog.call (Call.fsync newfd) fun r => Prog.ret !isOk r

theorem spec_mwTail {cs p0 n0 fid0 w0 N fid w f buf} (s : WSt cs p0 n0 fid0 w0 N fid w f buf) (hne : fid ≠ fid0)
    (hN : w0.handles.length ≤ N) (body : Bytes) (herr : Bool) :
    wp (fun w' => GoodAt w' cs p0 n0 fid0) (mwTail N body herr)
      (fun err w' => ∃ f' buf', WSt cs p0 n0 fid0 w0 N fid w' f' buf' ∧
        (err = false → herr = false ∧ f'.data = f.data ++ buf ++ [10] ++ body ∧ f'.durable = f'.data ∧ buf' = [])) w := by
  unfold mwTail
  split
  · exact ⟨f, buf, s, by intro h; cases h⟩
  · rename_i hherr
    refine wp_call (fun r => r = .ok ([10] ++ body).length ∨ ∃ e, r = .err e)
      (fun ft => results_simple ft w _ _ (by intro _ h; cases h) (by intro _ _ h; cases h) rfl) ?_
    rintro r (rfl | ⟨e, rfl⟩)
    · have s1 := s.fprintf hne hN ([10] ++ body)
      refine ⟨s1.fr.good, ?_⟩
      simp only [isOk, Bool.not_true, Bool.false_eq_true, if_false]
      refine wp_call (fun r => r = .ok 0 ∨ ∃ e, r = .err e)
        (fun ft => results_simple ft _ _ _ (by intro _ h; cases h) (by intro _ _ h; cases h) rfl) ?_
      rintro r (rfl | ⟨e, rfl⟩)
      · have s2 := s1.fflush hne hN 0
        refine ⟨s2.fr.good, ?_⟩
        simp only [Bool.not_true, Bool.false_eq_true, if_false]
        refine wp_call (fun r => r = .ok 0 ∨ ∃ e, r = .err e)
          (fun ft => results_simple ft _ _ _ (by intro _ h; cases h) (by intro _ _ h; cases h) rfl) ?_
        rintro r (rfl | ⟨e, rfl⟩)
        · have s3 := s2.fsync hne hN 0
          refine ⟨s3.fr.good, _, _, s3, ?_⟩
          intro _
          refine ⟨by simpa using hherr, ?_, rfl, rfl⟩
          simp [List.append_assoc]
        · have s3 := s2.err hne hN (.fsync N) e rfl (by intro _ h; cases h) (by intro _ h; cases h) (by intro _ h; cases h)
            (by intro _ h; cases h) (s2.fileSafe hne)
          exact ⟨s3.fr.good, _, _, s3, by intro h; simp at h⟩
      · have s2 := s1.err hne hN (.fflush N) e rfl (by intro _ h; cases h; rfl) (by intro _ h; cases h) (by intro _ h; cases h)
          (by intro _ h; cases h) (s1.fileSafe hne)
        exact ⟨s2.fr.good, _, _, s2, by intro h; simp at h⟩
    · have s1 := s.err hne hN (.fprintf N ([10] ++ body)) e rfl (by intro _ h; cases h; rfl) (by intro _ h; cases h)
        (by intro _ h; cases h) (by intro _ h; cases h) (s.fileSafe hne)
      exact ⟨s1.fr.good, _, _, s1, by intro h; simp at h⟩

theorem render_eq (m : Msg) : (messageWrite m).1 = (sortById m.headers).flatMap hdrLine ++ [10] ++ m.body := rfl

theorem spec_messageWriteP {cs : List Bytes} {p0 n0 : Bytes} {fid0 : Nat} (m : Msg) (fd : Handle) {w : World}
    {fid off : Nat} {wr : Bool} {f0 : File}
    (hg : GoodAt w cs p0 n0 fid0) (ho : w.obj fd = .file fid off wr) (hne : fid ≠ fid0) (hf : w.file fid = some f0) :
    wp (fun w' => GoodAt w' cs p0 n0 fid0) (messageWriteP m fd)
      (fun err w' => Fr cs p0 n0 fid0 w w' ∧ ∃ f, w'.file fid = some f ∧
          (err = false → f.data = f0.data ++ (messageWrite m).1 ∧ f.durable = f.data)) w := by
  unfold messageWriteP
  simp only [bind_eq, pure_eq, call_bind]
  refine wp_call (fun r => r = .ok w.handles.length ∨ ∃ e, r = .err e)
    (fun ft => results_simple ft w _ _ (by intro _ h; cases h) (by intro _ _ h; cases h) rfl) ?_
  intro r hr
  have fr1 := (Fr.refl hg).step (.dupfd fd) r rfl (by intro _ h; cases h) trivial
  refine ⟨fr1.good, ?_⟩
  rcases hr with rfl | ⟨e, rfl⟩
  rotate_left
  · have hc := core_err w (.dupfd fd) e (by intro _ h; cases h) (by intro _ h; cases h) (by intro _ h; cases h)
    exact ⟨fr1, f0, by rw [stepWorld_file, hc]; exact hf, by intro h; cases h⟩
  have hc1 := core_dupfd_ok ho w.handles.length
  generalize hw1 : stepWorld w (.dupfd fd) (.ok w.handles.length) = w1 at fr1 ⊢
  have ho1 : w1.obj w.handles.length = .file fid off wr := by
    rw [← hw1, stepWorld_obj, hc1]; simp [obj_newHandle]
  have hf1 : w1.file fid = some f0 := by
    rw [← hw1, stepWorld_file, hc1]; simpa using hf
  dsimp only
  refine wp_call (fun r => r = .ok 0 ∨ ∃ e, r = .err e)
    (fun ft => results_simple ft w1 _ _ (by intro _ h; cases h) (by intro _ _ h; cases h) rfl) ?_
  intro r hr
  have fr2 := fr1.step (.fdopen w.handles.length) r rfl (by intro _ h; cases h; exact Nat.le_refl _) trivial
  refine ⟨fr2.good, ?_⟩
  rcases hr with rfl | ⟨e, rfl⟩
  rotate_left
  · have hc := core_err w1 (.fdopen w.handles.length) e (by intro _ h; cases h) (by intro _ h; cases h) (by intro _ h; cases h)
    simp only [isOk, Bool.not_false, if_true]
    intro ft
    generalize faultResult ft _ (.close w.handles.length) = r3
    have fr3 := fr2.step (.close w.handles.length) r3 rfl
      (by intro _ h; cases h; exact Nat.le_refl _) trivial
    refine ⟨fr3.good, fr3, f0, ?_, by intro h; cases h⟩
    rw [stepWorld_file, core_close]
    simp only [file_setObj, stepWorld_file, hc]
    exact hf1
  have hc2 := core_fdopen_ok ho1 0
  have s2 : WSt cs p0 n0 fid0 w w.handles.length fid (stepWorld w1 (.fdopen w.handles.length) (.ok 0)) f0 [] := by
    refine ⟨fr2, ?_, ?_⟩
    · rw [stepWorld_obj, hc2]; simp [obj_setObj, lt_of_obj_ne_closed w1 w.handles.length (by simp [ho1])]
    · rw [stepWorld_file, hc2]; simpa using hf1
  simp only [isOk, Bool.not_true, Bool.false_eq_true, if_false]
  refine wp_bind_mono (spec_hdrs w w.handles.length fid f0 hne (Nat.le_refl _) (sortById m.headers) s2.fr s2.obj s2.file) ?_
  rintro herr w3 ⟨fr3, hf3, buf3, ho3, hbuf3⟩
  have s3 : WSt cs p0 n0 fid0 w w.handles.length fid w3 f0 buf3 := ⟨fr3, ho3, hf3⟩
  refine wp_bind_mono (spec_mwTail s3 hne (Nat.le_refl _) m.body herr) ?_
  rintro err1 w4 ⟨f4, buf4, s4, h4⟩
  intro ft
  generalize faultResult ft w4 (.fclose w.handles.length) = r3
  have fr5 := s4.fr.step (.fclose w.handles.length) r3 rfl (by intro _ h; cases h; exact Nat.le_refl _) (s4.fileSafe hne)
  refine ⟨fr5.good, fr5, ?_⟩
  have hc5 := core_fclose_stream s4.obj s4.file r3
  cases r3 with
  | err e =>
    refine ⟨f4, ?_, by intro h; simp at h⟩
    rw [stepWorld_file, hc5]; simpa [Res.isErr] using s4.file
  | ok v =>
    refine ⟨{ f4 with data := f4.data ++ buf4 }, ?_, ?_⟩
    · rw [stepWorld_file, hc5]; simp [Res.isErr, file_setFile]
    · intro he
      simp only [Bool.not_true, Bool.or_false] at he
      obtain ⟨hherr, hd, hdur, hb⟩ := h4 he
      subst hb
      simp only [List.append_nil]
      refine ⟨?_, hdur⟩
      rw [hd, hbuf3 hherr, render_eq]
      simp [List.append_assoc]
  | name n =>
    refine ⟨{ f4 with data := f4.data ++ buf4 }, ?_, ?_⟩
    · rw [stepWorld_file, hc5]; simp [Res.isErr, file_setFile]
    · intro he
      simp only [Bool.not_true, Bool.or_false] at he
      obtain ⟨hherr, hd, hdur, hb⟩ := h4 he
      subst hb
      simp only [List.append_nil]
      refine ⟨?_, hdur⟩
      rw [hd, hbuf3 hherr, render_eq]
      simp [List.append_assoc]
  | eof =>
    refine ⟨{ f4 with data := f4.data ++ buf4 }, ?_, ?_⟩
    · rw [stepWorld_file, hc5]; simp [Res.isErr, file_setFile]
    · intro he
      simp only [Bool.not_true, Bool.or_false] at he
      obtain ⟨hherr, hd, hdur, hb⟩ := h4 he
      subst hb
      simp only [List.append_nil]
      refine ⟨?_, hdur⟩
      rw [hd, hbuf3 hherr, render_eq]
      simp [List.append_assoc]

end Mdsort.Proofs.World
