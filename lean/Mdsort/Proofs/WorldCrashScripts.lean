import Mdsort.Proofs.WorldCrash

/-!
# `DI` through the scripts of `matches_exec`

The only `fsync` of `matches_exec` (outside the temporary file of `exec stdin` of an attachment) is the one of
`message_write`, issued after `fflush` has put the complete message into the file `maildir_genname` has just made.
-/

namespace Mdsort.Proofs.World
open Mdsort Mdsort.Model

macro "nofs_step" : tactic =>
  `(tactic| first
      | (with_reducible exact Calls.ret_intro' _)
      | ((with_reducible show NotFsync _); exact True.intro)
      | (with_reducible apply Calls.call_intro')
      | (intro _)
      | (with_reducible apply Calls.bind)
      | split
      | (dsimp only; split))

theorem nofs_genname (env : PEnv) (md : Maildir) (flags : Option Bytes) (fuel count : Nat) :
    Calls NotFsync (genname env md flags fuel count) := by
  induction fuel generalizing count with
  | zero => exact Calls.ret_intro' _
  | succ fuel ih =>
    unfold genname
    simp only [bind_eq, pure_eq, call_bind]
    repeat' (first | exact ih _ | nofs_step)

theorem nofs_maildirOpendir (md : Maildir) (path : Bytes) : Calls NotFsync (maildirOpendir md path) := by
  unfold maildirOpendir
  simp only [bind_eq, pure_eq, call_bind]
  repeat' nofs_step

theorem nofs_maildirOpenDst (path : Bytes) : Calls NotFsync (maildirOpenDst path) := by
  unfold maildirOpenDst
  simp only [bind_eq, pure_eq]
  repeat' (first | exact nofs_maildirOpendir _ _ | nofs_step)

theorem nofs_maildirClose (md : Maildir) : Calls NotFsync (maildirClose md) := by
  unfold maildirClose
  simp only [bind_eq, pure_eq, call_bind]
  repeat' nofs_step

theorem nofs_maildirUnlink (md : Maildir) (name : Bytes) : Calls NotFsync (maildirUnlink md name) := by
  unfold maildirUnlink
  simp only [bind_eq, pure_eq, call_bind]
  repeat' nofs_step

theorem nofs_hdrs (newfd : Handle) (hs : List Hdr) : Calls NotFsync (messageWriteP.hdrs newfd hs) := by
  induction hs with
  | nil => unfold messageWriteP.hdrs; exact Calls.ret_intro' _
  | cons h rest ih =>
    unfold messageWriteP.hdrs
    simp only [bind_eq, pure_eq, call_bind]
    repeat' (first | exact ih | nofs_step)

theorem nofs_messageSetFileMoved (ms : MsgSt) (s d : Subdir) (dir name : Bytes) :
    Calls NotFsync (messageSetFileMoved ms s d dir name) := by
  unfold messageSetFileMoved
  simp only [bind_eq, pure_eq, call_bind]
  repeat' nofs_step

theorem nofs_messageSetFile (ms : MsgSt) (dir name : Bytes) (fd : Option Handle) :
    Calls NotFsync (messageSetFile ms dir name fd) := by
  unfold messageSetFile
  simp only [bind_eq, pure_eq, call_bind]
  repeat' nofs_step

theorem nofs_writefd (tmpdir : Bytes) : Calls NotFsync (writefd tmpdir) := by
  unfold writefd
  simp only [bind_eq, pure_eq, call_bind]
  repeat' nofs_step

theorem nofs_writeAll (fd : Handle) (fuel : Nat) (data : Bytes) : Calls NotFsync (writeAll fd fuel data) := by
  induction fuel generalizing data with
  | zero => unfold writeAll; exact Calls.ret_intro' _
  | succ fuel ih =>
    unfold writeAll
    simp only [bind_eq, pure_eq, call_bind]
    repeat' (first | exact ih _ | nofs_step)

theorem nofs_execP (argv : List Bytes) (fdin : Option Handle) : Calls NotFsync (execP argv fdin) := by
  unfold execP
  simp only [bind_eq, pure_eq, call_bind]
  repeat' nofs_step

/-- `message_get_fd` when it does not render an attachment into a temporary file (the whole message: a duplicate of its
descriptor; a body: written with `write`, not synced). -/
theorem nofs_messageGetFd (env : PEnv) (ms : MsgSt) (part : Option Msg) (dobody : Bool) (h : dobody = true ∨ part = none) :
    Calls NotFsync (messageGetFd env ms part dobody) := by
  unfold messageGetFd
  simp only [bind_eq, pure_eq, call_bind]
  rcases h with rfl | rfl
  · simp only [if_true]
    repeat' (first | exact nofs_writefd _ | exact nofs_writeAll _ _ _ | nofs_step)
  · simp only [Option.isSome_none, Bool.false_eq_true, if_false]
    repeat' (first | exact nofs_writefd _ | exact nofs_writeAll _ _ _ | nofs_step)

section
variable {N0 : Nat} {cs : List Bytes}

/-- The tail of `message_write` (`mwTail`): the `fsync` comes after `fflush` has made the complete message visible. -/
theorem di_mwTail {w0 : World} {N : Handle} {fid : Nat} {w : World} {f : File} {buf : Bytes} (s : WSt1 w0 N fid w f buf)
    (hN : w0.handles.length ≤ N) (body : Bytes) (herr : Bool) (hdi : DI N0 cs w)
    (hcs : herr = false → f.data ++ (buf ++ ([10] ++ body)) ∈ cs) :
    wp (DI N0 cs) (mwTail N body herr) (fun _ w' => DI N0 cs w') w := by
  unfold mwTail
  split
  · exact hdi
  · rename_i hherr
    have hherr' : herr = false := by simpa using hherr
    refine wp_call (fun r => r = .ok ([10] ++ body).length ∨ ∃ e, r = .err e)
      (fun ft => results_simple ft w _ _ (by intro _ h; cases h) (by intro _ _ h; cases h) rfl) ?_
    rintro r (rfl | ⟨e, rfl⟩)
    · have s1 := s.fprintf hN ([10] ++ body)
      have hdi1 := hdi.step_other (.fprintf N ([10] ++ body)) (.ok ([10] ++ body).length) True.intro
      refine ⟨hdi1, ?_⟩
      simp only [isOk, Bool.not_true, Bool.false_eq_true, if_false]
      refine wp_call (fun r => r = .ok 0 ∨ ∃ e, r = .err e)
        (fun ft => results_simple ft _ _ _ (by intro _ h; cases h) (by intro _ _ h; cases h) rfl) ?_
      rintro r (rfl | ⟨e, rfl⟩)
      · have s2 := s1.fflush hN 0
        have hdi2 := hdi1.step_other (.fflush N) (.ok 0) True.intro
        refine ⟨hdi2, ?_⟩
        simp only [Bool.not_true, Bool.false_eq_true, if_false]
        refine wp_call_any fun r3 => ?_
        have hdi3 := hdi2.step (.fsync N) r3 (by
          intro fd hfd g f' hobj _ hfile
          cases hfd
          rw [s2.obj] at hobj
          simp only [objFid, Option.some.injEq] at hobj
          subst hobj
          rw [s2.file] at hfile
          cases hfile
          exact .inr (hcs hherr'))
        exact ⟨hdi3, hdi3⟩
      · have hdi2 := hdi1.step_other (.fflush N) (.err e) True.intro
        exact ⟨hdi2, hdi2⟩
    · have hdi1 := hdi.step_other (.fprintf N ([10] ++ body)) (.err e) True.intro
      exact ⟨hdi1, hdi1⟩

/-- `message_write` into a file that is still empty keeps `DI` when the rendered message is a complete version. -/
theorem di_messageWriteP (m : Msg) (fd : Handle) {w : World} {fid off : Nat} {wr : Bool}
    (ho : w.obj fd = .file fid off wr) (hf : w.file fid = some ⟨[], []⟩) (hm : (messageWrite m).1 ∈ cs) (hdi : DI N0 cs w) :
    wp (DI N0 cs) (messageWriteP m fd) (fun _ w' => DI N0 cs w') w := by
  unfold messageWriteP
  simp only [bind_eq, pure_eq, call_bind]
  refine wp_call (fun r => r = .ok w.handles.length ∨ ∃ e, r = .err e)
    (fun ft => results_simple ft w _ _ (by intro _ h; cases h) (by intro _ _ h; cases h) rfl) ?_
  intro r hr
  have fr1 := (Fr1.refl (fun g => g = fid) w).step (.dupfd fd) r rfl (by intro _ h; cases h) (fun _ _ _ => trivial)
  have hdi1 := hdi.step_other (.dupfd fd) r True.intro
  refine ⟨hdi1, ?_⟩
  rcases hr with rfl | ⟨e, rfl⟩
  rotate_left
  · exact hdi1
  have hc1 := core_dupfd_ok ho w.handles.length
  generalize hw1 : stepWorld w (.dupfd fd) (.ok w.handles.length) = w1 at fr1 hdi1 ⊢
  have ho1 : w1.obj w.handles.length = .file fid off wr := by
    rw [← hw1, stepWorld_obj, hc1]; simp [obj_newHandle]
  have hf1 : w1.file fid = some ⟨[], []⟩ := by
    rw [← hw1, stepWorld_file, hc1]; simpa using hf
  dsimp only
  refine wp_call (fun r => r = .ok 0 ∨ ∃ e, r = .err e)
    (fun ft => results_simple ft w1 _ _ (by intro _ h; cases h) (by intro _ _ h; cases h) rfl) ?_
  intro r hr
  have fr2 := fr1.step (.fdopen w.handles.length) r rfl (by intro _ h; cases h; exact Nat.le_refl _) (fun _ _ _ => trivial)
  have hdi2 := hdi1.step_other (.fdopen w.handles.length) r True.intro
  refine ⟨hdi2, ?_⟩
  rcases hr with rfl | ⟨e, rfl⟩
  rotate_left
  · simp only [isOk, Bool.not_false, if_true]
    refine wp_call_any fun r3 => ?_
    have hdi3 := hdi2.step_other (.close w.handles.length) r3 True.intro
    exact ⟨hdi3, hdi3⟩
  have hc2 := core_fdopen_ok ho1 0
  have s2 : WSt1 w w.handles.length fid (stepWorld w1 (.fdopen w.handles.length) (.ok 0)) ⟨[], []⟩ [] := by
    refine ⟨fr2, ?_, ?_⟩
    · rw [stepWorld_obj, hc2]; simp [obj_setObj, lt_of_obj_ne_closed w1 w.handles.length (by simp [ho1])]
    · rw [stepWorld_file, hc2]; simpa using hf1
  simp only [isOk, Bool.not_true, Bool.false_eq_true, if_false]
  refine wp_bind_mono (wp_inv_mono (whole_wp_and (frame_hdrs w w.handles.length fid ⟨[], []⟩ (Nat.le_refl _) (sortById m.headers) s2)
    (wp_DI (nofs_hdrs _ _) hdi2)) (fun _ h => h.2)) ?_
  rintro herr w3 ⟨⟨buf3, s3, hbuf3⟩, hdi3⟩
  refine wp_bind_mono (wp_inv_mono (di_mwTail s3 (Nat.le_refl _) m.body herr hdi3 (by
    intro hherr
    rw [hbuf3 hherr]
    simp only [List.nil_append]
    rw [render_eq] at hm
    simpa [List.append_assoc] using hm)) (fun _ h => h)) ?_
  intro err1 w4 hdi4
  refine wp_call_any fun r3 => ?_
  have hdi5 := hdi4.step_other (.fclose w.handles.length) r3 True.intro
  exact ⟨hdi5, hdi5⟩

/-- `maildir_move` keeps `DI`: its only `fsync` is that of the cross-device copy into the file it has just made. -/
theorem di_maildirMove (env : PEnv) (src dst : Maildir) (ms : MsgSt) {w : World} {p0 n0 : Bytes} {g0 : Nat}
    (hdi : DI N0 cs w) (hg : GoodAt w cs p0 n0 g0) (hm : (messageWrite ms.msg).1 ∈ cs) :
    wp (DI N0 cs) (maildirMove env src dst ms) (fun _ w' => DI N0 cs w') w := by
  unfold maildirMove gennameStart
  simp only [bind_eq, pure_eq, call_bind]
  split
  · exact hdi
  split
  rotate_left
  · exact hdi
  rename_i sh dh hsh hdh
  refine wp_bind_mono (R := fun _ w' => GoodAt w' cs p0 n0 g0 ∧ DI N0 cs w') ?_ ?_
  · split
    · refine wp_call_any fun r => ?_
      have h1 := hg.step (.fstatat sh ms.name) r trivial trivial
      have h2 := hdi.step_other (.fstatat sh ms.name) r True.intro
      exact ⟨h2, h1, h2⟩
    · exact ⟨hg, hdi⟩
  rintro doutime w0 ⟨hg0, hdi0⟩
  split
  · exact hdi0
  rename_i fl _
  refine wp_bind_mono (wp_inv_mono (whole_wp_and (spec_genname env dst (some fl) cs p0 n0 g0 (fun _ => True)
    (fun _ _ _ _ _ => trivial) gennameAttempts _ hg0 trivial) (wp_DI (nofs_genname _ _ _ _ _) hdi0)) fun _ h => h.2) ?_
  rintro g w1 ⟨⟨hg1, -, hnew⟩, hdi1⟩
  cases g with
  | none => exact hdi1
  | some x =>
  obtain ⟨fd, dstname⟩ := x
  obtain ⟨d, p2, fid, hd, nf, hlt, hneq⟩ := hnew fd dstname rfl
  dsimp only
  refine wp_call_any fun r => ?_
  have hdi2 := hdi1.step_other (.renameat sh ms.name dh dstname) r True.intro
  refine ⟨hdi2, ?_⟩
  -- what follows the rename: `message_write` only after `EXDEV`
  cases r with
  | err e =>
    have hc2 := core_err w1 (.renameat sh ms.name dh dstname) e (by intro _ h; cases h) (by intro _ h; cases h) (by intro _ h; cases h)
    have hobj2 : (stepWorld w1 (.renameat sh ms.name dh dstname) (.err e)).obj fd = .file fid 0 true := by
      rw [stepWorld_obj, hc2]; exact nf.obj
    have hfile2 : (stepWorld w1 (.renameat sh ms.name dh dstname) (.err e)).file fid = some ⟨[], []⟩ := by
      rw [stepWorld_file, hc2]; exact nf.file
    dsimp only
    by_cases hx : (e == "EXDEV") = true
    · -- EXDEV: copy, then unlink the source
      simp only [hx, if_true]
      refine wp_bind_mono (R := fun _ w' => DI N0 cs w') ?_ ?_
      · refine wp_bind_mono (di_messageWriteP ms.msg fd hobj2 hfile2 hm hdi2) ?_
        intro we w3 hdi3
        refine wp_DI ?_ hdi3
        repeat' (first | exact nofs_maildirUnlink _ _ | nofs_step)
      · intro x w' h'
        refine wp_DI ?_ h'
        repeat' (first | exact nofs_maildirUnlink _ _ | exact nofs_messageSetFileMoved _ _ _ _ _ | nofs_step)
    · simp only [hx, Bool.false_eq_true, if_false]
      refine wp_DI ?_ hdi2
      repeat' (first | exact nofs_maildirUnlink _ _ | exact nofs_messageSetFileMoved _ _ _ _ _ | nofs_step)
  | ok v =>
    refine wp_DI ?_ hdi2
    repeat' (first | exact nofs_maildirUnlink _ _ | exact nofs_messageSetFileMoved _ _ _ _ _ | nofs_step)
  | name x =>
    refine wp_DI ?_ hdi2
    repeat' (first | exact nofs_maildirUnlink _ _ | exact nofs_messageSetFileMoved _ _ _ _ _ | nofs_step)
  | eof =>
    refine wp_DI ?_ hdi2
    repeat' (first | exact nofs_maildirUnlink _ _ | exact nofs_messageSetFileMoved _ _ _ _ _ | nofs_step)

/-- `maildir_write` keeps `DI`. -/
theorem di_maildirWrite (env : PEnv) (md : Maildir) (ms : MsgSt) {w : World} {p0 n0 : Bytes} {g0 : Nat}
    (hdi : DI N0 cs w) (hg : GoodAt w cs p0 n0 g0) (hm : (messageWrite ms.msg).1 ∈ cs) :
    wp (DI N0 cs) (maildirWrite env md ms) (fun _ w' => DI N0 cs w') w := by
  unfold maildirWrite gennameStart
  simp only [bind_eq, pure_eq, call_bind]
  split
  · exact hdi
  rename_i fl _
  refine wp_bind_mono (wp_inv_mono (whole_wp_and (spec_genname env md (some fl) cs p0 n0 g0 (fun _ => True)
    (fun _ _ _ _ _ => trivial) gennameAttempts _ hg trivial) (wp_DI (nofs_genname _ _ _ _ _) hdi)) fun _ h => h.2) ?_
  rintro g w1 ⟨⟨hg1, -, hnew⟩, hdi1⟩
  cases g with
  | none => exact hdi1
  | some x =>
  obtain ⟨fd, name⟩ := x
  obtain ⟨d, p, fid, hd, nf, hlt, hneq⟩ := hnew fd name rfl
  dsimp only
  refine wp_bind_mono (di_messageWriteP ms.msg fd nf.obj nf.file hm hdi1) ?_
  intro we w2 hdi2
  refine wp_DI ?_ hdi2
  repeat' (first | exact nofs_maildirUnlink _ _ | exact nofs_messageSetFile _ _ _ _ | nofs_step)

/-! ## one entry of the action list, the whole list: lineage, tracked entry and `DI` together -/

/-- No `exec stdin` of an ATTACHMENT without `body`: that is the one place where `message_write` renders something
other than the message (the part) into a file (a temporary one, never bound to an entry) and syncs it. -/
def NoPartPipe (ml : MatchList) : Prop :=
  ∀ m ∈ ml, m.ty = .exec → m.execStdin = true → m.execBody = true ∨ m.part = 0

theorem di_moveBranch (env : PEnv) (mh : Match) (st : ExecSt) {w : World} {p0 n0 : Bytes} {g0 : Nat}
    (hdi : DI N0 cs w) (hg : GoodAt w cs p0 n0 g0) (hm : (messageWrite st.ms.msg).1 ∈ cs) :
    wp (DI N0 cs) (moveBranch env mh st) (fun _ w' => DI N0 cs w') w := by
  unfold moveBranch
  refine wp_bind_mono (wp_inv_mono (whole_wp_and (spec_maildirOpenDst mh.path hg) (wp_DI (nofs_maildirOpenDst _) hdi))
    fun _ h => h.2) ?_
  rintro d w1 ⟨⟨hg1, -⟩, hdi1⟩
  cases d with
  | none => exact hdi1
  | some dst =>
    dsimp only
    refine wp_bind_mono (di_maildirMove env st.src dst st.ms hdi1 hg1 hm) ?_
    intro x w2 hdi2
    refine wp_DI ?_ hdi2
    repeat' (first | exact nofs_maildirClose _ | nofs_step)

theorem di_execOne (env : PEnv) (mh : Match) (st : ExecSt) {w : World} {p0 n0 : Bytes} {g0 : Nat}
    (hdi : DI N0 cs w) (hg : GoodAt w cs p0 n0 g0) (hm : (messageWrite st.ms.msg).1 ∈ cs)
    (hpp : mh.ty = .exec → mh.execStdin = true → mh.execBody = true ∨ mh.part = 0) :
    wp (DI N0 cs) (execOne env mh st) (fun _ w' => DI N0 cs w') w := by
  unfold execOne
  simp only [bind_eq, pure_eq, call_bind]
  split
  · exact di_moveBranch env mh st hdi hg hm
  · exact di_moveBranch env mh st hdi hg hm
  · exact di_moveBranch env mh st hdi hg hm
  · refine wp_DI ?_ hdi
    repeat' (first | exact nofs_maildirUnlink _ _ | nofs_step)
  · refine wp_bind_mono (di_maildirWrite env st.src st.ms hdi hg hm) ?_
    intro x w1 h1; exact h1
  · refine wp_bind_mono (di_maildirWrite env st.src st.ms hdi hg hm) ?_
    intro x w1 h1; exact h1
  · exact hdi
  · rename_i hty
    refine wp_DI ?_ hdi
    refine Calls.bind ?_ fun fdr => ?_
    · split
      · rename_i hst
        refine Calls.bind (nofs_messageGetFd env st.ms _ mh.execBody ?_) fun _ => Calls.ret_intro' _
        rcases hpp hty hst with h | h
        · exact .inl h
        · right; simp [h]
      · exact Calls.ret_intro' _
    · repeat' (first | exact nofs_execP _ _ | nofs_step)
  · exact hdi

end

end Mdsort.Proofs.World
