import Mdsort.Model.LimitsWorld
import Mdsort.Proofs.WorldBasic

/-!
# At the platform's limits the parametrised model IS the model

`XL stdLimits = X` for every function of `Model/Limits.lean` and `Model/LimitsWorld.lean`.
-/

namespace Mdsort.Proofs.Limits
open Mdsort Mdsort.Model Mdsort.Proofs.World

/-! ## setters -/

@[simp] theorem pathjoinL_fin (n : Nat) (d f : Bytes) : pathjoinL (.fin n) d f = pathjoin n d f := rfl
@[simp] theorem strlcpyL_fin (n : Nat) (s : Bytes) : strlcpyL (.fin n) s = strlcpyFits n s := rfl
@[simp] theorem pathsliceL_fin (path : Bytes) (n : Nat) (b e : Int) : pathsliceL path (.fin n) b e = pathslice path n b e := rfl
@[simp] theorem std_pathMax : stdLimits.pathMax = .fin PATH_MAX := rfl
@[simp] theorem std_nameMax1 : stdLimits.nameMax1 = .fin NAME_MAX1 := rfl
@[simp] theorem std_hostMax : stdLimits.hostMax = .fin 256 := rfl

theorem parseSubdirL_std (path : Bytes) : parseSubdirL stdLimits.nameMax1 path = parseSubdir path := rfl

theorem gennameBufL_fin (n : Nat) (name : Bytes) :
    gennameBufL (.fin n) name = if name.length ≥ n then none else some name := by
  unfold gennameBufL Lim.fits
  by_cases h : name.length < n
  · have : ¬ name.length ≥ n := by omega
    simp [h, this]
  · have : name.length ≥ n := by omega
    simp [h, this]

theorem expandTildeL_fin (n : Nat) (home r : Bytes) :
    expandTildeL (.fin n) home (126 :: r) = if home.length + r.length ≥ n then none else some (home ++ r) := by
  unfold expandTildeL Lim.fits
  by_cases h : home.length + r.length < n
  · have : ¬ home.length + r.length ≥ n := by omega
    simp [h, this]
  · have : home.length + r.length ≥ n := by omega
    simp [h, this]

/-! ## evaluator -/

theorem matchesAppendL_std (env : Env) (ml : MatchList) (mh : Match) :
    matchesAppendL stdLimits env ml mh = matchesAppend env ml mh := rfl

theorem exprRegexecL_std (env : Env) (ty : MType) (lno part : Nat) (p : Pat) (key val : Bytes) (st : St) :
    exprRegexecL stdLimits env ty lno part p key val st = exprRegexec env ty lno part p key val st := rfl

theorem exprAppendL_std (env : Env) (mh : Match) (st : St) (ok : Tri) :
    exprAppendL stdLimits env mh st ok = exprAppend env mh st ok := rfl

theorem setAllL_eq (cs : Bytes) (mf : MFlags) (err : Bool) : evalL.setAll cs mf err = eval.setAll cs mf err := by
  induction cs generalizing mf err with
  | nil => simp only [evalL.setAll, eval.setAll]
  | cons c r ih =>
    simp only [evalL.setAll, eval.setAll]
    cases flagsSet mf c with
    | none => exact ih _ _
    | some mf' => exact ih _ _

theorem evalL_std (env : Env) (root : Msg) (e : Expr) : ∀ (part : Nat) (m : Msg) (st : St),
    evalL stdLimits env root e part m st = eval env root e part m st := by
  induction e with
  | block lno e ih => intro part m st; simp only [evalL, eval, ih] <;> rfl
  | and lno l r ihl ihr => intro part m st; simp only [evalL, eval, ihl, ihr] <;> rfl
  | or lno l r ihl ihr => intro part m st; simp only [evalL, eval, ihl, ihr] <;> rfl
  | neg lno e ih => intro part m st; simp only [evalL, eval, ih] <;> rfl
  | mtch lno c rhs ihc ihr => intro part m st; simp only [evalL, eval, ihc, ihr, matchesAppendL_std] <;> rfl
  | attachment lno e ih =>
    intro part m st
    have hloop : ∀ (ps : List Msg) (i : Nat) (st : St),
        evalL.loop stdLimits env root e part ps i st = eval.loop env root e part ps i st := by
      intro ps
      induction ps with
      | nil => intro i st; simp only [evalL.loop, eval.loop]
      | cons p rest ihp => intro i st; simp only [evalL.loop, eval.loop, ih, ihp] <;> rfl
    simp only [evalL, eval, hloop] <;> rfl
  | attBlock lno blk ih =>
    intro part m st
    have hloop : ∀ (ps : List Msg) (i : Nat) (ev : Tri) (st : St),
        evalL.loopB stdLimits env root blk part ps i ev st = eval.loopB env root blk part ps i ev st := by
      intro ps
      induction ps with
      | nil => intro i ev st; simp only [evalL.loopB, eval.loopB]
      | cons p rest ihp => intro i ev st; simp only [evalL.loopB, eval.loopB, ih, ihp] <;> rfl
    simp only [evalL, eval, hloop] <;> rfl
  | header lno names p =>
    intro part m st
    have hvalues : ∀ (k : Bytes) (vs : List Bytes) (st : St),
        evalL.keys.values stdLimits env lno p part k vs st = eval.keys.values env lno p part k vs st := by
      intro k vs
      induction vs with
      | nil => intro st; simp only [evalL.keys.values, eval.keys.values]
      | cons v more ihv => intro st; simp only [evalL.keys.values, eval.keys.values, exprRegexecL_std, ihv] <;> rfl
    have hkeys : ∀ (ks : List Bytes) (st : St),
        evalL.keys stdLimits env lno p part m ks st = eval.keys env lno p part m ks st := by
      intro ks
      induction ks with
      | nil => intro st; simp only [evalL.keys, eval.keys]
      | cons k rest ihk => intro st; simp only [evalL.keys, eval.keys, hvalues, ihk] <;> rfl
    simp only [evalL, eval, hkeys]
  | date lno field cmp age => intro part m st; cases field <;> simp only [evalL, eval, exprRegexecL_std] <;> rfl
  | flags lno fl => intro part m st; simp only [evalL, eval, exprAppendL_std, setAllL_eq] <;> rfl
  | _ =>
    intro part m st
    simp only [evalL, eval, exprRegexecL_std, exprAppendL_std, matchesAppendL_std, std_pathMax, std_nameMax1, strlcpyL_fin,
          pathsliceL_fin]
    try rfl

theorem matchInterpolateL_std (macros : Option (List (Bytes × Bytes))) (ml : MatchList) (i : Nat) (mh : Match) (msgs : Nat → Msg) :
    matchInterpolateL stdLimits macros ml i mh msgs = matchInterpolate macros ml i mh msgs := by
  unfold matchInterpolateL matchInterpolate
  cases h : mh.ty <;> simp only [std_pathMax, strlcpyL_fin] <;> rfl

theorem matchesInterpolateL_go_std (macros : Option (List (Bytes × Bytes))) (rest : MatchList) :
    ∀ (i : Nat) (cur : MatchList) (msgs : Nat → Msg),
      matchesInterpolateL.go stdLimits macros i rest cur msgs = matchesInterpolate.go macros i rest cur msgs := by
  induction rest with
  | nil => intro i cur msgs; simp only [matchesInterpolateL.go, matchesInterpolate.go]
  | cons mh more ih => intro i cur msgs; simp only [matchesInterpolateL.go, matchesInterpolate.go, matchInterpolateL_std, ih] <;> rfl

theorem matchesInterpolateL_std (env : Env) (ml : MatchList) (msgs : Nat → Msg) :
    matchesInterpolateL stdLimits env ml msgs = matchesInterpolate env ml msgs := by
  unfold matchesInterpolateL matchesInterpolate
  exact matchesInterpolateL_go_std _ _ _ _ _

end Mdsort.Proofs.Limits
