import Mdsort.Model.Conf
import Mdsort.Spec.Macro

/-!
# Parse-time macro expansion (`expandMacros`, the macro table) is the documented single pass

`mt_expand_eq`: for every string, context and macro table the loop of `expandmacros` computes the
token-wise substitution of `Spec.mexpand` (and only counts references in the table).
-/

namespace Mdsort.Proofs.MainText
open Mdsort Mdsort.Model Mdsort.Spec

/-! ## `ismacro` (macro.c) and the specification's `refAt` -/

private theorem mt_takeWhile_lt (r : Bytes) :
    (r.takeWhile (fun c => c != 125)).length < r.length ↔ r.contains 125 = true := by
  induction r with
  | nil => simp
  | cons a t ih =>
    by_cases ha : a = 125
    · subst ha; simp
    · have : (a != 125) = true := by simp [ha]
      simp only [List.takeWhile_cons, this, if_true, List.length_cons, Nat.add_lt_add_iff_right, ih,
        List.contains_cons]
      have h2 : ((125 : UInt8) == a) = false := by
        simp only [beq_eq_false_iff_ne, ne_eq]; exact fun h => ha h.symm
      simp [h2]

private theorem mt_split_at (r : Bytes) (h : r.contains 125 = true) :
    r = r.takeWhile (fun c => c != 125) ++ 125 :: (r.dropWhile (fun c => c != 125)).drop 1 := by
  induction r with
  | nil => simp at h
  | cons a t ih =>
    by_cases ha : a = 125
    · subst ha; simp
    · have hne : (a != 125) = true := by simp [ha]
      have h2 : ((125 : UInt8) == a) = false := by
        simp only [beq_eq_false_iff_ne, ne_eq]; exact fun h => ha h.symm
      have ht : t.contains 125 = true := by
        have h' := h
        simp only [List.contains_cons, h2, Bool.false_or] at h'
        exact h'
      simp only [List.takeWhile_cons, hne, if_true, List.dropWhile_cons, List.cons_append]
      rw [← ih ht]

/-- `ismacro` in terms of `refAt`: the same references are recognised, `n` is the length of `${name}`. -/
theorem mt_ismacro_refAt (s : Bytes) :
    (refAt s = none → ismacro s = none) ∧
    (refAt s = some none → ismacro s = some none) ∧
    (∀ name rest, refAt s = some (some (name, rest)) →
      ismacro s = some (some (name, name.length + 3)) ∧ s = 36 :: 123 :: (name ++ 125 :: rest) ∧
      s.drop (name.length + 3) = rest) := by
  unfold refAt ismacro
  split
  next r =>
    by_cases hc : r.contains 125 = true
    · have hlt := (mt_takeWhile_lt r).2 hc
      simp only [hc, if_true, hlt]
      refine ⟨(fun h => by cases h), (fun h => by cases h), ?_⟩
      intro name rest h
      simp only [Option.some.injEq, Prod.mk.injEq] at h
      obtain ⟨hn, hr⟩ := h
      have hsplit := mt_split_at r hc
      rw [hn, hr] at hsplit
      refine ⟨by rw [hn], by rw [← hsplit], ?_⟩
      conv => lhs; rw [hsplit]
      simp [List.drop_append]
    · have hc' : r.contains 125 = false := by
        cases h : r.contains 125
        · rfl
        · exact absurd h hc
      have hlt : ¬ (r.takeWhile (fun c => c != 125)).length < r.length := fun h => hc ((mt_takeWhile_lt r).1 h)
      simp only [hc', Bool.false_eq_true, if_false, hlt]
      exact ⟨(fun h => by cases h), (by first | trivial | exact fun _ => rfl), (fun _ _ h => by cases h)⟩
  next hno =>
    refine ⟨(fun _ => ?_), (fun h => by cases h), (fun _ _ h => by cases h)⟩
    split
    next r => exact (hno r rfl).elim
    next => rfl

/-! ## The macro table: values never change, only counters -/

theorem mt_macroValue_map (f : Macro → Macro) (hf : ∀ x, (f x).name = x.name ∧ (f x).value = x.value) (ms : List Macro)
    (n : Bytes) : macroValue (ms.map f) n = macroValue ms n := by
  induction ms with
  | nil => rfl
  | cons m t ih =>
    unfold macroValue at ih ⊢
    simp only [List.map_cons, List.find?_cons, (hf m).1]
    split
    · simp [(hf m).2]
    · exact ih

/-- Counting a reference (`macro_ref`). -/
def mt_ref (name : Bytes) (ms : List Macro) : List Macro :=
  ms.map fun x => if x.name == name then { x with refs := x.refs + 1 } else x

theorem mt_macroValue_ref (name : Bytes) (ms : List Macro) : macroValue (mt_ref name ms) = macroValue ms := by
  funext n
  apply mt_macroValue_map
  intro x
  split <;> exact ⟨rfl, rfl⟩

theorem mt_macrosUse (ms : List Macro) (name : Bytes) :
    macrosUse ms name = (macroValue ms name).map fun v => (v, mt_ref name ms) := by
  unfold macrosUse macroValue mt_ref
  cases ms.find? (fun m => m.name == name) <;> rfl

/-! ## The loop -/

/-- The table after the references of the tokens have been counted. -/
def mt_bump (ms : List Macro) : List MTok → List Macro
  | [] => ms
  | .ref name :: r => if name = pathName then mt_bump ms r else mt_bump (mt_ref name ms) r
  | .lit _ :: r => mt_bump ms r
  | .unterminated :: r => mt_bump ms r

theorem mt_macroValue_bump (toks : List MTok) : ∀ ms, macroValue (mt_bump ms toks) = macroValue ms := by
  induction toks with
  | nil => intro ms; rfl
  | cons t r ih =>
    intro ms
    cases t with
    | lit c => exact ih ms
    | unterminated => exact ih ms
    | ref name =>
      simp only [mt_bump]
      split
      · exact ih ms
      · rw [ih, mt_macroValue_ref]

/-- After the `$` of a deferred `${path}` the loop copies `{path}` byte by byte. -/
private theorem mt_expand_pathTail (action : Bool) (f : Nat) (post : Bytes) (ms : List Macro) (acc : Bytes) :
    expandMacros action (f + 6) (123 :: 112 :: 97 :: 116 :: 104 :: 125 :: post) ms acc =
      expandMacros action f post ms (acc ++ [123, 112, 97, 116, 104, 125]) := by
  simp [expandMacros, ismacro]

theorem mt_isPath_iff (name : Bytes) : isPathMacro name = true ↔ name = pathName := by
  simp [isPathMacro, pathName]

/-- The loop of `expandmacros` is the token-wise substitution, for every string, context, table,
accumulator and sufficient budgets. -/
theorem mt_expand_eq (action : Bool) : ∀ (n : Nat) (s : Bytes), s.length ≤ n →
    ∀ (fM fS : Nat) (ms : List Macro) (acc : Bytes), s.length < fM → s.length ≤ fS →
      expandMacros action fM s ms acc =
        (msubstAll action (macroValue ms) (mtokensAux fS s)).map fun out => (acc ++ out, mt_bump ms (mtokensAux fS s)) := by
  intro n
  induction n with
  | zero =>
    intro s hs fM fS ms acc hM _
    have : s = [] := List.eq_nil_of_length_eq_zero (by omega)
    subst this
    obtain ⟨fM', rfl⟩ : ∃ k, fM = k + 1 := ⟨fM - 1, by simp at hM; omega⟩
    cases fS <;> simp [expandMacros, mtokensAux, msubstAll, mt_bump]
  | succ n ih =>
    intro s hs fM fS ms acc hM hS
    cases s with
    | nil =>
      obtain ⟨fM', rfl⟩ : ∃ k, fM = k + 1 := ⟨fM - 1, by simp at hM; omega⟩
      cases fS <;> simp [expandMacros, mtokensAux, msubstAll, mt_bump]
    | cons c r =>
      simp only [List.length_cons] at hs hM hS
      obtain ⟨fM', rfl⟩ : ∃ k, fM = k + 1 := ⟨fM - 1, by omega⟩
      obtain ⟨fS', rfl⟩ : ∃ k, fS = k + 1 := ⟨fS - 1, by omega⟩
      obtain ⟨h1, h2, h3⟩ := mt_ismacro_refAt (c :: r)
      unfold expandMacros mtokensAux
      cases hR : refAt (c :: r) with
      | none =>
        simp only [h1 hR]
        rw [ih r (by omega) fM' fS' ms (acc ++ [c]) (by omega) (by omega)]
        simp only [msubstAll, msubst, mt_bump]
        cases msubstAll action (macroValue ms) (mtokensAux fS' r) <;> simp
      | some o =>
        cases o with
        | none =>
          simp only [h2 hR]
          simp [msubstAll, msubst]
        | some p =>
          obtain ⟨name, rest⟩ := p
          obtain ⟨him, hs', hdrop⟩ := h3 name rest hR
          have hlen : rest.length + name.length + 3 = r.length + 1 := by
            have := congrArg List.length hs'
            simp only [List.length_cons, List.length_append] at this
            omega
          simp only [him]
          by_cases hp : name = pathName
          · have hip : isPathMacro name = true := (mt_isPath_iff name).2 hp
            simp only [hip, if_true]
            cases action with
            | false =>
              simp [msubstAll, msubst, hp]
            | true =>
              simp only [if_true]
              -- `c :: r = ${path}rest`
              subst hp
              simp only [pathName, List.cons_append, List.nil_append, List.cons.injEq] at hs'
              obtain ⟨hc, hr⟩ := hs'
              subst hc
              simp only [pathName, List.length_cons, List.length_nil] at hlen
              obtain ⟨f, rfl⟩ : ∃ k, fM' = k + 6 := ⟨fM' - 6, by omega⟩
              rw [hr, mt_expand_pathTail]
              rw [ih rest (by omega) f fS' ms _ (by omega) (by omega)]
              simp only [msubstAll, msubst, mt_bump, if_true, pathName]
              cases msubstAll true (macroValue ms) (mtokensAux fS' rest) <;> simp [pathRef]
          · have hip : isPathMacro name = false := by
              cases h : isPathMacro name
              · rfl
              · exact absurd ((mt_isPath_iff name).1 h) hp
            simp only [hip, Bool.false_eq_true, if_false, mt_macrosUse]
            cases hv : macroValue ms name with
            | none => simp [msubstAll, msubst, hp, hv]
            | some v =>
              simp only [Option.map_some, hdrop]
              rw [ih rest (by omega) fM' fS' (mt_ref name ms) (acc ++ v) (by omega) (by omega)]
              simp only [msubstAll, msubst, mt_bump, hp, if_false, hv, mt_macroValue_ref]
              cases msubstAll action (macroValue ms) (mtokensAux fS' rest) <;> simp

/-- `expandmacros(str, macros, ctx)` as called by the parser. -/
theorem mt_expandMacros_spec (action : Bool) (ms : List Macro) (s : Bytes) :
    expandMacros action (s.length + 1) s ms [] =
      (mexpand action (macroValue ms) s).map fun out => (out, mt_bump ms (mtokens s)) := by
  have := mt_expand_eq action s.length s (Nat.le_refl _) (s.length + 1) s.length ms [] (by omega) (Nat.le_refl _)
  simpa [mexpand, mtokens] using this

/-- The two readings used in the property: the expanded string, and "values never change". -/
theorem mt_expandMacros_value (action : Bool) (ms : List Macro) (s : Bytes) :
    (expandMacros action (s.length + 1) s ms []).map (·.1) = mexpand action (macroValue ms) s ∧
    (∀ out ms', expandMacros action (s.length + 1) s ms [] = some (out, ms') → macroValue ms' = macroValue ms) := by
  rw [mt_expandMacros_spec]
  constructor
  · cases mexpand action (macroValue ms) s <;> rfl
  · intro out ms' h
    cases hm : mexpand action (macroValue ms) s with
    | none => rw [hm] at h; cases h
    | some o =>
      rw [hm] at h
      simp only [Option.map_some, Option.some.injEq, Prod.mk.injEq] at h
      rw [← h.2]
      exact mt_macroValue_bump _ _

/-! ## Readings of the specification -/

/-- A string without `$` is made of literal tokens only. -/
theorem mt_tokens_plain : ∀ (s : Bytes) (f : Nat), (36 : UInt8) ∉ s → s.length ≤ f → mtokensAux f s = s.map MTok.lit := by
  intro s
  induction s with
  | nil => intro f _ _; cases f <;> rfl
  | cons c r ih =>
    intro f hs hf
    obtain ⟨f', rfl⟩ : ∃ k, f = k + 1 := ⟨f - 1, by simp at hf; omega⟩
    have hc : c ≠ 36 := fun e => hs (by simp [e])
    have hR : refAt (c :: r) = none := by
      unfold refAt
      split
      · rename_i heq; simp only [List.cons.injEq] at heq; exact absurd heq.1 hc
      · rfl
    simp only [mtokensAux, hR, List.map_cons]
    rw [ih f' (fun e => hs (by simp [e])) (by simp at hf; omega)]

theorem mt_msubstAll_lits (action : Bool) (value : Bytes → Option Bytes) (s : Bytes) :
    msubstAll action value (s.map MTok.lit) = some s := by
  induction s with
  | nil => rfl
  | cons c r ih => simp [msubstAll, msubst, ih]

/-- (e) A string without `$` expands to itself, in every context and with every table. -/
theorem mt_mexpand_plain (action : Bool) (value : Bytes → Option Bytes) (s : Bytes) (h : (36 : UInt8) ∉ s) :
    mexpand action value s = some s := by
  unfold mexpand mtokens
  rw [mt_tokens_plain s s.length h (Nat.le_refl _), mt_msubstAll_lits]

theorem mt_expandMacros_plain (action : Bool) (ms : List Macro) (s : Bytes) (h : (36 : UInt8) ∉ s) :
    expandMacros action (s.length + 1) s ms [] = some (s, ms) := by
  rw [mt_expandMacros_spec, mt_mexpand_plain action _ s h]
  simp only [Option.map_some, mtokens, mt_tokens_plain s s.length h (Nat.le_refl _)]
  congr 2
  generalize hms : ms = ms0
  clear hms h
  induction s generalizing ms0 with
  | nil => rfl
  | cons c r ih => exact ih ms0

/-- The tokens of `pre ${name} post` (`pre` without `$`, `name` without `}`): the bytes of `pre`, the
reference, the tokens of `post`. -/
private theorem mt_takeWhile_stop (name post : Bytes) (hname : (125 : UInt8) ∉ name) :
    (name ++ 125 :: post).takeWhile (fun c => c != 125) = name := by
  induction name with
  | nil => simp
  | cons a t ih =>
    have ha : a ≠ 125 := fun h => hname (by simp [h])
    have ht : (125 : UInt8) ∉ t := fun h => hname (by simp [h])
    simp only [List.cons_append, List.takeWhile_cons, bne_iff_ne, ne_eq, ha, not_false_eq_true, if_true, ih ht]

/-- A written reference is recognised: name and remainder. -/
theorem mt_refAt_written (name post : Bytes) (hname : (125 : UInt8) ∉ name) :
    refAt (36 :: 123 :: (name ++ 125 :: post)) = some (some (name, post)) := by
  have hc : (name ++ 125 :: post).contains 125 = true := by simp
  have htw := mt_takeWhile_stop name post hname
  have hdw : ((name ++ 125 :: post).dropWhile (fun c => c != 125)).drop 1 = post := by
    have hs := mt_split_at (name ++ 125 :: post) hc
    rw [htw] at hs
    have := List.append_cancel_left hs
    simp only [List.cons.injEq, true_and] at this
    exact this.symm
  simp only [refAt, hc, if_true, htw, hdw]

private theorem mt_refAt_not_dollar (c : UInt8) (r : Bytes) (hc : c ≠ 36) : refAt (c :: r) = none := by
  unfold refAt
  split
  · rename_i heq; simp only [List.cons.injEq] at heq; exact absurd heq.1 hc
  · rfl

/-- `mtokensAux` does not depend on its budget once it is at least the length. -/
theorem mt_tokens_fuel : ∀ (n : Nat) (s : Bytes), s.length ≤ n → ∀ f, s.length ≤ f → mtokensAux f s = mtokensAux s.length s := by
  intro n
  induction n with
  | zero =>
    intro s hs f _
    have : s = [] := List.eq_nil_of_length_eq_zero (by omega)
    subst this
    cases f <;> rfl
  | succ n ihn =>
    intro s hs f hf
    cases s with
    | nil => cases f <;> rfl
    | cons c r =>
      simp only [List.length_cons] at hs hf
      obtain ⟨f', rfl⟩ : ∃ k, f = k + 1 := ⟨f - 1, by omega⟩
      simp only [List.length_cons, mtokensAux]
      cases hR : refAt (c :: r) with
      | none => simp only; rw [ihn r (by omega) f' (by omega)]
      | some o =>
        cases o with
        | none => rfl
        | some p =>
          obtain ⟨nm, rest⟩ := p
          have hl := ((mt_ismacro_refAt (c :: r)).2.2 nm rest hR).2.1
          have hlen : rest.length + nm.length + 3 = r.length + 1 := by
            have := congrArg List.length hl
            simp only [List.length_cons, List.length_append] at this
            omega
          simp only
          rw [ihn rest (by omega) f' (by omega), ihn rest (by omega) r.length (by omega)]

theorem mt_tokens_ref (pre name post : Bytes) (hpre : (36 : UInt8) ∉ pre) (hname : (125 : UInt8) ∉ name) :
    mtokens (pre ++ 36 :: 123 :: (name ++ 125 :: post)) = pre.map MTok.lit ++ MTok.ref name :: mtokens post := by
  unfold mtokens
  have key : ∀ (pre : Bytes) (g : Nat), (36 : UInt8) ∉ pre →
      mtokensAux (pre.length + (g + 1)) (pre ++ 36 :: 123 :: (name ++ 125 :: post)) =
        pre.map MTok.lit ++ MTok.ref name :: mtokensAux g post := by
    intro pre
    induction pre with
    | nil =>
      intro g _
      simp only [List.length_nil, Nat.zero_add, List.nil_append, mtokensAux, mt_refAt_written name post hname, List.map_nil]
    | cons c r ih =>
      intro g hp
      have hc : c ≠ 36 := fun e => hp (by simp [e])
      have hfuel : (c :: r).length + (g + 1) = (r.length + (g + 1)) + 1 := by simp only [List.length_cons]; omega
      rw [hfuel]
      simp only [List.cons_append, mtokensAux, mt_refAt_not_dollar c _ hc, List.map_cons]
      rw [ih g (fun e => hp (by simp [e]))]
  have hlen : (pre ++ 36 :: 123 :: (name ++ 125 :: post)).length = pre.length + ((name.length + 2 + post.length) + 1) := by
    simp only [List.length_append, List.length_cons]; omega
  rw [hlen, key pre _ hpre, mt_tokens_fuel post.length post (Nat.le_refl _) _ (by omega)]

/-- Substitution distributes over concatenation of token lists. -/
theorem mt_msubstAll_append (action : Bool) (value : Bytes → Option Bytes) (a b : List MTok) :
    msubstAll action value (a ++ b) =
      match msubstAll action value a, msubstAll action value b with
      | some x, some y => some (x ++ y)
      | _, _ => none := by
  induction a with
  | nil =>
    simp only [List.nil_append, msubstAll]
    cases msubstAll action value b <;> simp
  | cons t r ih =>
    simp only [List.cons_append, msubstAll, ih]
    cases msubst action value t <;> cases msubstAll action value r <;> cases msubstAll action value b <;> simp

/-- (a), (b), (c), (d) in one statement about `pre ${name} post`: the result is `pre`, then what the
reference stands for - the table's value VERBATIM (whatever bytes it holds, it is not read again), or
`${path}` itself in an action context - then the expansion of `post`; it is an error when `name` is
`path` outside an action, when the table has no value for `name`, or when `post` has an error. -/
theorem mt_mexpand_ref (action : Bool) (value : Bytes → Option Bytes) (pre name post : Bytes)
    (hpre : (36 : UInt8) ∉ pre) (hname : (125 : UInt8) ∉ name) :
    mexpand action value (pre ++ 36 :: 123 :: (name ++ 125 :: post)) =
      match (if name = pathName then (if action then some pathRef else none) else value name), mexpand action value post with
      | some v, some rest => some (pre ++ v ++ rest)
      | _, _ => none := by
  unfold mexpand
  rw [mt_tokens_ref pre name post hpre hname, mt_msubstAll_append, mt_msubstAll_lits]
  simp only [msubstAll, msubst]
  cases (if name = pathName then (if action then some pathRef else none) else value name) <;>
    cases msubstAll action value (mtokens post) <;> simp

/-- (d) An unterminated `${` (after text without `$`) is an error. -/
theorem mt_mexpand_unterminated (action : Bool) (value : Bytes → Option Bytes) (pre tail : Bytes)
    (hpre : (36 : UInt8) ∉ pre) (htail : (125 : UInt8) ∉ tail) :
    mexpand action value (pre ++ 36 :: 123 :: tail) = none := by
  unfold mexpand mtokens
  have key : ∀ (pre : Bytes) (f : Nat), (36 : UInt8) ∉ pre → pre.length < f →
      mtokensAux f (pre ++ 36 :: 123 :: tail) = pre.map MTok.lit ++ [MTok.unterminated] := by
    intro pre
    induction pre with
    | nil =>
      intro f _ hf
      obtain ⟨f', rfl⟩ : ∃ k, f = k + 1 := ⟨f - 1, by simp at hf; omega⟩
      have hc : tail.contains 125 = false := by
        cases h : tail.contains 125
        · rfl
        · exact absurd (List.contains_iff_mem.1 h) htail
      simp only [List.nil_append, mtokensAux, refAt, hc, Bool.false_eq_true, if_false, List.map_nil]
    | cons c r ih =>
      intro f hp hf
      simp only [List.length_cons] at hf
      obtain ⟨f', rfl⟩ : ∃ k, f = k + 1 := ⟨f - 1, by omega⟩
      have hc : c ≠ 36 := fun e => hp (by simp [e])
      have hR : refAt (c :: (r ++ 36 :: 123 :: tail)) = none := by
        unfold refAt
        split
        · rename_i heq; simp only [List.cons.injEq] at heq; exact absurd heq.1 hc
        · rfl
      simp only [List.cons_append, mtokensAux, hR, List.map_cons]
      rw [ih f' (fun e => hp (by simp [e])) (by omega)]
  rw [key pre _ hpre (by simp only [List.length_append, List.length_cons]; omega), mt_msubstAll_append, mt_msubstAll_lits]
  simp [msubstAll, msubst]

/-! ## Where the values come from: definitions in the file and `-D` -/

/-- A definition in the file of a name the table does not hold: afterwards `${name}` stands for the
given value, every other name for what it stood for. -/
theorem mt_insert_new (ms : List Macro) (name v : Bytes) (lno : Nat) (sticky : Bool)
    (hp : isPathMacro name = false) (hnew : macroValue ms name = none) :
    ∃ ms', macrosInsert ms name v lno sticky = some ms' ∧ macroValue ms' name = some v ∧
      ∀ n, n ≠ name → macroValue ms' n = macroValue ms n := by
  have hfind : ms.find? (fun m => m.name == name) = none := by
    unfold macroValue at hnew
    cases h : ms.find? (fun m => m.name == name) with
    | none => rfl
    | some m => rw [h] at hnew; cases hnew
  have hany : (ms.any fun m => m.name == name) = false := by
    rw [List.any_eq_false]
    intro x hx
    exact List.find?_eq_none.1 hfind x hx
  refine ⟨ms ++ [{ name := name, value := v, refs := 0, defs := 0, lno := lno, sticky := sticky }],
    by simp only [macrosInsert, hp, hany, Bool.false_eq_true, if_false], ?_, ?_⟩
  · unfold macroValue
    rw [List.find?_append, hfind]
    simp
  · intro n hn
    unfold macroValue
    rw [List.find?_append]
    cases ms.find? (fun m => m.name == n) with
    | some m => rfl
    | none =>
      have : (name == n) = false := by simp only [beq_eq_false_iff_ne, ne_eq]; exact fun h => hn h.symm
      simp [this]

/-- Sticky override: when the name was given with `-D` (and not yet shadowed), the definition in the
file is accepted and DROPPED - every name, this one included, keeps its value. -/
theorem mt_insert_sticky (ms : List Macro) (name v : Bytes) (lno : Nat) (m : Macro)
    (hfind : ms.find? (fun x => x.name == name) = some m) (hs : m.sticky = true) (hd : m.defs = 0)
    (hp : isPathMacro name = false) :
    ∃ ms', macrosInsert ms name v lno false = some ms' ∧ macroValue ms' = macroValue ms := by
  have hmem := List.mem_of_find?_eq_some hfind
  have hpred := List.find?_some hfind
  have hany : (ms.any fun x => x.name == name) = true := List.any_eq_true.2 ⟨m, hmem, hpred⟩
  have hany2 : (ms.any fun x => x.name == name && x.sticky && !false && x.defs == 0) = true :=
    List.any_eq_true.2 ⟨m, hmem, by simp [hpred, hs, hd]⟩
  refine ⟨ms.map fun x => if x.name == name then { x with defs := x.defs + 1 } else x,
    by simp only [macrosInsert, hp, hany, hany2, Bool.false_eq_true, if_false, if_true], ?_⟩
  funext n
  apply mt_macroValue_map
  intro x
  split <;> exact ⟨rfl, rfl⟩

/-- A second definition in the file of a name given with `-D`, and a second `-D` of the same name,
are refused. -/
theorem mt_insert_twice (ms : List Macro) (name v : Bytes) (lno : Nat) (sticky : Bool)
    (hex : (ms.any fun x => x.name == name) = true)
    (hno : ∀ x ∈ ms, x.name = name → x.sticky = false ∨ sticky = true ∨ x.defs ≠ 0) :
    macrosInsert ms name v lno sticky = none := by
  unfold macrosInsert
  by_cases hp : isPathMacro name = true
  · simp [hp]
  · have hany2 : (ms.any fun x => x.name == name && x.sticky && !sticky && x.defs == 0) = false := by
      rw [List.any_eq_false]
      intro x hx hc
      simp only [Bool.and_eq_true, beq_iff_eq, Bool.not_eq_true'] at hc
      rcases hno x hx hc.1.1.1 with h | h | h
      · rw [h] at hc; exact absurd hc.1.1.2 (by simp)
      · rw [h] at hc; exact absurd hc.1.2 (by simp)
      · exact h hc.2
    simp only [hp, Bool.false_eq_true, if_false, hex, if_true, hany2]

/-- `macrosOfDefs` for one `-D name=value`. -/
theorem mt_defs_single (name v : Bytes) (hp : isPathMacro name = false) :
    macrosOfDefs [(name, v)] [] = some [{ name := name, value := v, refs := 0, defs := 0, lno := 0, sticky := true }] := by
  simp [macrosOfDefs, macrosInsert, hp]

/-! ## Reading the strings of a parse result (for the concrete witnesses) -/

def mt_leafStrings : Expr → List Bytes
  | .header _ ns _ => ns
  | .stat _ p => [p]
  | .command _ a => a
  | .move _ p => [p]
  | .flags _ f => [f]
  | .label _ ls => ls
  | .exec _ _ _ a => a
  | .addHeader _ k v => [k, v]
  | _ => []

def mt_treeStrings : CTree → List Bytes
  | .leaf e => mt_leafStrings e
  | .block _ b => mt_treeStrings b
  | .emptyBlock _ => []
  | .and _ l r | .or _ l r | .mtch _ l r => mt_treeStrings l ++ mt_treeStrings r
  | .neg _ e | .attachment _ e | .attBlock _ e => mt_treeStrings e

/-- The maildir paths and the strings of the rules of every block, in file order (`none`: not accepted). -/
def mt_strings : ParseResult → Option (List (List Bytes × List Bytes))
  | .ok blocks => some (blocks.map fun b => (b.paths, mt_treeStrings b.tree))
  | _ => none

def mt_isError : ParseResult → Bool
  | .error _ => true
  | _ => false

def mt_isInvalidDefs : ParseResult → Bool
  | .invalidDefs => true
  | _ => false

/-- Action time: the one pass of `interpolate` over the string `${path}` yields the message's path. -/
theorem mt_interpolate_path (before : MatchList) (p : Bytes) :
    interpolate before (some [([112, 97, 116, 104], p)]) [36, 123, 112, 97, 116, 104, 125] = some p := by
  simp [interpolate, interpolate.go, isBackref, isMacro]

end Mdsort.Proofs.MainText
