import Mdsort.Proofs.ConfSpec2

/-!
# Classes of invalid configurations: each is rejected, whatever else the file contains

Tree level: every node of every block of an accepted configuration satisfies the side conditions
(`node_*`), so a configuration whose tree has the defect anywhere is not accepted.  Token / string
level: a second `stdin`, an undefined or misplaced macro, an unused macro.
-/

namespace Mdsort.Proofs.Conf
open Mdsort Mdsort.Model Mdsort.Spec

/-- Every node of a well-formed tree is well formed (of some kind). -/
theorem wf_nodes (rx : Pat → Bool) : ∀ (t : CTree) (k : Kind), wfK rx k t = true →
    ∀ t' ∈ nodes t, ∃ k', wfK rx k' t' = true := by
  intro t
  induction t with
  | leaf e => intro k h t' ht'; simp only [nodes, List.mem_singleton] at ht'; subst ht'; exact ⟨k, h⟩
  | emptyBlock l => intro k h t' ht'; simp only [nodes, List.mem_singleton] at ht'; subst ht'; exact ⟨k, h⟩
  | block l b ih =>
    intro k h t' ht'
    simp only [nodes, List.mem_cons] at ht'
    rcases ht' with rfl | ht'
    · exact ⟨k, h⟩
    · cases k <;> simp only [wfK, Bool.false_eq_true] at h
      exact ih _ h t' ht'
  | neg l e ih =>
    intro k h t' ht'
    simp only [nodes, List.mem_cons] at ht'
    rcases ht' with rfl | ht'
    · exact ⟨k, h⟩
    · cases k <;> simp only [wfK, Bool.false_eq_true] at h
      exact ih _ h t' ht'
  | attachment l e ih =>
    intro k h t' ht'
    simp only [nodes, List.mem_cons] at ht'
    rcases ht' with rfl | ht'
    · exact ⟨k, h⟩
    · cases k <;> simp only [wfK, Bool.false_eq_true] at h
      exact ih _ h t' ht'
  | attBlock l b ih =>
    intro k h t' ht'
    simp only [nodes, List.mem_cons] at ht'
    rcases ht' with rfl | ht'
    · exact ⟨k, h⟩
    · cases k <;> simp only [wfK, Bool.false_eq_true, Bool.and_eq_true] at h
      all_goals exact ih _ h.1.1 t' ht'
  | and l a b iha ihb =>
    intro k h t' ht'
    simp only [nodes, List.mem_cons, List.mem_append] at ht'
    rcases ht' with rfl | ht' | ht'
    · exact ⟨k, h⟩
    · cases k <;> simp only [wfK, Bool.false_eq_true, Bool.and_eq_true] at h
      all_goals exact iha _ h.1 t' ht'
    · cases k <;> simp only [wfK, Bool.false_eq_true, Bool.and_eq_true] at h
      all_goals exact ihb _ h.2 t' ht'
  | or l a b iha ihb =>
    intro k h t' ht'
    simp only [nodes, List.mem_cons, List.mem_append] at ht'
    rcases ht' with rfl | ht' | ht'
    · exact ⟨k, h⟩
    · cases k <;> simp only [wfK, Bool.false_eq_true, Bool.and_eq_true] at h
      all_goals exact iha _ h.1 t' ht'
    · cases k <;> simp only [wfK, Bool.false_eq_true, Bool.and_eq_true] at h
      all_goals exact ihb _ h.2 t' ht'
  | mtch l c r ihc ihr =>
    intro k h t' ht'
    simp only [nodes, List.mem_cons, List.mem_append] at ht'
    rcases ht' with rfl | ht' | ht'
    · exact ⟨k, h⟩
    · cases k <;> simp only [wfK, Bool.false_eq_true, Bool.and_eq_true] at h
      all_goals exact ihc _ h.1 t' ht'
    · cases k <;> simp only [wfK, Bool.false_eq_true, Bool.and_eq_true, Bool.or_eq_true] at h
      all_goals
        rcases h.2 with h2 | h2
        · exact ihr _ h2.1 t' ht'
        · exact ihr _ h2.1 t' ht'

/-- The nodes of the blocks of an accepted configuration. -/
def AcceptedNode (home : Bytes) (defs : List (Bytes × Bytes)) (rx : Pat → Bool) (input : Bytes) (t : CTree) : Prop :=
  ∃ blocks b, parseConfig home defs rx input = .ok blocks ∧ b ∈ blocks ∧ t ∈ nodes b.tree

theorem accepted_block {home : Bytes} {defs : List (Bytes × Bytes)} {rx : Pat → Bool} {input : Bytes} {blocks : List PBlock}
    (h : parseConfig home defs rx input = .ok blocks) : ∀ b ∈ blocks, blockOK rx b = true :=
  (parseConfigFull_spec home defs rx input).2.2 blocks h

theorem accepted_node_wf {home : Bytes} {defs : List (Bytes × Bytes)} {rx : Pat → Bool} {input : Bytes} {t : CTree}
    (h : AcceptedNode home defs rx input t) : ∃ k, wfK rx k t = true := by
  obtain ⟨blocks, b, hok, hb, ht⟩ := h
  have := accepted_block hok b hb
  simp only [blockOK, Bool.and_eq_true] at this
  exact wf_nodes rx b.tree .block this.1.1 t ht

/-- A rule of an accepted configuration: a nested block with an action in it, or a list of actions in
which `discard` and `reject` stand alone. -/
theorem node_rule {home : Bytes} {defs : List (Bytes × Bytes)} {rx : Pat → Bool} {input : Bytes} {l : Nat} {c r : CTree}
    (h : AcceptedNode home defs rx input (.mtch l c r)) :
    (isBlock r = true ∧ r.countActions > 0) ∨
    (isBlock r = false ∧ r.countActions ≥ 1 ∧
      (r.countActions > 1 → r.countLeaf Expr.isDiscard = 0 ∧ r.countLeaf Expr.isReject = 0)) := by
  obtain ⟨k, hk⟩ := accepted_node_wf h
  have key : wfK rx .cond c = true ∧ ((wfK rx .block r = true ∧ r.countActions > 0) ∨ (wfK rx .acts r = true ∧ aloneOK r = true)) := by
    cases k <;> simp only [wfK, Bool.false_eq_true, Bool.and_eq_true, Bool.or_eq_true, decide_eq_true_eq] at hk <;> exact hk
  rcases key.2 with ⟨hb, hc⟩ | ⟨ha, hal⟩
  · left
    refine ⟨?_, hc⟩
    cases r <;> simp_all [wfK, isBlock]
  · right
    have hnb : isBlock r = false := by cases r <;> simp_all [wfK, isBlock]
    have hge : r.countActions ≥ 1 := by
      cases r <;> simp_all [wfK, CTree.countActions]
      rename_i l2 a b
      cases b <;> simp_all [wfK, CTree.countActions] <;> omega
    refine ⟨hnb, hge, ?_⟩
    intro hgt
    simp only [aloneOK, Bool.or_eq_true, decide_eq_true_eq, Bool.and_eq_true, beq_iff_eq] at hal
    rcases hal with hal | hal
    · omega
    · exact hal

theorem node_date {home : Bytes} {defs : List (Bytes × Bytes)} {rx : Pat → Bool} {input : Bytes} {l : Nat} {f : DateField}
    {c : DateCmp} {age : Nat} (h : AcceptedNode home defs rx input (.leaf (.date l f c age))) : age < 2 ^ 32 := by
  obtain ⟨k, hk⟩ := accepted_node_wf h
  cases k <;> simp_all [wfK, leafOK, isCondLeaf, Expr.leafAction]

theorem node_exec {home : Bytes} {defs : List (Bytes × Bytes)} {rx : Pat → Bool} {input : Bytes} {l : Nat} {si bo : Bool}
    {argv : List Bytes} (h : AcceptedNode home defs rx input (.leaf (.exec l si bo argv))) : bo = true → si = true := by
  obtain ⟨k, hk⟩ := accepted_node_wf h
  cases k <;> simp_all [wfK, leafOK, isCondLeaf, Expr.leafAction] <;> cases bo <;> simp_all

theorem node_body {home : Bytes} {defs : List (Bytes × Bytes)} {rx : Pat → Bool} {input : Bytes} {l : Nat} {p : Pat}
    (h : AcceptedNode home defs rx input (.leaf (.body l p))) : rx p = true := by
  obtain ⟨k, hk⟩ := accepted_node_wf h
  cases k <;> simp_all [wfK, leafOK, isCondLeaf, Expr.leafAction]

theorem node_header {home : Bytes} {defs : List (Bytes × Bytes)} {rx : Pat → Bool} {input : Bytes} {l : Nat} {ns : List Bytes}
    {p : Pat} (h : AcceptedNode home defs rx input (.leaf (.header l ns p))) : rx p = true := by
  obtain ⟨k, hk⟩ := accepted_node_wf h
  cases k <;> simp_all [wfK, leafOK, isCondLeaf, Expr.leafAction]

theorem node_attBlock {home : Bytes} {defs : List (Bytes × Bytes)} {rx : Pat → Bool} {input : Bytes} {l : Nat} {b : CTree}
    (h : AcceptedNode home defs rx input (.attBlock l b)) : b.countActions ≤ b.countLeaf Expr.isExec := by
  obtain ⟨k, hk⟩ := accepted_node_wf h
  cases k <;> simp_all [wfK]

/-! ## Token and string level -/

/-- A `stdin` block after a block that already reads from stdin is diagnosed (on the line of `stdin`). -/
theorem second_stdin (cx : PCtx) (fuel : Nat) (blocks : List PBlock) (s : ParseSt) (hla : s.la = some (.kw .stdin))
    (hany : blocks.any (fun b => b.paths.any isStdinStr) = true) :
    parseTop cx (fuel + 1) blocks s = .err s.tokLine { s with la := none } := by
  unfold parseTop
  show PM.bind (peek cx false false) _ s = _
  simp only [PM.bind, peek, hla]
  show PM.bind shift _ s = _
  simp only [PM.bind, shift, hla, hany, if_true]
  rfl

theorem takeWhile_stop (name post : Bytes) (hname : (125 : UInt8) ∉ name) :
    (name ++ 125 :: post).takeWhile (fun c => c != 125) = name := by
  induction name with
  | nil => simp
  | cons a t ih =>
    have ha : a ≠ 125 := fun h => hname (by simp [h])
    have ht : (125 : UInt8) ∉ t := fun h => hname (by simp [h])
    simp only [List.cons_append, List.takeWhile_cons, bne_iff_ne, ne_eq, ha, not_false_eq_true, decide_true, if_true, ih ht]

/-- A repeated `exec` option is diagnosed on the line of the repetition. -/
theorem exec_option_repeated (cx : PCtx) (fuel : Nat) (si bo : Bool) (s : ParseSt) :
    (s.la = some (.kw .stdin) → si = true → parseExecFlags cx (fuel + 1) si bo s = .err s.tokLine { s with la := none }) ∧
    (s.la = some (.kw .body) → bo = true → parseExecFlags cx (fuel + 1) si bo s = .err s.tokLine { s with la := none }) := by
  constructor
  · intro hla hsi
    subst hsi
    unfold parseExecFlags
    show PM.bind (peek cx false false) _ s = _
    simp only [PM.bind, peek, hla]
    show PM.bind shift _ s = _
    simp only [PM.bind, shift, hla, if_true]
    rfl
  · intro hla hbo
    subst hbo
    unfold parseExecFlags
    show PM.bind (peek cx false false) _ s = _
    simp only [PM.bind, peek, hla]
    show PM.bind shift _ s = _
    simp only [PM.bind, shift, hla, if_true]
    rfl

/-- Defining a macro twice in the file, or defining `path`, is refused by the macro table. -/
theorem macro_redefined (ms : List Macro) (name value : Bytes) (lno : Nat) :
    (isPathMacro name = true → macrosInsert ms name value lno false = none) ∧
    ((∃ m ∈ ms, m.name = name) → (∀ m ∈ ms, m.name = name → m.sticky = false) → macrosInsert ms name value lno false = none) := by
  constructor
  · intro h; simp [macrosInsert, h]
  · intro ⟨m, hm, hn⟩ hns
    unfold macrosInsert
    by_cases hp : isPathMacro name = true
    · simp [hp]
    · have hany : (ms.any fun x => x.name == name) = true := by
        simp only [List.any_eq_true, beq_iff_eq]; exact ⟨m, hm, hn⟩
      have hno : (ms.any fun x => x.name == name && x.sticky && !false && x.defs == 0) = false := by
        simp only [List.any_eq_false, Bool.and_eq_true, beq_iff_eq, Bool.not_false, Bool.and_true, not_and]
        intro x hx hxn _
        have := hns x hx hxn.1
        rw [this] at hxn
        exact absurd hxn.2 (by simp)
      simp only [hp, Bool.false_eq_true, if_false, hany, if_true, hno]

/-- A macro reference `${name}` (after text without `$`) that cannot be expanded - an undefined macro,
or `path` outside an action - makes the expansion fail. -/
theorem expandMacros_bad_ref (action : Bool) (ms : List Macro) (name post : Bytes)
    (hname : (125 : UInt8) ∉ name)
    (hbad : (isPathMacro name = true ∧ action = false) ∨ (isPathMacro name = false ∧ ∀ m ∈ ms, m.name ≠ name)) :
    ∀ (pre acc : Bytes) (fuel : Nat), (36 : UInt8) ∉ pre → pre.length < fuel →
      expandMacros action fuel (pre ++ 36 :: 123 :: (name ++ 125 :: post)) ms acc = none := by
  have htw := takeWhile_stop name post hname
  intro pre
  induction pre with
  | nil =>
    intro acc fuel _ hf
    cases fuel with
    | zero => simp at hf
    | succ fuel =>
      have him : ismacro (36 :: 123 :: (name ++ 125 :: post)) = some (some (name, name.length + 3)) := by
        simp only [ismacro, htw, List.length_append, List.length_cons]
        rw [if_pos (by omega)]
      rcases hbad with ⟨hp, ha⟩ | ⟨hnp, hundef⟩
      · subst ha
        simp only [List.nil_append, expandMacros, him, hp, if_true, Bool.false_eq_true, if_false]
      · have hfind : macrosUse ms name = none := by
          unfold macrosUse
          have : ms.find? (fun m => m.name == name) = none := by
            rw [List.find?_eq_none]
            intro m hm
            simp only [beq_iff_eq]
            exact hundef m hm
          rw [this]
        simp only [List.nil_append, expandMacros, him, hnp, hfind, Bool.false_eq_true, if_false]
  | cons c pre ih =>
    intro acc fuel hpre hf
    cases fuel with
    | zero => simp at hf
    | succ fuel =>
      have hc : c ≠ 36 := fun h => hpre (by simp [h])
      have hp' : (36 : UInt8) ∉ pre := fun h => hpre (by simp [h])
      have him : ismacro (c :: (pre ++ 36 :: 123 :: (name ++ 125 :: post))) = none := by
        unfold ismacro
        split
        · rename_i heq; simp only [List.cons.injEq] at heq; exact absurd heq.1 hc
        · rfl
      simp only [List.cons_append, expandMacros, him]
      have hf' : pre.length < fuel := by simp only [List.length_cons] at hf; omega
      exact ih (acc ++ [c]) fuel hp' hf'

/-- A reference to a macro that is not defined (and is not `path`) makes the expansion fail. -/
theorem expandMacros_undefined (action : Bool) (ms : List Macro) (name post : Bytes)
    (hname : (125 : UInt8) ∉ name) (hnp : isPathMacro name = false) (hundef : ∀ m ∈ ms, m.name ≠ name)
    (pre acc : Bytes) (fuel : Nat) (hpre : (36 : UInt8) ∉ pre) (hf : pre.length < fuel) :
    expandMacros action fuel (pre ++ 36 :: 123 :: (name ++ 125 :: post)) ms acc = none :=
  expandMacros_bad_ref action ms name post hname (Or.inr ⟨hnp, hundef⟩) pre acc fuel hpre hf

/-- `${path}` outside an action (maildir paths, header names, `isdirectory`, `command`, macro values)
makes the expansion fail. -/
theorem expandMacros_path_wrong_context (ms : List Macro) (post pre acc : Bytes) (fuel : Nat)
    (hpre : (36 : UInt8) ∉ pre) (hf : pre.length < fuel) :
    expandMacros false fuel (pre ++ 36 :: 123 :: ([112, 97, 116, 104] ++ 125 :: post)) ms acc = none :=
  expandMacros_bad_ref false ms [112, 97, 116, 104] post (by decide) (Or.inl ⟨by decide, rfl⟩) pre acc fuel hpre hf

/-- A macro that is defined (in the file or with `-D`) and never referenced: the configuration is
rejected, with the line of the definition (0 for `-D`). -/
theorem unused_macro_rejected (home : Bytes) (defs : List (Bytes × Bytes)) (rx : Pat → Bool) (input : Bytes) (ms : List Macro)
    (blocks : List PBlock) (s : ParseSt) (m : Macro)
    (hd : macrosOfDefs defs [] = some ms)
    (hp : parseTop { nl := countNl input, home := home, rxOk := rx } (input.length + 1) [] { rest := input, macros := ms } = .ok blocks s)
    (hu : firstUnused s.macros = some m) :
    parseConfig home defs rx input = .error m.lno := by
  simp only [parseConfig, parseConfigFull, hd, hp, hu]

/-! ## Concrete witnesses (for the non-vacuity examples) -/

def isOkNonempty : ParseResult → Bool
  | .ok (_ :: _) => true
  | _ => false

def isErrorAt (l : Nat) : ParseResult → Bool
  | .error l' => l == l'
  | _ => false

theorem ok_of_isOkNonempty {r : ParseResult} (h : isOkNonempty r = true) : ∃ b bs, r = .ok (b :: bs) := by
  cases r with
  | ok blocks => cases blocks with
    | nil => cases h
    | cons b bs => exact ⟨b, bs, rfl⟩
  | _ => cases h

theorem error_of_isErrorAt {r : ParseResult} {l : Nat} (h : isErrorAt l r = true) : r = .error l := by
  cases r <;> simp_all [isErrorAt]

theorem nodes_self (t : CTree) : t ∈ nodes t := by cases t <;> simp [nodes]

theorem acceptedNode_of_ok {home : Bytes} {defs : List (Bytes × Bytes)} {rx : Pat → Bool} {input : Bytes}
    (h : isOkNonempty (parseConfig home defs rx input) = true) : ∃ t, AcceptedNode home defs rx input t := by
  obtain ⟨b, bs, hr⟩ := ok_of_isOkNonempty h
  exact ⟨b.tree, b :: bs, b, hr, by simp, nodes_self _⟩

end Mdsort.Proofs.Conf
