import Mdsort.Model.Eval
import Mdsort.Spec.Rules

/-!
# Match-list lemmas for C03

`matchesMerge` / `matchesAppend` characterised up to what the refinement proof needs:
the appended entry keeps type and line, the only entries ever dropped are move/flag entries
(and only when a move/flag entry is appended), and the append cannot fail when every
maildir/subdir that occurs is short enough (`PCtx`, `PathInv`).
-/

namespace Mdsort.Proofs
open Mdsort Mdsort.Model Mdsort.Spec

/-! ## the generated table, evaluated -/

theorem isAction_eq (t : MType) : t.isAction =
    (t == .move || t == .flag || t == .flags || t == .discard || t == .brk || t == .label || t == .pass
      || t == .reject || t == .exec || t == .attBlock || t == .addHeader) := by
  cases t <;> decide

theorem isPath_eq (t : MType) : t.isPath =
    (t == .move || t == .flag || t == .flags || t == .label || t == .addHeader) := by
  cases t <;> decide

/-- move or flag: the two types `matches_merge` combines. -/
def isMF (t : MType) : Bool := t == .move || t == .flag

/-- An action entry that is executed (not the pass/break markers). -/
def realAct (t : MType) : Bool := t.isAction && t != .brk && t != .pass

/-- Same function as `mlKeys` (Proofs/Eval.lean). -/
def keysOf (ml : MatchList) : List (MType × Nat) :=
  (ml.filter fun m => realAct m.ty).map fun m => (m.ty, m.lno)

def hasTy (ml : MatchList) (t : MType) : Bool := ml.any (·.ty == t)

theorem matchesFind_isSome (ml : MatchList) (t : MType) : (matchesFind ml t).isSome = hasTy ml t := by
  unfold matchesFind hasTy
  induction ml with
  | nil => rfl
  | cons x r ih =>
    simp only [List.find?_cons, List.any_cons]
    cases h : x.ty == t <;> simp [ih]

@[simp] theorem hasTy_nil (t : MType) : hasTy [] t = false := rfl
@[simp] theorem hasTy_append (a b : MatchList) (t : MType) : hasTy (a ++ b) t = (hasTy a t || hasTy b t) := by
  simp [hasTy]
@[simp] theorem hasTy_cons (x : Match) (b : MatchList) (t : MType) : hasTy (x :: b) t = (x.ty == t || hasTy b t) := by
  simp [hasTy]

@[simp] theorem keysOf_nil : keysOf [] = [] := rfl
theorem keysOf_append (a b : MatchList) : keysOf (a ++ b) = keysOf a ++ keysOf b := by
  simp [keysOf]
theorem keysOf_cons (x : Match) (b : MatchList) :
    keysOf (x :: b) = (if realAct x.ty then [(x.ty, x.lno)] else []) ++ keysOf b := by
  unfold keysOf
  by_cases h : realAct x.ty = true <;> simp [h]

/-! ## paths -/

/-- Every maildir/subdir pair that can meet in `pathjoin` fits. -/
def okEntry (L : Nat) (m : Match) : Prop := m.subdir.length ≤ L ∧ m.maildir.length + 1 + L < PATH_MAX

def PathInv (L : Nat) (ml : MatchList) : Prop := ∀ m ∈ ml, okEntry L m

/-- What `InDomain` provides about the message path: both slices exist, the subdirectory is
at most `L` long and the maildir leaves room for `/` and `L` more bytes. -/
structure PCtx (env : Env) (L : Nat) : Prop where
  hm : ∃ m0, pathslice env.path PATH_MAX 0 (-2) = some m0 ∧ m0.length + 1 + L < PATH_MAX
  hs : ∃ s0, pathslice env.path NAME_MAX1 (-2) (-2) = some s0 ∧ s0.length ≤ L

theorem PCtx.hL {env : Env} {L : Nat} (h : PCtx env L) : 0 + 1 + L < PATH_MAX := by
  obtain ⟨m0, _, h⟩ := h.hm
  omega

theorem PathInv.append {L : Nat} {a b : MatchList} (ha : PathInv L a) (hb : PathInv L b) : PathInv L (a ++ b) := by
  intro m hm
  rcases List.mem_append.1 hm with h | h
  · exact ha m h
  · exact hb m h

theorem PathInv.sublist {L : Nat} {a b : MatchList} (hs : a.Sublist b) (hb : PathInv L b) : PathInv L a :=
  fun m hm => hb m (hs.subset hm)

/-! ## matchesMerge -/

/-- Outcome of `matches_merge` on the list: unchanged, or one move/flag entry dropped because a
move/flag entry is being appended. -/
def MergeRes (ml : MatchList) (ty : MType) (ml1 : MatchList) : Prop :=
  ml1 = ml ∨ (isMF ty = true ∧ ∃ a x b, ml = a ++ x :: b ∧ ml1 = a ++ b ∧ isMF x.ty = true)

theorem removeFirst_spec (t : MType) : ∀ (ml : MatchList) (dup : Match), matchesFind ml t = some dup →
    ∃ a b, ml = a ++ dup :: b ∧ removeFirst ml t = a ++ b ∧ dup.ty = t ∧ dup ∈ ml := by
  intro ml
  induction ml with
  | nil => intro dup h; simp [matchesFind] at h
  | cons x r ih =>
    intro dup h
    unfold matchesFind at h ih
    by_cases hx : (x.ty == t) = true
    · simp only [List.find?_cons, hx] at h
      injection h with h
      subst h
      refine ⟨[], r, rfl, ?_, by simpa using hx, by simp⟩
      simp [removeFirst, hx]
    · simp only [List.find?_cons, hx] at h
      obtain ⟨a, b, h1, h2, h3, h4⟩ := ih dup h
      refine ⟨x :: a, b, by simp [h1], ?_, h3, by simp [h4]⟩
      simp [removeFirst, hx, h2]

theorem matchesMerge_spec {L : Nat} (ml : MatchList) (mh : Match) (hinv : PathInv L ml) (hmh : okEntry L mh) :
    ∃ ml1 mh1, matchesMerge ml mh = (ml1, mh1) ∧ mh1.ty = mh.ty ∧ mh1.lno = mh.lno ∧ okEntry L mh1 ∧
      MergeRes ml mh.ty ml1 := by
  unfold matchesMerge
  by_cases h1 : (mh.ty != .move && mh.ty != .flag) = true
  · rw [if_pos h1]
    exact ⟨ml, mh, rfl, rfl, rfl, hmh, Or.inl rfl⟩
  · rw [if_neg h1]
    have hmf : isMF mh.ty = true := by
      unfold isMF
      cases hh : mh.ty <;> simp [hh] at h1 ⊢
    cases hl : ml.getLast? with
    | none => exact ⟨ml, mh, rfl, rfl, rfl, hmh, Or.inl rfl⟩
    | some last =>
      have hdl : ml.dropLast ++ [last] = ml := by
        obtain ⟨ys, hys⟩ := List.getLast?_eq_some_iff.1 hl
        subst hys; simp
      by_cases h2 : (last.ty == mh.ty) = true
      · simp only [h2, if_true]
        refine ⟨ml.dropLast, mh, rfl, rfl, rfl, hmh, Or.inr ⟨hmf, ml.dropLast, last, [], ?_, by simp, ?_⟩⟩
        · exact hdl.symm
        · have : last.ty = mh.ty := by simpa using h2
          rw [this]; exact hmf
      · simp only [h2]
        cases hf : matchesFind ml (if (mh.ty == MType.move) = true then MType.flag else MType.move) with
        | none => exact ⟨ml, mh, rfl, rfl, rfl, hmh, Or.inl rfl⟩
        | some dup =>
          obtain ⟨a, b, e1, e2, e3, e4⟩ := removeFirst_spec _ ml dup hf
          have hdup := hinv dup e4
          refine ⟨_, _, rfl, ?_, ?_, ?_, Or.inr ⟨hmf, a, dup, b, e1, e2, ?_⟩⟩
          · split <;> rfl
          · split <;> rfl
          · unfold okEntry at *
            split
            · exact ⟨hdup.1, hmh.2⟩
            · exact ⟨hmh.1, hdup.2⟩
          · rw [e3]; unfold isMF; split <;> rfl

theorem MergeRes.eq_of_not_mf {ml ml1 : MatchList} {ty : MType} (h : MergeRes ml ty ml1) (hty : isMF ty = false) :
    ml1 = ml := by
  rcases h with h | ⟨h, _⟩
  · exact h
  · rw [hty] at h; cases h

theorem MergeRes.pathInv {L : Nat} {ml ml1 : MatchList} {ty : MType} (h : MergeRes ml ty ml1) (hinv : PathInv L ml) :
    PathInv L ml1 := by
  rcases h with h | ⟨_, a, x, b, e1, e2, _⟩
  · rw [h]; exact hinv
  · subst e1 e2
    intro m hm
    apply hinv
    simp only [List.mem_append, List.mem_cons] at hm ⊢
    rcases hm with h | h
    · exact Or.inl h
    · exact Or.inr (Or.inr h)

theorem MergeRes.hasTy {ml ml1 : MatchList} {ty : MType} (h : MergeRes ml ty ml1) (t : MType) (ht : isMF t = false) :
    hasTy ml1 t = hasTy ml t := by
  rcases h with h | ⟨_, a, x, b, e1, e2, hx⟩
  · rw [h]
  · subst e1 e2
    have : (x.ty == t) = false := by
      cases hh : x.ty == t
      · rfl
      · have : x.ty = t := by simpa using hh
        rw [this, ht] at hx; cases hx
    simp [this]

/-! ## matchesAppend -/

theorem matchesAppend_plain (env : Env) (ml : MatchList) (mh : Match) (hp : mh.ty.isPath = false)
    (hmf : isMF mh.ty = false) : matchesAppend env ml mh = (ml ++ [mh], false) := by
  unfold matchesAppend matchesMerge
  have : (mh.ty != .move && mh.ty != .flag) = true := by
    unfold isMF at hmf
    cases hh : mh.ty <;> simp [hh] at hmf ⊢
  simp [this, hp]

theorem matchesAppend_ok {env : Env} {L : Nat} (hctx : PCtx env L) (ml : MatchList) (mh : Match)
    (hinv : PathInv L ml) (hmh : okEntry L mh) :
    ∃ ml1 mh', matchesAppend env ml mh = (ml1 ++ [mh'], false) ∧ mh'.ty = mh.ty ∧ mh'.lno = mh.lno ∧
      okEntry L mh' ∧ MergeRes ml mh.ty ml1 := by
  obtain ⟨ml1, mh1, hm, hty, hlno, hok, hres⟩ := matchesMerge_spec ml mh hinv hmh
  obtain ⟨m0, hm0, hm0L⟩ := hctx.hm
  obtain ⟨s0, hs0, hs0L⟩ := hctx.hs
  unfold matchesAppend
  rw [hm]
  dsimp only
  by_cases hp : mh1.ty.isPath = true
  · simp only [hp, Bool.not_true, Bool.false_eq_true, if_false]
    -- the maildir
    have hmd : ∃ md, (if mh1.maildir.isEmpty = true then pathslice env.path PATH_MAX 0 (-2) else some mh1.maildir) = some md ∧
        md.length + 1 + L < PATH_MAX := by
      by_cases he : mh1.maildir.isEmpty = true
      · exact ⟨m0, by simp [he, hm0], hm0L⟩
      · exact ⟨mh1.maildir, by simp [he], hok.2⟩
    obtain ⟨md, hmd, hmdL⟩ := hmd
    rw [hmd]
    dsimp only
    have hsd : ∃ sd, (if mh1.subdir.isEmpty = true then pathslice env.path NAME_MAX1 (-2) (-2) else some mh1.subdir) = some sd ∧
        sd.length ≤ L := by
      by_cases he : mh1.subdir.isEmpty = true
      · exact ⟨s0, by simp [he, hs0], hs0L⟩
      · exact ⟨mh1.subdir, by simp [he], hok.1⟩
    obtain ⟨sd, hsd, hsdL⟩ := hsd
    rw [hsd]
    dsimp only
    have hj : pathjoin PATH_MAX md sd = some (md ++ [47] ++ sd) := by
      unfold pathjoin
      have : ¬ (md ++ [47] ++ sd).length ≥ PATH_MAX := by
        simp only [List.length_append, List.length_cons, List.length_nil]
        omega
      simp only [this, if_false]
    rw [hj]
    exact ⟨ml1, _, rfl, hty, hlno, ⟨hsdL, hmdL⟩, hres⟩
  · simp only [hp, Bool.not_false, if_true]
    exact ⟨ml1, mh1, rfl, hty, hlno, hok, hres⟩

/-! ## planOf -/

theorem planOf_snoc (ks : List (MType × Nat)) (k : MType × Nat) :
    planOf (ks ++ [k]) =
      (ks.filter (fun k => !isMoveFlag k) ++ (if isMoveFlag k then [] else [k]),
       if isMoveFlag k then some k else (ks.filter isMoveFlag).getLast?) := by
  unfold planOf
  by_cases h : isMoveFlag k = true <;> simp [List.filter_append, h]

theorem planOf_eq_nil_iff {ks ps : List (MType × Nat)} (h : planOf ks = planOf ps) : ks = [] ↔ ps = [] := by
  have key : ∀ l : List (MType × Nat), planOf l = ([], none) ↔ l = [] := by
    intro l
    constructor
    · intro hl
      unfold planOf at hl
      simp only [Prod.mk.injEq, List.filter_eq_nil_iff, List.getLast?_eq_none_iff] at hl
      cases l with
      | nil => rfl
      | cons x r =>
        have h1 := hl.1 x (by simp)
        have h2 := hl.2 x (by simp)
        simp at h1
        exact absurd h1 h2
    · intro hl; subst hl; rfl
  constructor
  · intro hk; subst hk; exact (key ps).1 h.symm
  · intro hp; subst hp; exact (key ks).1 h

theorem keysOf_of_mergeRes_filter {ml ml1 : MatchList} {ty : MType} (h : MergeRes ml ty ml1) :
    (keysOf ml1).filter (fun k => !isMoveFlag k) = (keysOf ml).filter (fun k => !isMoveFlag k) := by
  rcases h with h | ⟨_, a, x, b, e1, e2, hx⟩
  · rw [h]
  · subst e1 e2
    simp only [keysOf_append, keysOf_cons, List.filter_append]
    have : (isMoveFlag (x.ty, x.lno)) = true := by
      unfold isMoveFlag; unfold isMF at hx; simpa using hx
    by_cases hr : realAct x.ty = true <;> simp [hr, this]

/-- Appending an executed action through `matches_merge` has the effect on the plan that
appending its key has. -/
theorem plan_step {ml ml1 : MatchList} {mh mh' : Match} {ps : List (MType × Nat)}
    (hplan : planOf (keysOf ml) = planOf ps) (hres : MergeRes ml mh.ty ml1)
    (hty : mh'.ty = mh.ty) (hact : realAct mh.ty = true) :
    planOf (keysOf (ml1 ++ [mh'])) = planOf (ps ++ [(mh.ty, mh'.lno)]) := by
  have hk : keysOf (ml1 ++ [mh']) = keysOf ml1 ++ [(mh.ty, mh'.lno)] := by
    rw [keysOf_append, keysOf_cons, hty, hact]; simp
  rw [hk, planOf_snoc, planOf_snoc, keysOf_of_mergeRes_filter hres]
  unfold planOf at hplan
  simp only [Prod.mk.injEq] at hplan
  rw [hplan.1]
  by_cases hmf : isMoveFlag (mh.ty, mh'.lno) = true
  · simp [hmf]
  · have : isMF mh.ty = false := by
      unfold isMoveFlag at hmf; unfold isMF; simpa using hmf
    rw [hres.eq_of_not_mf this, hplan.2]

/-! ## removing the markers -/

theorem keysOf_filter_ne (ml : MatchList) (t : MType) (ht : realAct t = false) :
    keysOf (ml.filter (·.ty != t)) = keysOf ml := by
  unfold keysOf
  rw [List.filter_filter]
  congr 1
  apply List.filter_congr
  intro m _
  cases hr : realAct m.ty
  · simp
  · have : m.ty ≠ t := by intro e; rw [e, ht] at hr; cases hr
    simp [this]

theorem hasTy_filter_ne_self (ml : MatchList) (t : MType) : hasTy (ml.filter (·.ty != t)) t = false := by
  unfold hasTy
  simp only [List.any_filter]
  rw [List.any_eq_false]
  intro m _
  cases h : m.ty == t <;> simp [h, bne]

theorem hasTy_filter_ne (ml : MatchList) (t t' : MType) (h : t' ≠ t) :
    hasTy (ml.filter (·.ty != t)) t' = hasTy ml t' := by
  unfold hasTy
  simp only [List.any_filter]
  congr 1
  funext m
  cases h1 : m.ty == t'
  · simp
  · have : m.ty = t' := by simpa using h1
    simp [this, h]

theorem filter_ne_of_not_hasTy (ml : MatchList) (t : MType) (h : hasTy ml t = false) :
    ml.filter (·.ty != t) = ml := by
  rw [List.filter_eq_self]
  intro m hm
  unfold hasTy at h
  rw [List.any_eq_false] at h
  have := h m hm
  simp only [bne, Bool.not_eq_true'] at this ⊢
  simpa using this

theorem PathInv.filter {L : Nat} {ml : MatchList} (p : Match → Bool) (h : PathInv L ml) : PathInv L (ml.filter p) :=
  PathInv.sublist List.filter_sublist h

/-- Number of action entries once the markers are gone. -/
theorem count_actions (ml : MatchList) (hb : hasTy ml .brk = false) (hp : hasTy ml .pass = false) :
    (ml.filter (·.ty.isAction)).length = (keysOf ml).length := by
  unfold keysOf
  rw [List.length_map]
  congr 1
  apply List.filter_congr
  intro m hm
  unfold hasTy at hb hp
  rw [List.any_eq_false] at hb hp
  have h1 := hb m hm
  have h2 := hp m hm
  unfold realAct
  have e1 : (m.ty != .brk) = true := by simpa [bne] using h1
  have e2 : (m.ty != .pass) = true := by simpa [bne] using h2
  simp [e1, e2]

end Mdsort.Proofs
