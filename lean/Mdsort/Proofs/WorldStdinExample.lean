import Mdsort.Proofs.WorldStdinTop

/-! A concrete stdin run for the non-vacuity examples of C02 / C04: a 10-byte message, TMPDIR
`/tmp`, the rule `match all move "/m/inbox"`, the destination directory present. -/

namespace Mdsort.Proofs.StdinExample
open Mdsort Mdsort.Model Mdsort.Proofs.World

def env0 : PEnv :=
  { now := 1700000000, pid := 42, host := [104], random := 7, tmpdir := [47, 116, 109, 112], home := [47, 104],
    confpath := [47, 99], dryrun := false, syntaxOnly := false, stdinMode := true }

/-- `A: b\n\nhey\n` -/
def input0 : Bytes := [65, 58, 32, 98, 10, 10, 104, 101, 121, 10]

/-- `/m/inbox` -/
def inbox : Bytes := [47, 109, 47, 105, 110, 98, 111, 120]

/-- Standard input is descriptor 0 on a file holding the message; `/m/inbox/new` exists and is empty. -/
def w0 : World :=
  { dirs := [(inbox ++ [47, 110, 101, 119], [])], files := [(0, ⟨input0, input0⟩)], nextFid := 1,
    handles := [.file 0 0 false], devs := [], trace := [] }

def orc0 : EvalOracles := { rx := fun _ _ => .nomatch, strptime := fun _ => none, zoneName := fun _ => none }

/-- `stdin { match all move "/m/inbox" }` -/
def expr0 : Expr := .block 1 (.mtch 2 (.all 2) (.move 2 inbox))
/-- `stdin { match old move "/m/inbox" }`: never matches a freshly spooled message. -/
def expr1 : Expr := .block 1 (.mtch 2 (.old 2) (.move 2 inbox))

def conf0 : List ConfBlock := [⟨[ofString "/dev/stdin"], expr0⟩]

/-- The first name `maildir_genname` tries (`arc4random() % 128 = 7`). -/
def name0 : Bytes := gennameName env0 none 8
def path0 : Bytes := spoolPath env0 ++ [47] ++ name0

/-- The call with index 5 of `maildir_stdin` is the first `write`: it transfers 3 of the 10 bytes. -/
def shortWrite : Plan := fun i => if i = 5 then some (.short 3) else none

/-- Boolean form of the side conditions of `Delivered`. -/
def deliversB (sp : Bytes) : Verdict → Bool
  | .actions ml _ =>
    ml.all (fun m => m.ty != .discard) && ml.any (fun m => m.ty == .move || m.ty == .flag || m.ty == .flags) &&
      ml.all (fun m => !(m.ty == .move || m.ty == .flag || m.ty == .flags) || destPath m.path != some sp)
  | _ => false

def unmatchedB : Verdict → Bool
  | .unmatched => true
  | _ => false

set_option maxRecDepth 100000

theorem ex_stdinExprs : stdinExprs conf0 = [expr0] := by
  have : isStdinPath (ofString "/dev/stdin") = true := by decide +kernel
  simp [stdinExprs, conf0, this]

theorem ex_stdinIs : StdinIs w0 input0 := ⟨0, ⟨input0, input0⟩, rfl, rfl, rfl, by decide⟩

theorem ex_fresh : SpoolFresh env0 w0 := by
  constructor <;> decide +kernel

/-- Without faults `maildir_stdin` succeeds on the example. -/
theorem ex_stdin_ok : (runPlan Plan.none (maildirStdin env0 input0) w0 0 []).1.2.1 = false := by decide +kernel

/-- With the short `write` it still succeeds (the loop writes the remaining 7 bytes). -/
theorem ex_stdin_short_ok : (runPlan shortWrite (maildirStdin env0 input0) w0 0 []).1.2.1 = false := by decide +kernel

theorem ex_flags : flagsParse name0 = some MFlags.empty := by decide +kernel

/-- The rule set of the example yields one move to `/m/inbox/new`: no discard, a move, not into the spool. -/
theorem ex_delivers : deliversB (spoolPath env0) (stdinVerdict env0 orc0 expr0 input0 path0 MFlags.empty) = true := by
  simp only [stdinVerdict, verdictOf, expr0, eval]
  decide +kernel

/-- `match old …` does not match the spooled message: the "nothing matched" case of `Delivered` occurs. -/
theorem ex_unmatched : unmatchedB (stdinVerdict env0 orc0 expr1 input0 path0 MFlags.empty) = true := by
  simp only [stdinVerdict, verdictOf, expr1, eval]
  decide +kernel

end Mdsort.Proofs.StdinExample
