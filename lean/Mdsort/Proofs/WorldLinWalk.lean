import Mdsort.Proofs.WorldLinMsg
import Mdsort.Proofs.WorldWholeWalk

/-!
# A whole walk and a whole run (maildir mode) under EVERY fault plan: no registered message is lost - BY LINEAGE

`WholeSafeL … c f0 w`: some entry of `w` is bound to a file that DESCENDS FROM the initial file `f0` and whose visible
and durable contents are versions of `c` (zero or more complete rewrites by the rules).  `WholeAllSafeL`: this holds for
every message of the initial registry, `f0` being the file its entry was bound to in the initial world.  Since the
origin of a file is a function of the file, two messages bound to different initial files are never witnessed by the same
entry: the witness map is injective (`WholeAllSafeL.injective`), which the by-content statement `WholeAllSafe` is not.
-/

namespace Mdsort.Proofs
open Mdsort Mdsort.Model
open Mdsort.Proofs.World (wp wp_mono wp_inv_mono wp_bind_mono wp_call_any WholeK lk Ent GoodAt Good LGood LinPre Hist linAt
  bind_eq pure_eq call_bind ret_bind call_bind')

/-- Some entry is bound to a file that descends from `f0` and whose visible and durable contents are versions of `c`. -/
def WholeSafeL (env : PEnv) (orc : EvalOracles) (exprs : List Expr) (w0 : World) (l0 : Lin) (c : Bytes) (f0 : Nat) (w : World) : Prop :=
  ∃ d n g f, w.lookup d n = some g ∧ g < w.nextFid ∧ (linAt w0 l0 w).org g = f0 ∧ w.file g = some f ∧
    WholeVersion env orc exprs c f.data ∧ WholeVersion env orc exprs c f.durable

/-- Every message of the registry `files0`, bound in `w0` to the file `fid0`, has in `w` an entry bound to a descendant of
`fid0` that holds a version of it. -/
def WholeAllSafeL (env : PEnv) (orc : EvalOracles) (exprs : List Expr) (files0 : Files) (w0 : World) (l0 : Lin) (w : World) : Prop :=
  ∀ dir nm c fid0, files0.get dir nm = some c → w0.lookup dir nm = some fid0 →
    WholeSafeL env orc exprs w0 l0 c (l0.org fid0) w

/-- What the walk keeps after every call. -/
def WholeIL (env : PEnv) (orc : EvalOracles) (exprs : List Expr) (files0 : Files) (w0 : World) (l0 : Lin) (w : World) : Prop :=
  Hist w0 w ∧ WholeAllSafeL env orc exprs files0 w0 l0 w

theorem WholeSafeL.step {env : PEnv} {orc : EvalOracles} {exprs : List Expr} {w0 : World} {l0 : Lin} {c : Bytes} {f0 : Nat} {w : World}
    (h : WholeSafeL env orc exprs w0 l0 c f0 w) (hH : Hist w0 w) (cl : Call) (r : Res)
    (hd : World.Call.dirOp cl = false) (hfs : ∀ g, World.fileSafe w g cl) : WholeSafeL env orc exprs w0 l0 c f0 (stepWorld w cl r) := by
  obtain ⟨d, n, g, f, h1, h2, h3, h4, h5, h6⟩ := h
  have hf := World.file_step h4 h2 cl r (hfs g)
  refine ⟨d, n, g, f, ?_, hf.2, ?_, hf.1, h5, h6⟩
  · rw [← h1]; exact World.lk_step w cl r hd (d, n)
  · rw [World.linAt_step l0 hH, World.linStep_org_lt _ _ _ _ _ h2]; exact h3

theorem WholeIL.step {env : PEnv} {orc : EvalOracles} {exprs : List Expr} {files0 : Files} {w0 : World} {l0 : Lin} {w : World}
    (h : WholeIL env orc exprs files0 w0 l0 w) (cl : Call) (r : Res)
    (hd : World.Call.dirOp cl = false) (hfs : ∀ g, World.fileSafe w g cl) : WholeIL env orc exprs files0 w0 l0 (stepWorld w cl r) :=
  ⟨h.1.step cl r, fun dir nm c fid0 hc hl => (h.2 dir nm c fid0 hc hl).step h.1 cl r hd hfs⟩

/-- The by-lineage statement implies the by-content one. -/
theorem WholeSafeL.safe {env : PEnv} {orc : EvalOracles} {exprs : List Expr} {w0 : World} {l0 : Lin} {c : Bytes} {f0 : Nat} {w : World}
    (h : WholeSafeL env orc exprs w0 l0 c f0 w) : WholeSafe env orc exprs c w := by
  obtain ⟨d, n, g, f, h1, h2, _, h4, h5, h6⟩ := h
  exact ⟨d, n, g, f, h1, h2, h4, h5, h6⟩

/-- Two messages that descend from different initial files are witnessed by different files (hence different entries). -/
theorem WholeSafeL.injective {env : PEnv} {orc : EvalOracles} {exprs : List Expr} {w0 : World} {l0 : Lin} {c c' : Bytes} {f0 f0' : Nat}
    {w : World} {d n d' n' : Bytes} {g g' : Nat}
    (_h1 : w.lookup d n = some g) (ho : (linAt w0 l0 w).org g = f0) (_h2 : w.lookup d' n' = some g')
    (ho' : (linAt w0 l0 w).org g' = f0') (hne : f0 ≠ f0') : g ≠ g' ∧ (d, n) ≠ (d', n') := by
  have hg : g ≠ g' := by
    rintro rfl
    exact hne (ho.symm.trans ho')
  refine ⟨hg, ?_⟩
  intro he
  cases he
  rw [_h1] at _h2
  exact hg (Option.some.inj _h2)

/-- `maildir_opendir` at the level of the walk, by lineage. -/
theorem lin_maildirOpendir {env : PEnv} {orc : EvalOracles} {exprs : List Expr} {files0 : Files} {w0 : World} {l0 : Lin}
    (md : Maildir) (path : Bytes) {w : World} (h : WholeIL env orc exprs files0 w0 l0 w) :
    wp (WholeIL env orc exprs files0 w0 l0) (maildirOpendir md path) (fun _ w' => WholeIL env orc exprs files0 w0 l0 w') w := by
  unfold maildirOpendir
  simp only [bind_eq, pure_eq, call_bind]
  have tail : ∀ w1, WholeIL env orc exprs files0 w0 l0 w1 →
      wp (WholeIL env orc exprs files0 w0 l0)
        (Prog.call (Call.opendir path) fun r =>
          match r with
          | Res.ok h => Prog.ret (({ md with dirH := some h } : Maildir), false)
          | _ => Prog.ret (({ md with dirH := none } : Maildir), true))
        (fun _ w' => WholeIL env orc exprs files0 w0 l0 w') w1 := by
    intro w1 h1 ft
    have h2 := h1.step (.opendir path) (World.faultResult ft w1 (.opendir path)) rfl (fun _ => trivial)
    refine ⟨h2, ?_⟩
    dsimp only
    split <;> exact h2
  split
  · rename_i d _
    refine wp_call_any fun r => ?_
    have h1 := h.step (.closedir d) r rfl (fun _ => trivial)
    exact ⟨h1, tail _ h1⟩
  · exact tail _ h

/-- One message at the level of the walk: every tracked message stays safe by lineage after every call. -/
theorem lin_processMessage_all (env : PEnv) (orc : EvalOracles) (expr : Expr) (exprs : List Expr) (hmem : expr ∈ exprs)
    (hnd : WholeNoDiscard env orc expr) (files0 : Files) {w0 : World} {l0 : Lin} (md : Maildir) (n : Bytes) (st : MainSt)
    {w1 : World} {d : Handle} {content : Bytes} {fid : Nat}
    (hd : md.dirH = some d) (hp : w1.dirPath d = some md.path)
    (hwf : pathjoin PATH_MAX md.root (subdirName md.subdir) = some md.path)
    (hfc : st.files.get md.path n = some content)
    (hl : w1.lookup md.path n = some fid) (hlt : fid < w1.nextFid) (hf : w1.file fid = some ⟨content, content⟩)
    (h : WholeIL env orc exprs files0 w0 l0 w1) :
    wp (WholeIL env orc exprs files0 w0 l0) (processMessage env orc expr md n st)
      (fun _ w' => WholeIL env orc exprs files0 w0 l0 w') w1 := by
  obtain ⟨hH, hall⟩ := h
  -- one tracked message
  have one : ∀ i : Bytes × Bytes × Bytes × Nat,
      wp (fun w' => Hist w0 w' ∧ (files0.get i.1 i.2.1 = some i.2.2.1 → w0.lookup i.1 i.2.1 = some i.2.2.2 →
            WholeSafeL env orc exprs w0 l0 i.2.2.1 (l0.org i.2.2.2) w'))
        (processMessage env orc expr md n st)
        (fun _ w' => Hist w0 w' ∧ (files0.get i.1 i.2.1 = some i.2.2.1 → w0.lookup i.1 i.2.1 = some i.2.2.2 →
            WholeSafeL env orc exprs w0 l0 i.2.2.1 (l0.org i.2.2.2) w')) w1 := by
    rintro ⟨dir, nm, c, fid0⟩
    dsimp only
    have hpre := World.wp_linPre (processMessage env orc expr md n st) (LinPre.start (l0 := l0) hH)
    by_cases hi : files0.get dir nm = some c ∧ w0.lookup dir nm = some fid0
    · obtain ⟨p, q, g, f, h1, h2, h3, h4, h5, h6⟩ := hall dir nm c fid0 hi.1 hi.2
      by_cases hpq : (p, q) = (md.path, n)
      · -- the message being processed
        cases hpq
        have hgf : g = fid := by rw [hl] at h1; exact (Option.some.inj h1).symm
        subst hgf
        have hfc' : f = ⟨content, content⟩ := by rw [hf] at h4; exact (Option.some.inj h4).symm
        subst hfc'
        have ver : ∀ as x, x ∈ [content, wholeRewrite env orc expr md.path n content as] → WholeVersion env orc exprs c x := by
          intro as x hx
          simp only [List.mem_cons, List.mem_nil_iff, or_false] at hx
          rcases hx with rfl | rfl
          · exact h5
          · exact .step expr md.path n as h5 hmem
        have conv : ∀ w', LPMA env orc expr w0 l0 w1.nextFid (linAt w0 l0 w1).org ((linAt w0 l0 w1).org g) md.path n content w' →
            Hist w0 w' ∧ (files0.get dir nm = some c → w0.lookup dir nm = some fid0 →
              WholeSafeL env orc exprs w0 l0 c (l0.org fid0) w') := by
          rintro w' ⟨as, hp', p', q', g', hg', ho'⟩
          refine ⟨hp'.hist, fun _ _ => ?_⟩
          obtain ⟨a1, a2, f', a3, a4, a5⟩ := hg'
          exact ⟨p', q', g', f', a1, a2, by rw [ho', h3], a3, ver as _ a4, ver as _ a5⟩
        exact wp_mono (wp_inv_mono (lin_processMessage env orc expr md n st hH hd hp hfc hl hlt hf hnd) conv)
          (fun _ w' h => conv w' h)
      · -- another message: its entry, its file and the origin of its file are untouched
        have conv : ∀ w', (WholePMIA env orc expr w1 md.path n content w' ∧
              LinPre w0 l0 w1.nextFid (linAt w0 l0 w1).org w') →
            Hist w0 w' ∧ (files0.get dir nm = some c → w0.lookup dir nm = some fid0 →
              WholeSafeL env orc exprs w0 l0 c (l0.org fid0) w') := by
          rintro w' ⟨⟨as, k, -⟩, hp'⟩
          refine ⟨hp'.hist, fun _ _ => ?_⟩
          exact ⟨p, q, g, f, k.look (p, q) g hpq h1, Nat.lt_of_lt_of_le h2 k.nextFid, by rw [hp'.old g h2, h3],
            (k.files g h2).trans h4, h5, h6⟩
        have hwhole := whole_processMessage env orc expr md n st hd hp hwf hfc hl hlt hf hnd
        refine wp_mono (wp_inv_mono (World.whole_wp_and hwhole hpre) conv) ?_
        rintro r w' ⟨⟨-, k, -⟩, hp'⟩
        refine ⟨hp'.hist, fun _ _ => ?_⟩
        exact ⟨p, q, g, f, k.look (p, q) g hpq h1, Nat.lt_of_lt_of_le h2 k.nextFid, by rw [hp'.old g h2, h3],
          (k.files g h2).trans h4, h5, h6⟩
    · exact wp_mono (wp_inv_mono hpre (fun w' hp' => ⟨hp'.hist, fun a b => absurd ⟨a, b⟩ hi⟩))
        (fun _ w' hp' => ⟨hp'.hist, fun a b => absurd ⟨a, b⟩ hi⟩)
  have hallw := World.wp_forall one
  refine wp_mono (wp_inv_mono hallw ?_) ?_
  · intro w' hw'
    exact ⟨(hw' ([], [], [], 0)).1, fun dir nm c fid0 hc hl0 => (hw' (dir, nm, c, fid0)).2 hc hl0⟩
  · intro _ w' hw'
    exact ⟨(hw' ([], [], [], 0)).1, fun dir nm c fid0 hc hl0 => (hw' (dir, nm, c, fid0)).2 hc hl0⟩

/-! ## the walk -/

/-- `walk` under every fault plan: after every call every message registered at the start is safe BY LINEAGE. -/
theorem lin_walk (env : PEnv) (orc : EvalOracles) (expr : Expr) (exprs : List Expr) (hmem : expr ∈ exprs)
    (hnd : WholeNoDiscard env orc expr) (files0 : Files) (w0 : World) (l0 : Lin) (fuel : Nat) :
    ∀ (md : Maildir) (st : MainSt) {w : World}, WholeInv env orc exprs files0 w st → WholeMdOk w md →
      WholeIL env orc exprs files0 w0 l0 w →
      wp (WholeIL env orc exprs files0 w0 l0) (walk env orc expr fuel md st)
        (fun r w' => WholeInv env orc exprs files0 w' r.1 ∧ WholeMdOk w' r.2 ∧ WholeIL env orc exprs files0 w0 l0 w') w := by
  induction fuel with
  | zero => intro md st w hinv hmd hil; exact ⟨⟨hinv.reg, hinv.track⟩, hmd, hil⟩
  | succ fuel ih =>
    intro md st w hinv hmd hil
    rw [Own.walk_succ]
    cases hd : md.dirH with
    | none => exact ⟨hinv, hmd, hil⟩
    | some d =>
      dsimp only
      refine wp_call_any fun r => ?_
      have hp := hmd.1 d hd
      have hinv1 := hinv.step (.readdir d) r rfl (fun _ => trivial)
      have hil1 := hil.step (.readdir d) r rfl (fun _ => trivial)
      have hmd1 : WholeMdOk (stepWorld w (.readdir d) r) md := by
        refine ⟨?_, hmd.2⟩
        intro d' hd'
        rw [hd] at hd'
        cases hd'
        rw [World.stepWorld_dirPath]
        exact whole_readdir_dirPath hp r
      refine ⟨hil1, ?_⟩
      generalize stepWorld w (.readdir d) r = w1 at hinv1 hmd1 hil1 ⊢
      have herr : ∀ md' : Maildir, WholeMdOk w1 md' →
          WholeInv env orc exprs files0 w1 ({ st with error := true } : MainSt) ∧ WholeMdOk w1 md' ∧
            WholeIL env orc exprs files0 w0 l0 w1 :=
        fun md' h => ⟨⟨hinv1.reg, hinv1.track⟩, h, hil1⟩
      unfold Own.walkK
      cases r with
      | name n =>
        dsimp only
        split
        · exact ih md st hinv1 hmd1 hil1
        · cases hfc : st.files.get md.path n with
          | none =>
            rw [processMessage_unknown env orc expr md n st d hd hfc]
            exact ih md _ ⟨hinv1.reg, hinv1.track⟩ hmd1 hil1
          | some content =>
            obtain ⟨fid, hl, hlt, hf⟩ := hinv1.reg _ _ _ hfc
            refine wp_bind_mono (wp_inv_mono (World.whole_wp_and
              (whole_processMessage env orc expr md n st hd (hmd1.1 d hd) hmd1.2 hfc hl hlt hf hnd)
              (lin_processMessage_all env orc expr exprs hmem hnd files0 md n st hd (hmd1.1 d hd) hmd1.2 hfc hl hlt hf hil1))
              (fun w' h => h.2)) ?_
            rintro ⟨st', md'⟩ w2 ⟨⟨hmd', k, hpost⟩, hil2⟩
            simp only at hmd'
            subst hmd'
            obtain ⟨hreg', hrel⟩ := hpost hinv1.reg
            refine ih md' st' ⟨hreg', ?_⟩ ⟨?_, hmd1.2⟩ hil2
            · intro dir nm c hc
              obtain ⟨dir', nm', c', hc', hv⟩ := hinv1.track dir nm c hc
              obtain ⟨dir'', nm'', c'', hc'', hcase⟩ := hrel dir' nm' c' hc'
              refine ⟨dir'', nm'', c'', hc'', ?_⟩
              rcases hcase with rfl | ⟨as, rfl⟩
              · exact hv
              · exact .step expr dir' nm' as hv hmem
            · intro d' hd'
              have hp1 := hmd1.1 d' hd'
              exact k.dirPath hp1 (World.lt_of_dirPath hp1)
      | eof =>
        dsimp only
        split
        · exact ⟨hinv1, hmd1, hil1⟩
        · split
          · exact ⟨hinv1, hmd1, hil1⟩
          · split
            · exact herr md hmd1
            · rename_i p hp'
              refine wp_bind_mono (wp_inv_mono (World.whole_wp_and
                (whole_maildirOpendir { md with subdir := .cur, path := p } p hinv1)
                (lin_maildirOpendir { md with subdir := .cur, path := p } p hil1)) (fun _ h => h.2)) ?_
              rintro ⟨md2, failed⟩ w2 ⟨⟨hinv2, h1, h2, h3, h4⟩, hil2⟩
              simp only at h1 h2 h3 h4
              have hmd2 : WholeMdOk w2 md2 := by
                refine ⟨fun h hh => by rw [h3]; exact h4 h hh, ?_⟩
                rw [h1, h2, h3]
                exact hp'
              dsimp only
              split
              · exact ⟨⟨hinv2.reg, hinv2.track⟩, hmd2, hil2⟩
              · exact ih md2 st hinv2 hmd2 hil2
      | ok v => exact herr md hmd1
      | err e => exact herr md hmd1

/-! ## a whole run in maildir mode -/

theorem lin_paths (env : PEnv) (orc : EvalOracles) (input : Bytes) (b : ConfBlock) (exprs : List Expr)
    (hm : env.stdinMode = false) (hmem : b.expr ∈ exprs) (hnd : WholeNoDiscard env orc b.expr) (files0 : Files)
    (w0 : World) (l0 : Lin) (ps : List Bytes) :
    ∀ (st : MainSt) {w : World}, WholeInv env orc exprs files0 w st → WholeIL env orc exprs files0 w0 l0 w →
      wp (WholeIL env orc exprs files0 w0 l0) (mainP.blocks.paths env orc input b ps st)
        (fun st' w' => WholeInv env orc exprs files0 w' st' ∧ WholeIL env orc exprs files0 w0 l0 w') w := by
  induction ps with
  | nil => intro st w hinv hil; rw [Own.paths_nil]; exact ⟨hinv, hil⟩
  | cons p more ih =>
    intro st w hinv hil
    rw [Own.paths_cons]
    split
    · exact ih _ hinv hil
    · rename_i hsk
      split
      · rename_i hs
        exact absurd (by simp [skipPath, hm, hs]) hsk
      · split
        · rename_i root np hroot hnp
          have hroot' : root = p := World.strlcpyFits_eq hroot
          refine wp_bind_mono (wp_inv_mono (World.whole_wp_and (whole_maildirOpendir (maildirOf root np) np hinv)
            (lin_maildirOpendir (maildirOf root np) np hil)) (fun _ h => h.2)) ?_
          rintro ⟨md1, failed⟩ w1 ⟨⟨hinv1, h1, h2, h3, h4⟩, hil1⟩
          simp only [maildirOf] at h1 h2 h3 h4
          dsimp only
          split
          · exact ih _ ⟨hinv1.reg, hinv1.track⟩ hil1
          · have hmd1 : WholeMdOk w1 md1 := by
              refine ⟨fun h hh => by rw [h3]; exact h4 h hh, ?_⟩
              rw [h1, h2, h3, hroot']
              exact hnp
            refine wp_bind_mono (lin_walk env orc b.expr exprs hmem hnd files0 w0 l0 _ md1 st hinv1 hmd1 hil1) ?_
            rintro ⟨st2, md2⟩ w2 ⟨hinv2, -, hil2⟩
            dsimp only
            unfold maildirClose
            split
            · rename_i d _
              simp only [bind_eq, pure_eq, call_bind, World.call_bind', ret_bind]
              refine wp_call_any fun r => ?_
              have hinv3 := hinv2.step (.closedir d) r rfl (fun _ => trivial)
              have hil3 := hil2.step (.closedir d) r rfl (fun _ => trivial)
              exact ⟨hil3, ih _ hinv3 hil3⟩
            · simp only [pure_eq, ret_bind]
              exact ih _ hinv2 hil2
        · exact ih _ ⟨hinv.reg, hinv.track⟩ hil

theorem lin_blocks (env : PEnv) (orc : EvalOracles) (input : Bytes) (exprs : List Expr) (hm : env.stdinMode = false)
    (files0 : Files) (w0 : World) (l0 : Lin) (bs : List ConfBlock)
    (hbs : ∀ b ∈ bs, b.expr ∈ exprs ∧ WholeNoDiscard env orc b.expr) :
    ∀ (st : MainSt) {w : World}, WholeInv env orc exprs files0 w st → WholeIL env orc exprs files0 w0 l0 w →
      wp (WholeIL env orc exprs files0 w0 l0) (mainP.blocks env orc input bs st)
        (fun st' w' => WholeInv env orc exprs files0 w' st' ∧ WholeIL env orc exprs files0 w0 l0 w') w := by
  induction bs with
  | nil => intro st w hinv hil; rw [Own.blocks_nil]; exact ⟨hinv, hil⟩
  | cons b rest ih =>
    intro st w hinv hil
    rw [Own.blocks_cons]
    obtain ⟨hb1, hb2⟩ := hbs b (List.mem_cons_self ..)
    refine wp_bind_mono (lin_paths env orc input b exprs hm hb1 hb2 files0 w0 l0 b.paths st hinv hil) ?_
    rintro st' w' ⟨hinv', hil'⟩
    exact ih (fun b' hb' => hbs b' (List.mem_cons_of_mem _ hb')) st' hinv' hil'

/-- The registry is consistent with the world: the start of the run satisfies the by-lineage invariant (every message
is its own witness, and is its own origin when the lineage starts as the identity). -/
theorem WholeIL.start {env : PEnv} {orc : EvalOracles} {exprs : List Expr} {files : Files} {w : World} (l0 : Lin)
    (hreg : WholeReg w files) : WholeIL env orc exprs files w l0 w := by
  refine ⟨Hist.refl w, ?_⟩
  intro dir nm c fid0 hc hl
  obtain ⟨fid, h1, h2, h3⟩ := hreg dir nm c hc
  have : fid = fid0 := by rw [hl] at h1; exact (Option.some.inj h1).symm
  subst this
  exact ⟨dir, nm, fid, _, hl, h2, by rw [World.linAt_self], h3, .refl c, .refl c⟩

/-- `mainP` in maildir mode under every fault plan: after every call every registered message is safe by lineage. -/
theorem lin_mainP (env : PEnv) (orc : EvalOracles) (confOk : Bool) (conf : List ConfBlock) (files : Files) (input : Bytes)
    (hm : env.stdinMode = false) (hnd : ∀ b ∈ conf, WholeNoDiscard env orc b.expr) {w : World} (l0 : Lin) (hreg : WholeReg w files) :
    wp (WholeIL env orc (conf.map (·.expr)) files w l0) (mainP env orc confOk conf files input) (fun _ _ => True) w := by
  have hinv0 : WholeInv env orc (conf.map (·.expr)) files w { files := files, error := false, reject := false, log := [] } :=
    ⟨hreg, fun dir nm c hc => ⟨dir, nm, c, hc, .refl c⟩⟩
  have hil0 : WholeIL env orc (conf.map (·.expr)) files w l0 w := WholeIL.start l0 hreg
  rw [Own.mainP_eq]
  refine World.wp_call (fun r => r = .ok w.handles.length ∨ ∃ e, r = .err e)
    (fun ft => World.results_simple ft w _ _ (by intro _ h; cases h) (by intro _ _ h; cases h) rfl) ?_
  intro r hr
  have hinv1 := hinv0.step (.fopen env.confpath) r rfl (fun _ => trivial)
  have hil1 := hil0.step (.fopen env.confpath) r rfl (fun _ => trivial)
  refine ⟨hil1, ?_⟩
  rcases hr with rfl | ⟨e, rfl⟩
  · dsimp only
    have hobj : (stepWorld w (.fopen env.confpath) (.ok w.handles.length)).obj w.handles.length = .other := by
      have hc : World.core w (.fopen env.confpath) (.ok w.handles.length) = (w.newHandle .other).1 := by
        simp [World.core, applyOk]
      rw [World.stepWorld_obj, hc, World.obj_newHandle]
      simp
    refine wp_call_any fun r2 => ?_
    have hsafe : ∀ g, World.fileSafe (stepWorld w (.fopen env.confpath) (.ok w.handles.length)) g (.fclose w.handles.length) := by
      intro g
      simp only [World.fileSafe, hobj, World.objFid]
      intro h; cases h
    have hinv2 := hinv1.step (.fclose w.handles.length) r2 rfl hsafe
    have hil2 := hil1.step (.fclose w.handles.length) r2 rfl hsafe
    refine ⟨hil2, ?_⟩
    unfold Own.mainK
    split
    · trivial
    · split
      · trivial
      · refine wp_bind_mono (lin_blocks env orc input (conf.map (·.expr)) hm files w l0 conf
          (fun b hb => ⟨List.mem_map.2 ⟨b, hb, rfl⟩, hnd b hb⟩) _ hinv2 hil2) ?_
        intro _ _ _
        trivial
  · trivial

/-! ## statements in terms of `runPlan` -/

theorem lin_walk_no_loss (env : PEnv) (orc : EvalOracles) (expr : Expr) (fuel : Nat) (md : Maildir) (st : MainSt)
    (w : World) (plan : Plan) (hnd : WholeNoDiscard env orc expr) (hreg : WholeReg w st.files) (hmd : WholeMdOk w md) :
    ∀ w' ∈ (runPlan plan (walk env orc expr fuel md st) w 0 []).2.2,
      WholeAllSafeL env orc [expr] st.files w Lin.init w' := by
  intro w' hw'
  rw [World.runPlan_eq] at hw'
  simp only [List.nil_append] at hw'
  have hinv : WholeInv env orc [expr] st.files w st := ⟨hreg, fun dir nm c hc => ⟨dir, nm, c, hc, .refl c⟩⟩
  exact ((World.wp_sound plan (lin_walk env orc expr [expr] (List.mem_singleton.2 rfl) hnd st.files w Lin.init fuel md st hinv hmd
    (WholeIL.start Lin.init hreg)) 0).1 w' hw').2

theorem lin_main_no_loss (env : PEnv) (orc : EvalOracles) (confOk : Bool) (conf : List ConfBlock) (files : Files) (input : Bytes)
    (w : World) (plan : Plan) (hm : env.stdinMode = false) (hnd : ∀ b ∈ conf, WholeNoDiscard env orc b.expr)
    (hreg : WholeReg w files) :
    ∀ w' ∈ (runPlan plan (mainP env orc confOk conf files input) w 0 []).2.2,
      WholeAllSafeL env orc (conf.map (·.expr)) files w Lin.init w' := by
  intro w' hw'
  rw [World.runPlan_eq] at hw'
  simp only [List.nil_append] at hw'
  exact ((World.wp_sound plan (lin_mainP env orc confOk conf files input hm hnd Lin.init hreg) 0).1 w' hw').2

end Mdsort.Proofs
