import Mdsort.Model.Eval

/-!
# C15 - which instant a date condition looks at, and how it compares (`expr_eval_date`, expr.c)

`date [header]` takes the instant from the `Date` header (`message_get_header1` + `time_parse`);
`date access | modified | created` takes it from `stat(path)`: `st_atim`, `st_mtim`, `st_ctim`
respectively.  In the model `stat` is the oracle `env.fileTime : path → Option FileTimes` (the three
`tv_sec` values, `none` = `stat` failed) and `time_format` the oracle `env.timeFormat`; the selection
of the field is part of the model (`Model.eval`, as `ts = &st.st_atim / st_mtim / st_ctim` in the C
code), and the theorems below show that each field looks at exactly its own time stamp of the
message's own path and at nothing else.  The comparison is strict, in both directions, for every
`now` and every instant (also in the future).
-/

namespace Mdsort.Proofs
open Mdsort Mdsort.Model

/-- The documented binding of the file fields: `access` = `st_atim`, `modified` = `st_mtim`,
`created` = `st_ctim` (`header` does not look at the file; the value is irrelevant). -/
def fieldTime (sb : FileTimes) : DateField → Int
  | .access => sb.atime
  | .modified => sb.mtime
  | .created => sb.ctime
  | .header => 0

/-- `stat(path)`, one time stamp of the result, `time_format` of it: `none` = error (either call failed). -/
def statInstant (env : Env) (sel : FileTimes → Int) : Option (Option (Int × Bytes)) :=
  match env.fileTime env.path with
  | none => none
  | some sb =>
    match env.timeFormat (sel sb) with
    | none => none
    | some s => some (some (sel sb, s))

/-- The instant (and the text shown by `-d`) a date condition on `field` looks at: `none` = error,
`some none` = there is nothing to compare (no `Date` header), `some (some (t, text))` otherwise. -/
def dateInstant (env : Env) (m : Msg) : DateField → Option (Option (Int × Bytes))
  | .header =>
    match getHeader1 m (ofString "Date") with
    | none => some none
    | some d =>
      match timeParse env.strptime env.zoneName d with
      | none => none
      | some t => some (some (t, d))
  | .access => statInstant env (·.atime)
  | .modified => statInstant env (·.mtime)
  | .created => statInstant env (·.ctime)

/-- The documented comparison: `date > age` holds iff the message is strictly older than `age`,
`date < age` iff strictly younger; `now - tim` is the age (negative for an instant in the future). -/
def AgeHolds (cmp : DateCmp) (age now tim : Int) : Prop :=
  match cmp with
  | .gt => now - tim > age
  | .lt => now - tim < age

instance (cmp : DateCmp) (age now tim : Int) : Decidable (AgeHolds cmp age now tim) := by
  unfold AgeHolds; cases cmp <;> exact inferInstance

theorem dateMatches_iff (cmp : DateCmp) (age now tim : Int) :
    dateMatches cmp age now tim = true ↔ AgeHolds cmp age now tim := by
  cases cmp <;> simp [dateMatches, AgeHolds]

theorem dateMatches_gt (age now tim : Int) : dateMatches .gt age now tim = true ↔ now - tim > age :=
  dateMatches_iff .gt age now tim

theorem dateMatches_lt (age now tim : Int) : dateMatches .lt age now tim = true ↔ now - tim < age :=
  dateMatches_iff .lt age now tim

/-- The outcome of a date condition, given what `dateInstant` found. -/
def dateOutcome (env : Env) (lno : Nat) (cmp : DateCmp) (age : Nat) (part : Nat) (st : St) :
    Option (Option (Int × Bytes)) → Tri × St
  | none => (.error, st)
  | some none => (.nomatch, st)
  | some (some (tim, text)) =>
    if AgeHolds cmp age env.now tim then
      exprRegexec env .date lno part { src := [46, 42] } (ofString "Date") text st
    else (.nomatch, st)

theorem date_tail (env : Env) (lno : Nat) (cmp : DateCmp) (age : Nat) (part : Nat) (st : St) (tim : Int) (text : Bytes) :
    (if (!dateMatches cmp (age : Int) env.now tim) = true then (Tri.nomatch, st)
      else exprRegexec env .date lno part { src := [46, 42] } (ofString "Date") text st) =
    dateOutcome env lno cmp age part st (some (some (tim, text))) := by
  unfold dateOutcome
  by_cases h : AgeHolds cmp age env.now tim
  · have := (dateMatches_iff cmp age env.now tim).2 h
    simp only [this, Bool.not_true, Bool.false_eq_true, ↓reduceIte, h]
  · have : dateMatches cmp age env.now tim = false := by
      cases hd : dateMatches cmp age env.now tim with
      | false => rfl
      | true => exact absurd ((dateMatches_iff cmp age env.now tim).1 hd) h
    simp only [this, Bool.not_false, ↓reduceIte, h]

theorem date_fields (env : Env) (root : Msg) (lno : Nat) (field : DateField) (cmp : DateCmp) (age : Nat)
    (part : Nat) (m : Msg) (st : St) :
    eval env root (.date lno field cmp age) part m st =
      dateOutcome env lno cmp age part st (dateInstant env m field) := by
  cases field <;> simp only [eval, dateInstant, statInstant]
  · cases getHeader1 m (ofString "Date") with
    | none => rfl
    | some d =>
      dsimp only
      cases timeParse env.strptime env.zoneName d with
      | none => rfl
      | some t => exact date_tail env lno cmp age part st t d
  all_goals
    rcases env.fileTime _ with _ | sb
    · rfl
    · dsimp only
      rcases env.timeFormat _ with _ | s
      · rfl
      · exact date_tail env lno cmp age part st _ s

/-- A date condition on a file field, spelled out: `stat` of the message's path fails = error;
otherwise the instant is `fieldTime sb field`; `time_format` fails = error; otherwise the strict
comparison of `now - instant` with the age decides. -/
theorem date_file_fields (env : Env) (root : Msg) (lno : Nat) (field : DateField) (cmp : DateCmp) (age : Nat)
    (part : Nat) (m : Msg) (st : St) (hf : field ≠ .header) :
    eval env root (.date lno field cmp age) part m st =
      (match env.fileTime env.path with
       | none => (.error, st)
       | some sb =>
         match env.timeFormat (fieldTime sb field) with
         | none => (.error, st)
         | some text =>
           if AgeHolds cmp age env.now (fieldTime sb field) then
             exprRegexec env .date lno part { src := [46, 42] } (ofString "Date") text st
           else (.nomatch, st)) := by
  rw [date_fields]
  cases field
  · exact absurd rfl hf
  all_goals
    simp only [dateInstant, statInstant, fieldTime]
    rcases env.fileTime env.path with _ | sb
    · rfl
    · dsimp only
      rcases env.timeFormat _ with _ | s <;> rfl

/-! ## Non-vacuity: a file whose three time stamps differ -/

/-- `st_atim = 300`, `st_mtim = 100`, `st_ctim = 200`, `now = 1000`; no `Date` header is needed. -/
def exDateEnv : Env where
  rx := fun _ _ => .ok [some (0, 1)]
  command := fun _ => 0
  isDir := fun _ => false
  now := 1000
  strptime := fun _ => none
  zoneName := fun _ => none
  fileTime := fun p => if p = [47, 109, 47, 110, 101, 119, 47, 49] then some { atime := 300, mtime := 100, ctime := 200 } else none
  timeFormat := fun t => if t = 300 then some [97] else if t = 100 then some [109] else if t = 200 then some [99] else none
  dryrun := false
  path := [47, 109, 47, 110, 101, 119, 47, 49]

end Mdsort.Proofs
