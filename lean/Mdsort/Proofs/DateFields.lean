import Mdsort.Model.Eval

/-!
# C15 - which instant a date condition looks at, and how it compares (`expr_eval_date`, expr.c)

`date [header]` takes the instant from the `Date` header (`message_get_header1` + `time_parse`);
`date access | modified | created` takes it from `stat(path)`: `st_atim`, `st_mtim`, `st_ctim`
respectively.  In the model `stat` is the oracle `env.fileTime`, indexed by the field: the theorem
below shows that each field consults exactly its own entry of the oracle and nothing else.  The
comparison is strict, in both directions, for every `now` and every instant (also in the future).
-/

namespace Mdsort.Proofs
open Mdsort Mdsort.Model

/-- The instant (and the text shown by `-d`) a date condition on `field` looks at: `none` = error,
`some none` = there is nothing to compare (no `Date` header), `some (some (t, text))` otherwise. -/
def dateInstant (env : Env) (m : Msg) : DateField → Option (Option (Int × Bytes))
  | .header =>
    match getHeader1 m (ofString "Date") with
    | none => some none
    | some d =>
      match timeParse env.strptime env.zoneName d with
      | none => none
      | some t => some (some (t, d))
  | .access => (env.fileTime .access).map some
  | .modified => (env.fileTime .modified).map some
  | .created => (env.fileTime .created).map some

/-- The documented comparison: `date > age` holds iff the message is strictly older than `age`,
`date < age` iff strictly younger; `now - tim` is the age (negative for an instant in the future). -/
def AgeHolds (cmp : DateCmp) (age now tim : Int) : Prop :=
  match cmp with
  | .gt => now - tim > age
  | .lt => now - tim < age

instance (cmp : DateCmp) (age now tim : Int) : Decidable (AgeHolds cmp age now tim) := by
  unfold AgeHolds; cases cmp <;> exact inferInstance

theorem dateMatches_iff (cmp : DateCmp) (age now tim : Int) :
    dateMatches cmp age now tim = true ↔ AgeHolds cmp age now tim := by
  cases cmp <;> simp [dateMatches, AgeHolds]

theorem dateMatches_gt (age now tim : Int) : dateMatches .gt age now tim = true ↔ now - tim > age :=
  dateMatches_iff .gt age now tim

theorem dateMatches_lt (age now tim : Int) : dateMatches .lt age now tim = true ↔ now - tim < age :=
  dateMatches_iff .lt age now tim

/-- The outcome of a date condition, given what `dateInstant` found. -/
def dateOutcome (env : Env) (lno : Nat) (cmp : DateCmp) (age : Nat) (part : Nat) (st : St) :
    Option (Option (Int × Bytes)) → Tri × St
  | none => (.error, st)
  | some none => (.nomatch, st)
  | some (some (tim, text)) =>
    if AgeHolds cmp age env.now tim then
      exprRegexec env .date lno part { src := [46, 42] } (ofString "Date") text st
    else (.nomatch, st)

theorem date_tail (env : Env) (lno : Nat) (cmp : DateCmp) (age : Nat) (part : Nat) (st : St) (tim : Int) (text : Bytes) :
    (if (!dateMatches cmp (age : Int) env.now tim) = true then (Tri.nomatch, st)
      else exprRegexec env .date lno part { src := [46, 42] } (ofString "Date") text st) =
    dateOutcome env lno cmp age part st (some (some (tim, text))) := by
  unfold dateOutcome
  by_cases h : AgeHolds cmp age env.now tim
  · have := (dateMatches_iff cmp age env.now tim).2 h
    simp only [this, Bool.not_true, Bool.false_eq_true, ↓reduceIte, h]
  · have : dateMatches cmp age env.now tim = false := by
      cases hd : dateMatches cmp age env.now tim with
      | false => rfl
      | true => exact absurd ((dateMatches_iff cmp age env.now tim).1 hd) h
    simp only [this, Bool.not_false, ↓reduceIte, h]

theorem date_fields (env : Env) (root : Msg) (lno : Nat) (field : DateField) (cmp : DateCmp) (age : Nat)
    (part : Nat) (m : Msg) (st : St) :
    eval env root (.date lno field cmp age) part m st =
      dateOutcome env lno cmp age part st (dateInstant env m field) := by
  cases field <;> simp only [eval, dateInstant]
  · cases getHeader1 m (ofString "Date") with
    | none => rfl
    | some d =>
      dsimp only
      cases timeParse env.strptime env.zoneName d with
      | none => rfl
      | some t => exact date_tail env lno cmp age part st t d
  all_goals
    rcases env.fileTime _ with _ | ⟨t, s⟩
    · rfl
    · exact date_tail env lno cmp age part st t s

/-! ## Non-vacuity: a file whose three time stamps differ -/

/-- `st_atim = 300`, `st_mtim = 100`, `st_ctim = 200`, `now = 1000`; no `Date` header is needed. -/
def exDateEnv : Env where
  rx := fun _ _ => .ok [some (0, 1)]
  command := fun _ => 0
  isDir := fun _ => false
  now := 1000
  strptime := fun _ => none
  zoneName := fun _ => none
  fileTime := fun f => match f with
    | .access => some (300, [97])
    | .modified => some (100, [109])
    | .created => some (200, [99])
    | .header => none
  dryrun := false
  path := [47, 109, 47, 110, 101, 119, 47, 49]

end Mdsort.Proofs
