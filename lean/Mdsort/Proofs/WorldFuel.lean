import Mdsort.Proofs.WorldFrameMain

/-!
# The fuel of the model's `readdir` loops is irrelevant as soon as it suffices (package p12; audit au1, W4)

The C loops `while ((ent = readdir(dir)))` are unbounded; the model's `walk` and `closeStdin.loop` carry fuel
(`2n+8` / `64`, plus the ghost `env.extraFuel`).  Running out of fuel is FLAGGED (`MainSt.fuelOut`, the Boolean of
`closeStdin`), never silent.  This file proves, once for every interpreter of programs: if a run ends WITHOUT the flag, the
run with ANY larger fuel is the same run - same calls, same results, same final state.  So a theorem about `mainP`
(every one is quantified over `env`, hence over `env.extraFuel`) speaks, for a run that ends with `fuelOut = false`, about
the run of the unbounded loop; and a run that ends with `fuelOut = true` is a truncation, which the conformance check
reports as a divergence.

`Below fl p p'`: the program `p'` does what `p` does, except where `p` stops with the flag `fl` set.
-/

namespace Mdsort.Proofs.Fuel
open Mdsort Mdsort.Model Mdsort.Proofs
open Mdsort.Proofs.World (bind_eq pure_eq ret_bind call_bind' call_bind bind_assoc Calls All)
open Mdsort.Proofs.Own (runO runO_ret runO_call runO_bind)

/-- `p'` agrees with `p` call by call wherever `p` does not end with the flag. -/
inductive Below {α} (fl : α → Bool) : Prog α → Prog α → Prop
  | ret (a : α) : Below fl (.ret a) (.ret a)
  | out (p p' : Prog α) : All (fun a => fl a = true) p → Below fl p p'
  | call (c : Call) (k k' : Res → Prog α) : (∀ r, Below fl (k r) (k' r)) → Below fl (.call c k) (.call c k')

theorem Below.refl {α} (fl : α → Bool) (p : Prog α) : Below fl p p := by
  induction p with
  | ret a => exact .ret a
  | call c k ih => exact .call c k k ih

theorem All.bind_all {α β} {P : α → Prop} {Q : β → Prop} {p : Prog α} {f : α → Prog β}
    (hp : All P p) (hf : ∀ a, P a → All Q (f a)) : All Q (p.bind f) := by
  induction p with
  | ret a => exact hf a hp
  | call c k ih => intro r; exact ih r (hp r)

/-- Sequencing: the continuation is below, and a flagged intermediate value leads to flagged results only. -/
theorem Below.bind {α β} {fa : α → Bool} {fb : β → Bool} {p p' : Prog α} {f f' : α → Prog β}
    (hp : Below fa p p') (hf : ∀ a, Below fb (f a) (f' a)) (hs : ∀ a, fa a = true → All (fun b => fb b = true) (f a)) :
    Below fb (p.bind f) (p'.bind f') := by
  induction hp with
  | ret a => exact hf a
  | out p p' h => exact .out _ _ (All.bind_all h hs)
  | call c k k' _ ih => exact .call c _ _ ih

/-! ## the interpreters -/

theorem all_runO {α} {P : α → Prop} (orcl : Nat → Call → Res) {p : Prog α} (h : All P p) (i : Nat) : P (runO orcl p i).1 := by
  induction p generalizing i with
  | ret a => exact h
  | call c k ih => rw [runO_call]; exact ih _ (h _) _

/-- Arbitrary call results. -/
theorem Below.runO_eq {α} {fl : α → Bool} {p p' : Prog α} (h : Below fl p p') (orcl : Nat → Call → Res) (i : Nat)
    (hf : fl (runO orcl p i).1 = false) : runO orcl p' i = runO orcl p i := by
  induction h generalizing i with
  | ret a => rfl
  | out p p' ha =>
    have := all_runO orcl ha i
    rw [this] at hf
    cases hf
  | call c k k' _ ih =>
    rw [runO_call] at hf
    rw [runO_call, runO_call, ih _ _ hf]

/-- The abstract file system under a fault plan. -/
theorem Below.run_eq {α} {fl : α → Bool} {p p' : Prog α} (h : Below fl p p') (plan : Plan) (w : World) (i : Nat)
    (hf : fl (World.run plan p w i).1 = false) : World.run plan p' w i = World.run plan p w i := by
  induction h generalizing w i with
  | ret a => rfl
  | out p p' ha =>
    have := World.All.run plan ha w i
    rw [this] at hf
    cases hf
  | call c k k' _ ih =>
    simp only [World.run] at hf ⊢
    rw [ih _ _ _ hf]

theorem all_conform {α} {P : α → Prop} {p : Prog α} (h : All P p) (w : World) (tr : List (Call × Res)) (pos : Nat)
    {a : α} {w' : World} {rest : List (Call × Res)} (hd : conform p w tr pos = .done a w' rest) : P a := by
  induction p generalizing w tr pos with
  | ret b =>
    simp only [conform] at hd
    cases hd
    exact h
  | call c k ih =>
    unfold conform at hd
    split at hd
    · cases hd
    · split at hd
      · cases hd
      · split at hd
        · cases hd
        · exact ih _ (h _) _ _ _ hd

/-- An observed trace (`Model.conform`): if the walk along the trace ends (`done`) WITHOUT the flag, it ends in exactly the
same way - value, world, rest of the trace - for the program with the larger fuel. -/
theorem Below.conform_done {α} {fl : α → Bool} {p p' : Prog α} (h : Below fl p p') (w : World) (tr : List (Call × Res)) (pos : Nat)
    {a : α} {w' : World} {rest : List (Call × Res)} (hd : conform p w tr pos = .done a w' rest) (hf : fl a = false) :
    conform p' w tr pos = .done a w' rest := by
  induction h generalizing w tr pos with
  | ret b => exact hd
  | out p p' ha =>
    have := all_conform ha w tr pos hd
    rw [this] at hf
    cases hf
  | call c k k' _ ih =>
    cases tr with
    | nil => simp only [conform] at hd; cases hd
    | cons x rest' =>
      obtain ⟨c', r⟩ := x
      simp only [conform] at hd ⊢
      by_cases hsame : (!c.same c') = true
      · rw [if_pos hsame] at hd; cases hd
      · rw [if_neg hsame] at hd ⊢
        cases hw1 : applyOk w c r with
        | none => rw [hw1] at hd; cases hd
        | some w1 =>
          rw [hw1] at hd
          exact ih _ _ _ _ hd

/-! ## the ghost fuel is read by the loops only -/

/-- The environment with the ghost allowance set to `k`. -/
def withFuel (env : PEnv) (k : Nat) : PEnv := { env with extraFuel := k }

theorem genname_withFuel (env : PEnv) (k : Nat) (md : Maildir) (flags : Option Bytes) (fuel count : Nat) :
    genname (withFuel env k) md flags fuel count = genname env md flags fuel count := by
  induction fuel generalizing count with
  | zero => rfl
  | succ n ih =>
    unfold genname
    simp only [ih]
    rfl

theorem gennameStart_withFuel (env : PEnv) (k : Nat) (md : Maildir) (flags : Option Bytes) :
    gennameStart (withFuel env k) md flags = gennameStart env md flags := by
  unfold gennameStart
  rw [genname_withFuel]
  rfl

theorem maildirMove_withFuel (env : PEnv) (k : Nat) (src dst : Maildir) (ms : MsgSt) :
    maildirMove (withFuel env k) src dst ms = maildirMove env src dst ms := by
  unfold maildirMove
  simp only [gennameStart_withFuel]

theorem maildirWrite_withFuel (env : PEnv) (k : Nat) (md : Maildir) (ms : MsgSt) :
    maildirWrite (withFuel env k) md ms = maildirWrite env md ms := by
  unfold maildirWrite
  simp only [gennameStart_withFuel]

theorem messageGetFd_withFuel (env : PEnv) (k : Nat) (ms : MsgSt) (part : Option Msg) (dobody : Bool) :
    messageGetFd (withFuel env k) ms part dobody = messageGetFd env ms part dobody := rfl

theorem execOne_withFuel (env : PEnv) (k : Nat) (mh : Match) (st : ExecSt) :
    execOne (withFuel env k) mh st = execOne env mh st := by
  unfold execOne
  simp only [maildirMove_withFuel, maildirWrite_withFuel, messageGetFd_withFuel]

theorem matchesExec_withFuel (env : PEnv) (k : Nat) (ml : MatchList) (st : ExecSt) :
    matchesExec (withFuel env k) ml st = matchesExec env ml st := by
  induction ml generalizing st with
  | nil => rfl
  | cons mh rest ih =>
    unfold matchesExec
    simp only [execOne_withFuel, ih]

theorem processMessage_withFuel (env : PEnv) (k : Nat) (orc : EvalOracles) (expr : Expr) (md : Maildir) (name : Bytes) (st : MainSt) :
    processMessage (withFuel env k) orc expr md name st = processMessage env orc expr md name st := by
  unfold processMessage
  simp only [matchesExec_withFuel]
  rfl

theorem maildirStdin_withFuel (env : PEnv) (k : Nat) (input : Bytes) :
    maildirStdin (withFuel env k) input = maildirStdin env input := by
  unfold maildirStdin
  simp only [gennameStart_withFuel]
  rfl

theorem walk_withFuel (env : PEnv) (k : Nat) (orc : EvalOracles) (expr : Expr) (fuel : Nat) (md : Maildir) (st : MainSt) :
    walk (withFuel env k) orc expr fuel md st = walk env orc expr fuel md st := by
  induction fuel generalizing md st with
  | zero => rfl
  | succ n ih =>
    rw [Own.walk_succ, Own.walk_succ]
    cases md.dirH with
    | none => rfl
    | some d =>
      dsimp only
      congr 1
      funext r
      unfold Own.walkK
      simp only [ih, processMessage_withFuel]

/-! ## the flag is sticky -/

theorem processMessage_fuelOut (env : PEnv) (orc : EvalOracles) (expr : Expr) (md : Maildir) (name : Bytes) (st : MainSt) :
    All (fun r => r.1.fuelOut = st.fuelOut) (processMessage env orc expr md name st) := by
  cases hd : md.dirH with
  | none => rw [processMessage_noDir env orc expr md name st hd]; exact rfl
  | some d =>
    cases hf : st.files.get md.path name with
    | none => rw [processMessage_unknown env orc expr md name st d hd hf]; exact rfl
    | some content =>
      rw [processMessage_eq env orc expr md name st d content hd hf]
      refine World.All.bind_of_forall _ fun pm => ?_
      cases pm with
      | none => exact rfl
      | some ms =>
        simp only [afterParse]
        refine World.All.bind_of_forall _ fun ev => ?_
        cases evVerdict env orc ms ev with
        | unparsable => exact World.All.bind_of_forall _ fun _ => rfl
        | error => exact World.All.bind_of_forall _ fun _ => rfl
        | interpFail => exact World.All.bind_of_forall _ fun _ => rfl
        | «nomatch» => exact World.All.bind_of_forall _ fun _ => rfl
        | act ml msgs fl =>
          simp only [afterVerdict]
          split
          · exact World.All.bind_of_forall _ fun _ => rfl
          · exact World.All.bind_of_forall _ fun _ => World.All.bind_of_forall _ fun _ => rfl

theorem walk_sticky (env : PEnv) (orc : EvalOracles) (expr : Expr) (fuel : Nat) (md : Maildir) (st : MainSt)
    (h : st.fuelOut = true) : All (fun r => r.1.fuelOut = true) (walk env orc expr fuel md st) := by
  induction fuel generalizing md st with
  | zero => exact rfl
  | succ n ih =>
    rw [Own.walk_succ]
    cases md.dirH with
    | none => exact h
    | some d =>
      dsimp only
      intro r
      unfold Own.walkK
      cases r with
      | name x =>
        dsimp only
        split
        · exact ih _ _ h
        · exact All.bind_all (processMessage_fuelOut env orc expr md x st) fun a ha => ih _ _ (ha.trans h)
      | eof =>
        dsimp only
        split
        · exact h
        · split
          · exact h
          · split
            · exact h
            · refine World.All.bind_of_forall _ fun x => ?_
              split
              · exact h
              · exact ih _ _ h
      | ok v => exact h
      | err e => exact h

/-! ## more fuel: the same program until the flag -/

theorem walk_below (env : PEnv) (orc : EvalOracles) (expr : Expr) (fuel : Nat) :
    ∀ (fuel' : Nat), fuel ≤ fuel' → ∀ (md : Maildir) (st : MainSt),
      Below (fun r : MainSt × Maildir => r.1.fuelOut) (walk env orc expr fuel md st) (walk env orc expr fuel' md st) := by
  induction fuel with
  | zero => intro fuel' _ md st; exact .out _ _ rfl
  | succ n ih =>
    intro fuel' hle md st
    obtain ⟨m, rfl⟩ : ∃ m, fuel' = m + 1 := ⟨fuel' - 1, by omega⟩
    have hnm : n ≤ m := by omega
    rw [Own.walk_succ, Own.walk_succ]
    cases md.dirH with
    | none => exact .ret _
    | some d =>
      dsimp only
      refine .call _ _ _ fun r => ?_
      unfold Own.walkK
      cases r with
      | name x =>
        dsimp only
        split
        · exact ih m hnm _ _
        · exact Below.bind (fa := fun r : MainSt × Maildir => r.1.fuelOut) (Below.refl _ _) (fun a => ih m hnm _ _)
            (fun a ha => walk_sticky env orc expr n a.2 a.1 ha)
      | eof =>
        dsimp only
        split
        · exact .ret _
        · split
          · exact .ret _
          · split
            · exact .ret _
            · refine Below.bind (fa := fun _ => false) (Below.refl _ _) (fun a => ?_) (fun a ha => by cases ha)
              split
              · exact .ret _
              · exact ih m hnm _ _
      | ok v => exact .ret _
      | err e => exact .ret _

theorem closeLoop_below (d : Handle) (fuel : Nat) :
    ∀ fuel', fuel ≤ fuel' → Below (fun b : Bool => b) (closeStdin.loop d fuel) (closeStdin.loop d fuel') := by
  induction fuel with
  | zero => intro fuel' _; exact .out _ _ rfl
  | succ n ih =>
    intro fuel' hle
    obtain ⟨m, rfl⟩ : ∃ m, fuel' = m + 1 := ⟨fuel' - 1, by omega⟩
    have hnm : n ≤ m := by omega
    unfold closeStdin.loop
    simp only [bind_eq, pure_eq, call_bind]
    refine .call _ _ _ fun r => ?_
    split
    · split
      · exact ih m hnm
      · exact .call _ _ _ fun _ => ih m hnm
    · exact .ret _

theorem closeStdin_below (fuel fuel' : Nat) (h : fuel ≤ fuel') (md : Maildir) :
    Below (fun b : Bool => b) (closeStdin fuel md) (closeStdin fuel' md) := by
  unfold closeStdin
  simp only [bind_eq, pure_eq]
  refine Below.bind (fa := fun b : Bool => b) ?_ (fun fo => Below.refl _ _) ?_
  · split
    · simp only [call_bind]
      exact .call _ _ _ fun _ => closeLoop_below _ fuel fuel' h
    · exact .ret _
  · intro fo hfo
    subst hfo
    simp only [call_bind]
    intro _ _
    split
    · intro _; exact rfl
    · exact rfl

theorem paths_sticky (env : PEnv) (orc : EvalOracles) (input : Bytes) (b : ConfBlock) (ps : List Bytes) :
    ∀ st : MainSt, st.fuelOut = true → All (fun r => r.fuelOut = true) (mainP.blocks.paths env orc input b ps st) := by
  induction ps with
  | nil => intro st h; rw [Own.paths_nil]; exact h
  | cons p more ih =>
    intro st h
    rw [Own.paths_cons]
    split
    · exact ih _ h
    · split
      · refine World.All.bind_of_forall _ fun x => ?_
        split
        · exact World.All.bind_of_forall _ fun fo => ih _ (by simp [orFuel, h])
        · refine All.bind_all (walk_sticky env orc b.expr _ _ _ (by cases x.2.2 <;> exact h)) fun y hy => ?_
          exact World.All.bind_of_forall _ fun fo => ih _ (by simp [orFuel, hy])
      · split
        · refine World.All.bind_of_forall _ fun x => ?_
          split
          · exact ih _ h
          · refine All.bind_all (walk_sticky env orc b.expr _ _ _ h) fun y hy => ?_
            exact World.All.bind_of_forall _ fun _ => ih _ hy
        · exact ih _ h

theorem blocks_sticky (env : PEnv) (orc : EvalOracles) (input : Bytes) (bs : List ConfBlock) :
    ∀ st : MainSt, st.fuelOut = true → All (fun r => r.fuelOut = true) (mainP.blocks env orc input bs st) := by
  induction bs with
  | nil => intro st h; rw [Own.blocks_nil]; exact h
  | cons b rest ih =>
    intro st h
    rw [Own.blocks_cons]
    exact All.bind_all (paths_sticky env orc input b b.paths st h) fun st' h' => ih st' h'

theorem paths_below (env : PEnv) (k : Nat) (hk : env.extraFuel ≤ k) (orc : EvalOracles) (input : Bytes) (b : ConfBlock)
    (ps : List Bytes) :
    ∀ st : MainSt, Below (fun r : MainSt => r.fuelOut) (mainP.blocks.paths env orc input b ps st)
      (mainP.blocks.paths (withFuel env k) orc input b ps st) := by
  have hsf : stdinFuel env ≤ stdinFuel (withFuel env k) := by simp only [stdinFuel, withFuel]; omega
  induction ps with
  | nil => intro st; rw [Own.paths_nil, Own.paths_nil]; exact .ret _
  | cons p more ih =>
    intro st
    rw [Own.paths_cons, Own.paths_cons]
    have hskip : skipPath (withFuel env k) p = skipPath env p := rfl
    rw [hskip]
    split
    · exact ih _
    · split
      · rw [maildirStdin_withFuel]
        refine Below.bind (fa := fun _ => false) (Below.refl _ _) (fun x => ?_) (fun a ha => by cases ha)
        split
        · exact Below.bind (fa := fun b : Bool => b) (closeStdin_below _ _ hsf _) (fun fo => ih _)
            (fun fo hfo => paths_sticky env orc input b more _ (by simp [orFuel, hfo]))
        · rw [walk_withFuel]
          refine Below.bind (fa := fun r : MainSt × Maildir => r.1.fuelOut) (walk_below env orc b.expr _ _ hsf _ _) (fun y => ?_)
            (fun y hy => World.All.bind_of_forall _ fun fo => paths_sticky env orc input b more _ (by simp [orFuel, hy]))
          exact Below.bind (fa := fun b : Bool => b) (closeStdin_below _ _ hsf _) (fun fo => ih _)
            (fun fo hfo => paths_sticky env orc input b more _ (by simp [orFuel, hfo]))
      · split
        · rename_i root np _ _
          refine Below.bind (fa := fun _ => false) (Below.refl _ _) (fun x => ?_) (fun a ha => by cases ha)
          split
          · exact ih _
          · rw [walk_withFuel]
            have hwf : walkFuel env st root np ≤ walkFuel (withFuel env k) st root np := by
              simp only [walkFuel, withFuel]; omega
            refine Below.bind (fa := fun r : MainSt × Maildir => r.1.fuelOut) (walk_below env orc b.expr _ _ hwf _ _) (fun y => ?_)
              (fun y hy => World.All.bind_of_forall _ fun _ => paths_sticky env orc input b more _ hy)
            exact Below.bind (fa := fun _ => false) (Below.refl _ _) (fun _ => ih _) (fun a ha => by cases ha)
        · exact ih _

theorem blocks_below (env : PEnv) (k : Nat) (hk : env.extraFuel ≤ k) (orc : EvalOracles) (input : Bytes) (bs : List ConfBlock) :
    ∀ st : MainSt, Below (fun r : MainSt => r.fuelOut) (mainP.blocks env orc input bs st)
      (mainP.blocks (withFuel env k) orc input bs st) := by
  induction bs with
  | nil => intro st; rw [Own.blocks_nil, Own.blocks_nil]; exact .ret _
  | cons b rest ih =>
    intro st
    rw [Own.blocks_cons, Own.blocks_cons]
    exact Below.bind (fa := fun r : MainSt => r.fuelOut) (paths_below env k hk orc input b b.paths st) (fun st' => ih st')
      (fun st' h' => blocks_sticky env orc input rest st' h')

/-- `mainP` with a larger ghost allowance is the same program until the flag. -/
theorem mainP_below (env : PEnv) (k : Nat) (hk : env.extraFuel ≤ k) (orc : EvalOracles) (confOk : Bool) (conf : List ConfBlock)
    (files : Files) (input : Bytes) :
    Below (fun r : Nat × MainSt => r.2.fuelOut) (mainP env orc confOk conf files input)
      (mainP (withFuel env k) orc confOk conf files input) := by
  rw [Own.mainP_eq, Own.mainP_eq]
  refine .call _ _ _ fun r => ?_
  cases r with
  | ok h =>
    dsimp only
    refine .call _ _ _ fun _ => ?_
    unfold Own.mainK
    split
    · exact .ret _
    · have hsyn : (withFuel env k).syntaxOnly = env.syntaxOnly := rfl
      rw [hsyn]
      split
      · exact .ret _
      · exact Below.bind (fa := fun r : MainSt => r.fuelOut) (blocks_below env k hk orc input conf _)
          (fun stf => .ret _) (fun stf h => h)
  | err e => exact .ret _
  | name x => exact .ret _
  | eof => exact .ret _

/-! ## the statements -/

/-- **Arbitrary call results**: a run of `mainP` that ends without `fuelOut` is the run for every larger ghost allowance -
same exit status, same final state, same calls with the same results. -/
theorem fuel_irrelevant_oracle (env : PEnv) (orc : EvalOracles) (confOk : Bool) (conf : List ConfBlock) (files : Files)
    (input : Bytes) (orcl : Nat → Call → Res) (k : Nat) (hk : env.extraFuel ≤ k)
    (h : (runOracle orcl (mainP env orc confOk conf files input) 0 []).1.2.fuelOut = false) :
    runOracle orcl (mainP (withFuel env k) orc confOk conf files input) 0 [] =
      runOracle orcl (mainP env orc confOk conf files input) 0 [] := by
  rw [Own.runOracle_eq] at h
  rw [Own.runOracle_eq, Own.runOracle_eq,
    (mainP_below env k hk orc confOk conf files input).runO_eq orcl 0 h]

/-- **The abstract file system under a fault plan**: likewise (value, final world, world after every call). -/
theorem fuel_irrelevant_plan (env : PEnv) (orc : EvalOracles) (confOk : Bool) (conf : List ConfBlock) (files : Files)
    (input : Bytes) (plan : Plan) (w : World) (k : Nat) (hk : env.extraFuel ≤ k)
    (h : (runPlan plan (mainP env orc confOk conf files input) w 0 []).1.2.fuelOut = false) :
    runPlan plan (mainP (withFuel env k) orc confOk conf files input) w 0 [] =
      runPlan plan (mainP env orc confOk conf files input) w 0 [] := by
  rw [World.runPlan_eq] at h
  rw [World.runPlan_eq, World.runPlan_eq,
    (mainP_below env k hk orc confOk conf files input).run_eq plan w 0 h]

/-- **An observed trace**: if the conformance walk of `mainP` along a trace ends `done` without `fuelOut`, it ends in the
same way for every larger ghost allowance. -/
theorem fuel_irrelevant_conform (env : PEnv) (orc : EvalOracles) (confOk : Bool) (conf : List ConfBlock) (files : Files)
    (input : Bytes) (w : World) (tr : List (Call × Res)) (k : Nat) (hk : env.extraFuel ≤ k)
    {a : Nat × MainSt} {w' : World} {rest : List (Call × Res)}
    (hd : conform (mainP env orc confOk conf files input) w tr 0 = .done a w' rest) (h : a.2.fuelOut = false) :
    conform (mainP (withFuel env k) orc confOk conf files input) w tr 0 = .done a w' rest :=
  (mainP_below env k hk orc confOk conf files input).conform_done w tr 0 hd h

end Mdsort.Proofs.Fuel
