import Mdsort.Proofs.WorldMove

/-! `matches_exec`: after every call, under every fault plan, a complete version of the message is bound. -/

namespace Mdsort.Proofs.World
open Mdsort Mdsort.Model

theorem opendir_results (f : Option Fault) (w : World) (p : Bytes) :
    (∃ e, faultResult f w (.opendir p) = .err e) ∨
    (faultResult f w (.opendir p) = .ok w.handles.length ∧ (w.dir p).isSome) := by
  rcases faultResult_cases f w (.opendir p) (by intro _ h; cases h) (by intro _ _ h; cases h) with h | h
  · rw [h]
    simp only [predict]
    split
    · rename_i hd; exact .inr ⟨rfl, hd⟩
    · exact .inl ⟨_, rfl⟩
  · exact .inl h

theorem core_opendir_ok {w : World} {p : Bytes} (hd : (w.dir p).isSome) (v : Nat) :
    core w (.opendir p) (.ok v) = (w.newHandle (.dir p none 0)).1 := by
  obtain ⟨es, hes⟩ := Option.isSome_iff_exists.1 hd
  simp [core, applyOk, hes]

theorem spec_maildirOpendir {cs : List Bytes} {p0 n0 : Bytes} {fid0 : Nat} (md : Maildir) (path : Bytes) {w : World}
    (hg : GoodAt w cs p0 n0 fid0) :
    wp (fun w' => GoodAt w' cs p0 n0 fid0) (maildirOpendir md path)
      (fun r w' => GoodAt w' cs p0 n0 fid0 ∧ ∀ h, r.1.dirH = some h → DirH w' h) w := by
  unfold maildirOpendir
  simp only [bind_eq, pure_eq, call_bind]
  have tail : ∀ w1, GoodAt w1 cs p0 n0 fid0 →
      wp (fun w' => GoodAt w' cs p0 n0 fid0)
        (Prog.call (Call.opendir path) fun r =>
          match r with
          | Res.ok h => Prog.ret (({ md with dirH := some h } : Maildir), false)
          | _ => Prog.ret (({ md with dirH := none } : Maildir), true))
        (fun r w' => GoodAt w' cs p0 n0 fid0 ∧ ∀ h, r.1.dirH = some h → DirH w' h) w1 := by
    intro w1 hg1 ft
    have hg2 := hg1.step (.opendir path) (faultResult ft w1 (.opendir path)) trivial trivial
    refine ⟨hg2, ?_⟩
    rcases opendir_results ft w1 path with ⟨e, he⟩ | ⟨he, hd⟩
    · rw [he] at hg2 ⊢
      exact ⟨hg2, by intro h hh; cases hh⟩
    · rw [he] at hg2 ⊢
      refine ⟨hg2, ?_⟩
      intro h hh
      simp only [Option.some.injEq] at hh
      subst hh
      have hc := core_opendir_ok hd w1.handles.length
      refine ⟨path, ?_, ?_⟩
      · rw [stepWorld_dirPath, hc]; simp [World.dirPath, obj_newHandle]
      · rw [stepWorld_dir, hc]; simpa using hd
  split
  · rename_i d _
    refine wp_call_any fun r => ?_
    have := hg.step (.closedir d) r trivial trivial
    exact ⟨this, tail _ this⟩
  · exact tail _ hg

theorem spec_maildirOpenDst {cs : List Bytes} {p0 n0 : Bytes} {fid0 : Nat} (path : Bytes) {w : World}
    (hg : GoodAt w cs p0 n0 fid0) :
    wp (fun w' => GoodAt w' cs p0 n0 fid0) (maildirOpenDst path)
      (fun r w' => GoodAt w' cs p0 n0 fid0 ∧ ∀ dst, r = some dst → ∀ h, dst.dirH = some h → DirH w' h) w := by
  unfold maildirOpenDst
  split
  · exact ⟨hg, by intro _ h; cases h⟩
  split
  · exact ⟨hg, by intro _ h; cases h⟩
  split
  · exact ⟨hg, by intro _ h; cases h⟩
  simp only [bind_eq, pure_eq]
  refine wp_bind_mono (spec_maildirOpendir _ _ hg) ?_
  rintro ⟨md, failed⟩ w1 ⟨hg1, hd1⟩
  dsimp only
  split
  · exact ⟨hg1, by intro _ h; cases h⟩
  · refine ⟨hg1, ?_⟩
    intro dst h
    cases h
    exact hd1

theorem core_unlink (w : World) (t : Bytes) (r : Res) : core w (.unlink t) r = w := by
  cases r <;> simp [core, applyOk]

theorem spec_writefd {cs : List Bytes} {p0 n0 : Bytes} {fid0 : Nat} (tmpdir : Bytes) {w : World}
    (hg : GoodAt w cs p0 n0 fid0) :
    wp (fun w' => GoodAt w' cs p0 n0 fid0) (writefd tmpdir)
      (fun r w' => GoodAt w' cs p0 n0 fid0 ∧
        ∀ fd, r = some fd → ∃ fid, w'.obj fd = .file fid 0 true ∧ w'.file fid = some ⟨[], []⟩ ∧ fid ≠ fid0) w := by
  unfold writefd
  split
  · exact ⟨hg, by intro _ h; cases h⟩
  rename_i tmpl _
  simp only [bind_eq, pure_eq, call_bind]
  refine wp_call (fun r => r = .ok w.handles.length ∨ ∃ e, r = .err e)
    (fun ft => results_simple ft w _ _ (by intro _ h; cases h) (by intro _ _ h; cases h) rfl) ?_
  intro r hr
  have hg1 := hg.step (.mkostemp tmpl) r trivial trivial
  refine ⟨hg1, ?_⟩
  rcases hr with rfl | ⟨e, rfl⟩
  · have hc := core_mkostemp_ok w tmpl w.handles.length
    dsimp only
    refine wp_call_any fun r2 => ?_
    have hg2 := hg1.step (.unlink tmpl) r2 trivial trivial
    refine ⟨hg2, ?_⟩
    split
    · refine ⟨hg2, ?_⟩
      intro fd h
      cases h
      refine ⟨w.nextFid, ?_, ?_, Nat.ne_of_gt hg.2.1⟩
      · rw [stepWorld_obj, core_unlink, stepWorld_obj, hc]; simp [obj_newHandle]
      · rw [stepWorld_file, core_unlink, stepWorld_file, hc]; simp [file_setFile]
    · refine wp_call_any fun r3 => ?_
      have hg3 := hg2.step (.close w.handles.length) r3 trivial trivial
      exact ⟨hg3, hg3, by intro _ h; cases h⟩
  · exact ⟨hg1, by intro _ h; cases h⟩

theorem objFid_write {w : World} {fd : Handle} {fid : Nat} (h : objFid (w.obj fd) = some fid) (data : Bytes) (r : Res) :
    objFid ((core w (.write fd data) r).obj fd) = some fid := by
  cases r with
  | ok n =>
    simp only [core, applyOk]
    split
    · exact h
    · simp only [Option.getD_some]
      unfold applyWrite
      split
      · rename_i fid' off wr ho
        have : fid' = fid := by simpa [ho, objFid] using h
        subst this
        split
        · simp [obj_setObj, lt_of_obj_ne_closed w fd (by simp [ho]), objFid]
        · exact h
      · rename_i fid' buf ho
        have : fid' = fid := by simpa [ho, objFid] using h
        subst this
        simp [obj_setObj, lt_of_obj_ne_closed w fd (by simp [ho]), objFid]
      · exact h
  | err e => simpa [core, applyOk] using h
  | name n => simpa [core, applyOk] using h
  | eof => simpa [core, applyOk] using h

theorem spec_writeAll {cs : List Bytes} {p0 n0 : Bytes} {fid0 : Nat} (fd : Handle) (fid : Nat) (hne : fid ≠ fid0)
    (fuel : Nat) (data : Bytes) {w : World}
    (hg : GoodAt w cs p0 n0 fid0) (ho : objFid (w.obj fd) = some fid) :
    wp (fun w' => GoodAt w' cs p0 n0 fid0) (writeAll fd fuel data) (fun _ w' => GoodAt w' cs p0 n0 fid0) w := by
  induction fuel generalizing data w with
  | zero => exact hg
  | succ fuel ih =>
    unfold writeAll
    split
    · exact hg
    simp only [bind_eq, pure_eq, call_bind]
    refine wp_call_any fun r => ?_
    have hg1 := hg.step (.write fd data) r trivial (by simp [fileSafe, ho, hne])
    refine ⟨hg1, ?_⟩
    split
    · split
      · exact hg1
      · exact ih _ hg1 (by rw [stepWorld_obj]; exact objFid_write ho data _)
    · exact hg1

theorem spec_messageGetFd {cs : List Bytes} {p0 n0 : Bytes} {fid0 : Nat} (env : PEnv) (ms : MsgSt) (part : Option Msg)
    (dobody : Bool) {w : World} (hg : GoodAt w cs p0 n0 fid0) :
    wp (fun w' => GoodAt w' cs p0 n0 fid0) (messageGetFd env ms part dobody) (fun _ w' => GoodAt w' cs p0 n0 fid0) w := by
  unfold messageGetFd
  simp only [bind_eq, pure_eq, call_bind]
  refine wp_bind_mono (R := fun _ w' => GoodAt w' cs p0 n0 fid0) ?_ ?_
  · split
    · split
      · exact hg
      · refine wp_bind_mono (spec_writefd env.tmpdir hg) ?_
        rintro f w1 ⟨hg1, hf⟩
        cases f with
        | none => exact hg1
        | some fd =>
          obtain ⟨fid, ho, _, hne⟩ := hf fd rfl
          dsimp only
          refine wp_bind_mono (spec_writeAll fd fid hne _ _ hg1 (by simp [ho, objFid])) ?_
          intro e w2 hg2
          split
          · refine wp_call_any fun r => ?_
            have := hg2.step (.close fd) r trivial trivial
            exact ⟨this, this⟩
          · exact hg2
    · split
      · refine wp_bind_mono (spec_writefd env.tmpdir hg) ?_
        rintro f w1 ⟨hg1, hf⟩
        cases f with
        | none => exact hg1
        | some fd =>
          obtain ⟨fid, ho, hfile, hne⟩ := hf fd rfl
          dsimp only
          refine wp_bind_mono (spec_messageWriteP _ fd hg1 ho hne hfile) ?_
          rintro e w2 ⟨fr2, -⟩
          split
          · refine wp_call_any fun r => ?_
            have := fr2.good.step (.close fd) r trivial trivial
            exact ⟨this, this⟩
          · exact fr2.good
      · split
        · exact hg
        · rename_i mfd _
          refine wp_call_any fun r => ?_
          have := hg.step (.dupfd mfd) r trivial trivial
          exact ⟨this, this⟩
  · intro fdo w1 hg1
    cases fdo with
    | none => exact hg1
    | some fd =>
      dsimp only
      refine wp_call_any fun r => ?_
      have hg2 := hg1.step (.lseek fd) r trivial trivial
      refine ⟨hg2, ?_⟩
      split
      · exact hg2
      · refine wp_call_any fun r2 => ?_
        have := hg2.step (.close fd) r2 trivial trivial
        exact ⟨this, this⟩

theorem harmless_execP (argv : List Bytes) (fdin : Option Handle) : Calls Harmless (execP argv fdin) := by
  unfold execP
  simp only [bind_eq, pure_eq, call_bind]
  repeat' harmless_step

theorem harmless_maildirClose (md : Maildir) : Calls Harmless (maildirClose md) := by
  unfold maildirClose
  simp only [bind_eq, pure_eq, call_bind]
  repeat' harmless_step

/-- The `move`/`flag`/`flags` branch of `execOne`. -/
def moveBranch (env : PEnv) (mh : Match) (st : ExecSt) : Prog (ExecSt × Bool) :=
  (maildirOpenDst mh.path).bind fun d =>
    match d with
    | none => Prog.ret (st, true)
    | some dst =>
      (maildirMove env st.src dst st.ms).bind fun x =>
        if x.snd = true then
          (maildirClose dst).bind fun _ =>
            Prog.ret ({ src := st.src, chsrc := st.chsrc, ms := x.fst, reject := st.reject }, true)
        else
          if (st.src.subdir != dst.subdir || st.src.root != dst.root) = true then
            if st.chsrc = true then
              (maildirClose st.src).bind fun _ =>
                Prog.ret ({ src := dst, chsrc := true, ms := x.fst, reject := st.reject }, false)
            else Prog.ret ({ src := dst, chsrc := true, ms := x.fst, reject := st.reject }, false)
          else
            (maildirClose dst).bind fun _ =>
              Prog.ret ({ src := st.src, chsrc := st.chsrc, ms := x.fst, reject := st.reject }, false)

theorem spec_moveBranch {cs : List Bytes} (env : PEnv) (mh : Match) (st : ExecSt) {w : World}
    (hgood : Good w cs) (hm : (messageWrite st.ms.msg).1 ∈ cs) :
    wp (fun w' => Good w' cs) (moveBranch env mh st) (fun r w' => Good w' cs ∧ r.1.ms.msg = st.ms.msg) w := by
  obtain ⟨p0, n0, fid0, hg⟩ := hgood
  unfold moveBranch
  refine wp_bind_mono (wp_inv_mono (spec_maildirOpenDst mh.path hg) fun _ h => h.good) ?_
  rintro d w1 ⟨hg1, hd1⟩
  cases d with
  | none => exact ⟨hg1.good, rfl⟩
  | some dst =>
    dsimp only
    refine wp_bind_mono (spec_maildirMove env st.src dst st.ms hg1.good hm (hd1 dst rfl)) ?_
    rintro x w2 ⟨hg2, hx⟩
    have closeThen : ∀ (md : Maildir) (r : ExecSt × Bool), r.1.ms.msg = st.ms.msg →
        wp (fun w' => Good w' cs) ((maildirClose md).bind fun _ => Prog.ret r)
          (fun r w' => Good w' cs ∧ r.1.ms.msg = st.ms.msg) w2 := by
      intro md r hr
      refine wp_bind_mono (wp_harmless (harmless_maildirClose md) hg2) ?_
      intro _ w3 hg3
      exact ⟨hg3, hr⟩
    split
    · exact closeThen _ _ hx
    · split
      · split
        · exact closeThen _ _ hx
        · exact ⟨hg2, hx⟩
      · exact closeThen _ _ hx

theorem spec_execOne {cs : List Bytes} (env : PEnv) (mh : Match) (st : ExecSt) {w : World}
    (hgood : Good w cs) (hm : (messageWrite st.ms.msg).1 ∈ cs) (hnd : mh.ty ≠ .discard) :
    wp (fun w' => Good w' cs) (execOne env mh st) (fun r w' => Good w' cs ∧ r.1.ms.msg = st.ms.msg) w := by
  unfold execOne
  simp only [bind_eq, pure_eq, call_bind]
  split
  · exact spec_moveBranch env mh st hgood hm
  · exact spec_moveBranch env mh st hgood hm
  · exact spec_moveBranch env mh st hgood hm
  · rename_i h; exact absurd h hnd
  · refine wp_bind_mono (spec_maildirWrite env st.src st.ms hgood hm) ?_
    rintro x w1 ⟨hg1, hx⟩
    exact ⟨hg1, hx⟩
  · refine wp_bind_mono (spec_maildirWrite env st.src st.ms hgood hm) ?_
    rintro x w1 ⟨hg1, hx⟩
    exact ⟨hg1, hx⟩
  · exact ⟨hgood, rfl⟩
  · refine wp_bind_mono (R := fun _ w' => Good w' cs) ?_ ?_
    · split
      · obtain ⟨p0, n0, fid0, hg⟩ := hgood
        refine wp_bind_mono (wp_inv_mono (spec_messageGetFd env st.ms _ mh.execBody hg) fun _ h => h.good) ?_
        intro f w1 hg1
        exact hg1.good
      · exact hgood
    · intro fdr w1 hg1
      cases fdr with
      | none => exact ⟨hg1, rfl⟩
      | some fd =>
        dsimp only
        refine wp_bind_mono (wp_harmless (harmless_execP _ fd) hg1) ?_
        intro rc w2 hg2
        cases fd with
        | none => exact ⟨hg2, rfl⟩
        | some h =>
          dsimp only
          refine wp_harmless_all ?_ ?_ hg2
          · repeat' harmless_step
          · repeat' (first | exact rfl | all_step)
  · exact ⟨hgood, rfl⟩

theorem spec_matchesExec {cs : List Bytes} (env : PEnv) (ml : MatchList) (st : ExecSt) {w : World}
    (hgood : Good w cs) (hm : (messageWrite st.ms.msg).1 ∈ cs) (hnd : ∀ m ∈ ml, m.ty ≠ .discard) :
    wp (fun w' => Good w' cs) (matchesExec env ml st) (fun _ w' => Good w' cs) w := by
  induction ml generalizing st w with
  | nil =>
    unfold matchesExec
    simp only [bind_eq, pure_eq]
    split
    · refine wp_bind_mono (wp_harmless (harmless_maildirClose _) hgood) ?_
      intro _ w1 h; exact h
    · exact hgood
  | cons mh rest ih =>
    unfold matchesExec
    simp only [bind_eq, pure_eq]
    refine wp_bind_mono (spec_execOne env mh st hgood hm (hnd mh (List.mem_cons_self ..))) ?_
    rintro ⟨st', e⟩ w1 ⟨hg1, hmsg⟩
    dsimp only at hmsg ⊢
    split
    · split
      · refine wp_bind_mono (wp_harmless (harmless_maildirClose _) hg1) ?_
        intro _ w2 h; exact h
      · exact hg1
    · exact ih st' hg1 (by rw [hmsg]; exact hm) (fun m hmem => hnd m (List.mem_cons_of_mem _ hmem))

/-- Soundness for `runPlan`: every world of the recorded history satisfies the invariant. -/
theorem matchesExec_history_good {cs : List Bytes} (env : PEnv) (ml : MatchList) (st : ExecSt) (w : World) (plan : Plan)
    (hgood : Good w cs) (hm : (messageWrite st.ms.msg).1 ∈ cs) (hnd : ∀ m ∈ ml, m.ty ≠ .discard) :
    ∀ w' ∈ (runPlan plan (matchesExec env ml st) w 0 []).2.2, Good w' cs := by
  intro w' hw'
  rw [runPlan_eq] at hw'
  simp only [List.nil_append] at hw'
  exact (wp_sound plan (spec_matchesExec env ml st hgood hm hnd) 0).1 w' hw'

theorem mem_files_of_file {w : World} {fid : Nat} {f : File} (h : w.file fid = some f) : (fid, f) ∈ w.files := by
  unfold World.file at h
  simp only [Option.map_eq_some_iff] at h
  obtain ⟨x, hx, rfl⟩ := h
  have h1 := List.mem_of_find?_eq_some hx
  have h2 := List.find?_some hx
  simp only [beq_iff_eq] at h2
  subst h2
  exact h1

end Mdsort.Proofs.World
