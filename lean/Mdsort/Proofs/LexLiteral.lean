import Mdsort.Proofs.Lex
import Mdsort.Proofs.FlagsTime

/-!
# Age literals: every digit string, every unit abbreviation (C14 / C15)

* `Spec.decimal` is the value of a digit string (any length, leading zeros allowed).
* `lex_digits`: the lexer on ANY non-empty digit string: the value when it fits 32 bits, a diagnostic
  otherwise - there is no length at which the verdict changes back.
* `lex_unit`: every lexeme `Spec.unitOf` maps to a unit (the seven names and their unambiguous
  abbreviations) is lexed, where the grammar expects a unit, as that unit.
-/

namespace Mdsort.Spec
open Mdsort

/-- The number a string of decimal digits denotes, read left to right (`0007` is 7). -/
def decimal (ds : Bytes) : Nat := ds.foldl (fun a d => a * 10 + (d.toNat - 48)) 0

end Mdsort.Spec

namespace Mdsort.Proofs
open Mdsort Mdsort.Model

theorem decimal_eq_dval (ds : Bytes) : Spec.decimal ds = LexAux.dval 0 ds := rfl

/-- Leading zeros do not change the value. -/
theorem decimal_leading_zeros (k : Nat) (ds : Bytes) : Spec.decimal (List.replicate k 48 ++ ds) = Spec.decimal ds := by
  induction k with
  | zero => rfl
  | succ k ih =>
    rw [List.replicate_succ, List.cons_append]
    have : Spec.decimal (48 :: (List.replicate k 48 ++ ds)) = Spec.decimal (List.replicate k 48 ++ ds) := by
      simp only [Spec.decimal, List.foldl_cons]
      rfl
    rw [this, ih]

/-- On the canonical decimal form of `n` the value is `n`. -/
theorem decimal_toString (n : Nat) : Spec.decimal (toString n).toUTF8.toList = n := by
  obtain ⟨ds, hb, _, _, hv⟩ := LexAux.toString_bytes n
  rw [hb, decimal_eq_dval, hv]

/-- Leading white space is skipped. -/
theorem dropWhile_space_append (sp s : Bytes) (h : ∀ c ∈ sp, isspace c = true) :
    (sp ++ s).dropWhile isspace = s.dropWhile isspace := by
  induction sp with
  | nil => rfl
  | cons a sp ih =>
    have ha : isspace a = true := h a (by simp)
    rw [List.cons_append, List.dropWhile_cons, if_pos ha]
    exact ih (fun c hc => h c (by simp [hc]))

theorem lex1_space_lower (pflag sflag : Bool) (sp : Bytes) (c : UInt8) (r : Bytes) (hsp : ∀ x ∈ sp, isspace x = true)
    (hl : islower c = true) : lex1 pflag sflag false (sp ++ c :: r) = lex1.lexTok pflag sflag c r 0 := by
  obtain ⟨h1, h2, h3, _, _⟩ := LexAux.islower_facts c hl
  have hd : (sp ++ c :: r).dropWhile isspace = c :: r := by
    rw [dropWhile_space_append sp _ hsp, List.dropWhile_cons, if_neg (by simp [h1])]
  unfold lex1
  simp only [hd]
  simp [h2, h3]

theorem lex1_space_digit (sflag : Bool) (sp : Bytes) (c : UInt8) (r : Bytes) (hsp : ∀ x ∈ sp, isspace x = true)
    (hd : isdigit c = true) :
    lex1 false sflag false (sp ++ c :: r) =
      { tok := .int (lexDigits (r.length + 2) (c :: r) 0 false 0).1,
        rest := (lexDigits (r.length + 2) (c :: r) 0 false 0).2.1,
        errors := 0 + (lexDigits (r.length + 2) (c :: r) 0 false 0).2.2 } := by
  obtain ⟨h1, h2, h3, h4⟩ := LexAux.isdigit_facts c hd
  have hdw : (sp ++ c :: r).dropWhile isspace = c :: r := by
    rw [dropWhile_space_append sp _ hsp, List.dropWhile_cons, if_neg (by simp [h1])]
  unfold lex1
  simp only [hdw]
  simp [lex1.lexTok, h2, h3, h4, hd]

/-- The lexer on an arbitrary non-empty string of digits (after any white space, followed by anything
that is not a digit): when the value fits 32 bits the token is exactly that value, without a diagnostic;
otherwise - whatever the length of the string - a diagnostic is reported.  In both cases all the
digits are consumed. -/
theorem lex_digits (sflag : Bool) (sp ds rest : Bytes) (hsp : ∀ x ∈ sp, isspace x = true) (hne : ds ≠ [])
    (hd : ∀ d ∈ ds, isdigit d = true) (hr : ∀ c, rest.head? = some c → isdigit c = false) :
    let r := lex1 false sflag false (sp ++ ds ++ rest)
    (Spec.decimal ds < 2 ^ 32 → r = { tok := .int (Spec.decimal ds), rest := rest, errors := 0 }) ∧
    (2 ^ 32 ≤ Spec.decimal ds → r.errors ≥ 1 ∧ r.rest = rest) ∧
    (r.errors = 0 ↔ Spec.decimal ds < 2 ^ 32) := by
  cases ds with
  | nil => exact absurd rfl hne
  | cons c t =>
    have hc : isdigit c = true := hd c (by simp)
    have hspec := LexAux.lexDigits_spec rest hr (c :: t) ((t ++ rest).length + 2) 0 0 hd
      (by simp only [List.length_cons, List.length_append]; omega) (by decide)
    rw [List.cons_append] at hspec
    obtain ⟨h1, h2, h3⟩ := hspec
    have hin : sp ++ (c :: t) ++ rest = sp ++ c :: (t ++ rest) := by simp
    simp only [hin, lex1_space_digit sflag sp c (t ++ rest) hsp hc, decimal_eq_dval]
    refine ⟨fun hn => ?_, fun hn => ⟨?_, h1⟩, ⟨fun he => ?_, fun hn => ?_⟩⟩
    · rw [h2 hn, Nat.zero_add]
    · rw [h3 hn]; omega
    · apply Classical.byContradiction
      intro hge
      rw [h3 (by omega)] at he
      omega
    · rw [h2 hn]
      rfl

/-! ### Units -/

/-- What is checked of every pair (lexeme, unit): where the grammar expects a unit, the word is no
keyword and selects exactly that entry of the generated unit table. -/
def unitLexOk (p : String × Nat) : Bool :=
  let bs := p.1.toUTF8.toList
  let w := String.ofList (bs.map fun b => Char.ofNat b.toNat)
  (Gen.keywords.find? (fun kv => kv.1 == w)).isNone &&
  ((Gen.scalars.filter fun (name, _) => w.toList.isPrefixOf name.toList).map (·.2) == [p.2]) &&
  bs.all isKwChar && (match bs with | [] => false | c :: _ => islower c) && decide (bs.length ≤ BUFSIZ - 1)

/-- Every non-empty prefix of every unit name, with that unit's value. -/
def unitPrefixes : List (String × Nat) :=
  Spec.units.flatMap fun u => (List.range u.1.length).map fun k => (String.ofList (u.1.toList.take (k + 1)), u.2)

theorem unit_prefixes_ok : (unitPrefixes.filter fun p => Spec.unitOf p.1 == some p.2).all unitLexOk = true := by
  decide +kernel

theorem unitOf_empty : Spec.unitOf "" = none := by decide +kernel

/-- A lexeme that denotes a unit is one of the listed prefixes. -/
theorem unitOf_mem_prefixes (w : String) (u : Nat) (h : Spec.unitOf w = some u) : (w, u) ∈ unitPrefixes := by
  have hne : w.toList ≠ [] := by
    intro he
    have : w = "" := by
      have := congrArg String.ofList he
      simpa using this
    rw [this, unitOf_empty] at h
    cases h
  unfold Spec.unitOf at h
  generalize hms : (Spec.units.filter fun u => w.toList.isPrefixOf u.1.toList) = ms at h
  match ms, h with
  | [x], h =>
    have hx : x ∈ Spec.units.filter fun u => w.toList.isPrefixOf u.1.toList := by rw [hms]; simp
    rw [List.mem_filter] at hx
    obtain ⟨hxu, hpre⟩ := hx
    have hu : x.2 = u := by simpa using h
    have hp : w.toList <+: x.1.toList := List.isPrefixOf_iff_prefix.mp hpre
    have htake : w.toList = x.1.toList.take w.toList.length := (List.prefix_iff_eq_take.mp hp)
    have hlen : w.toList.length ≤ x.1.toList.length := hp.length_le
    have hpos : 0 < w.toList.length := List.length_pos_iff.mpr hne
    unfold unitPrefixes
    rw [List.mem_flatMap]
    refine ⟨x, hxu, ?_⟩
    rw [List.mem_map]
    refine ⟨w.toList.length - 1, ?_, ?_⟩
    · rw [List.mem_range]
      have : x.1.length = x.1.toList.length := String.length_toList.symm
      omega
    · have e : w.toList.length - 1 + 1 = w.toList.length := by omega
      rw [e, ← htake, hu]
      simp

/-- The bytes of a unit lexeme start with a lower-case letter (so they are neither white space nor digits). -/
theorem unit_bytes (w : String) (u : Nat) (hw : Spec.unitOf w = some u) :
    ∃ c t, w.toUTF8.toList = c :: t ∧ islower c = true := by
  have hok : unitLexOk (w, u) = true :=
    List.all_eq_true.mp unit_prefixes_ok (w, u) (by
      rw [List.mem_filter]
      exact ⟨unitOf_mem_prefixes w u hw, by simp [hw]⟩)
  simp only [unitLexOk, Bool.and_eq_true, decide_eq_true_eq, beq_iff_eq, Option.isNone_iff_eq_none] at hok
  obtain ⟨⟨⟨⟨_, _⟩, _⟩, hhead⟩, _⟩ := hok
  cases hbs : w.toUTF8.toList with
  | nil => rw [hbs] at hhead; simp at hhead
  | cons c t => rw [hbs] at hhead; exact ⟨c, t, rfl, hhead⟩

/-- Every unit is at least one second. -/
theorem unit_pos (w : String) (u : Nat) (hw : Spec.unitOf w = some u) : 1 ≤ u := by
  have hall : unitPrefixes.all (fun p => decide (1 ≤ p.2)) = true := by decide +kernel
  have := List.all_eq_true.mp hall (w, u) (unitOf_mem_prefixes w u hw)
  simpa using this

/-- Where the grammar expects a unit (`sflag`), a lexeme that denotes the unit `u` - a unit name or
an unambiguous abbreviation of one - is lexed as the unit token `u`, without a diagnostic, after any
white space and before anything that cannot continue a word. -/
theorem lex_unit (sp rest : Bytes) (w : String) (u : Nat) (hsp : ∀ x ∈ sp, isspace x = true)
    (hw : Spec.unitOf w = some u) (hr : ∀ c, rest.head? = some c → isKwChar c = false) :
    lex1 false true false (sp ++ w.toUTF8.toList ++ rest) = { tok := .scalar (some u), rest := rest, errors := 0 } := by
  have hmem := unitOf_mem_prefixes w u hw
  have hok : unitLexOk (w, u) = true := by
    have := List.all_eq_true.mp unit_prefixes_ok (w, u) (by
      rw [List.mem_filter]
      exact ⟨hmem, by simp [hw]⟩)
    exact this
  simp only [unitLexOk, Bool.and_eq_true, decide_eq_true_eq, beq_iff_eq, Option.isNone_iff_eq_none] at hok
  obtain ⟨⟨⟨⟨hfind, hfilter⟩, hall⟩, hhead⟩, hlen⟩ := hok
  cases hbs : w.toUTF8.toList with
  | nil => rw [hbs] at hhead; simp at hhead
  | cons c t =>
    rw [hbs] at hfind hfilter hall hhead hlen
    simp only at hhead
    have hin : sp ++ (c :: t) ++ rest = sp ++ c :: (t ++ rest) := by simp
    rw [hin, lex1_space_lower false true sp c (t ++ rest) hsp hhead]
    obtain ⟨_, _, _, h34, hd⟩ := LexAux.islower_facts c hhead
    obtain ⟨htw, hdw⟩ := LexAux.takeWhile_append_stop isKwChar (c :: t) rest hall hr
    rw [List.cons_append] at htw hdw
    unfold lex1.lexTok
    simp only [h34, hd, hhead, htw, hdw, if_true, Bool.false_eq_true, if_false]
    rw [if_neg (by omega), hfind]
    simp only
    generalize hms : (Gen.scalars.filter fun (x : String × Nat) =>
      (String.ofList ((c :: t).map fun b => Char.ofNat b.toNat)).toList.isPrefixOf x.1.toList) = ms at hfilter
    match ms, hfilter with
    | [(n, v)], hf =>
      have : v = u := by simpa using hf
      rw [this]

end Mdsort.Proofs
