import Mdsort.Proofs.WorldStdinExecOne
import Mdsort.Proofs.EvalPWorld

/-! `message_parse` and the processing of the one spooled message in a stdin run. -/

namespace Mdsort.Proofs.World
open Mdsort Mdsort.Model

theorem Inv.ofFreshN {S : Spool} {w0 w w' : World} (a : Inv S w0 w) (hd : w'.dirs = w.dirs)
    (ho : ∀ x, x < w0.handles.length → w'.obj x = w.obj x) (hl : w.handles.length ≤ w'.handles.length) : Inv S w0 w' :=
  ⟨fun h hh => (ho h hh).trans (a.objs h hh), Nat.le_trans a.len hl,
   fun q => by rw [dir_of_dirs hd]; exact a.exist q, by rw [dir_of_dirs hd]; exact a.root⟩

theorem harmless_readAll (fd : Handle) (fuel : Nat) : Calls Harmless (readAll fd fuel) := by
  induction fuel with
  | zero => exact Calls.ret_intro' _
  | succ n ih =>
    unfold readAll
    simp only [bind_eq, pure_eq, call_bind]
    repeat' (first | exact ih | harmless_step)

theorem fresh_readAll (N : Nat) (fd : Handle) (hN : N ≤ fd) (fuel : Nat) : Fresh N (readAll fd fuel) (fun _ => True) := by
  induction fuel with
  | zero => exact trivial
  | succ n ih =>
    unfold readAll
    simp only [bind_eq, pure_eq, call_bind]
    refine Fresh.call rfl (subj_some rfl hN) (fun r _ => ?_)
    split
    · split
      · exact trivial
      · exact ih
    · exact trivial

/-- What `message_parse` returns for the entry `name` of `dir` holding `content`. -/
def Parsed (dir name content : Bytes) (ms : MsgSt) : Prop :=
  ms.name = name ∧ ms.path = dir ++ [47] ++ name ∧ ms.msg = parseMessage content ∧
  ms.parts = (getAttachments (parseMessage content)).getD [] ∧ flagsParse name = some ms.flags

/-- `message_parse` after the file has been opened. -/
def parseTail (fd : Handle) (dir name content : Bytes) : Prog (Option MsgSt) :=
  (readAll fd (content.length + 2)).bind fun failed =>
    if failed = true then Prog.call (Call.close fd) fun _ => Prog.ret none
    else
      match pathjoin PATH_MAX dir name, strlcpyFits NAME_MAX1 name with
      | some p, some n =>
        match flagsParse n with
        | some mf =>
          Prog.ret (some { name := n, path := p, fd := some fd, msg := parseMessage content,
                           parts := (getAttachments (parseMessage content)).getD [], flags := mf,
                           loc := some (dir, name), content := content })
        | none => Prog.call (Call.close fd) fun _ => Prog.ret none
      | _, _ => Prog.call (Call.close fd) fun _ => Prog.ret none

theorem messageParseP_eq (d : Handle) (dir name content : Bytes) :
    messageParseP d dir name content =
      Prog.call (Call.openRd d name) fun r =>
        match r with
        | .ok fd => parseTail fd dir name content
        | _ => Prog.ret none := by
  unfold messageParseP parseTail
  simp only [bind_eq, pure_eq, call_bind]
  rfl

theorem harmless_parseTail (fd : Handle) (dir name content : Bytes) : Calls Harmless (parseTail fd dir name content) := by
  unfold parseTail
  repeat' (first | exact harmless_readAll _ _ | harmless_step)

theorem fresh_parseTail (N : Nat) (fd : Handle) (hN : N ≤ fd) (dir name content : Bytes) :
    Fresh N (parseTail fd dir name content) (fun pm => ∀ ms, pm = some ms → Parsed dir name content ms ∧ ms.fd = some fd) := by
  unfold parseTail
  refine Fresh.bind (fresh_readAll N fd hN _) (fun failed _ => ?_)
  split
  · exact Fresh.call rfl (subj_some rfl hN) (fun _ _ => by intro _ h; cases h)
  · split
    · rename_i p n hp hn
      have hnn : n = name := by
        unfold strlcpyFits at hn
        split at hn
        · cases hn
        · cases hn; rfl
      subst hnn
      split
      · rename_i mf hmf
        intro ms h
        cases h
        exact ⟨⟨rfl, pathjoin_eq hp, rfl, rfl, hmf⟩, rfl⟩
      · exact Fresh.call rfl (subj_some rfl hN) (fun _ _ => by intro _ h; cases h)
    · exact Fresh.call rfl (subj_some rfl hN) (fun _ _ => by intro _ h; cases h)

theorem spec_messageParseP_sp (S : Spool) (T : Prop) (cs : List Bytes) (p0 n0 : Bytes) (d : Handle) (dir name content : Bytes)
    {w : World} (hroot : w.dir S.sr = some []) (htr : T → ∃ f0, GoodAt w cs p0 n0 f0) :
    wp (fun _ => True) (messageParseP d dir name content)
      (fun pm w' => Inv S w w' ∧ w'.dirs = w.dirs ∧ (T → ∃ f0, GoodAt w' cs p0 n0 f0) ∧
        ∀ ms, pm = some ms → Parsed dir name content ms ∧
          ∃ fd, ms.fd = some fd ∧ w.handles.length ≤ fd ∧ fd < w'.handles.length) w := by
  rw [messageParseP_eq]
  intro ft
  refine ⟨trivial, ?_⟩
  have inv1 := (Inv.refl (S := S) hroot).step_plain (.openRd d name) (faultResult ft w (.openRd d name)) rfl
    (by intro h hh; cases hh)
  have hd1 : (stepWorld w (.openRd d name) (faultResult ft w (.openRd d name))).dirs = w.dirs := by
    rw [stepWorld_dirs]; exact core_dirs _ _ _ rfl
  have tr1 : T → ∃ f0, GoodAt (stepWorld w (.openRd d name) (faultResult ft w (.openRd d name))) cs p0 n0 f0 := by
    intro hT
    obtain ⟨f0, hg⟩ := htr hT
    exact ⟨f0, hg.step _ _ trivial trivial⟩
  have hok : ∀ v, faultResult ft w (.openRd d name) = .ok v → v = w.handles.length ∧
      v < (stepWorld w (.openRd d name) (faultResult ft w (.openRd d name))).handles.length := by
    intro v hv
    refine ⟨opener_result ft w _ v rfl hv, ?_⟩
    rw [hv]
    exact openRd_ok_lt ft w d name v hv
  generalize faultResult ft w (.openRd d name) = r at inv1 hd1 tr1 hok ⊢
  generalize stepWorld w (.openRd d name) r = w1 at inv1 hd1 tr1 hok ⊢
  cases r with
  | ok fd =>
    obtain ⟨hfd, hlt⟩ := hok fd rfl
    dsimp only
    have htk : wp (fun _ => True) (parseTail fd dir name content) (fun _ w' => T → ∃ f0, GoodAt w' cs p0 n0 f0) w1 := by
      by_cases hT : T
      · obtain ⟨f0, hg⟩ := tr1 hT
        exact wp_mono (wp_true (wp_harmlessAt (harmless_parseTail fd dir name content) hg)) (fun _ _ h _ => ⟨f0, h⟩)
      · exact wp_mono wp_triv (fun _ _ _ h => absurd h hT)
    refine wp_mono (wp_and (Fresh.wp (fresh_parseTail w.handles.length fd (by omega) dir name content) inv1.len) htk) ?_
    rintro pm w2 ⟨⟨hq, hdirs, hobjs, hlen⟩, htr2⟩
    refine ⟨inv1.ofFreshN hdirs hobjs hlen, hdirs.trans hd1, htr2, ?_⟩
    intro ms hms
    obtain ⟨hp, hf⟩ := hq ms hms
    exact ⟨hp, fd, hf, Nat.le_of_eq hfd.symm, Nat.lt_of_lt_of_le hlt hlen⟩
  | err e => exact ⟨inv1, hd1, tr1, by intro _ h; cases h⟩
  | name x => exact ⟨inv1, hd1, tr1, by intro _ h; cases h⟩
  | eof => exact ⟨inv1, hd1, tr1, by intro _ h; cases h⟩

/-! ## what the rule set decides for the spooled message -/

inductive Verdict where
  | failed                                   -- evaluation or interpolation error
  | unmatched                                -- no rule matched
  | actions (ml : MatchList) (m' : Msg)      -- the interpolated match list and the (rewritten) message

/-- The evaluator environment `main` builds for a message at `path`. -/
def evalEnv (env : PEnv) (orc : EvalOracles) (path : Bytes) : Env :=
  { rx := orc.rx, command := fun _ => -1, isDir := fun _ => false, now := env.now,
    strptime := orc.strptime, zoneName := orc.zoneName, fileTime := fun _ => none,
    timeFormat := orc.timeFormat, dryrun := env.dryrun, path := path }

/-- `matches_interpolate` on the result `ev` of `expr_eval`, as `main` calls it. -/
def verdictOfEv (env : PEnv) (orc : EvalOracles) (m : Msg) (parts : List Msg) (path : Bytes) : Tri × St → Verdict
  | (.error, _) => .failed
  | (.nomatch, _) => .unmatched
  | (.match, est) =>
    match matchesInterpolate (evalEnv env orc path) est.ml (partMsg m parts) with
    | none => .failed
    | some (ml, msgs) => .actions ml (msgs 0)

/-- `expr_eval` + `matches_interpolate` with the pure evaluator (a rule tree that asks the operating system nothing). -/
def verdictOf (env : PEnv) (orc : EvalOracles) (expr : Expr) (m : Msg) (parts : List Msg) (path : Bytes) (fl : MFlags) : Verdict :=
  verdictOfEv env orc m parts path (eval (evalEnv env orc path) m expr 0 m { ml := [], flags := fl })

/-- The verdict for the bytes `input` spooled under `path` with maildir flags `fl` (pure evaluator). -/
def stdinVerdict (env : PEnv) (orc : EvalOracles) (expr : Expr) (input path : Bytes) (fl : MFlags) : Verdict :=
  verdictOf env orc expr (parseMessage input) ((getAttachments (parseMessage input)).getD []) path fl

/-- The verdict when the operating system answers the questions of evaluation (`command`, `isdirectory`, file-time `date`
conditions) with `as`. -/
def stdinVerdictA (env : PEnv) (orc : EvalOracles) (expr : Expr) (input path : Bytes) (fl : MFlags) (as : List SysAns) : Verdict :=
  verdictOfEv env orc (parseMessage input) ((getAttachments (parseMessage input)).getD []) path
    (evalR (evalEnv env orc path) expr (parseMessage input) fl as).1

/-- For a rule tree that asks nothing the answers are irrelevant. -/
theorem stdinVerdictA_asksFree (env : PEnv) (orc : EvalOracles) (expr : Expr) (h : asksFree expr = true) (input path : Bytes)
    (fl : MFlags) (as : List SysAns) :
    stdinVerdictA env orc expr input path fl as = stdinVerdict env orc expr input path fl := by
  unfold stdinVerdictA stdinVerdict verdictOf
  have h1 := evalT_asksFree (evalEnv env orc path) (parseMessage input) expr h 0 (parseMessage input)
    { ml := [], flags := fl }
  have h2 : evalR (evalEnv env orc path) expr (parseMessage input) fl as =
      ((evalT (noSys (evalEnv env orc path)) (parseMessage input) expr 0 (parseMessage input)
        { ml := [], flags := fl }).run as) := rfl
  rw [h2, h1]
  rfl

/-- What an error-free processing of the spooled message means, by verdict. -/
def DoneV (S : Spool) (env : PEnv) (input : Bytes) (v : Verdict) (w' : World) : Prop :=
  match v with
  | .failed => False
  | .unmatched => True
  | .actions ml m' =>
    env.dryrun = false → (∀ m ∈ ml, m.ty ≠ .discard) → (∃ m ∈ ml, moveTy m.ty) →
      (∀ m ∈ ml, moveTy m.ty → destPath m.path ≠ some S.sp) →
      ∃ p n fid, p ≠ S.sp ∧ GoodAt w' [input, (messageWrite m').1] p n fid

/-- An error-free processing of the spooled message: `DoneV` for the verdict the rules give for SOME answers `as` of the operating
system to the questions of evaluation (the answers of the run). -/
def Done (S : Spool) (env : PEnv) (orc : EvalOracles) (expr : Expr) (input name0 : Bytes) (w' : World) : Prop :=
  ∃ fl as, flagsParse name0 = some fl ∧
    DoneV S env input (stdinVerdictA env orc expr input (S.sp ++ [47] ++ name0) fl as) w'

/-- All-path facts about the spool after a part of the run that started in `w`. -/
def SpoolAll (S : Spool) (w w' : World) : Prop :=
  InvX S (fun h => S.d < h) w w' ∧ ∃ a b, (95 : UInt8) ∈ a ∧ (95 : UInt8) ∈ b ∧ NamesIn w' S.sp [a, b]

theorem SpoolAll.close {S : Spool} {w w' : World} (a : SpoolAll S w w') (f : Handle) (rc : Res) (hf : S.d < f) :
    SpoolAll S w (stepWorld w' (.close f) rc) := by
  obtain ⟨a1, x, y, hx, hy, hn⟩ := a
  exact ⟨a1.close f rc hf, x, y, hx, hy, hn.congr (dir_of_dirs (dirs_close _ _ _) _)⟩

theorem DoneV.step {S : Spool} {env : PEnv} {input : Bytes} {v : Verdict} {w' : World} (h : DoneV S env input v w')
    (c : Call) (r : Res) (hc : Harmless c) : DoneV S env input v (stepWorld w' c r) := by
  cases v with
  | failed => exact h
  | unmatched => exact h
  | actions ml m' =>
    intro h1 h2 h3 h4
    obtain ⟨p, n, fid, hp, hg⟩ := h h1 h2 h3 h4
    exact ⟨p, n, fid, hp, hg.step c r (hc.dirSafe _ _ _) (hc.fileSafe _ _)⟩

theorem GoodAt.mono_cs {w : World} {cs cs' : List Bytes} {p n : Bytes} {fid : Nat} (h : GoodAt w cs p n fid)
    (hs : ∀ x ∈ cs, x ∈ cs') : GoodAt w cs' p n fid := by
  obtain ⟨a, b, f, c, d, e⟩ := h
  exact ⟨a, b, f, c, hs _ d, hs _ e⟩

/-- `message_free` followed by the return of `res`. -/
theorem wp_free {α} (fdo : Option Handle) (res : α) {w2 : World} (Q : α → World → Prop)
    (hQ : ∀ w3, (w3 = w2 ∨ ∃ f rc, fdo = some f ∧ w3 = stepWorld w2 (.close f) rc) → Q res w3) :
    wp (fun _ => True)
      ((match fdo with
        | some h => Prog.call (Call.close h) fun _ => Prog.ret ()
        | none => Prog.ret ()).bind fun _ => Prog.ret res) Q w2 := by
  cases fdo with
  | none => exact hQ w2 (.inl rfl)
  | some h =>
    simp only [call_bind', ret_bind]
    exact wp_call_any fun rc => ⟨trivial, hQ _ (.inr ⟨h, rc, rfl, rfl⟩)⟩

end Mdsort.Proofs.World
