import Mdsort.Proofs.WorldExitTop
import Mdsort.Proofs.WorldWholeEx

/-!
# Non-vacuity of the whole-run exit-0 theorem: `maildir "/m" { match all move "/y" }` on the two-message example
-/

namespace Mdsort.Proofs
open Mdsort Mdsort.Model

/-- `match all move "/y"` -/
def exit0_exExpr : Expr := .mtch 1 (.all 1) (.move 1 [47, 121])

def exit0_exConf : List ConfBlock := [{ paths := [[47, 109]], expr := exit0_exExpr }]

theorem exit0_ex_dirs : exit0_dirsOf exit0_exConf = [(exNew, exit0_exExpr), (exCur, exit0_exExpr)] := by
  have hsp : isStdinPath [47, 109] = false := by decide +kernel
  simp [exit0_dirsOf, exit0_pathDirs, exit0_exConf, hsp, exNew, exCur, subdirName]

theorem exit0_ex_nd : ∀ b ∈ exit0_exConf, WholeNoDiscard exEnv wholeExOrc b.expr := by
  intro b hb
  simp only [exit0_exConf, List.mem_singleton] at hb
  subst hb
  exact whole_noDiscard_of_syntax _ _ _ (by decide)

set_option maxRecDepth 100000 in
/-- Both messages are sent to `/y/new`, which is not configured. -/
theorem exit0_ex_good : exit0_Good ⟨exEnv, wholeExOrc, exit0_dirsOf exit0_exConf, wholeExFiles, wholeExWorld⟩ := by
  rw [exit0_ex_dirs]
  refine exit0_good_of_outside (by decide) (by decide) (by decide) ?_
  intro D e n c hmem hc
  have hx := exit0_get_mem hc
  simp only [wholeExFiles, List.mem_cons, List.not_mem_nil, or_false, Prod.mk.injEq] at hx hmem
  right
  rcases hx with ⟨rfl, rfl, rfl⟩ | ⟨rfl, rfl, rfl⟩
  · rcases hmem with ⟨_, rfl⟩ | ⟨h, _⟩
    · simp only [exit0_dest, verdict, msVerdict, exit0_exExpr, eval]
      decide +kernel
    · exact absurd h (by decide)
  · rcases hmem with ⟨_, rfl⟩ | ⟨h, _⟩
    · simp only [exit0_dest, verdict, msVerdict, exit0_exExpr, eval]
      decide +kernel
    · exact absurd h (by decide)

end Mdsort.Proofs
