import Mdsort.Proofs.EvalRules
import Mdsort.Proofs.EvalAttList
import Mdsort.Proofs.EvalAttCond

/-!
# The invariant with part indices, actions and the block epilogue on any part (C03 with attachments)

`RelA` is `Rel` of `EvalSim.lean` with the part index in the plan; the lemmas about
`blockWrap` are taken over through `RelA.toRel`.
-/

namespace Mdsort.Proofs
open Mdsort Mdsort.Model Mdsort.Spec

/-- The match list against the specification state: pending (part, action) pairs,
`hasPass` = a pass was seen in the current block or in an enclosing one, `hasBrk` = a BREAK entry
is in the list (between the `break` of a rule and the end of the block it leaves). -/
structure RelG (L : Nat) (ml : MatchList) (pend : List (Nat × Expr)) (hasPass hasBrk : Bool) : Prop where
  brk : hasTy ml .brk = hasBrk
  pass : hasTy ml .pass = hasPass
  plan : planP (keysP ml) = planP (pend.filterMap actKeyP)
  acts : ∀ a ∈ pend, isActionExpr a.2 = true
  paths : PathInv L ml

/-- The invariant outside the stretch between a `break` and the end of its block. -/
abbrev RelA (L : Nat) (ml : MatchList) (pend : List (Nat × Expr)) (hasPass : Bool) : Prop :=
  RelG L ml pend hasPass false

theorem RelA.noBrk {L : Nat} {ml : MatchList} {pend : List (Nat × Expr)} {hp : Bool} (h : RelA L ml pend hp) :
    hasTy ml .brk = false := RelG.brk h

theorem att_filterMap_drop (pend : List (Nat × Expr)) :
    (pend.filterMap actKeyP).map dropPart = (pend.map (·.2)).filterMap actKey := by
  induction pend with
  | nil => rfl
  | cons a r ih =>
    simp only [List.filterMap_cons, List.map_cons]
    cases h : actKey a.2 with
    | none => simp only [actKeyP, h, Option.map_none]; exact ih
    | some k => simp only [actKeyP, h, Option.map_some, List.map_cons, ih]; rfl

theorem RelA.toRel {L : Nat} {ml : MatchList} {pend : List (Nat × Expr)} {hp : Bool} (h : RelA L ml pend hp) :
    Rel L ml (pend.map (·.2)) hp where
  noBrk := RelG.brk h
  pass := RelG.pass h
  plan := by
    rw [keysOf_eq_map, ← att_filterMap_drop]
    exact planOf_of_planP (RelG.plan h)
  acts := by
    intro a ha
    obtain ⟨x, hx, rfl⟩ := List.mem_map.1 ha
    exact RelG.acts h x hx
  paths := RelG.paths h

theorem att_inert_keysP {X : MatchList} (hX : ∀ m ∈ X, Inert m) : keysP X = [] := by
  unfold keysP
  rw [List.map_eq_nil_iff, List.filter_eq_nil_iff]
  intro m hm
  have := (hX m hm).1
  simp [realAct, this]

theorem RelG.append_inert {L : Nat} {ml : MatchList} {pend : List (Nat × Expr)} {hp hb : Bool} (hL : 0 + 1 + L < PATH_MAX)
    (h : RelG L ml pend hp hb) {X : MatchList} (hX : ∀ m ∈ X, Inert m) : RelG L (ml ++ X) pend hp hb where
  brk := by rw [hasTy_append, h.brk, inert_hasTy hX _ (by decide)]; simp
  pass := by rw [hasTy_append, h.pass, inert_hasTy hX _ (by decide)]; simp
  plan := by rw [keysP_append, att_inert_keysP hX, List.append_nil]; exact h.plan
  acts := h.acts
  paths := h.paths.append (inert_pathInv hL hX)

/-- One executed action appended through `matches_append` on part `mh.part`. -/
theorem RelG.step {env : Env} {L : Nat} (hctx : PCtx env L) {ml : MatchList} {pend : List (Nat × Expr)} {hp hb : Bool}
    (h : RelG L ml pend hp hb) (mh : Match) (hact : realAct mh.ty = true) (hok : okEntry L mh)
    (a : Nat × Expr) (hk : actKeyP a = some (mh.ty, mh.lno, mh.part)) (ha : isActionExpr a.2 = true) :
    ∃ ml', matchesAppend env ml mh = (ml', false) ∧ RelG L ml' (pend ++ [a]) hp hb := by
  obtain ⟨ml1, mh', he, hty, hlno, hpart, hok', hres⟩ := att_matchesAppend_ok hctx ml mh h.paths hok
  refine ⟨_, he, ?_⟩
  constructor
  · rw [hasTy_append, hres.hasTy _ (by decide), h.brk, hasTy_cons, hty, realAct_ne hact (by decide)]; simp
  · rw [hasTy_append, hres.hasTy _ (by decide), h.pass, hasTy_cons, hty, realAct_ne hact (by decide)]; simp
  · have := att_plan_step h.plan hres hty hact
    rw [this, List.filterMap_append, hlno, hpart]
    simp [hk]
  · intro x hx
    rcases List.mem_append.1 hx with hx | hx
    · exact h.acts x hx
    · simp only [List.mem_singleton] at hx; rw [hx]; exact ha
  · apply (hres.pathInv h.paths).append
    intro m hm
    simp only [List.mem_singleton] at hm
    rw [hm]; exact hok'

theorem RelG.marker_pass {L : Nat} {ml : MatchList} {pend : List (Nat × Expr)} {hp hb : Bool} (hL : 0 + 1 + L < PATH_MAX)
    (h : RelG L ml pend hp hb) (lno part : Nat) :
    RelG L (ml ++ [{ ty := .pass, lno := lno, part := part }]) pend true hb where
  brk := by rw [hasTy_append, h.brk]; simp [hasTy]
  pass := by rw [hasTy_append]; simp [hasTy]
  plan := by
    rw [keysP_append, keysP_cons]
    have : realAct MType.pass = false := by decide
    simp only [this]
    simpa using h.plan
  acts := h.acts
  paths := by
    apply h.paths.append
    intro m hm
    simp only [List.mem_singleton] at hm
    rw [hm]
    exact ⟨Nat.zero_le _, hL⟩

/-- The marker of a `break` appended (`expr_eval_break`). -/
theorem RelG.marker_brk {L : Nat} {ml : MatchList} {pend : List (Nat × Expr)} {hp hb : Bool} (hL : 0 + 1 + L < PATH_MAX)
    (h : RelG L ml pend hp hb) (lno part : Nat) :
    RelG L (ml ++ [{ ty := .brk, lno := lno, part := part }]) pend hp true where
  brk := by rw [hasTy_append]; simp [hasTy]
  pass := by rw [hasTy_append, h.pass]; simp [hasTy]
  plan := by
    rw [keysP_append, keysP_cons]
    have : realAct MType.brk = false := by decide
    simp only [this]
    simpa using h.plan
  acts := h.acts
  paths := by
    apply h.paths.append
    intro m hm
    simp only [List.mem_singleton] at hm
    rw [hm]
    exact ⟨Nat.zero_le _, hL⟩

theorem RelG.remove_pass {L : Nat} {ml : MatchList} {pend : List (Nat × Expr)} {hp hb : Bool} (h : RelG L ml pend hp hb) :
    RelG L (ml.filter (·.ty != .pass)) pend false hb where
  brk := by rw [hasTy_filter_ne _ _ _ (by decide)]; exact h.brk
  pass := hasTy_filter_ne_self _ _
  plan := by rw [keysP_filter_ne _ _ (by decide)]; exact h.plan
  acts := h.acts
  paths := h.paths.filter _

/-- Removing the break markers (`matches_remove(ml, EXPR_TYPE_BREAK)` in `expr_eval_block`). -/
theorem RelG.remove_brk {L : Nat} {ml : MatchList} {pend : List (Nat × Expr)} {hp hb : Bool} (h : RelG L ml pend hp hb) :
    RelA L (ml.filter (·.ty != .brk)) pend hp where
  brk := hasTy_filter_ne_self _ _
  pass := by rw [hasTy_filter_ne _ _ _ (by decide)]; exact h.pass
  plan := by rw [keysP_filter_ne _ _ (by decide)]; exact h.plan
  acts := h.acts
  paths := h.paths.filter _

/-! ## the block epilogue -/

theorem att_blockWrap_plain {L : Nat} {st : St} {pend : List (Nat × Expr)} (h : RelA L st.ml pend false) (t : Tri)
    (ht : t ≠ .error) : blockWrap (t, st) = (t, st) :=
  blockWrap_plain h.toRel t ht

theorem att_blockWrap_pass {L : Nat} {st : St} {pend : List (Nat × Expr)} (h : RelA L st.ml pend true) (t : Tri)
    (ht : t ≠ .error) :
    blockWrap (t, st) =
      (if pend = [] then .nomatch else .match, { st with ml := st.ml.filter (·.ty != .pass) }) := by
  rw [blockWrap_pass h.toRel t ht]
  simp only [List.map_eq_nil_iff]

theorem att_blockWrap_matched {L : Nat} {st : St} {pend : List (Nat × Expr)} {hp : Bool} (h : RelA L st.ml pend hp)
    (hne : pend ≠ []) :
    (blockWrap (.match, st)).1 = .match ∧ RelA L (blockWrap (.match, st)).2.ml pend false ∧
      (blockWrap (.match, st)).2.flags = st.flags := by
  cases hp
  · rw [att_blockWrap_plain h _ (by decide)]; exact ⟨rfl, h, rfl⟩
  · rw [att_blockWrap_pass h _ (by decide)]; simp only [hne, if_false]; exact ⟨trivial, h.remove_pass, trivial⟩

theorem att_blockWrap_break {L : Nat} {st : St} {pend : List (Nat × Expr)} {hp : Bool} (h : RelA L st.ml pend hp)
    (lno part : Nat) (t : Tri) (ht : t ≠ .error) :
    blockWrap (t, { st with ml := st.ml ++ [{ ty := .brk, lno := lno, part := part }] }) = (.nomatch, st) :=
  blockWrap_break h.toRel lno part t ht

/-- The body finished (match or no match) with a BREAK entry in the list: no match, the BREAK
entries removed, everything else kept. -/
theorem att_blockWrap_brk {L : Nat} {st : St} {pend : List (Nat × Expr)} {hp : Bool} (h : RelG L st.ml pend hp true)
    (t : Tri) (ht : t ≠ .error) :
    blockWrap (t, st) = (.nomatch, { st with ml := st.ml.filter (·.ty != .brk) }) := by
  cases t
  · simp [blockWrap, h.brk]
  · simp [blockWrap, h.brk]
  · exact absurd rfl ht

/-! ## actions on part `k` -/

theorem att_exprAppend_step {env : Env} {L : Nat} (hctx : PCtx env L) {o : Bool} {f : MFlags} {st : St}
    {pend : List (Nat × Expr)} {hp hb : Bool} (h : RelG L st.ml pend hp hb) (hs : SeenInv o f st) (mh : Match)
    (hact : realAct mh.ty = true) (hok : okEntry L mh)
    (a : Nat × Expr) (hk : actKeyP a = some (mh.ty, mh.lno, mh.part)) (ha : isActionExpr a.2 = true) :
    ∃ st', exprAppend env mh st .match = (.match, st') ∧ RelG L st'.ml (pend ++ [a]) hp hb ∧ SeenInv o f st' := by
  obtain ⟨ml', h1, h2⟩ := h.step hctx mh hact hok a hk ha
  unfold exprAppend
  rw [h1]
  exact ⟨_, rfl, h2, hs⟩

/-- A single action of the domain on part `k`: an error exactly when `actErr`, else it matches and
the invariant moves on by one pending action tagged `k`. -/
theorem att_act_eval {env : Env} {L : Nat} (hctx : PCtx env L) (root : Msg) {o : Bool} {f : MFlags} (a : Expr)
    (k : Nat) (m : Msg) (ha : isActionExpr a = true) (hok : okA L o k a) (st : St) (pend : List (Nat × Expr))
    (hp : Bool) {hb : Bool} (hR : RelG L st.ml pend hp hb) (hs : SeenInv o f st) :
    (actErr a = true ∧ (eval env root a k m st).1 = .error) ∨
    (actErr a = false ∧ ∃ st', eval env root a k m st = (.match, st') ∧ RelG L st'.ml (pend ++ [(k, a)]) hp hb ∧
      SeenInv o f st') := by
  have hL := hctx.hL
  have ok0 : ∀ x : Match, x.maildir = [] → x.subdir = [] → okEntry L x := by
    intro x h1 h2; unfold okEntry; rw [h1, h2]; exact ⟨Nat.zero_le _, hL⟩
  cases a with
  | move lno path =>
    obtain ⟨_, hmv, _⟩ := hok
    simp only [movesFitA, Bool.or_eq_true, decide_eq_true_eq] at hmv
    by_cases hlen : path.length ≥ PATH_MAX
    · left
      refine ⟨by simp [actErr, hlen], ?_⟩
      simp [eval, strlcpyFits, hlen]
    · right
      refine ⟨by simp [actErr, hlen], ?_⟩
      have hfit : path.length + 1 + L < PATH_MAX := by
        rcases hmv with h | h
        · exact absurd h hlen
        · exact h
      simp only [eval, strlcpyFits, hlen, if_false]
      exact att_exprAppend_step hctx hR hs _ (by dsimp only; decide) (by unfold okEntry; exact ⟨Nat.zero_le _, hfit⟩)
        (k, _) rfl rfl
  | flag lno sd =>
    obtain ⟨hw, _, hmx, _⟩ := hok
    simp only [att_wfG, decide_eq_true_eq] at hw
    simp only [maxSubdirA] at hmx
    right
    refine ⟨rfl, ?_⟩
    have : ¬ sd.length ≥ NAME_MAX1 := by omega
    simp only [eval, strlcpyFits, this, if_false]
    exact att_exprAppend_step hctx hR hs _ (by dsimp only; decide) (by unfold okEntry; exact ⟨hmx, hL⟩) (k, _) rfl rfl
  | flags lno fl =>
    by_cases herr : fl.any (fun c => !isalpha c) = true
    · left
      refine ⟨by simp only [actErr]; exact herr, ?_⟩
      rw [eval]
      have := setAll_snd fl st.flags false
      rw [Bool.false_or, herr] at this
      generalize eval.setAll fl st.flags false = r at this
      rcases r with ⟨mf, e⟩
      simp only at this
      subst this
      rfl
    · right
      have herr' : fl.any (fun c => !isalpha c) = false := by simpa using herr
      refine ⟨by simp only [actErr]; exact herr', ?_⟩
      rw [eval]
      have := setAll_snd fl st.flags false
      rw [Bool.false_or, herr'] at this
      have hseen : SeenInv o f { st with flags := (eval.setAll fl st.flags false).1 } := by
        intro ho
        have hk := hok.2.2.2.2 ho
        simp only [flagsKeepSeenA, Bool.not_eq_true', List.contains_eq_mem, decide_eq_false_iff_not] at hk
        have : ∀ c ∈ fl, c ≠ 83 := fun c hc e => hk (e ▸ hc)
        show flagsIsSet (eval.setAll fl st.flags false).1 83 = _
        rw [setAll_seen fl st.flags false this]
        exact hs ho
      generalize eval.setAll fl st.flags false = r at this hseen
      rcases r with ⟨mf, e⟩
      simp only at this
      subst this
      simp only [Bool.false_eq_true, if_false]
      exact att_exprAppend_step (st := { st with flags := mf }) hctx hR hseen _ (by dsimp only; decide) (ok0 _ rfl rfl)
        (k, _) rfl rfl
  | discard lno =>
    right; refine ⟨rfl, ?_⟩; rw [eval]
    exact att_exprAppend_step hctx hR hs _ (by dsimp only; decide) (ok0 _ rfl rfl) (k, _) rfl rfl
  | label lno ls =>
    right; refine ⟨rfl, ?_⟩; rw [eval]
    exact att_exprAppend_step hctx hR hs _ (by dsimp only; decide) (ok0 _ rfl rfl) (k, _) rfl rfl
  | reject lno =>
    right; refine ⟨rfl, ?_⟩; rw [eval]
    exact att_exprAppend_step hctx hR hs _ (by dsimp only; decide) (ok0 _ rfl rfl) (k, _) rfl rfl
  | exec lno si bo argv =>
    right; refine ⟨rfl, ?_⟩; rw [eval]
    exact att_exprAppend_step hctx hR hs _ (by dsimp only; decide) (ok0 _ rfl rfl) (k, _) rfl rfl
  | addHeader lno key v =>
    right; refine ⟨rfl, ?_⟩; rw [eval]
    exact att_exprAppend_step hctx hR hs _ (by dsimp only; decide) (ok0 _ rfl rfl) (k, _) rfl rfl
  | _ => simp [isActionExpr] at ha

/-! ## chains as lists, on part `k` -/

/-- The left-nested AND chain, evaluated as a list on part `(k, m)`. -/
def att_evalAndList (env : Env) (root : Msg) (k : Nat) (m : Msg) : List Expr → St → Tri × St
  | [], st => (.match, st)
  | x :: xs, st =>
    match eval env root x k m st with
    | (.match, st1) => att_evalAndList env root k m xs st1
    | other => other

theorem att_evalAndList_append (env : Env) (root : Msg) (k : Nat) (m : Msg) : ∀ (a b : List Expr) (st : St),
    att_evalAndList env root k m (a ++ b) st =
      match att_evalAndList env root k m a st with
      | (.match, st1) => att_evalAndList env root k m b st1
      | other => other := by
  intro a
  induction a with
  | nil => intro b st; rfl
  | cons x xs ih =>
    intro b st
    simp only [List.cons_append, att_evalAndList]
    rcases h : eval env root x k m st with ⟨t, s⟩
    cases t
    · exact ih b s
    · rfl
    · rfl

theorem att_evalAndList_single (env : Env) (root : Msg) (k : Nat) (m : Msg) (x : Expr) (st : St) :
    att_evalAndList env root k m [x] st = eval env root x k m st := by
  simp only [att_evalAndList]
  rcases eval env root x k m st with ⟨t, s⟩
  cases t <;> rfl

theorem att_eval_andChain (env : Env) (root : Msg) (k : Nat) (m : Msg) : ∀ (e : Expr) (st : St),
    eval env root e k m st = att_evalAndList env root k m (andChain e) st := by
  intro e
  induction e with
  | and lno l r ihl _ =>
    intro st
    rw [eval, andChain, att_evalAndList_append, ← ihl st]
    rcases eval env root l k m st with ⟨t, s⟩
    cases t
    · simp only; rw [att_evalAndList_single]
    · rfl
    · rfl
  | _ => intro st; simp only [andChain, att_evalAndList_single]

/-- The rules of a block tried in order on part `(k, m)`. -/
def att_evalOrList (env : Env) (root : Msg) (k : Nat) (m : Msg) : List Expr → St → Tri × St
  | [], st => (.nomatch, st)
  | x :: xs, st =>
    match eval env root x k m st with
    | (.nomatch, st1) => att_evalOrList env root k m xs st1
    | other => other

theorem att_evalOrList_append (env : Env) (root : Msg) (k : Nat) (m : Msg) : ∀ (a b : List Expr) (st : St),
    att_evalOrList env root k m (a ++ b) st =
      match att_evalOrList env root k m a st with
      | (.nomatch, st1) => att_evalOrList env root k m b st1
      | other => other := by
  intro a
  induction a with
  | nil => intro b st; rfl
  | cons x xs ih =>
    intro b st
    simp only [List.cons_append, att_evalOrList]
    rcases h : eval env root x k m st with ⟨t, s⟩
    cases t
    · rfl
    · exact ih b s
    · rfl

theorem att_evalOrList_single (env : Env) (root : Msg) (k : Nat) (m : Msg) (x : Expr) (st : St) :
    att_evalOrList env root k m [x] st = eval env root x k m st := by
  simp only [att_evalOrList]
  rcases eval env root x k m st with ⟨t, s⟩
  cases t <;> rfl

theorem att_eval_orChain (env : Env) (root : Msg) (k : Nat) (m : Msg) : ∀ (e : Expr) (st : St),
    eval env root e k m st = att_evalOrList env root k m (orChain e) st := by
  intro e
  induction e with
  | or lno l r ihl _ =>
    intro st
    rw [eval, orChain, att_evalOrList_append, ← ihl st]
    rcases eval env root l k m st with ⟨t, s⟩
    cases t
    · rfl
    · simp only; rw [att_evalOrList_single]
    · rfl
  | _ => intro st; simp only [orChain, att_evalOrList_single]

/-! ## `match`, `pass`, `break` on part `k` -/

theorem att_eval_mtch (env : Env) (root : Msg) (lno : Nat) (c rhs : Expr) (k : Nat) (m : Msg) (st : St) :
    eval env root (.mtch lno c rhs) k m st =
      match eval env root c k m { st with ml := st.ml ++ [{ ty := .mtch, lno := lno, part := k }] } with
      | (.match, st1) => eval env root rhs k m st1
      | other => other := by
  rw [eval, matchesAppend_plain env st.ml _ (by dsimp only; decide) (by dsimp only; decide)]
  rfl

theorem att_eval_pass (env : Env) (root : Msg) (lno : Nat) (k : Nat) (m : Msg) (st : St) :
    eval env root (.pass lno) k m st =
      (.nomatch, { st with ml := st.ml ++ [{ ty := .pass, lno := lno, part := k }] }) := by
  rw [eval]; unfold exprAppend
  rw [matchesAppend_plain env st.ml _ (by dsimp only; decide) (by dsimp only; decide)]
  rfl

theorem att_eval_brk (env : Env) (root : Msg) (lno : Nat) (k : Nat) (m : Msg) (st : St) :
    eval env root (.brk lno) k m st =
      (.match, { st with ml := st.ml ++ [{ ty := .brk, lno := lno, part := k }] }) := by
  rw [eval]; unfold exprAppend
  rw [matchesAppend_plain env st.ml _ (by dsimp only; decide) (by dsimp only; decide)]
  rfl

/-- Condition of a rule evaluated after the sentinel, on part `(k, m)`. -/
theorem att_rule_cond {env : Env} {L : Nat} (hctx : PCtx env L) (root : Msg) (f : MFlags) {o : Bool} (lno : Nat)
    (c rhs : Expr) (k : Nat) (m : Msg) (hc : isCond c = true) (hw : att_wfG c = true)
    (ho : k = 0 → hasOld c = true → o = true) (st : St)
    {pend : List (Nat × Expr)} {hp : Bool} (hR : RelA L st.ml pend hp) (hs : SeenInv o f st) :
    ∃ st1, RelA L st1.ml pend hp ∧ SeenInv o f st1 ∧
      eval env root (.mtch lno c rhs) k m st =
        match condValA (att_ctx env root f) c k m with
        | .match => eval env root rhs k m st1
        | t => (t, st1) := by
  obtain ⟨X, hX, he⟩ := att_cond_eval env root f c hc hw k m
    { st with ml := st.ml ++ [{ ty := .mtch, lno := lno, part := k }] } (fun z x => hs (ho z x))
  refine ⟨{ ml := st.ml ++ [{ ty := .mtch, lno := lno, part := k }] ++ X, flags := st.flags }, ?_, hs, ?_⟩
  rotate_left
  · rw [att_eval_mtch, he]
    cases condValA (att_ctx env root f) c k m <;> rfl
  · dsimp only
    apply (hR.append_inert hctx.hL _).append_inert hctx.hL hX
    intro x hx
    simp only [List.mem_singleton] at hx
    rw [hx]; exact inert_sentinel lno k

end Mdsort.Proofs
