import Mdsort.Proofs.Parties
import Mdsort.Proofs.WorldFs

/-! The effect of one predicted call on the directory entries of the shared file system. -/

namespace Mdsort.Proofs.Parties
open Mdsort Mdsort.Model
open Mdsort.Proofs.World

/-- Calls that create or remove directories (only the stdin spool of mdsort does that). -/
def mkDir : Call → Bool
  | .mkdir _ | .mkdtemp _ | .rmdir _ => true
  | _ => false

/-- The file a successful call binds its target entry to. -/
def boundBy (w : World) : Call → Option Nat
  | .renameat d1 n1 _ _ => w.lookupE ((w.dirPath d1).map fun p => (p, n1))
  | .openExcl .. => some w.nextFid
  | _ => none

theorem core_err_of_dirOp (w : World) (c : Call) (e : String) (hc : Call.dirOp c = true) : core w c (.err e) = w := by
  cases c <;> simp [Call.dirOp] at hc <;> simp [core, applyOk]

/-! ### the three calls that change entries -/

theorem unlinkat_cases (w : World) (d : Handle) (n : Bytes) :
    (∃ p f, w.dirPath d = some p ∧ w.lookup p n = some f ∧ predict w (.unlinkat d n) = .ok 0 ∧
        core w (.unlinkat d n) (.ok 0) = w.unbind p n) ∨
    ((∀ p, w.dirPath d = some p → w.lookup p n = none) ∧ predict w (.unlinkat d n) = .err "ENOENT") := by
  cases hp : w.dirPath d with
  | none => right; simp [predict, hp]
  | some p =>
    cases hl : w.lookup p n with
    | none => right; simp [predict, hp, hl]
    | some f => left; exact ⟨p, f, rfl, hl, by simp [predict, hp, hl], by simp [core, applyOk, hp, hl]⟩

theorem renameat_cases (w : World) (d1 : Handle) (n1 : Bytes) (d2 : Handle) (n2 : Bytes) :
    (∃ p1 p2 f, w.dirPath d1 = some p1 ∧ w.dirPath d2 = some p2 ∧ w.lookup p1 n1 = some f ∧
        predict w (.renameat d1 n1 d2 n2) = .ok 0 ∧
        core w (.renameat d1 n1 d2 n2) (.ok 0) = (w.unbind p1 n1).bind p2 n2 f) ∨
    (∃ e, predict w (.renameat d1 n1 d2 n2) = .err e ∧ (e = "ENOENT" ∨ e = "EXDEV" ∨ e = "EBADF") ∧
        ((∃ p1, w.dirPath d1 = some p1 ∧ w.lookup p1 n1 = none) ∨ e = "EXDEV" ∨ e = "EBADF")) := by
  cases hp1 : w.dirPath d1 with
  | none => right; exact ⟨"EBADF", by simp [predict, hp1], by simp, by simp⟩
  | some p1 =>
    cases hp2 : w.dirPath d2 with
    | none => right; exact ⟨"EBADF", by simp [predict, hp1, hp2], by simp, by simp⟩
    | some p2 =>
      by_cases hdev : w.device p1 = w.device p2
      · cases hl : w.lookup p1 n1 with
        | none => right; exact ⟨"ENOENT", by simp [predict, hp1, hp2, hdev, hl], by simp, .inl ⟨p1, rfl, hl⟩⟩
        | some f =>
          left
          exact ⟨p1, p2, f, rfl, rfl, hl, by simp [predict, hp1, hp2, hdev, hl], by simp [core, applyOk, hp1, hp2, hl]⟩
      · right; exact ⟨"EXDEV", by simp [predict, hp1, hp2, hdev], by simp, by simp⟩

/-- The world after a successful exclusive create of `n` in `p`. -/
def created (w : World) (p n : Bytes) : World :=
  (((({ w with nextFid := w.nextFid + 1 } : World).setFile w.nextFid { data := [], durable := [] }).bind p n w.nextFid).newHandle
    (.file w.nextFid 0 true)).1

theorem openExcl_cases (w : World) (d : Handle) (n : Bytes) :
    (∃ p, w.dirPath d = some p ∧ w.lookup p n = none ∧ predict w (.openExcl d n) = .ok w.handles.length ∧
        core w (.openExcl d n) (.ok w.handles.length) = created w p n) ∨
    (∃ e, predict w (.openExcl d n) = .err e) := by
  cases hp : w.dirPath d with
  | none => right; exact ⟨"EBADF", by simp [predict, hp]⟩
  | some p =>
    cases hl : w.lookup p n with
    | none => left; exact ⟨p, rfl, hl, by simp [predict, hp, hl], by simp [core, applyOk, hp, hl, created]⟩
    | some f => right; exact ⟨"EEXIST", by simp [predict, hp, hl]⟩

theorem lookup_created (w : World) (p n q m : Bytes) (hd : (w.dir p).isSome) :
    (created w p n).lookup q m = if q = p ∧ m = n then some w.nextFid else w.lookup q m := by
  unfold created
  rw [lookup_newHandle, lookup_bind _ _ _ _ _ _ (by exact hd)]
  rfl

/-! ### the entry table after one predicted call -/

/-- Entries after a predicted call (for calls that do not create or remove directories): the target
of a successful call is bound to `boundBy`, its source is gone, everything else is as before. -/
theorem step_lookup (w : World) (c : Call) (q m : Bytes) (hc : mkDir c = false)
    (hd : ∀ x, callDst w c = some x → (w.dir x.1).isSome) :
    (core w c (predict w c)).lookup q m =
      if isOk (predict w c) = true ∧ callDst w c = some (q, m) then boundBy w c
      else if isOk (predict w c) = true ∧ callSrc w c = some (q, m) then none
      else w.lookup q m := by
  by_cases hop : Call.dirOp c = false
  · have h1 : callDst w c = none := by cases c <;> simp [Call.dirOp] at hop <;> rfl
    have h2 : callSrc w c = none := by cases c <;> simp [Call.dirOp] at hop <;> rfl
    simp only [h1, h2, and_false, if_false, reduceCtorEq]
    exact lookup_of_dirs (core_dirs w c _ hop) q m
  · cases c <;> simp [Call.dirOp] at hop <;> simp [mkDir] at hc
    · -- openExcl
      rename_i d n
      rcases openExcl_cases w d n with ⟨p, hp, hl, hpr, hco⟩ | ⟨e, hpr⟩
      · have hdp : (w.dir p).isSome := hd (p, n) (by simp [callDst, hp])
        rw [hpr, hco, lookup_created w p n q m hdp]
        simp only [isOk, callDst, callSrc, hp, Option.map_some, Option.some.injEq, Prod.mk.injEq, true_and, boundBy,
          and_false, if_false, reduceCtorEq]
        by_cases h : q = p ∧ m = n
        · obtain ⟨rfl, rfl⟩ := h; simp
        · have : ¬ (p = q ∧ n = m) := fun ⟨a, b⟩ => h ⟨a.symm, b.symm⟩
          simp [h, this]
      · rw [hpr, core_err_of_dirOp w _ e rfl]
        simp [isOk]
    · -- renameat
      rename_i d1 n1 d2 n2
      rcases renameat_cases w d1 n1 d2 n2 with ⟨p1, p2, f, hp1, hp2, hl, hpr, hco⟩ | ⟨e, hpr, _, _⟩
      · have hdp : (w.dir p2).isSome := hd (p2, n2) (by simp [callDst, hp2])
        have hdp' : ((w.unbind p1 n1).dir p2).isSome := by rw [dir_unbind_isSome]; exact hdp
        rw [hpr, hco, lookup_bind _ _ _ _ _ _ hdp', lookup_unbind]
        simp only [isOk, callDst, callSrc, hp1, hp2, Option.map_some, Option.some.injEq, Prod.mk.injEq, true_and, boundBy,
          World.lookupE, Option.bind_some, hl]
        by_cases h : q = p2 ∧ m = n2
        · obtain ⟨rfl, rfl⟩ := h; simp
        · have : ¬ (p2 = q ∧ n2 = m) := fun ⟨a, b⟩ => h ⟨a.symm, b.symm⟩
          simp only [h, this, if_false]
          by_cases h' : q = p1 ∧ m = n1
          · obtain ⟨rfl, rfl⟩ := h'; simp
          · have : ¬ (p1 = q ∧ n1 = m) := fun ⟨a, b⟩ => h' ⟨a.symm, b.symm⟩
            simp [h', this]
      · rw [hpr, core_err_of_dirOp w _ e rfl]
        simp [isOk]
    · -- unlinkat
      rename_i d n
      rcases unlinkat_cases w d n with ⟨p, f, hp, hl, hpr, hco⟩ | ⟨_, hpr⟩
      · rw [hpr, hco, lookup_unbind]
        simp only [isOk, callDst, callSrc, hp, Option.map_some, Option.some.injEq, Prod.mk.injEq, true_and,
          and_false, if_false, reduceCtorEq]
        by_cases h : q = p ∧ m = n
        · obtain ⟨rfl, rfl⟩ := h; simp
        · have : ¬ (p = q ∧ n = m) := fun ⟨a, b⟩ => h ⟨a.symm, b.symm⟩
          simp [h, this]
      · rw [hpr, core_err_of_dirOp w _ _ rfl]
        simp [isOk]

end Mdsort.Proofs.Parties
