import Mdsort.Proofs.WorldMtime

/-!
# `maildir_genname` with the real constants, under every fault plan (C09)

`gennameStart` is `genname` with the counter started at `arc4random() % 128` and as many attempts as
the C loop makes.  The C loop is `for (;;)`: it has no retry bound (`Gen.gennameLoopBound = none`,
regenerated from maildir.c), the counter is an `unsigned int` printed with `%u`.  The model makes
`gennameAttempts = 2 ^ 32` attempts - one full cycle of the counter, after which the C code would
try the very same names again - and then returns `none`; this is the only place where model and
code part, and `genname_calls_le` shows what it takes to get there: `2 ^ 32` answers `EEXIST`, each
of them a name that is bound in the directory or a fault injected by the plan.

`genname_run` describes every run completely: `k` attempts answered `EEXIST`, then exactly one of
*gave up* (`k` = the number of attempts: only in the model), *name too long* (ENAMETOOLONG),
*another error*, *created*.
-/

namespace Mdsort.Proofs.World
open Mdsort Mdsort.Model

theorem predict_sameFs {w w' : World} (h : SameFs w w') (c : Call) : predict w' c = predict w c := by
  obtain ⟨tr, rfl⟩ := h
  cases c <;> rfl

theorem faultResult_sameFs {w w' : World} (h : SameFs w w') (f : Option Fault) (c : Call) :
    faultResult f w' c = faultResult f w c := by
  unfold faultResult
  rw [predict_sameFs h]

theorem gennameAttempts_eq : gennameAttempts = 4294967296 := by decide

/-- The C loop has no bound and the counter has 32 bits (both regenerated from maildir.c). -/
theorem genname_loop_real : Gen.gennameLoopBound = none ∧ Gen.gennameCountBits = 32 ∧ Gen.gennameModulus = 128 := by decide

/-- The answer to the `j`-th exclusive create of a `maildir_genname` that starts with counter value
`c0` at call index `i0` in the world `w0` (failed attempts change nothing but the trace). -/
def gennameAnswer (env : PEnv) (flags : Option Bytes) (d : Handle) (plan : Plan) (w0 : World) (i0 c0 j : Nat) : Res :=
  faultResult (plan (i0 + j)) w0 (.openExcl d (cand env flags (c0 + 1 + j)))

/-- The `j`-th candidate name fits `NAME_MAX`. -/
def gennameFits (env : PEnv) (flags : Option Bytes) (c0 j : Nat) : Prop :=
  (cand env flags (c0 + 1 + j)).length < NAME_MAX1

instance (env : PEnv) (flags : Option Bytes) (c0 j : Nat) : Decidable (gennameFits env flags c0 j) := by
  unfold gennameFits; exact inferInstance

/-- How a run of `genname` with `fuel` attempts ended after `k` answers `EEXIST`: the value returned, the
final world and the number of calls issued. -/
inductive GenEnd (env : PEnv) (flags : Option Bytes) (d : Handle) (p : Bytes) (plan : Plan) (w0 : World) (i0 c0 : Nat)
    (fuel k : Nat) (res : Option (Handle × Bytes)) (wf : World) (n : Nat) : Prop where
  /-- all attempts used up (the C loop would go on) or the next name does not fit (ENAMETOOLONG) -/
  | stopped (h : k = fuel ∨ (k < fuel ∧ ¬ gennameFits env flags c0 k)) (hr : res = none) (hs : SameFs w0 wf) (hn : n = k)
  /-- an error other than EEXIST -/
  | failed (hk : k < fuel) (hf : gennameFits env flags c0 k) (e : String) (he : e ≠ "EEXIST")
      (ha : gennameAnswer env flags d plan w0 i0 c0 k = .err e) (hr : res = none) (hs : SameFs w0 wf) (hn : n = k + 1)
  /-- the name was free and has been created -/
  | created (hk : k < fuel) (hf : gennameFits env flags c0 k)
      (ha : gennameAnswer env flags d plan w0 i0 c0 k = .ok w0.handles.length)
      (hl : w0.lookup p (cand env flags (c0 + 1 + k)) = none)
      (hr : res = some (w0.handles.length, cand env flags (c0 + 1 + k)))
      (wk : World) (hs : SameFs w0 wk)
      (hw : wf = stepWorld wk (.openExcl d (cand env flags (c0 + 1 + k))) (.ok wk.handles.length))
      (hn : n = k + 1)

theorem GenEnd.congr {env : PEnv} {flags : Option Bytes} {d : Handle} {p : Bytes} {plan : Plan} {w0 : World} {i0 c0 : Nat}
    {fuel fuel' k : Nat} {res : Option (Handle × Bytes)} {wf : World} {n n' : Nat} (hf : fuel = fuel') (hn : n = n')
    (h : GenEnd env flags d p plan w0 i0 c0 fuel k res wf n) : GenEnd env flags d p plan w0 i0 c0 fuel' k res wf n' := by
  subst hf; subst hn; exact h

/-- Every run of `genname`, under every plan: after `m` attempts, `k - m` more answers `EEXIST`, then the end. -/
theorem genname_run_aux (env : PEnv) (md : Maildir) (flags : Option Bytes) (d : Handle) (p : Bytes) (plan : Plan)
    (hd : md.dirH = some d) (w0 : World) (hp : w0.dirPath d = some p) (i0 c0 : Nat) :
    ∀ (fuel m : Nat) (w : World), SameFs w0 w →
      ∃ k, m ≤ k ∧ k ≤ m + fuel ∧
        (∀ j, m ≤ j → j < k → gennameFits env flags c0 j ∧ gennameAnswer env flags d plan w0 i0 c0 j = .err "EEXIST") ∧
        GenEnd env flags d p plan w0 i0 c0 (m + fuel) k
          (run plan (genname env md flags fuel (c0 + m)) w (i0 + m)).1
          (run plan (genname env md flags fuel (c0 + m)) w (i0 + m)).2.1
          (m + (run plan (genname env md flags fuel (c0 + m)) w (i0 + m)).2.2.2.length) := by
  intro fuel
  induction fuel with
  | zero =>
    intro m w hs
    refine ⟨m, Nat.le_refl _, Nat.le_refl _, fun j h1 h2 => by omega, ?_⟩
    exact .stopped (.inl rfl) rfl hs (by simp [genname, run])
  | succ fuel ih =>
    intro m w hs
    rw [genname_succ]
    by_cases hfit : gennameFits env flags c0 m
    · have hfit' : ¬ ((cand env flags (c0 + m + 1)).length ≥ NAME_MAX1) := by
        unfold gennameFits at hfit
        rw [show c0 + m + 1 = c0 + 1 + m by omega]
        omega
      rw [if_neg hfit']
      simp only [hd]
      have hans : faultResult (plan (i0 + m)) w (.openExcl d (cand env flags (c0 + m + 1))) =
          gennameAnswer env flags d plan w0 i0 c0 m := by
        unfold gennameAnswer
        rw [faultResult_sameFs hs, show c0 + m + 1 = c0 + 1 + m by omega]
      simp only [run]
      rw [hans]
      rcases openExcl_results (plan (i0 + m)) w0 d (cand env flags (c0 + 1 + m)) with ⟨e, he⟩ | ⟨he, p', hp', hl⟩
      · have he' : gennameAnswer env flags d plan w0 i0 c0 m = .err e := he
        rw [he']
        have hs' : SameFs w0 (stepWorld w (.openExcl d (cand env flags (c0 + m + 1))) (.err e)) :=
          hs.trans (sameFs_err w _ e (by intro _ h; cases h) (by intro _ h; cases h) (by intro _ h; cases h))
        by_cases hee : e = "EEXIST"
        · subst hee
          simp only [beq_self_eq_true, if_true]
          obtain ⟨k, h1, h2, h3, hend⟩ := ih (m + 1) _ hs'
          refine ⟨k, by omega, by omega, ?_, ?_⟩
          · intro j hj1 hj2
            by_cases hjm : j = m
            · subst hjm; exact ⟨hfit, he'⟩
            · exact h3 j (by omega) hj2
          · simp only [List.length_cons]
            have hend' : GenEnd env flags d p plan w0 i0 c0 (m + 1 + fuel) k
                (run plan (genname env md flags fuel (c0 + m + 1))
                  (stepWorld w (.openExcl d (cand env flags (c0 + m + 1))) (.err "EEXIST")) (i0 + m + 1)).1
                (run plan (genname env md flags fuel (c0 + m + 1))
                  (stepWorld w (.openExcl d (cand env flags (c0 + m + 1))) (.err "EEXIST")) (i0 + m + 1)).2.1
                (m + 1 + (run plan (genname env md flags fuel (c0 + m + 1))
                  (stepWorld w (.openExcl d (cand env flags (c0 + m + 1))) (.err "EEXIST")) (i0 + m + 1)).2.2.2.length) := hend
            exact hend'.congr (by omega) (by omega)
        · have hne : (e == "EEXIST") = false := by simpa using hee
          simp only [hne, Bool.false_eq_true, if_false]
          refine ⟨m, Nat.le_refl _, by omega, fun j h1 h2 => by omega, ?_⟩
          exact .failed (by omega) hfit e hee he' rfl hs' (by simp [run])
      · have he' : gennameAnswer env flags d plan w0 i0 c0 m = .ok w0.handles.length := he
        rw [he']
        have hpp : p' = p := by rw [hp] at hp'; cases hp'; rfl
        subst hpp
        refine ⟨m, Nat.le_refl _, by omega, fun j h1 h2 => by omega, ?_⟩
        refine .created (by omega) hfit he' hl ?_ w hs ?_ (by simp [run])
        · simp only [run]
          rw [show c0 + m + 1 = c0 + 1 + m by omega]
        · simp only [run]
          rw [hs.handles, show c0 + m + 1 = c0 + 1 + m by omega]
    · have hfit' : (cand env flags (c0 + m + 1)).length ≥ NAME_MAX1 := by
        unfold gennameFits at hfit
        rw [show c0 + m + 1 = c0 + 1 + m by omega]
        omega
      rw [if_pos hfit']
      refine ⟨m, Nat.le_refl _, by omega, fun j h1 h2 => by omega, ?_⟩
      exact .stopped (.inr ⟨by omega, hfit⟩) rfl hs (by simp [run])

/-- `genname_run_aux` from the start (`m = 0`). -/
theorem genname_run (env : PEnv) (md : Maildir) (flags : Option Bytes) (d : Handle) (p : Bytes) (plan : Plan)
    (hd : md.dirH = some d) (w : World) (hp : w.dirPath d = some p) (i c0 fuel : Nat) :
    ∃ k, k ≤ fuel ∧
      (∀ j, j < k → gennameFits env flags c0 j ∧ gennameAnswer env flags d plan w i c0 j = .err "EEXIST") ∧
      GenEnd env flags d p plan w i c0 fuel k (run plan (genname env md flags fuel c0) w i).1
        (run plan (genname env md flags fuel c0) w i).2.1 (run plan (genname env md flags fuel c0) w i).2.2.2.length := by
  obtain ⟨k, -, h2, h3, hend⟩ := genname_run_aux env md flags d p plan hd w hp i c0 fuel 0 w (SameFs.refl w)
  simp only [Nat.add_zero, Nat.zero_add] at hend h2
  exact ⟨k, h2, fun j hj => h3 j (Nat.zero_le _) hj, hend⟩

/-! ## counting: an answer `EEXIST` is a bound name or an injected fault -/

theorem nodup_subset_length {α} [DecidableEq α] : ∀ (l1 l2 : List α), l1.Nodup → (∀ x ∈ l1, x ∈ l2) → l1.length ≤ l2.length := by
  intro l1
  induction l1 with
  | nil => intro l2 _ _; exact Nat.zero_le _
  | cons a t ih =>
    intro l2 hn hs
    obtain ⟨ha, ht⟩ := List.nodup_cons.1 hn
    have hmem : a ∈ l2 := hs a (List.mem_cons_self ..)
    have := ih (l2.erase a) ht (fun x hx => (List.mem_erase_of_ne (by intro e; subst e; exact ha hx)).2 (hs x (List.mem_cons_of_mem _ hx)))
    rw [List.length_erase_of_mem hmem] at this
    have hpos : 0 < l2.length := List.length_pos_of_mem hmem
    simp only [List.length_cons]
    omega

/-- Among fewer than `2 ^ 32` consecutive candidates at most `|es|` are bound in a directory with entries `es`. -/
theorem bound_candidates_le (env : PEnv) (flags : Option Bytes) (c0 : Nat) {w : World} {p : Bytes} {es : List (Bytes × Nat)}
    (hd : w.dir p = some es) (k : Nat) (hk : k ≤ gennameWrap) :
    ((List.range k).filter fun j => (w.lookup p (cand env flags (c0 + 1 + j))).isSome).length ≤ es.length := by
  have hn : (((List.range k).filter fun j => (w.lookup p (cand env flags (c0 + 1 + j))).isSome).map
      fun j => cand env flags (c0 + 1 + j)).Nodup := by
    unfold List.Nodup
    rw [List.pairwise_map]
    refine List.Pairwise.imp_of_mem ?_ (List.Pairwise.filter _ List.nodup_range)
    intro a b ha hb hab hc
    have ha' := List.mem_range.1 (List.mem_filter.1 ha).1
    have hb' := List.mem_range.1 (List.mem_filter.1 hb).1
    have := cand_inj hc
    rw [gennameWrap_eq] at this hk
    omega
  have := nodup_subset_length _ (es.map (·.1)) hn (by
    intro x hx
    obtain ⟨j, hj, rfl⟩ := List.mem_map.1 hx
    exact mem_names_of_lookup hd (List.mem_filter.1 hj).2)
  simpa using this

theorem le_count_or (k : Nat) (P Q : Nat → Bool) (h : ∀ j, j < k → P j = true ∨ Q j = true) :
    k ≤ ((List.range k).filter P).length + ((List.range k).filter Q).length := by
  induction k with
  | zero => exact Nat.zero_le _
  | succ k ih =>
    have := ih (fun j hj => h j (by omega))
    rw [List.range_succ, List.filter_append, List.filter_append, List.length_append, List.length_append]
    rcases h k (by omega) with hp | hq
    · simp only [List.filter_cons, hp, if_true, List.filter_nil, List.length_cons, List.length_nil]
      omega
    · simp only [List.filter_cons, hq, if_true, List.filter_nil, List.length_cons, List.length_nil]
      omega

/-- Number of calls with index `i .. i + n - 1` at which the plan injects something. -/
def faultsIn (plan : Plan) (i n : Nat) : Nat := ((List.range n).filter fun j => (plan (i + j)).isSome).length

theorem faultsIn_none (i n : Nat) : faultsIn Plan.none i n = 0 := by
  unfold faultsIn Plan.none
  simp

theorem faultsIn_mono (plan : Plan) (i : Nat) {a b : Nat} (h : a ≤ b) : faultsIn plan i a ≤ faultsIn plan i b := by
  unfold faultsIn
  rw [← List.countP_eq_length_filter, ← List.countP_eq_length_filter]
  exact List.Sublist.countP_le (List.range_sublist.2 h)

/-- An answer `EEXIST` that the plan did not inject is a name bound in the directory. -/
theorem eexist_genuine {w : World} {d : Handle} {p n : Bytes} (hp : w.dirPath d = some p) (f : Option Fault)
    (h : faultResult f w (.openExcl d n) = .err "EEXIST") : f.isSome = true ∨ (w.lookup p n).isSome = true := by
  cases f with
  | some _ => exact .inl rfl
  | none =>
    right
    cases hl : w.lookup p n with
    | some _ => rfl
    | none =>
      have : faultResult none w (.openExcl d n) = .ok w.handles.length := predict_openExcl_free hp hl
      rw [this] at h
      cases h

/-- The retries: `k` answers `EEXIST` among the first `2 ^ 32` candidates need `k` bound names or injected faults. -/
theorem genname_retries_le (env : PEnv) (flags : Option Bytes) (d : Handle) (p : Bytes) (plan : Plan) (w : World)
    (hp : w.dirPath d = some p) {es : List (Bytes × Nat)} (hes : w.dir p = some es) (i c0 k : Nat) (hk : k ≤ gennameWrap)
    (h : ∀ j, j < k → gennameAnswer env flags d plan w i c0 j = .err "EEXIST") :
    k ≤ es.length + faultsIn plan i k := by
  have h1 := le_count_or k (fun j => (w.lookup p (cand env flags (c0 + 1 + j))).isSome) (fun j => (plan (i + j)).isSome)
    (fun j hj => (eexist_genuine hp _ (h j hj)).symm)
  have h2 := bound_candidates_le env flags c0 hes k hk
  unfold faultsIn
  omega

/-! ## the statements of Props/C09 about `gennameStart` -/

/-- The counter value `maildir_genname` starts from: `arc4random() % 128`. -/
def gennameCount0 (env : PEnv) : Nat := env.random % Gen.gennameModulus

/-- Why `maildir_genname` gives up after `k` answers `EEXIST`. -/
def GivesUpAt (env : PEnv) (flags : Option Bytes) (d : Handle) (plan : Plan) (w : World) (i k : Nat) : Prop :=
  k = gennameAttempts ∨
  (k < gennameAttempts ∧ ¬ gennameFits env flags (gennameCount0 env) k) ∨
  (k < gennameAttempts ∧ gennameFits env flags (gennameCount0 env) k ∧
    ∃ e, e ≠ "EEXIST" ∧ gennameAnswer env flags d plan w i (gennameCount0 env) k = .err e)

/-- The first `k` attempts fit and are answered `EEXIST`. -/
def RetriedTo (env : PEnv) (flags : Option Bytes) (d : Handle) (plan : Plan) (w : World) (i k : Nat) : Prop :=
  ∀ j, j < k → gennameFits env flags (gennameCount0 env) j ∧
    gennameAnswer env flags d plan w i (gennameCount0 env) j = .err "EEXIST"

theorem genname_real_success (env : PEnv) (md : Maildir) (flags : Option Bytes) (w : World) (plan : Plan) (i : Nat)
    (hist : List World) (d : Handle) (p : Bytes) (hd : md.dirH = some d) (hp : w.dirPath d = some p) (hdir : (w.dir p).isSome)
    (h : Handle) (name : Bytes) (hres : (runPlan plan (gennameStart env md flags) w i hist).1 = some (h, name)) :
    (∃ k, k < gennameAttempts ∧ RetriedTo env flags d plan w i k ∧ name = cand env flags (gennameCount0 env + 1 + k) ∧
      name.length < NAME_MAX1) ∧
    w.lookup p name = none ∧ h = w.handles.length ∧
    (runPlan plan (gennameStart env md flags) w i hist).2.1.lookup p name = some w.nextFid ∧
    (runPlan plan (gennameStart env md flags) w i hist).2.1.file w.nextFid = some ⟨[], []⟩ ∧
    (runPlan plan (gennameStart env md flags) w i hist).2.1.obj h = .file w.nextFid 0 true ∧
    (∀ q m fid, w.lookup q m = some fid → (runPlan plan (gennameStart env md flags) w i hist).2.1.lookup q m = some fid) ∧
    (∀ g, g ≠ w.nextFid → (runPlan plan (gennameStart env md flags) w i hist).2.1.file g = w.file g) ∧
    (∀ q, ((runPlan plan (gennameStart env md flags) w i hist).2.1.dir q).isSome = (w.dir q).isSome) ∧
    (runPlan plan (gennameStart env md flags) w i hist).2.1.mtimes = w.mtimes := by
  rw [runPlan_eq] at hres ⊢
  unfold gennameStart at hres ⊢
  obtain ⟨k, hk, hret, hend⟩ := genname_run env md flags d p plan hd w hp i (env.random % Gen.gennameModulus) gennameAttempts
  cases hend with
  | stopped _ hr _ _ => rw [hr] at hres; cases hres
  | failed _ _ _ _ _ hr _ _ => rw [hr] at hres; cases hres
  | created hk' hf ha hl hr wk hs hw hn =>
    rw [hr] at hres
    cases hres
    dsimp only
    rw [hw]
    have cr := created_of_openExcl (by rw [hs.dirPath]; exact hp) (by rw [hs.lookup]; exact hl)
    refine ⟨⟨k, hk', hret, rfl, hf⟩, hl, rfl, ?_, ?_, ?_, ?_, ?_, ?_, ?_⟩
    · rw [cr.bound (by rw [hs.dir]; exact hdir), hs.nextFid]
    · rw [← hs.nextFid]; exact cr.newFile
    · rw [← hs.nextFid, ← hs.handles]; exact cr.fd
    · intro q m fid hb
      rw [cr.look q m (by rintro ⟨rfl, rfl⟩; rw [hl] at hb; cases hb), hs.lookup]
      exact hb
    · intro g hg
      rw [cr.file g (by rw [hs.nextFid]; exact hg), hs.file]
    · intro q
      rw [cr.dir q, hs.dir]
    · rw [cr.mtimes, hs.mtimes]

theorem genname_real_gives_up_iff (env : PEnv) (md : Maildir) (flags : Option Bytes) (w : World) (plan : Plan) (i : Nat)
    (hist : List World) (d : Handle) (p : Bytes) (hd : md.dirH = some d) (hp : w.dirPath d = some p) :
    (runPlan plan (gennameStart env md flags) w i hist).1 = none ↔
      ∃ k, k ≤ gennameAttempts ∧ RetriedTo env flags d plan w i k ∧ GivesUpAt env flags d plan w i k := by
  rw [runPlan_eq]
  unfold gennameStart
  obtain ⟨k, hk, hret, hend⟩ := genname_run env md flags d p plan hd w hp i (env.random % Gen.gennameModulus) gennameAttempts
  constructor
  · intro hnone
    refine ⟨k, hk, hret, ?_⟩
    cases hend with
    | stopped h _ _ _ => exact h.imp id .inl
    | failed hk' hf e he ha _ _ _ => exact .inr (.inr ⟨hk', hf, e, he, ha⟩)
    | created _ _ _ _ hr _ _ _ _ => dsimp only at hnone; rw [hr] at hnone; cases hnone
  · rintro ⟨k', hk', hret', hup⟩
    -- the number of retries is determined
    have hkk : k = k' := by
      rcases Nat.lt_trichotomy k k' with hlt | heq | hgt
      · exfalso
        obtain ⟨hf, ha⟩ := hret' k hlt
        cases hend with
        | stopped h _ _ _ =>
          rcases h with h | ⟨_, h⟩
          · omega
          · exact h hf
        | failed _ _ e he ha' _ _ _ =>
          have : gennameAnswer env flags d plan w i (gennameCount0 env) k = .err e := ha'
          rw [this] at ha; cases ha; exact he rfl
        | created _ _ ha' _ _ _ _ _ _ =>
          have : gennameAnswer env flags d plan w i (gennameCount0 env) k = .ok w.handles.length := ha'
          rw [this] at ha; cases ha
      · exact heq
      · exfalso
        obtain ⟨hf, ha⟩ := hret k' hgt
        rcases hup with h | ⟨_, h⟩ | ⟨_, _, e, he, ha'⟩
        · omega
        · exact h hf
        · have : gennameAnswer env flags d plan w i (gennameCount0 env) k' = .err "EEXIST" := ha
          rw [this] at ha'; cases ha'; exact he rfl
    subst hkk
    cases hend with
    | stopped _ hr _ _ => exact hr
    | failed _ _ _ _ _ hr _ _ => exact hr
    | created hk'' hf ha _ _ _ _ _ _ =>
      exfalso
      have ha0 : gennameAnswer env flags d plan w i (gennameCount0 env) k = .ok w.handles.length := ha
      rcases hup with h | ⟨_, h⟩ | ⟨_, _, e, _, ha'⟩
      · omega
      · exact h hf
      · rw [ha0] at ha'; cases ha'

/-- Without faults an answer is `EEXIST` iff the candidate is bound, and no other error occurs. -/
theorem gennameAnswer_nofault (env : PEnv) (flags : Option Bytes) (d : Handle) (p : Bytes) (w : World) (hp : w.dirPath d = some p)
    (plan : Plan) (i c0 j : Nat) (hpl : plan (i + j) = none) :
    gennameAnswer env flags d plan w i c0 j =
      if (w.lookup p (cand env flags (c0 + 1 + j))).isSome then .err "EEXIST" else .ok w.handles.length := by
  unfold gennameAnswer
  rw [hpl]
  cases hl : w.lookup p (cand env flags (c0 + 1 + j)) with
  | none => exact predict_openExcl_free hp hl
  | some fid => exact predict_openExcl_exists hp hl

theorem genname_real_calls (env : PEnv) (md : Maildir) (flags : Option Bytes) (w : World) (plan : Plan) (i : Nat)
    (hist : List World) (d : Handle) (p : Bytes) (es : List (Bytes × Nat)) (hd : md.dirH = some d)
    (hp : w.dirPath d = some p) (hes : w.dir p = some es) :
    let n := (runPlan plan (gennameStart env md flags) w i hist).2.2.length - hist.length
    n ≤ gennameAttempts ∧ n ≤ es.length + faultsIn plan i n + 1 := by
  intro n
  have hn : n = (run plan (gennameStart env md flags) w i).2.2.2.length := by
    simp only [n, runPlan_eq, List.length_append]
    omega
  rw [hn]
  unfold gennameStart
  obtain ⟨k, hk, hret, hend⟩ := genname_run env md flags d p plan hd w hp i (env.random % Gen.gennameModulus) gennameAttempts
  have hW : gennameAttempts = gennameWrap := by decide
  have hle := genname_retries_le env flags d p plan w hp hes i (env.random % Gen.gennameModulus) k (hW ▸ hk)
    (fun j hj => (hret j hj).2)
  cases hend with
  | stopped _ _ _ hn' => rw [hn']; exact ⟨hk, by omega⟩
  | failed hk' _ _ _ _ _ _ hn' =>
    rw [hn']
    have := faultsIn_mono plan i (show k ≤ k + 1 from Nat.le_succ k)
    exact ⟨hk', by omega⟩
  | created hk' _ _ _ _ _ _ _ hn' =>
    rw [hn']
    have := faultsIn_mono plan i (show k ≤ k + 1 from Nat.le_succ k)
    exact ⟨hk', by omega⟩

/-- `maildir_genname` issues exclusive creates in its directory and nothing else. -/
theorem calls_genname (env : PEnv) (md : Maildir) (flags : Option Bytes) (d : Handle) (hd : md.dirH = some d) (fuel count : Nat) :
    Calls (fun c => ∃ n, c = .openExcl d n) (genname env md flags fuel count) := by
  induction fuel generalizing count with
  | zero => exact trivial
  | succ fuel ih =>
    rw [genname_succ]
    split
    · exact trivial
    · simp only [hd]
      refine ⟨⟨_, rfl⟩, fun r => ?_⟩
      cases r with
      | ok h => exact trivial
      | err e =>
        dsimp only
        split
        · exact ih _
        · exact trivial
      | name _ => exact trivial
      | eof => exact trivial

/-! ## examples: the world of `C09Ex` (`b` holds `1.2_1.h:2,`), `arc4random() % 128 = 0` -/

namespace C09Ex

/-- `1.2_3.h:2,` -/
def cand3 : Bytes := [49, 46, 50, 95, 51, 46, 104, 58, 50, 44]

/-- `maildir_genname` with the real constants in `b`. -/
def genReal (e : PEnv) (plan : Plan) : Option (Handle × Bytes) × World × List World :=
  runPlan plan (gennameStart e dst (some [58, 50, 44])) (world []) 0 []

/-- The second `openat` (of the free name `1.2_2.h:2,`) is answered `err`. -/
def secondFails (err : String) : Plan := fun i => if i = 1 then some (.fail err) else none

/-- A host name of 250 bytes: no candidate fits `NAME_MAX`. -/
def longHost : PEnv := { env with host := List.replicate 250 104 }

end C09Ex

end Mdsort.Proofs.World
