import Mdsort.Proofs.WorldFuelConform
import Mdsort.Proofs.WorldDryF21

/-!
# The standard fuel can run out - and then the flag says so

`/m/new` holds seven files the registry does not list (the registry of `mainP` is a parameter; `WholeReg` only asks that
what IS registered be there).  The walk gets fuel `2·0 + 8`: `.`, `..` and six names use it up; the seventh name is never
seen and `/m/cur` is never opened.  Before package p12 this run ended like a complete one; now `fuelOut` is set (and the
conformance check reports it).  With a ghost allowance of 5 more iterations (13 = 9 names + end of `new` + `.`, `..`, end of `cur`) the same run ends without the flag - and then,
by `fuel_irrelevant_plan`, it is the run for every larger allowance.
-/

namespace Mdsort.Proofs
open Mdsort Mdsort.Model

def fuelExWorld : World :=
  { dirs := [(exNew, [([49], 0), ([50], 1), ([51], 2), ([52], 3), ([53], 4), ([54], 5), ([55], 6)]), (exCur, [])],
    files := [(0, ⟨[], []⟩), (1, ⟨[], []⟩), (2, ⟨[], []⟩), (3, ⟨[], []⟩), (4, ⟨[], []⟩), (5, ⟨[], []⟩), (6, ⟨[], []⟩)],
    nextFid := 7, handles := [.other, .other, .other], devs := [], trace := [] }

theorem fuelEx_reg : WholeReg fuelExWorld [] := by
  intro dir name c h
  cases h

set_option maxRecDepth 100000 in
/-- Standard fuel: the walk is truncated, and flagged.  Five more iterations: complete, not flagged. -/
theorem fuelEx_runs :
    (runPlan Plan.none (mainP exEnv wholeExOrc true dry_f21Conf [] []) fuelExWorld 0 []).1.2.fuelOut = true ∧
    (runPlan Plan.none (mainP (Fuel.withFuel exEnv 5) wholeExOrc true dry_f21Conf [] []) fuelExWorld 0 []).1.2.fuelOut = false := by
  rw [(dry_runNone_eq (mainP exEnv wholeExOrc true dry_f21Conf [] []) fuelExWorld 0 []).1,
    (dry_runNone_eq (mainP (Fuel.withFuel exEnv 5) wholeExOrc true dry_f21Conf [] []) fuelExWorld 0 []).1,
    Own.mainP_eq, Own.mainP_eq]
  unfold Own.mainK
  simp only [dry_f21Conf, Own.blocks_cons, Own.blocks_nil, Own.paths_cons, Own.paths_nil, dry_walk_G, dry_f21Expr, eval]
  decide +kernel

end Mdsort.Proofs
