import Mdsort.Model.L0.Basic

/-!
# L0 primitives: safety and their list-level meaning

`HasNul b i`: some NUL lies at or after index `i` inside the object.  Under it every `<string.h>` primitive
returns `.ok` and its result is described on `b.view i` (the list the L1 models work on).
-/

namespace Mdsort.L0
open Mdsort

@[simp] theorem bind_ok {α β} (a : α) (f : α → M β) : (Except.ok a >>= f) = f a := rfl
@[simp] theorem bind_error {α β} (e : Fault) (f : α → M β) : ((Except.error e : M α) >>= f) = .error e := rfl
@[simp] theorem pure_eq {α} (a : α) : (pure a : M α) = .ok a := rfl

namespace Buf

/-- Some NUL lies at or after `i`, inside the object. -/
def HasNul (b : Buf) (i : Nat) : Prop := ∃ k, i ≤ k ∧ b.get? k = .ok 0

theorem get?_of_lt {b : Buf} {i : Nat} (h : i < b.size) : b.get? i = .ok (b.bytes[i]'h) := by
  unfold get?; unfold size at h; simp [h]

theorem get?_eq_ok_iff {b : Buf} {i : Nat} {c : UInt8} :
    b.get? i = .ok c ↔ ∃ h : i < b.bytes.size, b.bytes[i] = c := by
  unfold get?
  split
  · rename_i h; simp [h]
  · rename_i h; simp [h]

theorem HasNul.lt {b : Buf} {i : Nat} (h : b.HasNul i) : i < b.size := by
  obtain ⟨k, hk, hg⟩ := h
  have := lt_of_get? hg
  omega

theorem HasNul.mono {b : Buf} {i j : Nat} (h : b.HasNul j) (hij : i ≤ j) : b.HasNul i := by
  obtain ⟨k, hk, hg⟩ := h
  exact ⟨k, by omega, hg⟩

theorem HasNul.succ {b : Buf} {i : Nat} {c : UInt8} (h : b.HasNul i) (hg : b.get? i = .ok c) (hc : c ≠ 0) :
    b.HasNul (i + 1) := by
  obtain ⟨k, hk, hk0⟩ := h
  refine ⟨k, ?_, hk0⟩
  rcases Nat.lt_or_ge i k with h1 | h1
  · omega
  · have : k = i := by omega
    subst this
    rw [hg] at hk0
    cases hk0
    exact absurd rfl hc

theorem Terminated.size_pos {b : Buf} (h : b.Terminated) : 0 < b.size := by
  unfold Terminated at h
  unfold size
  rcases Nat.eq_zero_or_pos b.bytes.size with h0 | h0
  · have : b.bytes = #[] := Array.eq_empty_of_size_eq_zero h0
    rw [this] at h; simp at h
  · exact h0

theorem Terminated.last {b : Buf} (h : b.Terminated) : b.get? (b.size - 1) = .ok 0 := by
  have hp := h.size_pos
  unfold Terminated at h
  rw [Array.back?_eq_getElem?] at h
  rw [get?_eq_ok_iff]
  unfold size at hp ⊢
  refine ⟨by omega, ?_⟩
  rw [Array.getElem?_eq_getElem (by omega)] at h
  exact Option.some.inj h

/-- A terminated buffer has a NUL at or after every index inside it. -/
theorem Terminated.hasNul {b : Buf} (h : b.Terminated) {i : Nat} (hi : i < b.size) : b.HasNul i :=
  ⟨b.size - 1, by omega, h.last⟩

theorem Terminated.hasNul0 {b : Buf} (h : b.Terminated) : b.HasNul 0 := h.hasNul h.size_pos

theorem ofBytes_terminated (s : Bytes) : (ofBytes s).Terminated := by
  unfold Terminated ofBytes
  simp

/-- The view from an index inside the object, one byte at a time. -/
theorem view_of_get? {b : Buf} {i : Nat} {c : UInt8} (hg : b.get? i = .ok c) :
    b.view i = if c = 0 then [] else c :: b.view (i + 1) := by
  obtain ⟨hi, hc⟩ := get?_eq_ok_iff.mp hg
  unfold view
  have hl : i < b.bytes.toList.length := by simpa using hi
  rw [List.drop_eq_getElem_cons hl]
  have : b.bytes.toList[i] = c := by simpa using hc
  rw [this]
  unfold cstr
  by_cases h0 : c = 0
  · simp [h0]
  · simp [h0]

theorem view_nul {b : Buf} {i : Nat} (hg : b.get? i = .ok 0) : b.view i = [] := by
  rw [view_of_get? hg]; simp

theorem view_cons {b : Buf} {i : Nat} {c : UInt8} (hg : b.get? i = .ok c) (hc : c ≠ 0) :
    b.view i = c :: b.view (i + 1) := by
  rw [view_of_get? hg]; simp [hc]

theorem view_no_nul (b : Buf) (i : Nat) : ∀ x ∈ b.view i, x ≠ 0 := cstr_no_nul _

/-- The two cases of every read under `HasNul`. -/
theorem HasNul.cases {b : Buf} {i : Nat} (h : b.HasNul i) :
    (b.get? i = .ok 0 ∧ b.view i = []) ∨
    (∃ c, c ≠ 0 ∧ b.get? i = .ok c ∧ b.view i = c :: b.view (i + 1) ∧ b.HasNul (i + 1)) := by
  have hg := get?_of_lt h.lt
  by_cases h0 : b.bytes[i]'h.lt = 0
  · left
    rw [h0] at hg
    exact ⟨hg, view_nul hg⟩
  · right
    exact ⟨_, h0, hg, view_cons hg h0, h.succ hg h0⟩

/-- Pointer arithmetic inside the string. -/
theorem HasNul.add {b : Buf} {i : Nat} (h : b.HasNul i) :
    ∀ k, k ≤ (b.view i).length → b.HasNul (i + k) ∧ b.view (i + k) = (b.view i).drop k := by
  intro k
  induction k with
  | zero => intro _; exact ⟨h, by simp⟩
  | succ k ih =>
    intro hk
    obtain ⟨hn, hv⟩ := ih (by omega)
    rcases hn.cases with ⟨_, he⟩ | ⟨c, hc, hg, hcons, hn'⟩
    · rw [he] at hv
      have : ((b.view i).drop k).length = 0 := by rw [← hv]; rfl
      simp at this; omega
    · refine ⟨by simpa [Nat.add_assoc] using hn', ?_⟩
      have : b.view (i + (k + 1)) = (b.view (i + k)).drop 1 := by
        rw [hcons]; simp [Nat.add_assoc]
      rw [this, hv]; simp

/-- The terminator is where the view ends. -/
theorem HasNul.get?_end {b : Buf} {i : Nat} (h : b.HasNul i) : b.get? (i + (b.view i).length) = .ok 0 := by
  obtain ⟨hn, hv⟩ := h.add (b.view i).length (Nat.le_refl _)
  rcases hn.cases with ⟨h0, _⟩ | ⟨c, _, _, hcons, _⟩
  · exact h0
  · rw [hcons] at hv; simp at hv

/-- Every byte of the view is read where it is. -/
theorem HasNul.get?_view {b : Buf} {i : Nat} (h : b.HasNul i) (k : Nat) (hk : k < (b.view i).length) :
    b.get? (i + k) = .ok ((b.view i)[k]) := by
  obtain ⟨hn, hv⟩ := h.add k (by omega)
  rcases hn.cases with ⟨_, he⟩ | ⟨c, _, hg, hcons, _⟩
  · rw [he] at hv
    have : ((b.view i).drop k).length = 0 := by rw [← hv]; rfl
    simp at this; omega
  · rw [hg]
    rw [hcons] at hv
    have : (List.drop k (b.view i))[0]? = some c := by rw [← hv]; rfl
    rw [List.getElem?_drop] at this
    simp at this
    rw [List.getElem?_eq_getElem hk] at this
    cases this; rfl

/-- The view of a terminated buffer built from a byte string. -/
theorem view_ofBytes (s : Bytes) : (ofBytes s).view 0 = cstr s := by
  unfold view ofBytes cstr
  simp
  induction s with
  | nil => simp
  | cons x r ih =>
    by_cases hx : x = 0
    · simp [hx]
    · simp [hx, ih]

theorem view_ofBytes_of_no_nul {s : Bytes} (h : ∀ x ∈ s, x ≠ 0) : (ofBytes s).view 0 = s := by
  rw [view_ofBytes, cstr_of_no_nul h]

theorem size_ofBytes (s : Bytes) : (ofBytes s).size = s.length + 1 := by
  simp [ofBytes, size]

/-! ### writes -/

theorem size_of_set {b b' : Buf} {i : Nat} {v : UInt8} (h : b.set i v = .ok b') : b'.size = b.size := by
  unfold set at h
  split at h
  · cases h; simp [size]
  · cases h

theorem set_ok {b : Buf} {i : Nat} (v : UInt8) (h : i < b.size) : b.set i v = .ok ⟨b.bytes.setIfInBounds i v⟩ := by
  unfold set; unfold size at h; simp [h]

theorem get?_set {b b' : Buf} {i : Nat} {v : UInt8} (h : b.set i v = .ok b') (j : Nat) :
    b'.get? j = if j = i then .ok v else b.get? j := by
  unfold set at h
  split at h
  · rename_i hi
    cases h
    unfold get?
    by_cases hj : j = i
    · subst hj; simp [hi]
    · simp only [hj, if_false, Array.size_setIfInBounds]
      split
      · rename_i hjs
        rw [Array.getElem_setIfInBounds (by simpa using hjs)]
        simp [Ne.symm hj]
      · rfl
  · cases h

theorem terminated_of_set_nul {b b' : Buf} {i : Nat} (ht : b.Terminated) (h : b.set i 0 = .ok b') : b'.Terminated := by
  have hs := size_of_set h
  have hl := ht.last
  have hp := ht.size_pos
  have hg := get?_set h (b.size - 1)
  have hlast : b'.get? (b'.size - 1) = .ok 0 := by
    rw [hs, hg]; split
    · rfl
    · exact hl
  obtain ⟨hlt, hv⟩ := get?_eq_ok_iff.mp hlast
  unfold Terminated
  rw [Array.back?_eq_getElem?]
  unfold size at hv hlt
  rw [Array.getElem?_eq_getElem hlt, hv]

theorem terminated_of_set {b b' : Buf} {i : Nat} {v : UInt8} (ht : b.Terminated) (hi : i + 1 < b.size)
    (h : b.set i v = .ok b') : b'.Terminated := by
  have hs := size_of_set h
  have hl := ht.last
  have hg := get?_set h (b.size - 1)
  have hlast : b'.get? (b'.size - 1) = .ok 0 := by
    rw [hs, hg]; split
    · omega
    · exact hl
  obtain ⟨hlt, hv⟩ := get?_eq_ok_iff.mp hlast
  unfold Terminated
  rw [Array.back?_eq_getElem?]
  unfold size at hv hlt
  rw [Array.getElem?_eq_getElem hlt, hv]

end Buf

open Buf

/-! ### the primitives -/

/-! Unfolding equations of the loops once the byte read is known. -/

theorem strend_eq {b : Buf} {i : Nat} {c : UInt8} (hg : b.get? i = .ok c) :
    strend b i = if c == 0 then .ok i else strend b (i + 1) := by
  rw [strend]; split <;> simp_all

theorem strchr_eq {b : Buf} {i : Nat} {x : UInt8} (c : UInt8) (hg : b.get? i = .ok x) :
    strchr b i c = if x == c then .ok (some i) else if x == 0 then .ok none else strchr b (i + 1) c := by
  rw [strchr]; split <;> simp_all

theorem strstr_eq {b : Buf} {i : Nat} {c : UInt8} (lit : Bytes) (hg : b.get? i = .ok c) :
    strstr b i lit = match startsWithLit b i lit with
      | .error e => .error e
      | .ok true => .ok (some i)
      | .ok false => if c == 0 then .ok none else strstr b (i + 1) lit := by
  rw [strstr]; split
  · rename_i e he; rw [hg] at he; cases he
  · rename_i c' hc'; rw [hg] at hc'; cases hc'; rfl

theorem skipBlanks_eq {b : Buf} {i : Nat} {c : UInt8} (hg : b.get? i = .ok c) :
    skipBlanks b i = if isblank c then skipBlanks b (i + 1) else .ok i := by
  rw [skipBlanks]; split <;> simp_all

theorem readCStr_eq {b : Buf} {i : Nat} {c : UInt8} (acc : Bytes) (hg : b.get? i = .ok c) :
    readCStr b i acc = if c == 0 then .ok acc else readCStr b (i + 1) (acc ++ [c]) := by
  rw [readCStr]; split <;> simp_all

theorem strend_spec {b : Buf} {i : Nat} (h : b.HasNul i) : strend b i = .ok (i + (b.view i).length) := by
  generalize hn : b.size - i = n
  induction n using Nat.strongRecOn generalizing i with
  | _ n ih =>
    have := h.lt
    rcases h.cases with ⟨hg, hv⟩ | ⟨c, hc, hg, hv, hn'⟩
    · rw [strend_eq hg]; simp [hv]
    · rw [strend_eq hg]
      simp only [beq_iff_eq, hc, if_false]
      rw [ih (b.size - (i + 1)) (by omega) hn' rfl, hv]
      simp; omega

theorem strlen_spec {b : Buf} {i : Nat} (h : b.HasNul i) : strlen b i = .ok (b.view i).length := by
  unfold strlen; rw [strend_spec h]; simp

/-- `strchr` in terms of the list function. -/
theorem strchr_spec {b : Buf} {i : Nat} (h : b.HasNul i) (c : UInt8) (hc : c ≠ 0) :
    (Mdsort.strchr (b.view i) c = none → strchr b i c = .ok none) ∧
    (∀ q, Mdsort.strchr (b.view i) c = some q →
      ∃ j, strchr b i c = .ok (some j) ∧ i ≤ j ∧ b.HasNul j ∧ b.view j = q ∧ b.get? j = .ok c) := by
  generalize hn : b.size - i = n
  induction n using Nat.strongRecOn generalizing i with
  | _ n ih =>
    have := h.lt
    rcases h.cases with ⟨hg, hv⟩ | ⟨x, hx, hg, hv, hn'⟩
    · rw [strchr_eq c hg, hv]
      have : (0 : UInt8) ≠ c := fun h => hc h.symm
      simp [Mdsort.strchr, this]
    · rw [strchr_eq c hg, hv]
      simp only [Mdsort.strchr]
      by_cases hxc : x = c
      · subst hxc
        simp only [beq_self_eq_true, if_true]
        refine ⟨by simp, ?_⟩
        intro q hq
        cases hq
        exact ⟨i, rfl, Nat.le_refl _, h, hv, hg⟩
      · simp only [beq_iff_eq, hxc, hx, if_false]
        obtain ⟨h1, h2⟩ := ih (b.size - (i + 1)) (by omega) hn' rfl
        refine ⟨h1, ?_⟩
        intro q hq
        obtain ⟨j, e1, e2, e3⟩ := h2 q hq
        exact ⟨j, e1, by omega, e3⟩

theorem strncmpEq_spec {a p : Buf} (n : Nat) : ∀ {i j : Nat}, a.HasNul i → p.HasNul j →
    strncmpEq a i p j n = .ok (decide ((a.view i).take n = (p.view j).take n)) := by
  induction n with
  | zero => intro i j _ _; simp [strncmpEq]
  | succ n ih =>
    intro i j ha hp
    rw [strncmpEq]
    rcases ha.cases with ⟨hga, hva⟩ | ⟨x, hx, hga, hva, ha'⟩ <;>
    rcases hp.cases with ⟨hgp, hvp⟩ | ⟨y, hy, hgp, hvp, hp'⟩
    · simp [hga, hgp, hva, hvp]
    · simp only [hga, hgp, hva, hvp]
      have : (0 : UInt8) ≠ y := fun h => hy h.symm
      simp [this]
    · simp only [hga, hgp, hva, hvp]
      simp [hx]
    · simp only [hga, hgp, hva, hvp]
      by_cases hxy : x = y
      · subst hxy
        simp only [bne_self_eq_false, Bool.false_eq_true, if_false, beq_iff_eq, hx]
        rw [ih ha' hp']
        simp
      · simp [hxy]

theorem startsWithLit_spec {b : Buf} {i : Nat} (h : b.HasNul i) (lit : Bytes) (hl : ∀ x ∈ lit, x ≠ 0) :
    startsWithLit b i lit = .ok (startsWith (b.view i) lit) := by
  unfold startsWithLit
  rw [strncmpEq_spec _ h (ofBytes_terminated lit).hasNul0, view_ofBytes_of_no_nul hl]
  congr 1
  simp only [List.take_length, startsWith]
  rw [Bool.eq_iff_iff]
  simp only [decide_eq_true_eq, List.isPrefixOf_iff_prefix]
  constructor
  · intro h; rw [← h]; exact List.take_prefix _ _
  · intro h; exact (List.prefix_iff_eq_take.mp h).symm

/-- `strstr` for a non-empty literal in terms of `findSub`. -/
theorem strstr_spec {b : Buf} {i : Nat} (h : b.HasNul i) (lit : Bytes) (hl : ∀ x ∈ lit, x ≠ 0) (hne : lit ≠ []) :
    strstr b i lit = .ok ((findSub lit (b.view i)).map (i + ·)) := by
  generalize hn : b.size - i = n
  induction n using Nat.strongRecOn generalizing i with
  | _ n ih =>
    have hsw := startsWithLit_spec h lit hl
    have := h.lt
    have hemp : lit.isEmpty = false := by cases lit <;> simp_all
    rcases h.cases with ⟨hg, hv⟩ | ⟨x, hx, hg, hv, hn'⟩
    · rw [strstr_eq lit hg, hsw, hv]
      have : startsWith [] lit = false := by
        cases lit with
        | nil => exact absurd rfl hne
        | cons a r => simp [startsWith]
      rw [this]
      simp [findSub, hemp]
    · rw [strstr_eq lit hg, hsw, hv]
      simp only [findSub, startsWith]
      by_cases hp : lit.isPrefixOf (x :: b.view (i + 1)) = true
      · simp [hp]
      · simp only [hp, beq_iff_eq, hx, if_false, Bool.false_eq_true]
        rw [ih (b.size - (i + 1)) (by omega) hn' rfl]
        cases findSub lit (b.view (i + 1)) with
        | none => simp
        | some k => simp; omega

theorem skipBlanks_spec {b : Buf} {i : Nat} (h : b.HasNul i) :
    skipBlanks b i = .ok (i + Mdsort.nspaces (b.view i)) := by
  generalize hn : b.size - i = n
  induction n using Nat.strongRecOn generalizing i with
  | _ n ih =>
    have := h.lt
    rcases h.cases with ⟨hg, hv⟩ | ⟨x, hx, hg, hv, hn'⟩
    · rw [skipBlanks_eq hg]
      simp [hv, Mdsort.nspaces, isblank]
    · rw [skipBlanks_eq hg, hv]
      by_cases hb : isblank x = true
      · simp only [hb, if_true]
        rw [ih (b.size - (i + 1)) (by omega) hn' rfl]
        simp [Mdsort.nspaces, hb]; omega
      · simp [hb, Mdsort.nspaces]

theorem nspaces_spec {b : Buf} {i : Nat} (h : b.HasNul i) : nspaces b i = .ok (Mdsort.nspaces (b.view i)) := by
  unfold nspaces; rw [skipBlanks_spec h]; simp

theorem nspaces_le (s : Bytes) : Mdsort.nspaces s ≤ s.length := by
  unfold Mdsort.nspaces; exact (List.takeWhile_prefix _).length_le

theorem readCStr_spec {b : Buf} {i : Nat} (h : b.HasNul i) (acc : Bytes) :
    readCStr b i acc = .ok (acc ++ b.view i) := by
  generalize hn : b.size - i = n
  induction n using Nat.strongRecOn generalizing i acc with
  | _ n ih =>
    have := h.lt
    rcases h.cases with ⟨hg, hv⟩ | ⟨x, hx, hg, hv, hn'⟩
    · rw [readCStr_eq acc hg]; simp [hv]
    · rw [readCStr_eq acc hg]
      simp only [beq_iff_eq, hx, if_false]
      rw [ih (b.size - (i + 1)) (by omega) hn' _ rfl, hv]
      simp

/-- `strchr` as an index into the view. -/
theorem strchr_idx {b : Buf} {i : Nat} (h : b.HasNul i) (c : UInt8) (hc : c ≠ 0) :
    strchr b i c = .ok (((b.view i).idxOf? c).map (i + ·)) := by
  generalize hn : b.size - i = n
  induction n using Nat.strongRecOn generalizing i with
  | _ n ih =>
    have := h.lt
    rcases h.cases with ⟨hg, hv⟩ | ⟨x, hx, hg, hv, hn'⟩
    · rw [strchr_eq c hg, hv]
      have : (0 : UInt8) ≠ c := fun h => hc h.symm
      simp [this]
    · rw [strchr_eq c hg, hv, List.idxOf?_cons]
      by_cases hxc : x = c
      · simp [hxc]
      · simp only [beq_iff_eq, hxc, hx, if_false]
        rw [ih (b.size - (i + 1)) (by omega) hn' rfl]
        cases (b.view (i + 1)).idxOf? c with
        | none => simp
        | some k => simp; omega

/-! ### slices and copies -/

namespace Buf

theorem slice_eq (b : Buf) (i j : Nat) : b.slice i j = (b.bytes.toList.take j).drop i := by
  simp [slice, Array.toList_extract, List.drop_take]

theorem slice_self (b : Buf) (i : Nat) : b.slice i i = [] := by
  rw [slice_eq]; simp

theorem length_slice {b : Buf} {i j : Nat} (hj : j ≤ b.size) : (b.slice i j).length = j - i := by
  rw [slice_eq]; unfold size at hj; simp; omega

theorem slice_cons {b : Buf} {i j : Nat} {c : UInt8} (hg : b.get? i = .ok c) (hij : i < j) :
    b.slice i j = c :: b.slice (i + 1) j := by
  obtain ⟨hi, hc⟩ := get?_eq_ok_iff.mp hg
  rw [slice_eq, slice_eq]
  have hl : i < (b.bytes.toList.take j).length := by simp; omega
  rw [List.drop_eq_getElem_cons hl]
  congr 1
  simp [← hc]

theorem slice_snoc {b : Buf} {k : Nat} {c : UInt8} (hg : b.get? k = .ok c) :
    b.slice 0 (k + 1) = b.slice 0 k ++ [c] := by
  obtain ⟨hi, hc⟩ := get?_eq_ok_iff.mp hg
  rw [slice_eq, slice_eq]
  simp only [List.drop_zero]
  rw [List.take_succ_eq_append_getElem (by simpa using hi)]
  simp [← hc]

theorem slice_of_set {b b' : Buf} {k j : Nat} {v : UInt8} (h : b.set k v = .ok b') (hj : j ≤ k) :
    b'.slice 0 j = b.slice 0 j := by
  unfold set at h
  split at h
  · cases h
    rw [slice_eq, slice_eq]
    simp only [Array.toList_setIfInBounds, List.drop_zero]
    exact List.take_set_of_le hj
  · cases h

/-- The view as a slice. -/
theorem HasNul.slice_view {b : Buf} {i : Nat} (h : b.HasNul i) :
    ∀ k, k ≤ (b.view i).length → b.slice i (i + k) = (b.view i).take k := by
  intro k
  induction k generalizing i with
  | zero => intro _; simp [slice_self]
  | succ k ih =>
    intro hk
    rcases h.cases with ⟨_, hv⟩ | ⟨c, hc, hg, hv, hn'⟩
    · rw [hv] at hk; simp at hk
    · rw [slice_cons hg (by omega), hv]
      have := ih hn' (by rw [hv] at hk; simpa using hk)
      rw [show i + (k + 1) = i + 1 + k by omega, this]
      simp

theorem cstr_append_nul (a r : Bytes) (ha : ∀ x ∈ a, x ≠ 0) : cstr (a ++ 0 :: r) = a := by
  induction a with
  | nil => simp [cstr]
  | cons x t ih =>
    have hx : x ≠ 0 := ha x (by simp)
    have := ih (fun y hy => ha y (by simp [hy]))
    unfold cstr at this ⊢
    simp [hx, this]

theorem cstr_append_nul' (a r : Bytes) : cstr (a ++ 0 :: r) = cstr a := by
  induction a with
  | nil => simp [cstr]
  | cons x t ih =>
    unfold cstr at ih ⊢
    by_cases hx : x = 0
    · simp [hx]
    · simp [hx, ih]

/-- A NUL at `n` ends the view from 0 there. -/
theorem view_of_nul_at {b : Buf} {n : Nat} (hg : b.get? n = .ok 0) : b.view 0 = cstr (b.slice 0 n) := by
  obtain ⟨hi, hc⟩ := get?_eq_ok_iff.mp hg
  unfold view
  rw [slice_eq]
  simp only [List.drop_zero]
  have hl : n < b.bytes.toList.length := by simpa using hi
  conv => lhs; rw [← List.take_append_drop n b.bytes.toList, List.drop_eq_getElem_cons hl]
  have : b.bytes.toList[n] = 0 := by simpa using hc
  rw [this, cstr_append_nul']

theorem toList_ofBytes (s : Bytes) : (ofBytes s).bytes.toList = s ++ [0] := by simp [ofBytes]

theorem eq_of_toList {a b : Buf} (h : a.bytes.toList = b.bytes.toList) : a = b := by
  cases a; cases b; simp only [mk.injEq]; exact Array.toList_inj.mp h

end Buf

theorem strnlen_spec {b : Buf} (n : Nat) : ∀ {i : Nat}, b.HasNul i →
    strnlen b i n = .ok (min n (b.view i).length) := by
  induction n with
  | zero => intro i _; simp [strnlen]
  | succ n ih =>
    intro i h
    rw [strnlen]
    rcases h.cases with ⟨hg, hv⟩ | ⟨x, hx, hg, hv, hn'⟩
    · simp [hg, hv]
    · simp only [hg, hv, beq_iff_eq, hx, if_false, ih hn']
      simp

/-- The copy loop writes the first `m` bytes of the view at `dst[k..]`, nothing else. -/
theorem copyN_spec {src : Buf} (m : Nat) : ∀ {i : Nat} {dst : Buf} {k : Nat}, src.HasNul i →
    m ≤ (src.view i).length → k + m ≤ dst.size →
    ∃ dst', copyN src i dst k m = .ok (dst', k + m) ∧
      dst'.bytes.toList = dst.bytes.toList.take k ++ (src.view i).take m ++ dst.bytes.toList.drop (k + m) := by
  induction m with
  | zero =>
    intro i dst k _ _ _
    exact ⟨dst, by simp [copyN], by simp⟩
  | succ m ih =>
    intro i dst k h hm hk
    rw [copyN]
    rcases h.cases with ⟨hg, hv⟩ | ⟨x, hx, hg, hv, hn'⟩
    · rw [hv] at hm; simp at hm
    · have hset := Buf.set_ok (b := dst) x (show k < dst.size by omega)
      simp only [hg, beq_iff_eq, hx, if_false, hset]
      have hm' : m ≤ (src.view (i + 1)).length := by rw [hv] at hm; simpa using hm
      obtain ⟨d', h1, h2⟩ := ih (dst := ⟨dst.bytes.setIfInBounds k x⟩) (k := k + 1) hn' hm'
        (by simp [Buf.size] at hk ⊢; omega)
      refine ⟨d', by rw [h1]; congr 2; omega, ?_⟩
      rw [h2, hv]
      simp only [Array.toList_setIfInBounds, List.take_succ_cons]
      have hkl : k < dst.bytes.toList.length := by simp [Buf.size] at hk ⊢; omega
      have e1 : List.take (k + 1) (dst.bytes.toList.set k x) = List.take k dst.bytes.toList ++ [x] := by
        rw [List.take_succ_eq_append_getElem (by simpa using hkl)]
        simp [List.take_set_of_le]
      have e2 : List.drop (k + 1 + m) (dst.bytes.toList.set k x) = List.drop (k + (m + 1)) dst.bytes.toList := by
        rw [List.drop_set_of_lt (by omega)]; congr 1; omega
      rw [e1, e2]; simp

theorem malloc_size (n : Nat) : (Buf.malloc n).size = n := by simp [Buf.malloc, Buf.size]

/-- `strndup` hands out exactly the C string of the first `n` bytes. -/
theorem strndup_spec {s : Buf} {i : Nat} (h : s.HasNul i) (n : Nat) :
    strndup s i n = .ok (Buf.ofBytes ((s.view i).take n)) := by
  unfold strndup
  rw [strnlen_spec n h]
  simp only [bind_ok]
  obtain ⟨d, h1, h2⟩ := copyN_spec (src := s) (min n (s.view i).length) (i := i)
    (dst := Buf.malloc (min n (s.view i).length + 1)) (k := 0) h (Nat.min_le_right _ _)
    (by rw [malloc_size]; omega)
  simp only [Nat.zero_add] at h1
  rw [h1]
  simp only [bind_ok]
  have hsz : d.size = min n (s.view i).length + 1 := by
    have := congrArg List.length h2
    simp [Buf.malloc] at this
    simp [Buf.size]; omega
  rw [Buf.set_ok 0 (by omega)]
  congr 1
  apply Buf.eq_of_toList
  rw [Buf.toList_ofBytes]
  simp only [Array.toList_setIfInBounds, h2, List.take_zero, List.nil_append, Nat.zero_add]
  have htk : List.take (min n (s.view i).length) (s.view i) = List.take n (s.view i) := by
    rw [List.take_eq_take_iff]; simp
  rw [htk]
  have hlen : (List.take n (s.view i)).length = min n (s.view i).length := by simp
  have hd : (List.drop (min n (s.view i).length) (Buf.malloc (min n (s.view i).length + 1)).bytes.toList) = [0xAA] := by
    simp [Buf.malloc]
  rw [hd, List.set_append_right _ _ (by omega)]
  simp [hlen]

theorem strdup_spec {s : Buf} {i : Nat} (h : s.HasNul i) : strdup s i = .ok (Buf.ofBytes (s.view i)) := by
  have := strndup_spec h (s.view i).length
  unfold strndup at this
  rw [strnlen_spec _ h] at this
  unfold strdup
  rw [strlen_spec h]
  simp only [Nat.min_self, List.take_length] at this
  exact this

end Mdsort.L0
