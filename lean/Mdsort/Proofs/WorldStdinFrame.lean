import Mdsort.Proofs.WorldStdinMain

/-! Frames for the action scripts when the spool of a stdin run is watched: which directories
exist, the names in one directory, and the discipline "a script only acts through handles it
opened itself". -/

namespace Mdsort.Proofs.World
open Mdsort Mdsort.Model

/-! ## which directories exist -/

/-- Calls that create or remove a directory. -/
def Call.mkrm : Call → Bool
  | .mkdtemp _ | .mkdir _ | .rmdir _ => true
  | _ => false

theorem core_dir_isSome_eq (w : World) (c : Call) (r : Res) (p : Bytes) (hc : Call.mkrm c = false) :
    ((core w c r).dir p).isSome = (w.dir p).isSome := by
  unfold core applyOk
  split <;> (try simp only [Call.mkrm] at hc) <;>
    repeat' (first
      | rfl
      | contradiction
      | (apply getD_bind_P (P := fun w' => (w'.dir p).isSome = (w.dir p).isSome) rfl; intro _ _)
      | (apply getD_map_P (P := fun w' => (w'.dir p).isSome = (w.dir p).isSome) rfl; intro _ _)
      | (simp [dir_bind_isSome, dir_unbind_isSome]; done)
      | (simp [dir_applyWrite]; done)
      | (show (((World.newHandle (World.bind (World.setFile _ _ _) _ _ _) _).1).dir p).isSome = _
         simp only [dir_newHandle, dir_bind_isSome, dir_setFile]; rfl)
      | split
      | (show (((if _ then _ else _ : Option World).getD w).dir p).isSome = _))

/-! ## explicit directory contents after bind / the three directory operations -/

theorem dir_bind (w : World) (p n q : Bytes) (fid : Nat) :
    (w.bind p n fid).dir q =
      if q = p then (w.dir p).map (fun es => es.filter (·.1 != n) ++ [(n, fid)]) else w.dir q := by
  unfold World.bind
  cases hd : w.dir p with
  | none => by_cases hq : q = p <;> simp [hq, hd]
  | some es =>
    simp only [dir_setDir, hd]
    by_cases hq : q = p <;> simp [hq]

theorem core_unlinkat_okS {w : World} {d : Handle} {n p : Bytes} {fid : Nat} (hp : w.dirPath d = some p)
    (hl : w.lookup p n = some fid) (v : Nat) : core w (.unlinkat d n) (.ok v) = w.unbind p n := by
  simp [core, applyOk, hp, hl]

theorem unlinkat_results (f : Option Fault) (w : World) (d : Handle) (n : Bytes) :
    (∃ e, faultResult f w (.unlinkat d n) = .err e) ∨
    (faultResult f w (.unlinkat d n) = .ok 0 ∧ ∃ p fid, w.dirPath d = some p ∧ w.lookup p n = some fid) := by
  rcases faultResult_cases f w (.unlinkat d n) (by intro _ h; cases h) (by intro _ _ h; cases h) with h | h
  · rw [h]
    cases hx : (w.dirPath d).bind (fun p => w.lookup p n) with
    | none => exact .inl ⟨"ENOENT", by simp only [predict, hx]⟩
    | some fid =>
      refine .inr ⟨by simp only [predict, hx], ?_⟩
      cases hp : w.dirPath d with
      | none => simp [hp] at hx
      | some p => exact ⟨p, fid, rfl, by simpa [hp] using hx⟩
  · exact .inl h

/-! ## the names in one directory -/

/-- Directory `sp` exists, its names are distinct and all among `ns`. -/
def NamesIn (w : World) (sp : Bytes) (ns : List Bytes) : Prop :=
  ∃ es, w.dir sp = some es ∧ (es.map (·.1)).Nodup ∧ ∀ e ∈ es, e.1 ∈ ns

theorem NamesIn.congr {w w' : World} {sp : Bytes} {ns : List Bytes} (h : NamesIn w sp ns) (hd : w'.dir sp = w.dir sp) :
    NamesIn w' sp ns := by
  obtain ⟨es, h1, h2, h3⟩ := h
  exact ⟨es, hd.trans h1, h2, h3⟩

theorem NamesIn.mono {w : World} {sp : Bytes} {ns ns' : List Bytes} (h : NamesIn w sp ns) (hs : ∀ n ∈ ns, n ∈ ns') :
    NamesIn w sp ns' := by
  obtain ⟨es, h1, h2, h3⟩ := h
  exact ⟨es, h1, h2, fun e he => hs _ (h3 e he)⟩

theorem nodup_filter_append {es : List (Bytes × Nat)} (h : (es.map (·.1)).Nodup) (n : Bytes) (fid : Nat) :
    ((es.filter (·.1 != n) ++ [(n, fid)]).map (·.1)).Nodup := by
  rw [List.map_append, List.nodup_append]
  refine ⟨(List.filter_sublist.map _).nodup h, by simp, ?_⟩
  intro a ha b hb
  simp only [List.map_cons, List.map_nil, List.mem_singleton] at hb
  subst hb
  simp only [List.mem_map, List.mem_filter] at ha
  obtain ⟨e, ⟨_, he⟩, rfl⟩ := ha
  simpa using he

theorem NamesIn.bind {w : World} {sp : Bytes} {ns : List Bytes} (h : NamesIn w sp ns) (p n : Bytes) (fid : Nat) :
    NamesIn (w.bind p n fid) sp (n :: ns) := by
  obtain ⟨es, h1, h2, h3⟩ := h
  by_cases hp : sp = p
  · subst hp
    refine ⟨es.filter (·.1 != n) ++ [(n, fid)], by simp [dir_bind, h1], nodup_filter_append h2 n fid, ?_⟩
    intro e he
    rcases List.mem_append.1 he with he | he
    · exact List.mem_cons_of_mem _ (h3 e (List.mem_filter.1 he).1)
    · simp only [List.mem_singleton] at he
      subst he
      exact List.mem_cons_self ..
  · exact ⟨es, by simp [dir_bind, hp, h1], h2, fun e he => List.mem_cons_of_mem _ (h3 e he)⟩

theorem NamesIn.unbind {w : World} {sp : Bytes} {ns : List Bytes} (h : NamesIn w sp ns) (p n : Bytes) :
    NamesIn (w.unbind p n) sp (if p = sp then ns.filter (· != n) else ns) := by
  obtain ⟨es, h1, h2, h3⟩ := h
  by_cases hp : p = sp
  · subst hp
    refine ⟨es.filter (·.1 != n), by simp [dir_unbind, h1], (List.filter_sublist.map _).nodup h2, ?_⟩
    intro e he
    obtain ⟨he1, he2⟩ := List.mem_filter.1 he
    simp only [if_true]
    exact List.mem_filter.2 ⟨h3 e he1, he2⟩
  · have : ¬ sp = p := fun e => hp e.symm
    exact ⟨es, by simp [dir_unbind, this, h1], h2, by simpa [hp] using h3⟩

theorem NamesIn.unbind' {w : World} {sp : Bytes} {ns : List Bytes} (h : NamesIn w sp ns) (p n : Bytes) :
    NamesIn (w.unbind p n) sp ns :=
  (h.unbind p n).mono (by
    intro x hx
    split at hx
    · exact (List.mem_filter.1 hx).1
    · exact hx)

theorem nodup_len1 {l : List Bytes} {a : Bytes} (hn : l.Nodup) (h : ∀ x ∈ l, x = a) : l.length ≤ 1 := by
  match l, hn, h with
  | [], _, _ => simp
  | [_], _, _ => simp
  | x :: y :: t, hn, h =>
    exfalso
    have hx := h x (by simp)
    have hy := h y (by simp)
    subst hx hy
    simp at hn

theorem nodup_len2 {l : List Bytes} {a b : Bytes} (hn : l.Nodup) (h : ∀ x ∈ l, x = a ∨ x = b) : l.length ≤ 2 := by
  match l, hn, h with
  | [], _, _ => simp
  | [_], _, _ => simp
  | [_, _], _, _ => simp
  | x :: y :: z :: t, hn, h =>
    exfalso
    have hx := h x (by simp)
    have hy := h y (by simp)
    have hz := h z (by simp)
    simp only [List.nodup_cons, List.mem_cons, not_or] at hn
    rcases hx with rfl | rfl <;> rcases hy with rfl | rfl <;> rcases hz with rfl | rfl <;> simp_all

theorem NamesIn.length_le2 {w : World} {sp a b : Bytes} (h : NamesIn w sp [a, b]) :
    ∃ es, w.dir sp = some es ∧ es.length ≤ 2 ∧ ∀ e ∈ es, e.1 = a ∨ e.1 = b := by
  obtain ⟨es, h1, h2, h3⟩ := h
  refine ⟨es, h1, ?_, fun e he => by simpa using h3 e he⟩
  have := nodup_len2 (a := a) (b := b) h2 (by
    intro x hx
    obtain ⟨e, he, rfl⟩ := List.mem_map.1 hx
    simpa using h3 e he)
  simpa using this

/-! ## scripts that act only through handles they opened themselves -/

/-- Calls that return a new handle. -/
def Call.opener : Call → Bool
  | .opendir _ | .openRd .. | .openExcl .. | .openPath _ | .fopen _ | .dupfd _ | .mkostemp _ => true
  | _ => false

/-- No directory operation; every handle the program acts on is `≥ N`, provided the handles it
is handed by `open`-like calls are; the value returned satisfies `Q`. -/
def Fresh {α} (N : Nat) : Prog α → (α → Prop) → Prop
  | .ret a, Q => Q a
  | .call c k, Q => Call.dirOp c = false ∧ (∀ h, Call.subject c = some h → N ≤ h) ∧
      ∀ r, (Call.opener c = true → ∀ v, r = .ok v → N ≤ v) → Fresh N (k r) Q

theorem Fresh.bind {α β} {N : Nat} {p : Prog α} {f : α → Prog β} {R : α → Prop} {Q : β → Prop}
    (hp : Fresh N p R) (hf : ∀ a, R a → Fresh N (f a) Q) : Fresh N (p.bind f) Q := by
  induction p with
  | ret a => exact hf a hp
  | call c k ih => exact ⟨hp.1, hp.2.1, fun r hr => ih r (hp.2.2 r hr)⟩

theorem Fresh.mono {α} {N : Nat} {p : Prog α} {Q Q' : α → Prop} (hp : Fresh N p Q) (h : ∀ a, Q a → Q' a) :
    Fresh N p Q' := by
  induction p with
  | ret a => exact h a hp
  | call c k ih => exact ⟨hp.1, hp.2.1, fun r hr => ih r (hp.2.2 r hr)⟩

theorem Fresh.call {α} {N : Nat} {c : Call} {k : Res → Prog α} {Q : α → Prop} (h1 : Call.dirOp c = false)
    (h2 : ∀ h, Call.subject c = some h → N ≤ h)
    (h3 : ∀ r, (Call.opener c = true → ∀ v, r = .ok v → N ≤ v) → Fresh N (k r) Q) : Fresh N (.call c k) Q :=
  ⟨h1, h2, h3⟩

theorem opener_result (f : Option Fault) (w : World) (c : Call) (v : Nat) (ho : Call.opener c = true)
    (h : faultResult f w c = .ok v) : v = w.handles.length := by
  rcases faultResult_cases f w c (by intro _ e; subst e; cases ho) (by intro _ _ e; subst e; cases ho) with h' | ⟨e, h'⟩
  · rw [h'] at h
    cases c <;> (first | (cases ho; done) | skip) <;> simp only [predict] at h
    all_goals (first | (cases h; rfl) | skip)
    all_goals (split at h <;> first | (cases h; rfl) | cases h | skip)
    all_goals (split at h <;> first | (cases h; rfl) | cases h)
  · rw [h'] at h; cases h

/-- What a fresh-only script leaves alone: the directories, every handle below `N`. -/
theorem Fresh.wp {α} {N : Nat} {p : Prog α} {Q : α → Prop} (h : Fresh N p Q) {w : World} (hN : N ≤ w.handles.length) :
    wp (fun _ => True) p
      (fun a w' => Q a ∧ w'.dirs = w.dirs ∧ (∀ x, x < N → w'.obj x = w.obj x) ∧ w.handles.length ≤ w'.handles.length) w := by
  induction p generalizing w with
  | ret a => exact ⟨h, rfl, fun _ _ => rfl, Nat.le_refl _⟩
  | call c k ih =>
    intro f
    refine ⟨trivial, ?_⟩
    have hlen : w.handles.length ≤ (stepWorld w c (faultResult f w c)).handles.length := by
      rw [stepWorld_handles]; exact core_len w c _
    have hk := h.2.2 (faultResult f w c) (by
      intro ho v hv
      rw [opener_result f w c v ho hv]; exact hN)
    refine wp_mono (ih _ hk (Nat.le_trans hN hlen)) ?_
    rintro a w' ⟨hq, hd, ho, hl⟩
    refine ⟨hq, ?_, ?_, Nat.le_trans hlen hl⟩
    · rw [hd, stepWorld_dirs]; exact core_dirs w c _ h.1
    · intro x hx
      rw [ho x hx, stepWorld_obj]
      apply core_obj w c _ x (Nat.lt_of_lt_of_le hx hN)
      intro hs
      have := h.2.1 x hs
      omega

theorem wp_and {α} {I : World → Prop} {p : Prog α} {Q1 Q2 : α → World → Prop} {w : World}
    (h1 : wp I p Q1 w) (h2 : wp I p Q2 w) : wp I p (fun a w' => Q1 a w' ∧ Q2 a w') w := by
  induction p generalizing w with
  | ret a => exact ⟨h1, h2⟩
  | call c k ih => intro f; exact ⟨(h1 f).1, ih _ (h1 f).2 (h2 f).2⟩

theorem wp_true {α} {I : World → Prop} {p : Prog α} {Q : α → World → Prop} {w : World}
    (h : wp I p Q w) : wp (fun _ => True) p Q w :=
  wp_inv_mono h (fun _ _ => trivial)

end Mdsort.Proofs.World
