import Mdsort.Proofs.WorldWholeExec
import Mdsort.Proofs.WorldSingle

/-!
# `message_parse` under EVERY fault plan: nothing changes but one new read-only descriptor

`start_of_parse`: a successful parse of a bound, complete file leads to a world that satisfies
`Start` / `StartAt` with `orig` = the content of the file.
-/

namespace Mdsort.Proofs.World
set_option linter.unusedSimpArgs false
open Mdsort Mdsort.Model

/-- An object through which nothing can be written. -/
def WholeNonW (o : Obj) : Prop := (∀ fid off, o ≠ .file fid off true) ∧ ∀ fid buf, o ≠ .stream fid buf

/-- The footprint of the parse phase relative to `w`: directories, files, ids and older handles are
the same; the handles created since cannot be written through. -/
structure WholePF (w w' : World) : Prop where
  dirs : w'.dirs = w.dirs
  files : w'.files = w.files
  nextFid : w'.nextFid = w.nextFid
  objs : ∀ h, h < w.handles.length → w'.obj h = w.obj h
  len : w.handles.length ≤ w'.handles.length
  noW : ∀ h, w.handles.length ≤ h → WholeNonW (w'.obj h)

theorem WholePF.refl (w : World) : WholePF w w := by
  refine ⟨rfl, rfl, rfl, fun _ _ => rfl, Nat.le_refl _, ?_⟩
  intro h hh
  rw [obj_of_ge w h hh]
  exact ⟨(by intro _ _ h; cases h), (by intro _ _ h; cases h)⟩

theorem WholePF.trace {w w1 : World} (pf : WholePF w w1) (tr : List (Call × Res)) : WholePF w { w1 with trace := tr } :=
  ⟨pf.dirs, pf.files, pf.nextFid, pf.objs, pf.len, pf.noW⟩

theorem WholePF.step_of_core {w w1 X : World} {c : Call} {r : Res} (h : core w1 c r = X) (hX : WholePF w X) :
    WholePF w (stepWorld w1 c r) := by
  have : stepWorld w1 c r = { X with trace := X.trace ++ [(c, r)] } := by
    rw [← h]; rfl
  rw [this]; exact hX.trace _

theorem WholePF.setObj {w w1 : World} (pf : WholePF w w1) {fd : Handle} {o : Obj} (hfd : w.handles.length ≤ fd) (ho : WholeNonW o) :
    WholePF w (w1.setObj fd o) := by
  refine ⟨pf.dirs, pf.files, pf.nextFid, ?_, ?_, ?_⟩
  · intro h hh
    rw [obj_setObj]
    have : ¬ (h = fd ∧ fd < w1.handles.length) := by intro hc; omega
    simp only [this, if_false]
    exact pf.objs h hh
  · rw [len_setObj]; exact pf.len
  · intro h hh
    rw [obj_setObj]
    split
    · exact ho
    · exact pf.noW h hh

theorem WholePF.newHandle {w w1 : World} (pf : WholePF w w1) {o : Obj} (ho : WholeNonW o) :
    WholePF w (w1.newHandle o).1 := by
  refine ⟨pf.dirs, pf.files, pf.nextFid, ?_, ?_, ?_⟩
  · intro h hh
    rw [obj_newHandle]
    have : h ≠ w1.handles.length := by have := pf.len; omega
    simp only [this, if_false]
    exact pf.objs h hh
  · rw [len_newHandle]; exact Nat.le_succ_of_le pf.len
  · intro h hh
    rw [obj_newHandle]
    split
    · exact ho
    · exact pf.noW h hh

theorem whole_file_of_files {w w' : World} (h : w'.files = w.files) (g : Nat) : w'.file g = w.file g := by
  unfold World.file; rw [h]

/-- The parse footprint is a frame. -/
theorem WholePF.toK {w w' : World} (pf : WholePF w w') (a : Ent) : WholeK a w.handles.length w w' := by
  refine ⟨?_, ?_, Nat.le_of_eq pf.nextFid.symm, pf.objs, pf.len, ?_, Nat.le_refl _⟩
  · intro x fid _ h
    unfold lk
    rw [lookup_of_dirs pf.dirs]; exact h
  · intro g _; exact whole_file_of_files pf.files g
  · intro q hq; rw [dir_of_dirs pf.dirs q]; exact hq

/-- What a `read` does to the world. -/
theorem whole_core_read {w : World} {fd : Handle} {fid off : Nat} {wr : Bool} (ho : w.obj fd = .file fid off wr) (r : Res) :
    core w (.read fd) r = w ∨ ∃ n, core w (.read fd) r = w.setObj fd (.file fid (off + n) wr) := by
  unfold core
  cases r with
  | ok n =>
    have : applyOk w (.read fd) (.ok n) = (w.file fid).bind fun f =>
        if off + n ≤ f.data.length && (n > 0 || off == f.data.length) then some (w.setObj fd (.file fid (off + n) wr))
        else none := by
      simp only [applyOk, ho]
    rw [this]
    cases w.file fid with
    | none => left; rfl
    | some f =>
      simp only [Option.bind_some]
      split
      · right; exact ⟨n, rfl⟩
      · left; rfl
  | err e => left; rfl
  | name _ => left; rfl
  | eof => left; rfl

theorem whole_nonW_ro (fid off : Nat) : WholeNonW (.file fid off false) :=
  ⟨(by intro _ _ h; cases h), (by intro _ _ h; cases h)⟩

theorem whole_nonW_closed : WholeNonW .closed :=
  ⟨(by intro _ _ h; cases h), (by intro _ _ h; cases h)⟩

theorem whole_readAll (fd : Handle) (fid : Nat) {w : World} (hfd : w.handles.length ≤ fd) (fuel : Nat) {w1 : World} {off : Nat}
    (pf : WholePF w w1) (ho : w1.obj fd = .file fid off false) :
    wp (WholePF w) (readAll fd fuel) (fun _ w' => WholePF w w' ∧ ∃ off', w'.obj fd = .file fid off' false) w1 := by
  induction fuel generalizing w1 off with
  | zero => exact ⟨pf, off, ho⟩
  | succ fuel ih =>
    unfold readAll
    simp only [bind_eq, pure_eq, call_bind]
    refine wp_call_any fun r => ?_
    have hlt : fd < w1.handles.length := lt_of_obj_ne_closed w1 fd (by rw [ho]; intro h; cases h)
    have key : WholePF w (stepWorld w1 (.read fd) r) ∧ ∃ off', (stepWorld w1 (.read fd) r).obj fd = .file fid off' false := by
      rcases whole_core_read ho r with hc | ⟨n, hc⟩
      · exact ⟨WholePF.step_of_core hc pf, off, by rw [stepWorld_obj, hc]; exact ho⟩
      · refine ⟨WholePF.step_of_core hc (pf.setObj hfd (whole_nonW_ro _ _)), off + n, ?_⟩
        rw [stepWorld_obj, hc, obj_setObj]
        simp [hlt]
    obtain ⟨pf1, off1, ho1⟩ := key
    refine ⟨pf1, ?_⟩
    split
    · split
      · exact ⟨pf1, off1, ho1⟩
      · exact ih pf1 ho1
    · exact ⟨pf1, off1, ho1⟩

/-- `message_parse` of a bound name under every fault plan. -/
theorem whole_messageParseP (d : Handle) (dir name content : Bytes) {w : World} {fid : Nat}
    (hp : w.dirPath d = some dir) (hl : w.lookup dir name = some fid) :
    wp (WholePF w) (messageParseP d dir name content)
      (fun r w' => WholePF w w' ∧ ∀ ms, r = some ms →
        ms.name = name ∧ ms.loc = some (dir, name) ∧ ms.content = content ∧ ms.fd = some w.handles.length ∧
        w.handles.length < w'.handles.length ∧ ms.msg = parseMessage content) w := by
  unfold messageParseP
  simp only [bind_eq, pure_eq, call_bind]
  intro ft
  rcases whole_openRd_results ft w d name with ⟨e, he⟩ | ⟨he, -⟩
  · rw [he]
    have pf1 : WholePF w (stepWorld w (.openRd d name) (.err e)) :=
      WholePF.step_of_core (core_err w _ e (by intro _ h; cases h) (by intro _ h; cases h) (by intro _ h; cases h)) (WholePF.refl w)
    exact ⟨pf1, pf1, by intro _ h; cases h⟩
  · rw [he]
    have hc := core_openRd_ok hp hl w.handles.length
    have pf1 : WholePF w (stepWorld w (.openRd d name) (.ok w.handles.length)) :=
      WholePF.step_of_core hc ((WholePF.refl w).newHandle (whole_nonW_ro fid 0))
    have ho1 : (stepWorld w (.openRd d name) (.ok w.handles.length)).obj w.handles.length = .file fid 0 false := by
      rw [stepWorld_obj, hc, obj_newHandle]; simp
    refine ⟨pf1, ?_⟩
    dsimp only
    refine wp_bind_mono (whole_readAll w.handles.length fid (Nat.le_refl _) _ pf1 ho1) ?_
    rintro failed w2 ⟨pf2, off2, ho2⟩
    have hlt2 : w.handles.length < w2.handles.length := lt_of_obj_ne_closed w2 _ (by rw [ho2]; intro h; cases h)
    have closeNone : wp (WholePF w) (Prog.call (Call.close w.handles.length) fun _ => Prog.ret (none : Option MsgSt))
        (fun r w' => WholePF w w' ∧ ∀ ms, r = some ms →
          ms.name = name ∧ ms.loc = some (dir, name) ∧ ms.content = content ∧ ms.fd = some w.handles.length ∧
          w.handles.length < w'.handles.length ∧ ms.msg = parseMessage content) w2 := by
      refine wp_call_any fun r => ?_
      have pf3 := WholePF.step_of_core (core_close w2 w.handles.length r) (pf2.setObj (Nat.le_refl _) whole_nonW_closed)
      exact ⟨pf3, pf3, by intro _ h; cases h⟩
    split
    · exact closeNone
    · split
      · split
        · rename_i p n hp' hn _ mf hmf
          refine ⟨pf2, ?_⟩
          intro ms h
          cases h
          exact ⟨strlcpyFits_eq hn, rfl, rfl, rfl, hlt2, rfl⟩
        · exact closeNone
      · exact closeNone

end Mdsort.Proofs.World

namespace Mdsort.Proofs
open Mdsort Mdsort.Model

/-- The side conditions of `Start` that concern the world only. -/
structure WholeClean (w : World) : Prop where
  noWriters : ∀ h fid off, w.obj h ≠ .file fid off true
  noStreams : ∀ h fid buf, w.obj h ≠ .stream fid buf
  freshIds : ∀ p, p ∈ w.files → p.1 < w.nextFid
  uniqueNames : ∀ d es, w.dir d = some es → (es.map (·.1)).Nodup

theorem WholeClean.of_pf {w w' : World} (hc : WholeClean w) (pf : World.WholePF w w') : WholeClean w' := by
  refine ⟨?_, ?_, ?_, ?_⟩
  · intro h fid off
    by_cases hh : h < w.handles.length
    · rw [pf.objs h hh]; exact hc.noWriters h fid off
    · exact (pf.noW h (Nat.le_of_not_lt hh)).1 fid off
  · intro h fid buf
    by_cases hh : h < w.handles.length
    · rw [pf.objs h hh]; exact hc.noStreams h fid buf
    · exact (pf.noW h (Nat.le_of_not_lt hh)).2 fid buf
  · intro p hp
    rw [pf.files] at hp
    rw [pf.nextFid]
    exact hc.freshIds p hp
  · intro d es hd
    rw [World.dir_of_dirs pf.dirs d] at hd
    exact hc.uniqueNames d es hd

/-- `StartAt` from the footprint of the parse phase (and of everything that stays inside it, such as evaluation). -/
theorem whole_startAt_of_pf (md : Maildir) (d : Handle) (name content : Bytes) (w w' : World) (fid : Nat)
    (hd : md.dirH = some d) (hp : w.dirPath d = some md.path)
    (hwf : pathjoin PATH_MAX md.root (subdirName md.subdir) = some md.path)
    (hl : w.lookup md.path name = some fid) (hf : w.file fid = some ⟨content, content⟩) (hc : WholeClean w)
    (pf : World.WholePF w w') (ms : MsgSt) (h1 : ms.name = name) (h2 : ms.loc = some (md.path, name)) (h3 : ms.content = content)
    (h4 : ms.fd = some w.handles.length) (h5 : w.handles.length < w'.handles.length) (m : Msg) (fl : MFlags) :
    StartAt w' { src := md, chsrc := false, ms := { ms with msg := m, flags := fl }, reject := false } content := by
  have hc' := hc.of_pf pf
  have hdlt : d < w.handles.length := World.lt_of_dirPath hp
  refine ⟨⟨⟨d, hd, ?_⟩, ⟨fid, ?_, ?_⟩, hc'.noWriters, hc'.noStreams, hc'.freshIds, hc'.uniqueNames⟩, hwf, ?_, h3, ?_⟩
  · rw [← hp]; exact World.dirPath_congr (pf.objs d hdlt)
  · show w'.lookup md.path ms.name = some fid
    rw [h1, World.lookup_of_dirs pf.dirs]; exact hl
  · rw [World.whole_file_of_files pf.files]; exact hf
  · show ms.loc = some (md.path, ms.name)
    rw [h2, h1]
  · intro h hh
    have : h = w.handles.length := by
      have : ms.fd = some h := hh
      rw [h4] at this
      cases this; rfl
    subst this
    refine ⟨h5, ?_⟩
    show md.dirH ≠ some w.handles.length
    rw [hd]
    intro hcontra
    cases hcontra
    exact Nat.lt_irrefl _ hdlt

/-- **start_of_parse** (calculus form): from a clean world in which `(md.path, name)` is bound to a
file that holds `content` (visibly and durably), whatever fails while `message_parse` runs: the
parse footprint holds after every call, and if the parse succeeds, the world together with the state
`processMessage` hands to `matches_exec` (for any interpolated message and flag set) satisfies
`StartAt` - hence `Start` - with `orig = content`. -/
theorem whole_start_of_parse_wp (md : Maildir) (d : Handle) (name content : Bytes) (w : World) (fid : Nat)
    (hd : md.dirH = some d) (hp : w.dirPath d = some md.path)
    (hwf : pathjoin PATH_MAX md.root (subdirName md.subdir) = some md.path)
    (hl : w.lookup md.path name = some fid) (hf : w.file fid = some ⟨content, content⟩) (hc : WholeClean w) :
    World.wp (World.WholePF w) (messageParseP d md.path name content)
      (fun r w' => World.WholePF w w' ∧ ∀ ms, r = some ms → ∀ (m : Msg) (fl : MFlags),
        StartAt w' { src := md, chsrc := false, ms := { ms with msg := m, flags := fl }, reject := false } content) w := by
  refine World.wp_mono (World.whole_messageParseP d md.path name content hp hl) ?_
  rintro r w' ⟨pf, hms⟩
  refine ⟨pf, ?_⟩
  intro ms hr m fl
  obtain ⟨h1, h2, h3, h4, h5, _⟩ := hms ms hr
  have hc' := hc.of_pf pf
  have hdlt : d < w.handles.length := World.lt_of_dirPath hp
  refine ⟨⟨⟨d, hd, ?_⟩, ⟨fid, ?_, ?_⟩, hc'.noWriters, hc'.noStreams, hc'.freshIds, hc'.uniqueNames⟩, hwf, ?_, h3, ?_⟩
  · rw [← hp]; exact World.dirPath_congr (pf.objs d hdlt)
  · show w'.lookup md.path ms.name = some fid
    rw [h1, World.lookup_of_dirs pf.dirs]; exact hl
  · rw [World.whole_file_of_files pf.files]; exact hf
  · show ms.loc = some (md.path, ms.name)
    rw [h2, h1]
  · intro h hh
    have : h = w.handles.length := by
      have : ms.fd = some h := hh
      rw [h4] at this
      cases this; rfl
    subst this
    refine ⟨h5, ?_⟩
    show md.dirH ≠ some w.handles.length
    rw [hd]
    intro hcontra
    cases hcontra
    exact Nat.lt_irrefl _ hdlt

/-- **start_of_parse** in the terms of `runPlan`, for every fault plan. -/
theorem whole_start_of_parse (md : Maildir) (d : Handle) (name content : Bytes) (w : World) (fid : Nat) (plan : Plan)
    (i : Nat) (hist : List World)
    (hd : md.dirH = some d) (hp : w.dirPath d = some md.path)
    (hwf : pathjoin PATH_MAX md.root (subdirName md.subdir) = some md.path)
    (hl : w.lookup md.path name = some fid) (hf : w.file fid = some ⟨content, content⟩) (hc : WholeClean w)
    (ms : MsgSt) (hr : (runPlan plan (messageParseP d md.path name content) w i hist).1 = some ms) (m : Msg) (fl : MFlags) :
    StartAt (runPlan plan (messageParseP d md.path name content) w i hist).2.1
      { src := md, chsrc := false, ms := { ms with msg := m, flags := fl }, reject := false } content := by
  have h := (World.wp_sound plan (whole_start_of_parse_wp md d name content w fid hd hp hwf hl hf hc) i).2
  rw [World.runPlan_eq] at hr ⊢
  exact h.2 ms hr m fl

end Mdsort.Proofs
