import Mdsort.Model.Lex

/-! Auxiliary lemmas for `Mdsort.Proofs.Lex` (C14). -/

namespace Mdsort.Proofs.LexAux
open Mdsort Mdsort.Model

theorem forall_u8 {P : UInt8 → Prop} (h : ∀ n, n < 256 → P (UInt8.ofNat n)) : ∀ c, P c := by
  intro c
  have := h c.toNat c.toNat_lt
  simpa using this

/-! ### Progress -/

theorem collect_suffix (d : UInt8) : ∀ (fuel : Nat) (s acc : Bytes) (o : Option Bytes) (rest : Bytes),
    collect d fuel s acc = some (o, rest) → rest <:+ s := by
  intro fuel
  induction fuel with
  | zero => intro s acc o rest h; simp [collect] at h
  | succ fuel ih =>
    intro s acc o rest h
    cases s with
    | nil => simp [collect] at h
    | cons c r =>
      simp only [collect] at h
      by_cases hc : (c == d) = true
      · simp [hc] at h
        obtain ⟨_, rfl⟩ := h
        exact List.suffix_cons _ _
      · simp only [hc] at h
        by_cases h92 : (c == 92) = true
        · cases r with
          | nil =>
            simp [h92] at h
            split at h
            · simp at h; obtain ⟨_, rfl⟩ := h; exact List.nil_suffix
            · exact (ih _ _ _ _ h).trans (List.suffix_cons _ _)
          | cons d' r2 =>
            by_cases hd : (d' == d) = true
            · simp [h92, hd] at h
              split at h
              · simp at h; obtain ⟨_, rfl⟩ := h
                exact (List.suffix_cons _ _).trans (List.suffix_cons _ _)
              · exact (ih _ _ _ _ h).trans ((List.suffix_cons _ _).trans (List.suffix_cons _ _))
            · simp [h92, hd] at h
              split at h
              · simp at h; obtain ⟨_, rfl⟩ := h
                exact List.suffix_cons _ _
              · exact (ih _ _ _ _ h).trans (List.suffix_cons _ _)
        · simp [h92] at h
          split at h
          · simp at h; obtain ⟨_, rfl⟩ := h
            exact List.suffix_cons _ _
          · exact (ih _ _ _ _ h).trans (List.suffix_cons _ _)

theorem patFlags_suffix : ∀ (fuel : Nat) (s : Bytes) (i l u : Bool) (e : Nat),
    (patFlags fuel s i l u e).2.1 <:+ s := by
  intro fuel
  induction fuel with
  | zero => intro s i l u e; simp [patFlags]
  | succ fuel ih =>
    intro s i l u e
    unfold patFlags
    split
    · exact (ih _ _ _ _ _).trans (List.suffix_cons _ _)
    · exact (ih _ _ _ _ _).trans (List.suffix_cons _ _)
    · exact (ih _ _ _ _ _).trans (List.suffix_cons _ _)
    · exact List.suffix_refl _

theorem lexDigits_suffix : ∀ (fuel : Nat) (s : Bytes) (n : Nat) (ovf : Bool) (e : Nat),
    (lexDigits fuel s n ovf e).2.1 <:+ s := by
  intro fuel
  induction fuel with
  | zero => intro s n ovf e; simp [lexDigits]
  | succ fuel ih =>
    intro s n ovf e
    unfold lexDigits
    split
    · split
      · split
        · exact (ih _ _ _ _).trans (List.suffix_cons _ _)
        · simp only
          split
          · exact (ih _ _ _ _).trans (List.suffix_cons _ _)
          · exact (ih _ _ _ _).trans (List.suffix_cons _ _)
      · exact List.suffix_refl _
    · exact List.suffix_refl _

theorem lexDigits_consume (fuel : Nat) (c : UInt8) (r : Bytes) (n : Nat) (ovf : Bool) (e : Nat)
    (hc : isdigit c = true) : (lexDigits (fuel + 1) (c :: r) n ovf e).2.1 <:+ r := by
  simp only [lexDigits, hc, if_true]
  split
  · exact lexDigits_suffix _ _ _ _ _
  · split
    · exact lexDigits_suffix _ _ _ _ _
    · exact lexDigits_suffix _ _ _ _ _

theorem islower_isKwChar {c : UInt8} (h : islower c = true) : isKwChar c = true := by
  simp [isKwChar, h]

theorem lexTok_suffix (pflag sflag : Bool) (c : UInt8) (r : Bytes) (e0 : Nat) :
    (lex1.lexTok pflag sflag c r e0).rest <:+ r := by
  unfold lex1.lexTok
  split
  · split
    · exact List.nil_suffix
    · rename_i h; exact collect_suffix _ _ _ _ _ _ h
    · rename_i h; exact collect_suffix _ _ _ _ _ _ h
  · split
    · split
      · exact List.nil_suffix
      · rename_i h; exact collect_suffix _ _ _ _ _ _ h
      · rename_i h
        exact (patFlags_suffix _ _ _ _ _ _).trans (collect_suffix _ _ _ _ _ _ h)
    · split
      · rename_i hd
        exact lexDigits_consume _ _ _ _ _ _ hd
      · split
        · rename_i hl
          have hk := islower_isKwChar hl
          have hdw : (c :: r).dropWhile isKwChar <:+ r := by
            rw [List.dropWhile_cons_of_pos hk]; exact List.dropWhile_suffix _
          simp only
          split
          · show (c :: r).drop BUFSIZ <:+ r
            simp only [BUFSIZ, List.drop_succ_cons]
            exact List.drop_suffix _ _
          · split
            · exact hdw
            · split
              · split
                · exact hdw
                · exact hdw
                · exact hdw
              · exact hdw
        · split
          · exact List.suffix_refl _
          · exact List.suffix_refl _

/-- The conclusion of `lex_progress` for a result `res` on `input`. -/
def Good (input : Bytes) (res : LexRes) : Prop :=
  res.rest <:+ input ∧ (res.tok ≠ .eof → res.rest.length < input.length)

theorem good_of_suffix_tail {input : Bytes} {c : UInt8} {r : Bytes} (hs : c :: r <:+ input)
    {res : LexRes} (h : res.rest <:+ r) : Good input res := by
  have h1 := hs.length_le
  have h2 := h.length_le
  simp at h1
  exact ⟨h.trans ((List.suffix_cons _ _).trans hs), fun _ => by omega⟩

theorem good_eof_nil (input : Bytes) (e : Nat) : Good input { tok := .eof, rest := [], errors := e } :=
  ⟨List.nil_suffix, fun h => absurd rfl h⟩

theorem good_errors {input : Bytes} {res : LexRes} (h : Good input res) (e : Nat) :
    Good input { res with errors := e } := h

theorem lex1Aux_good (pflag sflag afterMacro : Bool) : ∀ (fuel : Nat) (input : Bytes),
    Good input (lex1.lex1Aux pflag sflag afterMacro input fuel) := by
  intro fuel
  induction fuel with
  | zero => intro input; exact good_eof_nil _ _
  | succ fuel ih =>
    intro input
    unfold lex1.lex1Aux
    simp only
    have hs0 : input.dropWhile isspace <:+ input := List.dropWhile_suffix _
    split
    · exact good_eof_nil _ _
    · rename_i c r heq
      rw [heq] at hs0
      split
      · exact good_of_suffix_tail hs0 (List.suffix_refl _)
      · split
        · split
          · exact good_eof_nil _ _
          · rename_i x r2 heq2
            have h2 : x :: r2 <:+ r := by rw [← heq2]; exact List.dropWhile_suffix _
            have := ih r2
            exact good_of_suffix_tail hs0 (this.1.trans ((List.suffix_cons _ _).trans h2))
        · exact good_of_suffix_tail hs0 (lexTok_suffix _ _ _ _ _)

theorem lex1_good (pflag sflag afterMacro : Bool) (input : Bytes) :
    Good input (lex1 pflag sflag afterMacro input) := by
  unfold lex1
  simp only
  have hs0 : input.dropWhile isspace <:+ input := List.dropWhile_suffix _
  split
  · exact good_eof_nil _ _
  · rename_i c r heq
    rw [heq] at hs0
    split
    · exact good_of_suffix_tail hs0 (List.suffix_refl _)
    · split
      · split
        · exact good_eof_nil _ _
        · rename_i x r2 heq2
          have h2 : x :: r2 <:+ r := by rw [← heq2]; exact List.dropWhile_suffix _
          have := lex1Aux_good pflag sflag afterMacro input.length r2
          exact good_of_suffix_tail hs0 (this.1.trans ((List.suffix_cons _ _).trans h2))
      · exact good_of_suffix_tail hs0 (lexTok_suffix _ _ _ _ _)

/-! ### Keywords -/

theorem islower_facts : ∀ c : UInt8, islower c = true →
    isspace c = false ∧ (c == 33) = false ∧ (c == 35) = false ∧ (c == 34) = false ∧ isdigit c = false := by
  apply forall_u8; decide +kernel

theorem takeWhile_append_stop {α} (p : α → Bool) : ∀ (l rest : List α), l.all p = true →
    (∀ c, rest.head? = some c → p c = false) → (l ++ rest).takeWhile p = l ∧ (l ++ rest).dropWhile p = rest := by
  intro l
  induction l with
  | nil =>
    intro rest _ hr
    cases rest with
    | nil => simp
    | cons x xs => have := hr x rfl; simp [this]
  | cons a l ih =>
    intro rest hall hr
    simp only [List.all_cons, Bool.and_eq_true] at hall
    have := ih rest hall.2 hr
    simp [hall.1, this]

/-- What is checked of every entry of the generated keyword table. -/
def kwOk (kv : String × String) : Bool :=
  let bs := kv.1.toUTF8.toList
  (Gen.keywords.find? (fun kv' => kv'.1 == String.ofList (bs.map fun b => Char.ofNat b.toNat)) == some kv) &&
  bs.all isKwChar && (match bs with | [] => false | c :: _ => islower c) && decide (bs.length ≤ BUFSIZ - 1)

theorem kw_table : Gen.keywords.all kwOk = true := by decide +kernel

theorem lex1_of_lower (pflag sflag : Bool) (c : UInt8) (r : Bytes) (hl : islower c = true) :
    lex1 pflag sflag false (c :: r) = lex1.lexTok pflag sflag c r 0 := by
  obtain ⟨h1, h2, h3, _, _⟩ := islower_facts c hl
  simp [lex1, h1, h2, h3]

theorem lexTok_keyword (sflag : Bool) (c : UInt8) (t rest : Bytes) (kv : String × String)
    (hl : islower c = true) (hall : (c :: t).all isKwChar = true) (hlen : (c :: t).length ≤ BUFSIZ - 1)
    (hfind : Gen.keywords.find? (fun kv' => kv'.1 == String.ofList ((c :: t).map fun b => Char.ofNat b.toNat)) = some kv)
    (hr : ∀ c, rest.head? = some c → isKwChar c = false) :
    lex1.lexTok false sflag c (t ++ rest) 0 = { tok := .keyword kv.2, rest := rest, errors := 0 } := by
  obtain ⟨_, _, _, h34, hd⟩ := islower_facts c hl
  obtain ⟨htw, hdw⟩ := takeWhile_append_stop isKwChar (c :: t) rest hall hr
  rw [List.cons_append] at htw hdw
  unfold lex1.lexTok
  simp only [h34, hd, hl, htw, hdw, if_true, Bool.false_eq_true, if_false]
  rw [if_neg (by omega), hfind]

/-! ### Bytes of an ASCII string -/

theorem toList_loop (bs : ByteArray) : ∀ (k i : Nat) (r : List UInt8), bs.size - i = k →
    ByteArray.toList.loop bs i r = r.reverse ++ bs.data.toList.drop i := by
  have hsz : bs.size = bs.data.toList.length := by
    cases bs with | mk d => simp [ByteArray.size]
  intro k
  induction k with
  | zero =>
    intro i r h
    rw [ByteArray.toList.loop]
    have : ¬ i < bs.size := by omega
    have hd : bs.data.toList.drop i = [] := by
      apply List.drop_eq_nil_of_le; omega
    simp [this, hd]
  | succ k ih =>
    intro i r h
    rw [ByteArray.toList.loop]
    have hi : i < bs.size := by omega
    rw [if_pos hi, ih (i + 1) _ (by omega)]
    have hi' : i < bs.data.toList.length := by omega
    rw [List.drop_eq_getElem_cons hi']
    have : bs.get! i = bs.data.toList[i] := by
      have h2 : i < bs.data.size := by simpa using hi'
      simp only [ByteArray.get!, Array.getElem_toList]
      exact getElem!_pos bs.data i h2
    simp [this]

theorem byteArray_toList (bs : ByteArray) : bs.toList = bs.data.toList := by
  simp [ByteArray.toList, toList_loop bs _ 0 [] rfl]

theorem utf8_ascii (l : List Char) (h : ∀ c ∈ l, c.toNat ≤ 127) :
    (String.ofList l).toUTF8.toList = l.map (fun c => UInt8.ofNat c.toNat) := by
  rw [String.toUTF8_eq_toByteArray, String.toByteArray_ofList, byteArray_toList, List.utf8Encode,
    List.data_toByteArray]
  induction l with
  | nil => rfl
  | cons c l ih =>
    have hc : c.val.toNat ≤ 127 := h c (by simp)
    have : String.utf8EncodeChar c = [UInt8.ofNat c.toNat] := by
      unfold String.utf8EncodeChar
      simp only [hc, if_true]
      rfl
    have ih' := ih (fun c hc => h c (by simp [hc]))
    simp only at ih' ⊢
    simp [List.flatMap_cons, this, ih']

/-! ### Integers -/

/-- Value of a digit string read left to right from `acc`. -/
def dval (acc : Nat) (ds : Bytes) : Nat := ds.foldl (fun a d => a * 10 + (d.toNat - 48)) acc

theorem dval_nil (acc : Nat) : dval acc [] = acc := by simp only [dval, List.foldl_nil]
theorem dval_cons (acc : Nat) (d : UInt8) (ds : Bytes) :
    dval acc (d :: ds) = dval (acc * 10 + (d.toNat - 48)) ds := by
  simp only [dval, List.foldl_cons]

theorem le_dval : ∀ (ds : Bytes) (acc : Nat), acc ≤ dval acc ds := by
  intro ds
  induction ds with
  | nil => intro acc; exact Nat.le_refl _
  | cons d ds ih =>
    intro acc
    rw [dval_cons]
    have := ih (acc * 10 + (d.toNat - 48))
    omega

theorem lexDigits_stop (fuel : Nat) (rest : Bytes) (n : Nat) (ovf : Bool) (e : Nat)
    (hr : ∀ c, rest.head? = some c → isdigit c = false) :
    lexDigits (fuel + 1) rest n ovf e = (n, rest, e) := by
  cases rest with
  | nil => simp [lexDigits]
  | cons c r => simp [lexDigits, hr c rfl]

theorem lexDigits_ovf (rest : Bytes) (hr : ∀ c, rest.head? = some c → isdigit c = false) :
    ∀ (ds : Bytes) (fuel n e : Nat), (∀ d ∈ ds, isdigit d = true) → ds.length < fuel →
    lexDigits fuel (ds ++ rest) n true e = (n, rest, e) := by
  intro ds
  induction ds with
  | nil =>
    intro fuel n e _ hf
    cases fuel with
    | zero => simp at hf
    | succ f => exact lexDigits_stop f rest n true e hr
  | cons d ds ih =>
    intro fuel n e hd hf
    cases fuel with
    | zero => simp at hf
    | succ f =>
      have h1 : isdigit d = true := hd d (by simp)
      have := ih f n e (fun x hx => hd x (by simp [hx])) (by simp at hf; omega)
      simp [lexDigits, h1, this]

theorem lexDigits_spec (rest : Bytes) (hr : ∀ c, rest.head? = some c → isdigit c = false) :
    ∀ (ds : Bytes) (fuel acc e : Nat), (∀ d ∈ ds, isdigit d = true) → ds.length < fuel → acc < 2 ^ 32 →
    (lexDigits fuel (ds ++ rest) acc false e).2.1 = rest ∧
    (dval acc ds < 2 ^ 32 → lexDigits fuel (ds ++ rest) acc false e = (dval acc ds, rest, e)) ∧
    (2 ^ 32 ≤ dval acc ds → (lexDigits fuel (ds ++ rest) acc false e).2.2 = e + 1) := by
  intro ds
  induction ds with
  | nil =>
    intro fuel acc e _ hf hacc
    cases fuel with
    | zero => simp at hf
    | succ f =>
      rw [List.nil_append, lexDigits_stop f rest acc false e hr, dval_nil]
      exact ⟨rfl, fun _ => rfl, fun h => by omega⟩
  | cons d ds ih =>
    intro fuel acc e hd hf hacc
    cases fuel with
    | zero => simp at hf
    | succ f =>
      have h1 : isdigit d = true := hd d (by simp)
      have hds : ∀ x ∈ ds, isdigit x = true := fun x hx => hd x (by simp [hx])
      have hf' : ds.length < f := by simp at hf; omega
      rw [dval_cons, List.cons_append]
      by_cases hov : acc * 10 + (d.toNat - 48) < 2 ^ 32
      · have hstep : lexDigits (f + 1) (d :: (ds ++ rest)) acc false e
            = lexDigits f (ds ++ rest) (acc * 10 + (d.toNat - 48)) false e := by
          have h2 : ¬ (acc * 10 ≥ 2 ^ 32) := by omega
          have h3 : ¬ (acc * 10 + (d.toNat - 48) ≥ 2 ^ 32) := by omega
          simp [lexDigits, h1, h2, h3]
        rw [hstep]
        exact ih f _ e hds hf' hov
      · have hstep : lexDigits (f + 1) (d :: (ds ++ rest)) acc false e
            = lexDigits f (ds ++ rest) ((acc * 10 + (d.toNat - 48)) % 2 ^ 32) true (e + 1) := by
          have h3 : (acc * 10 + (d.toNat - 48) ≥ 2 ^ 32) := by omega
          simp [lexDigits, h1, h3]
        rw [hstep, lexDigits_ovf rest hr ds f _ _ hds hf']
        have := le_dval ds (acc * 10 + (d.toNat - 48))
        refine ⟨rfl, fun h => ?_, fun _ => rfl⟩
        omega

theorem isDigit_range (c : Char) (h : c.isDigit = true) : 48 ≤ c.toNat ∧ c.toNat ≤ 57 := by
  simp only [Char.isDigit, Bool.and_eq_true, decide_eq_true_eq, ge_iff_le, UInt32.le_iff_toNat_le] at h
  exact h

theorem isdigit_ofNat (k : Nat) (h1 : 48 ≤ k) (h2 : k ≤ 57) :
    isdigit (UInt8.ofNat k) = true ∧ (UInt8.ofNat k).toNat = k := by
  have hk : (UInt8.ofNat k).toNat = k := by rw [UInt8.toNat_ofNat']; omega
  refine ⟨?_, hk⟩
  simp only [isdigit, Bool.and_eq_true, decide_eq_true_eq, UInt8.le_iff_toNat_le, hk]
  exact ⟨h1, h2⟩

theorem isdigit_facts : ∀ c : UInt8, isdigit c = true →
    isspace c = false ∧ (c == 33) = false ∧ (c == 35) = false ∧ (c == 34) = false := by
  apply forall_u8; decide +kernel

theorem dval_map : ∀ (l : List Char) (acc : Nat), (∀ c ∈ l, c.isDigit = true) →
    dval acc (l.map fun c => UInt8.ofNat c.toNat) = Nat.ofDigitChars 10 l acc := by
  intro l
  induction l with
  | nil => intro acc _; simp [dval_nil]
  | cons c l ih =>
    intro acc h
    obtain ⟨h1, h2⟩ := isDigit_range c (h c (by simp))
    rw [List.map_cons, dval_cons, Nat.ofDigitChars_cons, ih _ (fun x hx => h x (by simp [hx])),
      (isdigit_ofNat _ h1 h2).2, Nat.mul_comm]
    rfl

/-- The bytes of a decimal literal: all digits, non-empty, value `n`. -/
theorem toString_bytes (n : Nat) : ∃ ds : Bytes, (toString n).toUTF8.toList = ds ∧ ds ≠ [] ∧
    (∀ d ∈ ds, isdigit d = true) ∧ dval 0 ds = n := by
  have hdig : ∀ c ∈ Nat.toDigits 10 n, c.isDigit = true :=
    fun c hc => Nat.isDigit_of_mem_toDigits (by decide) (by decide) hc
  refine ⟨(Nat.toDigits 10 n).map fun c => UInt8.ofNat c.toNat, ?_, ?_, ?_, ?_⟩
  · rw [Nat.toString_eq_ofList_toDigits]
    exact utf8_ascii _ (fun c hc => by have := isDigit_range c (hdig c hc); omega)
  · simp
  · intro d hd
    obtain ⟨c, hc, rfl⟩ := List.mem_map.mp hd
    obtain ⟨h1, h2⟩ := isDigit_range c (hdig c hc)
    exact (isdigit_ofNat _ h1 h2).1
  · rw [dval_map _ _ hdig, Nat.ofDigitChars_ten_toDigits]

theorem lex1_of_digit (sflag : Bool) (c : UInt8) (r : Bytes) (hd : isdigit c = true) :
    lex1 false sflag false (c :: r) =
      { tok := .int (lexDigits (r.length + 2) (c :: r) 0 false 0).1,
        rest := (lexDigits (r.length + 2) (c :: r) 0 false 0).2.1,
        errors := 0 + (lexDigits (r.length + 2) (c :: r) 0 false 0).2.2 } := by
  obtain ⟨h1, h2, h3, h4⟩ := isdigit_facts c hd
  simp [lex1, lex1.lexTok, h1, h2, h3, h4, hd]

end Mdsort.Proofs.LexAux
