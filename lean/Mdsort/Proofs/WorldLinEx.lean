import Mdsort.Proofs.WorldLinTop
import Mdsort.Proofs.WorldWholeEx

/-!
# Lineage: a world with TWO BYTE-IDENTICAL messages

Maildir `/m` with `new/1.h` (file 0) and `new/2.h` (file 1), both holding `A: b\n\nx`.  Every by-content statement
about message 1 is also satisfied by message 2; the by-lineage statements tell them apart.  Evaluated: the action list
`move "/m/cur"`, `label` on message 1 without a fault, with one and with two faults (`twin_exec_runs`).  (Whole runs of
`mainP` under a fault plan are not evaluated by the kernel here: `readdir` sorts with `List.mergeSort`, which the kernel
does not unfold; `#eval` gives, for `match all flag "cur"` with the `rename` of message 1 failing: `/m/new/1.h` file 0
origin 0, `/m/cur/..._9` file 1 origin 1; with the roll-back failing too: additionally the empty placeholder
`/m/cur/..._8`, file 2, origin 0.)
-/

namespace Mdsort.Proofs
open Mdsort Mdsort.Model

def twinWorld : World :=
  { dirs := [(exNew, [(exName, 0), (wholeExName2, 1)]), (exCur, [])],
    files := [(0, ⟨exOrig, exOrig⟩), (1, ⟨exOrig, exOrig⟩)], nextFid := 2,
    handles := [.other, .other, .other], devs := [], trace := [] }

def twinFiles : Files := [(exNew, exName, exOrig), (exNew, wholeExName2, exOrig)]

theorem twin_reg : WholeReg twinWorld twinFiles := whole_reg_of_ok (by decide)

/-- The entries of `w'` with the file each is bound to and the file of `w` that file descends from, for the lineage
that starts with `l0` in `w`. -/
def entryOrigins (w : World) (l0 : Lin) (w' : World) : List (Bytes × Bytes × Nat × Nat) :=
  w'.dirs.flatMap fun d => d.2.map fun e => (d.1, e.1, e.2, (lineage w l0 (traceSince w w')).org e.2)

/-- The name `1700000000.42_<k>.h:2,S` `maildir_genname` makes in the example. -/
def twinName (k : Nat) : Bytes := ofString "1700000000.42_" ++ decimal k ++ ofString ".h:2,S"

/-- The plan that fails exactly the calls of `ks` with `EIO`. -/
def failAt (ks : List Nat) : Plan := fun k => if ks.contains k then some (.fail "EIO") else none

/-! ## one action list (`move "/m/cur"` then `label`) on message 1 of the twin world -/

/-- The twin world when `matches_exec` starts on message 1: `/m/new` open at handle 3, the message at handle 4. -/
def twinExecWorld : World := { twinWorld with handles := [.other, .other, .other, .dir exNew none 0, .file 0 0 false] }

theorem twin_start : Start twinExecWorld exSt exOrig := by
  refine ⟨⟨3, rfl, by decide⟩, ⟨0, by decide, by decide⟩, ?_, ?_, ?_, ?_⟩
  · intro h fid off
    rcases h with _ | _ | _ | _ | _ | h <;> simp [World.obj, twinExecWorld, twinWorld]
  · intro h fid buf
    rcases h with _ | _ | _ | _ | _ | h <;> simp [World.obj, twinExecWorld, twinWorld]
  · intro p hp
    simp only [twinExecWorld, twinWorld, List.mem_cons, List.not_mem_nil, or_false] at hp
    rcases hp with rfl | rfl <;> decide
  · intro d es h
    simp only [World.dir, twinExecWorld, twinWorld, List.find?] at h
    split at h
    · simp only [Option.map_some, Option.some.injEq] at h
      subst h
      decide
    · split at h
      · simp only [Option.map_some, Option.some.injEq] at h
        subst h
        decide
      · simp at h

theorem twin_startAt : StartAt twinExecWorld exSt exOrig := by
  refine ⟨twin_start, by decide, rfl, rfl, ?_⟩
  intro h hh
  cases hh
  exact ⟨by decide, by decide⟩

/-- The entries of the twin world. -/
theorem twin_entries {q m : Bytes} {g : Nat} (hl : twinExecWorld.lookup q m = some g) :
    (q, m, g) = (exNew, exName, 0) ∨ (q, m, g) = (exNew, wholeExName2, 1) := by
  unfold World.lookup World.dir at hl
  simp only [Option.bind_eq_some_iff, Option.map_eq_some_iff] at hl
  obtain ⟨es, ⟨d, hd, rfl⟩, e, he, rfl⟩ := hl
  have hd1 := List.find?_some hd
  have hdm := List.mem_of_find?_eq_some hd
  have he1 := List.find?_some he
  have hem := List.mem_of_find?_eq_some he
  simp only [beq_iff_eq] at hd1 he1
  subst hd1 he1
  simp only [twinExecWorld, twinWorld, List.mem_cons, List.not_mem_nil, or_false] at hdm
  rcases hdm with rfl | rfl
  · simp only [List.mem_cons, List.not_mem_nil, or_false] at hem
    rcases hem with rfl | rfl
    · exact .inl rfl
    · exact .inr rfl
  · cases hem

/-- Every entry is bound to an existing file, and file 0 has no second link. -/
theorem twin_wf : (∀ q m g, twinExecWorld.lookup q m = some g → g < twinExecWorld.nextFid) ∧
    (∀ q m, twinExecWorld.lookup q m = some 0 → (q, m) = (exSt.src.path, exSt.ms.name)) := by
  refine ⟨?_, ?_⟩
  · intro q m g hl
    rcases twin_entries hl with h | h <;> cases h <;> decide
  · intro q m hl
    rcases twin_entries hl with h | h
    · cases h; rfl
    · cases h

set_option maxRecDepth 100000 in
/-- No fault: message 1 is now the labelled copy `/m/cur/..._9` - file 3, which DESCENDS FROM file 0; message 2 (file 1,
same bytes) is where it was, under its own lineage.  With the unlink of the original failing (call 16) the roll-back
removes the copy and the original (renamed to `/m/cur/..._8`) stays; with the roll-back failing too (calls 16, 17) both
the original AND the complete copy remain - two entries of ONE lineage (a duplicate by lineage, not just by content). -/
theorem twin_exec_runs :
    entryOrigins twinExecWorld ⟨some 0, id⟩ (runPlan Plan.none (matchesExec exEnv exList exSt) twinExecWorld 0 []).2.1 =
      [(exNew, wholeExName2, 1, 1), (exCur, twinName 9, 3, 0)] ∧
    entryOrigins twinExecWorld ⟨some 0, id⟩ (runPlan (failAt [16]) (matchesExec exEnv exList exSt) twinExecWorld 0 []).2.1 =
      [(exNew, wholeExName2, 1, 1), (exCur, twinName 8, 0, 0)] ∧
    entryOrigins twinExecWorld ⟨some 0, id⟩ (runPlan (failAt [16, 17]) (matchesExec exEnv exList exSt) twinExecWorld 0 []).2.1 =
      [(exNew, wholeExName2, 1, 1), (exCur, twinName 8, 0, 0), (exCur, twinName 9, 3, 0)] := by
  decide +kernel

/-- Why the by-content statement is weaker: remove message 1 from the twin world by hand.  `Intact` for the bytes of
message 1 still holds (message 2 has the same bytes), while no entry descends from file 0. -/
def twinLost : World := { twinWorld with dirs := [(exNew, [(wholeExName2, 1)]), (exCur, [])] }

theorem twin_by_content_is_weaker :
    Intact twinLost [exOrig] ∧ ¬ ∃ p n g, twinLost.lookup p n = some g ∧ originAt twinWorld twinLost g = 0 := by
  refine ⟨⟨exNew, wholeExName2, 1, ⟨exOrig, exOrig⟩, by decide, by decide, by simp⟩, ?_⟩
  rintro ⟨p, n, g, hl, ho⟩
  have hg : g = 0 := ho
  subst hg
  have hmem : (p, n, 0) ∈ [(exNew, wholeExName2, 1)] := by
    unfold World.lookup World.dir at hl
    simp only [Option.bind_eq_some_iff, Option.map_eq_some_iff] at hl
    obtain ⟨es, ⟨d, hd, rfl⟩, e, he, he2⟩ := hl
    have hd1 := List.find?_some hd
    have hdm := List.mem_of_find?_eq_some hd
    have he1 := List.find?_some he
    have hem := List.mem_of_find?_eq_some he
    simp only [beq_iff_eq] at hd1 he1
    subst hd1 he1
    simp only [twinLost, twinWorld, List.mem_cons, List.not_mem_nil, or_false] at hdm
    rcases hdm with rfl | rfl
    · simp only [List.mem_cons, List.not_mem_nil, or_false] at hem
      subst hem
      simp at he2
    · cases hem
  simp at hmem

end Mdsort.Proofs
