import Mdsort.Proofs.ConfAnywhere5

/-!
# A defect behind a written prefix, part 6: the macro class stated on trees

A configuration written by `Spec.printBlocks` in which ONE string of ONE action - of any rule of any block, behind any
actions of that rule - holds a macro reference that cannot be expanded, everything before it being well formed, is
rejected.  (Positions inside nested blocks and attachment blocks, conditions, paths and units: the statements on
written prefixes, `anywhere_*`.)
-/

namespace Mdsort.Proofs.Conf
open Mdsort Mdsort.Model Mdsort.Spec

theorem toks_rulesTree : ∀ (rs : List CTree) (r : CTree),
    toks .rules (rulesTree r rs) = toks .rules r ++ rs.flatMap (toks .rule) := by
  intro rs
  induction rs with
  | nil => intro r; simp [rulesTree]
  | cons x rs ih =>
    intro r
    have := ih (.or 1 r x)
    simp only [rulesTree, List.foldl_cons] at this ⊢
    rw [this]
    simp [toks, List.flatMap_cons, List.append_assoc]

theorem toks_actsTree : ∀ (as : List CTree) (a : CTree),
    toks .acts (actsTree a as) = toks .acts a ++ as.flatMap (toks .act) := by
  intro as
  induction as with
  | nil => intro a; simp [actsTree]
  | cons x as ih =>
    intro a
    have := ih (.and 1 a x)
    simp only [actsTree, List.foldl_cons] at this ⊢
    rw [this]
    simp [toks, List.flatMap_cons, List.append_assoc]

theorem isBlock_actsTree : ∀ (as : List CTree) (a : CTree), isBlock a = false → isBlock (actsTree a as) = false := by
  intro as
  induction as with
  | nil => intro a h; simpa [actsTree] using h
  | cons x as ih =>
    intro a _
    have := ih (.and 1 a x) rfl
    simpa [actsTree, List.foldl_cons] using this

/-- An action is written the same way alone and as the first of a list. -/
theorem toks_acts_of_act (rx : Pat → Bool) (a : CTree) (h : wfK rx .act a = true) :
    toks .acts a = toks .act a ∧ isBlock a = false := by
  cases a <;> simp_all [wfK, toks, isBlock]

theorem actLeafToks_site (site : ActSite) (b : Bytes) : actLeafToks (site.expr b) = site.toks b := by
  cases site <;> simp [ActSite.expr, ActSite.toks, actLeafToks, List.append_assoc]

/-- The rule `match c as1... site as2...` as written. -/
theorem toks_ruleOfActs (rx : Pat → Bool) (c : CTree) (as1 as2 : List CTree) (site : ActSite) (b : Bytes)
    (h1 : (as1.all fun a => wfK rx .act a && treePOK a) = true) :
    toks .rule (ruleOfActs c (as1 ++ .leaf (site.expr b) :: as2)) =
      .kw .mtch :: (toks .cond c ++ (as1.flatMap (toks .act) ++ (site.toks b ++ as2.flatMap (toks .act)))) := by
  cases as1 with
  | nil =>
    simp only [List.nil_append, ruleOfActs, toks, isBlock_actsTree as2 (.leaf (site.expr b)) rfl, Bool.false_eq_true, if_false,
      toks_actsTree, actLeafToks_site, List.flatMap_nil]
  | cons a as1 =>
    simp only [List.all_cons, Bool.and_eq_true] at h1
    obtain ⟨he, hb⟩ := toks_acts_of_act rx a h1.1.1
    simp only [List.cons_append, ruleOfActs, toks, isBlock_actsTree _ a hb, Bool.false_eq_true, if_false,
      toks_actsTree, he, List.flatMap_cons, List.flatMap_append, actLeafToks_site, List.append_assoc]

/-- The block with the rules `rs1... r rs2...` as written, `r` and the rules before it being rules. -/
theorem toks_blockOfRules (rx : Pat → Bool) (rs1 rs2 : List CTree) (l : Nat) (c a : CTree)
    (h1 : (rs1.all fun r => wfK rx .rule r && treePOK r) = true) :
    toks .block (blockOfRules (rs1 ++ .mtch l c a :: rs2)) =
      .lbrace :: (rs1.flatMap (toks .rule) ++ (toks .rule (.mtch l c a) ++ (rs2.flatMap (toks .rule) ++ [.rbrace]))) := by
  cases rs1 with
  | nil =>
    simp only [List.nil_append, blockOfRules, toks, toks_rulesTree, List.flatMap_nil, List.cons_append, List.append_assoc]
  | cons r rs1 =>
    simp only [List.all_cons, Bool.and_eq_true] at h1
    have hr : toks .rules r = toks .rule r := by
      have := h1.1.1
      cases r <;> simp_all [wfK, toks]
    simp only [List.cons_append, blockOfRules, toks, toks_rulesTree, hr, List.flatMap_cons, List.flatMap_append,
      List.cons_append, List.nil_append, List.append_assoc]

/-- One string of one action, of any rule of any block: the written configuration is rejected. -/
theorem action_string_file (home : Bytes) (rx : Pat → Bool) (pre post : List PBlock) (paths : List Bytes)
    (rs1 rs2 : List CTree) (c : CTree) (as1 as2 : List CTree) (site : ActSite) (b : Bytes)
    (hpos : ({ rp := { pre := pre, paths := paths, steps := rs1.map .rule }, cond := c, acts := as1 } : ActPos).ok rx = true)
    (hsite : site.ok = true) (hb : BadRef site.action b) :
    parseConfig home [] rx (printBlocks (pre ++
      ⟨paths, blockOfRules (rs1 ++ ruleOfActs c (as1 ++ .leaf (site.expr b) :: as2) :: rs2)⟩ :: post)) = .error 1 := by
  have hrs1 : (rs1.all fun r => wfK rx .rule r && treePOK r) = true := by
    simp only [ActPos.ok, RulePos.ok, Bool.and_eq_true, List.all_map] at hpos
    simpa [Function.comp_def, RuleStep.ok] using hpos.1.1.1.2
  have has1 : (as1.all fun a => wfK rx .act a && treePOK a) = true := by
    simp only [ActPos.ok, Bool.and_eq_true] at hpos
    exact hpos.2
  have hrule := toks_ruleOfActs rx c as1 as2 site b has1
  obtain ⟨l, c', a', hshape⟩ : ∃ l c' a', ruleOfActs c (as1 ++ .leaf (site.expr b) :: as2) = .mtch l c' a' := by
    cases as1 <;> exact ⟨_, _, _, rfl⟩
  have hblock := toks_blockOfRules rx rs1 rs2 l c' a' hrs1
  rw [← hshape, hrule] at hblock
  have := anywhere_action_string home rx _ hpos site hsite b hb
    (Spec.render (as2.flatMap (toks .act) ++ (rs2.flatMap (toks .rule) ++ (.rbrace :: post.flatMap blockToks))))
    (tailOK_render _)
  rw [← render_append] at this
  have he : (pre ++ ⟨paths, blockOfRules (rs1 ++ ruleOfActs c (as1 ++ .leaf (site.expr b) :: as2) :: rs2)⟩ :: post).flatMap blockToks =
      ({ rp := { pre := pre, paths := paths, steps := rs1.map .rule }, cond := c, acts := as1 } : ActPos).toks ++ site.toks b ++
        (as2.flatMap (toks .act) ++ (rs2.flatMap (toks .rule) ++ (.rbrace :: post.flatMap blockToks))) := by
    simp only [List.flatMap_append, List.flatMap_cons, blockToks, hblock, ActPos.toks, RulePos.toks, headToks, List.flatMap_map,
      RuleStep.toks, List.append_assoc, List.cons_append, List.nil_append]
  unfold printBlocks
  rw [he]
  exact this

end Mdsort.Proofs.Conf
