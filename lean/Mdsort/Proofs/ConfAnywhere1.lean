import Mdsort.Proofs.ConfRT5

/-!
# A defect behind a written prefix, part 1: lifting a local failure to the whole file

`Rej p s`: the parser function `p` does not succeed from state `s`, and a diagnostic it reports is on line 1.
`BadUnary` / `BadActs` / `BadRules cx tl ts`: the tokens `ts` followed by the text `tl` make the operand
parser / the action loop / the rule loop fail, whatever was parsed before (`∀ acc`).  The lemmas of this file
push such a failure outwards through everything `Spec.printBlocks` can have written in front of it
(`Spec.CondStep`, `Spec.RuleStep`, `Spec.RulePos`): the read-back lemmas (Proofs/ConfRT*.lean), which hold in
front of arbitrary text and for an arbitrary postcondition of the error outcome, bring the parser to the
position; errors pass through every continuation (`wpl_bind`).
-/

namespace Mdsort.Proofs.Conf
open Mdsort Mdsort.Model Mdsort.Spec

variable {tl : Bytes}

/-- The diagnostic is reported on line 1. -/
abbrev L1 : Nat → ParseSt → Prop := fun l _ => l = 1

/-- `p` does not succeed from `s`; if it reports a diagnostic, then on line 1.  (The third outcome, an exhausted
recursion budget, is excluded for `parseConfig` by the totality theorem.) -/
def Rej {α : Type} (p : PM α) (s : ParseSt) : Prop := wpl p (fun _ _ => False) L1 True s

theorem Rej.elim {α : Type} {p : PM α} {s : ParseSt} (h : Rej p s) {Q : α → ParseSt → Prop} : wpl p Q L1 True s :=
  wpl_mono h (fun _ _ hf => hf.elim) (fun _ _ h => h)

def BadUnary (cx : PCtx) (tl : Bytes) (ts : List PTok) : Prop :=
  ∀ (fuel : Nat) (s : ParseSt), Up cx tl s ts → Rej (parseUnary cx fuel) s

def BadActs (cx : PCtx) (tl : Bytes) (ts : List PTok) : Prop :=
  ∀ (fuel : Nat) (acc : Option CTree) (s : ParseSt), Up cx tl s ts → Rej (parseActions cx fuel acc) s

def BadRules (cx : PCtx) (tl : Bytes) (ts : List PTok) : Prop :=
  ∀ (fuel : Nat) (acc : Option CTree) (s : ParseSt), Up cx tl s ts → Rej (parseExprs cx fuel acc) s

/-! ## Inside a condition -/

theorem badUnary_bang {cx : PCtx} {ts : List PTok} (h : BadUnary cx tl ts) : BadUnary cx tl (.bang :: ts) := by
  intro fuel s hs
  cases fuel with
  | zero => simp [Rej, parseUnary, wpl, outOfFuel]
  | succ fuel =>
    unfold Rej parseUnary
    simp only [wpl_bind]
    apply wpl_peek_up cx _ _ hs rfl
    intro s1 h1
    simp only [tkOf, wpl_bind]
    apply wpl_shift_up h1
    intro s2 h2
    exact (h fuel s2 h2).elim

theorem badUnary_att {cx : PCtx} {ts : List PTok} (h : BadUnary cx tl ts) : BadUnary cx tl (.kw .attachment :: ts) := by
  intro fuel s hs
  cases fuel with
  | zero => simp [Rej, parseUnary, wpl, outOfFuel]
  | succ fuel =>
    unfold Rej parseUnary
    simp only [wpl_bind]
    apply wpl_peek_up cx _ _ hs rfl
    intro s1 h1
    simp only [tkOf, parseCondKw, wpl_bind]
    apply wpl_shift_up h1
    intro s2 h2
    exact (h fuel s2 h2).elim

theorem badUnary_lpar {cx : PCtx} {ts : List PTok} (h : BadUnary cx tl ts) : BadUnary cx tl (.lparen :: ts) := by
  intro fuel s hs
  cases fuel with
  | zero => simp [Rej, parseUnary, wpl, outOfFuel]
  | succ fuel =>
    unfold Rej parseUnary
    simp only [wpl_bind]
    apply wpl_peek_up cx _ _ hs rfl
    intro s1 h1
    simp only [tkOf, wpl_bind]
    apply wpl_shift_up h1
    intro s2 h2
    exact (h fuel s2 h2).elim

/-- `( a and` / `( a or` in front of the failing operand. -/
theorem badUnary_binR {cx : PCtx} {ts : List PTok} (h : BadUnary cx tl ts) (a : CTree) (k : Kw) (hk : k = .and ∨ k = .or)
    (hw : wfK cx.rxOk .cond a = true) (hp : treePOK a = true) :
    BadUnary cx tl (.lparen :: (toks .cond a ++ (.kw k :: ts))) := by
  intro fuel s hs
  have hnl := hs.nl_eq
  cases fuel with
  | zero => simp [Rej, parseUnary, wpl, outOfFuel]
  | succ fuel =>
    unfold Rej parseUnary
    simp only [wpl_bind]
    apply wpl_peek_up cx _ _ hs rfl
    intro s1 h1
    simp only [tkOf, wpl_bind]
    apply wpl_shift_up h1
    intro s2 h2
    refine wpl_of_rt (cond_rt cx hnl a hw hp fuel) h2 ?_
    intro s3 h3
    cases fuel with
    | zero => simp [parseBinTail, wpl, outOfFuel]
    | succ fuel =>
      unfold parseBinTail
      simp only [wpl_bind]
      have hm : modeOK false false (.kw k) = true := rfl
      apply wpl_peek_up cx _ _ h3 hm
      intro s4 h4
      rcases hk with rfl | rfl
      · simp only [tkOf, wpl_bind]
        apply wpl_shift_up h4
        intro s5 h5
        exact (h fuel s5 h5).elim
      · simp only [tkOf, wpl_bind]
        apply wpl_shift_up h4
        intro s5 h5
        exact (h fuel s5 h5).elim

theorem badUnary_step {cx : PCtx} {ts : List PTok} (h : BadUnary cx tl ts) (st : CondStep) (hst : st.ok cx.rxOk = true) :
    BadUnary cx tl (st.toks ++ ts) := by
  cases st with
  | bang => exact badUnary_bang h
  | att => exact badUnary_att h
  | lpar => exact badUnary_lpar h
  | andR a =>
    simp only [CondStep.ok, Bool.and_eq_true] at hst
    have := badUnary_binR h a .and (Or.inl rfl) hst.1 hst.2
    simpa [CondStep.toks] using this
  | orR a =>
    simp only [CondStep.ok, Bool.and_eq_true] at hst
    have := badUnary_binR h a .or (Or.inr rfl) hst.1 hst.2
    simpa [CondStep.toks] using this

theorem badUnary_steps {cx : PCtx} {ts : List PTok} (h : BadUnary cx tl ts) : ∀ (sts : List CondStep),
    sts.all (CondStep.ok cx.rxOk) = true → BadUnary cx tl (sts.flatMap CondStep.toks ++ ts) := by
  intro sts
  induction sts with
  | nil => intro _; simpa using h
  | cons st sts ih =>
    intro hall
    simp only [List.all_cons, Bool.and_eq_true] at hall
    have := badUnary_step (ih hall.2) st hall.1
    simpa [List.flatMap_cons, List.append_assoc] using this

/-! ## From a condition, from an action, to the rule -/

/-- `match` in front of a failing condition. -/
theorem badRules_of_unary {cx : PCtx} {ts : List PTok} (h : BadUnary cx tl ts) : BadRules cx tl (.kw .mtch :: ts) := by
  intro fuel acc s hs
  cases fuel with
  | zero => simp [Rej, parseExprs, wpl, outOfFuel]
  | succ fuel =>
    unfold Rej parseExprs
    simp only [wpl_bind]
    apply wpl_peek_up cx _ _ hs rfl
    intro s1 h1
    simp only [tkOf, wpl_bind]
    apply wpl_shift_up h1
    intro s2 h2
    unfold parseRuleWith
    simp only [wpl_bind]
    exact (h fuel s2 h2).elim

/-- `match c` in front of a failing list of actions (its first token is a keyword other than `and` / `or`). -/
theorem badRules_of_acts {cx : PCtx} {ts : List PTok} {k : Kw} (h : BadActs cx tl (.kw k :: ts))
    (hk : stopBin (.kw k) = true) (c : CTree) (hw : wfK cx.rxOk .cond c = true) (hp : treePOK c = true) :
    BadRules cx tl (.kw .mtch :: (toks .cond c ++ (.kw k :: ts))) := by
  intro fuel acc s hs
  have hnl := hs.nl_eq
  cases fuel with
  | zero => simp [Rej, parseExprs, wpl, outOfFuel]
  | succ fuel =>
    unfold Rej parseExprs
    simp only [wpl_bind]
    apply wpl_peek_up cx _ _ hs rfl
    intro s1 h1
    simp only [tkOf, wpl_bind]
    apply wpl_shift_up h1
    intro s2 h2
    unfold parseRuleWith
    simp only [wpl_bind]
    refine wpl_of_rt (cond_rt cx hnl c hw hp fuel) h2 ?_
    intro s3 h3
    have hstop := binTail_stop (NoErr := L1) cx fuel (relabel c) s3 (.kw k) ts h3 hk
    refine wpl_mono hstop ?_ (fun _ _ h => h)
    rintro _ s4 ⟨rfl, h4⟩
    have hm : modeOK false false (.kw k) = true := rfl
    apply wpl_peek_up cx _ _ h4 hm
    intro s5 h5
    have hok5 := h4.ok (.kw k) (by simp)
    simp only [tkOf, wpl_bind]
    exact (h fuel none s5 (h5.up_some hok5)).elim

/-! ## Inside a rule, inside a block -/

/-- A complete action in front of the failing rest of the list. -/
theorem badActs_act {cx : PCtx} {ts : List PTok} (h : BadActs cx tl ts) (a : CTree)
    (hw : wfK cx.rxOk .act a = true) (hp : treePOK a = true) : BadActs cx tl (toks .act a ++ ts) := by
  intro fuel acc s hs
  exact all_rt cx hs.nl_eq a .act hw hp L1 acc ts (fun _ _ => False) (fun fuel' s' h' => h fuel' _ s' h') fuel s hs

theorem badActs_acts {cx : PCtx} {ts : List PTok} (h : BadActs cx tl ts) : ∀ (acts : List CTree),
    (acts.all fun a => wfK cx.rxOk .act a && treePOK a) = true → BadActs cx tl (acts.flatMap (toks .act) ++ ts) := by
  intro acts
  induction acts with
  | nil => intro _; simpa using h
  | cons a acts ih =>
    intro hall
    simp only [List.all_cons, Bool.and_eq_true] at hall
    have := badActs_act (ih (by simpa [List.all_eq_true] using hall.2)) a hall.1.1 hall.1.2
    simpa [List.flatMap_cons, List.append_assoc] using this

/-- A complete rule in front of a failing rule. -/
theorem badRules_rule {cx : PCtx} {ts : List PTok} (h : BadRules cx tl (.kw .mtch :: ts)) (r : CTree)
    (hw : wfK cx.rxOk .rule r = true) (hp : treePOK r = true) : BadRules cx tl (toks .rule r ++ (.kw .mtch :: ts)) := by
  intro fuel acc s hs
  exact all_rt cx hs.nl_eq r .rule hw hp L1 acc (.kw .mtch) ts (fun _ _ => False) rfl
    (fun fuel' s' h' => h fuel' _ s' h') fuel s hs

/-- `match c {` in front of the failing content of the nested block. -/
theorem badRules_nested {cx : PCtx} {ts : List PTok} (h : BadRules cx tl ts) (c : CTree)
    (hw : wfK cx.rxOk .cond c = true) (hp : treePOK c = true) :
    BadRules cx tl (.kw .mtch :: (toks .cond c ++ (.lbrace :: ts))) := by
  intro fuel acc s hs
  have hnl := hs.nl_eq
  cases fuel with
  | zero => simp [Rej, parseExprs, wpl, outOfFuel]
  | succ fuel =>
    unfold Rej parseExprs
    simp only [wpl_bind]
    apply wpl_peek_up cx _ _ hs rfl
    intro s1 h1
    simp only [tkOf, wpl_bind]
    apply wpl_shift_up h1
    intro s2 h2
    unfold parseRuleWith
    simp only [wpl_bind]
    refine wpl_of_rt (cond_rt cx hnl c hw hp fuel) h2 ?_
    intro s3 h3
    have hstop := binTail_stop (NoErr := L1) cx fuel (relabel c) s3 .lbrace ts h3 rfl
    refine wpl_mono hstop ?_ (fun _ _ h => h)
    rintro _ s4 ⟨rfl, h4⟩
    apply wpl_peek_up cx _ _ h4 rfl
    intro s5 h5
    simp only [tkOf, wpl_bind]
    apply wpl_shift_up h5
    intro s6 h6
    exact (h fuel none s6 h6).elim

/-- `attachment {` in front of the failing content of the attachment block. -/
theorem badActs_attach {cx : PCtx} {ts : List PTok} (h : BadRules cx tl ts) :
    BadActs cx tl (.kw .attachment :: .lbrace :: ts) := by
  intro fuel acc s hs
  cases fuel with
  | zero => simp [Rej, parseActions, wpl, outOfFuel]
  | succ fuel =>
    unfold Rej parseActions
    simp only [wpl_bind]
    apply wpl_peek_up cx _ _ hs rfl
    intro s1 h1
    simp only [tkOf, parseActionWith, wpl_bind]
    apply wpl_shift_up h1
    intro s2 h2
    refine wpl_of_rt (expectTk_rt cx .lbrace rfl) h2 ?_
    intro s3 h3
    exact (h fuel none s3 h3).elim

/-- The first token of an action is a keyword other than `and` / `or`. -/
theorem toks_act_head (rx : Pat → Bool) (t : CTree) (hw : wfK rx .act t = true) :
    ∃ k tks, toks .act t = .kw k :: tks ∧ stopBin (.kw k) = true := by
  cases t with
  | leaf e =>
    simp only [wfK, Bool.and_eq_true] at hw
    cases e <;> simp only [Expr.leafAction, Bool.false_eq_true, false_and] at hw <;>
      exact ⟨_, _, rfl, rfl⟩
  | attBlock l b => exact ⟨_, _, rfl, rfl⟩
  | _ => simp [wfK] at hw

theorem acts_head (rx : Pat → Bool) : ∀ (acts : List CTree), (acts.all fun a => wfK rx .act a && treePOK a) = true →
    ∀ (k0 : Kw) (r0 : List PTok), stopBin (.kw k0) = true →
    ∃ k tks, acts.flatMap (toks .act) ++ (.kw k0 :: r0) = .kw k :: tks ∧ stopBin (.kw k) = true := by
  intro acts
  cases acts with
  | nil => intro _ k0 r0 h0; exact ⟨k0, r0, rfl, h0⟩
  | cons a acts =>
    intro hall k0 r0 _
    simp only [List.all_cons, Bool.and_eq_true] at hall
    obtain ⟨k, tks, hk, hs⟩ := toks_act_head rx a hall.1.1
    exact ⟨k, tks ++ (acts.flatMap (toks .act) ++ (.kw k0 :: r0)), by simp [List.flatMap_cons, hk], hs⟩

/-- Whatever is written between the `{` of a block and a rule position, in front of a failing rule. -/
theorem badRules_step {cx : PCtx} {ts : List PTok} (h : BadRules cx tl (.kw .mtch :: ts)) (st : RuleStep)
    (hst : st.ok cx.rxOk = true) : BadRules cx tl (st.toks ++ (.kw .mtch :: ts)) := by
  cases st with
  | rule r =>
    simp only [RuleStep.ok, Bool.and_eq_true] at hst
    exact badRules_rule h r hst.1 hst.2
  | nested c =>
    simp only [RuleStep.ok, Bool.and_eq_true] at hst
    have := badRules_nested h c hst.1 hst.2
    simpa [RuleStep.toks, List.append_assoc] using this
  | attach c acts =>
    simp only [RuleStep.ok, Bool.and_eq_true] at hst
    obtain ⟨⟨hw, hp⟩, hacts⟩ := hst
    have h1 := badActs_acts (badActs_attach h) acts hacts
    obtain ⟨k, tks, hk, hsb⟩ := acts_head cx.rxOk acts hacts .attachment (.lbrace :: .kw .mtch :: ts) rfl
    rw [hk] at h1
    have h2 := badRules_of_acts h1 hsb c hw hp
    rw [← hk] at h2
    simpa [RuleStep.toks, List.append_assoc] using h2

theorem badRules_steps {cx : PCtx} {ts : List PTok} (h : BadRules cx tl (.kw .mtch :: ts)) : ∀ (sts : List RuleStep),
    sts.all (RuleStep.ok cx.rxOk) = true → BadRules cx tl (sts.flatMap RuleStep.toks ++ (.kw .mtch :: ts)) := by
  intro sts
  induction sts with
  | nil => intro _; simpa using h
  | cons st sts ih =>
    intro hall
    simp only [List.all_cons, Bool.and_eq_true] at hall
    -- the tokens of the remaining steps start with `match`, or there is none
    have hrest : ∃ ts', sts.flatMap RuleStep.toks ++ (.kw .mtch :: ts) = .kw .mtch :: ts' := by
      cases sts with
      | nil => exact ⟨ts, rfl⟩
      | cons st2 sts2 =>
        simp only [List.all_cons, Bool.and_eq_true] at hall
        have hh : ∃ r, st2.toks = .kw .mtch :: r := by
          cases st2 with
          | rule r =>
            have := hall.2.1
            simp only [RuleStep.ok, Bool.and_eq_true] at this
            obtain ⟨tks, ht⟩ := toks_rule_head _ r this.1
            exact ⟨tks, ht⟩
          | nested c => exact ⟨_, rfl⟩
          | attach c acts => exact ⟨_, rfl⟩
        obtain ⟨r, hr⟩ := hh
        exact ⟨r ++ (sts2.flatMap RuleStep.toks ++ (.kw .mtch :: ts)), by simp [List.flatMap_cons, hr]⟩
    obtain ⟨ts', hts'⟩ := hrest
    have h1 := ih hall.2
    rw [hts'] at h1
    have h2 := badRules_step h1 st hall.1
    rw [← hts'] at h2
    simpa [List.flatMap_cons, List.append_assoc] using h2

end Mdsort.Proofs.Conf
