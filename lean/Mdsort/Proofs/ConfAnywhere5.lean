import Mdsort.Proofs.ConfAnywhere4

/-!
# A defect behind a written prefix, part 5: the error classes at every position of a written configuration

The statements `C14_error_anywhere_rejects_file` (Props/C14.lean) is made of: for each class, the written prefix up
to a position (`Spec.RulePos` / `ActPos` / `CondPos`: any block, any rule, any nesting depth), the defect, and then
ANY text - `parseConfig` reports a diagnostic on line 1.
-/

namespace Mdsort.Proofs.Conf
open Mdsort Mdsort.Model Mdsort.Spec

/-! ## Every written token can be read back -/

theorem toks_all (rx : Pat → Bool) (t : CTree) (k : Kind) (hw : wfK rx k t = true) (hp : treePOK t = true) :
    (toks k t).all lexOK = true :=
  List.all_eq_true.mpr fun x hx => lexOK_of_tokOK (toks_ok rx t k hw hp x hx)

theorem strsToks_all (l : List Bytes) (h : l.all strLexOK = true) : (strsToks l).all lexOK = true := by
  simp only [strsToks, List.all_append, List.all_cons, List.all_nil, Bool.and_true, List.all_map, Bool.and_eq_true]
  refine ⟨⟨rfl, ?_⟩, rfl⟩
  simpa [Function.comp_def, lexOK] using h

theorem strOK_all_lex {l : List Bytes} (h : l.all strOK = true) : l.all strLexOK = true := by
  simp only [List.all_eq_true] at h ⊢
  exact fun x hx => strLexOK_of_strOK (h x hx)

theorem blocks_all (rx : Pat → Bool) (bs : List PBlock) (h : ConfOK rx bs = true) :
    (bs.flatMap blockToks).all lexOK = true := by
  obtain ⟨hall, _⟩ := confOK_parts h
  simp only [List.all_eq_true, List.mem_flatMap]
  rintro x ⟨b, hb, hx⟩
  exact lexOK_of_tokOK (blockToks_ok rx b (hall b hb).1 (hall b hb).2.1 (hall b hb).2.2 x hx)

theorem acts_all (rx : Pat → Bool) (acts : List CTree) (h : (acts.all fun a => wfK rx .act a && treePOK a) = true) :
    (acts.flatMap (toks .act)).all lexOK = true := by
  simp only [List.all_eq_true, List.mem_flatMap, Bool.and_eq_true] at h ⊢
  rintro x ⟨a, ha, hx⟩
  exact List.all_eq_true.mp (toks_all rx a .act (h a ha).1 (h a ha).2) x hx

theorem condStep_all (rx : Pat → Bool) (st : CondStep) (h : st.ok rx = true) : st.toks.all lexOK = true := by
  cases st with
  | andR a =>
    simp only [CondStep.ok, Bool.and_eq_true] at h
    simp [CondStep.toks, List.all_append, toks_all rx a .cond h.1 h.2, lexOK, tokOK]
  | orR a =>
    simp only [CondStep.ok, Bool.and_eq_true] at h
    simp [CondStep.toks, List.all_append, toks_all rx a .cond h.1 h.2, lexOK, tokOK]
  | _ => simp [CondStep.toks, lexOK, tokOK]

theorem condSteps_all (rx : Pat → Bool) (sts : List CondStep) (h : sts.all (CondStep.ok rx) = true) :
    (sts.flatMap CondStep.toks).all lexOK = true := by
  simp only [List.all_eq_true, List.mem_flatMap] at h ⊢
  rintro x ⟨st, hst, hx⟩
  exact List.all_eq_true.mp (condStep_all rx st (h st hst)) x hx

theorem ruleStep_all (rx : Pat → Bool) (st : RuleStep) (h : st.ok rx = true) : st.toks.all lexOK = true := by
  cases st with
  | rule r =>
    simp only [RuleStep.ok, Bool.and_eq_true] at h
    exact toks_all rx r .rule h.1 h.2
  | nested c =>
    simp only [RuleStep.ok, Bool.and_eq_true] at h
    simp [RuleStep.toks, List.all_append, toks_all rx c .cond h.1 h.2, lexOK, tokOK]
  | attach c acts =>
    simp only [RuleStep.ok, Bool.and_eq_true] at h
    simp [RuleStep.toks, List.all_append, toks_all rx c .cond h.1.1 h.1.2, acts_all rx acts h.2, lexOK, tokOK]

theorem ruleSteps_all (rx : Pat → Bool) (sts : List RuleStep) (h : sts.all (RuleStep.ok rx) = true) :
    (sts.flatMap RuleStep.toks).all lexOK = true := by
  simp only [List.all_eq_true, List.mem_flatMap] at h ⊢
  rintro x ⟨st, hst, hx⟩
  exact List.all_eq_true.mp (ruleStep_all rx st (h st hst)) x hx

theorem headToks_all (paths : List Bytes) (h : paths.all strOK = true) : (headToks paths).all lexOK = true := by
  unfold headToks
  split
  · rfl
  · simp [List.all_append, strsToks_all paths (strOK_all_lex h), lexOK, tokOK]

theorem rulePos_all (rx : Pat → Bool) (p : RulePos) (h : p.ok rx = true) : p.toks.all lexOK = true := by
  simp only [RulePos.ok, Bool.and_eq_true] at h
  obtain ⟨⟨⟨hpre, hpaths⟩, _⟩, hsteps⟩ := h
  simp [RulePos.toks, List.all_append, blocks_all rx p.pre hpre, headToks_all p.paths hpaths,
    ruleSteps_all rx p.steps hsteps, lexOK, tokOK]

theorem actPos_all (rx : Pat → Bool) (p : ActPos) (h : p.ok rx = true) : p.toks.all lexOK = true := by
  simp only [ActPos.ok, Bool.and_eq_true] at h
  obtain ⟨⟨⟨hrp, hw⟩, hpk⟩, hacts⟩ := h
  simp [ActPos.toks, List.all_append, rulePos_all rx p.rp hrp, toks_all rx p.cond .cond hw hpk, acts_all rx p.acts hacts,
    lexOK, tokOK]

theorem condPos_all (rx : Pat → Bool) (p : CondPos) (h : p.ok rx = true) : p.toks.all lexOK = true := by
  simp only [CondPos.ok, Bool.and_eq_true] at h
  simp [CondPos.toks, List.all_append, rulePos_all rx p.rp h.1, condSteps_all rx p.steps h.2, lexOK, tokOK]

theorem badList_all (l1 l2 : List Bytes) (b : Bytes) (h1 : l1.all strOK = true) (h2 : l2.all strLexOK = true)
    (hb : strLexOK b = true) : (l1 ++ b :: l2).all strLexOK = true := by
  simp [List.all_append, strOK_all_lex h1, h2, hb]

theorem actSite_all (site : ActSite) (hsite : site.ok = true) (b : Bytes) (hb : strLexOK b = true) :
    (site.toks b).all lexOK = true := by
  cases site with
  | move => simp [ActSite.toks, lexOK, tokOK, hb]
  | flags => simp [ActSite.toks, lexOK, tokOK, hb]
  | label l1 l2 =>
    simp only [ActSite.ok, Bool.and_eq_true] at hsite
    simp [ActSite.toks, strsToks_all _ (badList_all l1 l2 b hsite.1 hsite.2 hb), lexOK, tokOK]
  | exec si bo l1 l2 =>
    simp only [ActSite.ok, Bool.and_eq_true] at hsite
    cases si <;> cases bo <;>
      simp [ActSite.toks, List.all_append, strsToks_all _ (badList_all l1 l2 b hsite.1 hsite.2 hb), lexOK, tokOK]
  | addHeaderKey v =>
    have hv : strLexOK v = true := hsite
    simp [ActSite.toks, lexOK, tokOK, hb, hv]
  | addHeaderValue k =>
    have hk : strOK k = true := hsite
    simp [ActSite.toks, lexOK, tokOK, hb, strLexOK_of_strOK hk]

theorem condSite_all (site : CondSite) (hsite : site.ok = true) (b : Bytes) (hb : strLexOK b = true) :
    (site.toks b).all lexOK = true := by
  cases site with
  | header l1 l2 p =>
    simp only [CondSite.ok, Bool.and_eq_true] at hsite
    simp [CondSite.toks, List.all_append, strsToks_all _ (badList_all l1 l2 b hsite.1.1 hsite.1.2 hb), lexOK, tokOK, hsite.2]
  | isdirectory => simp [CondSite.toks, lexOK, tokOK, hb]
  | command l1 l2 =>
    simp only [CondSite.ok, Bool.and_eq_true] at hsite
    simp [CondSite.toks, strsToks_all _ (badList_all l1 l2 b hsite.1 hsite.2 hb), lexOK, tokOK]

/-- An action with a string starts with a keyword other than `and` / `or`. -/
theorem actSite_head (site : ActSite) (b : Bytes) : ∃ k tks, site.toks b = .kw k :: tks ∧ stopBin (.kw k) = true := by
  cases site <;> exact ⟨_, _, rfl, rfl⟩

/-! ## The classes -/

/-- Unknown macro (or `${path}` where it is not allowed) in a string of an action, at any action position. -/
theorem anywhere_action_string (home : Bytes) (rx : Pat → Bool) (p : ActPos) (hp : p.ok rx = true) (site : ActSite)
    (hsite : site.ok = true) (b : Bytes) (hb : BadRef site.action b) (tl : Bytes) (htl : tailOK tl = true) :
    parseConfig home [] rx (Spec.render (p.toks ++ site.toks b) ++ tl) = .error 1 := by
  refine parseConfig_rejected home rx _ tl htl ?_ ?_
  · exact List.all_eq_true.mp (by simp [List.all_append, actPos_all rx p hp, actSite_all site hsite b hb.1])
  · intro fuel s hs
    generalize hcx : ({ nl := countNl tl, home := home, rxOk := rx } : PCtx) = cx at hs ⊢
    have hrx : cx.rxOk = rx := by rw [← hcx]
    simp only [ActPos.ok, Bool.and_eq_true] at hp
    obtain ⟨⟨⟨hrp, hw⟩, hpk⟩, hacts⟩ := hp
    rw [← hrx] at hrp hw hacts
    have h0 : BadActs cx tl (site.toks b ++ []) := badActs_site cx site hsite b hb []
    have h1 := badActs_acts h0 p.acts hacts
    obtain ⟨k0, r0, hk0, hs0⟩ := actSite_head site b
    obtain ⟨k, tks, hk, hsb⟩ := acts_head cx.rxOk p.acts hacts k0 (r0 ++ []) hs0
    rw [hk0, List.cons_append, hk] at h1
    have h2 := badRules_of_acts h1 hsb p.cond hw hpk
    refine rej_top cx p.rp hrp _ h2 fuel s ?_
    rw [← hk]
    rw [hk0] at hs
    simpa [ActPos.toks, List.append_assoc] using hs

/-- Unknown macro, or `${path}`, in a string of a condition, at any operand position of any condition. -/
theorem anywhere_cond_string (home : Bytes) (rx : Pat → Bool) (p : CondPos) (hp : p.ok rx = true) (site : CondSite)
    (hsite : site.ok = true) (b : Bytes) (hb : BadRef false b) (tl : Bytes) (htl : tailOK tl = true) :
    parseConfig home [] rx (Spec.render (p.toks ++ site.toks b) ++ tl) = .error 1 := by
  refine parseConfig_rejected home rx _ tl htl ?_ ?_
  · exact List.all_eq_true.mp (by simp [List.all_append, condPos_all rx p hp, condSite_all site hsite b hb.1])
  · intro fuel s hs
    generalize hcx : ({ nl := countNl tl, home := home, rxOk := rx } : PCtx) = cx at hs ⊢
    have hrx : cx.rxOk = rx := by rw [← hcx]
    simp only [CondPos.ok, Bool.and_eq_true] at hp
    rw [← hrx] at hp
    have h0 : BadUnary cx tl (site.toks b ++ []) := badUnary_site cx site hsite b hb []
    have h1 := badRules_of_unary (badUnary_steps h0 p.steps hp.2)
    refine rej_top cx p.rp hp.1 _ h1 fuel s ?_
    simpa [CondPos.toks, List.append_assoc] using hs

/-- A `date` condition whose unit is a word that is no unit, at any operand position of any condition. -/
theorem anywhere_unit (home : Bytes) (rx : Pat → Bool) (p : CondPos) (hp : p.ok rx = true) (f : DateField) (c : DateCmp)
    (n : Nat) (hn : n < 2 ^ 32) (w tail : Bytes) (hw : badUnitWord w = true)
    (htail : ∀ x, tail.head? = some x → isKwChar x = false) :
    parseConfig home [] rx
      (Spec.render (p.toks ++ (.kw .date :: (fieldToks f ++ [cmpTok c, .int n]))) ++ 32 :: (w ++ tail)) = .error 1 := by
  refine parseConfig_rejected home rx _ (32 :: (w ++ tail)) rfl ?_ ?_
  · have hd : (PTok.kw .date :: (fieldToks f ++ [cmpTok c, .int n])).all lexOK = true := by
      cases f <;> cases c <;> simp [fieldToks, cmpTok, lexOK, tokOK, hn]
    exact List.all_eq_true.mp (by simp only [List.all_append, condPos_all rx p hp, hd, Bool.and_self])
  · intro fuel s hs
    generalize hcx : ({ nl := countNl (32 :: (w ++ tail)), home := home, rxOk := rx } : PCtx) = cx at hs ⊢
    have hrx : cx.rxOk = rx := by rw [← hcx]
    simp only [CondPos.ok, Bool.and_eq_true] at hp
    rw [← hrx] at hp
    have h0 := badUnary_unit cx f c n w tail hw htail
    have h1 := badRules_of_unary (badUnary_steps h0 p.steps hp.2)
    refine rej_top cx p.rp hp.1 _ h1 fuel s ?_
    simpa [CondPos.toks, List.append_assoc] using hs

/-- Unknown macro, or `${path}`, in a path of a `maildir` block, behind any complete blocks. -/
theorem anywhere_path (home : Bytes) (rx : Pat → Bool) (pre : List PBlock) (hpre : ConfOK rx pre = true)
    (l1 l2 : List Bytes) (h1 : l1.all strOK = true) (h2 : l2.all strLexOK = true) (b : Bytes) (hb : BadRef false b)
    (tl : Bytes) (htl : tailOK tl = true) :
    parseConfig home [] rx (Spec.render (pre.flatMap blockToks ++ (.kw .maildir :: strsToks (l1 ++ b :: l2))) ++ tl) = .error 1 := by
  refine parseConfig_rejected home rx _ tl htl ?_ ?_
  · exact List.all_eq_true.mp (by
      simp [List.all_append, blocks_all rx pre hpre, strsToks_all _ (badList_all l1 l2 b h1 h2 hb.1), lexOK, tokOK])
  · intro fuel s hs
    exact rej_top_paths _ pre hpre l1 l2 b hb (by simpa [List.all_eq_true] using h1) [] fuel s (by simpa using hs)

/-- `stdin` behind complete blocks one of which reads from stdin. -/
theorem anywhere_second_stdin (home : Bytes) (rx : Pat → Bool) (pre : List PBlock) (hpre : ConfOK rx pre = true)
    (hany : (pre.any fun x => x.paths.any isStdinStr) = true) (tl : Bytes) (htl : tailOK tl = true) :
    parseConfig home [] rx (Spec.render (pre.flatMap blockToks ++ [.kw .stdin]) ++ tl) = .error 1 := by
  refine parseConfig_rejected home rx _ tl htl ?_ ?_
  · exact List.all_eq_true.mp (by simp [List.all_append, blocks_all rx pre hpre, lexOK, tokOK])
  · intro fuel s hs
    exact rej_top_stdin _ pre hpre hany [] fuel s hs

/-- What `render` writes is nothing, or a blank and anything. -/
theorem tailOK_render (ts : List PTok) : tailOK (Spec.render ts) = true := by
  cases ts with
  | nil => rfl
  | cons t ts => rw [render_cons]; rfl

/-- The same for whole written files: the second block written `stdin`, at any two positions. -/
theorem second_stdin_file (home : Bytes) (rx : Pat → Bool) (pre : List PBlock) (b1 : PBlock) (mid : List PBlock) (b2 : PBlock)
    (post : List PBlock) (hpre : ConfOK rx (pre ++ b1 :: mid) = true) (h1 : b1.paths.any isStdinStr = true)
    (h2 : b2.paths = [stdinStr]) :
    parseConfig home [] rx (printBlocks (pre ++ b1 :: (mid ++ b2 :: post))) = .error 1 := by
  have := anywhere_second_stdin home rx (pre ++ b1 :: mid) hpre (by simp [h1])
    (Spec.render (toks .block b2.tree ++ post.flatMap blockToks)) (tailOK_render _)
  rw [← render_append] at this
  have he : (pre ++ b1 :: mid).flatMap blockToks ++ [PTok.kw .stdin] ++ (toks .block b2.tree ++ post.flatMap blockToks) =
      (pre ++ b1 :: (mid ++ b2 :: post)).flatMap blockToks := by
    simp [List.flatMap_append, List.flatMap_cons, blockToks, h2, List.append_assoc]
  rw [he] at this
  exact this

end Mdsort.Proofs.Conf
