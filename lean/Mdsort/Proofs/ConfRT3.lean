import Mdsort.Proofs.ConfRT2

/-!
# Reading back what `Spec.printBlocks` writes, part 3: actions, rules, blocks
-/

namespace Mdsort.Proofs.Conf
open Mdsort Mdsort.Model Mdsort.Spec

variable {tl : Bytes} {NoErr : Nat → ParseSt → Prop}

/-! `relabel` does not change what the semantic checks count. -/

theorem leafAction_withLno (e : Expr) : (Expr.withLno 1 e).leafAction = e.leafAction := by cases e <;> rfl
theorem isDiscard_withLno (e : Expr) : (Expr.withLno 1 e).isDiscard = e.isDiscard := by cases e <;> rfl
theorem isReject_withLno (e : Expr) : (Expr.withLno 1 e).isReject = e.isReject := by cases e <;> rfl
theorem isExec_withLno (e : Expr) : (Expr.withLno 1 e).isExec = e.isExec := by cases e <;> rfl

theorem countActions_relabel (t : CTree) : (relabel t).countActions = t.countActions := by
  induction t <;> simp_all [relabel, CTree.countActions, leafAction_withLno]

theorem countLeaf_relabel (p : Expr → Bool) (hp : ∀ e, p (Expr.withLno 1 e) = p e) (t : CTree) :
    (relabel t).countLeaf p = t.countLeaf p := by
  induction t <;> simp_all [relabel, CTree.countLeaf]

/-! Accumulators of the two loops. -/

def joinA (acc : Option CTree) (a : CTree) : CTree :=
  match acc with
  | none => a
  | some p => .and 1 p a

def joinAs (acc : Option CTree) : CTree → CTree
  | .and _ x y => .and 1 (joinAs acc x) (relabel y)
  | t => joinA acc (relabel t)

def joinR (acc : Option CTree) (r : CTree) : CTree :=
  match acc with
  | none => r
  | some p => .or 1 p r

def joinRs (acc : Option CTree) : CTree → CTree
  | .or _ x y => .or 1 (joinRs acc x) (relabel y)
  | t => joinR acc (relabel t)

theorem joinAs_none (rx : Pat → Bool) : ∀ t, wfK rx .acts t = true → joinAs none t = relabel t := by
  intro t
  induction t with
  | and l x y ihx _ =>
    intro h
    simp only [wfK, Bool.and_eq_true] at h
    simp only [joinAs, relabel, ihx h.1]
  | leaf e => intro _; rfl
  | attBlock l b _ => intro _; rfl
  | _ => intro h; simp [wfK] at h

theorem joinRs_none (rx : Pat → Bool) : ∀ t, wfK rx .rules t = true → joinRs none t = relabel t := by
  intro t
  induction t with
  | or l x y ihx _ =>
    intro h
    simp only [wfK, Bool.and_eq_true] at h
    simp only [joinRs, relabel, ihx h.1]
  | mtch l c r _ _ => intro _; rfl
  | _ => intro h; simp [wfK] at h

/-- Tokens after which no further action follows. -/
def stopAct : PTok → Bool
  | .kw .mtch | .rbrace => true
  | _ => false

theorem acts_stop (cx : PCtx) (fuel : Nat) (acc : Option CTree) (s : ParseSt) (t : PTok) (ts : List PTok)
    (hs : Up cx tl s (t :: ts)) (ht : stopAct t = true) :
    wpl (parseActions cx fuel acc) (fun a s' => a = acc ∧ Up cx tl s' (t :: ts)) NoErr True s := by
  cases fuel with
  | zero => simp [parseActions, wpl, outOfFuel]
  | succ fuel =>
    unfold parseActions
    simp only [wpl_bind]
    have hok := hs.ok t (by simp)
    cases t <;> simp only [stopAct, Bool.false_eq_true] at ht
    · rename_i k
      cases k <;> simp only [stopAct, Bool.false_eq_true] at ht
      apply wpl_peek_up cx _ _ hs rfl
      intro s1 h1
      simp only [tkOf, parseActionWith, wpl_pure]
      exact ⟨by first | trivial | rfl, h1.up_some hok⟩
    · apply wpl_peek_up cx _ _ hs rfl
      intro s1 h1
      simp only [tkOf, wpl_pure]
      exact ⟨by first | trivial | rfl, h1.up_some hok⟩

/-- `andJoin` on line 1. -/
theorem wpl_andJoin (cx : PCtx) (hnl : cx.nl = countNl tl) (acc : Option CTree) (a : CTree) {Q : Option CTree → ParseSt → Prop}
    {s : ParseSt} {ts : List PTok} (h : Up cx tl s ts) (hQ : Q (some (joinA acc a)) s) :
    wpl (andJoin cx acc a) Q NoErr True s := by
  unfold andJoin
  simp only [wpl_bind, wpl_pure]
  apply wpl_curLine_up cx hnl h
  cases acc <;> exact hQ

/-- What is to be shown of a tree, by kind. -/
def Goal (cx : PCtx) (tl : Bytes) (NoErr : Nat → ParseSt → Prop) : Kind → CTree → Prop
  | .cond, _ => True
  | .act, t => ∀ (acc : Option CTree) (ts : List PTok) (Q : Option CTree → ParseSt → Prop),
      (∀ fuel' s', Up cx tl s' ts → wpl (parseActions cx fuel' (some (joinA acc (relabel t)))) Q NoErr True s') →
      ∀ fuel s, Up cx tl s (toks .act t ++ ts) → wpl (parseActions cx fuel acc) Q NoErr True s
  | .acts, t => ∀ (acc : Option CTree) (ts : List PTok) (Q : Option CTree → ParseSt → Prop),
      (∀ fuel' s', Up cx tl s' ts → wpl (parseActions cx fuel' (some (joinAs acc t))) Q NoErr True s') →
      ∀ fuel s, Up cx tl s (toks .acts t ++ ts) → wpl (parseActions cx fuel acc) Q NoErr True s
  | .rule, t => ∀ (acc : Option CTree) (t0 : PTok) (ts : List PTok) (Q : CTree → ParseSt → Prop), stopAct t0 = true →
      (∀ fuel' s', Up cx tl s' (t0 :: ts) → wpl (parseExprs cx fuel' (some (joinR acc (relabel t)))) Q NoErr True s') →
      ∀ fuel s, Up cx tl s (toks .rule t ++ t0 :: ts) → wpl (parseExprs cx fuel acc) Q NoErr True s
  | .rules, t => ∀ (acc : Option CTree) (t0 : PTok) (ts : List PTok) (Q : CTree → ParseSt → Prop), stopAct t0 = true →
      (∀ fuel' s', Up cx tl s' (t0 :: ts) → wpl (parseExprs cx fuel' (some (joinRs acc t))) Q NoErr True s') →
      ∀ fuel s, Up cx tl s (toks .rules t ++ t0 :: ts) → wpl (parseExprs cx fuel acc) Q NoErr True s
  | .block, t => ∀ fuel, RT cx tl (parseExprs cx fuel none) (relabel t) ((toks .block t).drop 1)

/-- An action without block. -/
theorem act_leaf_goal (cx : PCtx) (hnl : cx.nl = countNl tl) (e : Expr) (ha : e.leafAction = true) (hok : leafOK cx.rxOk e = true)
    (hp : leafPOK e = true) : Goal cx tl NoErr .act (.leaf e) := by
  intro acc ts Q hQ fuel s hs
  cases fuel with
  | zero => simp [parseActions, wpl, outOfFuel]
  | succ fuel =>
    unfold parseActions
    simp only [wpl_bind]
    simp only [toks] at hs
    have fin : ∀ s', Up cx tl s' ts → wpl (andJoin cx acc (.leaf (Expr.withLno 1 e)) >>= fun acc' => parseActions cx fuel acc') Q NoErr True s' := by
      intro s' h'
      simp only [wpl_bind]
      exact wpl_andJoin cx hnl acc _ h' (hQ fuel s' h')
    cases e <;> simp only [Expr.leafAction, Bool.false_eq_true] at ha
    case move l p =>
      simp only [actLeafToks, List.cons_append, List.nil_append] at hs
      apply wpl_peek_up cx _ _ hs rfl
      intro s1 h1
      simp only [tkOf, parseActionWith, wpl_bind]
      apply wpl_shift_up h1
      intro s2 h2
      refine wpl_of_rt (parseStr_rt cx p) h2 ?_
      intro s3 h3
      apply wpl_curLine_up cx hnl h3
      have hps : strOK p = true := by simpa [leafPOK] using hp
      apply wpl_expandOne_up cx true p hps h3
      simp only [wpl_pure]
      have := fin s3 h3
      simp only [wpl_bind] at this
      exact this
    case flag l sub =>
      have hsub : sub = curStr ∨ sub = newStr := by simpa [leafPOK] using hp
      have hs' : Up cx tl s (.kw .flag :: ((if sub == curStr then [PTok.bang] else []) ++ .kw .new :: ts)) := by
        simpa [actLeafToks] using hs
      apply wpl_peek_up cx _ _ hs' rfl
      intro s1 h1
      simp only [tkOf, parseActionWith, wpl_bind]
      apply wpl_shift_up h1
      intro s2 h2
      rcases hsub with rfl | rfl
      · -- `flag ! new`
        have h2' : Up cx tl s2 (.bang :: .kw .new :: ts) := by simpa using h2
        unfold parseOptNeg
        simp only [wpl_bind]
        apply wpl_peek_up cx _ _ h2' rfl
        intro s3 h3
        simp only [tkOf, wpl_bind, wpl_pure]
        apply wpl_shift_up h3
        intro s4 h4
        refine wpl_of_rt (expectTk_rt cx (.kw .new) rfl) h4 ?_
        intro s5 h5
        apply wpl_curLine_up cx hnl h5
        have := fin s5 h5
        simpa only [wpl_bind, if_true, curStr, Expr.withLno] using this
      · -- `flag new`
        have hne : (newStr == curStr) = false := by decide
        have h2' : Up cx tl s2 (.kw .new :: ts) := by simpa [hne] using h2
        unfold parseOptNeg
        simp only [wpl_bind]
        apply wpl_peek_up cx _ _ h2' rfl
        intro s3 h3
        simp only [tkOf, wpl_bind, wpl_pure]
        have hok := h2'.ok (.kw .new) (by simp)
        refine wpl_of_rt (expectTk_rt cx (.kw .new) rfl) (h3.up_some hok) ?_
        intro s5 h5
        apply wpl_curLine_up cx hnl h5
        have := fin s5 h5
        simpa only [wpl_bind, Bool.false_eq_true, if_false, newStr, Expr.withLno] using this
    case flags l f =>
      simp only [actLeafToks, List.cons_append, List.nil_append] at hs
      apply wpl_peek_up cx _ _ hs rfl
      intro s1 h1
      simp only [tkOf, parseActionWith, wpl_bind]
      apply wpl_shift_up h1
      intro s2 h2
      refine wpl_of_rt (parseStr_rt cx f) h2 ?_
      intro s3 h3
      apply wpl_curLine_up cx hnl h3
      have hfs : strOK f = true := by simpa [leafPOK] using hp
      apply wpl_expandMac_up false f hfs h3
      simp only [wpl_pure]
      have := fin s3 h3
      simp only [wpl_bind] at this
      exact this
    case discard l =>
      simp only [actLeafToks, List.cons_append, List.nil_append] at hs
      apply wpl_peek_up cx _ _ hs rfl
      intro s1 h1
      simp only [tkOf, parseActionWith, wpl_bind]
      apply wpl_shift_up h1
      intro s2 h2
      simp only [leafAt, wpl_bind, wpl_pure]
      apply wpl_curLine_up cx hnl h2
      have := fin s2 h2
      simp only [wpl_bind] at this
      exact this
    case brk l =>
      simp only [actLeafToks, List.cons_append, List.nil_append] at hs
      apply wpl_peek_up cx _ _ hs rfl
      intro s1 h1
      simp only [tkOf, parseActionWith, wpl_bind]
      apply wpl_shift_up h1
      intro s2 h2
      simp only [leafAt, wpl_bind, wpl_pure]
      apply wpl_curLine_up cx hnl h2
      have := fin s2 h2
      simp only [wpl_bind] at this
      exact this
    case pass l =>
      simp only [actLeafToks, List.cons_append, List.nil_append] at hs
      apply wpl_peek_up cx _ _ hs rfl
      intro s1 h1
      simp only [tkOf, parseActionWith, wpl_bind]
      apply wpl_shift_up h1
      intro s2 h2
      simp only [leafAt, wpl_bind, wpl_pure]
      apply wpl_curLine_up cx hnl h2
      have := fin s2 h2
      simp only [wpl_bind] at this
      exact this
    case reject l =>
      simp only [actLeafToks, List.cons_append, List.nil_append] at hs
      apply wpl_peek_up cx _ _ hs rfl
      intro s1 h1
      simp only [tkOf, parseActionWith, wpl_bind]
      apply wpl_shift_up h1
      intro s2 h2
      simp only [leafAt, wpl_bind, wpl_pure]
      apply wpl_curLine_up cx hnl h2
      have := fin s2 h2
      simp only [wpl_bind] at this
      exact this
    case label l ls =>
      simp only [actLeafToks, List.cons_append, List.nil_append] at hs
      apply wpl_peek_up cx _ _ hs rfl
      intro s1 h1
      simp only [tkOf, parseActionWith, wpl_bind]
      apply wpl_shift_up h1
      intro s2 h2
      refine wpl_of_rt (parseStrings_rt cx ls fuel) h2 ?_
      intro s3 h3
      apply wpl_curLine_up cx hnl h3
      have hls : ∀ b ∈ ls, strOK b = true := by
        simp only [leafPOK, List.all_eq_true] at hp; exact hp
      apply wpl_expandAll_up cx true ls hls h3
      simp only [wpl_pure]
      have := fin s3 h3
      simp only [wpl_bind] at this
      exact this
    case exec l si bo argv =>
      have hargv : ∀ b ∈ argv, strOK b = true := by
        simp only [leafPOK, List.all_eq_true] at hp; exact hp
      have hsb : (bo && !si) = false := by
        simp only [leafOK] at hok
        cases si <;> cases bo <;> simp_all
      have hs' : Up cx tl s (.kw .exec :: ((if si then [PTok.kw .stdin] else []) ++ (if bo then [PTok.kw .body] else []) ++ strsToks argv ++ ts)) := by
        simpa [actLeafToks, List.append_assoc] using hs
      apply wpl_peek_up cx _ _ hs' rfl
      intro s1 h1
      simp only [tkOf, parseActionWith, wpl_bind]
      apply wpl_shift_up h1
      intro s2 h2
      -- the options
      have hfl : wpl (parseExecFlags cx fuel false false) (fun fl s' => fl = (si, bo) ∧ Up cx tl s' (strsToks argv ++ ts)) NoErr True s2 := by
        have hstop : ∀ (f : Nat) (a b : Bool) (s' : ParseSt), Up cx tl s' (strsToks argv ++ ts) →
            wpl (parseExecFlags cx f a b) (fun fl s'' => fl = (a, b) ∧ Up cx tl s'' (strsToks argv ++ ts)) NoErr True s' := by
          intro f a b s' h'
          cases f with
          | zero => simp [parseExecFlags, wpl, outOfFuel]
          | succ f =>
            unfold parseExecFlags
            simp only [wpl_bind]
            have h'' : Up cx tl s' (.lbrace :: (argv.map PTok.str ++ [.rbrace] ++ ts)) := by
              simpa [strsToks, List.append_assoc] using h'
            apply wpl_peek_up cx _ _ h'' rfl
            intro s1' h1'
            simp only [tkOf, wpl_pure]
            refine ⟨by first | trivial | rfl, ?_⟩
            have := h1'.up_some (h''.ok _ (by simp))
            simpa [strsToks, List.append_assoc] using this
        cases fuel with
        | zero => simp [parseExecFlags, wpl, outOfFuel]
        | succ fuel =>
          cases si <;> cases bo <;>
            simp only [if_true, if_false, Bool.false_eq_true, List.nil_append, List.cons_append, List.append_assoc] at h2
          · exact hstop _ _ _ s2 (by simpa [List.append_assoc] using h2)
          · -- body only: excluded by `leafOK`
            simp at hsb
          · -- stdin
            unfold parseExecFlags
            simp only [wpl_bind]
            apply wpl_peek_up cx _ _ h2 rfl
            intro s3 h3
            simp only [tkOf, wpl_bind]
            apply wpl_shift_up h3
            intro s4 h4
            simp only [wpl_ite, Bool.false_eq_true, if_false]
            exact hstop _ _ _ s4 (by simpa [List.append_assoc] using h4)
          · -- stdin body
            unfold parseExecFlags
            simp only [wpl_bind]
            apply wpl_peek_up cx _ _ h2 rfl
            intro s3 h3
            simp only [tkOf, wpl_bind]
            apply wpl_shift_up h3
            intro s4 h4
            simp only [wpl_ite, Bool.false_eq_true, if_false]
            cases fuel with
            | zero => simp [parseExecFlags, wpl, outOfFuel]
            | succ fuel =>
              unfold parseExecFlags
              simp only [wpl_bind]
              apply wpl_peek_up cx _ _ h4 rfl
              intro s5 h5
              simp only [tkOf, wpl_bind]
              apply wpl_shift_up h5
              intro s6 h6
              simp only [wpl_ite, Bool.false_eq_true, if_false]
              exact hstop _ _ _ s6 (by simpa [List.append_assoc] using h6)
      refine wpl_mono hfl ?_ (fun _ _ h => h)
      rintro _ s3 ⟨rfl, h3⟩
      refine wpl_of_rt (parseStrings_rt cx argv (fuel)) h3 ?_
      intro s4 h4
      apply wpl_curLine_up cx hnl h4
      apply wpl_expandAll_up cx true argv hargv h4
      simp only [hsb, wpl_ite, Bool.false_eq_true, if_false, wpl_pure]
      have := fin s4 h4
      simp only [wpl_bind] at this
      exact this
    case addHeader l k v =>
      simp only [actLeafToks, List.cons_append, List.nil_append] at hs
      apply wpl_peek_up cx _ _ hs rfl
      intro s1 h1
      simp only [tkOf, parseActionWith, wpl_bind]
      apply wpl_shift_up h1
      intro s2 h2
      refine wpl_of_rt (parseStr_rt cx k) h2 ?_
      intro s3 h3
      refine wpl_of_rt (parseStr_rt cx v) h3 ?_
      intro s4 h4
      apply wpl_curLine_up cx hnl h4
      have hkv : strOK k = true ∧ strOK v = true := by simpa [leafPOK] using hp
      apply wpl_expandMac_up false k hkv.1 h4
      apply wpl_expandMac_up true v hkv.2 h4
      simp only [wpl_pure]
      have := fin s4 h4
      simp only [wpl_bind] at this
      exact this

end Mdsort.Proofs.Conf
