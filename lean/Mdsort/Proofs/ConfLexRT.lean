import Mdsort.Proofs.Lex
import Mdsort.Proofs.ConfBasic
import Mdsort.Spec.Conf
import Mdsort.Spec.ConfDefect

/-!
# The lexer reads back every token `Spec.render` writes
-/

namespace Mdsort.Proofs.Conf
open Mdsort Mdsort.Model Mdsort.Spec

/-- The grammar terminal a written token is read as. -/
def tkOf : PTok → Tk
  | .kw k => .kw k
  | .str b => .str b
  | .int n => .int n
  | .seconds => .scalar (some 1)
  | .pat p => .pat p
  | .bang => .neg
  | .lbrace => .lbrace
  | .rbrace => .rbrace
  | .lparen => .lparen
  | .rparen => .rparen
  | .lt => .lt
  | .gt => .gt

theorem tkOf_ne_eof (t : PTok) : tkOf t ≠ .eof := by cases t <;> simp [tkOf]

/-- What the lexer must be able to read back. -/
def tokOK : PTok → Bool
  | .str b => strOK b
  | .int n => decide (n < 2 ^ 32)
  | .pat p => patOK p
  | _ => true

/-- The lexer modes under which a token is read back (`pflag`, `sflag`). -/
def modeOK (pf sf : Bool) : PTok → Bool
  | .pat _ => pf
  | .seconds => !pf && sf
  | .str _ => true
  | _ => !pf

/-- What the lexer can read back, whether or not it means itself: as `tokOK`, but a string may hold `$`. -/
def lexOK : PTok → Bool
  | .str b => strLexOK b
  | t => tokOK t

theorem strLexOK_of_strOK {b : Bytes} (h : strOK b = true) : strLexOK b = true := by
  simp only [strOK, Bool.and_eq_true, List.all_eq_true, bne_iff_ne, ne_eq, decide_eq_true_eq] at h
  simp only [strLexOK, Bool.and_eq_true, List.all_eq_true, bne_iff_ne, ne_eq, decide_eq_true_eq]
  exact ⟨⟨⟨⟨h.1.1.1.1, fun c hc => (h.1.1.1.2 c hc).1⟩, h.1.1.2⟩, h.1.2⟩, h.2⟩

theorem lexOK_of_tokOK {t : PTok} (h : tokOK t = true) : lexOK t = true := by
  cases t <;> first | exact strLexOK_of_strOK h | exact h

theorem render_nil : Spec.render [] = [] := rfl
theorem render_cons (t : PTok) (ts : List PTok) : Spec.render (t :: ts) = 32 :: (t.bytes ++ Spec.render ts) := by
  simp [Spec.render, List.flatMap_cons]

theorem render_append (a b : List PTok) : Spec.render (a ++ b) = Spec.render a ++ Spec.render b := by
  simp [Spec.render, List.flatMap_append]

/-- What follows a token is the end of the text or a blank. -/
theorem render_head (ts : List PTok) : ∀ c, (Spec.render ts).head? = some c → c = 32 := by
  intro c h
  cases ts with
  | nil => simp [render_nil] at h
  | cons t ts => rw [render_cons] at h; simpa using h.symm

theorem lex1_blank (pf sf : Bool) (c : UInt8) (r : Bytes) (h1 : isspace c = false) (h2 : (c == 35) = false) :
    lex1 pf sf false (32 :: c :: r) = lex1 pf sf false (c :: r) := by
  have h32 : isspace 32 = true := by decide
  simp [lex1, h32, h1, h2]

theorem lex1_nil (pf sf : Bool) : lex1 pf sf false [] = { tok := .eof, rest := [], errors := 0 } := by
  simp [lex1]

/-! ### Punctuation -/

theorem lex1_punct (sf : Bool) (c : UInt8) (rest : Bytes)
    (hc : c = 123 ∨ c = 125 ∨ c = 40 ∨ c = 41 ∨ c = 60 ∨ c = 62) :
    lex1 false sf false (c :: rest) = { tok := .char c, rest := rest, errors := 0 } := by
  rcases hc with rfl | rfl | rfl | rfl | rfl | rfl <;> simp [lex1, lex1.lexTok, isspace, isdigit, islower]

theorem lex1_bang (pf sf : Bool) (rest : Bytes) :
    lex1 pf sf false (33 :: rest) = { tok := .neg, rest := rest, errors := 0 } := by
  simp [lex1, isspace]

/-! ### `seconds` -/

theorem lex1_seconds (rest : Bytes) (hr : ∀ c, rest.head? = some c → c = 32) :
    lex1 false true false ([115, 101, 99, 111, 110, 100, 115] ++ rest) =
      { tok := .scalar (some 1), rest := rest, errors := 0 } := by
  have hr' : ∀ c, rest.head? = some c → isKwChar c = false := by
    intro c hc; rw [hr c hc]; decide
  obtain ⟨htw, hdw⟩ := LexAux.takeWhile_append_stop isKwChar [115, 101, 99, 111, 110, 100, 115] rest (by decide) hr'
  have hl : islower 115 = true := by decide
  rw [List.cons_append, LexAux.lex1_of_lower _ _ _ _ hl]
  rw [List.cons_append] at htw hdw
  unfold lex1.lexTok
  have h34 : ((115 : UInt8) == 34) = false := by decide
  have hd : isdigit 115 = false := by decide
  simp only [h34, hd, hl, htw, hdw, if_true, Bool.false_eq_true, if_false]
  rw [if_neg (by decide)]
  rfl

/-! ### Patterns -/

theorem collect_plain (d : UInt8) (rest : Bytes) : ∀ (b acc : Bytes) (fuel : Nat),
    (∀ c ∈ b, c ≠ d ∧ c ≠ 92) → acc.length + b.length ≤ BUFSIZ - 1 → b.length < fuel →
    collect d fuel (b ++ d :: rest) acc = some (some (acc ++ b), rest) := by
  intro b
  induction b with
  | nil =>
    intro acc fuel _ _ hf
    cases fuel with
    | zero => simp at hf
    | succ f => simp [collect]
  | cons x b ih =>
    intro acc fuel hb hlen hf
    cases fuel with
    | zero => simp at hf
    | succ f =>
      have hx := hb x (by simp)
      have hxd : (x == d) = false := by simp [hx.1]
      have hx92 : (x == 92) = false := by simp [hx.2]
      have hacc : (acc.length == BUFSIZ - 1) = false := by
        simp only [List.length_cons] at hlen
        simp only [beq_eq_false_iff_ne]; omega
      have := ih (acc ++ [x]) f (fun c hc => hb c (by simp [hc]))
        (by simp only [List.length_cons, List.length_append, List.length_nil] at hlen ⊢; omega)
        (by simp only [List.length_cons] at hf; omega)
      rw [List.cons_append, collect.eq_def]
      simp [hxd, hx92, hacc, this]

theorem patFlags_i (f : Nat) (r : Bytes) (i l u : Bool) (e : Nat) :
    patFlags (f + 1) (105 :: r) i l u e = patFlags f r true l u e := by simp [patFlags]
theorem patFlags_l (f : Nat) (r : Bytes) (i l u : Bool) (e : Nat) :
    patFlags (f + 1) (108 :: r) i l u e = patFlags f r i true u (if u then e + 1 else e) := by simp [patFlags]
theorem patFlags_u (f : Nat) (r : Bytes) (i l u : Bool) (e : Nat) :
    patFlags (f + 1) (117 :: r) i l u e = patFlags f r i l true (if l then e + 1 else e) := by simp [patFlags]

theorem patFlags_printed (i l u : Bool) (hlu : (l && u) = false) (rest : Bytes) (hr : ∀ c, rest.head? = some c → c = 32)
    (fuel : Nat)
    (hf : ((if i then [105] else []) ++ (if l then [108] else []) ++ (if u then [117] else []) : Bytes).length ≤ fuel) :
    patFlags fuel ((if i then [105] else []) ++ (if l then [108] else []) ++ (if u then [117] else []) ++ rest)
      false false false 0 = ((i, l, u), rest, 0) := by
  have hstop : ∀ (f : Nat) (a b c : Bool) (e : Nat), patFlags f rest a b c e = ((a, b, c), rest, e) := by
    intro f a b c e
    cases f with
    | zero => simp [patFlags]
    | succ f =>
      cases rest with
      | nil => simp [patFlags]
      | cons x xs =>
        have := hr x rfl
        subst this
        simp [patFlags]
  cases i <;> cases l <;> cases u <;>
    simp only [if_true, if_false, Bool.false_eq_true, List.nil_append, List.cons_append, List.length_cons,
      List.length_nil, List.append_nil, Bool.and_self, Bool.true_and, Bool.and_true] at hf hlu ⊢
  · exact hstop _ _ _ _ _
  · obtain ⟨f, rfl⟩ : ∃ f, fuel = f + 1 := ⟨fuel - 1, by omega⟩
    rw [patFlags_u]; exact hstop _ _ _ _ _
  · obtain ⟨f, rfl⟩ : ∃ f, fuel = f + 1 := ⟨fuel - 1, by omega⟩
    rw [patFlags_l]; exact hstop _ _ _ _ _
  · cases hlu
  · obtain ⟨f, rfl⟩ : ∃ f, fuel = f + 1 := ⟨fuel - 1, by omega⟩
    rw [patFlags_i]; exact hstop _ _ _ _ _
  · obtain ⟨f, rfl⟩ : ∃ f, fuel = f + 1 + 1 := ⟨fuel - 2, by omega⟩
    rw [patFlags_i, patFlags_u]; exact hstop _ _ _ _ _
  · obtain ⟨f, rfl⟩ : ∃ f, fuel = f + 1 + 1 := ⟨fuel - 2, by omega⟩
    rw [patFlags_i, patFlags_l]; exact hstop _ _ _ _ _
  · cases hlu

theorem lex1_pattern (sf : Bool) (p : Pat) (hp : patOK p = true) (rest : Bytes) (hr : ∀ c, rest.head? = some c → c = 32) :
    lex1 true sf false ((PTok.pat p).bytes ++ rest) =
      { tok := .pattern p.src p.icase p.lcase p.ucase, rest := rest, errors := 0 } := by
  simp only [patOK, Bool.and_eq_true, List.all_eq_true, bne_iff_ne, ne_eq, decide_eq_true_eq, Bool.not_eq_true',
    Bool.and_eq_false_imp] at hp
  obtain ⟨⟨hsrc, hlen⟩, hlu⟩ := hp
  have hlu' : (p.lcase && p.ucase) = false := by
    cases h1 : p.lcase <;> cases h2 : p.ucase <;> simp_all
  let fl : Bytes := (if p.icase then [105] else []) ++ (if p.lcase then [108] else []) ++ (if p.ucase then [117] else [])
  have hbytes : (PTok.pat p).bytes ++ rest = 47 :: (p.src ++ 47 :: (fl ++ rest)) := by
    simp [PTok.bytes, fl, List.append_assoc]
  have hc := collect_plain 47 (fl ++ rest) p.src [] ((p.src ++ 47 :: (fl ++ rest)).length + 1)
    (fun c hc => ⟨(hsrc c hc).1.2, (hsrc c hc).2⟩)
    (by simp only [List.length_nil, BUFSIZ]; omega) (by simp only [List.length_append]; omega)
  have hcs : cstr p.src = p.src := cstr_of_no_nul (fun x hx h0 => (hsrc x hx).1.1.1 h0)
  have hpf := patFlags_printed p.icase p.lcase p.ucase hlu' rest hr ((fl ++ rest).length + 1)
    (by simp only [fl, List.length_append]; omega)
  rw [hbytes]
  have h1 : lex1 true sf false (47 :: (p.src ++ 47 :: (fl ++ rest))) = lex1.lexTok true sf 47 (p.src ++ 47 :: (fl ++ rest)) 0 := by
    have : isspace 47 = false := by decide
    simp [lex1, this]
  rw [h1]
  unfold lex1.lexTok
  have h34 : ((47 : UInt8) == 34) = false := by decide
  simp only [h34, Bool.false_eq_true, if_false, if_true, hc, List.nil_append, hcs]
  have hpf' : patFlags ((fl ++ rest).length + 1) (fl ++ rest) false false false 0 = ((p.icase, p.lcase, p.ucase), rest, 0) := hpf
  rw [hpf']
  simp

/-! ### Keywords -/

def kwName : Kw → String
  | .access => "ACCESS" | .addheader => "ADDHEADER" | .all => "ALL" | .and => "AND"
  | .attachment => "ATTACHMENT" | .body => "BODY" | .brk => "BREAK" | .command => "COMMAND"
  | .created => "CREATED" | .date => "DATE" | .discard => "DISCARD" | .exec => "EXEC" | .flag => "FLAG"
  | .flags => "FLAGS" | .header => "HEADER" | .isdirectory => "ISDIRECTORY" | .label => "LABEL"
  | .maildir => "MAILDIR" | .mtch => "MATCH" | .modified => "MODIFIED" | .move => "MOVE" | .new => "NEW"
  | .old => "OLD" | .or => "OR" | .pass => "PASS" | .reject => "REJECT" | .stdin => "STDIN"

theorem kw_entry (k : Kw) : (kwText k, kwName k) ∈ Gen.keywords ∧ Kw.ofName (kwName k) = some k := by
  cases k <;> exact ⟨by decide +kernel, by decide +kernel⟩

theorem lex1_kw (sf : Bool) (k : Kw) (rest : Bytes) (hr : ∀ c, rest.head? = some c → c = 32) :
    lex1 false sf false (32 :: ((kwText k).toUTF8.toList ++ rest)) =
      { tok := .keyword (kwName k), rest := rest, errors := 0 } := by
  have hk := (kw_entry k).1
  have hok := List.all_eq_true.mp LexAux.kw_table _ hk
  simp only [LexAux.kwOk, Bool.and_eq_true, decide_eq_true_eq, beq_iff_eq] at hok
  obtain ⟨⟨⟨_, _⟩, hhead⟩, _⟩ := hok
  have hr' : ∀ c, rest.head? = some c → isKwChar c = false := by
    intro c hc; rw [hr c hc]; decide
  have hkw := lex_keyword sf (kwText k) (kwName k) rest hk hr'
  cases hbs : (kwText k).toUTF8.toList with
  | nil => rw [hbs] at hhead; simp at hhead
  | cons c t =>
    rw [hbs] at hhead hkw
    simp only at hhead
    obtain ⟨h1, _, h3, _, _⟩ := LexAux.islower_facts c hhead
    rw [List.cons_append, lex1_blank _ _ _ _ h1 h3]
    rw [List.cons_append] at hkw
    exact hkw

/-! ### Every written token -/

theorem strOK_facts {b : Bytes} (h : strOK b = true) :
    b ≠ [] ∧ (0 : UInt8) ∉ b ∧ (10 : UInt8) ∉ b ∧ (36 : UInt8) ∉ b ∧ b.head? ≠ some 126 ∧ b.getLast? ≠ some 92 ∧
      b.length < BUFSIZ - 1 := by
  simp only [strOK, Bool.and_eq_true, Bool.not_eq_true', List.all_eq_true, bne_iff_ne, ne_eq, decide_eq_true_eq] at h
  obtain ⟨⟨⟨⟨h1, h2⟩, h3⟩, h4⟩, h5⟩ := h
  refine ⟨?_, fun h => (h2 _ h).1.1 rfl, fun h => (h2 _ h).1.2 rfl, fun h => (h2 _ h).2 rfl, h3, h4, ?_⟩
  · intro hb; subst hb; simp at h1
  · simp only [BUFSIZ]; omega

theorem strLexOK_facts {b : Bytes} (h : strLexOK b = true) :
    b ≠ [] ∧ (0 : UInt8) ∉ b ∧ (10 : UInt8) ∉ b ∧ b.head? ≠ some 126 ∧ b.getLast? ≠ some 92 ∧ b.length < BUFSIZ - 1 := by
  simp only [strLexOK, Bool.and_eq_true, Bool.not_eq_true', List.all_eq_true, bne_iff_ne, ne_eq, decide_eq_true_eq] at h
  obtain ⟨⟨⟨⟨h1, h2⟩, h3⟩, h4⟩, h5⟩ := h
  refine ⟨?_, fun h => (h2 _ h).1 rfl, fun h => (h2 _ h).2 rfl, h3, h4, ?_⟩
  · intro hb; subst hb; simp at h1
  · simp only [BUFSIZ]; omega

/-- The lexer reads back a written token in front of ANY text `rest` that is empty or starts with a blank. -/
theorem lex_tok_tl (t : PTok) (rest : Bytes) (pf sf : Bool) (hok : lexOK t = true) (hm : modeOK pf sf t = true)
    (hr : ∀ c, rest.head? = some c → c = 32) :
    ∃ tok, lex1 pf sf false (32 :: (t.bytes ++ rest)) = { tok := tok, rest := rest, errors := 0 } ∧
      Tk.ofToken tok = tkOf t ∧ (match tok with | .macro _ => true | _ => false) = false := by
  cases t with
  | kw k =>
    have hpf : pf = false := by simpa [modeOK] using hm
    subst hpf
    refine ⟨.keyword (kwName k), lex1_kw sf k _ hr, ?_, rfl⟩
    simp [Tk.ofToken, (kw_entry k).2, tkOf]
  | str b =>
    obtain ⟨hne, hnul, _, _, hlast, hlen⟩ := strLexOK_facts (by simpa [lexOK] using hok)
    refine ⟨.str b, ?_, rfl, rfl⟩
    have h1 : isspace 34 = false := by decide
    have h2 : ((34 : UInt8) == 35) = false := by decide
    have := lex_string_roundtrip pf sf b rest hne hnul hlast hlen
    simp only [PTok.bytes, List.cons_append, List.nil_append, List.append_assoc] at this ⊢
    rw [lex1_blank _ _ _ _ h1 h2]
    exact this
  | int n =>
    have hpf : pf = false := by simpa [modeOK] using hm
    subst hpf
    have hn : n < 2 ^ 32 := by simpa [lexOK, tokOK] using hok
    refine ⟨.int n, ?_, rfl, rfl⟩
    have hr' : ∀ c, rest.head? = some c → isdigit c = false := by
      intro c hc; rw [hr c hc]; decide
    have := (lex_int sf n rest hr').1 hn
    obtain ⟨ds, hbytes, hne, hdig, _⟩ := LexAux.toString_bytes n
    simp only [PTok.bytes]
    cases ds with
    | nil => exact absurd rfl hne
    | cons c r =>
      rw [hbytes] at this ⊢
      have hc := LexAux.isdigit_facts c (hdig c (by simp))
      rw [List.cons_append] at this ⊢
      rw [lex1_blank _ _ _ _ hc.1 hc.2.2.1]
      exact this
  | seconds =>
    have hpf : pf = false ∧ sf = true := by simpa [modeOK] using hm
    obtain ⟨rfl, rfl⟩ := hpf
    refine ⟨.scalar (some 1), ?_, rfl, rfl⟩
    have h1 : isspace 115 = false := by decide
    have h2 : ((115 : UInt8) == 35) = false := by decide
    have := lex1_seconds rest hr
    simp only [PTok.bytes, List.cons_append] at this ⊢
    rw [lex1_blank _ _ _ _ h1 h2]
    exact this
  | pat p =>
    have hpf : pf = true := by simpa [modeOK] using hm
    subst hpf
    refine ⟨.pattern p.src p.icase p.lcase p.ucase, ?_, rfl, rfl⟩
    have h1 : isspace 47 = false := by decide
    have h2 : ((47 : UInt8) == 35) = false := by decide
    have := lex1_pattern sf p (by simpa [lexOK, tokOK] using hok) rest hr
    have hb : (PTok.pat p).bytes ++ rest = 47 :: ((PTok.pat p).bytes.tail ++ rest) := by
      simp [PTok.bytes]
    rw [hb] at this ⊢
    rw [lex1_blank _ _ _ _ h1 h2]
    exact this
  | bang =>
    refine ⟨.neg, ?_, rfl, rfl⟩
    have h1 : isspace 33 = false := by decide
    have h2 : ((33 : UInt8) == 35) = false := by decide
    simp only [PTok.bytes, List.cons_append, List.nil_append]
    rw [lex1_blank _ _ _ _ h1 h2, lex1_bang]
  | lbrace =>
    have hpf : pf = false := by simpa [modeOK] using hm
    subst hpf
    refine ⟨.char 123, ?_, by decide, rfl⟩
    simp only [PTok.bytes, List.cons_append, List.nil_append]
    rw [lex1_blank _ _ _ _ (by decide) (by decide), lex1_punct _ _ _ (by simp)]
  | rbrace =>
    have hpf : pf = false := by simpa [modeOK] using hm
    subst hpf
    refine ⟨.char 125, ?_, by decide, rfl⟩
    simp only [PTok.bytes, List.cons_append, List.nil_append]
    rw [lex1_blank _ _ _ _ (by decide) (by decide), lex1_punct _ _ _ (by simp)]
  | lparen =>
    have hpf : pf = false := by simpa [modeOK] using hm
    subst hpf
    refine ⟨.char 40, ?_, by decide, rfl⟩
    simp only [PTok.bytes, List.cons_append, List.nil_append]
    rw [lex1_blank _ _ _ _ (by decide) (by decide), lex1_punct _ _ _ (by simp)]
  | rparen =>
    have hpf : pf = false := by simpa [modeOK] using hm
    subst hpf
    refine ⟨.char 41, ?_, by decide, rfl⟩
    simp only [PTok.bytes, List.cons_append, List.nil_append]
    rw [lex1_blank _ _ _ _ (by decide) (by decide), lex1_punct _ _ _ (by simp)]
  | lt =>
    have hpf : pf = false := by simpa [modeOK] using hm
    subst hpf
    refine ⟨.char 60, ?_, by decide, rfl⟩
    simp only [PTok.bytes, List.cons_append, List.nil_append]
    rw [lex1_blank _ _ _ _ (by decide) (by decide), lex1_punct _ _ _ (by simp)]
  | gt =>
    have hpf : pf = false := by simpa [modeOK] using hm
    subst hpf
    refine ⟨.char 62, ?_, by decide, rfl⟩
    simp only [PTok.bytes, List.cons_append, List.nil_append]
    rw [lex1_blank _ _ _ _ (by decide) (by decide), lex1_punct _ _ _ (by simp)]

theorem lex_tok (t : PTok) (ts : List PTok) (pf sf : Bool) (hok : tokOK t = true) (hm : modeOK pf sf t = true) :
    ∃ tok, lex1 pf sf false (Spec.render (t :: ts)) = { tok := tok, rest := Spec.render ts, errors := 0 } ∧
      Tk.ofToken tok = tkOf t ∧ (match tok with | .macro _ => true | _ => false) = false := by
  rw [render_cons]
  exact lex_tok_tl t (Spec.render ts) pf sf (lexOK_of_tokOK hok) hm (render_head ts)

/-- The first byte of a written token starts a token: no blank, no `#`. -/
theorem tok_first (t : PTok) (hok : lexOK t = true) :
    ∃ c r, t.bytes = c :: r ∧ isspace c = false ∧ (c == 35) = false := by
  cases t with
  | kw k =>
    have hk := (kw_entry k).1
    have hok := List.all_eq_true.mp LexAux.kw_table _ hk
    simp only [LexAux.kwOk, Bool.and_eq_true, decide_eq_true_eq, beq_iff_eq] at hok
    obtain ⟨⟨⟨_, _⟩, hhead⟩, _⟩ := hok
    cases hbs : (kwText k).toUTF8.toList with
    | nil => rw [hbs] at hhead; simp at hhead
    | cons c t =>
      rw [hbs] at hhead
      simp only at hhead
      obtain ⟨h1, _, h3, _, _⟩ := LexAux.islower_facts c hhead
      exact ⟨c, t, hbs, h1, h3⟩
  | int n =>
    obtain ⟨ds, hbytes, hne, hdig, _⟩ := LexAux.toString_bytes n
    cases ds with
    | nil => exact absurd rfl hne
    | cons c r =>
      have hc := LexAux.isdigit_facts c (hdig c (by simp))
      exact ⟨c, r, hbytes, hc.1, hc.2.2.1⟩
  | str b => exact ⟨34, _, rfl, by decide, by decide⟩
  | seconds => exact ⟨115, _, rfl, by decide, by decide⟩
  | pat p => exact ⟨47, _, by simp only [PTok.bytes, List.cons_append, List.nil_append, List.append_assoc]; rfl, by decide, by decide⟩
  | bang => exact ⟨33, _, rfl, by decide, by decide⟩
  | lbrace => exact ⟨123, _, rfl, by decide, by decide⟩
  | rbrace => exact ⟨125, _, rfl, by decide, by decide⟩
  | lparen => exact ⟨40, _, rfl, by decide, by decide⟩
  | rparen => exact ⟨41, _, rfl, by decide, by decide⟩
  | lt => exact ⟨60, _, rfl, by decide, by decide⟩
  | gt => exact ⟨62, _, rfl, by decide, by decide⟩

/-- `yylval.lineno` of a token written after one blank: the line the lexer stands on. -/
theorem tokLineOf_blank (nl : Nat) (c : UInt8) (r : Bytes) (h1 : isspace c = false) (h2 : (c == 35) = false) :
    tokLineOf nl (32 :: c :: r) = lineOf nl (c :: r) := by
  have h32 : isspace 32 = true := by decide
  have hc : c ≠ 35 := by simpa using h2
  unfold tokLineOf
  simp only [List.length_cons, skipBlank, List.dropWhile_cons, h32, h1, if_true, Bool.false_eq_true, if_false]
  split
  · rename_i heq; simp only [List.cons.injEq] at heq; exact absurd heq.1 hc
  · simp [lineOf, countNl]

end Mdsort.Proofs.Conf
