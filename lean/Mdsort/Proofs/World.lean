import Mdsort.Model.Plan
import Mdsort.Proofs.WorldMain
import Mdsort.Proofs.WorldExec

/-! Definitions and lemmas for the world-level properties C01, C02, C04, C05. -/

namespace Mdsort.Proofs
open Mdsort Mdsort.Model

/-- The complete versions a message can have while its action list runs: the bytes it had, and
the bytes `message_write` produces for it (the header set is final once interpolation is done). -/
def stages (ms : MsgSt) (orig : Bytes) : List Bytes := [orig, (messageWrite ms.msg).1]

/-- Some directory entry is bound to a file whose visible content is one of `cs`. -/
def Intact (w : World) (cs : List Bytes) : Prop :=
  ∃ d n fid f, w.lookup d n = some fid ∧ w.file fid = some f ∧ f.data ∈ cs

/-- ... whose content on stable storage (as of the last fsync) is one of `cs`. -/
def IntactDurable (w : World) (cs : List Bytes) : Prop :=
  ∃ d n fid f, w.lookup d n = some fid ∧ w.file fid = some f ∧ f.durable ∈ cs

/-- The situation when `matches_exec` starts: the source maildir is open, the message is bound
under its name to a file that holds `orig` (also on stable storage), every open handle that can
write refers to no existing file, and file ids are fresh from `nextFid` on. -/
structure Start (w : World) (st : ExecSt) (orig : Bytes) : Prop where
  srcOpen : ∃ h, st.src.dirH = some h ∧ w.dirPath h = some st.src.path
  bound : ∃ fid, w.lookup st.src.path st.ms.name = some fid ∧
    w.file fid = some { data := orig, durable := orig }
  noWriters : ∀ h fid off, w.obj h ≠ .file fid off true
  noStreams : ∀ h fid buf, w.obj h ≠ .stream fid buf
  freshIds : ∀ p, p ∈ w.files → p.1 < w.nextFid
  uniqueNames : ∀ d es, w.dir d = some es → (es.map (·.1)).Nodup

/-- The action list contains no discard (the grammar makes discard exclusive). -/
def NoDiscard (ml : MatchList) : Prop := ∀ m ∈ ml, m.ty ≠ .discard

/-- The start situation gives the invariant of `Mdsort.Proofs.World`: the message's entry is bound to a
file that existed before (`freshIds`) and holds `orig` both visibly and durably. -/
theorem Start.good {w : World} {st : ExecSt} {orig : Bytes} (hs : Start w st orig) :
    World.Good w (stages st.ms orig) := by
  obtain ⟨fid, hl, hf⟩ := hs.bound
  refine ⟨st.src.path, st.ms.name, fid, hl, hs.freshIds _ (World.mem_files_of_file hf), _, hf, ?_, ?_⟩ <;>
    simp [stages]

theorem World.Good.intact {w : World} {cs : List Bytes} (h : World.Good w cs) : Intact w cs := by
  obtain ⟨p, n, fid, hl, _, f, hf, hd, _⟩ := h
  exact ⟨p, n, fid, f, hl, hf, hd⟩

theorem World.Good.intactDurable {w : World} {cs : List Bytes} (h : World.Good w cs) : IntactDurable w cs := by
  obtain ⟨p, n, fid, hl, _, f, hf, _, hd⟩ := h
  exact ⟨p, n, fid, f, hl, hf, hd⟩

/-- C02 (process kill) and C01 (loss-freedom): under EVERY fault plan, after EVERY call of the
execution of an action list, some entry is bound to a complete version of the message. -/
theorem exec_always_intact (env : PEnv) (ml : MatchList) (st : ExecSt) (w : World) (orig : Bytes) (plan : Plan)
    (hs : Start w st orig) (hd : NoDiscard ml) :
    ∀ w' ∈ (runPlan plan (matchesExec env ml st) w 0 []).2.2, Intact w' (stages st.ms orig) := by
  intro w' hw'
  exact (World.matchesExec_history_good env ml st w plan hs.good (by simp [stages]) hd w' hw').intact

/-- C02 (power failure): the same on stable storage - a copy is flushed and fsync'ed before the
original name is removed. -/
theorem exec_always_durable (env : PEnv) (ml : MatchList) (st : ExecSt) (w : World) (orig : Bytes) (plan : Plan)
    (hs : Start w st orig) (hd : NoDiscard ml) :
    ∀ w' ∈ (runPlan plan (matchesExec env ml st) w 0 []).2.2, IntactDurable w' (stages st.ms orig) := by
  intro w' hw'
  exact (World.matchesExec_history_good env ml st w plan hs.good (by simp [stages]) hd w' hw').intactDurable

/-- All calls of a program under a plan. -/
def callsOf {α} (plan : Plan) (p : Prog α) (w : World) : List Call :=
  ((runPlan plan p w 0 []).2.1.trace.drop w.trace.length).map (·.1)

/-- C05 (-n): with the syntax-check option the whole run is: open and close the configuration. -/
theorem syntax_only_calls (env : PEnv) (orc : EvalOracles) (ok : Bool) (conf : List ConfBlock) (files : Files) (input : Bytes)
    (w : World) (plan : Plan) (hn : env.syntaxOnly = true) :
    callsOf plan (mainP env orc ok conf files input) w = [.fopen env.confpath] ∨
    ∃ h, callsOf plan (mainP env orc ok conf files input) w = [.fopen env.confpath, .fclose h] := by
  obtain ⟨st1, st2, he⟩ := World.mainP_syntaxOnly env orc ok conf files input hn
  rw [he]
  exact World.confOnly_calls env st1 st2 plan w

/-- Calls that change a configured maildir: everything mutating except the stdin spool's own
creation and removal below TMPDIR. -/
def touchesMaildir (env : PEnv) (w : World) : Call → Bool
  | .openExcl d _ => !(((w.dirPath d).getD []).take env.tmpdir.length == env.tmpdir)
  | .unlinkat d _ => !(((w.dirPath d).getD []).take env.tmpdir.length == env.tmpdir)
  | .renameat .. | .utimensat .. | .fprintf .. | .mkostemp .. | .fork .. | .unlink .. => true
  | _ => false

/-- C05 (-d), maildir mode: a dry run issues no mutating call, whatever the configuration, the messages and the
fault plan are, and it starts a process only if some rule tree has a `command` CONDITION (conditions are evaluated
under `-d` as they are otherwise, `expr_eval_command` forks; no action is executed). -/
theorem dryrun_no_mutation (env : PEnv) (orc : EvalOracles) (ok : Bool) (conf : List ConfBlock) (files : Files) (input : Bytes)
    (w : World) (plan : Plan) (hd : env.dryrun = true) (hm : env.stdinMode = false) :
    ∀ c ∈ callsOf plan (mainP env orc ok conf files input) w,
      c.mutating = false ∧ (c.isFork = true → confHasCommand conf = true) :=
  World.quiet_callsOf _ plan _ w (World.quiet_mainP env orc ok conf files input hd hm)

/-- C04: the exit status is computed from the error and reject flags only: 0/1 in maildir mode;
in stdin mode 75 iff an error occurred, else 1 iff a reject was executed, else 0. -/
theorem exit_status_table (env : PEnv) (orc : EvalOracles) (ok : Bool) (conf : List ConfBlock) (files : Files) (input : Bytes)
    (w : World) (plan : Plan) :
    let r := (runPlan plan (mainP env orc ok conf files input) w 0 []).1
    r.1 = exitStatus env r.2 := by
  intro r
  have h := (World.mainP_all env orc ok conf files input).run plan w 0
  simpa [r, World.runPlan_eq] using h

/-- A rejected configuration (or an unreadable one) is an error and nothing else happens. -/
theorem bad_config_only_reads_config (env : PEnv) (orc : EvalOracles) (conf : List ConfBlock) (files : Files) (input : Bytes)
    (w : World) (plan : Plan) :
    let r := runPlan plan (mainP env orc false conf files input) w 0 []
    r.1.2.error = true ∧
    (callsOf plan (mainP env orc false conf files input) w = [.fopen env.confpath] ∨
     ∃ h, callsOf plan (mainP env orc false conf files input) w = [.fopen env.confpath, .fclose h]) := by
  obtain ⟨st, hst, he⟩ := World.mainP_badconf env orc conf files input
  rw [he]
  refine ⟨?_, World.confOnly_calls env st st plan w⟩
  rcases World.confOnly_result env st st plan w with h | h <;> simp only [h, hst]

end Mdsort.Proofs
