import Mdsort.Proofs.WorldSingleWrite

/-! The exec action, the destination open, and one entry of the action list under at most one fault. -/

namespace Mdsort.Proofs.World
set_option linter.unusedSimpArgs false
open Mdsort Mdsort.Model

/-- Files created after `w0`. -/
abbrev NewS (w0 : World) : Nat → Prop := fun g => w0.nextFid ≤ g

/-! ## exec: temporary files only (every fault plan) -/

theorem frame_writefd (tmpdir : Bytes) {w0 w : World} (fr : Fr1 (NewS w0) w0 w) :
    wp NoInv (writefd tmpdir)
      (fun r w' => Fr1 (NewS w0) w0 w' ∧
        ∀ fd, r = some fd → w0.handles.length ≤ fd ∧ ∃ N, objFid (w'.obj fd) = some N ∧ w0.nextFid ≤ N ∧
          w'.obj fd = .file N 0 true ∧ w'.file N = some ⟨[], []⟩) w := by
  unfold writefd
  split
  · exact ⟨fr, by intro _ h; cases h⟩
  rename_i tmpl _
  simp only [bind_eq, pure_eq, call_bind]
  refine wp_call (fun r => r = .ok w.handles.length ∨ ∃ e, r = .err e)
    (fun ft => results_simple ft w _ _ (by intro _ h; cases h) (by intro _ _ h; cases h) rfl) ?_
  intro r hr
  have fr1 := fr.step (.mkostemp tmpl) r rfl (by intro _ h; cases h) (fun _ _ _ => trivial)
  refine ⟨trivial, ?_⟩
  rcases hr with rfl | ⟨e, rfl⟩
  · have hc := core_mkostemp_ok w tmpl w.handles.length
    dsimp only
    refine wp_call_any fun r2 => ?_
    have fr2 := fr1.step (.unlink tmpl) r2 rfl (by intro _ h; cases h) (fun _ _ _ => trivial)
    refine ⟨trivial, ?_⟩
    split
    · refine ⟨fr2, ?_⟩
      intro fd h
      cases h
      have ho : (stepWorld (stepWorld w (.mkostemp tmpl) (.ok w.handles.length)) (.unlink tmpl) r2).obj w.handles.length =
          .file w.nextFid 0 true := by
        rw [stepWorld_obj, core_unlink, stepWorld_obj, hc]; simp [obj_newHandle]
      refine ⟨fr.len, w.nextFid, by rw [ho]; rfl, fr.nextFid, ho, ?_⟩
      rw [stepWorld_file, core_unlink, stepWorld_file, hc]; simp [file_setFile]
    · refine wp_call_any fun r3 => ?_
      have fr3 := fr2.step (.close w.handles.length) r3 rfl (by intro _ h; cases h; exact fr.len) (fun _ _ _ => trivial)
      exact ⟨trivial, fr3, by intro _ h; cases h⟩
  · exact ⟨fr1, by intro _ h; cases h⟩

theorem frame_writeAll (fd : Handle) (N : Nat) {w0 : World} (hfd : w0.handles.length ≤ fd) (hN : w0.nextFid ≤ N)
    (fuel : Nat) (data : Bytes) {w : World} (fr : Fr1 (NewS w0) w0 w) (ho : objFid (w.obj fd) = some N) :
    wp NoInv (writeAll fd fuel data) (fun _ w' => Fr1 (NewS w0) w0 w') w := by
  induction fuel generalizing data w with
  | zero => exact fr
  | succ fuel ih =>
    unfold writeAll
    split
    · exact fr
    simp only [bind_eq, pure_eq, call_bind]
    refine wp_call_any fun r => ?_
    have fr1 := fr.step (.write fd data) r rfl (by intro _ h; cases h; exact hfd)
      (fun g hg _ => by
        simp only [fileSafe, ho, ne_eq, Option.some.injEq]
        intro h; omega)
    refine ⟨trivial, ?_⟩
    split
    · split
      · exact fr1
      · exact ih _ fr1 (by rw [stepWorld_obj]; exact objFid_write ho data _)
    · exact fr1

theorem frame_messageGetFd (env : PEnv) (ms : MsgSt) (part : Option Msg) (dobody : Bool) {w : World} :
    wp NoInv (messageGetFd env ms part dobody)
      (fun r w' => Fr1 (NewS w) w w' ∧ ∀ fd, r = some fd → w.handles.length ≤ fd) w := by
  unfold messageGetFd
  simp only [bind_eq, pure_eq, call_bind]
  refine wp_bind_mono (R := fun r w' => Fr1 (NewS w) w w' ∧ ∀ fd, r = some fd → w.handles.length ≤ fd) ?_ ?_
  · split
    · split
      · exact ⟨Fr1.refl _ w, by intro _ h; cases h⟩
      · refine wp_bind_mono (frame_writefd env.tmpdir (Fr1.refl _ w)) ?_
        rintro f w1 ⟨fr1, hf⟩
        cases f with
        | none => exact ⟨fr1, by intro _ h; cases h⟩
        | some fd =>
          obtain ⟨hfd, N, hoN, hN, _, _⟩ := hf fd rfl
          dsimp only
          refine wp_bind_mono (frame_writeAll fd N hfd hN _ _ fr1 hoN) ?_
          intro e w2 fr2
          split
          · refine wp_call_any fun r => ?_
            exact ⟨trivial, fr2.step (.close fd) r rfl (by intro _ h; cases h; exact hfd) (fun _ _ _ => trivial),
              by intro _ h; cases h⟩
          · exact ⟨fr2, by intro _ h; cases h; exact hfd⟩
    · split
      · refine wp_bind_mono (frame_writefd env.tmpdir (Fr1.refl _ w)) ?_
        rintro f w1 ⟨fr1, hf⟩
        cases f with
        | none => exact ⟨fr1, by intro _ h; cases h⟩
        | some fd =>
          obtain ⟨hfd, N, _, hN, ho, hfile⟩ := hf fd rfl
          dsimp only
          refine wp_bind_mono (fr1_messageWriteP _ fd ho hfile) ?_
          rintro e w2 ⟨fr2, -⟩
          have fr2' : Fr1 (NewS w) w w2 := fr1.trans (fr2.mono fun g hg => by subst hg; exact hN)
          split
          · refine wp_call_any fun r => ?_
            exact ⟨trivial, fr2'.step (.close fd) r rfl (by intro _ h; cases h; exact hfd) (fun _ _ _ => trivial),
              by intro _ h; cases h⟩
          · exact ⟨fr2', by intro _ h; cases h; exact hfd⟩
      · split
        · exact ⟨Fr1.refl _ w, by intro _ h; cases h⟩
        · rename_i mfd _
          refine wp_call (fun r => r = .ok w.handles.length ∨ ∃ e, r = .err e)
            (fun ft => results_simple ft w _ _ (by intro _ h; cases h) (by intro _ _ h; cases h) rfl) ?_
          intro r hr
          refine ⟨trivial, (Fr1.refl _ w).step (.dupfd mfd) r rfl (by intro _ h; cases h) (fun _ _ _ => trivial), ?_⟩
          intro fd h
          rcases hr with rfl | ⟨e, rfl⟩
          · cases h; exact Nat.le_refl _
          · cases h
  · rintro fdo w1 ⟨fr1, hfd⟩
    cases fdo with
    | none => exact ⟨fr1, by intro _ h; cases h⟩
    | some fd =>
      have hfd' := hfd fd rfl
      dsimp only
      refine wp_call_any fun r => ?_
      have fr2 := fr1.step (.lseek fd) r rfl (by intro _ h; cases h) (fun _ _ _ => trivial)
      refine ⟨trivial, ?_⟩
      split
      · exact ⟨fr2, by intro _ h; cases h; exact hfd'⟩
      · refine wp_call_any fun r2 => ?_
        exact ⟨trivial, fr2.step (.close fd) r2 rfl (by intro _ h; cases h; exact hfd') (fun _ _ _ => trivial),
          by intro _ h; cases h⟩

theorem frame_execP (argv : List Bytes) (fdin : Option Handle) {w0 w : World} (fr : Fr1 (NewS w0) w0 w) :
    wp NoInv (execP argv fdin) (fun _ w' => Fr1 (NewS w0) w0 w') w := by
  unfold execP
  simp only [bind_eq, pure_eq, call_bind]
  refine wp_bind_mono (R := fun dn w' => Fr1 (NewS w0) w0 w' ∧ ∀ h, dn = some (some h) → w0.handles.length ≤ h) ?_ ?_
  · split
    · exact ⟨fr, by intro _ h; cases h⟩
    · refine wp_call (fun r => r = .ok w.handles.length ∨ ∃ e, r = .err e)
        (fun ft => results_simple ft w _ _ (by intro _ h; cases h) (by intro _ _ h; cases h) rfl) ?_
      intro r hr
      refine ⟨trivial, ?_⟩
      have fr1 := fr.step (.openPath (ofString "/dev/null")) r rfl (by intro _ h; cases h) (fun _ _ _ => trivial)
      rcases hr with rfl | ⟨e, rfl⟩
      · exact ⟨fr1, by intro h hh; cases hh; exact fr.len⟩
      · exact ⟨fr1, by intro _ h; cases h⟩
  · rintro dn w1 ⟨fr1, hdn⟩
    cases dn with
    | none => exact fr1
    | some devnull =>
      dsimp only
      refine wp_call_any fun r => ?_
      have fr2 := fr1.step (.fork argv (childStdin fdin devnull)) r rfl (by intro _ h; cases h) (fun _ _ _ => trivial)
      refine ⟨trivial, ?_⟩
      refine wp_bind_mono (R := fun _ w' => Fr1 (NewS w0) w0 w') ?_ ?_
      · split
        · refine wp_call_any fun r2 => ?_
          have fr3 := fr2.step .waitpid r2 rfl (by intro _ h; cases h) (fun _ _ _ => trivial)
          refine ⟨trivial, ?_⟩
          split <;> exact fr3
        · exact fr2
      · intro res w3 fr3
        cases devnull with
        | none => exact fr3
        | some h =>
          dsimp only
          refine wp_call_any fun r3 => ?_
          exact ⟨trivial, fr3.step (.close h) r3 rfl (by intro _ hh; cases hh; exact hdn h rfl) (fun _ _ _ => trivial)⟩

/-! ## opening the destination (every fault plan) -/

/-- The directory `maildir_open` joins from the path of a move/flag/flags action. -/
def dstPathOf (path : Bytes) : Option Bytes :=
  match parseSubdir path with
  | none => none
  | some sd =>
    match pathslice path PATH_MAX 0 (-1) with
    | none => none
    | some root => pathjoin PATH_MAX root (subdirName sd)

theorem frame_maildirOpenDst (path : Bytes) {w : World} :
    wp NoInv (maildirOpenDst path)
      (fun r w1 => Mid w w1 (lk w) ∧ ∀ dst, r = some dst → ∃ dh, dst.dirH = some dh ∧
        w1.dirPath dh = some dst.path ∧ (w.dir dst.path).isSome ∧ w.handles.length ≤ dh ∧ dh < w1.handles.length ∧
        pathjoin PATH_MAX dst.root (subdirName dst.subdir) = some dst.path ∧ dstPathOf path = some dst.path) w := by
  unfold maildirOpenDst
  split
  · exact ⟨Mid.refl w, by intro _ h; cases h⟩
  split
  · exact ⟨Mid.refl w, by intro _ h; cases h⟩
  split
  · exact ⟨Mid.refl w, by intro _ h; cases h⟩
  rename_i _ sd hsd _ root hroot _ p hp
  have hdst : dstPathOf path = some p := by
    unfold dstPathOf
    simp only [hsd, hroot]
    exact hp
  unfold maildirOpendir
  simp only [bind_eq, pure_eq, call_bind, ret_bind]
  intro ft
  refine ⟨trivial, ?_⟩
  rcases opendir_results ft w p with ⟨e, he⟩ | ⟨he, hd⟩
  · rw [he]
    exact ⟨(Mid.refl w).err _ _ (by intro _ h; cases h) (by intro _ h; cases h) (by intro _ h; cases h),
      by intro _ h; cases h⟩
  · rw [he]
    have m1 := (Mid.refl w).step (.opendir p) (.ok w.handles.length) rfl (by intro _ h; cases h) (fun _ _ => trivial)
    refine ⟨m1, ?_⟩
    intro dst h
    cases h
    have hc := core_opendir_ok hd w.handles.length
    refine ⟨w.handles.length, rfl, ?_, hd, Nat.le_refl _, ?_, hp, hdst⟩
    · rw [stepWorld_dirPath, hc]; simp [World.dirPath, obj_newHandle]
    · rw [stepWorld_handles, hc]; simp

end Mdsort.Proofs.World
