import Mdsort.Proofs.WorldWholeWrite

/-!
# `matches_exec` under EVERY fault plan: frame and ghost location

After every call of the execution of an action list (without discard) every entry other than the
message's own is bound as before and every file that existed keeps its content (`WholeK`); at the
end the ghost location of the message names an entry bound to a file that holds the ghost content.
-/

namespace Mdsort.Proofs.World
set_option linter.unusedSimpArgs false
open Mdsort Mdsort.Model

/-! ## exec: temporary files only, with the footprint as invariant -/

/-- Relative to `w0`: no directory has changed, older handles are untouched, only files created since are written. -/
abbrev WholeFrI (w0 : World) : World → Prop := fun w' => Fr1 (NewS w0) w0 w'

theorem whole_writefd (tmpdir : Bytes) {w0 w : World} (fr : Fr1 (NewS w0) w0 w) :
    wp (WholeFrI w0) (writefd tmpdir)
      (fun r w' => Fr1 (NewS w0) w0 w' ∧
        ∀ fd, r = some fd → w0.handles.length ≤ fd ∧ ∃ N, objFid (w'.obj fd) = some N ∧ w0.nextFid ≤ N ∧
          w'.obj fd = .file N 0 true ∧ w'.file N = some ⟨[], []⟩) w := by
  unfold writefd
  split
  · exact ⟨fr, by intro _ h; cases h⟩
  rename_i tmpl _
  simp only [bind_eq, pure_eq, call_bind]
  refine wp_call (fun r => r = .ok w.handles.length ∨ ∃ e, r = .err e)
    (fun ft => results_simple ft w _ _ (by intro _ h; cases h) (by intro _ _ h; cases h) rfl) ?_
  intro r hr
  have fr1 := fr.step (.mkostemp tmpl) r rfl (by intro _ h; cases h) (fun _ _ _ => trivial)
  refine ⟨fr1, ?_⟩
  rcases hr with rfl | ⟨e, rfl⟩
  · have hc := core_mkostemp_ok w tmpl w.handles.length
    dsimp only
    refine wp_call_any fun r2 => ?_
    have fr2 := fr1.step (.unlink tmpl) r2 rfl (by intro _ h; cases h) (fun _ _ _ => trivial)
    refine ⟨fr2, ?_⟩
    split
    · refine ⟨fr2, ?_⟩
      intro fd h
      cases h
      have ho : (stepWorld (stepWorld w (.mkostemp tmpl) (.ok w.handles.length)) (.unlink tmpl) r2).obj w.handles.length =
          .file w.nextFid 0 true := by
        rw [stepWorld_obj, core_unlink, stepWorld_obj, hc]; simp [obj_newHandle]
      refine ⟨fr.len, w.nextFid, by rw [ho]; rfl, fr.nextFid, ho, ?_⟩
      rw [stepWorld_file, core_unlink, stepWorld_file, hc]; simp [file_setFile]
    · refine wp_call_any fun r3 => ?_
      have fr3 := fr2.step (.close w.handles.length) r3 rfl (by intro _ h; cases h; exact fr.len) (fun _ _ _ => trivial)
      exact ⟨fr3, fr3, by intro _ h; cases h⟩
  · exact ⟨fr1, by intro _ h; cases h⟩

theorem whole_writeAll (fd : Handle) (N : Nat) {w0 : World} (hfd : w0.handles.length ≤ fd) (hN : w0.nextFid ≤ N)
    (fuel : Nat) (data : Bytes) {w : World} (fr : Fr1 (NewS w0) w0 w) (ho : objFid (w.obj fd) = some N) :
    wp (WholeFrI w0) (writeAll fd fuel data) (fun _ w' => Fr1 (NewS w0) w0 w') w := by
  induction fuel generalizing data w with
  | zero => exact fr
  | succ fuel ih =>
    unfold writeAll
    split
    · exact fr
    simp only [bind_eq, pure_eq, call_bind]
    refine wp_call_any fun r => ?_
    have fr1 := fr.step (.write fd data) r rfl (by intro _ h; cases h; exact hfd)
      (fun g hg _ => by
        simp only [fileSafe, ho, ne_eq, Option.some.injEq]
        intro h; omega)
    refine ⟨fr1, ?_⟩
    split
    · split
      · exact fr1
      · exact ih _ fr1 (by rw [stepWorld_obj]; exact objFid_write ho data _)
    · exact fr1

/-- `message_write` into a temporary file, with the footprint as invariant. -/
theorem whole_messageWriteP_tmp {w0 w1 : World} (m : Msg) (fd : Handle) {fid off : Nat} {wr : Bool} {f0 : File}
    (fr1 : Fr1 (NewS w0) w0 w1) (ho : w1.obj fd = .file fid off wr) (hf : w1.file fid = some f0) (hN : w0.nextFid ≤ fid) :
    wp (WholeFrI w0) (messageWriteP m fd) (fun _ w' => Fr1 (NewS w0) w0 w') w1 :=
  wp_mono (wp_inv_mono (whole_wp_and (frame_messageWriteP m fd ho) (fr1_messageWriteP m fd ho hf))
    (fun _ h => fr1.whole_of_frW h.1 hN)) (fun _ _ h => fr1.trans (h.2.1.mono fun g hg => by subst hg; exact hN))

theorem whole_messageGetFd (env : PEnv) (ms : MsgSt) (part : Option Msg) (dobody : Bool) {w : World} :
    wp (WholeFrI w) (messageGetFd env ms part dobody)
      (fun r w' => Fr1 (NewS w) w w' ∧ ∀ fd, r = some fd → w.handles.length ≤ fd) w := by
  unfold messageGetFd
  simp only [bind_eq, pure_eq, call_bind]
  refine wp_bind_mono (R := fun r w' => Fr1 (NewS w) w w' ∧ ∀ fd, r = some fd → w.handles.length ≤ fd) ?_ ?_
  · split
    · split
      · exact ⟨Fr1.refl _ w, by intro _ h; cases h⟩
      · refine wp_bind_mono (whole_writefd env.tmpdir (Fr1.refl _ w)) ?_
        rintro f w1 ⟨fr1, hf⟩
        cases f with
        | none => exact ⟨fr1, by intro _ h; cases h⟩
        | some fd =>
          obtain ⟨hfd, N, hoN, hN, _, _⟩ := hf fd rfl
          dsimp only
          refine wp_bind_mono (whole_writeAll fd N hfd hN _ _ fr1 hoN) ?_
          intro e w2 fr2
          split
          · refine wp_call_any fun r => ?_
            have fr3 := fr2.step (.close fd) r rfl (by intro _ h; cases h; exact hfd) (fun _ _ _ => trivial)
            exact ⟨fr3, fr3, by intro _ h; cases h⟩
          · exact ⟨fr2, by intro _ h; cases h; exact hfd⟩
    · split
      · refine wp_bind_mono (whole_writefd env.tmpdir (Fr1.refl _ w)) ?_
        rintro f w1 ⟨fr1, hf⟩
        cases f with
        | none => exact ⟨fr1, by intro _ h; cases h⟩
        | some fd =>
          obtain ⟨hfd, N, _, hN, ho, hfile⟩ := hf fd rfl
          dsimp only
          refine wp_bind_mono (whole_messageWriteP_tmp _ fd fr1 ho hfile hN) ?_
          intro e w2 fr2'
          split
          · refine wp_call_any fun r => ?_
            have fr3 := fr2'.step (.close fd) r rfl (by intro _ h; cases h; exact hfd) (fun _ _ _ => trivial)
            exact ⟨fr3, fr3, by intro _ h; cases h⟩
          · exact ⟨fr2', by intro _ h; cases h; exact hfd⟩
      · split
        · exact ⟨Fr1.refl _ w, by intro _ h; cases h⟩
        · rename_i mfd _
          refine wp_call (fun r => r = .ok w.handles.length ∨ ∃ e, r = .err e)
            (fun ft => results_simple ft w _ _ (by intro _ h; cases h) (by intro _ _ h; cases h) rfl) ?_
          intro r hr
          have fr1 := (Fr1.refl (NewS w) w).step (.dupfd mfd) r rfl (by intro _ h; cases h) (fun _ _ _ => trivial)
          refine ⟨fr1, fr1, ?_⟩
          intro fd h
          rcases hr with rfl | ⟨e, rfl⟩
          · cases h; exact Nat.le_refl _
          · cases h
  · rintro fdo w1 ⟨fr1, hfd⟩
    cases fdo with
    | none => exact ⟨fr1, by intro _ h; cases h⟩
    | some fd =>
      have hfd' := hfd fd rfl
      dsimp only
      refine wp_call_any fun r => ?_
      have fr2 := fr1.step (.lseek fd) r rfl (by intro _ h; cases h) (fun _ _ _ => trivial)
      refine ⟨fr2, ?_⟩
      split
      · exact ⟨fr2, by intro _ h; cases h; exact hfd'⟩
      · refine wp_call_any fun r2 => ?_
        have fr3 := fr2.step (.close fd) r2 rfl (by intro _ h; cases h; exact hfd') (fun _ _ _ => trivial)
        exact ⟨fr3, fr3, by intro _ h; cases h⟩

theorem whole_execP (argv : List Bytes) (fdin : Option Handle) {w0 w : World} (fr : Fr1 (NewS w0) w0 w) :
    wp (WholeFrI w0) (execP argv fdin) (fun _ w' => Fr1 (NewS w0) w0 w') w := by
  unfold execP
  simp only [bind_eq, pure_eq, call_bind]
  refine wp_bind_mono (R := fun dn w' => Fr1 (NewS w0) w0 w' ∧ ∀ h, dn = some (some h) → w0.handles.length ≤ h) ?_ ?_
  · split
    · exact ⟨fr, by intro _ h; cases h⟩
    · refine wp_call (fun r => r = .ok w.handles.length ∨ ∃ e, r = .err e)
        (fun ft => results_simple ft w _ _ (by intro _ h; cases h) (by intro _ _ h; cases h) rfl) ?_
      intro r hr
      have fr1 := fr.step (.openPath (ofString "/dev/null")) r rfl (by intro _ h; cases h) (fun _ _ _ => trivial)
      refine ⟨fr1, ?_⟩
      rcases hr with rfl | ⟨e, rfl⟩
      · exact ⟨fr1, by intro h hh; cases hh; exact fr.len⟩
      · exact ⟨fr1, by intro _ h; cases h⟩
  · rintro dn w1 ⟨fr1, hdn⟩
    cases dn with
    | none => exact fr1
    | some devnull =>
      dsimp only
      refine wp_call_any fun r => ?_
      have fr2 := fr1.step (.fork argv (childStdin fdin devnull)) r rfl (by intro _ h; cases h) (fun _ _ _ => trivial)
      refine ⟨fr2, ?_⟩
      refine wp_bind_mono (R := fun _ w' => Fr1 (NewS w0) w0 w') ?_ ?_
      · split
        · refine wp_call_any fun r2 => ?_
          have fr3 := fr2.step .waitpid r2 rfl (by intro _ h; cases h) (fun _ _ _ => trivial)
          refine ⟨fr3, ?_⟩
          split <;> exact fr3
        · exact fr2
      · intro res w3 fr3
        cases devnull with
        | none => exact fr3
        | some h =>
          dsimp only
          refine wp_call_any fun r3 => ?_
          have fr4 := fr3.step (.close h) r3 rfl (by intro _ hh; cases hh; exact hdn h rfl) (fun _ _ _ => trivial)
          exact ⟨fr4, fr4⟩

theorem whole_execOne_exec (env : PEnv) (mh : Match) (st : ExecSt) (hty : mh.ty = .exec) {w : World} :
    wp (WholeFrI w) (execOne env mh st) (fun r w' => Fr1 (NewS w) w w' ∧ r = (st, r.2)) w := by
  unfold execOne
  simp only [hty, bind_eq, pure_eq, call_bind]
  refine wp_bind_mono (R := fun fdr w1 => Fr1 (NewS w) w w1 ∧ ∀ h, fdr = some (some h) → w.handles.length ≤ h) ?_ ?_
  · split
    · refine wp_bind_mono (whole_messageGetFd env st.ms _ mh.execBody) ?_
      rintro f w1 ⟨fr1, hf⟩
      refine ⟨fr1, ?_⟩
      intro h hh
      cases f with
      | none => cases hh
      | some fd => cases hh; exact hf _ rfl
    · exact ⟨Fr1.refl _ w, by intro _ h; cases h⟩
  · rintro fdr w1 ⟨fr1, hfd⟩
    cases fdr with
    | none => exact ⟨fr1, rfl⟩
    | some fd =>
      dsimp only
      refine wp_bind_mono (whole_execP _ fd fr1) ?_
      intro rc w2 fr2
      cases fd with
      | none => exact ⟨fr2, rfl⟩
      | some h =>
        dsimp only
        refine wp_call_any fun r => ?_
        have fr3 := fr2.step (.close h) r rfl (by intro _ hh; cases hh; exact hfd h rfl) (fun _ _ _ => trivial)
        exact ⟨fr3, fr3, rfl⟩

/-! ## opening the destination, with the frame as invariant -/

theorem whole_maildirOpenDst (path : Bytes) {a : Ent} {H : Nat} {w0 w : World} (k : WholeK a H w0 w) :
    wp (fun w' => WholeK a H w0 w') (maildirOpenDst path)
      (fun r w1 => Mid w w1 (lk w) ∧ ∀ dst, r = some dst → ∃ dh, dst.dirH = some dh ∧
        w1.dirPath dh = some dst.path ∧ (w.dir dst.path).isSome ∧ w.handles.length ≤ dh ∧ dh < w1.handles.length ∧
        pathjoin PATH_MAX dst.root (subdirName dst.subdir) = some dst.path ∧ dstPathOf path = some dst.path) w := by
  unfold maildirOpenDst
  split
  · exact ⟨Mid.refl w, by intro _ h; cases h⟩
  split
  · exact ⟨Mid.refl w, by intro _ h; cases h⟩
  split
  · exact ⟨Mid.refl w, by intro _ h; cases h⟩
  rename_i _ sd hsd _ root hroot _ p hp
  have hdst : dstPathOf path = some p := by
    unfold dstPathOf
    simp only [hsd, hroot]
    exact hp
  unfold maildirOpendir
  simp only [bind_eq, pure_eq, call_bind, ret_bind]
  intro ft
  refine ⟨k.step (.opendir p) _ rfl (by intro _ h; cases h) (fun _ _ => trivial), ?_⟩
  rcases opendir_results ft w p with ⟨e, he⟩ | ⟨he, hd⟩
  · rw [he]
    exact ⟨(Mid.refl w).err _ _ (by intro _ h; cases h) (by intro _ h; cases h) (by intro _ h; cases h),
      by intro _ h; cases h⟩
  · rw [he]
    have m1 := (Mid.refl w).step (.opendir p) (.ok w.handles.length) rfl (by intro _ h; cases h) (fun _ _ => trivial)
    refine ⟨m1, ?_⟩
    intro dst h
    cases h
    have hc := core_opendir_ok hd w.handles.length
    refine ⟨w.handles.length, rfl, ?_, hd, Nat.le_refl _, ?_, hp, hdst⟩
    · rw [stepWorld_dirPath, hc]; simp [World.dirPath, obj_newHandle]
    · rw [stepWorld_handles, hc]; simp

/-! ## the state between two actions -/

/-- Relative to the world `w0` and the entry `a0` the action list started with: the ghost location
of the message names an entry - `a0`, or one that was free in `w0` - bound to a file that holds the
ghost content; the message's descriptor and, once the source has changed, the source directory's
handle are at or above the cut `H`; the header set is `msg0` and the content the original `c0` or the
rewritten message. -/
structure WholeSt (w0 : World) (a0 : Ent) (H : Nat) (msg0 : Msg) (c0 : Bytes) (w : World) (st : ExecSt) : Prop where
  loc : ∃ nb, Located w st.ms nb ∧ (nb = a0 ∨ lk w0 nb = none)
  fdCut : ∀ h, st.ms.fd = some h → H ≤ h
  chs : st.chsrc = true → ∀ h, st.src.dirH = some h → H ≤ h
  msg : st.ms.msg = msg0
  content : st.ms.content = c0 ∨ st.ms.content = (messageWrite msg0).1

/-- An entry that is free now was free at the start, or is the excepted entry. -/
theorem WholeK.fresh_back {a : Ent} {H : Nat} {w0 w1 : World} (k : WholeK a H w0 w1) {nb : Ent} (h : lk w1 nb = none) :
    nb = a ∨ lk w0 nb = none := by
  by_cases hna : nb = a
  · exact .inl hna
  · right
    cases h0 : lk w0 nb with
    | none => rfl
    | some fid => rw [k.look nb fid hna h0] at h; cases h

theorem WholeSt.step {w0 : World} {a0 : Ent} {H : Nat} {msg0 : Msg} {c0 : Bytes} {w : World} {st : ExecSt}
    (s : WholeSt w0 a0 H msg0 c0 w st) (c : Call) (r : Res) (hd : Call.dirOp c = false) (hfs : ∀ g, fileSafe w g c) :
    WholeSt w0 a0 H msg0 c0 (stepWorld w c r) st := by
  obtain ⟨nb, hL, hnb⟩ := s.loc
  exact ⟨⟨nb, hL.step c r hd hfs, hnb⟩, s.fdCut, s.chs, s.msg, s.content⟩

theorem Located.whole_fr1 {w w' : World} {ms : MsgSt} {nb : Ent} (h : Located w ms nb) (fr : Fr1 (NewS w) w w') :
    Located w' ms nb := by
  obtain ⟨hl, fid, hlk, hlt, hf⟩ := h
  refine ⟨hl, fid, ?_, Nat.lt_of_lt_of_le hlt fr.nextFid, ?_⟩
  · unfold lk; rw [lookup_of_dirs fr.dirs]; exact hlk
  · rw [fr.files fid hlt (by simp only [NewS]; omega)]; exact hf

/-! ## one entry of the action list -/

/-- The postcondition of one entry: the frame, the state, and - without error - the invariant `At`. -/
def WholeExecPost (w0 : World) (a0 : Ent) (H : Nat) (msg0 : Msg) (c0 : Bytes) (r : ExecSt × Bool) (w' : World) : Prop :=
  WholeK a0 H w0 w' ∧ WholeSt w0 a0 H msg0 c0 w' r.1 ∧ (r.2 = false → ∃ sh' fid', At w' r.1 sh' fid')

theorem whole_closeRet {α} {a : Ent} {H : Nat} {w0 w : World} {Q : α → World → Prop} (md : Maildir) {d : Handle}
    (hd : md.dirH = some d) (x : α) (k : WholeK a H w0 w) (hH : H ≤ d)
    (hpost : ∀ r, WholeK a H w0 (stepWorld w (.closedir d) r) → Q x (stepWorld w (.closedir d) r)) :
    wp (fun w' => WholeK a H w0 w') ((maildirClose md).bind fun _ => Prog.ret x) Q w := by
  rw [maildirClose_some hd]
  simp only [call_bind', ret_bind]
  refine wp_call_any fun r => ?_
  have k1 := k.step (.closedir d) r rfl (by intro h hh; cases hh; exact hH) (fun _ _ => trivial)
  exact ⟨k1, hpost r k1⟩

theorem whole_moveBranch (env : PEnv) (mh : Match) (st : ExecSt) {w0 : World} {a0 : Ent} {H : Nat} {msg0 : Msg} {c0 : Bytes}
    {w : World} {sh : Handle} {fid : Nat}
    (k : WholeK a0 H w0 w) (hA : At w st sh fid) (hS : WholeSt w0 a0 H msg0 c0 w st) :
    wp (fun w' => WholeK a0 H w0 w') (moveBranch env mh st) (WholeExecPost w0 a0 H msg0 c0) w := by
  have hHw : H ≤ w.handles.length := Nat.le_trans k.cut k.len
  have hshlt : sh < w.handles.length := lt_of_dirPath hA.hps
  -- the entry of the message is `a0` or was free at the start
  have hun : (st.src.path, st.ms.name) = a0 ∨ lk w0 (st.src.path, st.ms.name) = none := by
    obtain ⟨nb, ⟨hl, _⟩, hnb⟩ := hS.loc
    rw [hA.hloc] at hl
    cases hl
    exact hnb
  unfold moveBranch
  refine wp_bind_mono (whole_maildirOpenDst mh.path k) ?_
  rintro d w1 ⟨m1, hd⟩
  have k1 : WholeK a0 H w0 w1 := k.trans (WholeK.of_mid_same (a := a0) m1 hHw) (.inl rfl) (Nat.le_refl _)
  have hL1 : Located w1 st.ms (st.src.path, st.ms.name) := hA.located.whole_of_mid m1 rfl
  cases d with
  | none =>
    exact ⟨k1, ⟨⟨_, hL1, hun⟩, hS.fdCut, hS.chs, hS.msg, hS.content⟩, by intro h; cases h⟩
  | some dst =>
    obtain ⟨dh, hdh, hpd1, hdd, dhlo, dhhi, hwf, hdp⟩ := hd dst rfl
    dsimp only
    have hps1 := m1.dirPath hA.hps
    have hdd1 : (w1.dir dst.path).isSome := by rw [m1.dirSome]; exact hdd
    have hHw1 : H ≤ w1.handles.length := Nat.le_trans hHw m1.len
    refine wp_bind_mono (wp_inv_mono (whole_maildirMove env hA.hsh hdh hps1 hpd1 hdd1 hL1 hHw1)
      (fun _ h => k1.trans h hun (Nat.le_refl _))) ?_
    rintro ⟨ms', e⟩ w2 ⟨k12, hobjs, nb, hloc2, hfresh, hmsg, hfd, hcont, hnb⟩
    simp only at hloc2 hmsg hfd hcont hnb
    have k2 : WholeK a0 H w0 w2 := k1.trans k12 hun (Nat.le_refl _)
    have hnb0 : nb = a0 ∨ lk w0 nb = none := by
      rcases hfresh with rfl | h
      · exact hun
      · exact k1.fresh_back h
    have hmsg' : ms'.msg = msg0 := hmsg.trans hS.msg
    have hcont' : ms'.content = c0 ∨ ms'.content = (messageWrite msg0).1 := by
      rcases hcont with h | h
      · rw [h]; exact hS.content
      · right; rw [h, hS.msg]
    have hfdc : ∀ h, ms'.fd = some h → H ≤ h := by
      intro h hh; rw [hfd] at hh; exact hS.fdCut h hh
    have hHdh : H ≤ dh := Nat.le_trans hHw dhlo
    cases e with
    | true =>
      simp only [if_true]
      refine whole_closeRet dst hdh _ k2 hHdh ?_
      intro r k3
      exact ⟨k3, ⟨⟨nb, hloc2.step _ r rfl (fun _ => trivial), hnb0⟩, hfdc, hS.chs, hmsg', hcont'⟩, by intro h; cases h⟩
    | false =>
      simp only [Bool.false_eq_true, if_false]
      have hnb' := hnb rfl
      subst hnb'
      obtain ⟨hl2, fid2, hlk2, hlt2, hf2⟩ := hloc2
      have hlen1 : w.handles.length ≤ w1.handles.length := m1.len
      have hlen2 : w1.handles.length ≤ w2.handles.length := k12.len
      split
      · -- the message is now in another directory: it becomes the source
        have hA2 : At w2 { src := dst, chsrc := true, ms := ms', reject := st.reject } dh fid2 := by
          refine ⟨hdh, ?_, hwf, hl2, hlk2, hlt2, hf2, ?_⟩
          · rw [← hpd1]; exact dirPath_congr (hobjs dh dhhi)
          · intro h hh
            rw [hfd] at hh
            obtain ⟨h1, _⟩ := hA.mfd h hh
            exact ⟨Nat.lt_of_lt_of_le h1 (Nat.le_trans hlen1 hlen2), Nat.ne_of_lt (Nat.lt_of_lt_of_le h1 dhlo)⟩
        have hS2 : WholeSt w0 a0 H msg0 c0 w2 { src := dst, chsrc := true, ms := ms', reject := st.reject } :=
          ⟨⟨_, hA2.located, hnb0⟩, hfdc, fun _ h hh => by rw [hdh] at hh; cases hh; exact hHdh, hmsg', hcont'⟩
        split
        · rename_i hchs
          refine whole_closeRet st.src hA.hsh _ k2 (hS.chs hchs sh hA.hsh) ?_
          intro r k3
          have hA3 := hA2.closedir sh r (Nat.ne_of_lt (Nat.lt_of_lt_of_le hshlt dhlo))
          exact ⟨k3, hS2.step _ r rfl (fun _ => trivial), fun _ => ⟨_, _, hA3⟩⟩
        · exact ⟨k2, hS2, fun _ => ⟨_, _, hA2⟩⟩
      · -- same maildir and subdirectory: the source stays
        rename_i hsame
        have hpath : dst.path = st.src.path := by
          have h1 : st.src.subdir = dst.subdir := by
            cases h : st.src.subdir <;> cases h' : dst.subdir <;> simp_all
          have h2 : st.src.root = dst.root := by
            by_cases h : st.src.root = dst.root
            · exact h
            · simp_all
          have := hA.wf
          rw [h1, h2, hwf] at this
          exact Option.some.inj this
        have hA2 : At w2 { src := st.src, chsrc := st.chsrc, ms := ms', reject := st.reject } sh fid2 := by
          refine ⟨hA.hsh, ?_, hA.wf, by rw [hl2, hpath], by rw [← hpath]; exact hlk2, hlt2, hf2, ?_⟩
          · rw [← hps1]; exact dirPath_congr (hobjs sh (Nat.lt_of_lt_of_le hshlt hlen1))
          · intro h hh
            rw [hfd] at hh
            obtain ⟨h1, h2⟩ := hA.mfd h hh
            exact ⟨Nat.lt_of_lt_of_le h1 (Nat.le_trans hlen1 hlen2), h2⟩
        have hS2 : WholeSt w0 a0 H msg0 c0 w2 { src := st.src, chsrc := st.chsrc, ms := ms', reject := st.reject } :=
          ⟨⟨_, hA2.located, by rw [← hpath]; exact hnb0⟩, hfdc, hS.chs, hmsg', hcont'⟩
        refine whole_closeRet dst hdh _ k2 hHdh ?_
        intro r k3
        have hA3 := hA2.closedir dh r (Ne.symm (Nat.ne_of_lt (Nat.lt_of_lt_of_le hshlt dhlo)))
        exact ⟨k3, hS2.step _ r rfl (fun _ => trivial), fun _ => ⟨_, _, hA3⟩⟩

/-- One entry of the action list (other than discard) under every fault plan. -/
theorem whole_execOne (env : PEnv) (mh : Match) (st : ExecSt) {w0 : World} {a0 : Ent} {H : Nat} {msg0 : Msg} {c0 : Bytes}
    {w : World} {sh : Handle} {fid : Nat}
    (k : WholeK a0 H w0 w) (hA : At w st sh fid) (hS : WholeSt w0 a0 H msg0 c0 w st) (hnd : mh.ty ≠ .discard) :
    wp (fun w' => WholeK a0 H w0 w') (execOne env mh st) (WholeExecPost w0 a0 H msg0 c0) w := by
  have hHw : H ≤ w.handles.length := Nat.le_trans k.cut k.len
  have hun : (st.src.path, st.ms.name) = a0 ∨ lk w0 (st.src.path, st.ms.name) = none := by
    obtain ⟨nb, ⟨hl, _⟩, hnb⟩ := hS.loc
    rw [hA.hloc] at hl
    cases hl
    exact hnb
  by_cases hpt : isPathTy mh.ty = true
  · rw [execOne_moveBranch env mh st hpt]
    exact whole_moveBranch env mh st k hA hS
  by_cases hrt : isRewriteTy mh.ty = true
  · -- label, add-header
    have hprog : execOne env mh st = (maildirWrite env st.src st.ms).bind fun x => Prog.ret ({ st with ms := x.1 }, x.2) := by
      unfold execOne
      cases hty : mh.ty <;> simp [isRewriteTy, hty] at hrt <;> rfl
    rw [hprog]
    refine wp_bind_mono (wp_inv_mono (whole_maildirWrite env hA.hsh hA.hps hA.located hHw hS.fdCut)
      (fun _ h => k.trans h hun (Nat.le_refl _))) ?_
    rintro ⟨ms', e⟩ w1 ⟨k01, hobjs, nb, hloc1, hfresh, hmsg, hcont, herr, hfin⟩
    simp only at hloc1 hmsg hcont herr hfin
    have k1 : WholeK a0 H w0 w1 := k.trans k01 hun (Nat.le_refl _)
    have hnb0 : nb = a0 ∨ lk w0 nb = none := by
      rcases hfresh with rfl | h
      · exact hun
      · exact k.fresh_back h
    have hmsg' : ms'.msg = msg0 := hmsg.trans hS.msg
    have hcont' : ms'.content = c0 ∨ ms'.content = (messageWrite msg0).1 := by
      rcases hcont with h | h
      · rw [h]; exact hS.content
      · right; rw [h, hS.msg]
    cases e with
    | true =>
      refine ⟨k1, ⟨⟨nb, hloc1, hnb0⟩, ?_, hS.chs, hmsg', hcont'⟩, by intro h; cases h⟩
      intro h hh
      rw [herr rfl] at hh
      exact hS.fdCut h hh
    | false =>
      obtain ⟨hnb, hc, rd, hrd, hrdlo, hrdhi⟩ := hfin rfl
      subst hnb
      obtain ⟨hl1, fid1, hlk1, hlt1, hf1⟩ := hloc1
      have hshlt : sh < w.handles.length := lt_of_dirPath hA.hps
      have hA1 : At w1 { st with ms := ms' } sh fid1 := by
        refine ⟨hA.hsh, ?_, hA.wf, hl1, hlk1, hlt1, hf1, ?_⟩
        · rw [← hA.hps]
          refine dirPath_congr (hobjs sh hshlt ?_)
          intro hh
          exact (hA.mfd sh hh).2 rfl
        · intro h hh
          rw [hrd] at hh
          cases hh
          exact ⟨hrdhi, Ne.symm (Nat.ne_of_lt (Nat.lt_of_lt_of_le hshlt hrdlo))⟩
      refine ⟨k1, ⟨⟨_, hA1.located, hnb0⟩, ?_, hS.chs, hmsg', hcont'⟩, fun _ => ⟨_, _, hA1⟩⟩
      intro h hh
      rw [hrd] at hh
      cases hh
      exact Nat.le_trans hHw hrdlo
  -- neither a path action nor a rewrite
  have same : ∀ st' : ExecSt, st'.src = st.src → st'.ms = st.ms → st'.chsrc = st.chsrc →
      WholeExecPost w0 a0 H msg0 c0 (st', false) w := by
    intro st' h1 h2 h3
    have hA' : At w st' sh fid := by
      refine ⟨by rw [h1]; exact hA.hsh, by rw [h1]; exact hA.hps, by rw [h1]; exact hA.wf,
        by rw [h1, h2]; exact hA.hloc, by rw [h1, h2]; exact hA.hlk, hA.hlt, by rw [h2]; exact hA.hf,
        by rw [h2]; exact hA.mfd⟩
    refine ⟨k, ⟨?_, by rw [h2]; exact hS.fdCut, by rw [h1, h3]; exact hS.chs, by rw [h2]; exact hS.msg,
      by rw [h2]; exact hS.content⟩, fun _ => ⟨_, _, hA'⟩⟩
    rw [h2]; exact hS.loc
  cases hty : mh.ty with
  | exec =>
    refine wp_mono (wp_inv_mono (whole_execOne_exec env mh st hty)
      (fun _ fr => k.of_fr1 fr (fun g hg => Nat.le_trans k.nextFid hg))) ?_
    rintro ⟨st', e⟩ w1 ⟨fr, hst⟩
    simp only [Prod.mk.injEq, and_true] at hst
    subst hst
    have hA1 := hA.frame fr
    have k1 : WholeK a0 H w0 w1 := k.of_fr1 fr (fun g hg => Nat.le_trans k.nextFid hg)
    exact ⟨k1, ⟨⟨_, hA1.located, hun⟩, hS.fdCut, hS.chs, hS.msg, hS.content⟩, fun _ => ⟨_, _, hA1⟩⟩
  | discard => exact absurd hty hnd
  | move => simp [isPathTy, hty] at hpt
  | flag => simp [isPathTy, hty] at hpt
  | flags => simp [isPathTy, hty] at hpt
  | label => simp [isRewriteTy, hty] at hrt
  | addHeader => simp [isRewriteTy, hty] at hrt
  | reject =>
    have hprog : execOne env mh st = Prog.ret ({ st with reject := true }, false) := by
      unfold execOne; simp only [hty]; rfl
    rw [hprog]
    exact same _ rfl rfl rfl
  | mtch | body | date | header | stat | command | brk | pass | attBlock =>
    have hprog : execOne env mh st = Prog.ret (st, false) := by
      unfold execOne; simp only [hty]; rfl
    rw [hprog]
    exact same _ rfl rfl rfl

/-! ## the whole list -/

/-- `matches_exec` under every fault plan, for a list without discard. -/
theorem whole_matchesExec (env : PEnv) (ml : MatchList) (st : ExecSt) {w0 : World} {a0 : Ent} {H : Nat} {msg0 : Msg} {c0 : Bytes}
    {w : World} {sh : Handle} {fid : Nat}
    (k : WholeK a0 H w0 w) (hA : At w st sh fid) (hS : WholeSt w0 a0 H msg0 c0 w st) (hnd : ∀ m ∈ ml, m.ty ≠ .discard) :
    wp (fun w' => WholeK a0 H w0 w') (matchesExec env ml st)
      (fun r w' => WholeK a0 H w0 w' ∧ WholeSt w0 a0 H msg0 c0 w' r.1) w := by
  induction ml generalizing st w sh fid with
  | nil =>
    unfold matchesExec
    simp only [bind_eq, pure_eq]
    split
    · rename_i hchs
      refine whole_closeRet st.src hA.hsh _ k (hS.chs hchs sh hA.hsh) ?_
      intro r k1
      exact ⟨k1, hS.step _ r rfl (fun _ => trivial)⟩
    · exact ⟨k, hS⟩
  | cons mh rest ih =>
    unfold matchesExec
    simp only [bind_eq, pure_eq]
    refine wp_bind_mono (whole_execOne env mh st k hA hS (hnd mh (List.mem_cons_self ..))) ?_
    rintro ⟨st', e⟩ w1 ⟨k1, hS1, hok⟩
    dsimp only at hS1 hok ⊢
    split
    · split
      · rename_i hchs
        cases hd : st'.src.dirH with
        | none =>
          unfold maildirClose
          simp only [hd, ret_bind]
          exact ⟨k1, hS1⟩
        | some d =>
          refine whole_closeRet st'.src hd _ k1 (hS1.chs hchs d hd) ?_
          intro r k2
          exact ⟨k2, hS1.step _ r rfl (fun _ => trivial)⟩
      · exact ⟨k1, hS1⟩
    · rename_i he
      have he' : e = false := by cases e <;> simp_all
      obtain ⟨sh', fid', hA1⟩ := hok he'
      exact ih st' k1 hA1 hS1 (fun m hmem => hnd m (List.mem_cons_of_mem _ hmem))

end Mdsort.Proofs.World
