import Mdsort.Proofs.LimitsSetters
import Mdsort.Model.Conf

/-!
# The parser under two sizes of the `expandtilde` buffer

The only buffer the parser fills is the one of `expandtilde` (`PATH_MAX`, parse.y): a string that starts with `~` is
replaced by `home ++ rest` when that fits, otherwise the diagnostic "path too long" is issued and the configuration is
rejected as a whole.  Strings that do not start with `~` (literal paths, and what macros expand to - `expandmacros` runs
AFTER `expandtilde`) are not measured by the parser at all; they are measured when they are used (`maildir_open`,
`expr_eval_move`, `expr_eval_stat`, `match_interpolate`).

`parseConfigFullL_mono`: for `l ≤ l'` the parser with buffer `l` gives what the parser with buffer `l'` gives, or it
rejects the configuration.
-/

namespace Mdsort.Proofs.Limits
open Mdsort Mdsort.Model

/-- Same outcome, or the left run reports a diagnostic. -/
def PMono {α : Type} (m m' : PM α) : Prop := ∀ s, m s = m' s ∨ ∃ line s', m s = .err line s'

theorem PMono.refl {α : Type} (m : PM α) : PMono m m := fun _ => .inl rfl

theorem PMono.of_eq {α : Type} {m m' : PM α} (h : m = m') : PMono m m' := h ▸ PMono.refl m

theorem PMono.bind {α β : Type} {m m' : PM α} {f f' : α → PM β} (hm : PMono m m') (hf : ∀ a, PMono (f a) (f' a)) :
    PMono (m >>= f) (m' >>= f') := by
  intro s
  show PM.bind m f s = PM.bind m' f' s ∨ ∃ line s', PM.bind m f s = .err line s'
  unfold PM.bind
  rcases hm s with h | ⟨line, s', h⟩
  · rw [h]
    cases m' s with
    | ok a s1 => exact hf a s1
    | err l s1 => exact .inl rfl
    | fuel s1 => exact .inl rfl
  · rw [h]; exact .inr ⟨line, s', rfl⟩

/-- The same first step, then continuations. -/
theorem PMono.bind_same {α β : Type} (m : PM α) {f f' : α → PM β} (hf : ∀ a, PMono (f a) (f' a)) : PMono (m >>= f) (m >>= f') :=
  PMono.bind (PMono.refl m) hf

/-- Options of parsers (`parseCondKw`, `parseActionWith`). -/
def OMono {α : Type} : Option (PM α) → Option (PM α) → Prop
  | none, none => True
  | some p, some p' => PMono p p'
  | _, _ => False

/-! ## expansion -/

theorem expandStr_mono {l l' : Lim} (hle : l ≤ l') (home : Bytes) (action : Bool) (ms : List Macro) (str : Bytes) :
    expandStr l home action ms str = none ∨ expandStr l home action ms str = expandStr l' home action ms str := by
  unfold expandStr
  rcases expandTildeL_mono home str hle with h | h
  · rw [h]; exact .inl rfl
  · rw [h]; exact .inr rfl

theorem expandStrs_mono {l l' : Lim} (hle : l ≤ l') (home : Bytes) (action : Bool) (strs : List Bytes) : ∀ ms,
    expandStrs l home action ms strs = none ∨ expandStrs l home action ms strs = expandStrs l' home action ms strs := by
  induction strs with
  | nil => intro ms; exact .inr rfl
  | cons s r ih =>
    intro ms
    simp only [expandStrs]
    rcases expandStr_mono hle home action ms s with h | h
    · rw [h]; exact .inl rfl
    · rw [h]
      cases expandStr l' home action ms s with
      | none => exact .inl rfl
      | some x =>
        obtain ⟨s', ms'⟩ := x
        simp only
        rcases ih ms' with h2 | h2
        · rw [h2]; exact .inl rfl
        · rw [h2]; exact .inr rfl

/-- The context with another buffer size. -/
def cxAt (cx : PCtx) (l : Lim) : PCtx := { cx with pathMax := l }

variable {l l' : Lim} (cx : PCtx)

theorem expandOne_mono (hle : l ≤ l') (action : Bool) (str : Bytes) : PMono (expandOne (cxAt cx l) action str) (expandOne (cxAt cx l') action str) := by
  intro s
  simp only [expandOne, cxAt]
  rcases expandStr_mono hle cx.home action s.macros str with h | h
  · rw [h]; exact .inr ⟨_, _, rfl⟩
  · rw [h]; exact .inl rfl

theorem expandAll_mono (hle : l ≤ l') (action : Bool) (strs : List Bytes) : PMono (expandAll (cxAt cx l) action strs) (expandAll (cxAt cx l') action strs) := by
  intro s
  simp only [expandAll, cxAt]
  rcases expandStrs_mono hle cx.home action strs s.macros with h | h
  · rw [h]; exact .inr ⟨_, _, rfl⟩
  · rw [h]; exact .inl rfl

/-! ## the parts of the parser that fill no buffer do not depend on the buffer size -/

theorem parseStringBlock_cx (fuel : Nat) : ∀ acc, parseStringBlock (cxAt cx l) fuel acc = parseStringBlock (cxAt cx l') fuel acc := by
  induction fuel with
  | zero => intro acc; rfl
  | succ n ih => intro acc; simp only [parseStringBlock, ih]; rfl

theorem parseStrings_cx (fuel : Nat) : parseStrings (cxAt cx l) fuel = parseStrings (cxAt cx l') fuel := by
  simp only [parseStrings, parseStringBlock_cx (l := l) (l' := l') cx fuel]
  rfl

theorem parseExecFlags_cx (fuel : Nat) : ∀ si bo, parseExecFlags (cxAt cx l) fuel si bo = parseExecFlags (cxAt cx l') fuel si bo := by
  induction fuel with
  | zero => intro si bo; rfl
  | succ n ih => intro si bo; simp only [parseExecFlags, ih]; rfl

/-! ## the grammar -/

macro "pm_step" : tactic =>
  `(tactic| first
      | (with_reducible exact PMono.refl _)
      | exact expandOne_mono _ (by assumption) _ _
      | exact expandAll_mono _ (by assumption) _ _
      | (apply PMono.bind_same; intro _)
      | (refine PMono.bind ?_ (fun _ => ?_))
      | exact PMono.of_eq rfl
      | split
      | (dsimp only; split))


theorem parseCondKw_mono (hle : l ≤ l') (fuel : Nat) {unary unary' : PM CTree} (hu : PMono unary unary') (k : Kw) :
    OMono (parseCondKw (cxAt cx l) fuel unary k) (parseCondKw (cxAt cx l') fuel unary' k) := by
  cases k <;> simp only [parseCondKw, OMono, parseStrings_cx (l := l) (l' := l') cx fuel] <;>
    repeat' (first | exact hu | pm_step)

theorem parseUnaryBin_mono (hle : l ≤ l') (fuel : Nat) :
    PMono (parseUnary (cxAt cx l) fuel) (parseUnary (cxAt cx l') fuel) ∧
      ∀ lhs, PMono (parseBinTail (cxAt cx l) fuel lhs) (parseBinTail (cxAt cx l') fuel lhs) := by
  induction fuel with
  | zero => exact ⟨PMono.of_eq (by simp only [parseUnary]), fun lhs => PMono.of_eq (by simp only [parseBinTail])⟩
  | succ n ih =>
    refine ⟨?_, fun lhs => ?_⟩
    · simp only [parseUnary]
      refine PMono.bind (PMono.of_eq rfl) fun t => ?_
      cases t with
      | neg => exact PMono.bind_same _ fun _ => PMono.bind ih.1 fun _ => PMono.of_eq rfl
      | lparen =>
        exact PMono.bind_same _ fun _ => PMono.bind ih.1 fun e => PMono.bind (ih.2 e) fun _ => PMono.of_eq rfl
      | kw k =>
        simp only
        have := parseCondKw_mono cx hle n ih.1 k
        revert this
        cases parseCondKw (cxAt cx l) n (parseUnary (cxAt cx l) n) k <;>
          cases parseCondKw (cxAt cx l') n (parseUnary (cxAt cx l') n) k <;> intro h
        · exact PMono.refl _
        · exact h.elim
        · exact h.elim
        · exact h
      | _ => exact PMono.refl _
    · simp only [parseBinTail]
      refine PMono.bind (PMono.of_eq rfl) fun t => ?_
      cases t with
      | kw k =>
        cases k <;> first
          | exact PMono.refl _
          | exact PMono.bind_same _ fun _ => PMono.bind ih.1 fun r => PMono.bind (PMono.of_eq rfl) fun _ => ih.2 _
      | _ => exact PMono.refl _

theorem parseRuleWith_mono (hle : l ≤ l') (fuel : Nat) {exprs exprs' : PM CTree} {actions actions' : PM (Option CTree)}
    (he : PMono exprs exprs') (ha : PMono actions actions') :
    PMono (parseRuleWith (cxAt cx l) fuel exprs actions) (parseRuleWith (cxAt cx l') fuel exprs' actions') := by
  unfold parseRuleWith
  refine PMono.bind (parseUnaryBin_mono cx hle fuel).1 fun c0 => ?_
  refine PMono.bind ((parseUnaryBin_mono cx hle fuel).2 c0) fun c => ?_
  refine PMono.bind (PMono.of_eq rfl) fun t => ?_
  cases t <;> simp only <;> repeat' (first | exact he | exact ha | pm_step)

theorem parseActionWith_mono (hle : l ≤ l') (fuel : Nat) {exprs exprs' : PM CTree} (he : PMono exprs exprs') (k : Kw) :
    OMono (parseActionWith (cxAt cx l) fuel exprs k) (parseActionWith (cxAt cx l') fuel exprs' k) := by
  cases k <;> simp only [parseActionWith, OMono, parseStrings_cx (l := l) (l' := l') cx fuel,
      parseExecFlags_cx (l := l) (l' := l') cx fuel] <;>
    repeat' (first | exact he | pm_step)

theorem parseExprsActions_mono (hle : l ≤ l') (fuel : Nat) :
    (∀ acc, PMono (parseExprs (cxAt cx l) fuel acc) (parseExprs (cxAt cx l') fuel acc)) ∧
      ∀ acc, PMono (parseActions (cxAt cx l) fuel acc) (parseActions (cxAt cx l') fuel acc) := by
  induction fuel with
  | zero => exact ⟨fun acc => PMono.of_eq (by simp only [parseExprs]), fun acc => PMono.of_eq (by simp only [parseActions])⟩
  | succ n ih =>
    refine ⟨fun acc => ?_, fun acc => ?_⟩
    · simp only [parseExprs]
      refine PMono.bind (PMono.of_eq rfl) fun t => ?_
      cases t with
      | kw k =>
        cases k <;> first
          | exact PMono.refl _
          | exact PMono.bind_same _ fun _ =>
              PMono.bind (parseRuleWith_mono cx hle n (ih.1 none) (ih.2 none)) fun r => PMono.bind (PMono.of_eq rfl) fun _ => ih.1 _
      | rbrace => exact PMono.of_eq rfl
      | _ => exact PMono.refl _
    · simp only [parseActions]
      refine PMono.bind (PMono.of_eq rfl) fun t => ?_
      cases t with
      | kw k =>
        simp only
        have := parseActionWith_mono cx hle n (ih.1 none) k
        revert this
        cases parseActionWith (cxAt cx l) n (parseExprs (cxAt cx l) n none) k <;>
          cases parseActionWith (cxAt cx l') n (parseExprs (cxAt cx l') n none) k <;> intro h
        · exact PMono.refl _
        · exact h.elim
        · exact h.elim
        · exact PMono.bind h fun a => PMono.bind (PMono.of_eq rfl) fun _ => ih.2 _
      | _ => exact PMono.refl _

theorem parseMaildirBody_mono (hle : l ≤ l') (fuel : Nat) (paths : List Bytes) :
    PMono (parseMaildirBody (cxAt cx l) fuel paths) (parseMaildirBody (cxAt cx l') fuel paths) := by
  unfold parseMaildirBody
  refine PMono.bind (PMono.of_eq rfl) fun _ => ?_
  refine PMono.bind ((parseExprsActions_mono cx hle fuel).1 none) fun b => ?_
  exact PMono.refl _

theorem parseMacroDef_mono (hle : l ≤ l') (name : Bytes) :
    PMono (parseMacroDef (cxAt cx l) name) (parseMacroDef (cxAt cx l') name) := by
  unfold parseMacroDef
  refine PMono.bind (PMono.of_eq rfl) fun _ => ?_
  refine PMono.bind (PMono.of_eq rfl) fun v => ?_
  refine PMono.bind (PMono.of_eq rfl) fun _ => ?_
  refine PMono.bind (expandOne_mono cx hle _ _) fun v' => ?_
  exact PMono.refl _

theorem parseTop_mono (hle : l ≤ l') (fuel : Nat) :
    ∀ blocks, PMono (parseTop (cxAt cx l) fuel blocks) (parseTop (cxAt cx l') fuel blocks) := by
  induction fuel with
  | zero => intro blocks; exact PMono.of_eq (by simp only [parseTop])
  | succ n ih =>
    intro blocks
    simp only [parseTop]
    refine PMono.bind (PMono.of_eq rfl) fun t => ?_
    cases t with
    | eof => exact PMono.refl _
    | kw k =>
      cases k <;> first
        | exact PMono.refl _
        | (simp only [parseStrings_cx (l := l) (l' := l') cx n]
           exact PMono.bind_same _ fun _ => PMono.bind_same _ fun ss => PMono.bind (expandAll_mono cx hle _ _) fun paths =>
             PMono.bind (parseMaildirBody_mono cx hle n paths) fun b => ih _)
        | (refine PMono.bind_same _ fun _ => ?_
           split
           · exact PMono.refl _
           · exact PMono.bind (parseMaildirBody_mono cx hle n _) fun b => ih _)
    | «macro» name =>
      exact PMono.bind_same _ fun _ => PMono.bind (parseMacroDef_mono cx hle name) fun _ => ih _
    | _ => exact PMono.refl _

/-- The parser with the smaller `expandtilde` buffer gives what the parser with the larger one gives - the same blocks,
the same diagnostic - or it rejects the configuration. -/
theorem parseConfigL_mono (hle : l ≤ l') (home : Bytes) (defs : List (Bytes × Bytes)) (rxOk : Pat → Bool) (input : Bytes) :
    parseConfigL l home defs rxOk input = parseConfigL l' home defs rxOk input ∨
      ∃ line, parseConfigL l home defs rxOk input = .error line := by
  unfold parseConfigL parseConfigFullL
  cases macrosOfDefs defs [] with
  | none => exact .inl rfl
  | some ms =>
    simp only
    have h := parseTop_mono { nl := countNl input, home := home, rxOk := rxOk } hle (input.length + 1) []
      { rest := input, macros := ms }
    simp only [cxAt] at h
    rcases h with h | ⟨line, s', h⟩
    · rw [h]; exact .inl rfl
    · rw [h]; exact .inr ⟨line, rfl⟩

theorem parseConfigL_std (home : Bytes) (defs : List (Bytes × Bytes)) (rxOk : Pat → Bool) (input : Bytes) :
    parseConfigL (.fin PATH_MAX) home defs rxOk input = parseConfig home defs rxOk input := rfl

end Mdsort.Proofs.Limits
