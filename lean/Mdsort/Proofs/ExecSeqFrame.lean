import Mdsort.Proofs.ExecSeqMaildirWrite
import Mdsort.Proofs.WorldExec

/-!
The scripts of `matches_exec` that do NOT replace the message's descriptor (`maildir_move`, the
destination maildir, `message_get_fd`, `exec`), against arbitrary possible results: the file the
descriptor refers to and every handle that existed are untouched.
-/

namespace Mdsort.Proofs.ExecSeq
open Mdsort Mdsort.Model Mdsort.Spec Mdsort.Proofs.World

/-! ## calls on new handles that write nothing -/

/-- The calls that put data into a file. -/
def Call.puts : Call → Bool
  | .write .. | .fprintf .. | .fsync .. | .fflush .. | .fclose .. => true
  | _ => false

/-- The call's subject (if any) is a handle numbered `N0` or later, and it is not one of the calls
that put data into a file. -/
def FreshSafe (N0 : Nat) (c : Call) : Prop :=
  (∀ h, Call.subject c = some h → N0 ≤ h) ∧ Call.puts c = false

theorem FreshSafe.fileSafe {N0 : Nat} {c : Call} (h : FreshSafe N0 c) (w : World) (fid : Nat) : fileSafe w fid c := by
  have h2 := h.2
  cases c <;> first | trivial | (simp [Call.puts] at h2)

theorem Frm.calls {α} {fid0 : Nat} {c0 : Bytes} {w0 : World} {p : Prog α} (hc : Calls (FreshSafe w0.handles.length) p)
    {w : World} (fr : Frm fid0 c0 w0 w) : wpo p (fun _ w' => Frm fid0 c0 w0 w') w := by
  induction p generalizing w with
  | ret a => exact fr
  | call c k ih => intro r _; exact ih _ (hc.2 _) (fr.step c r hc.1.1 (hc.1.fileSafe _ _))

macro "fresh_step" : tactic =>
  `(tactic| first
      | (with_reducible exact Calls.ret_intro' _)
      | (exact Calls.ret_intro' _)
      | (with_reducible apply Calls.call_intro')
      | (intro _)
      | (with_reducible apply Calls.bind)
      | split
      | (dsimp only; split))

theorem freshSafe_nosubject {N0 : Nat} {c : Call} (hs : Call.subject c = none) (hw : Call.puts c = false) :
    FreshSafe N0 c := ⟨(by intro h hh; rw [hs] at hh; cases hh), hw⟩

theorem freshSafe_close {N0 : Nat} {fd : Handle} (h : N0 ≤ fd) : FreshSafe N0 (.close fd) :=
  ⟨(by intro x hx; cases hx; exact h), rfl⟩

theorem freshSafe_closedir {N0 : Nat} {fd : Handle} (h : N0 ≤ fd) : FreshSafe N0 (.closedir fd) :=
  ⟨(by intro x hx; cases hx; exact h), rfl⟩

theorem calls_maildirUnlink (N0 : Nat) (md : Maildir) (name : Bytes) : Calls (FreshSafe N0) (maildirUnlink md name) := by
  unfold maildirUnlink
  simp only [bind_eq, pure_eq, call_bind]
  repeat' (first | exact freshSafe_nosubject rfl rfl | fresh_step)

theorem calls_maildirClose (N0 : Nat) (md : Maildir) (h : ∀ d, md.dirH = some d → N0 ≤ d) :
    Calls (FreshSafe N0) (maildirClose md) := by
  unfold maildirClose
  simp only [bind_eq, pure_eq, call_bind]
  split
  · rename_i d hd
    exact ⟨freshSafe_closedir (h d hd), fun _ => trivial⟩
  · trivial

/-! ## the destination maildir -/

theorem spec_maildirOpendir_new {fid0 : Nat} {c0 : Bytes} {w0 : World} (md : Maildir) (path : Bytes) (hmd : md.dirH = none)
    {w : World} (fr : Frm fid0 c0 w0 w) :
    wpo (maildirOpendir md path)
      (fun r w' => Frm fid0 c0 w0 w' ∧
        (r.2 = false → ∃ h, r.1.dirH = some h ∧ w0.handles.length ≤ h ∧ h < w'.handles.length)) w := by
  unfold maildirOpendir
  simp only [hmd, bind_eq, pure_eq, call_bind, ret_bind]
  intro r hp
  have fr1 := fr.step (.opendir path) r (by intro _ h; cases h) trivial
  rcases possible_handle hp rfl rfl with rfl | ⟨e, rfl⟩
  · refine ⟨fr1, ?_⟩
    intro _
    refine ⟨_, rfl, fr.len, ?_⟩
    have hd : (applyOk w (.opendir path) (.ok w.handles.length)).isSome = true := hp.1
    simp only [applyOk, Option.isSome_map] at hd
    rw [stepWorld_handles, core_opendir_ok hd w.handles.length]
    simp
  · exact ⟨fr1, by intro h; cases h⟩

theorem spec_maildirOpenDst {fid0 : Nat} {c0 : Bytes} {w0 : World} (path : Bytes) {w : World} (fr : Frm fid0 c0 w0 w) :
    wpo (maildirOpenDst path)
      (fun r w' => Frm fid0 c0 w0 w' ∧ ∀ dst, r = some dst → ∃ h, dst.dirH = some h ∧ w0.handles.length ≤ h ∧ h < w'.handles.length) w := by
  unfold maildirOpenDst
  split
  · exact ⟨fr, by intro _ h; cases h⟩
  split
  · exact ⟨fr, by intro _ h; cases h⟩
  split
  · exact ⟨fr, by intro _ h; cases h⟩
  simp only [bind_eq, pure_eq]
  refine wpo_bind_mono (spec_maildirOpendir_new _ _ rfl fr) ?_
  rintro ⟨md, failed⟩ w1 ⟨fr1, hd1⟩
  dsimp only
  split
  · exact ⟨fr1, by intro _ h; cases h⟩
  · rename_i hf
    refine ⟨fr1, ?_⟩
    intro dst h
    cases h
    exact hd1 (by simpa using hf)

/-! ## maildir_move -/

theorem all_maildirMove (env : PEnv) (src dst : Maildir) (ms : MsgSt) :
    All (fun r => r.1.fd = ms.fd ∧ r.1.msg = ms.msg ∧ r.1.parts = ms.parts) (maildirMove env src dst ms) := by
  unfold maildirMove gennameStart
  simp only [bind_eq, pure_eq, call_bind]
  split
  · exact ⟨rfl, rfl, rfl⟩
  split
  rotate_left
  · exact ⟨rfl, rfl, rfl⟩
  refine All.bind_of_forall _ ?_
  intro mt
  split
  · exact ⟨rfl, rfl, rfl⟩
  refine All.bind_of_forall _ ?_
  intro g
  split
  · exact ⟨rfl, rfl, rfl⟩
  intro r
  refine All.bind_mono (R := fun a => a.2.fd = ms.fd ∧ a.2.msg = ms.msg ∧ a.2.parts = ms.parts) ?_ ?_
  · split
    · split
      · refine All.bind_of_forall _ ?_
        intro we
        split
        · exact ⟨rfl, rfl, rfl⟩
        · refine All.bind_of_forall _ ?_
          intro ue
          cases ue <;> exact ⟨rfl, rfl, rfl⟩
      · exact ⟨rfl, rfl, rfl⟩
    · exact ⟨rfl, rfl, rfl⟩
  · rintro ⟨err1, ms1⟩ ⟨h1, h2, h3⟩
    dsimp only at h1 h2 h3 ⊢
    split
    · refine All.bind_of_forall _ ?_
      intro _ rc
      refine All.bind_of_forall _ ?_
      intro err2
      split
      · exact ⟨h1, h2, h3⟩
      · unfold messageSetFileMoved
        split
        · exact ⟨h1, h2, h3⟩
        split
        · exact ⟨h1, h2, h3⟩
        · exact ⟨h1, h2, h3⟩
    · intro rc
      refine All.bind_of_forall _ ?_
      intro err2
      split
      · exact ⟨h1, h2, h3⟩
      · unfold messageSetFileMoved
        split
        · exact ⟨h1, h2, h3⟩
        split
        · exact ⟨h1, h2, h3⟩
        · exact ⟨h1, h2, h3⟩

theorem spec_maildirMove (env : PEnv) (src dst : Maildir) (ms : MsgSt) {fid0 : Nat} {c0 : Bytes} {w0 w : World}
    (fr : Frm fid0 c0 w0 w) :
    wpo (maildirMove env src dst ms) (fun _ w' => Frm fid0 c0 w0 w') w := by
  unfold maildirMove gennameStart
  simp only [bind_eq, pure_eq, call_bind]
  split
  · exact fr
  split
  rotate_left
  · exact fr
  rename_i sh dh hsh hdh
  refine wpo_bind_mono (R := fun _ w' => Frm fid0 c0 w0 w') ?_ ?_
  · split
    · intro r _
      exact fr.step _ r (by intro _ h; cases h) trivial
    · exact fr
  intro mt w1 fr1
  split
  · exact fr1
  rename_i fl _
  refine wpo_bind_mono (spec_genname env dst (some fl) fid0 c0 w0 gennameAttempts _ fr1) ?_
  rintro g w2 ⟨fr2, hnew⟩
  cases g with
  | none => exact fr2
  | some x =>
  obtain ⟨fd, dstname⟩ := x
  obtain ⟨d, p2, fid, hd, nf, hlt, hfdN⟩ := hnew fd dstname rfl
  have hfne : fid ≠ fid0 := Nat.ne_of_gt hlt
  dsimp only
  intro r _
  have fr3 := fr2.step (.renameat sh ms.name dh dstname) r (by intro _ h; cases h) trivial
  have hobj3 : (stepWorld w2 (.renameat sh ms.name dh dstname) r).obj fd = .file fid 0 true := by
    rw [stepWorld_obj, core_obj w2 _ _ fd nf.fdLt (by simp [Call.subject])]; exact nf.obj
  have hfile3 : (stepWorld w2 (.renameat sh ms.name dh dstname) r).file fid = some ⟨[], []⟩ := by
    rw [stepWorld_file, core_file w2 (.renameat sh ms.name dh dstname) r fid nf.fidLt trivial]; exact nf.file
  generalize stepWorld w2 (.renameat sh ms.name dh dstname) r = w3 at fr3 hobj3 hfile3
  refine wpo_bind_mono (R := fun _ w' => Frm fid0 c0 w0 w') ?_ ?_
  · split
    · split
      · refine wpo_bind_mono (spec_messageWriteP ms.msg fd fr3 hobj3 hfne hfile3) ?_
        rintro we w4 ⟨fd4, -⟩
        split
        · exact fd4.fr
        · refine wpo_bind_mono (Frm.calls (calls_maildirUnlink _ src ms.name) fd4.fr) ?_
          intro ue w5 fr5
          exact fr5
      · exact fr3
    · exact fr3
  · rintro ⟨err1, ms1⟩ w4 fr4
    dsimp only
    refine wpo_mono (Frm.calls ?_ fr4) (fun _ _ h => h)
    repeat' (first
      | exact calls_maildirUnlink _ _ _
      | exact freshSafe_close hfdN
      | exact freshSafe_nosubject rfl rfl
      | (unfold messageSetFileMoved)
      | fresh_step)

/-! ## writefd, the write loop, message_get_fd -/

theorem spec_writefd {fid0 : Nat} {c0 : Bytes} {w0 : World} (tmpdir : Bytes) {w : World} (fr : Frm fid0 c0 w0 w) :
    wpo (writefd tmpdir)
      (fun r w' => Frm fid0 c0 w0 w' ∧
        ∀ fd, r = some fd → ∃ fid, w'.obj fd = .file fid 0 true ∧ w'.file fid = some ⟨[], []⟩ ∧ fid0 < fid ∧ w.nextFid ≤ fid ∧
          fid < w'.nextFid ∧ w0.handles.length ≤ fd) w := by
  unfold writefd
  split
  · exact ⟨fr, by intro _ h; cases h⟩
  rename_i tmpl _
  simp only [bind_eq, pure_eq, call_bind]
  intro r hp
  have fr1 := fr.step (.mkostemp tmpl) r (by intro _ h; cases h) trivial
  rcases possible_handle hp rfl rfl with rfl | ⟨e, rfl⟩
  · have hc := core_mkostemp_ok w tmpl w.handles.length
    dsimp only
    intro r2 _
    have fr2 := fr1.step (.unlink tmpl) r2 (by intro _ h; cases h) trivial
    dsimp only
    split
    · refine ⟨fr2, ?_⟩
      intro fd h
      cases h
      refine ⟨w.nextFid, ?_, ?_, fr.file.lt, Nat.le_refl _, ?_, fr.len⟩
      · rw [stepWorld_obj, core_unlink, stepWorld_obj, hc]; simp [obj_newHandle]
      · rw [stepWorld_file, core_unlink, stepWorld_file, hc]; simp [file_setFile]
      · rw [stepWorld_nextFid, core_unlink, stepWorld_nextFid, hc]; simp
    · intro r3 _
      have fr3 := fr2.step (.close w.handles.length) r3 (by intro _ h; cases h; exact fr.len) trivial
      exact ⟨fr3, by intro _ h; cases h⟩
  · exact ⟨fr1, by intro _ h; cases h⟩

/-- The write loop of `message_get_fd` on a new file: when it reports success the file has grown by
exactly `data`. -/
theorem spec_writeAll {fid0 : Nat} {c0 : Bytes} {w0 : World} (fd : Handle) (fid : Nat) (hne : fid ≠ fid0)
    (hN : w0.handles.length ≤ fd) (fuel : Nat) (data : Bytes) {w : World} {off : Nat} {f0 : File}
    (fr : Frm fid0 c0 w0 w) (ho : w.obj fd = .file fid off true) (hf : w.file fid = some f0) (hfl : fid < w.nextFid) :
    wpo (writeAll fd fuel data)
      (fun e w' => Frm fid0 c0 w0 w' ∧ fid < w'.nextFid ∧ ∃ off' f, w'.obj fd = .file fid off' true ∧ w'.file fid = some f ∧
        (e = false → f.data = f0.data ++ data)) w := by
  induction fuel generalizing data w off f0 with
  | zero => exact ⟨fr, hfl, off, f0, ho, hf, by intro h; cases h⟩
  | succ fuel ih =>
    unfold writeAll
    split
    · rename_i hemp
      refine ⟨fr, hfl, off, f0, ho, hf, ?_⟩
      intro _
      have : data = [] := by simpa using hemp
      simp [this]
    simp only [bind_eq, pure_eq, call_bind]
    intro r hp
    have fr1 := fr.step (.write fd data) r (by intro _ h; cases h; exact hN) (by simp [fileSafe, ho, objFid, hne])
    have hfl1 : fid < (stepWorld w (.write fd data) r).nextFid := by
      simpa using Nat.lt_of_lt_of_le hfl (core_nextFid w (.write fd data) r)
    rcases possible_write hp with ⟨n, rfl, hn0, hnle⟩ | ⟨e, rfl⟩
    · have hc := core_write_file_ok ho hf data n hn0 hnle
      have hfdlt : fd < w.handles.length := lt_of_obj_ne_closed w fd (by simp [ho])
      dsimp only
      have hnz : (n == 0) = false := by simp; omega
      simp only [hnz, Bool.false_eq_true, if_false]
      have := ih (data.drop n) (off := off + n) (f0 := { f0 with data := f0.data ++ data.take n }) fr1
        (by rw [stepWorld_obj, hc]; simp [obj_setObj, hfdlt])
        (by rw [stepWorld_file, hc]; simp [file_setFile]) hfl1
      refine wpo_mono this ?_
      rintro e w' ⟨fr', hfl', off', f, ho', hf', hd⟩
      refine ⟨fr', hfl', off', f, ho', hf', ?_⟩
      intro he
      rw [hd he]
      simp [List.append_assoc, List.take_append_drop]
    · have hc := core_err w (.write fd data) e (by intro _ h; cases h) (by intro _ h; cases h) (by intro _ h; cases h)
      exact ⟨fr1, hfl1, off, f0, by rw [stepWorld_obj, hc]; exact ho, by rw [stepWorld_file, hc]; exact hf, by intro h; cases h⟩

/-- What `message_get_fd` returns, in the three cases, when it returns a descriptor; in every case
the last call is a successful `lseek` of that descriptor. -/
theorem spec_messageGetFd {fid0 : Nat} {c0 : Bytes} (env : PEnv) (ms : MsgSt) (part : Option Msg) (dobody : Bool) {w : World}
    (fa : FileAt w fid0 c0) :
    wpo (messageGetFd env ms part dobody)
      (fun r w' => Frm fid0 c0 w w' ∧ ∀ fd, r = some fd →
        w.handles.length ≤ fd ∧
        (∃ rr, w'.trace.getLast? = some (.lseek fd, rr) ∧ rr.isErr = false) ∧
        (dobody = true → ∃ body fid off f, getBody (part.getD ms.msg) = some body ∧ w'.obj fd = .file fid off true ∧
            w.nextFid ≤ fid ∧ w'.file fid = some f ∧ f.data = cstr body) ∧
        (dobody = false → part = none → ∃ mfd, ms.fd = some mfd ∧ w'.obj fd = w.obj mfd)) w := by
  unfold messageGetFd
  simp only [bind_eq, pure_eq, call_bind]
  refine wpo_bind_mono
    (R := fun r w' => Frm fid0 c0 w w' ∧ ∀ fd, r = some fd →
        w.handles.length ≤ fd ∧ fd < w'.handles.length ∧
        (dobody = true → ∃ body fid off f, getBody (part.getD ms.msg) = some body ∧ w'.obj fd = .file fid off true ∧
            w.nextFid ≤ fid ∧ fid < w'.nextFid ∧ w'.file fid = some f ∧ f.data = cstr body) ∧
        (dobody = false → part = none → ∃ mfd, ms.fd = some mfd ∧ w'.obj fd = w.obj mfd)) ?_ ?_
  · split
    · -- stdin body
      rename_i hb
      split
      · exact ⟨Frm.refl fa, by intro _ h; cases h⟩
      · rename_i body hbody
        refine wpo_bind_mono (spec_writefd env.tmpdir (Frm.refl fa)) ?_
        rintro f w1 ⟨fr1, hf⟩
        cases f with
        | none => exact ⟨fr1, by intro _ h; cases h⟩
        | some fd =>
          obtain ⟨fid, ho, hfile, hlt, hge, hltn, hN⟩ := hf fd rfl
          dsimp only
          refine wpo_bind_mono (spec_writeAll fd fid (Nat.ne_of_gt hlt) hN _ _ fr1 ho hfile hltn) ?_
          rintro e w2 ⟨fr2, hlt2, off', f2, ho2, hf2, hd2⟩
          cases e with
          | true =>
            simp only [if_true]
            intro r _
            have fr3 := fr2.step (.close fd) r (by intro _ h; cases h; exact hN) trivial
            exact ⟨fr3, by intro _ h; cases h⟩
          | false =>
            simp only [Bool.false_eq_true, if_false]
            refine ⟨fr2, ?_⟩
            intro fd' h
            cases h
            refine ⟨hN, lt_of_obj_ne_closed w2 fd (by simp [ho2]), ?_, by intro h; simp [hb] at h⟩
            intro _
            exact ⟨body, fid, off', f2, hbody, ho2, hge, hlt2, hf2, by simpa using hd2 rfl⟩
    · rename_i hb
      split
      · -- a part, re-serialised
        rename_i hpart
        refine wpo_bind_mono (spec_writefd env.tmpdir (Frm.refl fa)) ?_
        rintro f w1 ⟨fr1, hf⟩
        cases f with
        | none => exact ⟨fr1, by intro _ h; cases h⟩
        | some fd =>
          obtain ⟨fid, ho, hfile, hlt, hge, hltn, hN⟩ := hf fd rfl
          dsimp only
          refine wpo_bind_mono (spec_messageWriteP _ fd fr1 ho (Nat.ne_of_gt hlt) hfile) ?_
          rintro e w2 ⟨fd2, -⟩
          have hfdlt : fd < w1.handles.length := lt_of_obj_ne_closed w1 fd (by simp [ho])
          split
          · intro r _
            have fr3 := fd2.fr.step (.close fd) r (by intro _ h; cases h; exact hN) trivial
            exact ⟨fr3, by intro _ h; cases h⟩
          · refine ⟨fd2.fr, ?_⟩
            intro fd' h
            cases h
            refine ⟨hN, ?_, by intro h; simp [hb] at h, ?_⟩
            · exact Nat.lt_of_lt_of_le hfdlt fd2.lena
            · intro _ hp
              rw [hp] at hpart
              simp at hpart
      · -- the message's own descriptor
        rename_i hpart
        split
        · exact ⟨Frm.refl fa, by intro _ h; cases h⟩
        · rename_i mfd hmfd
          intro r hp
          have fr1 := (Frm.refl fa).step (.dupfd mfd) r (by intro _ h; cases h) trivial
          refine ⟨fr1, ?_⟩
          intro fd h
          rcases possible_handle hp rfl rfl with rfl | ⟨e, rfl⟩
          · simp only [resHandle, Option.some.injEq] at h
            subst h
            have hok : (applyOk w (.dupfd mfd) (.ok w.handles.length)).isSome = true := hp.1
            refine ⟨Nat.le_refl _, ?_, by intro h; simp [hb] at h, ?_⟩
            · simp only [applyOk] at hok
              rw [stepWorld_handles]
              unfold core
              simp only [applyOk]
              split at hok <;> simp_all
            · intro _ _
              refine ⟨mfd, hmfd, ?_⟩
              simp only [applyOk] at hok
              rw [stepWorld_obj]
              unfold core
              simp only [applyOk]
              split at hok <;> simp_all [obj_newHandle]
          · simp [resHandle] at h
  · rintro fdo w1 ⟨fr1, hfd⟩
    cases fdo with
    | none => exact ⟨fr1, by intro _ h; cases h⟩
    | some fd =>
      obtain ⟨hN, hlt, hbody, hmsg⟩ := hfd fd rfl
      dsimp only
      intro r _
      have fr2 := fr1.step (.lseek fd) r (by intro _ h; cases h) trivial
      have hobj : ∀ x, x < w1.handles.length → (stepWorld w1 (.lseek fd) r).obj x = w1.obj x := by
        intro x hx
        rw [stepWorld_obj, core_obj w1 _ _ x hx (by simp [Call.subject])]
      dsimp only
      split
      · rename_i hok
        refine ⟨fr2, ?_⟩
        intro fd' h
        cases h
        refine ⟨hN, ⟨r, by simp, by cases r <;> simp_all [isOk, Res.isErr]⟩, ?_, ?_⟩
        · intro hb
          obtain ⟨body, fid, off, f, h1, h2, h3, h4, h5, h6⟩ := hbody hb
          refine ⟨body, fid, off, f, h1, by rw [hobj fd hlt]; exact h2, h3, ?_, h6⟩
          rw [stepWorld_file, core_file w1 (.lseek fd) r fid h4 trivial]; exact h5
        · intro hb hp
          obtain ⟨mfd, h1, h2⟩ := hmsg hb hp
          exact ⟨mfd, h1, by rw [hobj fd hlt]; exact h2⟩
      · intro r2 _
        have fr3 := fr2.step (.close fd) r2 (by intro _ h; cases h; exact hN) trivial
        exact ⟨fr3, by intro _ h; cases h⟩

/-! ## exec -/

theorem spec_execP {fid0 : Nat} {c0 : Bytes} {w0 : World} (argv : List Bytes) (fdin : Option Handle) {w : World} (fr : Frm fid0 c0 w0 w) :
    wpo (execP argv fdin) (fun _ w' => Frm fid0 c0 w0 w') w := by
  unfold execP
  simp only [bind_eq, pure_eq, call_bind]
  cases fdin with
  | some fd =>
    simp only [ret_bind]
    refine wpo_mono (Frm.calls ?_ fr) (fun _ _ h => h)
    repeat' (first | exact freshSafe_nosubject rfl rfl | fresh_step)
  | none =>
    dsimp only
    intro r hp
    have fr1 := fr.step (.openPath (ofString "/dev/null")) r (by intro _ h; cases h) trivial
    rcases possible_handle hp rfl rfl with rfl | ⟨e, rfl⟩
    · simp only [ret_bind]
      refine wpo_mono (Frm.calls ?_ fr1) (fun _ _ h => h)
      repeat' (first | exact freshSafe_nosubject rfl rfl | exact freshSafe_close fr.len | fresh_step)
    · simp only [ret_bind]
      exact fr1

end Mdsort.Proofs.ExecSeq
