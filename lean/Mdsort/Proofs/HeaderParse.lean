import Mdsort.Proofs.HeaderSort

/-! `message_parse_headers` on a well-formed message = the line-by-line reading (C08). -/

set_option linter.unusedSimpArgs false

namespace Mdsort.Proofs
open Mdsort Mdsort.Model

/-- The text of a list of lines. -/
def flat (ls : List Bytes) : Bytes := ls.flatMap (fun l => l ++ [10])

@[simp] theorem flat_nil : flat [] = [] := rfl
@[simp] theorem flat_cons (l : Bytes) (ls : List Bytes) : flat (l :: ls) = l ++ 10 :: flat ls := by
  simp [flat]
theorem flat_append (a b : List Bytes) : flat (a ++ b) = flat a ++ flat b := by
  simp [flat]

/-- Headers numbered from `n + 1`. -/
def mkHdrs : Nat → List (Bytes × Bytes) → List Hdr
  | _, [] => []
  | n, (k, v) :: fs => { id := n + 1, key := k, val := v } :: mkHdrs (n + 1) fs

theorem mem_takeWhile_imp' {α} {p : α → Bool} {l : List α} {a : α} (h : a ∈ l.takeWhile p) :
    p a = true :=
  List.all_eq_true.mp List.all_takeWhile a h

theorem scanValue_cons (c : UInt8) (r : Bytes) : scanValue (c :: r) =
    if c == 10 then
      match r with
      | b :: _ => if isblank b then (scanValue r).map fun (v, rest) => (c :: v, rest) else some ([], r)
      | [] => some ([], r)
    else (scanValue r).map fun (v, rest) => (c :: v, rest) := by
  conv => lhs; unfold scanValue
  rfl

/-! ## the mbox separator -/

theorem strchr_nl (s : Bytes) :
    strchr s 10 = (match s.dropWhile (fun c => c != 10) with | [] => none | x :: r => some (x :: r)) := by
  induction s with
  | nil => rfl
  | cons c r ih =>
    rw [strchr]
    by_cases h : c = 10
    · subst h; simp
    · have h1 : (c == 10) = false := by simpa using h
      have h2 : (c != 10) = true := by simpa using h
      simp only [h1, Bool.false_eq_true, if_false, List.dropWhile_cons, h2, if_true]
      exact ih

theorem skipSeparator_eq (s : Bytes) : skipSeparator s = Spec.dropFromLine s := by
  unfold skipSeparator Spec.dropFromLine startsWith
  split
  · rw [strchr_nl]
    cases h : s.dropWhile (fun c => c != 10) with
    | nil => rfl
    | cons x r => simp
  · rfl

/-! ## lines -/

theorem splitHB_spec (t cur : Bytes) (ls : List Bytes) (body : Bytes)
    (hcur : (10 : UInt8) ∉ cur) (h : Spec.splitHB t cur = (ls, some body)) :
    (∀ l ∈ ls, l ≠ [] ∧ (10 : UInt8) ∉ l) ∧ cur ++ t = flat ls ++ 10 :: body := by
  induction t generalizing cur ls with
  | nil =>
    simp [Spec.splitHB] at h
  | cons c r ih =>
    rw [Spec.splitHB] at h
    by_cases hc : c = 10
    · subst hc
      simp only [beq_self_eq_true, if_true] at h
      by_cases he : cur.isEmpty = true
      · simp only [he, if_true, Prod.mk.injEq, Option.some.injEq] at h
        obtain ⟨rfl, rfl⟩ := h
        have : cur = [] := List.isEmpty_iff.mp he
        subst this
        simp
      · simp only [he, Bool.false_eq_true, if_false] at h
        cases hr : Spec.splitHB r [] with
        | mk ls' b' =>
          rw [hr] at h
          simp only [Prod.mk.injEq] at h
          obtain ⟨rfl, rfl⟩ := h
          obtain ⟨h1, h2⟩ := ih [] ls' (by simp) hr
          constructor
          · intro l hl
            rcases List.mem_cons.mp hl with rfl | hl
            · exact ⟨fun e => he (by simp [e]), hcur⟩
            · exact h1 l hl
          · simp only [List.nil_append] at h2
            simp [h2]
    · have h1 : (c == 10) = false := by simpa using hc
      simp only [h1, Bool.false_eq_true, if_false] at h
      have := ih (cur ++ [c]) ls (by
        simp only [List.mem_append, List.mem_singleton, not_or]
        exact ⟨hcur, fun e => hc e.symm⟩) h
      simpa using this

/-! ## one field -/

theorem scanKey_append (n r : Bytes) (hn : ∀ c ∈ n, c ≠ 58 ∧ isspace c = false) :
    scanKey (n ++ 58 :: r) = some (n, r) := by
  induction n with
  | nil => simp [scanKey]
  | cons c n ih =>
    have hc := hn c (by simp)
    have h1 : (c == 58) = false := by simpa using hc.1
    rw [List.cons_append, scanKey]
    simp only [h1, Bool.false_eq_true, if_false, hc.2]
    rw [ih (fun c hc => hn c (by simp [hc]))]
    rfl

theorem startLine_spec (l n v0 : Bytes) (h : Spec.startLine l = some (n, v0)) :
    ∃ l', l = n ++ 58 :: l' ∧ (∀ c ∈ n, c ≠ 58 ∧ isspace c = false) ∧ v0 = l'.dropWhile isblank := by
  unfold Spec.startLine at h
  simp only at h
  split at h
  · contradiction
  · rename_i hlen
    split at h
    · contradiction
    · rename_i hsp
      simp only [Option.some.injEq, Prod.mk.injEq] at h
      obtain ⟨hn, hv⟩ := h
      have hsplit := List.takeWhile_append_dropWhile (p := fun c => c != 58) (l := l)
      rw [hn] at hsplit hlen hv hsp
      cases hd : l.dropWhile (fun c => c != 58) with
      | nil =>
        rw [hd] at hsplit
        simp only [List.append_nil] at hsplit
        rw [hsplit] at hlen
        simp at hlen
      | cons x l' =>
        have hx : x = 58 := by
          have := List.head_dropWhile_not (fun c => c != 58) (l := l) (by rw [hd]; simp)
          simp only [hd, List.head_cons] at this
          simpa using this
        subst hx
        rw [hd] at hsplit
        refine ⟨l', hsplit.symm, ?_, ?_⟩
        · intro c hc
          constructor
          · have : c ∈ l.takeWhile (fun c => c != 58) := by rw [hn]; exact hc
            have := mem_takeWhile_imp' this
            simpa using this
          · have := hsp
            simp only [List.any_eq_true, not_exists, not_and, Bool.not_eq_true] at this
            exact this c hc
        · rw [← hv, ← hsplit]
          simp

theorem dropWhile_blank_append (l X : Bytes) :
    (l ++ 10 :: X).dropWhile isblank = l.dropWhile isblank ++ 10 :: X := by
  induction l with
  | nil =>
    have : isblank 10 = false := by decide
    simp [List.dropWhile_cons, this]
  | cons c r ih =>
    simp only [List.cons_append, List.dropWhile_cons]
    split
    · exact ih
    · rfl

theorem afterColonDrop_eq (s : Bytes) : afterColonDrop s = s.dropWhile isblank := by
  unfold afterColonDrop nspaces
  induction s with
  | nil => rfl
  | cons c r ih =>
    simp only [List.takeWhile_cons, List.dropWhile_cons]
    split
    · simpa using ih
    · rfl

theorem scanValue_line (w X : Bytes) (hw : (10 : UInt8) ∉ w) :
    scanValue (w ++ 10 :: X) =
      match X with
      | [] => some (w, [])
      | b :: r => if isblank b then (scanValue (b :: r)).map (fun (v, rest) => (w ++ 10 :: v, rest))
                  else some (w, b :: r) := by
  induction w with
  | nil =>
    rw [List.nil_append, scanValue_cons]
    cases X with
    | nil => simp
    | cons b r =>
      simp only [beq_self_eq_true, if_true]
      split <;> simp
  | cons c w ih =>
    have hc : (c == 10) = false := by
      have : c ≠ 10 := fun e => hw (by simp [e])
      simpa using this
    rw [List.cons_append, scanValue_cons]
    simp only [hc, Bool.false_eq_true, if_false]
    rw [ih (fun h => hw (by simp [h]))]
    cases X with
    | nil => simp
    | cons b r =>
      simp only
      split
      · simp only [Option.map_map]
        congr 1
      · simp

theorem scanValue_conts (conts : List Bytes) (w Y : Bytes) (hw : (10 : UInt8) ∉ w)
    (hc : ∀ c ∈ conts, Spec.isCont c = true ∧ (10 : UInt8) ∉ c)
    (hY : ∀ c, Y.head? = some c → isblank c = false) :
    scanValue (w ++ 10 :: (flat conts ++ Y)) = some (w ++ conts.flatMap (fun c => 10 :: c), Y) := by
  induction conts generalizing w with
  | nil =>
    rw [scanValue_line w _ hw]
    simp only [flat_nil, List.nil_append, List.flatMap_nil, List.append_nil]
    cases Y with
    | nil => rfl
    | cons b r =>
      simp only
      rw [hY b (by simp)]
      simp
  | cons c cs ih =>
    have hcc := hc c (by simp)
    rw [scanValue_line w _ hw]
    cases c with
    | nil => simp [Spec.isCont] at hcc
    | cons b c' =>
      have hb : isblank b = true := by simpa [Spec.isCont] using hcc.1
      simp only [flat_cons, List.cons_append, hb, if_true]
      have := ih (b :: c') hcc.2 (fun c hc' => hc c (by simp [hc']))
      simp only [List.cons_append] at this
      rw [List.append_assoc, List.cons_append, this]
      simp

theorem findHeader_field (l n v0 : Bytes) (conts : List Bytes) (Y : Bytes)
    (hl : (10 : UInt8) ∉ l) (h : Spec.startLine l = some (n, v0))
    (hc : ∀ c ∈ conts, Spec.isCont c = true ∧ (10 : UInt8) ∉ c)
    (hY : ∀ c, Y.head? = some c → isblank c = false) :
    findHeader (l ++ 10 :: (flat conts ++ Y)) = .ok n (v0 ++ conts.flatMap (fun c => 10 :: c)) Y := by
  obtain ⟨l', rfl, hn, rfl⟩ := startLine_spec l n v0 h
  unfold findHeader
  rw [List.append_assoc, List.cons_append, scanKey_append n _ hn]
  simp only
  rw [afterColonDrop_eq, dropWhile_blank_append]
  have hl' : (10 : UInt8) ∉ l'.dropWhile isblank := by
    intro hm
    apply hl
    have := (List.dropWhile_sublist isblank).subset hm
    simp [this]
  rw [scanValue_conts conts _ Y hl' hc hY]

theorem findHeader_empty_line (body : Bytes) : findHeader (10 :: body) = .notHeader := by
  unfold findHeader
  rw [scanKey]
  have : isspace 10 = true := by decide
  simp [this]

/-! ## the header block -/

theorem parseLoop_ok (s : Bytes) (n : Nat) (acc : List Hdr) (key val rest : Bytes)
    (h : findHeader s = .ok key val rest) :
    parseLoop s n acc = parseLoop rest (n + 1) (acc ++ [{ id := n + 1, key := key, val := val }]) := by
  rw [parseLoop]
  split
  · rename_i h'; rw [h] at h'; cases h'
  · rename_i h'; rw [h] at h'; cases h'
  · rename_i k v r h'
    rw [h] at h'
    cases h'
    rfl

theorem parseLoop_notHeader (s : Bytes) (n : Nat) (acc : List Hdr)
    (h : findHeader s = .notHeader) : parseLoop s n acc = (acc, s) := by
  rw [parseLoop]
  split
  · rfl
  · rename_i h'; rw [h] at h'; cases h'
  · rename_i h'; rw [h] at h'; cases h'

theorem parseLoop_fields (fuel : Nat) (ls : List Bytes) (fs : List (Bytes × Bytes)) (body : Bytes)
    (n : Nat) (acc : List Hdr)
    (hls : ∀ l ∈ ls, l ≠ [] ∧ (10 : UInt8) ∉ l)
    (hg : Spec.groupFields fuel ls = some fs) :
    parseLoop (flat ls ++ 10 :: body) n acc = (acc ++ mkHdrs n fs, 10 :: body) := by
  induction fuel generalizing ls fs n acc with
  | zero => simp [Spec.groupFields] at hg
  | succ fuel ih =>
    cases ls with
    | nil =>
      simp only [Spec.groupFields, Option.some.injEq] at hg
      subst hg
      simp only [flat_nil, List.nil_append, mkHdrs, List.append_nil]
      exact parseLoop_notHeader _ _ _ (findHeader_empty_line body)
    | cons l ls' =>
      rw [Spec.groupFields] at hg
      cases hsl : Spec.startLine l with
      | none => rw [hsl] at hg; simp at hg
      | some nv =>
        obtain ⟨nm, v0⟩ := nv
        rw [hsl] at hg
        simp only [Option.map_eq_some_iff] at hg
        obtain ⟨fs', hg', rfl⟩ := hg
        have hsplit := List.takeWhile_append_dropWhile (p := Spec.isCont) (l := ls')
        have hconts : ∀ c ∈ ls'.takeWhile Spec.isCont, Spec.isCont c = true ∧ (10 : UInt8) ∉ c := by
          intro c hc
          refine ⟨mem_takeWhile_imp' hc, ?_⟩
          exact (hls c (by simp [(List.takeWhile_sublist _).subset hc])).2
        have hrest : ∀ l ∈ ls'.dropWhile Spec.isCont, l ≠ [] ∧ (10 : UInt8) ∉ l := by
          intro c hc
          exact hls c (by simp [(List.dropWhile_sublist _).subset hc])
        have hY : ∀ c, (flat (ls'.dropWhile Spec.isCont) ++ 10 :: body).head? = some c →
            isblank c = false := by
          intro c hc
          cases hd : ls'.dropWhile Spec.isCont with
          | nil =>
            rw [hd] at hc
            simp only [flat_nil, List.nil_append, List.head?_cons, Option.some.injEq] at hc
            subst hc; decide
          | cons r rs =>
            have hr := List.head_dropWhile_not Spec.isCont (l := ls') (by rw [hd]; simp)
            simp only [hd, List.head_cons] at hr
            rw [hd] at hc
            cases r with
            | nil => exact absurd rfl (hrest [] (by rw [hd]; simp)).1
            | cons b r' =>
              simp only [flat_cons, List.cons_append, List.head?_cons, Option.some.injEq] at hc
              subst hc
              simpa [Spec.isCont] using hr
        have htext : flat (l :: ls') ++ 10 :: body =
            l ++ 10 :: (flat (ls'.takeWhile Spec.isCont) ++
              (flat (ls'.dropWhile Spec.isCont) ++ 10 :: body)) := by
          conv => lhs; rw [← hsplit]
          simp only [flat_cons, flat_append, List.append_assoc, List.cons_append]
        rw [htext]
        rw [parseLoop_ok _ _ _ _ _ _
          (findHeader_field l nm v0 _ _ (hls l (by simp)).2 hsl hconts hY)]
        rw [ih _ fs' (n + 1) _ hrest hg']
        simp [mkHdrs]

theorem mkHdrs_map_kv (n : Nat) (fs : List (Bytes × Bytes)) :
    (mkHdrs n fs).map (fun h => (h.key, h.val)) = fs := by
  induction fs generalizing n with
  | nil => rfl
  | cons f fs ih => obtain ⟨k, v⟩ := f; simp [mkHdrs, ih]

theorem mkHdrs_map_id (n : Nat) (fs : List (Bytes × Bytes)) :
    (mkHdrs n fs).map (·.id) = (List.range fs.length).map (· + (n + 1)) := by
  induction fs generalizing n with
  | nil => rfl
  | cons f fs ih =>
    obtain ⟨k, v⟩ := f
    simp only [mkHdrs, List.map_cons, List.length_cons, List.range_succ_eq_map, List.map_map, ih]
    simp only [Nat.zero_add, List.cons.injEq, true_and]
    apply List.map_congr_left
    intro a _
    simp only [Function.comp]
    omega

theorem mkHdrs_gt (n : Nat) (fs : List (Bytes × Bytes)) : ∀ h ∈ mkHdrs n fs, n < h.id := by
  induction fs generalizing n with
  | nil => simp [mkHdrs]
  | cons f fs ih =>
    obtain ⟨k, v⟩ := f
    intro h hh
    simp only [mkHdrs, List.mem_cons] at hh
    rcases hh with rfl | hh
    · simp
    · have := ih (n + 1) h hh; omega

theorem mkHdrs_strict (n : Nat) (fs : List (Bytes × Bytes)) :
    (mkHdrs n fs).Pairwise (fun a b => a.id < b.id) := by
  induction fs generalizing n with
  | nil => simp [mkHdrs]
  | cons f fs ih =>
    obtain ⟨k, v⟩ := f
    simp only [mkHdrs, List.pairwise_cons]
    exact ⟨fun h hh => mkHdrs_gt (n + 1) fs h hh, ih (n + 1)⟩

/-- Sorting by name and back by id restores a table whose ids increase. -/
theorem sortById_sortByKey (hs : List Hdr) (h : hs.Pairwise (fun a b => a.id < b.id)) :
    sortById (sortByKey hs) = hs := by
  symm
  apply eq_of_perm_of_strict (·.id) _ _ h
  · have := List.pairwise_mergeSort idLe_trans idLe_total (sortByKey hs)
    exact this.imp (fun h => by simpa [idLe] using h)
  · exact ((List.mergeSort_perm _ _).trans (List.mergeSort_perm _ _)).symm

theorem read_spec (m : Bytes) (fs : List (Bytes × Bytes)) (b : Bytes) (h : Spec.read m = some (fs, b)) :
    (∀ c ∈ m, c ≠ 0) ∧ (∀ c, b.head? = some c → c ≠ 10) ∧
    ∃ ls, (∀ l ∈ ls, l ≠ [] ∧ (10 : UInt8) ∉ l) ∧ Spec.dropFromLine m = flat ls ++ 10 :: b ∧
      Spec.groupFields (ls.length + 1) ls = some fs := by
  unfold Spec.read at h
  split at h
  · contradiction
  · rename_i hnul
    split at h
    · contradiction
    · rename_i ls body hsp
      split at h
      · contradiction
      · rename_i hb
        split at h
        · contradiction
        · rename_i fs' hg
          simp only [Option.some.injEq, Prod.mk.injEq] at h
          obtain ⟨rfl, rfl⟩ := h
          refine ⟨?_, ?_, ls, ?_⟩
          · intro c hc e
            apply hnul
            subst e
            simpa using hc
          · intro c hc e
            subst e
            cases body with
            | nil => simp at hc
            | cons x r =>
              simp only [List.head?_cons, Option.some.injEq] at hc
              subst hc
              exact hb r rfl
          · obtain ⟨h1, h2⟩ := splitHB_spec _ [] ls body (by simp) hsp
            exact ⟨h1, by simpa using h2, hg⟩

theorem parseMessage_read (m : Bytes) (fs : List (Bytes × Bytes)) (b : Bytes)
    (h : Spec.read m = some (fs, b)) :
    parseMessage m = { headers := sortByKey (mkHdrs 0 fs), body := b } := by
  obtain ⟨hnul, hb, ls, hls, htext, hg⟩ := read_spec m fs b h
  unfold parseMessage parseHeaders
  rw [cstr_of_no_nul hnul, skipSeparator_eq, htext, parseLoop_fields _ ls fs b 0 [] hls hg]
  simp only [List.nil_append, Msg.mk.injEq, true_and]
  cases b with
  | nil => simp [List.dropWhile_cons]
  | cons x r =>
    have : x ≠ 10 := hb x rfl
    simp [List.dropWhile_cons, this]

end Mdsort.Proofs
