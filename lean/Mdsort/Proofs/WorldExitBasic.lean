import Mdsort.Proofs.WorldWholeExit
import Mdsort.Proofs.WorldStdinTop

/-!
# Basics for "exit status 0 of a whole maildir run" (C01) and "dry run predicts the real run" (C06)

* `exit0_Unique`: the names of every directory are pairwise distinct - an invariant of EVERY call.
* counting: a duplicate-free list inside another list is not longer.
* the directory stream: `exit0_rem` (names a stream will still yield) and what `readdir` does to it.
* the order of a directory stream depends on the set of names only (`exit0_sortedNames_congr`).
* the registry under `put` / `del`, restricted to a directory.
* at most one fault: trivial postcondition, stickiness of the error flag.
-/

namespace Mdsort.Proofs
open Mdsort Mdsort.Model
open Mdsort.Proofs.World (core wpS wpS_mono wpS_bind wpS_bind_mono lk Ent bind_eq pure_eq call_bind ret_bind call_bind'
  getD_bind_P getD_map_P)

/-! ## distinct names: an invariant of every call -/

/-- In every directory the names are pairwise distinct. -/
def exit0_Unique (w : World) : Prop := ∀ d es, w.dir d = some es → (es.map (·.1)).Nodup

theorem exit0_unique_dirs {w w' : World} (hd : w'.dirs = w.dirs) (h : exit0_Unique w) : exit0_Unique w' := by
  intro d es hq
  rw [World.dir_of_dirs hd] at hq
  exact h d es hq

theorem exit0_unique_bind {w : World} (h : exit0_Unique w) (p n : Bytes) (fid : Nat) : exit0_Unique (w.bind p n fid) := by
  intro d es hq
  rw [World.dir_bind] at hq
  split at hq
  · cases hw : w.dir p with
    | none => rw [hw] at hq; cases hq
    | some es0 =>
      rw [hw] at hq
      simp only [Option.map_some, Option.some.injEq] at hq
      subst hq
      exact World.nodup_filter_append (h p es0 hw) n fid
  · exact h d es hq

theorem exit0_unique_unbind {w : World} (h : exit0_Unique w) (p n : Bytes) : exit0_Unique (w.unbind p n) := by
  intro d es hq
  rw [World.dir_unbind] at hq
  split at hq
  · cases hw : w.dir p with
    | none => rw [hw] at hq; cases hq
    | some es0 =>
      rw [hw] at hq
      simp only [Option.map_some, Option.some.injEq] at hq
      subst hq
      exact (List.filter_sublist.map _).nodup (h p es0 hw)
  · exact h d es hq

theorem exit0_unique_append {w : World} (h : exit0_Unique w) (p : Bytes) :
    exit0_Unique ({ w with dirs := w.dirs ++ [(p, [])] } : World) := by
  intro d es hq
  have := World.dir_of_append (w := w) (w' := { w with dirs := w.dirs ++ [(p, [])] }) (ex := [(p, [])]) rfl d
  rw [this] at hq
  cases hw : w.dir d with
  | some es0 =>
    rw [hw] at hq
    simp only [Option.some_or, Option.some.injEq] at hq
    subst hq
    exact h d es0 hw
  | none =>
    rw [hw] at hq
    simp only [Option.none_or, List.find?_cons, List.find?_nil] at hq
    split at hq
    · simp only [Option.map_some, Option.some.injEq] at hq
      subst hq
      exact List.nodup_nil
    · cases hq

theorem exit0_find_filter_ne (l : List (Bytes × List (Bytes × Nat))) (p q : Bytes) (x : Bytes × List (Bytes × Nat))
    (h : (l.filter (·.1 != p)).find? (·.1 == q) = some x) : l.find? (·.1 == q) = some x := by
  induction l with
  | nil => simp at h
  | cons e l ih =>
    have hx1 := List.find?_some h
    have hx2 := (List.mem_filter.1 (List.mem_of_find?_eq_some h)).2
    simp only [beq_iff_eq, bne_iff_ne, ne_eq] at hx1 hx2
    simp only [List.filter_cons] at h
    split at h
    · simp only [List.find?_cons] at h ⊢
      split at h
      · exact h
      · exact ih h
    · rename_i hne
      have hep : e.1 = p := by simpa using hne
      have hne' : (e.1 == q) = false := by
        simp only [beq_eq_false_iff_ne, ne_eq]
        intro e'
        exact hx2 (by rw [hx1, ← e', hep])
      simp only [List.find?_cons, hne']
      exact ih h

theorem exit0_unique_filter {w : World} (h : exit0_Unique w) (p : Bytes) :
    exit0_Unique ({ w with dirs := w.dirs.filter (·.1 != p) } : World) := by
  intro d es hq
  unfold World.dir at hq
  simp only [Option.map_eq_some_iff] at hq
  obtain ⟨x, hx, rfl⟩ := hq
  exact h d x.2 (by unfold World.dir; rw [exit0_find_filter_ne _ _ _ _ hx]; rfl)

/-- Every call keeps the names of every directory distinct. -/
theorem exit0_unique_core {w : World} (h : exit0_Unique w) (c : Call) (r : Res) : exit0_Unique (core w c r) := by
  by_cases hd : World.Call.dirOp c = false
  · exact exit0_unique_dirs (World.core_dirs w c r hd) h
  · unfold core applyOk
    split <;> first
      | exact h
      | (exfalso; exact hd rfl)
      | skip
    · -- openExcl
      refine getD_bind_P (P := exit0_Unique) h fun p _ => ?_
      split
      · exact h
      · exact exit0_unique_dirs rfl (exit0_unique_bind (w := (({ w with nextFid := w.nextFid + 1 } : World).setFile w.nextFid ⟨[], []⟩))
          (exit0_unique_dirs rfl h) p _ w.nextFid)
    · -- renameat
      refine getD_bind_P (P := exit0_Unique) h fun p1 _ => ?_
      refine getD_bind_P (P := exit0_Unique) h fun p2 _ => ?_
      refine getD_map_P (P := exit0_Unique) h fun fid _ => ?_
      exact exit0_unique_bind (exit0_unique_unbind h _ _) _ _ _
    · -- unlinkat
      refine getD_bind_P (P := exit0_Unique) h fun p _ => ?_
      refine getD_map_P (P := exit0_Unique) h fun fid _ => ?_
      exact exit0_unique_unbind h _ _
    · exact exit0_unique_append h _
    · exact exit0_unique_append h _
    · split
      · exact exit0_unique_filter h _
      · exact h

theorem exit0_unique_step {w : World} (h : exit0_Unique w) (c : Call) (r : Res) : exit0_Unique (stepWorld w c r) :=
  exit0_unique_dirs rfl (exit0_unique_core h c r)

/-- `exit0_Unique` may be added to any single-fault specification. -/
theorem exit0_wpS_unique {α} {p : Prog α} {Q : Bool → α → World → Prop} {b : Bool} {w : World}
    (h : wpS p Q b w) (hu : exit0_Unique w) : wpS p (fun b' a w' => Q b' a w' ∧ exit0_Unique w') b w := by
  induction p generalizing b w with
  | ret a => exact ⟨h, hu⟩
  | call c k ih => exact ⟨ih _ h.1 (exit0_unique_step hu _ _), fun hb ft => ih _ (h.2 hb ft) (exit0_unique_step hu _ _)⟩

/-! ## counting -/

theorem exit0_nodup_length_le {α} [DecidableEq α] : ∀ (l m : List α), l.Nodup → (∀ a ∈ l, a ∈ m) → l.length ≤ m.length
  | [], _, _, _ => Nat.zero_le _
  | x :: l, m, hn, hs => by
    have hx : x ∈ m := hs x (List.mem_cons_self ..)
    have hrec := exit0_nodup_length_le l (m.erase x) (List.nodup_cons.1 hn).2 (by
      intro a ha
      have hne : a ≠ x := fun e => (List.nodup_cons.1 hn).1 (e ▸ ha)
      exact (List.mem_erase_of_ne hne).2 (hs a (List.mem_cons_of_mem _ ha)))
    rw [List.length_erase_of_mem hx] at hrec
    have hpos : 0 < m.length := List.length_pos_of_mem hx
    simp only [List.length_cons]
    omega

/-! ## the order of a directory stream -/

theorem exit0_bytes_le_trans (a b c : Bytes) (h1 : a ≤ b) (h2 : b ≤ c) : a ≤ c := List.le_trans h1 h2
theorem exit0_bytes_le_total (a b : Bytes) : a ≤ b ∨ b ≤ a := List.le_total a b
theorem exit0_bytes_le_antisymm (a b : Bytes) (h1 : a ≤ b) (h2 : b ≤ a) : a = b := List.le_antisymm h1 h2

theorem exit0_mergeSort_perm_eq {l l' : List Bytes} (h : l.Perm l') :
    l.mergeSort (fun a b => decide (a ≤ b)) = l'.mergeSort (fun a b => decide (a ≤ b)) := by
  have tr : ∀ a b c : Bytes, (decide (a ≤ b)) = true → (decide (b ≤ c)) = true → (decide (a ≤ c)) = true := by
    intro a b c h1 h2
    exact decide_eq_true (exit0_bytes_le_trans a b c (of_decide_eq_true h1) (of_decide_eq_true h2))
  have tot : ∀ a b : Bytes, (decide (a ≤ b) || decide (b ≤ a)) = true := by
    intro a b
    rcases exit0_bytes_le_total a b with h1 | h1 <;> simp [h1]
  refine List.Perm.eq_of_pairwise (le := fun a b => (decide (a ≤ b)) = true) ?_
    (List.pairwise_mergeSort tr tot l) (List.pairwise_mergeSort tr tot l') ?_
  · intro a b _ _ h1 h2
    exact exit0_bytes_le_antisymm a b (of_decide_eq_true h1) (of_decide_eq_true h2)
  · exact ((List.mergeSort_perm l _).trans h).trans (List.mergeSort_perm l' _).symm

/-- The names a directory stream yields depend only on the set of names in the directory. -/
theorem exit0_sortedNames_congr {es es' : List (Bytes × Nat)} (h : (es.map (·.1)).Perm (es'.map (·.1))) :
    sortedNames es = sortedNames es' := by
  unfold sortedNames
  exact exit0_mergeSort_perm_eq ((h.cons _).cons _)

theorem exit0_lookup_isSome_iff {w : World} {D n : Bytes} {es : List (Bytes × Nat)} (hd : w.dir D = some es) :
    (w.lookup D n).isSome ↔ n ∈ es.map (·.1) := by
  unfold World.lookup
  rw [hd]
  simp only [Option.bind_some, Option.isSome_map, List.find?_isSome, beq_iff_eq, List.mem_map]

/-- Two worlds with distinct names in which the same names are bound in `D` yield the same stream. -/
theorem exit0_sortedNames_of_lookup {w w' : World} {D : Bytes} {es es' : List (Bytes × Nat)}
    (hu : exit0_Unique w) (hu' : exit0_Unique w') (hd : w.dir D = some es) (hd' : w'.dir D = some es')
    (h : ∀ n, (w.lookup D n).isSome = (w'.lookup D n).isSome) : sortedNames es = sortedNames es' := by
  apply exit0_sortedNames_congr
  rw [List.perm_ext_iff_of_nodup (hu D es hd) (hu' D es' hd')]
  intro n
  rw [← exit0_lookup_isSome_iff hd, ← exit0_lookup_isSome_iff hd', h n]

/-! ## the directory stream -/

/-- The names the directory stream `d` will still yield. -/
def exit0_rem (w : World) (d : Handle) : List Bytes :=
  match w.obj d with
  | .dir p snap pos => (snap.getD (((w.dir p).map sortedNames).getD [])).drop pos
  | _ => []

theorem exit0_rem_congr {w w' : World} {d : Handle} {p : Bytes} {snap : Option (List Bytes)} {pos : Nat}
    (ho : w.obj d = .dir p snap pos) (ho' : w'.obj d = .dir p snap pos) (hs : snap = none → w'.dir p = w.dir p) :
    exit0_rem w' d = exit0_rem w d := by
  unfold exit0_rem
  rw [ho, ho']
  cases snap with
  | none => simp only [Option.getD_none]; rw [hs rfl]
  | some names => rfl

/-- The three outcomes of `readdir` under at most one fault: failure, end of the stream (nothing
remains), or the head of the remaining names, after which the tail remains whatever happens to the
directory. -/
theorem exit0_readdir_cases (ft : Option Fault) {w : World} {d : Handle} {p : Bytes} {snap : Option (List Bytes)} {pos : Nat}
    (hobj : w.obj d = .dir p snap pos) :
    (∃ e, World.faultResult ft w (.readdir d) = .err e) ∨
    (World.faultResult ft w (.readdir d) = .eof ∧ exit0_rem w d = []) ∨
    (∃ n t names, World.faultResult ft w (.readdir d) = .name n ∧ exit0_rem w d = n :: t ∧
      (stepWorld w (.readdir d) (.name n)).obj d = .dir p (some names) (pos + 1) ∧ names.drop (pos + 1) = t) :=
  World.readdir_cases ⟨d, p, []⟩ ft hobj

/-! ## the registry restricted to a directory -/

theorem exit0_filter_put (fs : Files) (d n c q : Bytes) (h : d ≠ q) :
    (fs.put d n c).filter (fun e => e.1 == q) = fs.filter (fun e => e.1 == q) := by
  unfold Files.put
  rw [List.filter_append, List.filter_filter]
  have h1 : ([(d, n, c)] : Files).filter (fun e => e.1 == q) = [] := by simp [h]
  rw [h1, List.append_nil]
  apply List.filter_congr
  intro e _
  by_cases he : e.1 = q
  · have : ¬ e.1 = d := fun e' => h (e'.symm.trans he)
    simp [he, this]
    exact .inl (fun e' => this (he.trans e'))
  · simp [he]

theorem exit0_filter_del (fs : Files) (d n q : Bytes) (h : d ≠ q) :
    (fs.del d n).filter (fun e => e.1 == q) = fs.filter (fun e => e.1 == q) := by
  unfold Files.del
  rw [List.filter_filter]
  apply List.filter_congr
  intro e _
  by_cases he : e.1 = q
  · have : ¬ e.1 = d := fun e' => h (e'.symm.trans he)
    simp [he, this]
    exact .inl (fun e' => this (he.trans e'))
  · simp [he]

/-- A registered name of `D` is among the names of the registry entries of `D`. -/
theorem exit0_mem_filter_of_get {fs : Files} {D n c : Bytes} (h : fs.get D n = some c) :
    n ∈ (fs.filter (fun e => e.1 == D)).map (·.2.1) := by
  unfold Files.get at h
  simp only [Option.map_eq_some_iff] at h
  obtain ⟨x, hx, _⟩ := h
  have h1 := List.find?_some hx
  have h2 := List.mem_of_find?_eq_some hx
  simp only [Bool.and_eq_true, beq_iff_eq] at h1
  exact List.mem_map.2 ⟨x, List.mem_filter.2 ⟨h2, by simp [h1.1]⟩, h1.2⟩

/-! ## at most one fault: generalities -/

theorem exit0_wpS_triv {α} {p : Prog α} {b : Bool} {w : World} : wpS p (fun _ _ _ => True) b w := by
  induction p generalizing b w with
  | ret a => exact trivial
  | call c k ih => exact ⟨ih _, fun _ _ => ih _⟩

/-- A postcondition that depends on the value only. -/
theorem exit0_wpS_all {α} {P : α → Prop} {p : Prog α} (h : World.All P p) (b : Bool) (w : World) :
    wpS p (fun _ a _ => P a) b w := by
  induction p generalizing b w with
  | ret a => exact h
  | call c k ih => exact ⟨ih _ (h _) _ _, fun _ _ => ih _ (h _) _ _⟩

theorem exit0_all_mapP {α β} {P : β → Prop} (f : α → β) (p : Prog α) (h : ∀ a, P (f a)) : World.All P (Own.mapP f p) :=
  World.All.bind_of_forall p fun a => h a

/-- The error flag is sticky through a walk. -/
theorem exit0_walk_sticky (env : PEnv) (orc : EvalOracles) (expr : Expr) (fuel : Nat) (md : Maildir) (st : MainSt)
    (he : st.error = true) : World.All (fun r => r.1.error = true) (walk env orc expr fuel md st) := by
  have hst : st = setErr true st := by
    cases st
    simp only [setErr] at he ⊢
    simp [he]
  rw [hst, Own.walk_setErr]
  exact exit0_all_mapP _ _ fun a => rfl

theorem exit0_processMessage_sticky (env : PEnv) (orc : EvalOracles) (expr : Expr) (md : Maildir) (name : Bytes) (st : MainSt)
    (he : st.error = true) : World.All (fun r => r.1.error = true) (processMessage env orc expr md name st) := by
  have hst : st = setErr true st := by
    cases st
    simp only [setErr] at he ⊢
    simp [he]
  rw [hst, Own.processMessage_setErr]
  exact exit0_all_mapP _ _ fun a => rfl

end Mdsort.Proofs
