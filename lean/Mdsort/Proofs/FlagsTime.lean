import Mdsort.Model.Flags
import Mdsort.Model.Time
import Mdsort.Spec.Flags
import Mdsort.Spec.Time

/-! Helper definitions and lemmas for C09 (flags, pure part) and C15 (dates). -/

namespace Mdsort.Proofs
open Mdsort Mdsort.Model

/-- The letters of a flag set, upper case ascending then lower case ascending. -/
def lettersOf (mf : MFlags) : List UInt8 :=
  (Spec.letterRange 65).filter (fun c => mf.upper.testBit (c.toNat - 65)) ++
  (Spec.letterRange 97).filter (fun c => mf.lower.testBit (c.toNat - 97))

/-- The flag set containing exactly the given letters (non-letters ignored). -/
def ofLetters (ls : List UInt8) : MFlags :=
  ls.foldl (fun mf c => (flagsSet mf c).getD mf) MFlags.empty

/-- Both masks fit the 26 letters. -/
def MFlags.Valid (mf : MFlags) : Prop := mf.upper < 2 ^ 26 ∧ mf.lower < 2 ^ 26

theorem flagsParse_eq_spec (name : Bytes) : flagsParse name = (Spec.nameFlags name).map ofLetters := by
  sorry

theorem flagsStr_eq_spec (mf : MFlags) (h : MFlags.Valid mf) :
    flagsStr mf Gen.flagsMax = some (Spec.flagSuffix (lettersOf mf)) := by
  sorry

theorem flags_roundtrip (base : Bytes) (mf : MFlags) (h : MFlags.Valid mf) (hb : (58 : UInt8) ∉ base) :
    flagsParse (base ++ Spec.flagSuffix (lettersOf mf)) = some mf := by
  sorry

theorem msgflags_eq_spec (src dst : Subdir) (mf : MFlags) (h : MFlags.Valid mf) :
    msgflags src dst mf = some (Spec.flagSuffix (Spec.adjustSeen (src == .new) (dst == .new) (lettersOf mf))) := by
  sorry

/-! ### dates -/

def twoDigits (n : Nat) : Bytes := [UInt8.ofNat (48 + n / 10), UInt8.ofNat (48 + n % 10)]

theorem tzoff_accepts (plus : Bool) (hh mm : Nat) (rest : Bytes) (h1 : hh ≤ 23) (h2 : mm ≤ 59) :
    tzoff ((if plus then 43 else 45) :: (twoDigits hh ++ twoDigits mm ++ rest)) =
      some (Spec.zoneOffset (if plus then 1 else -1) hh mm) := by
  sorry

theorem tzoff_only (s : Bytes) (z : Int) (h : tzoff s = some z) :
    ∃ (plus : Bool) (hh mm : Nat) (rest : Bytes), hh ≤ 23 ∧ mm ≤ 59 ∧
      s = (if plus then 43 else 45) :: (twoDigits hh ++ twoDigits mm ++ rest) ∧
      z = Spec.zoneOffset (if plus then 1 else -1) hh mm := by
  sorry

/-- `timegm` agrees with counting days, for every date from year 1 on, every month, and every
(possibly out-of-range, as `timegm` normalises) day, hour, minute and second count. -/
theorem timegm_eq_epoch (y mon d h mi s : Nat) (hy : 1 ≤ y) (hm : mon ≤ 11) (hd : 1 ≤ d) :
    timegm { year := y, mon := mon, mday := d, hour := h, min := mi, sec := s } = Spec.epoch y (mon + 1) d h mi s := by
  sorry

theorem true_age (strp : Bytes → Option (Tm × Bytes)) (zn : Bytes → Option Int) (s rest : Bytes)
    (y mon d h mi sec : Nat) (plus : Bool) (hh mm : Nat) (tail : Bytes)
    (hy : 1 ≤ y) (hm : mon ≤ 11) (hd : 1 ≤ d) (h1 : hh ≤ 23) (h2 : mm ≤ 59)
    (hs : strp s = some ({ year := y, mon := mon, mday := d, hour := h, min := mi, sec := sec }, rest))
    (hz : rest.drop (nspaces rest) = (if plus then 43 else 45) :: (twoDigits hh ++ twoDigits mm ++ tail))
    (hne : Spec.epoch y (mon + 1) d h mi sec ≠ -1) :
    timeParse strp zn s = some (Spec.epoch y (mon + 1) d h mi sec - Spec.zoneOffset (if plus then 1 else -1) hh mm) ∧
    ∀ age now t, (dateMatches .gt age now t = decide (now - t > age)) ∧ (dateMatches .lt age now t = decide (now - t < age)) := by
  sorry

theorem scalars_table : Gen.scalars = Spec.units := by
  sorry

theorem scalarLookup_eq_spec (lexeme : String) :
    (∀ v, scalarLookup lexeme = .value v ↔ Spec.unitOf lexeme = some v) := by
  sorry

theorem dateAge_spec (n u : Nat) : dateAge n u = (if n * u < 2 ^ 32 then some (n * u) else none) := by
  sorry

end Mdsort.Proofs
