import Mdsort.Model.Flags
import Mdsort.Model.Time
import Mdsort.Spec.Flags
import Mdsort.Spec.Time

/-! Helper definitions and lemmas for C09 (flags, pure part) and C15 (dates). -/

namespace Mdsort.Proofs
open Mdsort Mdsort.Model

/-! ### flags -/

theorem isupper_iff_toNat (c : UInt8) : isupper c = true ↔ 65 ≤ c.toNat ∧ c.toNat ≤ 90 := by
  simp [isupper, UInt8.le_iff_toNat_le]
theorem islower_iff_toNat (c : UInt8) : islower c = true ↔ 97 ≤ c.toNat ∧ c.toNat ≤ 122 := by
  simp [islower, UInt8.le_iff_toNat_le]

theorem mem_letterRange (lo : Nat) (hlo : lo + 26 ≤ 256) (c : UInt8) :
    c ∈ Spec.letterRange lo ↔ lo ≤ c.toNat ∧ c.toNat < lo + 26 := by
  simp only [Spec.letterRange, List.mem_map, List.mem_range]
  constructor
  · rintro ⟨i, hi, rfl⟩
    simp [UInt8.toNat_ofNat']
    omega
  · rintro ⟨h1, h2⟩
    refine ⟨c.toNat - lo, by omega, ?_⟩
    apply UInt8.toNat_inj.mp
    simp [UInt8.toNat_ofNat']
    omega

theorem testBit_false_of_lt_two_pow {F n i : Nat} (hF : F < 2 ^ n) (hi : n ≤ i) : F.testBit i = false :=
  Nat.testBit_lt_two_pow (Nat.lt_of_lt_of_le hF (Nat.pow_le_pow_right (by decide) hi))

theorem lt_of_testBit_of_lt_two_pow {F n i : Nat} (hF : F < 2 ^ n) (h : F.testBit i = true) : i < n := by
  apply Nat.lt_of_not_le
  intro hle
  rw [testBit_false_of_lt_two_pow hF hle] at h
  cases h

theorem strflagsLoop_eq (offset : UInt8) (room F : Nat) (hF : F < 2 ^ room) :
    ∀ fuel bit acc, F < 2 ^ (bit + fuel) → acc.length ≤ bit →
      strflagsLoop offset room fuel (F >>> bit) bit acc =
        some (acc ++ ((List.range' bit fuel).filter F.testBit).map (fun i => offset + i.toUInt8)) := by
  intro fuel
  induction fuel with
  | zero => intro bit acc _ _; simp [strflagsLoop]
  | succ fuel ih =>
    intro bit acc hlt hacc
    have hb : F.testBit bit = decide ((F >>> bit) % 2 = 1) := by
      rw [Nat.testBit_eq_decide_div_mod_eq, Nat.shiftRight_eq_div_pow]
    have hnext : (F >>> bit) / 2 = F >>> (bit + 1) := (Nat.shiftRight_succ F bit).symm
    rw [strflagsLoop]
    by_cases h0 : F >>> bit = 0
    · simp only [h0, beq_self_eq_true, if_true]
      have hlt' : F < 2 ^ bit := by
        rw [Nat.shiftRight_eq_div_pow] at h0
        exact (Nat.div_eq_zero_iff_lt (Nat.two_pow_pos bit)).mp h0
      have : (List.range' bit (fuel + 1)).filter F.testBit = [] := by
        rw [List.filter_eq_nil_iff]
        intro i hi
        rw [List.mem_range'_1] at hi
        simp [testBit_false_of_lt_two_pow hlt' hi.1]
      simp [this]
    · have ih' := ih (bit + 1)
      rw [show bit + 1 + fuel = bit + (fuel + 1) by omega] at ih'
      by_cases h2 : (F >>> bit) % 2 = 0
      · have hbf : F.testBit bit = false := by rw [hb]; simp [h2]
        simp only [beq_iff_eq, h0, if_false, h2, if_true, hnext]
        rw [ih' acc hlt (by omega)]
        simp [List.range'_succ, hbf]
      · have h3 : (F >>> bit) % 2 = 1 := (Nat.mod_two_eq_zero_or_one _).resolve_left h2
        have hbt : F.testBit bit = true := by rw [hb]; simp [h3]
        have hroom : bit < room := lt_of_testBit_of_lt_two_pow hF hbt
        simp only [beq_iff_eq, h0, if_false, h2, hnext]
        rw [if_neg (by omega)]
        rw [ih' _ hlt (by simp; omega)]
        simp [List.range'_succ, hbt]

theorem range'_33 : List.range' 0 33 = List.range 26 ++ [26, 27, 28, 29, 30, 31, 32] := by decide

theorem strflags_eq (F off bufsiz : Nat) (hF : F < 2 ^ 26) (hb : 27 ≤ bufsiz) (hoff : off + 26 ≤ 256) :
    strflags F (UInt8.ofNat off) bufsiz =
      some ((Spec.letterRange off).filter (fun c => F.testBit (c.toNat - off))) := by
  have hF' : F < 2 ^ (bufsiz - 1) :=
    Nat.lt_of_lt_of_le hF (Nat.pow_le_pow_right (by decide) (by omega))
  have h := strflagsLoop_eq (UInt8.ofNat off) (bufsiz - 1) F hF' 33 0 []
    (Nat.lt_of_lt_of_le hF (Nat.pow_le_pow_right (by decide) (by omega))) (by simp)
  rw [Nat.shiftRight_zero] at h
  rw [strflags, h, range'_33, List.filter_append]
  have htail : List.filter F.testBit [26, 27, 28, 29, 30, 31, 32] = [] := by
    rw [List.filter_eq_nil_iff]
    intro i hi
    have : 26 ≤ i := by simp at hi; omega
    simp [testBit_false_of_lt_two_pow hF this]
  rw [htail, Spec.letterRange, List.filter_map]
  simp only [List.nil_append, List.append_nil, Option.some.injEq]
  have hfil : List.filter ((fun c : UInt8 => F.testBit (c.toNat - off)) ∘ fun i => UInt8.ofNat (off + i)) (List.range 26)
      = List.filter F.testBit (List.range 26) := by
    apply List.filter_congr
    intro i hi
    rw [List.mem_range] at hi
    simp only [Function.comp, UInt8.toNat_ofNat']
    congr 1
    omega
  rw [hfil]
  apply List.map_congr_left
  intro i _
  rw [UInt8.ofNat_add]

/-- The letters of a flag set, upper case ascending then lower case ascending. -/
def lettersOf (mf : MFlags) : List UInt8 :=
  (Spec.letterRange 65).filter (fun c => mf.upper.testBit (c.toNat - 65)) ++
  (Spec.letterRange 97).filter (fun c => mf.lower.testBit (c.toNat - 97))

/-- The flag set containing exactly the given letters (non-letters ignored). -/
def ofLetters (ls : List UInt8) : MFlags :=
  ls.foldl (fun mf c => (flagsSet mf c).getD mf) MFlags.empty

/-- Both masks fit the 26 letters. -/
def MFlags.Valid (mf : MFlags) : Prop := mf.upper < 2 ^ 26 ∧ mf.lower < 2 ^ 26

/-- The canonical rendering of a flag set. -/
def flagCanon (mf : MFlags) : Bytes :=
  [58, 50, 44] ++ (Spec.letterRange 65).filter (fun c => mf.upper.testBit (c.toNat - 65)) ++
    (Spec.letterRange 97).filter (fun c => mf.lower.testBit (c.toNat - 97))

theorem length_letterRange (lo : Nat) : (Spec.letterRange lo).length = 26 := by
  simp [Spec.letterRange]

theorem flagsStr_eq_flagCanon (mf : MFlags) (h : MFlags.Valid mf) :
    flagsStr mf Gen.flagsMax = some (flagCanon mf) := by
  have hu := strflags_eq mf.upper 65 (Gen.flagsMax - 3) h.1 (by decide) (by decide)
  have hlen : ((Spec.letterRange 65).filter (fun c => mf.upper.testBit (c.toNat - 65))).length ≤ 26 := by
    have := List.length_filter_le (fun c : UInt8 => mf.upper.testBit (c.toNat - 65)) (Spec.letterRange 65)
    rwa [length_letterRange] at this
  have hl := strflags_eq mf.lower 97
    (Gen.flagsMax - 3 - ((Spec.letterRange 65).filter (fun c => mf.upper.testBit (c.toNat - 65))).length)
    h.2 (by have : Gen.flagsMax = 64 := rfl; omega) (by decide)
  rw [flagsStr, if_neg (by decide)]
  simp only [show (UInt8.ofNat 65) = 65 from rfl, show (UInt8.ofNat 97) = 97 from rfl] at hu hl
  simp only [hu, hl, flagCanon]

/-- `ls` denotes the flag set `mf`. -/
def Denotes (mf : MFlags) (ls : List UInt8) : Prop :=
  ∀ c, (isupper c = true → ls.contains c = mf.upper.testBit (c.toNat - 65)) ∧
       (islower c = true → ls.contains c = mf.lower.testBit (c.toNat - 97))

theorem flagSuffix_eq_flagCanon (mf : MFlags) (ls : List UInt8) (h : Denotes mf ls) :
    Spec.flagSuffix ls = flagCanon mf := by
  unfold Spec.flagSuffix flagCanon
  congr 1
  · congr 1
    apply List.filter_congr
    intro c hc
    rw [mem_letterRange 65 (by decide)] at hc
    exact (h c).1 ((isupper_iff_toNat c).mpr (by omega))
  · apply List.filter_congr
    intro c hc
    rw [mem_letterRange 97 (by decide)] at hc
    exact (h c).2 ((islower_iff_toNat c).mpr (by omega))

theorem denotes_lettersOf (mf : MFlags) : Denotes mf (lettersOf mf) := by
  intro c
  constructor
  · intro hc
    rw [isupper_iff_toNat] at hc
    rw [Bool.eq_iff_iff, List.contains_iff_mem, lettersOf, List.mem_append, List.mem_filter, List.mem_filter,
      mem_letterRange 65 (by decide), mem_letterRange 97 (by decide)]
    constructor
    · rintro (⟨_, h⟩ | ⟨h, _⟩)
      · exact h
      · omega
    · intro h; exact Or.inl ⟨by omega, h⟩
  · intro hc
    rw [islower_iff_toNat] at hc
    rw [Bool.eq_iff_iff, List.contains_iff_mem, lettersOf, List.mem_append, List.mem_filter, List.mem_filter,
      mem_letterRange 65 (by decide), mem_letterRange 97 (by decide)]
    constructor
    · rintro (⟨h, _⟩ | ⟨_, h⟩)
      · omega
      · exact h
    · intro h; exact Or.inr ⟨by omega, h⟩

theorem flagsStr_eq_spec (mf : MFlags) (h : MFlags.Valid mf) :
    flagsStr mf Gen.flagsMax = some (Spec.flagSuffix (lettersOf mf)) := by
  rw [flagsStr_eq_flagCanon mf h, flagSuffix_eq_flagCanon mf _ (denotes_lettersOf mf)]

theorem clrMask_testBit : ∀ k < 26, (2 ^ 32 - 1 - 1 <<< 18).testBit k = !(k == 18) := by decide

theorem msgflags_eq_spec (src dst : Subdir) (mf : MFlags) (h : MFlags.Valid mf) :
    msgflags src dst mf = some (Spec.flagSuffix (Spec.adjustSeen (src == .new) (dst == .new) (lettersOf mf))) := by
  have hS : isupper 83 = true := by decide
  have hr := denotes_lettersOf mf
  cases src <;> cases dst
  · -- new, new
    simp only [msgflags]
    rw [flagsStr_eq_flagCanon mf h, flagSuffix_eq_flagCanon mf _ (by simpa [Spec.adjustSeen] using hr)]
  · -- new, cur
    simp only [msgflags, flagsSet, hS, if_true]
    have hv : MFlags.Valid ⟨mf.upper ||| 1 <<< 18, mf.lower⟩ := ⟨Nat.or_lt_two_pow h.1 (by decide), h.2⟩
    show flagsStr ⟨mf.upper ||| 1 <<< 18, mf.lower⟩ Gen.flagsMax = _
    rw [flagsStr_eq_flagCanon _ hv]
    rw [flagSuffix_eq_flagCanon]
    intro c
    constructor
    · intro hc
      have := (hr c).1 hc
      rw [isupper_iff_toNat] at hc
      have e : (c == 83) = decide (18 = c.toNat - 65) := by
        rw [Bool.eq_iff_iff]; simp [← UInt8.toNat_inj]; omega
      simp only [Spec.adjustSeen]
      simp only [show ((Subdir.cur == Subdir.new) = false) from rfl, show ((Subdir.new == Subdir.new) = true) from rfl]
      simp only [Bool.not_false, Bool.and_self, if_true]
      show _ = (mf.upper ||| 1 <<< 18).testBit (c.toNat - 65)
      rw [List.contains_cons, this, Nat.testBit_or, e, Nat.one_shiftLeft, Nat.testBit_two_pow, Bool.or_comm]
    · intro hc
      have := (hr c).2 hc
      rw [islower_iff_toNat] at hc
      have e : (c == 83) = false := by
        simp [← UInt8.toNat_inj]; omega
      simp only [Spec.adjustSeen]
      simp only [show ((Subdir.cur == Subdir.new) = false) from rfl, show ((Subdir.new == Subdir.new) = true) from rfl]
      simp only [Bool.not_false, Bool.and_self, if_true]
      rw [List.contains_cons, this, e, Bool.false_or]
  · -- cur, new
    simp only [msgflags, flagsClr, hS, if_true]
    have hv : MFlags.Valid ⟨mf.upper &&& (2 ^ 32 - 1 - 1 <<< 18), mf.lower⟩ :=
      ⟨Nat.lt_of_le_of_lt Nat.and_le_left h.1, h.2⟩
    show flagsStr ⟨mf.upper &&& (2 ^ 32 - 1 - 1 <<< 18), mf.lower⟩ Gen.flagsMax = _
    rw [flagsStr_eq_flagCanon _ hv]
    rw [flagSuffix_eq_flagCanon]
    intro c
    have hcf : (List.filter (fun c : UInt8 => c != 83) (lettersOf mf)).contains c = ((lettersOf mf).contains c && (c != 83)) := by
      rw [Bool.eq_iff_iff]; simp [List.mem_filter]
    constructor
    · intro hc
      have := (hr c).1 hc
      rw [isupper_iff_toNat] at hc
      have e : (c != 83) = !(c.toNat - 65 == 18) := by
        rw [Bool.eq_iff_iff]; simp [← UInt8.toNat_inj]; omega
      have hm := clrMask_testBit (c.toNat - 65) (by omega)
      simp only [Spec.adjustSeen]
      simp only [show ((Subdir.cur == Subdir.new) = false) from rfl, show ((Subdir.new == Subdir.new) = true) from rfl]
      simp only [Bool.false_and, Bool.not_false, Bool.and_self, if_true, Bool.false_eq_true, if_false, hcf, this, e]
      show _ = (mf.upper &&& (2 ^ 32 - 1 - 1 <<< 18)).testBit (c.toNat - 65)
      rw [Nat.testBit_and, hm]
    · intro hc
      have := (hr c).2 hc
      rw [islower_iff_toNat] at hc
      have e : (c != 83) = true := by
        simp [← UInt8.toNat_inj]; omega
      simp only [Spec.adjustSeen]
      simp only [show ((Subdir.cur == Subdir.new) = false) from rfl, show ((Subdir.new == Subdir.new) = true) from rfl]
      simp only [Bool.false_and, Bool.not_false, Bool.and_self, if_true, Bool.false_eq_true, if_false, hcf, this, e, Bool.and_true]
  · -- cur, cur
    simp only [msgflags]
    rw [flagsStr_eq_flagCanon mf h, flagSuffix_eq_flagCanon mf _ (by simpa [Spec.adjustSeen] using hr)]

theorem strrchr_none (c : UInt8) : ∀ s : Bytes, c ∉ s → strrchr s c = none
  | [], _ => rfl
  | x :: r, h => by
    have h1 : c ∉ r := fun h' => h (List.mem_cons_of_mem _ h')
    have h2 : ¬ x = c := fun h' => h (h' ▸ List.mem_cons_self)
    simp [strrchr, strrchr_none c r h1, h2]

theorem strrchr_split (c : UInt8) (b : Bytes) (hb : c ∉ b) :
    ∀ a : Bytes, strrchr (a ++ c :: b) c = some (c :: b)
  | [] => by simp [strrchr, strrchr_none c b hb]
  | x :: a => by
    simp [strrchr, strrchr_split c b hb a]

theorem exists_split_last (c : UInt8) : ∀ s : Bytes, c ∈ s → ∃ a b, s = a ++ c :: b ∧ c ∉ b
  | [], h => by simp at h
  | x :: r, h => by
    by_cases hr : c ∈ r
    · obtain ⟨a, b, e, hb⟩ := exists_split_last c r hr
      exact ⟨x :: a, b, by simp [e], hb⟩
    · have : c = x := by simpa [hr] using h
      exact ⟨[], r, by simp [this], hr⟩

theorem takeWhile_suffix_split (a b : Bytes) (hb : (58 : UInt8) ∉ b) :
    ((a ++ 58 :: b).reverse.takeWhile (fun c => c != 58)).reverse = b := by
  rw [List.reverse_append, List.reverse_cons, List.append_assoc, List.takeWhile_append_of_pos]
  · simp
  · intro x hx
    rw [List.mem_reverse] at hx
    simp only [bne_iff_ne, ne_eq]
    rintro rfl
    exact hb hx

/-- One step of `ofLetters`. -/
def flagStep (mf : MFlags) (c : UInt8) : MFlags := (flagsSet mf c).getD mf

theorem flagsSet_isSome (mf : MFlags) (c : UInt8) : (flagsSet mf c).isSome = isalpha c := by
  unfold flagsSet isalpha
  cases hu : isupper c <;> cases hl : islower c <;> simp

theorem flagsSetAll_eq : ∀ (ls : Bytes) (mf : MFlags),
    flagsSetAll mf ls = if ls.all isalpha then some (ls.foldl flagStep mf) else none
  | [], mf => by simp [flagsSetAll]
  | c :: r, mf => by
    have hs := flagsSet_isSome mf c
    rw [flagsSetAll]
    cases hf : flagsSet mf c with
    | none =>
      rw [hf] at hs
      have hs' : isalpha c = false := by simpa using hs.symm
      simp [hs']
    | some mf' =>
      rw [hf] at hs
      simp only [flagsSetAll_eq r mf', List.all_cons, ← hs, Option.isSome_some, Bool.true_and, List.foldl_cons, flagStep, hf,
        Option.getD_some]

theorem flagsParse_tail (b : Bytes) :
    (match (58 : UInt8) :: b with
      | _ :: 50 :: 44 :: fl => flagsSetAll MFlags.empty fl
      | _ => none) =
    (match b with
      | 50 :: 44 :: letters => if letters.all isalpha then some letters else none
      | _ => none : Option (List UInt8)).map ofLetters := by
  split
  · rename_i fl h
    simp only [List.cons.injEq] at h
    obtain ⟨_, rfl⟩ := h
    simp only [flagsSetAll_eq]
    split
    · rfl
    · rfl
  · rename_i h
    split
    · rename_i letters
      exact absurd rfl (h _ letters)
    · rfl

theorem flagsParse_eq_spec (name : Bytes) : flagsParse name = (Spec.nameFlags name).map ofLetters := by
  by_cases hc : (58 : UInt8) ∈ name
  · obtain ⟨a, b, rfl, hb⟩ := exists_split_last 58 name hc
    have hcont : (a ++ 58 :: b).contains 58 = true := by simp
    simp only [flagsParse, strrchr_split 58 b hb a, Spec.nameFlags, hcont, takeWhile_suffix_split a b hb]
    exact flagsParse_tail b
  · have hcont : name.contains 58 = false := by simpa using hc
    simp only [flagsParse, strrchr_none 58 name hc, Spec.nameFlags, hcont]
    rfl

theorem not_lower_of_upper {c : UInt8} (h : isupper c = true) : islower c = false := by
  rw [isupper_iff_toNat] at h
  cases hl : islower c
  · rfl
  · rw [islower_iff_toNat] at hl; omega

theorem flagStep_upper (mf : MFlags) (c : UInt8) :
    (flagStep mf c).upper = if isupper c then mf.upper ||| 1 <<< (c.toNat - 65) else mf.upper := by
  unfold flagStep flagsSet
  cases hu : isupper c <;> cases hl : islower c <;> simp

theorem flagStep_lower (mf : MFlags) (c : UInt8) :
    (flagStep mf c).lower = if islower c then mf.lower ||| 1 <<< (c.toNat - 97) else mf.lower := by
  unfold flagStep flagsSet
  cases hu : isupper c <;> cases hl : islower c <;> simp
  rw [not_lower_of_upper hu] at hl
  cases hl

theorem testBit_one_shiftLeft (n m : Nat) : (1 <<< n).testBit m = (n == m) := by
  rw [Nat.one_shiftLeft, Nat.testBit_two_pow, Bool.eq_iff_iff]; simp

theorem foldl_flagStep_upper : ∀ (ls : Bytes) (mf : MFlags) (i : Nat),
    (ls.foldl flagStep mf).upper.testBit i =
      (mf.upper.testBit i || ls.any (fun c => isupper c && (c.toNat - 65 == i)))
  | [], mf, i => by simp
  | c :: r, mf, i => by
    rw [List.foldl_cons, foldl_flagStep_upper r (flagStep mf c) i, flagStep_upper, List.any_cons]
    cases hu : isupper c
    · simp
    · simp only [if_true, Nat.testBit_or, testBit_one_shiftLeft, Bool.true_and, Bool.or_assoc]

theorem foldl_flagStep_lower : ∀ (ls : Bytes) (mf : MFlags) (i : Nat),
    (ls.foldl flagStep mf).lower.testBit i =
      (mf.lower.testBit i || ls.any (fun c => islower c && (c.toNat - 97 == i)))
  | [], mf, i => by simp
  | c :: r, mf, i => by
    rw [List.foldl_cons, foldl_flagStep_lower r (flagStep mf c) i, flagStep_lower, List.any_cons]
    cases hu : islower c
    · simp
    · simp only [if_true, Nat.testBit_or, testBit_one_shiftLeft, Bool.true_and, Bool.or_assoc]

theorem any_lettersOf_upper (mf : MFlags) (h : MFlags.Valid mf) (i : Nat) :
    (lettersOf mf).any (fun c => isupper c && (c.toNat - 65 == i)) = mf.upper.testBit i := by
  rw [Bool.eq_iff_iff, List.any_eq_true]
  constructor
  · rintro ⟨c, hc, hp⟩
    simp only [Bool.and_eq_true, beq_iff_eq] at hp
    rw [← List.contains_iff_mem, ((denotes_lettersOf mf) c).1 hp.1, hp.2] at hc
    exact hc
  · intro hi
    have hi26 : i < 26 := lt_of_testBit_of_lt_two_pow h.1 hi
    have hn : (UInt8.ofNat (65 + i)).toNat = 65 + i := by rw [UInt8.toNat_ofNat']; omega
    have hup : isupper (UInt8.ofNat (65 + i)) = true := by rw [isupper_iff_toNat, hn]; omega
    refine ⟨UInt8.ofNat (65 + i), ?_, ?_⟩
    · rw [← List.contains_iff_mem, ((denotes_lettersOf mf) _).1 hup, hn]
      simpa using hi
    · show (_ && (_ - _ == i)) = true
      rw [hup, hn]; simp

theorem any_lettersOf_lower (mf : MFlags) (h : MFlags.Valid mf) (i : Nat) :
    (lettersOf mf).any (fun c => islower c && (c.toNat - 97 == i)) = mf.lower.testBit i := by
  rw [Bool.eq_iff_iff, List.any_eq_true]
  constructor
  · rintro ⟨c, hc, hp⟩
    simp only [Bool.and_eq_true, beq_iff_eq] at hp
    rw [← List.contains_iff_mem, ((denotes_lettersOf mf) c).2 hp.1, hp.2] at hc
    exact hc
  · intro hi
    have hi26 : i < 26 := lt_of_testBit_of_lt_two_pow h.2 hi
    have hn : (UInt8.ofNat (97 + i)).toNat = 97 + i := by rw [UInt8.toNat_ofNat']; omega
    have hup : islower (UInt8.ofNat (97 + i)) = true := by rw [islower_iff_toNat, hn]; omega
    refine ⟨UInt8.ofNat (97 + i), ?_, ?_⟩
    · rw [← List.contains_iff_mem, ((denotes_lettersOf mf) _).2 hup, hn]
      simpa using hi
    · show (_ && (_ - _ == i)) = true
      rw [hup, hn]; simp

theorem ofLetters_lettersOf (mf : MFlags) (h : MFlags.Valid mf) : ofLetters (lettersOf mf) = mf := by
  have hu : (ofLetters (lettersOf mf)).upper = mf.upper := by
    apply Nat.eq_of_testBit_eq
    intro i
    show ((lettersOf mf).foldl flagStep MFlags.empty).upper.testBit i = _
    rw [foldl_flagStep_upper, any_lettersOf_upper mf h]
    simp [MFlags.empty]
  have hl : (ofLetters (lettersOf mf)).lower = mf.lower := by
    apply Nat.eq_of_testBit_eq
    intro i
    show ((lettersOf mf).foldl flagStep MFlags.empty).lower.testBit i = _
    rw [foldl_flagStep_lower, any_lettersOf_lower mf h]
    simp [MFlags.empty]
  cases mf
  cases hm : ofLetters (lettersOf _)
  rw [hm] at hu hl
  simp only at hu hl
  rw [hu, hl]

theorem isalpha_of_mem_lettersOf (mf : MFlags) (c : UInt8) (hc : c ∈ lettersOf mf) : isalpha c = true := by
  rw [lettersOf, List.mem_append, List.mem_filter, List.mem_filter,
    mem_letterRange 65 (by decide), mem_letterRange 97 (by decide)] at hc
  unfold isalpha
  rcases hc with ⟨h, _⟩ | ⟨h, _⟩
  · rw [(isupper_iff_toNat c).mpr (by omega)]; rfl
  · rw [(islower_iff_toNat c).mpr (by omega)]; simp

theorem flags_roundtrip (base : Bytes) (mf : MFlags) (h : MFlags.Valid mf) (hb : (58 : UInt8) ∉ base) :
    flagsParse (base ++ Spec.flagSuffix (lettersOf mf)) = some mf := by
  have _ := hb
  have hsuf : Spec.flagSuffix (lettersOf mf) = 58 :: 50 :: 44 :: lettersOf mf := by
    rw [flagSuffix_eq_flagCanon mf _ (denotes_lettersOf mf)]
    simp [flagCanon, lettersOf]
  have hall : (lettersOf mf).all isalpha = true := by
    rw [List.all_eq_true]; exact isalpha_of_mem_lettersOf mf
  have hno : (58 : UInt8) ∉ (50 :: 44 :: lettersOf mf : Bytes) := by
    intro hm
    rcases List.mem_cons.mp hm with h1 | hm
    · cases h1
    rcases List.mem_cons.mp hm with h1 | hm
    · cases h1
    have := isalpha_of_mem_lettersOf mf 58 hm
    revert this; decide
  rw [hsuf, flagsParse, strrchr_split 58 _ hno base]
  simp only [flagsSetAll_eq, hall, if_true]
  exact congrArg some (ofLetters_lettersOf mf h)

/-! ### dates -/

def twoDigits (n : Nat) : Bytes := [UInt8.ofNat (48 + n / 10), UInt8.ofNat (48 + n % 10)]

theorem digitVal_ofNat : ∀ n < 10, digitVal (UInt8.ofNat (48 + n)) = some n := by decide

theorem digitVal_inv (c : UInt8) (a : Nat) (h : digitVal c = some a) : a < 10 ∧ c = UInt8.ofNat (48 + a) := by
  unfold digitVal isdigit at h
  split at h
  · rename_i hc
    simp at h hc
    have h1 := UInt8.le_iff_toNat_le.mp hc.1
    have h2 := UInt8.le_iff_toNat_le.mp hc.2
    simp at h1 h2
    refine ⟨by omega, ?_⟩
    apply UInt8.toNat_inj.mp
    simp
    omega
  · simp at h

theorem tzoff_accepts (plus : Bool) (hh mm : Nat) (rest : Bytes) (h1 : hh ≤ 23) (h2 : mm ≤ 59) :
    tzoff ((if plus then 43 else 45) :: (twoDigits hh ++ twoDigits mm ++ rest)) =
      some (Spec.zoneOffset (if plus then 1 else -1) hh mm) := by
  have ha := digitVal_ofNat (hh / 10) (by omega)
  have hb := digitVal_ofNat (hh % 10) (by omega)
  have hc := digitVal_ofNat (mm / 10) (by omega)
  have hd := digitVal_ofNat (mm % 10) (by omega)
  have e1 : hh / 10 * 10 + hh % 10 = hh := by omega
  have e2 : mm / 10 * 10 + mm % 10 = mm := by omega
  simp only [twoDigits, List.cons_append, List.nil_append, tzoff, ha, hb, hc, hd]
  cases plus <;> simp [Spec.zoneOffset] <;> omega

theorem tzoff_only (s : Bytes) (z : Int) (h : tzoff s = some z) :
    ∃ (plus : Bool) (hh mm : Nat) (rest : Bytes), hh ≤ 23 ∧ mm ≤ 59 ∧
      s = (if plus then 43 else 45) :: (twoDigits hh ++ twoDigits mm ++ rest) ∧
      z = Spec.zoneOffset (if plus then 1 else -1) hh mm := by
  match s, h with
  | sg :: h1 :: h2 :: m1 :: m2 :: rest, h =>
    simp only [tzoff] at h
    split at h
    · rename_i sign a b c d hsg ha hb hc hd
      obtain ⟨ha1, rfl⟩ := digitVal_inv _ _ ha
      obtain ⟨hb1, rfl⟩ := digitVal_inv _ _ hb
      obtain ⟨hc1, rfl⟩ := digitVal_inv _ _ hc
      obtain ⟨hd1, rfl⟩ := digitVal_inv _ _ hd
      split at h
      · simp at h
      · split at h
        · simp at h
        · rename_i hh hm
          have e1 : (a * 10 + b) / 10 = a := by omega
          have e2 : (a * 10 + b) % 10 = b := by omega
          have e3 : (c * 10 + d) / 10 = c := by omega
          have e4 : (c * 10 + d) % 10 = d := by omega
          simp only [Option.some.injEq] at h
          by_cases hp : sg = 43
          · refine ⟨true, a * 10 + b, c * 10 + d, rest, by omega, by omega, ?_, ?_⟩
            · simp [twoDigits, e1, e2, e3, e4, hp]
            · simp [hp] at hsg
              subst hsg; subst h
              simp [Spec.zoneOffset]; omega
          · by_cases hm' : sg = 45
            · refine ⟨false, a * 10 + b, c * 10 + d, rest, by omega, by omega, ?_, ?_⟩
              · simp [twoDigits, e1, e2, e3, e4, hm']
              · simp [hm'] at hsg
                subst hsg; subst h
                simp [Spec.zoneOffset]; omega
            · simp [hp, hm'] at hsg
    · simp at h
  | [], h | [_], h | [_, _], h | [_, _, _], h | [_, _, _, _], h => simp [tzoff] at h

theorem isLeap_cases (y : Nat) :
    (Spec.isLeap y = true ∧ ((y % 4 = 0 ∧ y % 100 ≠ 0) ∨ y % 400 = 0)) ∨
    (Spec.isLeap y = false ∧ ¬ ((y % 4 = 0 ∧ y % 100 ≠ 0) ∨ y % 400 = 0)) := by
  unfold Spec.isLeap
  by_cases h : ((y % 4 = 0 ∧ y % 100 ≠ 0) ∨ y % 400 = 0)
  · left; refine ⟨?_, h⟩; simpa using h
  · right; refine ⟨?_, h⟩; simpa using h

theorem daysFromCivil_eq (y mon d : Nat) (hy : 1 ≤ y) (hm : mon ≤ 11) :
    daysFromCivil y ((mon : Int) + 1) d = Spec.daysBeforeYear y + Spec.daysBeforeMonth y (mon + 1) + (d : Int) - 1 := by
  have hmon : mon = 0 ∨ mon = 1 ∨ mon = 2 ∨ mon = 3 ∨ mon = 4 ∨ mon = 5 ∨ mon = 6 ∨ mon = 7 ∨ mon = 8 ∨ mon = 9 ∨ mon = 10 ∨ mon = 11 := by omega
  rcases hmon with rfl | rfl | rfl | rfl | rfl | rfl | rfl | rfl | rfl | rfl | rfl | rfl
  all_goals
    rcases isLeap_cases y with ⟨hl, hl'⟩ | ⟨hl, hl'⟩ <;>
    simp [daysFromCivil, Spec.daysBeforeYear, Spec.daysBeforeMonth, Spec.daysInMonth, List.range_succ, hl] <;>
    omega

theorem timegm_eq_epoch (y mon d h mi s : Nat) (hy : 1 ≤ y) (hm : mon ≤ 11) (hd : 1 ≤ d) :
    timegm { year := y, mon := mon, mday := d, hour := h, min := mi, sec := s } = Spec.epoch y (mon + 1) d h mi s := by
  have _ := hd
  simp only [timegm, Spec.epoch, daysFromCivil_eq y mon d hy hm]

theorem true_age (strp : Bytes → Option (Tm × Bytes)) (zn : Bytes → Option Int) (s rest : Bytes)
    (y mon d h mi sec : Nat) (plus : Bool) (hh mm : Nat) (tail : Bytes)
    (hy : 1 ≤ y) (hm : mon ≤ 11) (hd : 1 ≤ d) (h1 : hh ≤ 23) (h2 : mm ≤ 59)
    (hs : strp s = some ({ year := y, mon := mon, mday := d, hour := h, min := mi, sec := sec }, rest))
    (hz : rest.drop (nspaces rest) = (if plus then 43 else 45) :: (twoDigits hh ++ twoDigits mm ++ tail))
    (hne : Spec.epoch y (mon + 1) d h mi sec ≠ -1) :
    timeParse strp zn s = some (Spec.epoch y (mon + 1) d h mi sec - Spec.zoneOffset (if plus then 1 else -1) hh mm) ∧
    ∀ age now t, (dateMatches .gt age now t = decide (now - t > age)) ∧ (dateMatches .lt age now t = decide (now - t < age)) := by
  refine ⟨?_, fun age now t => ⟨rfl, rfl⟩⟩
  have ht := tzoff_accepts plus hh mm tail h1 h2
  simp only [timeParse, hs, timegm_eq_epoch y mon d h mi sec hy hm hd, hz, tzparse, ht]
  simp [hne]

theorem scalars_table : Gen.scalars = Spec.units := by rfl

theorem scalarLookup_eq_spec (lexeme : String) :
    (∀ v, scalarLookup lexeme = .value v ↔ Spec.unitOf lexeme = some v) := by
  intro v
  unfold scalarLookup Spec.unitOf
  rw [scalars_table]
  have e : (Spec.units.filter fun (x : String × Nat) => match x with | (name, _) => lexeme.toList.isPrefixOf name.toList) = (Spec.units.filter fun u => lexeme.toList.isPrefixOf u.1.toList) := rfl
  rw [e]
  generalize (Spec.units.filter fun u => lexeme.toList.isPrefixOf u.1.toList) = ms
  match ms with
  | [] => simp
  | [(n, w)] => simp
  | _ :: _ :: _ => simp


theorem dateAge_spec (n u : Nat) : dateAge n u = (if n * u < 2 ^ 32 then some (n * u) else none) := by
  unfold dateAge
  by_cases h : n * u < 2 ^ 32
  · rw [if_neg (by omega), if_pos h]
  · rw [if_pos (by omega), if_neg h]

end Mdsort.Proofs
