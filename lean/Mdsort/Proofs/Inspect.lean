import Mdsort.Model.Inspect

/-! Lemmas for C06: the dry run evaluates to the same plan as the real run; marker columns. -/

namespace Mdsort.Proofs
open Mdsort Mdsort.Model

/-- Forget the two fields that only a dry run fills in (`mh_key`, `mh_val`). -/
def eraseKV (ml : MatchList) : MatchList := ml.map fun m => { m with key := none, val := none }

/-- The same environment with the dry-run option flipped. -/
def flipDry (env : Env) : Env := { env with dryrun := !env.dryrun }

/-! ### Helper lemmas for `eval_dryrun_same`: everything the evaluator reads from the match list is
insensitive to `eraseKV`; two runs from lists equal up to `eraseKV` stay equal up to `eraseKV`. -/
namespace Insp

def erase1 (m : Match) : Match := { m with key := none, val := none }

theorem eraseKV_map (ml : MatchList) : eraseKV ml = ml.map erase1 := rfl
@[simp] theorem erase1_idem (m : Match) : erase1 (erase1 m) = erase1 m := rfl
@[simp] theorem erase1_ty (m : Match) : (erase1 m).ty = m.ty := rfl
@[simp] theorem erase1_subs (m : Match) : (erase1 m).subs = m.subs := rfl
@[simp] theorem erase1_maildir (m : Match) : (erase1 m).maildir = m.maildir := rfl
@[simp] theorem erase1_subdir (m : Match) : (erase1 m).subdir = m.subdir := rfl
@[simp] theorem eraseKV_nil : eraseKV [] = [] := rfl
@[simp] theorem eraseKV_cons (m : Match) (ml : MatchList) : eraseKV (m :: ml) = erase1 m :: eraseKV ml := rfl
@[simp] theorem eraseKV_append (a b : MatchList) : eraseKV (a ++ b) = eraseKV a ++ eraseKV b := by
  simp [eraseKV_map]
@[simp] theorem eraseKV_idem (ml : MatchList) : eraseKV (eraseKV ml) = eraseKV ml := by
  simp [eraseKV_map]
theorem eraseKV_length (ml : MatchList) : (eraseKV ml).length = ml.length := by simp [eraseKV_map]
theorem eraseKV_take (ml : MatchList) (n : Nat) : eraseKV (ml.take n) = (eraseKV ml).take n := by
  simp [eraseKV_map]
theorem eraseKV_dropLast (ml : MatchList) : eraseKV ml.dropLast = (eraseKV ml).dropLast := by
  simp [eraseKV_map]
theorem eraseKV_getLast? (ml : MatchList) : (eraseKV ml).getLast? = ml.getLast?.map erase1 := by
  simp [eraseKV_map]
theorem eraseKV_reverse (ml : MatchList) : eraseKV ml.reverse = (eraseKV ml).reverse := by
  simp [eraseKV_map]

theorem matchesFind_erase (ml : MatchList) (t : MType) :
    matchesFind (eraseKV ml) t = (matchesFind ml t).map erase1 := by
  induction ml with
  | nil => rfl
  | cons m r ih =>
    simp only [matchesFind, eraseKV_cons, List.find?_cons, erase1_ty] at ih ⊢
    split <;> simp [ih]

theorem eraseKV_filter_ty (ml : MatchList) (p : MType → Bool) :
    (eraseKV ml).filter (fun m => p m.ty) = eraseKV (ml.filter (fun m => p m.ty)) := by
  induction ml with
  | nil => rfl
  | cons m r ih =>
    simp only [eraseKV_cons, List.filter_cons, erase1_ty]
    by_cases h : p m.ty = true <;> simp [h, ih]

theorem matchesRemove_erase (ml : MatchList) (t : MType) :
    matchesRemove (eraseKV ml) t = (eraseKV (matchesRemove ml t).1, (matchesRemove ml t).2) := by
  unfold matchesRemove
  simp only
  rw [eraseKV_filter_ty ml (fun ty => ty != t), eraseKV_filter_ty _ (fun ty => ty.isAction), eraseKV_length]

theorem removeFirst_erase (ml : MatchList) (t : MType) :
    removeFirst (eraseKV ml) t = eraseKV (removeFirst ml t) := by
  induction ml with
  | nil => rfl
  | cons m r ih =>
    simp only [removeFirst, eraseKV_cons, erase1_ty]
    by_cases h : (m.ty == t) = true
    · simp only [h, ↓reduceIte]
    · simp only [h, Bool.false_eq_true, ↓reduceIte, ih, eraseKV_cons]

theorem matchesMerge_erase (ml : MatchList) (mh : Match) :
    matchesMerge (eraseKV ml) (erase1 mh) = (eraseKV (matchesMerge ml mh).1, erase1 (matchesMerge ml mh).2) := by
  unfold matchesMerge
  simp only [erase1_ty, eraseKV_getLast?, matchesFind_erase, removeFirst_erase]
  by_cases h1 : (mh.ty != .move && mh.ty != .flag) = true
  · simp only [h1, ↓reduceIte]
  · simp only [h1, Bool.false_eq_true, ↓reduceIte]
    cases ml.getLast? with
    | none => rfl
    | some last =>
      simp only [Option.map_some, erase1_ty]
      by_cases h2 : (last.ty == mh.ty) = true
      · simp only [h2, ↓reduceIte, eraseKV_dropLast]
      · simp only [h2, Bool.false_eq_true, ↓reduceIte]
        by_cases h3 : (mh.ty == .move) = true
        · simp only [h3, ↓reduceIte]
          cases matchesFind ml .flag with
          | none => rfl
          | some dup => rfl
        · simp only [h3, Bool.false_eq_true, ↓reduceIte]
          cases matchesFind ml .move with
          | none => rfl
          | some dup => rfl

theorem matchesAppend_erase (env : Env) (ml : MatchList) (mh : Match) :
    matchesAppend env (eraseKV ml) (erase1 mh) = (eraseKV (matchesAppend env ml mh).1, (matchesAppend env ml mh).2) := by
  unfold matchesAppend
  rw [matchesMerge_erase]
  generalize matchesMerge ml mh = r
  obtain ⟨ml1, mh1⟩ := r
  obtain ⟨ty, lno, part, maildir, subdir, path, subs, key, val, argv, strings, hkey, hval, pat, es, eb⟩ := mh1
  dsimp only [erase1]
  by_cases h1 : (!ty.isPath) = true
  · simp only [h1, ↓reduceIte, eraseKV_append, eraseKV_cons, eraseKV_nil]; rfl
  · simp only [h1, Bool.false_eq_true, ↓reduceIte]
    generalize (if maildir.isEmpty = true then pathslice env.path PATH_MAX 0 (-2) else some maildir) = md
    cases md with
    | none => simp only [eraseKV_append, eraseKV_cons, eraseKV_nil]; rfl
    | some maildir =>
      dsimp only
      generalize (if subdir.isEmpty = true then pathslice env.path NAME_MAX1 (-2) (-2) else some subdir) = sd
      cases sd with
      | none => simp only [eraseKV_append, eraseKV_cons, eraseKV_nil]; rfl
      | some subdir =>
        dsimp only
        cases pathjoin PATH_MAX maildir subdir with
        | none => simp only [eraseKV_append, eraseKV_cons, eraseKV_nil]; rfl
        | some p => simp only [eraseKV_append, eraseKV_cons, eraseKV_nil]; rfl

theorem eraseKV_findIdx_ty (ml : MatchList) (p : MType → Bool) :
    (eraseKV ml).findIdx? (fun m => p m.ty) = ml.findIdx? (fun m => p m.ty) := by
  induction ml with
  | nil => rfl
  | cons m r ih => simp only [eraseKV_cons, List.findIdx?_cons, erase1_ty, ih]

theorem eraseKV_getElem? (ml : MatchList) (i : Nat) : (eraseKV ml)[i]? = ml[i]?.map erase1 := by
  simp [eraseKV_map]

theorem matchBackref_erase (b : MatchList) (br : Backref) :
    matchBackref (eraseKV b) br = matchBackref b br := by
  unfold matchBackref
  simp only [← eraseKV_reverse]
  rw [eraseKV_findIdx_ty b.reverse (fun ty => ty == .mtch)]
  cases List.findIdx? (fun m => m.ty == MType.mtch) b.reverse with
  | none => rfl
  | some k =>
    simp only [← eraseKV_take, ← eraseKV_reverse]
    rw [eraseKV_filter_ty _ (fun ty => ty.isInterp), eraseKV_getElem?]
    cases (List.filter (fun m => m.ty.isInterp) (List.take k b.reverse).reverse)[br.mi]? with
    | none => rfl
    | some mi => rfl

theorem interpolate_go_erase (b : MatchList) (macros : Option (List (Bytes × Bytes))) (fuel : Nat) (s out : Bytes) :
    interpolate.go (eraseKV b) macros fuel s out = interpolate.go b macros fuel s out := by
  induction fuel generalizing s out with
  | zero => simp only [interpolate.go]
  | succ n ih =>
    unfold interpolate.go
    cases s with
    | nil => rfl
    | cons c r =>
      simp only [matchBackref_erase, ih]

theorem interpolate_erase (b : MatchList) (macros : Option (List (Bytes × Bytes))) (s : Bytes) :
    interpolate (eraseKV b) macros s = interpolate b macros s := by
  unfold interpolate; exact interpolate_go_erase ..

/-- Two environments that differ at most in the dry-run option. -/
structure EnvAgree (e1 e2 : Env) : Prop where
  rx : e1.rx = e2.rx
  command : e1.command = e2.command
  isDir : e1.isDir = e2.isDir
  now : e1.now = e2.now
  strptime : e1.strptime = e2.strptime
  zoneName : e1.zoneName = e2.zoneName
  fileTime : e1.fileTime = e2.fileTime
  timeFormat : e1.timeFormat = e2.timeFormat
  path : e1.path = e2.path

def Sim (st st' : St) : Prop := eraseKV st.ml = eraseKV st'.ml ∧ st.flags = st'.flags
def RSim (r r' : Tri × St) : Prop := r.1 = r'.1 ∧ Sim r.2 r'.2

theorem matchesAppend_env {e1 e2 : Env} (h : e1.path = e2.path) (ml : MatchList) (mh : Match) :
    matchesAppend e1 ml mh = matchesAppend e2 ml mh := by
  unfold matchesAppend; rw [h]

theorem matchesAppend_congr {e1 e2 : Env} (ha : EnvAgree e1 e2) {ml ml' : MatchList} (h : eraseKV ml = eraseKV ml')
    (mh : Match) :
    eraseKV (matchesAppend e1 ml mh).1 = eraseKV (matchesAppend e2 ml' mh).1 ∧
      (matchesAppend e1 ml mh).2 = (matchesAppend e2 ml' mh).2 := by
  have h1 := matchesAppend_erase e1 ml mh
  have h2 := matchesAppend_erase e2 ml' mh
  rw [h, matchesAppend_env ha.path] at h1
  rw [h1] at h2
  injection h2 with h3 h4
  exact ⟨h3, h4⟩

theorem matchesFind_isSome_congr {ml ml' : MatchList} (h : eraseKV ml = eraseKV ml') (t : MType) :
    (matchesFind ml t).isSome = (matchesFind ml' t).isSome := by
  have h1 := matchesFind_erase ml t
  have h2 := matchesFind_erase ml' t
  rw [h, h2] at h1
  have := congrArg Option.isSome h1
  simpa using this.symm

theorem matchesRemove_congr {ml ml' : MatchList} (h : eraseKV ml = eraseKV ml') (t : MType) :
    eraseKV (matchesRemove ml t).1 = eraseKV (matchesRemove ml' t).1 ∧ (matchesRemove ml t).2 = (matchesRemove ml' t).2 := by
  have h1 := matchesRemove_erase ml t
  have h2 := matchesRemove_erase ml' t
  rw [h, h2] at h1
  injection h1 with h3 h4
  exact ⟨h3.symm, h4.symm⟩

theorem interpolate_congr {b b' : MatchList} (h : eraseKV b = eraseKV b') (macros : Option (List (Bytes × Bytes))) (s : Bytes) :
    interpolate b macros s = interpolate b' macros s := by
  rw [← interpolate_erase b, ← interpolate_erase b', h]

theorem length_congr {ml ml' : MatchList} (h : eraseKV ml = eraseKV ml') : ml.length = ml'.length := by
  rw [← eraseKV_length ml, ← eraseKV_length ml', h]

theorem dropLast_congr {ml ml' : MatchList} (h : eraseKV ml = eraseKV ml') : eraseKV ml.dropLast = eraseKV ml'.dropLast := by
  rw [eraseKV_dropLast, eraseKV_dropLast, h]

theorem take_congr {ml ml' : MatchList} (h : eraseKV ml = eraseKV ml') (n : Nat) : eraseKV (ml.take n) = eraseKV (ml'.take n) := by
  rw [eraseKV_take, eraseKV_take, h]

theorem eraseKV_setLast (ml : MatchList) (f : Match → Match) (hf : ∀ m, erase1 (f m) = erase1 m) :
    eraseKV (ml.dropLast ++ (ml.getLast?.map f).toList) = eraseKV ml := by
  rcases List.eq_nil_or_concat ml with h | ⟨l, a, h⟩
  · subst h; rfl
  · subst h; simp [hf]

theorem exprAppend_sim {e1 e2 : Env} (ha : EnvAgree e1 e2) (mh : Match) {st st' : St} (h : Sim st st') (ok : Tri) :
    RSim (exprAppend e1 mh st ok) (exprAppend e2 mh st' ok) := by
  unfold exprAppend
  have := matchesAppend_congr ha h.1 mh
  refine ⟨?_, ?_, h.2⟩
  · simp only [this.2]
  · exact this.1

theorem exprRegexec_sim {e1 e2 : Env} (ha : EnvAgree e1 e2) (ty : MType) (lno part : Nat) (p : Pat) (key val : Bytes)
    {st st' : St} (h : Sim st st') :
    RSim (exprRegexec e1 ty lno part p key val st) (exprRegexec e2 ty lno part p key val st') := by
  unfold exprRegexec
  rw [ha.rx]
  rcases e2.rx p val with _ | _ | groups
  · exact ⟨rfl, h⟩
  · exact ⟨rfl, h⟩
  ·
    dsimp only
    have hc := matchesAppend_congr ha h.1
      { ty := ty, lno := lno, part := part, subs := matchCopy p val groups, pat := some p }
    generalize matchesAppend e1 st.ml _ = r1 at hc
    generalize matchesAppend e2 st'.ml _ = r2 at hc
    obtain ⟨ml1, f1⟩ := r1
    obtain ⟨ml2, f2⟩ := r2
    obtain ⟨hc1, hc2⟩ := hc
    dsimp only at hc1 hc2 ⊢
    subst hc2
    have hs : ∀ (l : MatchList), eraseKV (l.dropLast ++ (l.getLast?.map fun m => { m with key := some key, val := some val }).toList) = eraseKV l :=
      fun l => eraseKV_setLast l _ (fun _ => rfl)
    cases f1 with
    | true => exact ⟨rfl, hc1, h.2⟩
    | false =>
      cases e1.dryrun <;> cases e2.dryrun <;> refine ⟨rfl, ?_, h.2⟩ <;> simp only [Bool.false_eq_true, ↓reduceIte, hs, hc1]

theorem rsim_cases {r r' : Tri × St} (h : RSim r r') :
    ∃ ev st1 st1', r = (ev, st1) ∧ r' = (ev, st1') ∧ Sim st1 st1' := by
  obtain ⟨ev, st1⟩ := r
  obtain ⟨ev', st1'⟩ := r'
  obtain ⟨h1, h2⟩ := h
  dsimp only at h1
  subst h1
  exact ⟨_, _, _, rfl, rfl, h2⟩

theorem loop_sim {e1 e2 : Env} (root : Msg) (e : Expr)
    (ih : ∀ (part : Nat) (m : Msg) (st st' : St), Sim st st' → RSim (eval e1 root e part m st) (eval e2 root e part m st'))
    (part : Nat) (ps : List Msg) :
    ∀ (i : Nat) (st st' : St), Sim st st' → RSim (eval.loop e1 root e part ps i st) (eval.loop e2 root e part ps i st') := by
  induction ps with
  | nil => intro i st st' h; simp only [eval.loop]; exact ⟨rfl, h⟩
  | cons p rest ihp =>
    intro i st st' h
    simp only [eval.loop]
    obtain ⟨ev, s1, s1', h1, h2, hs⟩ := rsim_cases (ih (if part == 0 then i + 1 else part) p st st' h)
    rw [h1, h2]
    cases ev
    · exact ⟨rfl, hs⟩
    · exact ihp (i + 1) s1 s1' hs
    · exact ⟨rfl, hs⟩

theorem loopB_sim {e1 e2 : Env} (root : Msg) (e : Expr)
    (ih : ∀ (part : Nat) (m : Msg) (st st' : St), Sim st st' → RSim (eval e1 root e part m st) (eval e2 root e part m st'))
    (part : Nat) (ps : List Msg) :
    ∀ (i : Nat) (ev : Tri) (st st' : St), Sim st st' →
      RSim (eval.loopB e1 root e part ps i ev st) (eval.loopB e2 root e part ps i ev st') := by
  induction ps with
  | nil => intro i ev st st' h; simp only [eval.loopB]; exact ⟨rfl, h⟩
  | cons p rest ihp =>
    intro i ev0 st st' h
    simp only [eval.loopB]
    obtain ⟨ev, s1, s1', h1, h2, hs⟩ := rsim_cases (ih (if part == 0 then i + 1 else part) p st st' h)
    rw [h1, h2]
    cases ev
    · exact ihp (i + 1) .match s1 s1' hs
    · exact ihp (i + 1) ev0 s1 s1' hs
    · exact ⟨rfl, hs⟩

def ORSim : Option (Tri × St) → Option (Tri × St) → Prop
  | none, none => True
  | some r, some r' => RSim r r'
  | _, _ => False

theorem values_sim {e1 e2 : Env} (ha : EnvAgree e1 e2) (lno : Nat) (p : Pat) (part : Nat) (k : Bytes) (vs : List Bytes) :
    ∀ (st st' : St), Sim st st' →
      ORSim (eval.keys.values e1 lno p part k vs st) (eval.keys.values e2 lno p part k vs st') := by
  induction vs with
  | nil => intro st st' h; simp only [eval.keys.values]; trivial
  | cons v more ihv =>
    intro st st' h
    simp only [eval.keys.values]
    obtain ⟨ev, s1, s1', h1, h2, hs⟩ := rsim_cases (exprRegexec_sim ha .header lno part p k v h)
    rw [h1, h2]
    cases ev
    · exact ⟨rfl, hs⟩
    · exact ihv s1 s1' hs
    · exact ⟨rfl, hs⟩

theorem keys_sim {e1 e2 : Env} (ha : EnvAgree e1 e2) (lno : Nat) (p : Pat) (part : Nat) (m : Msg) (ks : List Bytes) :
    ∀ (st st' : St), Sim st st' →
      RSim (eval.keys e1 lno p part m ks st) (eval.keys e2 lno p part m ks st') := by
  induction ks with
  | nil => intro st st' h; simp only [eval.keys]; exact ⟨rfl, h⟩
  | cons k rest ihk =>
    intro st st' h
    simp only [eval.keys]
    cases getHeader m k with
    | none => exact ihk st st' h
    | some vals =>
      dsimp only
      have hv := values_sim ha lno p part k vals st st' h
      generalize eval.keys.values e1 lno p part k vals st = o1 at hv
      generalize eval.keys.values e2 lno p part k vals st' = o2 at hv
      cases o1 <;> cases o2
      · exact ihk st st' h
      · exact hv.elim
      · exact hv.elim
      · exact hv

theorem eval_sim {e1 e2 : Env} (ha : EnvAgree e1 e2) (root : Msg) (e : Expr) :
    ∀ (part : Nat) (m : Msg) (st st' : St), Sim st st' →
      RSim (eval e1 root e part m st) (eval e2 root e part m st') := by
  induction e with
  | block lno e ih =>
    intro part m st st' h
    simp only [eval]
    obtain ⟨ev, s1, s1', h1, h2, hs⟩ := rsim_cases (ih part m st st' h)
    rw [h1, h2]
    have hpost : ∀ ev : Tri, RSim
        (if (matchesFind s1.ml .brk).isSome then
          (Tri.nomatch, { s1 with ml := (matchesRemove s1.ml .brk).1 })
        else if (matchesFind s1.ml .pass).isSome then
          (if (matchesRemove s1.ml .pass).2 == 0 then Tri.nomatch else Tri.match, { s1 with ml := (matchesRemove s1.ml .pass).1 })
        else (ev, s1))
        (if (matchesFind s1'.ml .brk).isSome then
          (Tri.nomatch, { s1' with ml := (matchesRemove s1'.ml .brk).1 })
        else if (matchesFind s1'.ml .pass).isSome then
          (if (matchesRemove s1'.ml .pass).2 == 0 then Tri.nomatch else Tri.match, { s1' with ml := (matchesRemove s1'.ml .pass).1 })
        else (ev, s1')) := by
      intro ev
      rw [matchesFind_isSome_congr hs.1 .brk, matchesFind_isSome_congr hs.1 .pass]
      by_cases hb : (matchesFind s1'.ml .brk).isSome = true
      · simp only [hb, ↓reduceIte]
        exact ⟨rfl, (matchesRemove_congr hs.1 .brk).1, hs.2⟩
      · simp only [hb, Bool.false_eq_true, ↓reduceIte]
        by_cases hp : (matchesFind s1'.ml .pass).isSome = true
        · simp only [hp, ↓reduceIte]
          refine ⟨?_, (matchesRemove_congr hs.1 .pass).1, hs.2⟩
          simp only [(matchesRemove_congr hs.1 .pass).2]
        · simp only [hp, Bool.false_eq_true, ↓reduceIte]
          exact ⟨rfl, hs⟩
    cases ev
    · exact hpost .match
    · exact hpost .nomatch
    · exact ⟨rfl, hs⟩
  | and lno l r ihl ihr =>
    intro part m st st' h
    simp only [eval]
    obtain ⟨ev, s1, s1', h1, h2, hs⟩ := rsim_cases (ihl part m st st' h)
    rw [h1, h2]
    cases ev
    · exact ihr part m s1 s1' hs
    · exact ⟨rfl, hs⟩
    · exact ⟨rfl, hs⟩
  | or lno l r ihl ihr =>
    intro part m st st' h
    simp only [eval]
    obtain ⟨ev, s1, s1', h1, h2, hs⟩ := rsim_cases (ihl part m st st' h)
    rw [h1, h2]
    cases ev
    · exact ⟨rfl, hs⟩
    · exact ihr part m s1 s1' hs
    · exact ⟨rfl, hs⟩
  | neg lno e ih =>
    intro part m st st' h
    simp only [eval]
    obtain ⟨ev, s1, s1', h1, h2, hs⟩ := rsim_cases (ih part m st st' h)
    rw [h1, h2, length_congr h.1]
    cases ev
    · exact ⟨rfl, take_congr hs.1 _, hs.2⟩
    · exact ⟨rfl, hs⟩
    · exact ⟨rfl, hs⟩
  | mtch lno c rhs ihc ihr =>
    intro part m st st' h
    simp only [eval]
    have hc := matchesAppend_congr ha h.1 { ty := .mtch, lno := lno, part := part }
    generalize matchesAppend e1 st.ml _ = r1 at hc
    generalize matchesAppend e2 st'.ml _ = r2 at hc
    obtain ⟨ml1, f1⟩ := r1
    obtain ⟨ml2, f2⟩ := r2
    obtain ⟨hc1, hc2⟩ := hc
    dsimp only at hc1 hc2 ⊢
    subst hc2
    cases f1
    · simp only [Bool.false_eq_true, ↓reduceIte]
      obtain ⟨ev, s1, s1', h1, h2, hs⟩ := rsim_cases (ihc part m { st with ml := ml1 } { st' with ml := ml2 } ⟨hc1, h.2⟩)
      rw [h1, h2]
      cases ev
      · exact ihr part m s1 s1' hs
      · exact ⟨rfl, hs⟩
      · exact ⟨rfl, hs⟩
    · simp only [↓reduceIte]
      exact ⟨rfl, hc1, h.2⟩
  | all lno => intro part m st st' h; simp only [eval]; exact ⟨rfl, h⟩
  | attachment lno e ih =>
    intro part m st st' h
    simp only [eval]
    cases getAttachments m with
    | none => exact ⟨rfl, h⟩
    | some parts => exact loop_sim root e ih part parts 0 st st' h
  | attBlock lno e ih =>
    intro part m st st' h
    simp only [eval]
    cases getAttachments m with
    | none => exact ⟨rfl, h⟩
    | some parts => exact loopB_sim root e ih part parts 0 .nomatch st st' h
  | body lno p =>
    intro part m st st' h
    simp only [eval]
    cases getBody m with
    | none => exact ⟨rfl, h⟩
    | some b => exact exprRegexec_sim ha .body lno part p _ b h
  | date lno field cmp age =>
    intro part m st st' h
    have tail : ∀ (tim : Int) (date : Bytes), RSim
        (if (!dateMatches cmp (↑age) e2.now tim) = true then (Tri.nomatch, st)
          else exprRegexec e1 MType.date lno part { src := [46, 42] } (ofString "Date") date st)
        (if (!dateMatches cmp (↑age) e2.now tim) = true then (Tri.nomatch, st')
          else exprRegexec e2 MType.date lno part { src := [46, 42] } (ofString "Date") date st') := by
      intro tim date
      by_cases hd : (!dateMatches cmp (↑age) e2.now tim) = true
      · simp only [hd, ↓reduceIte]; exact ⟨rfl, h⟩
      · simp only [hd, Bool.false_eq_true, ↓reduceIte]
        exact exprRegexec_sim ha .date lno part _ _ _ h
    cases field <;> simp only [eval] <;> rw [ha.now]
    · rw [ha.strptime, ha.zoneName]
      cases getHeader1 m (ofString "Date") with
      | none => exact ⟨rfl, h⟩
      | some d =>
        dsimp only
        cases timeParse e2.strptime e2.zoneName d with
        | none => exact ⟨rfl, h⟩
        | some t => exact tail t d
    all_goals
      rw [ha.fileTime, ha.timeFormat, ha.path]
      rcases e2.fileTime _ with _ | sb
      · exact ⟨rfl, h⟩
      · dsimp only
        rcases e2.timeFormat _ with _ | s
        · exact ⟨rfl, h⟩
        · exact tail _ s
  | header lno names p =>
    intro part m st st' h
    simp only [eval]
    exact keys_sim ha lno p part m names st st' h
  | new lno =>
    intro part m st st' h
    simp only [eval]
    rw [ha.path]
    exact ⟨rfl, h⟩
  | old lno =>
    intro part m st st' h
    simp only [eval]
    rw [ha.path, h.2]
    by_cases hf : flagsIsSet (if (part == 0) = true then st'.flags else MFlags.empty) 83 = true
    · simp only [hf, ↓reduceIte]; exact ⟨rfl, h⟩
    · simp only [hf, Bool.false_eq_true, ↓reduceIte]; exact ⟨rfl, h⟩
  | stat lno path =>
    intro part m st st' h
    simp only [eval]
    have hc := matchesAppend_congr ha h.1 { ty := .stat, lno := lno, part := part, strings := [path] }
    generalize matchesAppend e1 st.ml _ = r1 at hc
    generalize matchesAppend e2 st'.ml _ = r2 at hc
    obtain ⟨ml1, f1⟩ := r1
    obtain ⟨ml2, f2⟩ := r2
    obtain ⟨hc1, hc2⟩ := hc
    dsimp only at hc1 hc2 ⊢
    subst hc2
    refine ⟨?_, dropLast_congr hc1, h.2⟩
    simp only [interpolate_congr (dropLast_congr hc1), ha.isDir]
  | command lno argv =>
    intro part m st st' h
    simp only [eval]
    have hc := matchesAppend_congr ha h.1 { ty := .command, lno := lno, part := part, strings := argv }
    generalize matchesAppend e1 st.ml _ = r1 at hc
    generalize matchesAppend e2 st'.ml _ = r2 at hc
    obtain ⟨ml1, f1⟩ := r1
    obtain ⟨ml2, f2⟩ := r2
    obtain ⟨hc1, hc2⟩ := hc
    dsimp only at hc1 hc2 ⊢
    subst hc2
    refine ⟨?_, dropLast_congr hc1, h.2⟩
    have : interpolate ml1.dropLast none = interpolate ml2.dropLast none :=
      funext fun s => interpolate_congr (dropLast_congr hc1) none s
    simp only [this, ha.command]
  | move lno path =>
    intro part m st st' h
    simp only [eval]
    cases strlcpyFits PATH_MAX path with
    | none => exact ⟨rfl, h⟩
    | some p => exact exprAppend_sim ha _ h _
  | flag lno subdir =>
    intro part m st st' h
    simp only [eval]
    cases strlcpyFits NAME_MAX1 subdir with
    | none => exact ⟨rfl, h⟩
    | some p => exact exprAppend_sim ha _ h _
  | flags lno fl =>
    intro part m st st' h
    simp only [eval]
    rw [h.2]
    generalize eval.setAll fl st'.flags false = r
    obtain ⟨mf, err⟩ := r
    dsimp only
    cases err
    · simp only [Bool.false_eq_true, ↓reduceIte]
      have hs : Sim { st with flags := mf } { st' with flags := mf } := ⟨h.1, rfl⟩
      exact exprAppend_sim ha _ hs _
    · simp only [↓reduceIte]
      exact ⟨rfl, h.1, rfl⟩
  | discard lno => intro part m st st' h; simp only [eval]; exact exprAppend_sim ha _ h _
  | brk lno => intro part m st st' h; simp only [eval]; exact exprAppend_sim ha _ h _
  | label lno ls => intro part m st st' h; simp only [eval]; exact exprAppend_sim ha _ h _
  | pass lno => intro part m st st' h; simp only [eval]; exact exprAppend_sim ha _ h _
  | reject lno => intro part m st st' h; simp only [eval]; exact exprAppend_sim ha _ h _
  | exec lno si bo argv => intro part m st st' h; simp only [eval]; exact exprAppend_sim ha _ h _
  | addHeader lno k v => intro part m st st' h; simp only [eval]; exact exprAppend_sim ha _ h _

theorem envAgree_flip (env : Env) : EnvAgree (flipDry env) env := ⟨rfl, rfl, rfl, rfl, rfl, rfl, rfl, rfl, rfl⟩

theorem dryrun_same (env : Env) (root : Msg) (e : Expr) (part : Nat) (m : Msg) (st : St) :
    (eval (flipDry env) root e part m st).1 = (eval env root e part m st).1 ∧
    eraseKV (eval (flipDry env) root e part m { st with ml := eraseKV st.ml }).2.ml = eraseKV (eval env root e part m st).2.ml ∧
    (eval (flipDry env) root e part m st).2.flags = (eval env root e part m st).2.flags := by
  have ha := envAgree_flip env
  have h1 := eval_sim ha root e part m st st ⟨rfl, rfl⟩
  have h2 := eval_sim ha root e part m { st with ml := eraseKV st.ml } st ⟨eraseKV_idem _, rfl⟩
  exact ⟨h1.1, h2.2.1, h1.2.2⟩

end Insp

/-- Evaluation does not depend on the dry-run option, except that a dry run records key and value of
each pattern match for display: same result, same entries (types, lines, parts, destinations,
captures), same flag state. -/
theorem eval_dryrun_same (env : Env) (root : Msg) (e : Expr) (part : Nat) (m : Msg) (st : St) :
    (eval (flipDry env) root e part m st).1 = (eval env root e part m st).1 ∧
    eraseKV (eval (flipDry env) root e part m { st with ml := eraseKV st.ml }).2.ml = eraseKV (eval env root e part m st).2.ml ∧
    (eval (flipDry env) root e part m st).2.flags = (eval env root e part m st).2.flags :=
  Insp.dryrun_same env root e part m st

/-- The `-> destination` lines of `matches_inspect` are, in order, exactly the action entries of the
list - the entries `matches_exec` iterates over: one line per action entry, naming its label or
its interpolated destination path. -/
def destLines (stdinMode : Bool) (path : Bytes) (ml : MatchList) : List Bytes :=
  (ml.filter (·.ty.isAction)).map fun mh =>
    (if stdinMode then ofString "<stdin>" else path) ++ ofString " -> " ++
      (match mh.ty.info.label with
       | some l => l.toUTF8.toList
       | none => mh.path) ++ [10]

namespace Insp

theorem inspect_go_false (width : Bytes → Nat → Nat) (home confpath : Bytes) (stdinMode : Bool) (path : Bytes)
    (rest pending : MatchList) (out : Bytes) :
    matchesInspect.go width home confpath stdinMode false path rest pending out =
      out ++ (destLines stdinMode path rest).flatten := by
  induction rest generalizing pending out with
  | nil => simp [matchesInspect.go, destLines]
  | cons mh more ih =>
    unfold matchesInspect.go
    by_cases h : mh.ty.isAction = true
    · simp [h, ih, destLines]; try (cases mh.ty.info.label <;> rfl)
    · simp [h, ih, destLines]; try (cases mh.ty.info.label <;> rfl)

theorem lines_are_actions (width : Bytes → Nat → Nat) (home confpath : Bytes) (stdinMode : Bool) (path : Bytes) (ml : MatchList) :
    matchesInspect width home confpath stdinMode false path ml = (destLines stdinMode path ml).flatten := by
  unfold matchesInspect
  rw [inspect_go_false]; simp

end Insp

theorem inspect_lines_are_actions (width : Bytes → Nat → Nat) (home confpath : Bytes) (stdinMode : Bool) (path : Bytes) (ml : MatchList) :
    matchesInspect width home confpath stdinMode false path ml = (destLines stdinMode path ml).flatten :=
  Insp.lines_are_actions width home confpath stdinMode path ml

/-! Marker columns for one explanation line: for a value `val`, a non-empty match `[beg, end)` that does
not begin inside the leading blanks of its line and does not begin at a newline, the text printed is:
the prefix, the line of `val` containing `beg` without its leading blanks, and a marker line in which
`^` stands in the display column of the first matched byte and `$` in the column of the last matched
character (directly after `^` for a match of width 1), for EVERY width function (`width str len` stands for
`strnwidth(str, len)`, see Model/Inspect.lean): the number of blanks before `^` is the BYTE length of the prefix
`conf:lno: key: ` plus the width of the quoted text before the match.  That this is the display column of the first
matched character - the prefix consists of one-column one-byte characters - is `marker_display_columns` below. -/

/-- The line of `val` that contains offset `beg`: text after the last newline before `beg`, up to the next newline. -/
def lineOf (val : Bytes) (beg : Nat) : Bytes × Nat :=
  let before := val.take beg
  let start := beg - (before.reverse.takeWhile (· != 10)).length
  ((val.drop start).takeWhile (· != 10), start)

/-! ### Helper lemmas for `marker_columns`: `lineStart` computes `(lineOf val beg).2`; leading blanks. -/
namespace Insp

theorem findIdx?_none_all {α} (p : α → Bool) (l : List α) (h : l.findIdx? p = none) : ∀ x ∈ l, p x = false := by
  induction l with
  | nil => intro x hx; cases hx
  | cons a r ih =>
    rw [List.findIdx?_cons] at h
    by_cases ha : p a = true
    · simp [ha] at h
    · simp only [ha, Bool.false_eq_true, ↓reduceIte, Option.map_eq_none_iff] at h
      intro x hx
      rcases List.mem_cons.1 hx with rfl | hx
      · simpa using ha
      · exact ih h x hx

theorem findIdx?_some_split {α} (p : α → Bool) (l : List α) (k : Nat) (h : l.findIdx? p = some k) :
    ∃ A x B, l = A ++ x :: B ∧ A.length = k ∧ p x = true ∧ ∀ a ∈ A, p a = false := by
  induction l generalizing k with
  | nil => simp at h
  | cons a r ih =>
    rw [List.findIdx?_cons] at h
    by_cases ha : p a = true
    · simp only [ha, ↓reduceIte, Option.some.injEq] at h
      exact ⟨[], a, r, rfl, by simpa using h, ha, by simp⟩
    · simp only [ha, Bool.false_eq_true, ↓reduceIte, Option.map_eq_some_iff] at h
      obtain ⟨k', hk', rfl⟩ := h
      obtain ⟨A, x, B, rfl, hA, hx, hall⟩ := ih k' hk'
      refine ⟨a :: A, x, B, rfl, by simp [hA], hx, ?_⟩
      intro b hb
      rcases List.mem_cons.1 hb with rfl | hb
      · simpa using ha
      · exact hall b hb

theorem takeWhile_all {α} (p : α → Bool) (l : List α) (h : ∀ x ∈ l, p x = true) : l.takeWhile p = l := by
  induction l with
  | nil => rfl
  | cons a r ih =>
    rw [List.takeWhile_cons, h a (List.mem_cons_self ..)]
    simp only [↓reduceIte]
    rw [ih (fun x hx => h x (List.mem_cons_of_mem _ hx))]

theorem takeWhile_append_stop {α} (p : α → Bool) (a : List α) (x : α) (b : List α) (hx : p x = false) :
    (a ++ x :: b).takeWhile p = a.takeWhile p := by
  induction a with
  | nil => simp [hx]
  | cons c r ih =>
    simp only [List.cons_append, List.takeWhile_cons, ih]

theorem lineStart_gen (val : Bytes) (beg : Nat) (hb : beg < val.length) (hnl : val[beg]? ≠ some 10) :
    ∀ (fuel lbeg : Nat), lbeg ≤ beg → val.length < fuel + lbeg →
      lineStart val beg fuel lbeg =
        beg - (((val.take beg).drop lbeg).reverse.takeWhile (· != 10)).length := by
  intro fuel
  induction fuel with
  | zero => intro lbeg h1 h2; omega
  | succ n ih =>
    intro lbeg h1 h2
    have hseg : (val.take beg).drop lbeg = (val.drop lbeg).take (beg - lbeg) := by
      rw [List.drop_take]
    unfold lineStart
    cases hf : (val.drop lbeg).findIdx? (· == 10) with
    | none =>
      dsimp only
      have hall := findIdx?_none_all _ _ hf
      rw [hseg, takeWhile_all]
      · simp; omega
      · intro x hx
        have := hall x (List.mem_of_mem_take (List.mem_reverse.1 hx))
        simpa using this
    | some k =>
      dsimp only
      obtain ⟨A, x, B, hAB, hA, hx, hall⟩ := findIdx?_some_split _ _ _ hf
      have hx10 : x = 10 := by simpa using hx
      subst hx10
      by_cases hgt : lbeg + k > beg
      · simp only [hgt, ↓reduceIte]
        rw [hseg, hAB, List.take_append_of_le_length (by omega), takeWhile_all]
        · simp; omega
        · intro x hx
          have := hall x (List.mem_of_mem_take (List.mem_reverse.1 hx))
          simpa using this
      · simp only [hgt, ↓reduceIte]
        have hk : val[lbeg + k]? = some 10 := by
          have : (val.drop lbeg)[k]? = some 10 := by rw [hAB]; simp [← hA]
          simpa using this
        have hne : lbeg + k ≠ beg := by
          intro he; rw [he] at hk; exact hnl hk
        rw [ih (lbeg + k + 1) (by omega) (by omega)]
        have hB : val.drop (lbeg + k + 1) = B := by
          have : (val.drop lbeg).drop (k + 1) = B := by rw [hAB, ← hA]; simp
          rw [← this, List.drop_drop, Nat.add_assoc]
        have e1 : (val.take beg).drop (lbeg + k + 1) = B.take (beg - (lbeg + k + 1)) := by
          rw [List.drop_take, hB]
        have e2 : (val.take beg).drop lbeg = A ++ 10 :: B.take (beg - (lbeg + k + 1)) := by
          rw [hseg, hAB, List.take_append, hA]
          have : beg - lbeg - k = (beg - (lbeg + k + 1)) + 1 := by omega
          rw [this, List.take_succ_cons, List.take_of_length_le (by omega)]
        rw [e1, e2, List.reverse_append, List.reverse_cons, List.append_assoc, List.singleton_append,
          takeWhile_append_stop _ _ _ _ (by simp)]

theorem lineStart_eq (val : Bytes) (beg : Nat) (hb : beg < val.length) (hnl : val[beg]? ≠ some 10) :
    lineStart val beg (val.length + 1) 0 = (lineOf val beg).2 := by
  rw [lineStart_gen val beg hb hnl _ 0 (Nat.zero_le _) (by omega)]
  simp [lineOf]

theorem isblank_ne_nl (a : UInt8) (h : isblank a = true) : (a != 10) = true := by
  unfold isblank at h
  rcases Bool.or_eq_true_iff.1 h with h | h <;> (have := eq_of_beq h; subst this; decide)

theorem nspaces_takeWhile (l : Bytes) : nspaces (l.takeWhile (· != 10)) = nspaces l := by
  unfold nspaces
  congr 1
  induction l with
  | nil => rfl
  | cons a r ih =>
    by_cases ha : (a != 10) = true
    · simp only [List.takeWhile_cons, ha, ↓reduceIte, ih]
    · have hb : isblank a = false := by
        cases hb : isblank a with
        | false => rfl
        | true => exact absurd (isblank_ne_nl a hb) ha
      simp [ha, hb]

theorem drop_nspaces_takeWhile (l : Bytes) :
    (l.drop (nspaces l)).takeWhile (· != 10) = (l.takeWhile (· != 10)).drop (nspaces l) := by
  induction l with
  | nil => rfl
  | cons a r ih =>
    by_cases hb : isblank a = true
    · have hn : nspaces (a :: r) = nspaces r + 1 := by simp [nspaces, hb]
      rw [hn, List.drop_succ_cons, List.takeWhile_cons, isblank_ne_nl a hb]
      simp only [↓reduceIte, List.drop_succ_cons]
      exact ih
    · have hn : nspaces (a :: r) = 0 := by simp [nspaces, hb]
      rw [hn]; rfl

theorem marker_cols (width : Bytes → Nat → Nat) (home confpath : Bytes) (mh : Match) (key val : Bytes)
    (beg end_ : Nat) (s : Bytes)
    (hins : mh.ty.isInspect = true) (hk : mh.key = some key) (hv : mh.val = some val)
    (hsub : mh.subs = [{ str := s, off := some (beg, end_) }])
    (hne : beg < end_) (hle : end_ ≤ val.length) (hnl : val[beg]? ≠ some 10)
    (hlead : (lineOf val beg).2 + nspaces (lineOf val beg).1 ≤ beg) :
    let line := (lineOf val beg).1
    let lstart := (lineOf val beg).2
    let shown := line.drop (nspaces line)
    let pre := inspectPrefix home confpath mh.lno ++ key ++ [58, 32]
    let w := width (val.drop beg) (end_ - beg)
    exprInspect width home confpath mh =
      pre ++ shown ++ [10] ++
      spaces (inspectHeadWidth width home confpath mh.lno key +
        width (val.drop (lstart + nspaces line)) (beg - (lstart + nspaces line))) ++ [94] ++
      spaces (w - 2) ++ [36, 10] := by
  intro line lstart shown pre w
  have hl0 : lineStart val beg (val.length + 1) 0 = lstart := lineStart_eq val beg (by omega) hnl
  have hline : line = (val.drop lstart).takeWhile (· != 10) := rfl
  have hns : nspaces (val.drop lstart) = nspaces line := by rw [hline, nspaces_takeWhile]
  have hshown : (val.drop (lstart + nspaces line)).takeWhile (· != 10) = shown := by
    rw [← List.drop_drop, ← hns, drop_nspaces_takeWhile, hns]
    rfl
  have hlead' : lstart + nspaces line ≤ beg := hlead
  have hpre : pre = inspectPrefix home confpath mh.lno ++ key ++ [58, 32] := rfl
  have hw' : w = width (val.drop beg) (end_ - beg) := rfl
  clear_value shown pre w
  clear hline
  clear_value line lstart
  have hbne : (beg == end_) = false := by
    cases h : beg == end_ with
    | false => rfl
    | true => have := eq_of_beq h; omega
  have hlen : (if w ≥ 2 then w - 2 else 0) = w - 2 := by
    split <;> omega
  unfold exprInspect
  simp only [hins, hk, hv, hsub]
  unfold exprInspect.go
  simp only [Bool.not_true, Bool.false_eq_true, ↓reduceIte, hbne, exprInspect.go, hl0, hns, hshown, hlead',
    ← hw', hlen]
  rw [hpre, List.nil_append]
  rfl

end Insp

theorem marker_columns (width : Bytes → Nat → Nat) (home confpath : Bytes) (mh : Match) (key val : Bytes)
    (beg end_ : Nat) (s : Bytes)
    (hins : mh.ty.isInspect = true) (hk : mh.key = some key) (hv : mh.val = some val)
    (hsub : mh.subs = [{ str := s, off := some (beg, end_) }])
    (hne : beg < end_) (hle : end_ ≤ val.length) (hnl : val[beg]? ≠ some 10)
    (hlead : (lineOf val beg).2 + nspaces (lineOf val beg).1 ≤ beg) :
    let line := (lineOf val beg).1
    let lstart := (lineOf val beg).2
    let shown := line.drop (nspaces line)
    let pre := inspectPrefix home confpath mh.lno ++ key ++ [58, 32]
    let w := width (val.drop beg) (end_ - beg)
    exprInspect width home confpath mh =
      pre ++ shown ++ [10] ++
      spaces (inspectHeadWidth width home confpath mh.lno key +
        width (val.drop (lstart + nspaces line)) (beg - (lstart + nspaces line))) ++ [94] ++
      spaces (w - 2) ++ [36, 10] :=
  Insp.marker_cols width home confpath mh key val beg end_ s hins hk hv hsub hne hle hnl hlead


/-! ### Display columns: `strnwidth` is additive over text made of whole characters

Since fix 951a0f1 `expr_inspect` accounts for the head `conf:lno: key: ` in columns: the configuration path and the header
name are measured by `strnwidth`, the punctuation (`~`, `:`, the digits of the line number, the blanks) in bytes
(`inspectHeadWidth`).  The blanks before `^` are therefore the display width of everything printed before the first matched
byte whenever the path and the name are texts of whole characters (`Chars`: the decoding of each character does not depend on
what follows it) and the punctuation consists of one-byte one-column characters (`OneColumn`; ASCII in every locale). -/

/-- `c` is a character of one byte and one column wherever it stands. -/
def OneColumn (mb : Bytes → Option (Nat × Nat)) (wcw : Nat → Int) (c : UInt8) : Prop :=
  ∀ rest, ∃ wc, mb (c :: rest) = some (1, wc) ∧ wcw wc = 1

/-- `a` is a text of whole characters for `mb`: it splits into bytes that `mbtowc` rejects and characters `mbtowc` decodes,
each with the same answer whatever follows the text. -/
inductive Chars (mb : Bytes → Option (Nat × Nat)) : Bytes → Prop
  | nil : Chars mb []
  | invalid (c : UInt8) (rest : Bytes) : (∀ s, mb (c :: (rest ++ s)) = none) → Chars mb rest → Chars mb (c :: rest)
  | char (ch rest : Bytes) (n wc : Nat) : ch.length = n + 1 → (∀ s, mb (ch ++ (rest ++ s)) = some (n + 1, wc)) →
      Chars mb rest → Chars mb (ch ++ rest)

namespace Insp

theorem go_acc (mb : Bytes → Option (Nat × Nat)) (wcw : Nat → Int) :
    ∀ (fuel rem : Nat) (s : Bytes) (w : Nat),
      strnwidth.go mb wcw fuel rem s w = w + strnwidth.go mb wcw fuel rem s 0 := by
  intro fuel
  induction fuel with
  | zero => intro rem s w; simp [strnwidth.go]
  | succ n ih =>
    intro rem s w
    simp only [strnwidth.go]
    by_cases hr : (rem == 0) = true
    · simp [hr]
    · simp only [hr, Bool.false_eq_true, ↓reduceIte]
      cases hm : mb s with
      | none =>
        dsimp only
        rw [ih _ _ (w + 1), ih _ _ (0 + 1)]; omega
      | some p =>
        obtain ⟨k, wc⟩ := p
        cases k with
        | zero => simp
        | succ k =>
          dsimp only
          rw [ih _ _ (w + _), ih _ _ (0 + _)]; omega

/-- More fuel than bytes to look at changes nothing. -/
theorem go_fuel (mb : Bytes → Option (Nat × Nat)) (wcw : Nat → Int) :
    ∀ (fuel rem : Nat) (s : Bytes) (w : Nat), rem ≤ fuel →
      strnwidth.go mb wcw fuel rem s w = strnwidth.go mb wcw rem rem s w := by
  intro fuel
  induction fuel using Nat.strongRecOn with
  | _ fuel ih =>
    intro rem s w h
    cases fuel with
    | zero => have : rem = 0 := by omega
              subst this; rfl
    | succ n =>
      cases rem with
      | zero => simp [strnwidth.go]
      | succ r =>
        simp only [strnwidth.go]
        have hr : (r + 1 == 0) = false := by
          cases hh : (r + 1 == 0) with
          | false => rfl
          | true => have := eq_of_beq hh; omega
        simp only [hr, Bool.false_eq_true, ↓reduceIte]
        cases hm : mb s with
        | none =>
          dsimp only
          have : r + 1 - 1 = r := by omega
          rw [this, ih n (by omega) _ _ _ (by omega)]
        | some p =>
          obtain ⟨k, wc⟩ := p
          cases k with
          | zero => rfl
          | succ k =>
            dsimp only
            rw [ih n (by omega) _ _ _ (by omega), ih r (by omega) _ _ _ (by omega)]

end Insp

/-- One round of the loop of `strnwidth`. -/
theorem strnwidth_step (mb : Bytes → Option (Nat × Nat)) (wcw : Nat → Int) (t : Bytes) (m : Nat) :
    strnwidth mb wcw t (m + 1) =
      match mb t with
      | none => 1 + strnwidth mb wcw (t.drop 1) m
      | some (0, _) => 0
      | some (n + 1, wc) => (wcw wc).toNat + strnwidth mb wcw (t.drop (n + 1)) (m + 1 - (n + 1)) := by
  unfold strnwidth
  simp only [strnwidth.go]
  have hr : (m + 1 == 0) = false := by
    cases hh : (m + 1 == 0) with
    | false => rfl
    | true => have := eq_of_beq hh; omega
  simp only [hr, Bool.false_eq_true, ↓reduceIte]
  cases hm : mb t with
  | none =>
    dsimp only
    have : m + 1 - 1 = m := by omega
    rw [this, Insp.go_acc]
  | some p =>
    obtain ⟨k, wc⟩ := p
    cases k with
    | zero => rfl
    | succ k =>
      dsimp only
      rw [Insp.go_acc, Insp.go_fuel mb wcw m _ _ _ (by omega)]
      simp

/-- **`strnwidth` is additive after a text of whole characters**: the width of the first `|a| + k` bytes of `a ++ s` is the
width of `a` plus the width of the first `k` bytes of `s`. -/
theorem strnwidth_chars (mb : Bytes → Option (Nat × Nat)) (wcw : Nat → Int) (a : Bytes) (h : Chars mb a) :
    ∀ (s : Bytes) (k : Nat), strnwidth mb wcw (a ++ s) (a.length + k) = strnwidth mb wcw a a.length + strnwidth mb wcw s k := by
  induction h with
  | nil => intro s k; simp [strnwidth, strnwidth.go]
  | invalid c rest hmb _ ih =>
    intro s k
    have e1 : (c :: rest).length + k = (rest.length + k) + 1 := by simp only [List.length_cons]; omega
    have e2 : (c :: rest).length = rest.length + 1 := by simp
    have h0 := hmb []
    rw [List.append_nil] at h0
    rw [e1, List.cons_append, strnwidth_step, hmb s, e2, strnwidth_step, h0]
    dsimp only
    rw [List.drop_succ_cons, List.drop_zero, List.drop_succ_cons, List.drop_zero, ih s k, Nat.add_assoc]
  | char ch rest n wc hlen hmb _ ih =>
    intro s k
    have e1 : (ch ++ rest).length + k = (n + rest.length + k) + 1 := by simp only [List.length_append, hlen]; omega
    have e2 : (ch ++ rest).length = (n + rest.length) + 1 := by simp only [List.length_append, hlen]; omega
    have h0 := hmb []
    rw [List.append_nil] at h0
    have d1 : List.drop (n + 1) (ch ++ (rest ++ s)) = rest ++ s := by
      rw [← hlen]; exact List.drop_left ..
    have d2 : List.drop (n + 1) (ch ++ rest) = rest := by
      rw [← hlen]; exact List.drop_left ..
    rw [e1, List.append_assoc, strnwidth_step, hmb s, e2, strnwidth_step, h0]
    dsimp only
    have a1 : n + rest.length + k + 1 - (n + 1) = rest.length + k := by omega
    have a2 : n + rest.length + 1 - (n + 1) = rest.length := by omega
    rw [d1, d2, a1, a2, ih s k, Nat.add_assoc]

namespace Insp

theorem go_prefix (mb : Bytes → Option (Nat × Nat)) (wcw : Nat → Int) (s : Bytes) (k : Nat) :
    ∀ (pre : Bytes) (fuel : Nat), (∀ c ∈ pre, OneColumn mb wcw c) →
      strnwidth.go mb wcw (pre.length + fuel) (pre.length + k) (pre ++ s) 0 =
        pre.length + strnwidth.go mb wcw fuel k s 0 := by
  intro pre
  induction pre with
  | nil => intro fuel _; simp
  | cons c r ih =>
    intro fuel h
    obtain ⟨wc, hmb, hw⟩ := h c (List.mem_cons_self ..) (r ++ s)
    have e1 : (c :: r).length + fuel = (r.length + fuel) + 1 := by simp only [List.length_cons]; omega
    have e2 : ((c :: r).length + k == 0) = false := by
      cases hh : ((c :: r).length + k == 0) with
      | false => rfl
      | true => have := eq_of_beq hh; simp only [List.length_cons] at this; omega
    rw [e1]
    simp only [strnwidth.go, e2, Bool.false_eq_true, ↓reduceIte, List.cons_append, hmb, hw]
    rw [go_acc]
    have e3 : (c :: r).length + k - (0 + 1) = r.length + k := by simp only [List.length_cons]; omega
    rw [e3]
    have e4 : List.drop (0 + 1) (c :: (r ++ s)) = r ++ s := rfl
    rw [e4, ih fuel (fun x hx => h x (List.mem_cons_of_mem _ hx))]
    simp only [List.length_cons]
    show 0 + (1 : Int).toNat + _ = _
    simp only [Int.toNat_one]; omega

end Insp

/-- Over a prefix of one-byte one-column characters `strnwidth` counts the bytes of the prefix. -/
theorem strnwidth_prefix (mb : Bytes → Option (Nat × Nat)) (wcw : Nat → Int) (pre s : Bytes) (k : Nat)
    (h : ∀ c ∈ pre, OneColumn mb wcw c) :
    strnwidth mb wcw (pre ++ s) (pre.length + k) = pre.length + strnwidth mb wcw s k := by
  unfold strnwidth
  exact Insp.go_prefix mb wcw s k pre k h

/-- The head `~ path :lno:  key : ` in front of any text: punctuation in bytes, path and key in columns. -/
theorem strnwidth_head (mb : Bytes → Option (Nat × Nat)) (wcw : Nat → Int) (t p l key e s : Bytes) (k : Nat)
    (ht : ∀ c ∈ t, OneColumn mb wcw c) (hp : Chars mb p) (hl : ∀ c ∈ l, OneColumn mb wcw c) (hk : Chars mb key)
    (he : ∀ c ∈ e, OneColumn mb wcw c) :
    strnwidth mb wcw (t ++ p ++ l ++ key ++ e ++ s) ((t ++ p ++ l ++ key ++ e).length + k) =
      t.length + strnwidth mb wcw p p.length + l.length + strnwidth mb wcw key key.length + e.length + strnwidth mb wcw s k := by
  have e1 : t ++ p ++ l ++ key ++ e ++ s = t ++ (p ++ (l ++ (key ++ (e ++ s)))) := by simp only [List.append_assoc]
  have e2 : (t ++ p ++ l ++ key ++ e).length + k = t.length + (p.length + (l.length + (key.length + (e.length + k)))) := by
    simp only [List.length_append]; omega
  rw [e1, e2, strnwidth_prefix mb wcw t _ _ ht, strnwidth_chars mb wcw p hp, strnwidth_prefix mb wcw l _ _ hl,
    strnwidth_chars mb wcw key hk, strnwidth_prefix mb wcw e _ _ he]
  omega

/-- **Display columns.**  For `width = strnwidth mb wcw` over ANY `mbtowc`/`wcwidth` (any locale; multibyte, wide and
zero-width characters in the value, in the configuration path and in the header name): when the path and the name are texts of
whole characters and the punctuation of the head (`~`, `:lno: `, `: `) consists of one-byte one-column characters, the number of
blanks before `^` is the display width of the first `|head| + (beg - lbeg)` bytes of the printed line (followed by the rest
of the value) - everything printed before the first matched byte. -/
theorem marker_display_columns (mb : Bytes → Option (Nat × Nat)) (wcw : Nat → Int) (home confpath : Bytes) (mh : Match)
    (key val : Bytes) (beg end_ : Nat) (s : Bytes)
    (hins : mh.ty.isInspect = true) (hk : mh.key = some key) (hv : mh.val = some val)
    (hsub : mh.subs = [{ str := s, off := some (beg, end_) }])
    (hne : beg < end_) (hle : end_ ≤ val.length) (hnl : val[beg]? ≠ some 10)
    (hlead : (lineOf val beg).2 + nspaces (lineOf val beg).1 ≤ beg)
    (hpunct : ∀ c ∈ (inspectPath home confpath).1 ++ inspectLno mh.lno ++ [58, 32], OneColumn mb wcw c)
    (hpath : Chars mb (inspectPath home confpath).2) (hkey : Chars mb key) :
    let line := (lineOf val beg).1
    let lstart := (lineOf val beg).2
    let shown := line.drop (nspaces line)
    let pre := inspectPrefix home confpath mh.lno ++ key ++ [58, 32]
    let w := strnwidth mb wcw (val.drop beg) (end_ - beg)
    exprInspect (strnwidth mb wcw) home confpath mh =
      pre ++ shown ++ [10] ++
      spaces (strnwidth mb wcw (pre ++ val.drop (lstart + nspaces line)) (pre.length + (beg - (lstart + nspaces line)))) ++ [94] ++
      spaces (w - 2) ++ [36, 10] := by
  intro line lstart shown pre w
  have hhead : ∀ (r : Bytes) (k : Nat), strnwidth mb wcw (pre ++ r) (pre.length + k) =
      inspectHeadWidth (strnwidth mb wcw) home confpath mh.lno key + strnwidth mb wcw r k := by
    intro r k
    have := strnwidth_head mb wcw (inspectPath home confpath).1 (inspectPath home confpath).2 (inspectLno mh.lno) key [58, 32] r k
      (fun c hc => hpunct c (by simp only [List.mem_append] at hc ⊢; exact Or.inl (Or.inl hc))) hpath
      (fun c hc => hpunct c (by simp only [List.mem_append] at hc ⊢; exact Or.inl (Or.inr hc))) hkey
      (fun c hc => hpunct c (by simp only [List.mem_append] at hc ⊢; exact Or.inr hc))
    show strnwidth mb wcw (inspectPrefix home confpath mh.lno ++ key ++ [58, 32] ++ r)
        ((inspectPrefix home confpath mh.lno ++ key ++ [58, 32]).length + k) = _
    unfold inspectPrefix
    rw [this]
    unfold inspectHeadWidth inspectPrefixWidth
    simp only [List.length_cons, List.length_nil]
    omega
  rw [hhead]
  exact marker_columns (strnwidth mb wcw) home confpath mh key val beg end_ s hins hk hv hsub hne hle hnl hlead

/-! A small `mbtowc`/`wcwidth` pair for evaluated examples: ASCII, U+00E9 (two bytes, one column), U+4E2D (three bytes,
two columns), U+0301 (two bytes, no column); every other byte >= 0x80 is an invalid sequence. -/
namespace markerWit

def mb : Bytes → Option (Nat × Nat)
  | [] => some (0, 0)
  | 0xE4 :: 0xB8 :: 0xAD :: _ => some (3, 0x4E2D)
  | 0xC3 :: 0xA9 :: _ => some (2, 0xE9)
  | 0xCC :: 0x81 :: _ => some (2, 0x301)
  | c :: _ => if c < 128 then some (1, c.toNat) else none

def wcw (wc : Nat) : Int :=
  if wc == 0x4E2D then 2 else if wc == 0x301 then 0 else if wc == 0xE9 then 1
  else if 32 ≤ wc && wc ≤ 126 then 1 else -1

/-- value `中é hi` + U+0301 + `!`, the pattern matched `hi` + U+0301 (bytes 6..10). -/
def val : Bytes := [0xE4, 0xB8, 0xAD, 0xC3, 0xA9, 32, 104, 105, 0xCC, 0x81, 33]
def entry (key : Bytes) : Match :=
  { ty := .header, lno := 2, part := 0, subs := [{ str := [104, 105, 0xCC, 0x81], off := some (6, 10) }],
    key := some key, val := some val }

theorem ascii (c : UInt8) (h : c < 128) (rest : Bytes) : mb (c :: rest) = some (1, c.toNat) := by
  unfold mb
  split
  · simp_all
  · rename_i h1; simp at h1; exact absurd h (by rw [h1.1]; decide)
  · rename_i h1; simp at h1; exact absurd h (by rw [h1.1]; decide)
  · rename_i h1; simp at h1; exact absurd h (by rw [h1.1]; decide)
  · rename_i h1; simp at h1; obtain ⟨rfl, _⟩ := h1; simp [h]

/-- A list of printable ASCII bytes consists of one-byte one-column characters. -/
theorem oneColumn (l : Bytes) (h : (l.all fun c => c < 128 && wcw c.toNat == 1) = true) : ∀ c ∈ l, OneColumn mb wcw c := by
  intro c hc rest
  have := List.all_eq_true.1 h c hc
  simp only [Bool.and_eq_true, decide_eq_true_eq, beq_iff_eq] at this
  exact ⟨c.toNat, ascii c this.1 rest, this.2⟩

/-- ASCII text is a text of whole characters. -/
theorem charsAscii (l : Bytes) (h : (l.all fun c => c < 128) = true) (tail : Bytes) (ht : Chars mb tail) : Chars mb (l ++ tail) := by
  induction l with
  | nil => exact ht
  | cons c r ih =>
    have hc := List.all_eq_true.1 h c (List.mem_cons_self ..)
    have hr : (r.all fun c => c < 128) = true :=
      List.all_eq_true.2 fun x hx => List.all_eq_true.1 h x (List.mem_cons_of_mem _ hx)
    exact Chars.char [c] (r ++ tail) 0 c.toNat rfl (fun s => ascii c (by simpa using hc) _) (ih hr)

theorem charsE9 (tail : Bytes) (ht : Chars mb tail) : Chars mb ([0xC3, 0xA9] ++ tail) :=
  Chars.char [0xC3, 0xA9] tail 1 0xE9 rfl (fun _ => rfl) ht

theorem chars4E2D (tail : Bytes) (ht : Chars mb tail) : Chars mb ([0xE4, 0xB8, 0xAD] ++ tail) :=
  Chars.char [0xE4, 0xB8, 0xAD] tail 2 0x4E2D rfl (fun _ => rfl) ht

end markerWit

end Mdsort.Proofs
