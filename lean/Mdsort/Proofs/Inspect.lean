import Mdsort.Model.Inspect

/-! Lemmas for C06: the dry run evaluates to the same plan as the real run; marker columns. -/

namespace Mdsort.Proofs
open Mdsort Mdsort.Model

/-- Forget the two fields that only a dry run fills in (`mh_key`, `mh_val`). -/
def eraseKV (ml : MatchList) : MatchList := ml.map fun m => { m with key := none, val := none }

/-- The same environment with the dry-run option flipped. -/
def flipDry (env : Env) : Env := { env with dryrun := !env.dryrun }

/-- Evaluation does not depend on the dry-run option, except that a dry run records key and value of
each pattern match for display: same result, same entries (types, lines, parts, destinations,
captures), same flag state. -/
theorem eval_dryrun_same (env : Env) (root : Msg) (e : Expr) (part : Nat) (m : Msg) (st : St) :
    (eval (flipDry env) root e part m st).1 = (eval env root e part m st).1 ∧
    eraseKV (eval (flipDry env) root e part m { st with ml := eraseKV st.ml }).2.ml = eraseKV (eval env root e part m st).2.ml ∧
    (eval (flipDry env) root e part m st).2.flags = (eval env root e part m st).2.flags := by
  sorry

/-- The `-> destination` lines of `matches_inspect` are, in order, exactly the action entries of the
list - the entries `matches_exec` iterates over: one line per action entry, naming its label or
its interpolated destination path. -/
def destLines (stdinMode : Bool) (path : Bytes) (ml : MatchList) : List Bytes :=
  (ml.filter (·.ty.isAction)).map fun mh =>
    (if stdinMode then ofString "<stdin>" else path) ++ ofString " -> " ++
      (match mh.ty.info.label with
       | some l => l.toUTF8.toList
       | none => mh.path) ++ [10]

theorem inspect_lines_are_actions (width : Bytes → Nat) (home confpath : Bytes) (stdinMode : Bool) (path : Bytes) (ml : MatchList) :
    matchesInspect width home confpath stdinMode false path ml = (destLines stdinMode path ml).flatten := by
  sorry

/-- Marker columns for one explanation line: for a value `val`, a non-empty match `[beg, end)` that does
not begin inside the leading blanks of its line and does not begin at a newline, the text printed is:
the prefix, the line of `val` containing `beg` without its leading blanks, and a marker line in which
`^` stands in the display column of the first matched byte and `$` in the column of the last matched
character (directly after `^` for a match of width 1), for every width function that is additive. -/
def Additive (width : Bytes → Nat) : Prop := ∀ a b, width (a ++ b) = width a + width b

/-- The line of `val` that contains offset `beg`: text after the last newline before `beg`, up to the next newline. -/
def lineOf (val : Bytes) (beg : Nat) : Bytes × Nat :=
  let before := val.take beg
  let start := beg - (before.reverse.takeWhile (· != 10)).length
  ((val.drop start).takeWhile (· != 10), start)

theorem marker_columns (width : Bytes → Nat) (hw : Additive width) (home confpath : Bytes) (mh : Match) (key val : Bytes)
    (beg end_ : Nat) (s : Bytes)
    (hins : mh.ty.isInspect = true) (hk : mh.key = some key) (hv : mh.val = some val)
    (hsub : mh.subs = [{ str := s, off := some (beg, end_) }])
    (hne : beg < end_) (hle : end_ ≤ val.length) (hnl : val[beg]? ≠ some 10)
    (hlead : (lineOf val beg).2 + nspaces (lineOf val beg).1 ≤ beg) :
    let line := (lineOf val beg).1
    let lstart := (lineOf val beg).2
    let shown := line.drop (nspaces line)
    let pre := inspectPrefix home confpath mh.lno ++ key ++ [58, 32]
    let w := width ((val.drop beg).take (end_ - beg))
    exprInspect width home confpath mh =
      pre ++ shown ++ [10] ++
      spaces (pre.length + width ((val.drop (lstart + nspaces line)).take (beg - (lstart + nspaces line)))) ++ [94] ++
      spaces (w - 2) ++ [36, 10] := by
  sorry

end Mdsort.Proofs
