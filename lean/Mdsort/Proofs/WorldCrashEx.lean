import Mdsort.Proofs.WorldCrashTop
import Mdsort.Proofs.WorldLinEx

/-!
# Crash states of a concrete run (evaluated)

The twin world of WorldLinEx (two byte-identical messages), message 1 processed by `move "/m/cur"`, `label`, no fault
(20 calls).  `crashEntries cw`: the entries of a crash state with the file and the content each is bound to.
-/

namespace Mdsort.Proofs
open Mdsort Mdsort.Model

/-- The entries of a (crash) state: directory, name, file, content. -/
def crashEntries (cw : World) : List (Bytes × Bytes × Nat × Bytes) :=
  cw.dirs.flatMap fun d => d.2.map fun e => (d.1, e.1, e.2, ((cw.file e.2).map (·.data)).getD [])

/-- The world after the first `j` calls of the fault-free run of the example. -/
def twinAt (j : Nat) : World :=
  worldAt twinExecWorld (traceSince twinExecWorld
    (runPlan Plan.none (matchesExec exEnv exList exSt) twinExecWorld 0 []).2.1) j

set_option maxRecDepth 100000 in
/-- Three crash states: (directories after call 12, stable storage at the end): the renamed original AND the labelled
copy are complete; (directories after call 12, stable storage after call 12 - the power fails between `fflush` and
`fsync` of the copy): the copy `..._9` is EMPTY on stable storage, the renamed original `..._8` (file 0) is complete;
(directories after call 3 - placeholder created, nothing renamed yet -, stable storage after call 14): the message is
still `/m/new/1.h`, the placeholder is empty. -/
theorem twin_crash_states :
    crashEntries (crashState (twinAt 12) (twinAt 20)) =
      [(exNew, wholeExName2, 1, exOrig), (exCur, twinName 8, 0, exOrig), (exCur, twinName 9, 3, exOrig)] ∧
    crashEntries (crashState (twinAt 12) (twinAt 12)) =
      [(exNew, wholeExName2, 1, exOrig), (exCur, twinName 8, 0, exOrig), (exCur, twinName 9, 3, [])] ∧
    crashEntries (crashState (twinAt 3) (twinAt 14)) =
      [(exNew, exName, 0, exOrig), (exNew, wholeExName2, 1, exOrig), (exCur, twinName 8, 2, [])] := by
  decide +kernel

end Mdsort.Proofs
