import Mdsort.Proofs.ConfRT3

/-!
# Reading back what `Spec.printBlocks` writes, part 4: rules, blocks, the whole file
-/

namespace Mdsort.Proofs.Conf
open Mdsort Mdsort.Model Mdsort.Spec

variable {tl : Bytes} {NoErr : Nat → ParseSt → Prop}

theorem toks_block_cons (rx : Pat → Bool) (t : CTree) (h : wfK rx .block t = true) :
    toks .block t = .lbrace :: (toks .block t).drop 1 := by
  cases t <;> simp_all [wfK, toks]

/-- The first token of an action list is a keyword other than `and` / `or`, not `{`. -/
theorem toks_acts_head (rx : Pat → Bool) : ∀ t, wfK rx .acts t = true → treePOK t = true →
    ∃ k tks, toks .acts t = .kw k :: tks ∧ stopBin (.kw k) = true := by
  intro t
  induction t with
  | leaf e =>
    intro hw _
    simp only [wfK, Bool.and_eq_true] at hw
    cases e <;> simp only [Expr.leafAction, Bool.false_eq_true, false_and] at hw <;>
      exact ⟨_, _, rfl, rfl⟩
  | attBlock l b _ => intro _ _; exact ⟨_, _, rfl, rfl⟩
  | and l x y ihx _ =>
    intro hw hp
    simp only [wfK, Bool.and_eq_true] at hw
    rw [treePOK_and, Bool.and_eq_true] at hp
    obtain ⟨k, tks, hk, hs⟩ := ihx hw.1 hp.1
    exact ⟨k, tks ++ toks .act y, by simp [toks, hk], hs⟩
  | _ => intro hw; simp [wfK] at hw

theorem toks_rule_head (rx : Pat → Bool) (t : CTree) (h : wfK rx .rule t = true) :
    ∃ tks, toks .rule t = .kw .mtch :: tks := by
  cases t <;> simp_all [wfK, toks]

theorem isBlock_of_wf_block (rx : Pat → Bool) (t : CTree) (h : wfK rx .block t = true) : isBlock t = true := by
  cases t <;> simp_all [wfK, isBlock]

theorem not_isBlock_of_wf_acts (rx : Pat → Bool) (t : CTree) (h : wfK rx .acts t = true) : isBlock t = false := by
  cases t <;> simp_all [wfK, isBlock]

/-- The body of a rule: shared by the kinds `rule` and `rules`. -/
theorem rule_goal (cx : PCtx) (hnl : cx.nl = countNl tl) (l : Nat) (c r : CTree)
    (hc : wfK cx.rxOk .cond c = true) (hpc : treePOK c = true) (hpr : treePOK r = true)
    (hr : (wfK cx.rxOk .block r = true ∧ r.countActions > 0 ∧ Goal cx tl NoErr .block r) ∨
          (wfK cx.rxOk .acts r = true ∧ aloneOK r = true ∧ Goal cx tl NoErr .acts r))
    (acc : Option CTree) (t0 : PTok) (ts : List PTok) (Q : CTree → ParseSt → Prop) (ht0 : stopAct t0 = true)
    (hQ : ∀ fuel' s', Up cx tl s' (t0 :: ts) → wpl (parseExprs cx fuel' (some (joinR acc (relabel (.mtch l c r))))) Q NoErr True s')
    (fuel : Nat) (s : ParseSt)
    (hs : Up cx tl s (.kw .mtch :: (toks .cond c ++ (if isBlock r then toks .block r else toks .acts r)) ++ t0 :: ts)) :
    wpl (parseExprs cx fuel acc) Q NoErr True s := by
  cases fuel with
  | zero => simp [parseExprs, wpl, outOfFuel]
  | succ fuel =>
    unfold parseExprs
    simp only [wpl_bind]
    simp only [List.cons_append, List.append_assoc] at hs
    apply wpl_peek_up cx _ _ hs rfl
    intro s1 h1
    simp only [tkOf, wpl_bind]
    apply wpl_shift_up h1
    intro s2 h2
    -- the rule
    have hrule : wpl (parseRuleWith cx fuel (parseExprs cx fuel none) (parseActions cx fuel none))
        (fun a s' => a = relabel (.mtch l c r) ∧ Up cx tl s' (t0 :: ts)) NoErr True s2 := by
      unfold parseRuleWith
      simp only [wpl_bind]
      refine wpl_of_rt (cond_rt cx hnl c hc hpc fuel) h2 ?_
      intro s3 h3
      rcases hr with ⟨hwb, hcount, hgoal⟩ | ⟨hwa, halone, hgoal⟩
      · -- a nested block
        have hib := isBlock_of_wf_block _ _ hwb
        rw [hib, if_pos rfl, toks_block_cons _ _ hwb] at h3
        simp only [List.cons_append] at h3
        have hstop := binTail_stop (NoErr := NoErr) cx fuel (relabel c) s3 .lbrace _ h3 rfl
        refine wpl_mono hstop ?_ (fun _ _ h => h)
        rintro _ s4 ⟨rfl, h4⟩
        apply wpl_peek_up cx _ _ h4 rfl
        intro s5 h5
        simp only [tkOf, wpl_bind]
        apply wpl_shift_up h5
        intro s6 h6
        refine wpl_of_rt (hgoal fuel) h6 ?_
        intro s7 h7
        have hne : ((relabel r).countActions == 0) = false := by
          rw [countActions_relabel]; simp only [beq_eq_false_iff_ne]; omega
        simp only [hne, wpl_ite, Bool.false_eq_true, if_false, wpl_bind]
        apply wpl_curLine_up cx hnl h7
        simp only [wpl_pure]
        exact ⟨rfl, h7⟩
      · -- a list of actions
        have hib := not_isBlock_of_wf_acts _ _ hwa
        rw [hib] at h3
        simp only [Bool.false_eq_true, if_false] at h3
        obtain ⟨k, tks, hk, hsb⟩ := toks_acts_head _ r hwa hpr
        have h3' : Up cx tl s3 (.kw k :: (tks ++ t0 :: ts)) := by rw [hk] at h3; simpa using h3
        have hstop := binTail_stop (NoErr := NoErr) cx fuel (relabel c) s3 (.kw k) _ h3' hsb
        refine wpl_mono hstop ?_ (fun _ _ h => h)
        rintro _ s4 ⟨rfl, h4⟩
        have hm : modeOK false false (.kw k) = true := rfl
        apply wpl_peek_up cx _ _ h4 hm
        intro s5 h5
        have hok5 := h4.ok (.kw k) (by simp)
        have h5' : Up cx tl s5 (toks .acts r ++ t0 :: ts) := by
          have := h5.up_some hok5
          rw [hk]; simpa using this
        simp only [tkOf, wpl_bind]
        -- all the actions, then the end of the list
        refine hgoal none (t0 :: ts) _ ?_ fuel s5 h5'
        intro fuel' s6 h6
        have hst := acts_stop (NoErr := NoErr) cx fuel' (some (joinAs none r)) s6 t0 ts h6 ht0
        refine wpl_mono hst ?_ (fun _ _ h => h)
        rintro _ s7 ⟨rfl, h7⟩
        rw [joinAs_none _ r hwa]
        simp only [wpl_bind]
        have hval : wpl (validateActions (relabel r)) (fun _ s' => s' = s7) NoErr True s7 := by
          unfold validateActions
          have hd := countLeaf_relabel Expr.isDiscard isDiscard_withLno r
          have hj := countLeaf_relabel Expr.isReject isReject_withLno r
          rw [countActions_relabel, hd, hj]
          simp only [aloneOK, Bool.or_eq_true, decide_eq_true_eq, Bool.and_eq_true, beq_iff_eq] at halone
          have : (decide (r.countActions > 1) && (decide (r.countLeaf Expr.isDiscard > 0) || decide (r.countLeaf Expr.isReject > 0))) = false := by
            rcases halone with h | ⟨h1, h2⟩
            · simp; omega
            · simp [h1, h2]
          simp only [this, Bool.false_eq_true, if_false, wpl_pure]
        refine wpl_mono hval ?_ (fun _ _ h => h)
        rintro _ s8 rfl
        apply wpl_curLine_up cx hnl h7
        simp only [wpl_pure]
        exact ⟨rfl, h7⟩
    refine wpl_mono hrule ?_ (fun _ _ h => h)
    rintro _ s9 ⟨rfl, h9⟩
    apply wpl_curLine_up cx hnl h9
    have := hQ fuel s9 h9
    cases acc <;> exact this

/-- Every well-formed, writable tree is read back - by the parser function for its kind. -/
theorem all_rt (cx : PCtx) (hnl : cx.nl = countNl tl) : ∀ (t : CTree) (k : Kind), wfK cx.rxOk k t = true → treePOK t = true →
    ∀ (NoErr : Nat → ParseSt → Prop), Goal cx tl NoErr k t := by
  intro t
  induction t with
  | leaf e =>
    intro k hw hp NoErr
    rw [treePOK_leaf] at hp
    cases k <;> simp only [wfK, Bool.false_eq_true, Bool.and_eq_true] at hw
    · trivial
    · exact act_leaf_goal (NoErr := NoErr) cx hnl e hw.1 hw.2 hp
    · -- acts: a single action
      have := act_leaf_goal (NoErr := NoErr) cx hnl e hw.1 hw.2 hp
      intro acc ts Q hQ fuel s hs
      exact this acc ts Q hQ fuel s hs
  | emptyBlock l =>
    intro k hw _ NoErr
    cases k <;> simp only [wfK, Bool.false_eq_true] at hw
    · -- block
      intro fuel s ts hs
      simp only [toks, List.drop_succ_cons, List.drop_zero, List.cons_append, List.nil_append] at hs
      cases fuel with
      | zero => simp [parseExprs, wpl, outOfFuel]
      | succ fuel =>
        unfold parseExprs
        simp only [wpl_bind]
        apply wpl_peek_up cx _ _ hs rfl
        intro s1 h1
        simp only [tkOf, wpl_bind]
        apply wpl_shift_up h1
        intro s2 h2
        apply wpl_curLine_up cx hnl h2
        simp only [wpl_pure]
        exact ⟨rfl, h2⟩
  | block l b ih =>
    intro k hw hp NoErr
    rw [treePOK_block] at hp
    cases k <;> simp only [wfK, Bool.false_eq_true] at hw
    · intro fuel s ts hs
      have hg := ih .rules hw hp NoE
      simp only [toks, List.cons_append, List.drop_succ_cons, List.drop_zero, List.nil_append, List.append_assoc] at hs
      refine hg none .rbrace ts _ rfl ?_ fuel s hs
      intro fuel' s1 h1
      rw [joinRs_none _ b hw]
      cases fuel' with
      | zero => simp [parseExprs, wpl, outOfFuel]
      | succ fuel' =>
        unfold parseExprs
        simp only [wpl_bind]
        apply wpl_peek_up cx _ _ h1 rfl
        intro s2 h2
        simp only [tkOf, wpl_bind]
        apply wpl_shift_up h2
        intro s3 h3
        apply wpl_curLine_up cx hnl h3
        simp only [wpl_pure]
        exact ⟨rfl, h3⟩
  | neg l e _ => intro k hw _ NoErr; cases k <;> simp only [wfK, Bool.false_eq_true] at hw; trivial
  | attachment l e _ => intro k hw _ NoErr; cases k <;> simp only [wfK, Bool.false_eq_true] at hw; trivial
  | attBlock l b ih =>
    intro k hw hp NoErr
    rw [treePOK_attBlock] at hp
    have key : wfK cx.rxOk .block b = true → 0 < b.countActions → b.countActions ≤ b.countLeaf Expr.isExec →
        Goal cx tl NoErr .act (.attBlock l b) := by
      intro hwb hpos0 hle acc ts Q hQ fuel s hs
      have hg := ih .block hwb hp NoErr
      cases fuel with
      | zero => simp [parseActions, wpl, outOfFuel]
      | succ fuel =>
        unfold parseActions
        simp only [wpl_bind]
        simp only [toks, List.cons_append] at hs
        apply wpl_peek_up cx _ _ hs rfl
        intro s1 h1
        simp only [tkOf, parseActionWith, wpl_bind]
        apply wpl_shift_up h1
        intro s2 h2
        rw [toks_block_cons _ _ hwb] at h2
        simp only [List.cons_append] at h2
        refine wpl_of_rt (expectTk_rt cx .lbrace rfl) h2 ?_
        intro s3 h3
        refine wpl_of_rt (hg fuel) h3 ?_
        intro s4 h4
        have hcnt : ¬ ((relabel b).countActions > (relabel b).countLeaf Expr.isExec) := by
          rw [countActions_relabel, countLeaf_relabel Expr.isExec isExec_withLno]
          omega
        have hnz : ¬ (((relabel b).countActions == 0) = true) := by
          rw [countActions_relabel]
          simp only [beq_iff_eq]
          omega
        simp only [wpl_ite, wpl_bind]
        rw [if_neg hnz, if_neg hcnt]
        apply wpl_curLine_up cx hnl h4
        simp only [wpl_pure]
        exact wpl_andJoin cx hnl acc _ h4 (hQ fuel s4 h4)
    cases k <;> simp only [wfK, Bool.false_eq_true, Bool.and_eq_true, decide_eq_true_eq] at hw
    · exact key hw.1.1 hw.1.2 hw.2
    · intro acc ts Q hQ fuel s hs
      exact key hw.1.1 hw.1.2 hw.2 acc ts Q hQ fuel s hs
  | and l x y ihx ihy =>
    intro k hw hp NoErr
    rw [treePOK_and, Bool.and_eq_true] at hp
    cases k <;> simp only [wfK, Bool.false_eq_true, Bool.and_eq_true] at hw
    · trivial
    · -- acts
      intro acc ts Q hQ fuel s hs
      have hgx := ihx .acts hw.1 hp.1 NoErr
      have hgy := ihy .act hw.2 hp.2 NoErr
      simp only [toks, List.append_assoc] at hs
      refine hgx acc (toks .act y ++ ts) Q ?_ fuel s hs
      intro fuel' s1 h1
      exact hgy (some (joinAs acc x)) ts Q hQ fuel' s1 h1
  | or l x y ihx ihy =>
    intro k hw hp NoErr
    rw [treePOK_or, Bool.and_eq_true] at hp
    cases k <;> simp only [wfK, Bool.false_eq_true, Bool.and_eq_true] at hw
    · trivial
    · -- rules
      intro acc t0 ts Q ht0 hQ fuel s hs
      have hgx := ihx .rules hw.1 hp.1 NoErr
      have hgy := ihy .rule hw.2 hp.2 NoErr
      obtain ⟨tks, htl⟩ := toks_rule_head _ y hw.2
      simp only [toks, List.append_assoc] at hs
      have hs' : Up cx tl s (toks .rules x ++ .kw .mtch :: (tks ++ t0 :: ts)) := by rw [htl] at hs; simpa using hs
      refine hgx acc (.kw .mtch) (tks ++ t0 :: ts) Q rfl ?_ fuel s hs'
      intro fuel' s1 h1
      have h1' : Up cx tl s1 (toks .rule y ++ t0 :: ts) := by rw [htl]; simpa using h1
      exact hgy (some (joinRs acc x)) t0 ts Q ht0 hQ fuel' s1 h1'
  | mtch l c r ihc ihr =>
    intro k hw hp NoErr
    rw [treePOK_mtch, Bool.and_eq_true] at hp
    have key : wfK cx.rxOk .cond c = true →
        ((wfK cx.rxOk .block r = true ∧ r.countActions > 0) ∨ (wfK cx.rxOk .acts r = true ∧ aloneOK r = true)) →
        ∀ (acc : Option CTree) (t0 : PTok) (ts : List PTok) (Q : CTree → ParseSt → Prop), stopAct t0 = true →
        (∀ fuel' s', Up cx tl s' (t0 :: ts) → wpl (parseExprs cx fuel' (some (joinR acc (relabel (.mtch l c r))))) Q NoErr True s') →
        ∀ fuel s, Up cx tl s (.kw .mtch :: (toks .cond c ++ (if isBlock r then toks .block r else toks .acts r)) ++ t0 :: ts) →
          wpl (parseExprs cx fuel acc) Q NoErr True s := by
      intro hc hr acc t0 ts Q ht0 hQ fuel s hs
      refine rule_goal cx hnl l c r hc hp.1 hp.2 ?_ acc t0 ts Q ht0 hQ fuel s hs
      rcases hr with ⟨h1, h2⟩ | ⟨h1, h2⟩
      · exact Or.inl ⟨h1, h2, ihr .block h1 hp.2 NoErr⟩
      · exact Or.inr ⟨h1, h2, ihr .acts h1 hp.2 NoErr⟩
    cases k <;> simp only [wfK, Bool.false_eq_true, Bool.and_eq_true, Bool.or_eq_true, decide_eq_true_eq] at hw
    · intro acc t0 ts Q ht0 hQ fuel s hs
      exact key hw.1 hw.2 acc t0 ts Q ht0 hQ fuel s (by simpa [toks] using hs)
    · intro acc t0 ts Q ht0 hQ fuel s hs
      exact key hw.1 hw.2 acc t0 ts Q ht0 hQ fuel s (by simpa [toks] using hs)

end Mdsort.Proofs.Conf
