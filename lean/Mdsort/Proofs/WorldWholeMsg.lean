import Mdsort.Proofs.WorldWholeParse
import Mdsort.Proofs.WorldFrame
import Mdsort.Proofs.EvalPWorld

/-!
# `processMessage` under EVERY fault plan

The registry `st.files` of the main loop (directory, name -> content) is kept consistent with the
world: every registered message is bound under its registered name to a file that holds exactly the
registered content (`WholeReg`).  Processing one message keeps every other registered entry as it is
after every call, keeps a complete version of the message itself bound somewhere after every call,
and re-establishes the registry for the state it returns.
-/

namespace Mdsort.Proofs
open Mdsort Mdsort.Model
open Mdsort.Proofs.World (wp wp_mono wp_inv_mono wp_bind_mono wp_call_any WholeK WholePF WholeSt Located At lk Ent GoodAt Good
  bind_eq pure_eq call_bind ret_bind call_bind' All)

/-! ## the registry -/

theorem whole_find_filter (fs : Files) (d n d' n' : Bytes) :
    (fs.filter fun e => !(e.1 == d && e.2.1 == n)).find? (fun e => e.1 == d' && e.2.1 == n') =
      if d' = d ∧ n' = n then none else fs.find? (fun e => e.1 == d' && e.2.1 == n') := by
  induction fs with
  | nil => simp
  | cons e es ih =>
    simp only [List.filter_cons, List.find?_cons]
    grind

theorem Files.whole_get_del (fs : Files) (d n d' n' : Bytes) :
    (fs.del d n).get d' n' = if d' = d ∧ n' = n then none else fs.get d' n' := by
  unfold Files.del Files.get
  rw [whole_find_filter]
  split <;> rfl

theorem Files.whole_get_put (fs : Files) (d n c d' n' : Bytes) :
    (fs.put d n c).get d' n' = if d' = d ∧ n' = n then some c else fs.get d' n' := by
  unfold Files.put Files.get
  rw [List.find?_append, whole_find_filter]
  by_cases h : d' = d ∧ n' = n
  · obtain ⟨rfl, rfl⟩ := h
    simp
  · simp only [h, if_false]
    cases hf : List.find? (fun e => e.1 == d' && e.2.1 == n') fs with
    | some x => simp
    | none =>
      have : ((d == d') && (n == n')) = false := by
        cases h1 : (d == d') <;> cases h2 : (n == n') <;> simp_all
      simp [List.find?, this]

/-- Every registered message is bound under its registered name to a file (below `nextFid`) that
holds exactly the registered content, visibly and durably. -/
def WholeReg (w : World) (files : Files) : Prop :=
  ∀ dir name c, files.get dir name = some c →
    ∃ fid, w.lookup dir name = some fid ∧ fid < w.nextFid ∧ w.file fid = some ⟨c, c⟩

/-- The complete version a verdict produces for a file with content `c` (`c` itself when the rules do not act on
it): what `message_write` renders from the interpolated message. -/
def wholeRewriteV : Verdict → Bytes → Bytes
  | .act _ msgs _, _ => (messageWrite (msgs 0)).1
  | _, c => c

/-- The complete version the actions of `expr` produce for the file `name` of `dir` with content `c` when the
operating system answers the questions of evaluation with `as` (`command`, `isdirectory`, file-time `date`
conditions; for a rule tree without them the answers are irrelevant, `wholeRewrite_asksFree`). -/
def wholeRewrite (env : PEnv) (orc : EvalOracles) (expr : Expr) (dir name c : Bytes) (as : List SysAns) : Bytes :=
  wholeRewriteV (verdictA env orc expr dir name c as) c

theorem wholeRewrite_asksFree (env : PEnv) (orc : EvalOracles) (expr : Expr) (h : asksFree expr = true) (dir name c : Bytes)
    (as : List SysAns) : wholeRewrite env orc expr dir name c as = wholeRewriteV (verdict env orc expr dir name c) c := by
  unfold wholeRewrite; rw [verdictA_asksFree env orc expr h]

/-- No file of any name and content makes `expr` produce a discard action, whatever the operating system answers. -/
def WholeNoDiscard (env : PEnv) (orc : EvalOracles) (expr : Expr) : Prop :=
  ∀ dir name c as ml msgs fl, verdictA env orc expr dir name c as = .act ml msgs fl → NoDiscard ml

theorem World.WholePF.of_evalFoot {wP w0 w1 : World} (pf : World.WholePF wP w0) (ef : World.EvalFoot w0 w1) :
    World.WholePF wP w1 := by
  refine ⟨ef.dirs.trans pf.dirs, ef.files.trans pf.files, ef.nextFid.trans pf.nextFid, ?_, Nat.le_trans pf.len ef.len, ?_⟩
  · intro h hh
    rw [ef.objs h (Nat.lt_of_lt_of_le hh pf.len)]
    exact pf.objs h hh
  · intro h hh
    rcases Nat.lt_or_ge h w0.handles.length with h1 | h1
    · rw [ef.objs h h1]; exact pf.noW h hh
    · rcases ef.new h h1 with h2 | h2 <;> rw [h2]
      · exact ⟨(by intro _ _ h; cases h), (by intro _ _ h; cases h)⟩
      · exact World.whole_nonW_closed

theorem WholeReg.of_pf {wP w' : World} {files : Files} (h : WholeReg wP files) (pf : WholePF wP w') : WholeReg w' files := by
  intro dir name c hc
  obtain ⟨fid, h1, h2, h3⟩ := h dir name c hc
  exact ⟨fid, by rw [World.lookup_of_dirs pf.dirs]; exact h1, by rw [pf.nextFid]; exact h2,
    by rw [World.whole_file_of_files pf.files]; exact h3⟩

theorem whole_goodAt_pf {w w' : World} {cs : List Bytes} {p n : Bytes} {fid : Nat} (hg : GoodAt w cs p n fid)
    (pf : WholePF w w') : GoodAt w' cs p n fid := by
  obtain ⟨h1, h2, f, h3, h4, h5⟩ := hg
  exact ⟨by rw [World.lookup_of_dirs pf.dirs]; exact h1, by rw [pf.nextFid]; exact h2, f,
    by rw [World.whole_file_of_files pf.files]; exact h3, h4, h5⟩

theorem whole_goodAt_keep {a : Ent} {H : Nat} {w w' : World} {cs : List Bytes} {p n : Bytes} {fid : Nat}
    (hg : GoodAt w cs p n fid) (k : WholeK a H w w') (hne : (p, n) ≠ a) : GoodAt w' cs p n fid := by
  obtain ⟨h1, h2, f, h3, h4, h5⟩ := hg
  exact ⟨k.look (p, n) fid hne h1, Nat.lt_of_lt_of_le h2 k.nextFid, f, (k.files fid h2).trans h3, h4, h5⟩

theorem whole_good_mono {w : World} {cs cs' : List Bytes} (h : Good w cs) (hs : ∀ c ∈ cs, c ∈ cs') : Good w cs' := by
  obtain ⟨p, n, fid, h1, h2, f, h3, h4, h5⟩ := h
  exact ⟨p, n, fid, h1, h2, f, h3, hs _ h4, hs _ h5⟩

theorem whole_wp_all {α} {I : World → Prop} {p : Prog α} {Q : α → World → Prop} {P : α → Prop} {w : World}
    (h : wp I p Q w) (ha : All P p) : wp I p (fun a w' => Q a w' ∧ P a) w := by
  induction p generalizing w with
  | ret a => exact ⟨h, ha⟩
  | call c k ih => intro ft; exact ⟨(h ft).1, ih _ (h ft).2 (ha _)⟩

/-! ## one message -/

/-- The invariant of `processMessage` on the message `a0` with content `c`, started in `wP`: after
every call every other entry is as in `wP`, every file of `wP` has its content, every handle of `wP`
is untouched, and some entry is bound to a file whose visible and durable contents are complete
versions of the message (`cs`). -/
def WholePMI (wP : World) (a0 : Ent) (cs : List Bytes) : World → Prop :=
  fun w' => WholeK a0 wP.handles.length wP w' ∧ Good w' cs

/-- The invariant of `processMessage` when the answers of the operating system are not yet known: some entry is bound
to a file whose contents are the message or one of the rewrites the rules can produce. -/
def WholePMIA (env : PEnv) (orc : EvalOracles) (expr : Expr) (wP : World) (dir name content : Bytes) : World → Prop :=
  fun w' => ∃ as, WholePMI wP (dir, name) [content, wholeRewrite env orc expr dir name content as] w'

/-- What `processMessage` returns: the same maildir; the frame; the registry of the returned state is
consistent with the world; every message that was registered is registered - under the same or a
fresh name - with its content or its complete rewrite. -/
def WholePMPost (env : PEnv) (orc : EvalOracles) (expr : Expr) (wP : World) (md : Maildir) (name : Bytes) (st : MainSt)
    (r : MainSt × Maildir) (w' : World) : Prop :=
  r.2 = md ∧ WholeK (md.path, name) wP.handles.length wP w' ∧
  (WholeReg wP st.files → WholeReg w' r.1.files ∧
    ∀ dir nm c, st.files.get dir nm = some c → ∃ dir' nm' c', r.1.files.get dir' nm' = some c' ∧
      (c' = c ∨ ∃ as, c' = wholeRewrite env orc expr dir nm c as))

theorem whole_post_of_pf {env : PEnv} {orc : EvalOracles} {expr : Expr} {wP w' : World} {md : Maildir} {name : Bytes}
    {st : MainSt} (pf : WholePF wP w') (r : MainSt × Maildir)
    (h1 : r.1.files = st.files) (h2 : r.2 = md) : WholePMPost env orc expr wP md name st r w' := by
  refine ⟨h2, pf.toK _, fun hreg => ⟨by rw [h1]; exact hreg.of_pf pf, ?_⟩⟩
  intro dir nm c hc
  exact ⟨dir, nm, c, by rw [h1]; exact hc, .inl rfl⟩

theorem whole_post_of_exec {env : PEnv} {orc : EvalOracles} {expr : Expr} {wP w0 w2 : World} {md : Maildir} {name content : Bytes}
    {st : MainSt} {xs : ExecSt} {ml : MatchList} {msgs : Nat → Msg} {fl : MFlags} {as : List SysAns}
    (hfc : st.files.get md.path name = some content)
    (hvd : verdictA env orc expr md.path name content as = .act ml msgs fl)
    (pf : WholePF wP w0) (k2 : WholeK (md.path, name) wP.handles.length wP w2)
    (hS2 : WholeSt w0 (md.path, name) wP.handles.length (msgs 0) content w2 xs)
    (st' : MainSt) (hfiles : st'.files = afterExec st.files md.path name xs.ms) :
    WholePMPost env orc expr wP md name st (st', md) w2 := by
  refine ⟨rfl, k2, fun hreg => ?_⟩
  obtain ⟨nb, ⟨hloc, fid', hlk', hlt', hf'⟩, hnb⟩ := hS2.loc
  obtain ⟨p, n⟩ := nb
  have hnbP : (p, n) = (md.path, name) ∨ wP.lookup p n = none := by
    rcases hnb with h | h
    · exact .inl h
    · right
      have : w0.lookup p n = none := h
      rw [World.lookup_of_dirs pf.dirs] at this
      exact this
  have hfs : st'.files = (st.files.del md.path name).put p n xs.ms.content := by
    rw [hfiles]; unfold afterExec; rw [hloc]
  have hrw : wholeRewrite env orc expr md.path name content as = (messageWrite (msgs 0)).1 := by
    unfold wholeRewrite; rw [hvd]; rfl
  refine ⟨?_, ?_⟩
  · intro dir nm c hc
    rw [hfs, Files.whole_get_put] at hc
    by_cases h : dir = p ∧ nm = n
    · obtain ⟨rfl, rfl⟩ := h
      simp only [and_self, if_true, Option.some.injEq] at hc
      subst hc
      exact ⟨fid', hlk', hlt', hf'⟩
    · simp only [h, if_false] at hc
      rw [Files.whole_get_del] at hc
      by_cases h0 : dir = md.path ∧ nm = name
      · simp only [h0, and_self, if_true] at hc; cases hc
      · simp only [h0, if_false] at hc
        obtain ⟨fid, h1, h2, h3⟩ := hreg dir nm c hc
        have hne : (dir, nm) ≠ (md.path, name) := by
          intro hh; cases hh; exact h0 ⟨rfl, rfl⟩
        exact ⟨fid, k2.look (dir, nm) fid hne h1, Nat.lt_of_lt_of_le h2 k2.nextFid, (k2.files fid h2).trans h3⟩
  · intro dir nm c hc
    by_cases h0 : dir = md.path ∧ nm = name
    · obtain ⟨rfl, rfl⟩ := h0
      have hcc : c = content := by rw [hfc] at hc; cases hc; rfl
      subst hcc
      refine ⟨p, n, xs.ms.content, ?_, ?_⟩
      · rw [hfs, Files.whole_get_put]; simp
      · rcases hS2.content with h | h
        · exact .inl h
        · exact .inr ⟨as, by rw [hrw]; exact h⟩
    · have hne : ¬ (dir = p ∧ nm = n) := by
        rintro ⟨rfl, rfl⟩
        rcases hnbP with h | h
        · cases h; exact h0 ⟨rfl, rfl⟩
        · obtain ⟨fid, h1, _⟩ := hreg dir nm c hc
          rw [h] at h1; cases h1
      refine ⟨dir, nm, c, ?_, .inl rfl⟩
      rw [hfs, Files.whole_get_put]
      simp only [hne, if_false]
      rw [Files.whole_get_del]
      simp only [h0, if_false]
      exact hc

theorem whole_good_cons {w : World} {c x : Bytes} (h : Good w [c]) : Good w [c, x] :=
  whole_good_mono h (by intro y hy; simp at hy; simp [hy])

/-- `processMessage` on a registered message under every fault plan (rules without discard). -/
theorem whole_processMessage (env : PEnv) (orc : EvalOracles) (expr : Expr) (md : Maildir) (name : Bytes) (st : MainSt)
    {wP : World} {d : Handle} {content : Bytes}
    (hd : md.dirH = some d) (hp : wP.dirPath d = some md.path)
    (hwf : pathjoin PATH_MAX md.root (subdirName md.subdir) = some md.path)
    (hfc : st.files.get md.path name = some content) {fid : Nat}
    (hl : wP.lookup md.path name = some fid) (hlt : fid < wP.nextFid) (hf : wP.file fid = some ⟨content, content⟩)
    (hnd : WholeNoDiscard env orc expr) :
    wp (WholePMIA env orc expr wP md.path name content)
      (processMessage env orc expr md name st) (WholePMPost env orc expr wP md name st) wP := by
  rw [processMessage_eq env orc expr md name st d content hd hfc]
  have hg00 : GoodAt wP [content] md.path name fid := ⟨hl, hlt, _, hf, by simp, by simp⟩
  -- while the answers are not known: the message itself is there
  have inv0 : ∀ w', WholePF wP w' → WholePMIA env orc expr wP md.path name content w' :=
    fun w' pf => ⟨[], pf.toK _, whole_good_cons (whole_goodAt_pf hg00 pf).good⟩
  refine wp_bind_mono (wp_inv_mono (whole_wp_all (World.whole_messageParseP d md.path name content hp hl)
    (all_messageParseP_as d md.path name content)) inv0) ?_
  rintro pm w00 ⟨⟨pf00, hms⟩, hpa⟩
  cases pm with
  | none => exact whole_post_of_pf pf00 _ rfl rfl
  | some ms =>
    simp only [afterParse]
    obtain ⟨h1, h2, h3, h4, h5', -⟩ := hms ms rfl
    -- evaluation: the footprint of the parse phase is kept
    refine wp_bind_mono (wp_inv_mono (World.wp_evalFoot (msgEnv env orc ms.path) expr ms.msg ms.flags w00)
      (fun w' ef => inv0 w' (pf00.of_evalFoot ef))) ?_
    rintro ev w0 ⟨ef, as, hev⟩
    have pf : WholePF wP w0 := pf00.of_evalFoot ef
    have h5 : wP.handles.length < w0.handles.length := Nat.lt_of_lt_of_le h5' ef.len
    have hv : evVerdict env orc ms ev = verdictA env orc expr md.path name content as := by
      rw [hev]; exact msVerdictA_of_parsed env orc expr md.path name content ms hpa as
    rw [hv]
    have hg0 : GoodAt wP [content, wholeRewrite env orc expr md.path name content as] md.path name fid :=
      ⟨hl, hlt, _, hf, by simp, by simp⟩
    have invA : ∀ w', WholePMI wP (md.path, name) [content, wholeRewrite env orc expr md.path name content as] w' →
        WholePMIA env orc expr wP md.path name content w' := fun w' h => ⟨as, h⟩
    -- closing the descriptor when nothing is executed
    have freePF : ∀ (ms' : MsgSt) (r : MainSt × Maildir), ms'.fd = ms.fd → r.1.files = st.files → r.2 = md →
        wp (WholePMIA env orc expr wP md.path name content)
          ((freeP ms').bind fun _ => Prog.ret r) (WholePMPost env orc expr wP md name st) w0 := by
      intro ms' r hfd hr1 hr2
      unfold freeP
      rw [hfd, h4]
      simp only [call_bind]
      refine wp_call_any fun rc => ?_
      have pf1 : WholePF wP (stepWorld w0 (.close wP.handles.length) rc) :=
        WholePF.step_of_core (World.core_close w0 _ rc) (pf.setObj (Nat.le_refl _) World.whole_nonW_closed)
      exact ⟨inv0 _ pf1, whole_post_of_pf pf1 r hr1 hr2⟩
    cases hvd : verdictA env orc expr md.path name content as with
    | unparsable => simp only [afterVerdict]; exact freePF ms _ rfl rfl rfl
    | error => simp only [afterVerdict]; exact freePF ms _ rfl rfl rfl
    | interpFail => simp only [afterVerdict]; exact freePF ms _ rfl rfl rfl
    | «nomatch» => simp only [afterVerdict]; exact freePF ms _ rfl rfl rfl
    | act ml msgs fl =>
      simp only [afterVerdict]
      split
      · exact freePF _ _ rfl rfl rfl
      · -- the action list is executed
        have hml : NoDiscard ml := hnd md.path name content as ml msgs fl hvd
        have hrw : wholeRewrite env orc expr md.path name content as = (messageWrite (msgs 0)).1 := by
          unfold wholeRewrite; rw [hvd]; rfl
        have hdlt : d < wP.handles.length := World.lt_of_dirPath hp
        have hps0 : w0.dirPath d = some md.path := by rw [← hp]; exact World.dirPath_congr (pf.objs d hdlt)
        have hg1 : GoodAt w0 [content, wholeRewrite env orc expr md.path name content as] md.path name fid :=
          whole_goodAt_pf hg0 pf
        have hA : At w0 { src := md, chsrc := false, ms := { ms with msg := msgs 0, flags := fl }, reject := false } d fid := by
          refine ⟨hd, hps0, hwf, ?_, ?_, by rw [pf.nextFid]; exact hlt, ?_, ?_⟩
          · show ms.loc = some (md.path, ms.name)
            rw [h2, h1]
          · show w0.lookup md.path ms.name = some fid
            rw [h1, World.lookup_of_dirs pf.dirs]; exact hl
          · show w0.file fid = some ⟨ms.content, ms.content⟩
            rw [h3, World.whole_file_of_files pf.files]; exact hf
          · intro h hh
            have : ms.fd = some h := hh
            rw [h4] at this
            cases this
            exact ⟨h5, Ne.symm (Nat.ne_of_lt hdlt)⟩
        have hS : WholeSt w0 (md.path, name) wP.handles.length (msgs 0) content w0
            { src := md, chsrc := false, ms := { ms with msg := msgs 0, flags := fl }, reject := false } := by
          refine ⟨⟨(md.path, name), ?_, .inl rfl⟩, ?_, (by intro h; cases h), rfl, .inl h3⟩
          · have := hA.located
            rw [show (({ src := md, chsrc := false, ms := { ms with msg := msgs 0, flags := fl }, reject := false } : ExecSt).ms.name) = name
              from h1] at this
            exact this
          · intro h hh
            have : ms.fd = some h := hh
            rw [h4] at this
            cases this
            exact Nat.le_refl _
        have k0 : WholeK (md.path, name) wP.handles.length wP w0 := pf.toK _
        have kexec := World.whole_matchesExec env ml _ (WholeK.refl (md.path, name) w0 pf.len) hA hS hml
        have gexec := World.spec_matchesExec env ml
          { src := md, chsrc := false, ms := { ms with msg := msgs 0, flags := fl }, reject := false } hg1.good
          (by rw [hrw]; simp) hml
        refine wp_bind_mono (wp_inv_mono (World.whole_wp_and gexec kexec)
          (fun w' h => invA w' ⟨k0.trans h.2 (.inl rfl) (Nat.le_refl _), h.1⟩)) ?_
        rintro x w1 ⟨hgood1, k1, hS1⟩
        have k01 : WholeK (md.path, name) wP.handles.length wP w1 := k0.trans k1 (.inl rfl) (Nat.le_refl _)
        refine wp_bind_mono (R := fun _ w2 => WholePMI wP (md.path, name) [content, wholeRewrite env orc expr md.path name content as] w2 ∧
          WholeSt w0 (md.path, name) wP.handles.length (msgs 0) content w2 x.1) ?_ ?_
        · unfold freeP
          split
          · rename_i h hh
            simp only [call_bind]
            refine wp_call_any fun rc => ?_
            have k2 := k01.step (.close h) rc rfl (by intro h' hh'; cases hh'; exact hS1.fdCut h hh) (fun _ _ => trivial)
            obtain ⟨p, n, g, hg⟩ := hgood1
            have g2 := (hg.step (.close h) rc trivial trivial).good
            exact ⟨invA _ ⟨k2, g2⟩, ⟨k2, g2⟩, hS1.step _ rc rfl (fun _ => trivial)⟩
          · exact ⟨⟨k01, hgood1⟩, hS1⟩
        · rintro _ w2 ⟨⟨k2, -⟩, hS2⟩
          exact whole_post_of_exec hfc hvd pf k2 hS2 _ rfl

/-- **One message, every fault plan** (`runPlan` form): after every call of `processMessage` on a
message whose entry is bound to a complete file, some entry is bound to a file whose visible - and
whose durable - content is the message or a complete rewrite of it by the rules (for some answers of the operating
system to the questions of evaluation), and every OTHER entry that was bound
is bound to the same file, whose content is unchanged. -/
theorem whole_message_no_loss (env : PEnv) (orc : EvalOracles) (expr : Expr) (md : Maildir) (name : Bytes) (st : MainSt)
    (w : World) (plan : Plan) {d : Handle} {content : Bytes} {fid : Nat}
    (hd : md.dirH = some d) (hp : w.dirPath d = some md.path)
    (hwf : pathjoin PATH_MAX md.root (subdirName md.subdir) = some md.path)
    (hfc : st.files.get md.path name = some content)
    (hl : w.lookup md.path name = some fid) (hlt : fid < w.nextFid) (hf : w.file fid = some ⟨content, content⟩)
    (hnd : WholeNoDiscard env orc expr) :
    ∀ w' ∈ (runPlan plan (processMessage env orc expr md name st) w 0 []).2.2,
      (∃ as, Intact w' [content, wholeRewrite env orc expr md.path name content as] ∧
        IntactDurable w' [content, wholeRewrite env orc expr md.path name content as]) ∧
      ∀ q m g, (q, m) ≠ (md.path, name) → w.lookup q m = some g →
        w'.lookup q m = some g ∧ (g < w.nextFid → w'.file g = w.file g) := by
  intro w' hw'
  rw [World.runPlan_eq] at hw'
  simp only [List.nil_append] at hw'
  obtain ⟨as, k, hg⟩ := (World.wp_sound plan (whole_processMessage env orc expr md name st hd hp hwf hfc hl hlt hf hnd) 0).1 w' hw'
  exact ⟨⟨as, hg.intact, hg.intactDurable⟩, fun q m g hne hq => ⟨k.look (q, m) g hne hq, fun h => k.files g h⟩⟩

end Mdsort.Proofs
