import Mdsort.Proofs.Captures
import Mdsort.Proofs.WorldOwnScripts
import Mdsort.Proofs.EvalPCalls

/-!
# `processMessage` as "parse, then what the rules decide" (C03/C04 at world level)

`processMessage` is the parse phase (`messageParseP`), the evaluation of the rules (`evalP`: the `command`,
`isdirectory` and file-time `date` conditions ask the operating system) and a continuation that depends only
on the *verdict* of the rules on the parsed message: no match, evaluation error, interpolation
failure, or a list of actions.  In the first three cases the continuation only closes the message's
descriptor (`C03_no_match_no_effect`).

The verdict is a function of the result of evaluation (`evVerdict`).  In a run against call results `orcl` it
is `verdictAt … orcl j` (`j` = the index of the first call of evaluation); for a rule tree that asks nothing
(`asksFree`) it is the pure `verdict` (`verdictAt_asksFree`).
-/

namespace Mdsort.Proofs
open Mdsort Mdsort.Model
open Mdsort.Proofs.World (Calls All bind_eq pure_eq call_bind ret_bind call_bind' bind_assoc)
open Mdsort.Proofs.Own (runO runO_bind runO_ret runO_call runOracle_eq)

/-! ## the verdict of the rules on a message -/

/-- What evaluation and interpolation decide for one message. -/
inductive Verdict where
  | unparsable                -- the path does not fit, the name is too long or its flag suffix is invalid
  | nomatch
  | error                     -- evaluation error
  | interpFail                -- the rules matched, interpolation of an action's strings failed
  | act (ml : MatchList) (msgs : Nat → Msg) (flags : MFlags)

def Verdict.acts : Verdict → Bool
  | .act .. => true
  | _ => false

/-- The cases in which `processMessage` sets `error` on account of the rules. -/
def Verdict.isErr : Verdict → Bool
  | .unparsable | .error | .interpFail => true
  | _ => false

/-- What interpolation decides once evaluation has returned `ev`. -/
def evVerdict (env : PEnv) (orc : EvalOracles) (ms : MsgSt) : Tri × St → Verdict
  | (.error, _) => .error
  | (.nomatch, _) => .nomatch
  | (.match, est) =>
    match matchesInterpolate (msgEnv env orc ms.path) est.ml (partMsg ms.msg ms.parts) with
    | none => .interpFail
    | some (ml, msgs) => .act ml msgs est.flags

/-- The evaluation of the rules on a parsed message, as `processMessage` runs it. -/
def evalMs (env : PEnv) (orc : EvalOracles) (expr : Expr) (ms : MsgSt) : Prog (Tri × St) :=
  evalP (msgEnv env orc ms.path) expr ms.msg ms.flags

/-- The verdict on a parsed message when evaluation asks nothing (or every question fails): the pure `Model.eval`. -/
def msVerdict (env : PEnv) (orc : EvalOracles) (expr : Expr) (ms : MsgSt) : Verdict :=
  evVerdict env orc ms (eval (msgEnv env orc ms.path) ms.msg expr 0 ms.msg { ml := [], flags := ms.flags })

/-- The verdict on a parsed message for the answers `as` of the operating system. -/
def msVerdictA (env : PEnv) (orc : EvalOracles) (expr : Expr) (ms : MsgSt) (as : List SysAns) : Verdict :=
  evVerdict env orc ms (evalR (msgEnv env orc ms.path) expr ms.msg ms.flags as).1

/-- The file `name` of directory `dir` with content `content` as `message_parse` returns it (without descriptor). -/
def fileMs (dir name content : Bytes) : Option MsgSt :=
  match pathjoin PATH_MAX dir name, strlcpyFits NAME_MAX1 name with
  | some p, some n =>
    match flagsParse n with
    | some mf =>
      some { name := n, path := p, fd := none, msg := parseMessage content,
             parts := (getAttachments (parseMessage content)).getD [], flags := mf, loc := none, content := content }
    | none => none
  | _, _ => none

/-- The verdict on the file `name` of directory `dir` with content `content` when evaluation asks nothing. -/
def verdict (env : PEnv) (orc : EvalOracles) (expr : Expr) (dir name content : Bytes) : Verdict :=
  match fileMs dir name content with
  | some ms => msVerdict env orc expr ms
  | none => .unparsable

/-- The verdict on that file for the answers `as` of the operating system. -/
def verdictA (env : PEnv) (orc : EvalOracles) (expr : Expr) (dir name content : Bytes) (as : List SysAns) : Verdict :=
  match fileMs dir name content with
  | some ms => msVerdictA env orc expr ms as
  | none => .unparsable

/-- The verdict on that file in a run against the call results `orcl` in which evaluation starts at call index `j`. -/
def verdictAt (env : PEnv) (orc : EvalOracles) (expr : Expr) (dir name content : Bytes) (orcl : Nat → Call → Res) (j : Nat) :
    Verdict :=
  match fileMs dir name content with
  | some ms => evVerdict env orc ms (runO orcl (evalMs env orc expr ms) j).1
  | none => .unparsable

/-! ## the shape of `processMessage` -/

/-- `message_free`. -/
def freeP (ms : MsgSt) : Prog Unit :=
  match ms.fd with
  | some h => (call (.close h)).bind fun _ => .ret ()
  | none => .ret ()

/-- What `processMessage` does once the rules have decided. -/
def afterVerdict (env : PEnv) (md : Maildir) (name : Bytes) (st : MainSt) (ms : MsgSt) : Verdict → Prog (MainSt × Maildir)
  | .unparsable => (freeP ms).bind fun _ => .ret ({ st with error := true }, md)
  | .error => (freeP ms).bind fun _ => .ret ({ st with error := true }, md)
  | .interpFail => (freeP ms).bind fun _ => .ret ({ st with error := true }, md)
  | .nomatch => (freeP ms).bind fun _ => .ret (st, md)
  | .act ml msgs fl =>
    let ms1 : MsgSt := { ms with msg := msgs 0, flags := fl }
    let st1 : MainSt := { st with log := st.log ++ inspectLines env ml ms.path }
    if env.dryrun then (freeP ms1).bind fun _ => .ret (st1, md)
    else
      (matchesExec env ml { src := md, chsrc := false, ms := ms1, reject := false }).bind fun x =>
        (freeP x.1.ms).bind fun _ =>
          .ret ({ st1 with error := st1.error || x.2, reject := st1.reject || x.1.reject,
                           files := afterExec st1.files md.path name x.1.ms }, md)

/-- The continuation of the parse phase in `processMessage`. -/
def afterParse (env : PEnv) (orc : EvalOracles) (expr : Expr) (md : Maildir) (name : Bytes) (st : MainSt) :
    Option MsgSt → Prog (MainSt × Maildir)
  | none => .ret ({ st with error := true }, md)
  | some ms => (evalMs env orc expr ms).bind fun ev => afterVerdict env md name st ms (evVerdict env orc ms ev)

theorem processMessage_eq (env : PEnv) (orc : EvalOracles) (expr : Expr) (md : Maildir) (name : Bytes) (st : MainSt)
    (d : Handle) (content : Bytes) (hd : md.dirH = some d) (hf : st.files.get md.path name = some content) :
    processMessage env orc expr md name st =
      (messageParseP d md.path name content).bind (afterParse env orc expr md name st) := by
  unfold processMessage
  simp only [hd, hf]
  show (messageParseP d md.path name content).bind _ = _
  congr 1
  funext pm
  cases pm with
  | none => rfl
  | some ms =>
    simp only [afterParse, evalMs, msgEnv]
    show (evalP _ _ _ _).bind _ = _
    congr 1
    funext r
    obtain ⟨t, est⟩ := r
    cases t with
    | error => rfl
    | «nomatch» => rfl
    | «match» =>
      simp only [evVerdict, msgEnv]
      generalize matchesInterpolate _ est.ml (partMsg ms.msg ms.parts) = r2
      cases r2 with
      | none => rfl
      | some x =>
        obtain ⟨ml, msgs⟩ := x
        dsimp only [afterVerdict]
        cases env.dryrun <;> rfl

theorem processMessage_noDir (env : PEnv) (orc : EvalOracles) (expr : Expr) (md : Maildir) (name : Bytes) (st : MainSt)
    (hd : md.dirH = none) : processMessage env orc expr md name st = .ret (st, md) := by
  unfold processMessage
  simp only [hd]
  rfl

theorem processMessage_unknown (env : PEnv) (orc : EvalOracles) (expr : Expr) (md : Maildir) (name : Bytes) (st : MainSt)
    (d : Handle) (hd : md.dirH = some d) (hf : st.files.get md.path name = none) :
    processMessage env orc expr md name st = .ret ({ st with error := true }, md) := by
  unfold processMessage
  simp only [hd, hf]
  rfl

/-! ## what a successful parse returns -/

/-- What a successful `message_parse` returns (everything but the descriptor is determined by the
directory, the name and the content of the file). -/
def ParsedAs (dir name content : Bytes) (pm : Option MsgSt) : Prop :=
  ∀ ms, pm = some ms → ∃ p mf, pathjoin PATH_MAX dir name = some p ∧ strlcpyFits NAME_MAX1 name = some name ∧
    flagsParse name = some mf ∧ ms.name = name ∧ ms.path = p ∧ ms.msg = parseMessage content ∧ ms.flags = mf ∧
    ms.parts = (getAttachments (parseMessage content)).getD []

theorem all_messageParseP_as (d : Handle) (dir name content : Bytes) :
    All (ParsedAs dir name content) (messageParseP d dir name content) := by
  unfold messageParseP
  simp only [bind_eq, pure_eq, call_bind]
  refine all_call fun r => ?_
  split
  · refine World.All.bind_of_forall _ fun failed => ?_
    split
    · exact all_call fun _ => all_ret (fun ms h => by cases h)
    · split
      · split
        · refine all_ret ?_
          intro ms h
          cases h
          rename_i p n hp hn _ mf hmf
          cases Own.strlcpyFits_some hn
          exact ⟨_, _, hp, hn, hmf, rfl, rfl, rfl, rfl, rfl⟩
        · exact all_call fun _ => all_ret (fun ms h => by cases h)
      · exact all_call fun _ => all_ret (fun ms h => by cases h)
  · exact all_ret (fun ms h => by cases h)

/-- A parsed message is the file's `fileMs` up to the descriptor and the ghost fields. -/
theorem fileMs_of_parsed {dir name content : Bytes} {ms : MsgSt} (h : ParsedAs dir name content (some ms)) :
    ∃ ms0, fileMs dir name content = some ms0 ∧ ms0.path = ms.path ∧ ms0.msg = ms.msg ∧ ms0.flags = ms.flags ∧
      ms0.parts = ms.parts := by
  obtain ⟨p, mf, hp, hn, hmf, h1, h2, h3, h4, h5⟩ := h ms rfl
  refine ⟨{ name := name, path := p, fd := none, msg := parseMessage content,
            parts := (getAttachments (parseMessage content)).getD [], flags := mf, loc := none, content := content },
    by unfold fileMs; simp only [hp, hn, hmf], h2.symm, h3.symm, h4.symm, h5.symm⟩

theorem evVerdict_congr (env : PEnv) (orc : EvalOracles) {ms ms0 : MsgSt} (h1 : ms0.path = ms.path) (h2 : ms0.msg = ms.msg)
    (h3 : ms0.parts = ms.parts) (ev : Tri × St) : evVerdict env orc ms0 ev = evVerdict env orc ms ev := by
  obtain ⟨t, est⟩ := ev
  cases t <;> simp only [evVerdict, h1, h2, h3]

theorem evalMs_congr (env : PEnv) (orc : EvalOracles) (expr : Expr) {ms ms0 : MsgSt} (h1 : ms0.path = ms.path)
    (h2 : ms0.msg = ms.msg) (h3 : ms0.flags = ms.flags) : evalMs env orc expr ms0 = evalMs env orc expr ms := by
  unfold evalMs; rw [h1, h2, h3]

/-- The pure verdict on a parsed message is the pure verdict on the file it was parsed from. -/
theorem msVerdict_of_parsed (env : PEnv) (orc : EvalOracles) (expr : Expr) (dir name content : Bytes) (ms : MsgSt)
    (h : ParsedAs dir name content (some ms)) : msVerdict env orc expr ms = verdict env orc expr dir name content := by
  obtain ⟨ms0, h0, h1, h2, h3, h4⟩ := fileMs_of_parsed h
  unfold verdict
  rw [h0]
  unfold msVerdict
  dsimp only
  rw [evVerdict_congr env orc h1 h2 h4, h1, h2, h3]

/-- The verdict on a parsed message in a run is the run's verdict on the file it was parsed from. -/
theorem verdictAt_of_parsed (env : PEnv) (orc : EvalOracles) (expr : Expr) (dir name content : Bytes) (ms : MsgSt)
    (h : ParsedAs dir name content (some ms)) (orcl : Nat → Call → Res) (j : Nat) :
    evVerdict env orc ms (runO orcl (evalMs env orc expr ms) j).1 = verdictAt env orc expr dir name content orcl j := by
  obtain ⟨ms0, h0, h1, h2, h3, h4⟩ := fileMs_of_parsed h
  unfold verdictAt
  rw [h0]
  dsimp only
  rw [evVerdict_congr env orc h1 h2 h4, evalMs_congr env orc expr h1 h2 h3]

/-- ... and for given answers. -/
theorem msVerdictA_of_parsed (env : PEnv) (orc : EvalOracles) (expr : Expr) (dir name content : Bytes) (ms : MsgSt)
    (h : ParsedAs dir name content (some ms)) (as : List SysAns) :
    msVerdictA env orc expr ms as = verdictA env orc expr dir name content as := by
  obtain ⟨ms0, h0, h1, h2, h3, h4⟩ := fileMs_of_parsed h
  unfold verdictA
  rw [h0]
  unfold msVerdictA
  dsimp only
  rw [evVerdict_congr env orc h1 h2 h4, h1, h2, h3]

/-! ## rule trees that ask nothing: the verdict is the pure one, evaluation issues no call -/

theorem noSys_msgEnv (env : PEnv) (orc : EvalOracles) (p : Bytes) : noSys (msgEnv env orc p) = msgEnv env orc p := rfl

theorem evalMs_asksFree (env : PEnv) (orc : EvalOracles) (expr : Expr) (h : asksFree expr = true) (ms : MsgSt) :
    evalMs env orc expr ms = .ret (eval (msgEnv env orc ms.path) ms.msg expr 0 ms.msg { ml := [], flags := ms.flags }) := by
  unfold evalMs
  rw [← noSys_msgEnv]
  exact evalP_asksFree (msgEnv env orc ms.path) expr h ms.msg ms.flags

theorem afterParse_asksFree (env : PEnv) (orc : EvalOracles) (expr : Expr) (h : asksFree expr = true) (md : Maildir)
    (name : Bytes) (st : MainSt) (ms : MsgSt) :
    afterParse env orc expr md name st (some ms) = afterVerdict env md name st ms (msVerdict env orc expr ms) := by
  simp only [afterParse, evalMs_asksFree env orc expr h, msVerdict]
  rfl

theorem verdictAt_asksFree (env : PEnv) (orc : EvalOracles) (expr : Expr) (h : asksFree expr = true) (dir name content : Bytes)
    (orcl : Nat → Call → Res) (j : Nat) :
    verdictAt env orc expr dir name content orcl j = verdict env orc expr dir name content := by
  unfold verdictAt verdict
  cases fileMs dir name content with
  | none => rfl
  | some ms => simp only [evalMs_asksFree env orc expr h, msVerdict]; rfl

theorem verdictA_asksFree (env : PEnv) (orc : EvalOracles) (expr : Expr) (h : asksFree expr = true) (dir name content : Bytes)
    (as : List SysAns) : verdictA env orc expr dir name content as = verdict env orc expr dir name content := by
  unfold verdictA verdict
  cases fileMs dir name content with
  | none => rfl
  | some ms =>
    have h1 := evalT_asksFree (msgEnv env orc ms.path) ms.msg expr h 0 ms.msg { ml := [], flags := ms.flags }
    simp only [msVerdictA, msVerdict, evalR, evalTop]
    rw [← noSys_msgEnv, h1]
    rfl

/-- The calls of the evaluation of the rule tree `expr`, whatever the message. -/
theorem evalMs_calls (env : PEnv) (orc : EvalOracles) (expr : Expr) (ms : MsgSt) :
    Calls (EvalCallOf expr) (evalMs env orc expr ms) :=
  evalP_calls_of _ _ _ _

/-! ## no action: only the descriptor is closed -/

theorem freeP_calls (ms : MsgSt) : Calls IsClose (freeP ms) := by
  unfold freeP
  split
  · exact calls_call ⟨_, rfl⟩ fun _ => calls_ret _
  · exact calls_ret _

/-- The outcome when the verdict is not a list of actions. -/
def noActOutcome (st : MainSt) (v : Verdict) : MainSt := if v.isErr then { st with error := true } else st

theorem afterVerdict_noAct (env : PEnv) (md : Maildir) (name : Bytes) (st : MainSt) (ms : MsgSt) (v : Verdict)
    (hv : v.acts = false) :
    Calls IsClose (afterVerdict env md name st ms v) ∧
    All (fun r => r = (noActOutcome st v, md)) (afterVerdict env md name st ms v) := by
  have hfree : ∀ r : MainSt × Maildir, Calls IsClose ((freeP ms).bind fun _ => .ret r) ∧
      All (fun x => x = r) ((freeP ms).bind fun _ => .ret r) := by
    intro r
    refine ⟨World.Calls.bind (freeP_calls ms) fun _ => calls_ret _, World.All.bind_of_forall _ fun _ => rfl⟩
  cases v with
  | act ml msgs fl => cases hv
  | unparsable => exact hfree _
  | error => exact hfree _
  | interpFail => exact hfree _
  | «nomatch» => exact hfree _

theorem calls_runO_mem {α} {Q : Call → Prop} {p : Prog α} (h : Calls Q p) (orcl : Nat → Call → Res) (i : Nat) :
    ∀ x ∈ (runO orcl p i).2.1, Q x.1 := by
  intro x hx
  have := calls_runOracle_mem h orcl i [] x (by rw [runOracle_eq]; simpa using hx)
  rcases this with h' | h'
  · simp at h'
  · exact h'

theorem all_runO' {α} {P : α → Prop} {p : Prog α} (h : All P p) (orcl : Nat → Call → Res) (i : Nat) : P (runO orcl p i).1 := by
  have := all_runOracle_val h orcl i []
  rwa [runOracle_eq] at this

/-- A call of the parse phase, of evaluation, or the closing of the message's descriptor. -/
def ParseEvalCall (d : Handle) (expr : Expr) (c : Call) : Prop := ParseCall d c ∨ EvalCallOf expr c

theorem ParseEvalCall.quiet {d : Handle} {expr : Expr} {c : Call} (h : ParseEvalCall d expr c) : c.mutating = false := by
  rcases h with h | h
  · exact h.quiet.1
  · exact h.evalCall.quiet

/-- ... and such a call is a `fork` only if the rule tree has a `command` condition. -/
theorem ParseEvalCall.fork {d : Handle} {expr : Expr} {argv : List Bytes} {s : Handle}
    (h : ParseEvalCall d expr (.fork argv s)) : hasCommand expr = true := by
  rcases h with h | ⟨h, _⟩ | ⟨_, p, hp⟩
  · exact absurd h.quiet.2 (by simp [Call.isFork])
  · exact h
  · cases hp

theorem ParseEvalCall.fork' {d : Handle} {expr : Expr} {c : Call} (h : ParseEvalCall d expr c) (hf : c.isFork = true) :
    hasCommand expr = true := by
  obtain ⟨av, s, rfl⟩ := Call.isFork_iff.1 hf
  exact h.fork

theorem ParseEvalCall.of_asksFree {d : Handle} {expr : Expr} {c : Call} (hf : asksFree expr = true)
    (h : ParseEvalCall d expr c) : ParseCall d c := by
  simp only [asksFree, Bool.and_eq_true, Bool.not_eq_true'] at hf
  rcases h with h | ⟨h, _⟩ | ⟨h | h, _⟩
  · exact h
  · rw [hf.1.1] at h; cases h
  · rw [hf.1.2] at h; cases h
  · rw [hf.2] at h; cases h

/-- Whatever the calls return: when in this run the rules do not produce actions for the message (no match,
evaluation error, interpolation failure, unparsable name), the run of `processMessage` is the run of
the parse phase, then the calls of evaluation (`open("/dev/null")`, `fork`, `waitpid`, `close` for a `command`
condition, `stat` for `isdirectory` and the file-time `date` conditions - none if the tree has none of them),
then at most one `close`; no call is mutating; the state changes in the `error` bit only, which is
set iff the parse failed or the verdict is an error. -/
theorem processMessage_noAct_run (env : PEnv) (orc : EvalOracles) (expr : Expr) (md : Maildir) (name : Bytes)
    (st : MainSt) (d : Handle) (content : Bytes)
    (hd : md.dirH = some d) (hf : st.files.get md.path name = some content)
    (orcl : Nat → Call → Res)
    (hv : (verdictAt env orc expr md.path name content orcl (runO orcl (messageParseP d md.path name content) 0).2.2).acts = false) :
    (∀ x ∈ (runOracle orcl (processMessage env orc expr md name st) 0 []).2,
      ParseEvalCall d expr x.1 ∧ x.1.mutating = false) ∧
    (∃ E L, (runOracle orcl (processMessage env orc expr md name st) 0 []).2 =
        (runOracle orcl (messageParseP d md.path name content) 0 []).2 ++ E ++ L ∧
        (∀ x ∈ E, EvalCallOf expr x.1) ∧ ∀ x ∈ L, IsClose x.1) ∧
    (runOracle orcl (processMessage env orc expr md name st) 0 []).1 =
      (if (runOracle orcl (messageParseP d md.path name content) 0 []).1.isNone ||
          (verdictAt env orc expr md.path name content orcl (runO orcl (messageParseP d md.path name content) 0).2.2).isErr
        then { st with error := true } else st, md) := by
  have hK := processMessage_eq env orc expr md name st d content hd hf
  have hall := all_messageParseP_as d md.path name content
  have hpm : ParsedAs md.path name content (runO orcl (messageParseP d md.path name content) 0).1 := by
    have := all_runOracle_val hall orcl 0 []
    rwa [runOracle_eq] at this
  have hparse := calls_runO_mem (parse_messageParseP d md.path name content) orcl 0
  rw [hK]
  simp only [runOracle_eq, runO_bind, List.nil_append]
  generalize runO orcl (messageParseP d md.path name content) 0 = P at hv hpm hparse ⊢
  obtain ⟨pm, trP, j⟩ := P
  dsimp only at hv hpm hparse ⊢
  cases pm with
  | none =>
    simp only [afterParse, runO_ret, List.append_nil, Option.isNone_none, Bool.true_or, if_true]
    refine ⟨fun x hx => ⟨.inl (hparse x hx), (hparse x hx).quiet.1⟩, ⟨[], [], by simp, by simp, by simp⟩, ?_⟩
    first | trivial | rfl
  | some ms =>
    have hvd := verdictAt_of_parsed env orc expr md.path name content ms hpm orcl j
    have heval := calls_runO_mem (evalMs_calls env orc expr ms) orcl j
    simp only [afterParse, runO_bind]
    generalize runO orcl (evalMs env orc expr ms) j = E at hvd heval ⊢
    obtain ⟨ev, trE, j2⟩ := E
    dsimp only at hvd heval ⊢
    rw [hvd]
    obtain ⟨hc, ha⟩ := afterVerdict_noAct env md name st ms _ hv
    have hclose := calls_runO_mem hc orcl j2
    have hval := all_runO' ha orcl j2
    refine ⟨?_, ⟨trE, _, by simp, heval, hclose⟩, ?_⟩
    · intro x hx
      simp only [List.mem_append] at hx
      rcases hx with hx | hx | hx
      · exact ⟨.inl (hparse x hx), (hparse x hx).quiet.1⟩
      · exact ⟨.inr (heval x hx), (heval x hx).evalCall.quiet⟩
      · exact ⟨.inl (.inr (.inr (hclose x hx))), by obtain ⟨fd, h⟩ := hclose x hx; rw [h]; rfl⟩
    · rw [hval]
      simp [noActOutcome]

/-- The pure verdict in terms of evaluation and interpolation, for a name that parses. -/
theorem verdict_of_parts (env : PEnv) (orc : EvalOracles) (expr : Expr) (dir name content p n : Bytes) (mf : MFlags)
    (hp : pathjoin PATH_MAX dir name = some p) (hn : strlcpyFits NAME_MAX1 name = some n) (hmf : flagsParse n = some mf) :
    verdict env orc expr dir name content =
      match eval (msgEnv env orc p) (parseMessage content) expr 0 (parseMessage content) { ml := [], flags := mf } with
      | (.error, _) => .error
      | (.nomatch, _) => .nomatch
      | (.match, est) =>
        match matchesInterpolate (msgEnv env orc p) est.ml
            (partMsg (parseMessage content) ((getAttachments (parseMessage content)).getD [])) with
        | none => .interpFail
        | some (ml, msgs) => .act ml msgs est.flags := by
  unfold verdict fileMs
  simp only [hp, hn, hmf, msVerdict]
  generalize eval (msgEnv env orc p) (parseMessage content) expr 0 (parseMessage content) { ml := [], flags := mf } = r
  obtain ⟨t, est⟩ := r
  cases t <;> rfl

/-- The run's verdict in terms of the result of evaluation in the run, for a name that parses. -/
theorem verdictAt_of_parts (env : PEnv) (orc : EvalOracles) (expr : Expr) (dir name content p n : Bytes) (mf : MFlags)
    (hp : pathjoin PATH_MAX dir name = some p) (hn : strlcpyFits NAME_MAX1 name = some n) (hmf : flagsParse n = some mf)
    (orcl : Nat → Call → Res) (j : Nat) :
    verdictAt env orc expr dir name content orcl j =
      match (runO orcl (evalP (msgEnv env orc p) expr (parseMessage content) mf) j).1 with
      | (.error, _) => .error
      | (.nomatch, _) => .nomatch
      | (.match, est) =>
        match matchesInterpolate (msgEnv env orc p) est.ml
            (partMsg (parseMessage content) ((getAttachments (parseMessage content)).getD [])) with
        | none => .interpFail
        | some (ml, msgs) => .act ml msgs est.flags := by
  unfold verdictAt fileMs
  simp only [hp, hn, hmf, evalMs]
  generalize (runO orcl (evalP (msgEnv env orc p) expr (parseMessage content) mf) j).1 = r
  obtain ⟨t, est⟩ := r
  cases t <;> rfl

/-- `processMessage_noAct_run` with the hypothesis spelled out: in this run evaluation says no match or error, or
interpolation of the list it produced fails. -/
theorem processMessage_noMatch_run (env : PEnv) (orc : EvalOracles) (expr : Expr) (md : Maildir) (name : Bytes)
    (st : MainSt) (d : Handle) (content p n : Bytes) (mf : MFlags)
    (hd : md.dirH = some d) (hf : st.files.get md.path name = some content)
    (hp : pathjoin PATH_MAX md.path name = some p) (hn : strlcpyFits NAME_MAX1 name = some n)
    (hmf : flagsParse n = some mf)
    (orcl : Nat → Call → Res) (ev : Tri × St)
    (hev : (runO orcl (evalP (msgEnv env orc p) expr (parseMessage content) mf)
      (runO orcl (messageParseP d md.path name content) 0).2.2).1 = ev)
    (hno : ev.1 = .nomatch ∨ ev.1 = .error ∨
      (ev.1 = .match ∧ (matchesInterpolate (msgEnv env orc p) ev.2.ml
          (partMsg (parseMessage content) ((getAttachments (parseMessage content)).getD []))).isNone = true)) :
    (∀ x ∈ (runOracle orcl (processMessage env orc expr md name st) 0 []).2,
      ParseEvalCall d expr x.1 ∧ x.1.mutating = false) ∧
    (∃ E L, (runOracle orcl (processMessage env orc expr md name st) 0 []).2 =
        (runOracle orcl (messageParseP d md.path name content) 0 []).2 ++ E ++ L ∧
        (∀ x ∈ E, EvalCallOf expr x.1) ∧ ∀ x ∈ L, ∃ fd, x.1 = .close fd) ∧
    (runOracle orcl (processMessage env orc expr md name st) 0 []).1 =
      (if (runOracle orcl (messageParseP d md.path name content) 0 []).1.isNone || ev.1 != .nomatch
        then { st with error := true } else st, md) := by
  have hv := verdictAt_of_parts env orc expr md.path name content p n mf hp hn hmf orcl
    (runO orcl (messageParseP d md.path name content) 0).2.2
  rw [hev] at hv
  obtain ⟨t, est⟩ := ev
  have key : (verdictAt env orc expr md.path name content orcl (runO orcl (messageParseP d md.path name content) 0).2.2).acts = false ∧
      (verdictAt env orc expr md.path name content orcl (runO orcl (messageParseP d md.path name content) 0).2.2).isErr = (t != .nomatch) := by
    cases t with
    | «match» =>
      rcases hno with h1 | h1 | ⟨-, h1⟩
      · cases h1
      · cases h1
      · dsimp only at h1 hv
        generalize matchesInterpolate (msgEnv env orc p) est.ml _ = mi at h1 hv
        cases mi with
        | none => rw [hv]; exact ⟨rfl, rfl⟩
        | some x => cases h1
    | «nomatch» => rw [hv]; exact ⟨rfl, rfl⟩
    | error => rw [hv]; exact ⟨rfl, rfl⟩
  obtain ⟨ha, he⟩ := key
  have := processMessage_noAct_run env orc expr md name st d content hd hf orcl ha
  rw [he] at this
  exact this

/-- `processMessage_noMatch_run` for a rule tree that asks the operating system nothing, in terms of the pure evaluator:
only the calls of parsing, no `fork`. -/
theorem processMessage_noMatch_run_pure (env : PEnv) (orc : EvalOracles) (expr : Expr) (md : Maildir) (name : Bytes)
    (st : MainSt) (d : Handle) (content p n : Bytes) (mf : MFlags)
    (hd : md.dirH = some d) (hf : st.files.get md.path name = some content)
    (hp : pathjoin PATH_MAX md.path name = some p) (hn : strlcpyFits NAME_MAX1 name = some n)
    (hmf : flagsParse n = some mf) (hfree : asksFree expr = true)
    (hno :
      (eval (msgEnv env orc p) (parseMessage content) expr 0 (parseMessage content) { ml := [], flags := mf }).1 = .nomatch ∨
      (eval (msgEnv env orc p) (parseMessage content) expr 0 (parseMessage content) { ml := [], flags := mf }).1 = .error ∨
      ((eval (msgEnv env orc p) (parseMessage content) expr 0 (parseMessage content) { ml := [], flags := mf }).1 = .match ∧
       (matchesInterpolate (msgEnv env orc p)
          (eval (msgEnv env orc p) (parseMessage content) expr 0 (parseMessage content) { ml := [], flags := mf }).2.ml
          (partMsg (parseMessage content) ((getAttachments (parseMessage content)).getD []))).isNone = true))
    (orcl : Nat → Call → Res) :
    (∀ x ∈ (runOracle orcl (processMessage env orc expr md name st) 0 []).2,
      ((∃ nm, x.1 = .openRd d nm) ∨ (∃ fd, x.1 = .read fd) ∨ ∃ fd, x.1 = .close fd) ∧
        x.1.mutating = false ∧ x.1.isFork = false) ∧
    (∃ L, (runOracle orcl (processMessage env orc expr md name st) 0 []).2 =
        (runOracle orcl (messageParseP d md.path name content) 0 []).2 ++ L ∧ ∀ x ∈ L, ∃ fd, x.1 = .close fd) ∧
    (runOracle orcl (processMessage env orc expr md name st) 0 []).1 =
      (if (runOracle orcl (messageParseP d md.path name content) 0 []).1.isNone ||
          (eval (msgEnv env orc p) (parseMessage content) expr 0 (parseMessage content) { ml := [], flags := mf }).1 != .nomatch
        then { st with error := true } else st, md) := by
  have hev : (Own.runO orcl (evalP (msgEnv env orc p) expr (parseMessage content) mf)
      (Own.runO orcl (messageParseP d md.path name content) 0).2.2).1 =
      eval (msgEnv env orc p) (parseMessage content) expr 0 (parseMessage content) { ml := [], flags := mf } := by
    rw [← noSys_msgEnv, evalP_asksFree (msgEnv env orc p) expr hfree]
    rfl
  obtain ⟨h1, ⟨E, L, h2, hE, hL⟩, h3⟩ :=
    processMessage_noMatch_run env orc expr md name st d content p n mf hd hf hp hn hmf orcl _ hev hno
  have hE0 : E = [] := by
    apply List.eq_nil_iff_forall_not_mem.2
    intro x hx
    have := (ParseEvalCall.of_asksFree (d := d) hfree (.inr (hE x hx)))
    have hq := (hE x hx).evalCall
    -- an evaluation call of a tree that asks nothing does not exist
    have hf' := hfree
    simp only [asksFree, Bool.and_eq_true, Bool.not_eq_true'] at hf'
    rcases hE x hx with ⟨hc, _⟩ | ⟨hs | hs, _⟩
    · rw [hf'.1.1] at hc; cases hc
    · rw [hf'.1.2] at hs; cases hs
    · rw [hf'.2] at hs; cases hs
  subst hE0
  refine ⟨fun x hx => ?_, ⟨L, by simpa using h2, hL⟩, h3⟩
  have hpc := ParseEvalCall.of_asksFree hfree (h1 x hx).1
  exact ⟨hpc, hpc.quiet⟩


/-- The two degenerate cases: a maildir that is not open, and a name the model has no content for. -/
theorem processMessage_degenerate_run (env : PEnv) (orc : EvalOracles) (expr : Expr) (md : Maildir) (name : Bytes)
    (st : MainSt) (orcl : Nat → Call → Res) (i : Nat) (tr : List (Call × Res)) :
    (md.dirH = none → runOracle orcl (processMessage env orc expr md name st) i tr = ((st, md), tr)) ∧
    (md.dirH.isSome = true → st.files.get md.path name = none →
      runOracle orcl (processMessage env orc expr md name st) i tr = (({ st with error := true }, md), tr)) := by
  constructor
  · intro hd
    rw [processMessage_noDir env orc expr md name st hd]
    rfl
  · intro hd hf
    cases hd' : md.dirH with
    | none => rw [hd'] at hd; cases hd
    | some d =>
      rw [processMessage_unknown env orc expr md name st d hd' hf]
      rfl

end Mdsort.Proofs
