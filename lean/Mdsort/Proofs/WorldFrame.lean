import Mdsort.Proofs.Captures
import Mdsort.Proofs.WorldOwnScripts

/-!
# `processMessage` as "parse, then what the rules decide" (C03/C04 at world level)

`processMessage` is the parse phase (`messageParseP`) followed by a continuation that depends only
on the *verdict* of the rules on the parsed message: no match, evaluation error, interpolation
failure, or a list of actions.  In the first three cases the continuation only closes the message's
descriptor (`C03_no_match_no_effect`).
-/

namespace Mdsort.Proofs
open Mdsort Mdsort.Model
open Mdsort.Proofs.World (Calls All bind_eq pure_eq call_bind ret_bind call_bind' bind_assoc)
open Mdsort.Proofs.Own (runO runO_bind runO_ret runO_call runOracle_eq)

/-! ## the verdict of the rules on a message -/

/-- What evaluation and interpolation decide for one message. -/
inductive Verdict where
  | unparsable                -- the path does not fit, the name is too long or its flag suffix is invalid
  | nomatch
  | error                     -- evaluation error
  | interpFail                -- the rules matched, interpolation of an action's strings failed
  | act (ml : MatchList) (msgs : Nat → Msg) (flags : MFlags)

def Verdict.acts : Verdict → Bool
  | .act .. => true
  | _ => false

/-- The cases in which `processMessage` sets `error` on account of the rules. -/
def Verdict.isErr : Verdict → Bool
  | .unparsable | .error | .interpFail => true
  | _ => false

/-- The verdict on a parsed message. -/
def msVerdict (env : PEnv) (orc : EvalOracles) (expr : Expr) (ms : MsgSt) : Verdict :=
  match eval (msgEnv env orc ms.path) ms.msg expr 0 ms.msg { ml := [], flags := ms.flags } with
  | (.error, _) => .error
  | (.nomatch, _) => .nomatch
  | (.match, est) =>
    match matchesInterpolate (msgEnv env orc ms.path) est.ml (partMsg ms.msg ms.parts) with
    | none => .interpFail
    | some (ml, msgs) => .act ml msgs est.flags

/-- The verdict on the file `name` of directory `dir` with content `content`. -/
def verdict (env : PEnv) (orc : EvalOracles) (expr : Expr) (dir name content : Bytes) : Verdict :=
  match pathjoin PATH_MAX dir name, strlcpyFits NAME_MAX1 name with
  | some p, some n =>
    match flagsParse n with
    | some mf =>
      msVerdict env orc expr
        { name := n, path := p, fd := none, msg := parseMessage content,
          parts := (getAttachments (parseMessage content)).getD [], flags := mf, loc := none, content := content }
    | none => .unparsable
  | _, _ => .unparsable

/-! ## the shape of `processMessage` -/

/-- `message_free`. -/
def freeP (ms : MsgSt) : Prog Unit :=
  match ms.fd with
  | some h => (call (.close h)).bind fun _ => .ret ()
  | none => .ret ()

/-- What `processMessage` does once the rules have decided. -/
def afterVerdict (env : PEnv) (md : Maildir) (name : Bytes) (st : MainSt) (ms : MsgSt) : Verdict → Prog (MainSt × Maildir)
  | .unparsable => (freeP ms).bind fun _ => .ret ({ st with error := true }, md)
  | .error => (freeP ms).bind fun _ => .ret ({ st with error := true }, md)
  | .interpFail => (freeP ms).bind fun _ => .ret ({ st with error := true }, md)
  | .nomatch => (freeP ms).bind fun _ => .ret (st, md)
  | .act ml msgs fl =>
    let ms1 : MsgSt := { ms with msg := msgs 0, flags := fl }
    let st1 : MainSt := { st with log := st.log ++ inspectLines env ml ms.path }
    if env.dryrun then (freeP ms1).bind fun _ => .ret (st1, md)
    else
      (matchesExec env ml { src := md, chsrc := false, ms := ms1, reject := false }).bind fun x =>
        (freeP x.1.ms).bind fun _ =>
          .ret ({ st1 with error := st1.error || x.2, reject := st1.reject || x.1.reject,
                           files := afterExec st1.files md.path name x.1.ms }, md)

/-- The continuation of the parse phase in `processMessage`. -/
def afterParse (env : PEnv) (orc : EvalOracles) (expr : Expr) (md : Maildir) (name : Bytes) (st : MainSt) :
    Option MsgSt → Prog (MainSt × Maildir)
  | none => .ret ({ st with error := true }, md)
  | some ms => afterVerdict env md name st ms (msVerdict env orc expr ms)

theorem processMessage_eq (env : PEnv) (orc : EvalOracles) (expr : Expr) (md : Maildir) (name : Bytes) (st : MainSt)
    (d : Handle) (content : Bytes) (hd : md.dirH = some d) (hf : st.files.get md.path name = some content) :
    processMessage env orc expr md name st =
      (messageParseP d md.path name content).bind (afterParse env orc expr md name st) := by
  unfold processMessage
  simp only [hd, hf]
  show (messageParseP d md.path name content).bind _ = _
  congr 1
  funext pm
  cases pm with
  | none => rfl
  | some ms =>
    simp only [afterParse, msVerdict, msgEnv]
    generalize eval _ ms.msg expr 0 ms.msg _ = r
    obtain ⟨t, est⟩ := r
    cases t with
    | error => rfl
    | «nomatch» => rfl
    | «match» =>
      dsimp only
      generalize matchesInterpolate _ est.ml (partMsg ms.msg ms.parts) = r2
      cases r2 with
      | none => rfl
      | some x =>
        obtain ⟨ml, msgs⟩ := x
        dsimp only [afterVerdict]
        cases env.dryrun <;> rfl

theorem processMessage_noDir (env : PEnv) (orc : EvalOracles) (expr : Expr) (md : Maildir) (name : Bytes) (st : MainSt)
    (hd : md.dirH = none) : processMessage env orc expr md name st = .ret (st, md) := by
  unfold processMessage
  simp only [hd]
  rfl

theorem processMessage_unknown (env : PEnv) (orc : EvalOracles) (expr : Expr) (md : Maildir) (name : Bytes) (st : MainSt)
    (d : Handle) (hd : md.dirH = some d) (hf : st.files.get md.path name = none) :
    processMessage env orc expr md name st = .ret ({ st with error := true }, md) := by
  unfold processMessage
  simp only [hd, hf]
  rfl

/-! ## what a successful parse returns -/

/-- What a successful `message_parse` returns (everything but the descriptor is determined by the
directory, the name and the content of the file). -/
def ParsedAs (dir name content : Bytes) (pm : Option MsgSt) : Prop :=
  ∀ ms, pm = some ms → ∃ p mf, pathjoin PATH_MAX dir name = some p ∧ strlcpyFits NAME_MAX1 name = some name ∧
    flagsParse name = some mf ∧ ms.name = name ∧ ms.path = p ∧ ms.msg = parseMessage content ∧ ms.flags = mf ∧
    ms.parts = (getAttachments (parseMessage content)).getD []

theorem all_messageParseP_as (d : Handle) (dir name content : Bytes) :
    All (ParsedAs dir name content) (messageParseP d dir name content) := by
  unfold messageParseP
  simp only [bind_eq, pure_eq, call_bind]
  refine all_call fun r => ?_
  split
  · refine World.All.bind_of_forall _ fun failed => ?_
    split
    · exact all_call fun _ => all_ret (fun ms h => by cases h)
    · split
      · split
        · refine all_ret ?_
          intro ms h
          cases h
          rename_i p n hp hn _ mf hmf
          cases Own.strlcpyFits_some hn
          exact ⟨_, _, hp, hn, hmf, rfl, rfl, rfl, rfl, rfl⟩
        · exact all_call fun _ => all_ret (fun ms h => by cases h)
      · exact all_call fun _ => all_ret (fun ms h => by cases h)
  · exact all_ret (fun ms h => by cases h)

/-- The verdict on a parsed message is the verdict on the file it was parsed from. -/
theorem msVerdict_of_parsed (env : PEnv) (orc : EvalOracles) (expr : Expr) (dir name content : Bytes) (ms : MsgSt)
    (h : ParsedAs dir name content (some ms)) : msVerdict env orc expr ms = verdict env orc expr dir name content := by
  obtain ⟨p, mf, hp, hn, hmf, h1, h2, h3, h4, h5⟩ := h ms rfl
  unfold verdict
  simp only [hp, hn, hmf]
  unfold msVerdict
  simp only [h2, h3, h4, h5]

/-! ## no action: only the descriptor is closed -/

theorem freeP_calls (ms : MsgSt) : Calls IsClose (freeP ms) := by
  unfold freeP
  split
  · exact calls_call ⟨_, rfl⟩ fun _ => calls_ret _
  · exact calls_ret _

/-- The outcome when the verdict is not a list of actions. -/
def noActOutcome (st : MainSt) (v : Verdict) : MainSt := if v.isErr then { st with error := true } else st

theorem afterVerdict_noAct (env : PEnv) (md : Maildir) (name : Bytes) (st : MainSt) (ms : MsgSt) (v : Verdict)
    (hv : v.acts = false) :
    Calls IsClose (afterVerdict env md name st ms v) ∧
    All (fun r => r = (noActOutcome st v, md)) (afterVerdict env md name st ms v) := by
  have hfree : ∀ r : MainSt × Maildir, Calls IsClose ((freeP ms).bind fun _ => .ret r) ∧
      All (fun x => x = r) ((freeP ms).bind fun _ => .ret r) := by
    intro r
    refine ⟨World.Calls.bind (freeP_calls ms) fun _ => calls_ret _, World.All.bind_of_forall _ fun _ => rfl⟩
  cases v with
  | act ml msgs fl => cases hv
  | unparsable => exact hfree _
  | error => exact hfree _
  | interpFail => exact hfree _
  | «nomatch» => exact hfree _

/-- Whatever the calls return: when the rules do not produce actions for the message (no match,
evaluation error, interpolation failure, unparsable name), the run of `processMessage` is the run of
the parse phase followed by at most one `close`; the state changes in the `error` bit only, which is
set iff the parse failed or the verdict is an error. -/
theorem processMessage_noAct_run (env : PEnv) (orc : EvalOracles) (expr : Expr) (md : Maildir) (name : Bytes)
    (st : MainSt) (d : Handle) (content : Bytes)
    (hd : md.dirH = some d) (hf : st.files.get md.path name = some content)
    (hv : (verdict env orc expr md.path name content).acts = false)
    (orcl : Nat → Call → Res) :
    (∀ x ∈ (runOracle orcl (processMessage env orc expr md name st) 0 []).2,
      ParseCall d x.1 ∧ x.1.mutating = false ∧ x.1 ≠ .fork) ∧
    (∃ L, (runOracle orcl (processMessage env orc expr md name st) 0 []).2 =
        (runOracle orcl (messageParseP d md.path name content) 0 []).2 ++ L ∧ ∀ x ∈ L, IsClose x.1) ∧
    (runOracle orcl (processMessage env orc expr md name st) 0 []).1 =
      (if (runOracle orcl (messageParseP d md.path name content) 0 []).1.isNone ||
          (verdict env orc expr md.path name content).isErr then { st with error := true } else st, md) := by
  have hK := processMessage_eq env orc expr md name st d content hd hf
  have hall := all_messageParseP_as d md.path name content
  have hK' : ∀ pm, ParsedAs md.path name content pm →
      Calls IsClose (afterParse env orc expr md name st pm) ∧
      All (fun r => r = (if pm.isNone || (verdict env orc expr md.path name content).isErr then { st with error := true } else st, md))
        (afterParse env orc expr md name st pm) := by
    intro pm hpm
    cases pm with
    | none => exact ⟨calls_ret _, rfl⟩
    | some ms =>
      have hvd := msVerdict_of_parsed env orc expr md.path name content ms hpm
      simp only [afterParse, hvd]
      exact afterVerdict_noAct env md name st ms _ hv
  have hcalls : Calls (ParseCall d) (processMessage env orc expr md name st) := by
    rw [hK]
    exact calls_bind_all (parse_messageParseP d md.path name content) hall
      fun pm hpm => calls_mono (hK' pm hpm).1 fun c hc => .inr (.inr hc)
  have hpm : ParsedAs md.path name content (runO orcl (messageParseP d md.path name content) 0).1 := by
    have := all_runOracle_val hall orcl 0 []
    rwa [runOracle_eq] at this
  refine ⟨?_, ?_, ?_⟩
  · intro x hx
    rcases calls_runOracle_mem hcalls orcl 0 [] x hx with h | h
    · simp at h
    · exact ⟨h, h.quiet⟩
  · rw [hK]
    simp only [runOracle_eq, runO_bind, List.nil_append]
    refine ⟨_, rfl, ?_⟩
    intro x hx
    have := calls_runOracle_mem (hK' _ hpm).1 orcl (runO orcl (messageParseP d md.path name content) 0).2.2 [] x
      (by rw [runOracle_eq]; simpa using hx)
    rcases this with h | h
    · simp at h
    · exact h
  · rw [hK]
    simp only [runOracle_eq, runO_bind, List.nil_append]
    have := all_runOracle_val (hK' _ hpm).2 orcl (runO orcl (messageParseP d md.path name content) 0).2.2 []
    rw [runOracle_eq] at this
    exact this

/-- The verdict in terms of evaluation and interpolation, for a name that parses. -/
theorem verdict_of_parts (env : PEnv) (orc : EvalOracles) (expr : Expr) (dir name content p n : Bytes) (mf : MFlags)
    (hp : pathjoin PATH_MAX dir name = some p) (hn : strlcpyFits NAME_MAX1 name = some n) (hmf : flagsParse n = some mf) :
    verdict env orc expr dir name content =
      match eval (msgEnv env orc p) (parseMessage content) expr 0 (parseMessage content) { ml := [], flags := mf } with
      | (.error, _) => .error
      | (.nomatch, _) => .nomatch
      | (.match, est) =>
        match matchesInterpolate (msgEnv env orc p) est.ml
            (partMsg (parseMessage content) ((getAttachments (parseMessage content)).getD [])) with
        | none => .interpFail
        | some (ml, msgs) => .act ml msgs est.flags := by
  unfold verdict
  simp only [hp, hn, hmf]
  rfl

/-- `processMessage_noAct_run` with the hypothesis spelled out: evaluation says no match or error, or
interpolation fails. -/
theorem processMessage_noMatch_run (env : PEnv) (orc : EvalOracles) (expr : Expr) (md : Maildir) (name : Bytes)
    (st : MainSt) (d : Handle) (content p n : Bytes) (mf : MFlags)
    (hd : md.dirH = some d) (hf : st.files.get md.path name = some content)
    (hp : pathjoin PATH_MAX md.path name = some p) (hn : strlcpyFits NAME_MAX1 name = some n)
    (hmf : flagsParse n = some mf)
    (hno : (eval (msgEnv env orc p) (parseMessage content) expr 0 (parseMessage content) { ml := [], flags := mf }).1 = .nomatch ∨
      (eval (msgEnv env orc p) (parseMessage content) expr 0 (parseMessage content) { ml := [], flags := mf }).1 = .error ∨
      ((eval (msgEnv env orc p) (parseMessage content) expr 0 (parseMessage content) { ml := [], flags := mf }).1 = .match ∧
       (matchesInterpolate (msgEnv env orc p)
          (eval (msgEnv env orc p) (parseMessage content) expr 0 (parseMessage content) { ml := [], flags := mf }).2.ml
          (partMsg (parseMessage content) ((getAttachments (parseMessage content)).getD []))).isNone = true))
    (orcl : Nat → Call → Res) :
    (∀ x ∈ (runOracle orcl (processMessage env orc expr md name st) 0 []).2,
      ((∃ nm, x.1 = .openRd d nm) ∨ (∃ fd, x.1 = .read fd) ∨ ∃ fd, x.1 = .close fd) ∧
        x.1.mutating = false ∧ x.1 ≠ .fork) ∧
    (∃ L, (runOracle orcl (processMessage env orc expr md name st) 0 []).2 =
        (runOracle orcl (messageParseP d md.path name content) 0 []).2 ++ L ∧ ∀ x ∈ L, ∃ fd, x.1 = .close fd) ∧
    (runOracle orcl (processMessage env orc expr md name st) 0 []).1 =
      (if (runOracle orcl (messageParseP d md.path name content) 0 []).1.isNone ||
          (eval (msgEnv env orc p) (parseMessage content) expr 0 (parseMessage content) { ml := [], flags := mf }).1 != .nomatch
        then { st with error := true } else st, md) := by
  have hv := verdict_of_parts env orc expr md.path name content p n mf hp hn hmf
  generalize eval (msgEnv env orc p) (parseMessage content) expr 0 (parseMessage content) { ml := [], flags := mf } = r
    at hno hv ⊢
  obtain ⟨t, est⟩ := r
  have key : (verdict env orc expr md.path name content).acts = false ∧
      (verdict env orc expr md.path name content).isErr = (t != .nomatch) := by
    cases t with
    | «match» =>
      rcases hno with h1 | h1 | ⟨-, h1⟩
      · cases h1
      · cases h1
      · dsimp only at h1 hv
        generalize matchesInterpolate (msgEnv env orc p) est.ml _ = mi at h1 hv
        cases mi with
        | none => rw [hv]; exact ⟨rfl, rfl⟩
        | some x => cases h1
    | «nomatch» => rw [hv]; exact ⟨rfl, rfl⟩
    | error => rw [hv]; exact ⟨rfl, rfl⟩
  obtain ⟨ha, he⟩ := key
  have := processMessage_noAct_run env orc expr md name st d content hd hf ha orcl
  rw [he] at this
  exact this

/-- The two degenerate cases: a maildir that is not open, and a name the model has no content for. -/
theorem processMessage_degenerate_run (env : PEnv) (orc : EvalOracles) (expr : Expr) (md : Maildir) (name : Bytes)
    (st : MainSt) (orcl : Nat → Call → Res) (i : Nat) (tr : List (Call × Res)) :
    (md.dirH = none → runOracle orcl (processMessage env orc expr md name st) i tr = ((st, md), tr)) ∧
    (md.dirH.isSome = true → st.files.get md.path name = none →
      runOracle orcl (processMessage env orc expr md name st) i tr = (({ st with error := true }, md), tr)) := by
  constructor
  · intro hd
    rw [processMessage_noDir env orc expr md name st hd]
    rfl
  · intro hd hf
    cases hd' : md.dirH with
    | none => rw [hd'] at hd; cases hd
    | some d =>
      rw [processMessage_unknown env orc expr md name st d hd' hf]
      rfl

end Mdsort.Proofs
