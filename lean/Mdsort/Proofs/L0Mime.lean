import Mdsort.Model.L0.Mime
import Mdsort.Model.Mime
import Mdsort.Proofs.L0Message
import Mdsort.Proofs.L0Decode

/-!
# L0 MIME code: no fault, no stale pointer

`skipline`, `parseboundary`, `findboundary`, `message_get_header1` and `parseattachments` with the parent's
attachment table as a growing vector: on messages whose buffers are NUL-terminated every access is inside its
object and every pointer into the table is dereferenced in the generation it was taken in.
-/

namespace Mdsort.L0
open Mdsort Mdsort.L0.Buf

/-! ## skipline, scanUntil -/

theorem skipLine_eq {b : Buf} {i : Nat} {c : UInt8} (hg : b.get? i = .ok c) :
    skipLine b i = if c == 0 then .ok i else if c == 10 then .ok (i + 1) else skipLine b (i + 1) := by
  rw [skipLine]; split
  · rename_i e he; rw [hg] at he; cases he
  · rename_i c' hc'; rw [hg] at hc'; cases hc'; rfl

/-- `skipline`: no fault, the result is the L1 suffix. -/
theorem skipLine_refines (b : Buf) {i : Nat} (h : b.HasNul i) :
    ∃ j, skipLine b i = .ok j ∧ i ≤ j ∧ b.HasNul j ∧ b.view j = Model.skipLine (b.view i) := by
  generalize hm : b.size - i = m
  induction m using Nat.strongRecOn generalizing i with
  | _ m ih =>
    have := h.lt
    rcases h.cases with ⟨hg, hv⟩ | ⟨c, hc, hg, hv, hn'⟩
    · rw [skipLine_eq hg, hv]
      exact ⟨i, by simp, Nat.le_refl _, h, by simp [hv, Model.skipLine]⟩
    · rw [skipLine_eq hg, hv]
      simp only [beq_iff_eq, hc, if_false, Model.skipLine]
      by_cases h10 : c = 10
      · simp only [h10, if_true]
        exact ⟨i + 1, rfl, by omega, hn', rfl⟩
      · simp only [h10, if_false]
        obtain ⟨j, hj, h1, h2⟩ := ih _ (by omega) hn' rfl
        exact ⟨j, hj, by omega, h2⟩

theorem scanUntil_eq {b : Buf} {i : Nat} {x : UInt8} (c : UInt8) (hg : b.get? i = .ok x) :
    scanUntil b i c = if x != 0 && x != c then scanUntil b (i + 1) c else .ok i := by
  rw [scanUntil]; split
  · rename_i e he; rw [hg] at he; cases he
  · rename_i c' hc'; rw [hg] at hc'; cases hc'; rfl

theorem scanUntil_ok (b : Buf) {i : Nat} (h : b.HasNul i) (c : UInt8) :
    ∃ j, scanUntil b i c = .ok j ∧ i ≤ j ∧ b.HasNul j ∧
      b.view j = (b.view i).dropWhile (fun x => x != c) := by
  generalize hm : b.size - i = m
  induction m using Nat.strongRecOn generalizing i with
  | _ m ih =>
    have := h.lt
    rcases h.cases with ⟨hg, hv⟩ | ⟨x, hx, hg, hv, hn'⟩
    · rw [scanUntil_eq c hg]
      exact ⟨i, by simp, Nat.le_refl _, h, by simp [hv]⟩
    · rw [scanUntil_eq c hg, hv]
      by_cases hxc : x = c
      · have e : ¬ (x != 0 && x != c) = true := by simp [hxc]
        rw [if_neg e]
        refine ⟨i, rfl, Nat.le_refl _, h, ?_⟩
        rw [hv]; simp [List.dropWhile_cons, hxc]
      · have e : (x != 0 && x != c) = true := by simp [hx, hxc]
        rw [if_pos e]
        obtain ⟨j, hj, h1, h2, h3⟩ := ih _ (by omega) hn' rfl
        refine ⟨j, hj, by omega, h2, ?_⟩
        rw [h3]; simp [List.dropWhile_cons, hxc]

/-! ## parseboundary -/

theorem startsWith_length {s p : Bytes} (h : startsWith s p = true) : p.length ≤ s.length := by
  simp only [startsWith, List.isPrefixOf_iff_prefix] at h
  exact h.length_le

theorem startsWithCI_length {s p : Bytes} (h : Model.startsWithCI s p = true) : p.length ≤ s.length := by
  unfold Model.startsWithCI at h
  have := congrArg List.length (beq_iff_eq.mp h)
  simp only [List.length_map, List.length_take] at this
  omega

theorem tolower_eq_zero {x : UInt8} (h : tolower x = 0) : x = 0 := by
  unfold tolower at h
  split at h
  · rename_i hu
    exfalso
    simp only [isupper, Bool.and_eq_true, decide_eq_true_eq] at hu
    have h1 : 65 ≤ x.toNat := by simpa using UInt8.le_iff_toNat_le.mp hu.1
    have h2 : x.toNat ≤ 90 := by simpa using UInt8.le_iff_toNat_le.mp hu.2
    have h3 := congrArg UInt8.toNat h
    simp [UInt8.toNat_add] at h3
    omega
  · exact h

/-- `strncasecmp` in terms of the views. -/
theorem strncasecmpEq_spec {a p : Buf} (n : Nat) : ∀ {i j : Nat}, a.HasNul i → p.HasNul j →
    strncasecmpEq a i p j n =
      .ok (decide (((a.view i).take n).map tolower = ((p.view j).take n).map tolower)) := by
  induction n with
  | zero => intro i j _ _; simp [strncasecmpEq]
  | succ n ih =>
    intro i j ha hp
    rw [strncasecmpEq]
    rcases ha.cases with ⟨hga, hva⟩ | ⟨x, hx, hga, hva, ha'⟩ <;>
    rcases hp.cases with ⟨hgp, hvp⟩ | ⟨y, hy, hgp, hvp, hp'⟩
    · simp [hga, hgp, hva, hvp]
    · simp only [hga, hgp, hva, hvp]
      have : tolower 0 ≠ tolower y := fun h => hy (tolower_eq_zero (by rw [← h]; rfl))
      simp [this]
    · simp only [hga, hgp, hva, hvp]
      have : tolower x ≠ tolower 0 := fun h => hx (tolower_eq_zero (by rw [h]; rfl))
      simp [this]
    · simp only [hga, hgp, hva, hvp]
      by_cases hxy : tolower x = tolower y
      · simp only [hxy, bne_self_eq_false, Bool.false_eq_true, if_false, beq_iff_eq, hx]
        rw [ih ha' hp']
        simp [hxy]
      · simp [hxy]

theorem startsWithLitCI_spec {b : Buf} {i : Nat} (h : b.HasNul i) (lit : Bytes) (hl : ∀ x ∈ lit, x ≠ 0) :
    startsWithLitCI b i lit = .ok (Model.startsWithCI (b.view i) lit) := by
  unfold startsWithLitCI
  rw [strncasecmpEq_spec _ h (ofBytes_terminated lit).hasNul0, view_ofBytes_of_no_nul hl]
  congr 1
  simp only [List.take_length, Model.startsWithCI]
  rw [Bool.eq_iff_iff]
  simp

/-- `parseboundary`: no fault; the boundary it hands out is a C string. -/
theorem parseBoundary_ok (t : Buf) {i : Nat} (h : t.HasNul i) :
    ∃ r, parseBoundary t i = .ok r ∧ ∀ bnd, r = .ok bnd → bnd.Terminated := by
  unfold parseBoundary
  rw [startsWithLitCI_spec h multipartLit (by decide)]
  by_cases hs : Model.startsWithCI (t.view i) multipartLit = true
  · simp only [hs]
    obtain ⟨hn1, _⟩ := h.add 10 (startsWithCI_length hs)
    obtain ⟨s1, hs1, _, hns1, _⟩ := scanUntil_ok t hn1 59
    rw [hs1]
    simp only
    rcases hns1.cases with ⟨hg, _⟩ | ⟨c, hc, hg, _, hn2⟩
    · rw [hg]; exact ⟨_, rfl, by intro bnd hb; cases hb⟩
    · rw [hg]
      simp only [beq_iff_eq, hc, if_false]
      rw [skipBlanks_spec hn2]
      simp only
      obtain ⟨hn3, _⟩ := hn2.add _ (nspaces_le (t.view (s1 + 1)))
      rw [startsWithLitCI_spec hn3 boundaryLit (by decide)]
      by_cases hs2 : Model.startsWithCI (t.view (s1 + 1 + Mdsort.nspaces (t.view (s1 + 1)))) boundaryLit = true
      · simp only [hs2]
        obtain ⟨hn4, _⟩ := hn3.add 10 (startsWithCI_length hs2)
        obtain ⟨p, hp, _, hnp, _⟩ := scanUntil_ok t hn4 34
        rw [hp]
        simp only
        rw [get?_of_lt hnp.lt]
        simp only
        split
        · exact ⟨_, rfl, by intro bnd hb; cases hb⟩
        · split
          · exact ⟨_, rfl, by intro bnd hb; cases hb⟩
          · rw [strndup_spec hn4]
            exact ⟨_, rfl, by intro bnd hb; cases hb; exact ofBytes_terminated _⟩
      · simp only [hs2]
        exact ⟨_, rfl, by intro bnd hb; cases hb⟩
  · simp only [hs]
    exact ⟨_, rfl, by intro bnd hb; cases hb⟩

/-! ## VECTOR_SORT and message_parse_headers in full -/

theorem readKeys_ok (b : Buf) : ∀ (l : List Hdr0), (∀ h ∈ l, b.HasNul h.key) →
    ∃ ks, readKeys b l = .ok ks ∧ ks.map (·.2) = l := by
  intro l
  induction l with
  | nil => intro _; exact ⟨[], rfl, rfl⟩
  | cons h r ih =>
    intro hin
    rw [readKeys, readCStr_spec (hin h (by simp))]
    simp only
    obtain ⟨ks, hk, hm⟩ := ih (fun x hx => hin x (by simp [hx]))
    rw [hk]
    exact ⟨_, rfl, by simp [hm]⟩

/-- `VECTOR_SORT`: the key comparisons stay inside their strings; the table is permuted. -/
theorem sortHeaders_ok (b : Buf) (hs : Array Hdr0) (hin : HdrsIn b hs) :
    ∃ r, sortHeaders b hs = .ok r ∧ HdrsIn b r := by
  unfold sortHeaders
  obtain ⟨ks, hk, hm⟩ := readKeys_ok b hs.toList (fun h hh => (hin h (Array.mem_def.mpr hh)).1)
  rw [hk]
  refine ⟨_, rfl, ?_⟩
  intro x hx
  have hx' : x ∈ (ks.mergeSort fun x y => Mdsort.strcasecmp x.1 y.1 != .gt).map (·.2) := by
    simpa using hx
  obtain ⟨y, hy, rfl⟩ := List.mem_map.mp hx'
  have hy' : y ∈ ks := (List.mergeSort_perm ks _).mem_iff.mp hy
  have : y.2 ∈ hs.toList := by rw [← hm]; exact List.mem_map.mpr ⟨y, hy', rfl⟩
  exact hin _ (Array.mem_def.mpr this)

/-- What the MIME code needs of a `struct message`: `me_body` and every header point at C strings in `me_buf`. -/
def AttOk (a : Att) : Prop := a.buf.HasNul a.body ∧ HdrsIn a.buf a.headers

theorem messageParseHeaders_ok (b : Buf) (ht : b.Terminated) :
    ∃ b' hs body, messageParseHeaders b = .ok (b', hs, body) ∧ b'.HasNul body ∧ HdrsIn b' hs := by
  unfold messageParseHeaders
  obtain ⟨b', hdrs, body, hp, _, _, hnb, hin⟩ := parseHeaders_ok b ht
  rw [hp]
  simp only
  obtain ⟨r, hr, hin'⟩ := sortHeaders_ok b' hdrs.items hin
  rw [hr]
  exact ⟨b', r, body, rfl, hnb, hin'⟩

/-! ## message_get_header1 -/

theorem decodeHeader_ok (b : Buf) {val : Nat} (h : b.HasNul val) :
    ∃ d, decodeHeader b val = .ok d ∧ d.Terminated := by
  unfold decodeHeader
  obtain ⟨u, hu, hnu, _⟩ := unfoldHeader_ok b h
  rw [hu]
  simp only
  rw [rfc2047Decode_refines u hnu]
  exact ⟨_, rfl, ofBytes_terminated _⟩

theorem decodeRange_ok (m : Att) (hin : HdrsIn m.buf m.headers) :
    ∀ (n idx : Nat), idx + n ≤ m.headers.size →
      ∃ ds, decodeRange m idx n = .ok ds ∧ ds.length = n ∧ ∀ d ∈ ds, d.Terminated := by
  intro n
  induction n with
  | zero => intro idx _; exact ⟨[], rfl, rfl, by simp⟩
  | succ n ih =>
    intro idx hle
    rw [decodeRange]
    have hlt : idx < m.headers.size := by omega
    rw [Array.getElem?_eq_getElem hlt]
    simp only
    obtain ⟨d, hd, htd⟩ := decodeHeader_ok m.buf (hin _ (Array.getElem_mem hlt)).2
    rw [hd]
    simp only
    obtain ⟨ds, hds, hl, hall⟩ := ih (idx + 1) (by omega)
    rw [hds]
    refine ⟨_, rfl, by simp [hl], ?_⟩
    intro x hx
    rcases List.mem_cons.mp hx with rfl | hx
    · exact htd
    · exact hall x hx

/-- `message_get_header1`: the search, and `decodeheader` of every occurrence, make no invalid access. -/
theorem getHeader1_ok (m : Att) (hin : HdrsIn m.buf m.headers) (name : Bytes) :
    ∃ r, getHeader1 m name = .ok r ∧ ∀ t, r = some t → t.Terminated := by
  unfold getHeader1 getHeader
  obtain ⟨r, hr, hb⟩ := searchHeader_ok (kb := Buf.ofBytes name) (k := 0) (buf := m.buf) (hs := m.headers)
    (nmemb := m.headers.size) (ofBytes_terminated name).hasNul0 hin (Nat.le_refl _)
  rw [hr]
  cases r with
  | none => exact ⟨none, rfl, by simp⟩
  | some p =>
    obtain ⟨idx, nfound⟩ := p
    obtain ⟨hpos, hle⟩ := hb idx nfound rfl
    simp only
    obtain ⟨ds, hds, hl, hall⟩ := decodeRange_ok m hin nfound idx hle
    rw [hds]
    simp only
    cases ds with
    | nil => exact ⟨none, rfl, by simp⟩
    | cons v rest => exact ⟨some v, rfl, by intro t ht; cases ht; exact hall v (by simp)⟩

/-! ## findboundary -/

theorem lineStart_ok (b : Buf) {s : Nat} (h : b.HasNul s) (skip : Bool) :
    ∃ s1, lineStart b s skip = .ok s1 ∧ s ≤ s1 ∧ b.HasNul s1 := by
  unfold lineStart
  cases skip with
  | false => exact ⟨s, rfl, Nat.le_refl _, h⟩
  | true =>
    obtain ⟨j, hj, h1, h2, _⟩ := skipLine_refines b h
    exact ⟨j, hj, h1, h2⟩

theorem findBoundaryLoop_eq {bnd : Buf} {len : Nat} {b : Buf} {s : Nat} {skip : Bool} {s1 : Nat} {c : UInt8}
    (hs : lineStart b s skip = .ok s1) (h : b.get? s1 = .ok c) :
    findBoundaryLoop bnd len b s skip =
      if c == 0 then .ok none
      else
        match startsWithLit b s1 [45, 45] with
        | .error e => .error e
        | .ok false => findBoundaryLoop bnd len b s1 true
        | .ok true =>
          match strncmpEq b (s1 + 2) bnd 0 len with
          | .error e => .error e
          | .ok false => findBoundaryLoop bnd len b (s1 + 2) true
          | .ok true =>
            match startsWithLit b (s1 + 2 + len) [45, 45] with
            | .error e => .error e
            | .ok term =>
              match b.get? (afterDashes (s1 + 2 + len) term) with
              | .error e => .error e
              | .ok c4 =>
                if c4 == 10 then .ok (some (s1, term))
                else findBoundaryLoop bnd len b (afterDashes (s1 + 2 + len) term) true := by
  rw [findBoundaryLoop]
  split
  · rename_i e he; rw [hs] at he; cases he
  · rename_i s1' hs'
    rw [hs] at hs'; cases hs'
    split
    · rename_i e he; rw [h] at he; cases he
    · rename_i c' hc'
      rw [h] at hc'; cases hc'
      split
      · rename_i h0; first | rfl | simp [h0]
      · rename_i h0
        try simp only [h0, Bool.false_eq_true, if_false]
        split <;> simp only [*]
        split <;> simp only [*]
        split <;> simp only [*]
        split <;> simp only [*]

/-- `findboundary`'s loop: every `strncmp`, every `s += 2`, `s += len` and the final `*s` stay inside the buffer. -/
theorem findBoundaryLoop_ok (bnd b : Buf) (hb : bnd.HasNul 0) :
    ∀ (n s : Nat) (skip : Bool), 2 * (b.size - s) + (if skip then 0 else 1) = n → b.HasNul s →
      ∃ r, findBoundaryLoop bnd (bnd.view 0).length b s skip = .ok r ∧ ∀ p t, r = some (p, t) → b.HasNul p := by
  intro n
  induction n using Nat.strongRecOn with
  | _ n ih =>
    intro s skip hn h
    obtain ⟨s1, hs1, hle, hn1⟩ := lineStart_ok b h skip
    have hlt := hn1.lt
    rcases hn1.cases with ⟨hg, _⟩ | ⟨c, hc, hg, _, _⟩
    · rw [findBoundaryLoop_eq hs1 hg]
      exact ⟨none, by simp, by simp⟩
    · rw [findBoundaryLoop_eq hs1 hg]
      simp only [beq_iff_eq, hc, if_false]
      have hgt : skip = true → s < s1 := fun e => by subst e; exact lineStart_gt hs1 hg hc
      have hmeas : ∀ s', s1 ≤ s' → 2 * (b.size - s') + 0 < n := by
        intro s' hs'
        cases skip with
        | false => simp at hn; omega
        | true => have := hgt rfl; simp at hn; omega
      rw [startsWithLit_spec hn1 [45, 45] (by decide)]
      by_cases hsw : startsWith (b.view s1) [45, 45] = true
      · simp only [hsw]
        obtain ⟨hn2, _⟩ := hn1.add 2 (startsWith_length hsw)
        rw [strncmpEq_spec _ hn2 hb]
        by_cases hcmp : (b.view (s1 + 2)).take (bnd.view 0).length = (bnd.view 0).take (bnd.view 0).length
        · simp only [hcmp, decide_true]
          have hlen : (bnd.view 0).length ≤ (b.view (s1 + 2)).length := by
            have := congrArg List.length hcmp
            simp only [List.length_take, Nat.min_self] at this
            omega
          obtain ⟨hn3, _⟩ := hn2.add _ hlen
          rw [startsWithLit_spec hn3 [45, 45] (by decide)]
          simp only
          have hn4 : b.HasNul (afterDashes (s1 + 2 + (bnd.view 0).length)
              (startsWith (b.view (s1 + 2 + (bnd.view 0).length)) [45, 45])) := by
            unfold afterDashes
            split
            · rename_i ht
              exact (hn3.add 2 (startsWith_length ht)).1
            · exact hn3
          rw [get?_of_lt hn4.lt]
          simp only
          split
          · exact ⟨_, rfl, by intro p t hpt; cases hpt; exact hn1⟩
          · have h4 := le_afterDashes (s1 + 2 + (bnd.view 0).length)
              (startsWith (b.view (s1 + 2 + (bnd.view 0).length)) [45, 45])
            exact ih _ (hmeas _ (by omega)) _ true rfl hn4
        · simp only [hcmp, decide_false]
          exact ih _ (hmeas _ (by omega)) _ true rfl hn2
      · simp only [hsw]
        exact ih _ (hmeas _ (Nat.le_refl _)) _ true rfl hn1

/-- `findboundary`: no fault; the line it returns is inside the buffer. -/
theorem findBoundary_ok (bnd b : Buf) (hb : bnd.HasNul 0) {s : Nat} (h : b.HasNul s) :
    ∃ r, findBoundary bnd b s = .ok r ∧ ∀ p t, r = some (p, t) → b.HasNul p := by
  unfold findBoundary
  rw [strlen_spec hb]
  exact findBoundaryLoop_ok bnd b hb _ s false rfl h

theorem mime_scanners_ok (b : Buf) (hb : b.Terminated) (i : Nat) (hi : i < b.size) :
    (∃ j, skipLine b i = .ok j ∧ i ≤ j ∧ j < b.size ∧ b.view j = Model.skipLine (b.view i)) ∧
    (∃ r, parseBoundary b i = .ok r ∧ ∀ bnd, r = .ok bnd → bnd.Terminated) ∧
    (∀ bnd : Buf, bnd.Terminated →
      ∃ r, findBoundary bnd b i = .ok r ∧ ∀ p t, r = some (p, t) → i ≤ p ∧ p < b.size) := by
  have h := hb.hasNul hi
  refine ⟨?_, parseBoundary_ok b h, ?_⟩
  · obtain ⟨j, hj, h1, h2, h3⟩ := skipLine_refines b h
    exact ⟨j, hj, h1, h2.lt, h3⟩
  · intro bnd hbnd
    obtain ⟨r, hr, hp⟩ := findBoundary_ok bnd b hbnd.hasNul0 h
    refine ⟨r, hr, fun p t hpt => ?_⟩
    subst hpt
    exact ⟨(findBoundary_ge hr).1, (hp p t rfl).lt⟩

/-! ## parseattachments -/

/-- Every element of the attachment table is a well-formed `struct message`. -/
def VecOk (v : Vec Att) : Prop := ∀ a ∈ v.items, AttOk a

/-- The pointer was taken in the current generation of the table and is inside it. -/
def PtrOk (v : Vec Att) (p : Ptr) : Prop := p.gen = v.gen ∧ p.idx < v.items.size

def RefOk (v : Vec Att) : MsgRef → Prop
  | .root => True
  | .att p => PtrOk v p

theorem derefMsg_ok (root : Att) (hr : AttOk root) (v : Vec Att) (hv : VecOk v) (msg : MsgRef) (hm : RefOk v msg) :
    ∃ m, derefMsg root v msg = .ok m ∧ AttOk m := by
  cases msg with
  | root => exact ⟨root, rfl, hr⟩
  | att p =>
    obtain ⟨hg, hi⟩ := hm
    unfold derefMsg Vec.deref
    simp only [hg, ne_eq, not_true_eq_false, if_false, Array.getElem?_eq_getElem hi]
    exact ⟨_, rfl, hv _ (Array.getElem_mem hi)⟩

theorem partsLoop_eq (sub : Vec Att → Ptr → M (Vec Att × Bool)) (bnd : Buf) (m : Att)
    (body : Nat) (beg : Option Nat) (v : Vec Att) :
    partsLoop sub bnd m body beg v =
      match findBoundary bnd m.buf body with
      | .error e => .error e
      | .ok none => .ok (v, true)
      | .ok (some (b, term)) =>
        match beg with
        | none =>
          match skipLine m.buf b with
          | .error e => .error e
          | .ok b' => if term then .ok (v, false) else partsLoop sub bnd m b' (some b') v
        | some bg =>
          match v.calloc default with
          | .error e => .error e
          | .ok (v1, p) =>
            match strndup m.buf bg (b - bg) with
            | .error e => .error e
            | .ok abuf =>
              match messageParseHeaders abuf with
              | .error e => .error e
              | .ok (ab, hdrs, abody) =>
                match v1.store p { buf := ab, headers := hdrs, body := abody, path := m.path } with
                | .error e => .error e
                | .ok v2 =>
                  match sub v2 p with
                  | .error e => .error e
                  | .ok (v3, true) => .ok (v3, true)
                  | .ok (v3, false) => if term then .ok (v3, false) else partsLoop sub bnd m b none v3 := by
  rw [partsLoop]
  split
  · rename_i h; simp only [h]
  · rename_i h; simp only [h]
  · rename_i b term h
    simp only [h]
    split
    · split <;> simp only [*]
    · rfl

/-- The `while (!term)` loop: no access outside `me_buf`, no write outside the table's capacity, and `attach` is
used only in the generation `VECTOR_CALLOC` returned it in - provided the recursive call behaves so. -/
theorem partsLoop_ok (sub : Vec Att → Ptr → M (Vec Att × Bool))
    (hsub : ∀ v p, VecOk v → PtrOk v p → ∃ v' e, sub v p = .ok (v', e) ∧ VecOk v')
    (bnd : Buf) (hb : bnd.HasNul 0) (m : Att) :
    ∀ (n body : Nat) (beg : Option Nat) (v : Vec Att),
      2 * (m.buf.size - body) + (if beg.isSome then 1 else 0) = n →
      m.buf.HasNul body → (∀ bg, beg = some bg → m.buf.HasNul bg) → VecOk v →
      ∃ v' e, partsLoop sub bnd m body beg v = .ok (v', e) ∧ VecOk v' := by
  intro n
  induction n using Nat.strongRecOn with
  | _ n ih =>
    intro body beg v hn hbody hbeg hv
    rw [partsLoop_eq]
    obtain ⟨r, hr, hpost⟩ := findBoundary_ok bnd m.buf hb hbody
    rw [hr]
    cases r with
    | none => exact ⟨v, true, rfl, hv⟩
    | some bt =>
      obtain ⟨b, term⟩ := bt
      have hnb := hpost b term rfl
      obtain ⟨hbb, c, hgc, hc0⟩ := findBoundary_ge hr
      have hblt := hnb.lt
      simp only
      cases beg with
      | none =>
        simp only
        obtain ⟨b', hb', _, hnb', _⟩ := skipLine_refines m.buf hnb
        have hgt := skipLine_gt hb' hgc hc0
        have hb'lt := hnb'.lt
        rw [hb']
        simp only
        cases term with
        | true => exact ⟨v, false, rfl, hv⟩
        | false =>
          simp only [Bool.false_eq_true, if_false]
          simp only [Option.isSome_none, Bool.false_eq_true, if_false, Nat.add_zero] at hn
          exact ih _ (by simp; omega) b' (some b') v rfl hnb' (by intro bg hbg; cases hbg; exact hnb') hv
      | some bg =>
        simp only
        obtain ⟨v1, p, hc, hitems, hgen, hidx⟩ := Vec.calloc_ok v (default : Att)
        rw [hc]
        simp only
        rw [strndup_spec (hbeg bg rfl)]
        simp only
        obtain ⟨ab, hdrs, abody, hmp, hnab, hinab⟩ := messageParseHeaders_ok _ (ofBytes_terminated ((m.buf.view bg).take (b - bg)))
        rw [hmp]
        simp only
        rw [Vec.store_ok v1 p _ hgen (by rw [hitems, hidx]; simp)]
        simp only
        have haok : AttOk { buf := ab, headers := hdrs, body := abody, path := m.path } := ⟨hnab, hinab⟩
        generalize ({ buf := ab, headers := hdrs, body := abody, path := m.path } : Att) = a at haok ⊢
        have hv2 : VecOk { v1 with items := v1.items.setIfInBounds p.idx a } := by
          intro a ha
          simp only [hitems, hidx, push_set_last] at ha
          rcases Array.mem_push.mp ha with ha | ha
          · exact hv a ha
          · subst ha; exact haok
        have hp2 : PtrOk { v1 with items := v1.items.setIfInBounds p.idx a } p := by
          refine ⟨hgen, ?_⟩
          simp only [Array.size_setIfInBounds, hitems, hidx, Array.size_push]
          omega
        obtain ⟨v3, e, hs3, hv3⟩ := hsub _ p hv2 hp2
        rw [hs3]
        cases e with
        | true => exact ⟨v3, true, rfl, hv3⟩
        | false =>
          simp only
          cases term with
          | true => exact ⟨v3, false, rfl, hv3⟩
          | false =>
            simp only [Bool.false_eq_true, if_false]
            simp only [Option.isSome_some, if_true] at hn
            exact ih _ (by simp; omega) b none v3 rfl hnb (by intro bg' hbg'; cases hbg') hv3

/-- `parseattachments` at every depth, for every table and every valid `msg` pointer: no access outside a buffer,
no write outside the table's capacity, and no pointer into the table used after the table was reallocated. -/
theorem parseAttachments_ok (root : Att) (hr : AttOk root) :
    ∀ (fuel : Nat) (v : Vec Att) (msg : MsgRef), VecOk v → RefOk v msg →
      ∃ v' e, parseAttachments fuel root v msg = .ok (v', e) ∧ VecOk v' := by
  intro fuel
  induction fuel with
  | zero =>
    intro v msg hv hm
    rw [parseAttachments]
    obtain ⟨m, hd, _⟩ := derefMsg_ok root hr v hv msg hm
    rw [hd]
    exact ⟨v, true, rfl, hv⟩
  | succ fuel ih =>
    intro v msg hv hm
    rw [parseAttachments]
    obtain ⟨m, hd, hma⟩ := derefMsg_ok root hr v hv msg hm
    rw [hd]
    simp only
    obtain ⟨r, hg, ht⟩ := getHeader1_ok m hma.2 contentTypeName
    rw [hg]
    cases r with
    | none => exact ⟨v, false, rfl, hv⟩
    | some type =>
      simp only
      obtain ⟨rb, hpb, hbt⟩ := parseBoundary_ok type (ht type rfl).hasNul0
      rw [hpb]
      cases rb with
      | notMultipart => exact ⟨v, false, rfl, hv⟩
      | invalid => exact ⟨v, true, rfl, hv⟩
      | ok bnd =>
        simp only
        exact partsLoop_ok _ (fun v' p hv' hp' => ih v' (.att p) hv' hp') bnd (hbt bnd rfl).hasNul0 m _ m.body none v rfl
          hma.1 (by intro bg hbg; cases hbg) hv

theorem getAttachments_ok (root : Att) (hr : AttOk root) : ∃ r, getAttachments root = .ok r := by
  unfold getAttachments
  obtain ⟨v', e, h, _⟩ := parseAttachments_ok root hr 5 Vec.init .root (by intro a ha; simp [Vec.init] at ha) trivial
  rw [h]
  cases e <;> exact ⟨_, rfl⟩

/-- A whole message: `message_parse_headers` then `message_get_attachments`, for every NUL-terminated buffer. -/
theorem message_attachments_ok (b : Buf) (ht : b.Terminated) (path : Bytes) :
    ∃ b' hs body, messageParseHeaders b = .ok (b', hs, body) ∧
      ∃ r, getAttachments { buf := b', headers := hs, body := body, path := path } = .ok r := by
  obtain ⟨b', hs, body, hp, hnb, hin⟩ := messageParseHeaders_ok b ht
  exact ⟨b', hs, body, hp, getAttachments_ok _ ⟨hnb, hin⟩⟩

end Mdsort.L0
