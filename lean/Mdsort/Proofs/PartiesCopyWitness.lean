import Mdsort.Proofs.PartiesCopyMain
import Mdsort.Proofs.PartiesWitness
import Mdsort.Proofs.PartiesClient

/-! Non-vacuity of the exactly-once theorem for copying actions: `label` against `move` on the same
message, the two parties interleaved call by call; evaluated by the kernel. -/

namespace Mdsort.Proofs.Parties.W
set_option linter.unusedSimpArgs false
open Mdsort Mdsort.Model

/-- The messages the parties of the witnesses may write out. -/
def MW (m : Msg) : Prop := m = labelled ∨ m = msg

/-- The decidable part of `StartOKc`. -/
def startChecksC (s0 : Shared) : Bool :=
  s0.fs.entries.all (fun e => e.2.2 < s0.fs.nextFid) &&
  decide ((s0.fs.entries.map (·.2.2)).Nodup) &&
  s0.parties.all fun ps => ps.handles.all fun o =>
    match o with
    | .dir p _ _ => (s0.fs.dir p).isSome
    | _ => true

theorem startOKc_of_checks {M : Msg → Prop} (s0 : Shared) (hf : Fresh s0) (hc : startChecksC s0 = true)
    (hp : ∀ (i : Nat) (ps : PState), s0.parties[i]? = some ps → IsExecParty M ps ∨ IsScanParty M ps ∨ IsClientParty ps) :
    StartOKc M s0 := by
  simp only [startChecksC, Bool.and_eq_true, List.all_eq_true, decide_eq_true_eq] at hc
  obtain ⟨⟨hlt, hnd⟩, hdirs⟩ := hc
  refine ⟨hf, ?_, ?_, ?_, hp⟩
  · intro p n f h
    have := hlt _ (lookup_mem_entries h)
    simpa using this
  · intro p n p' n' f h h'
    have := eq_of_nodup_map (fun e : Bytes × Bytes × Nat => e.2.2) _ hnd _ _ (lookup_mem_entries h) (lookup_mem_entries h') rfl
    simp only [Prod.mk.injEq] at this
    exact ⟨this.1, this.2.1⟩
  · intro i ps d p hps hd
    have hmem := hdirs ps (List.mem_of_getElem? hps)
    unfold handlesDirPath at hd
    split at hd
    · rename_i q sn pos heq
      cases hd
      have hlt : d < ps.handles.length := by
        by_cases hl : d < ps.handles.length
        · exact hl
        · simp [List.getD_eq_getElem?_getD, List.getElem?_eq_none (Nat.le_of_not_lt hl)] at heq
      have hin : Obj.dir p sn pos ∈ ps.handles := by
        rw [List.getD_eq_getElem?_getD, List.getElem?_eq_getElem hlt] at heq
        simp only [Option.getD_some] at heq
        rw [← heq]; exact List.getElem_mem hlt
      exact hmem _ hin
    · cases hd

/-! ## A = `label` on `a`, B = `move "/d"` on `a`, same maildir -/

def c0 : Shared := Shared.init fs [(partyA, dirH), (partyB1, dirH)]
def c0' : Shared := Shared.init fs [(partyA', dirH), (partyB1, dirH)]

theorem c0_eq : c0 = c0' := by unfold c0 c0'; rw [partyA_eq]

theorem c_startOK : StartOKc MW c0 := by
  refine startOKc_of_checks c0 (fresh_init _ _) (by decide +kernel) ?_
  intro i ps h
  have hm : ps ∈ c0.parties := List.mem_of_getElem? h
  simp only [c0, Shared.init, List.map_cons, List.map_nil, List.mem_cons, List.not_mem_nil, or_false] at hm
  rcases hm with rfl | rfl
  · exact .inl ⟨env 1, [labelAct], stOf (ofString "a") labelled, .inl rfl, rfl⟩
  · exact .inl ⟨env 2, [moveAct], stOf (ofString "a") msg, .inr rfl, rfl⟩

/-- Round robin, call by call: B's `renameat` comes before A's `unlinkat`; B wins, A rolls its copy back. -/
def schedRR : List Nat := (List.replicate 16 [0, 1]).flatten

/-- A is ahead: it commits (removes the original) before B's `renameat`; A wins, B rolls its placeholder back. -/
def schedAB : List Nat := [0, 1, 0, 1, 0, 1] ++ List.replicate 8 0 ++ List.replicate 10 1 ++ List.replicate 6 0

/-- The labelled message as A writes it. -/
def labelledBytes : Bytes := ofString "To: u\nX-Label: l\n\nhi\n"

set_option maxRecDepth 1000000 in
theorem rr_facts' : Hiso c0' schedRR = true ∧ (runSched c0' schedRR).quiescent = true ∧
    (runSched c0' schedRR).parties.map (·.result) = [some true, some false] ∧
    (runSched c0' schedRR).fs.entries = [(ofString "/d/new", ofString "7.2_1.h:2,", 0)] ∧
    (runSched c0' schedRR).fs.content 0 = content := by decide +kernel

set_option maxRecDepth 1000000 in
theorem ab_facts' : Hiso c0' schedAB = true ∧ (runSched c0' schedAB).quiescent = true ∧
    (runSched c0' schedAB).parties.map (·.result) = [some false, some true] ∧
    (runSched c0' schedAB).fs.entries = [(ofString "/m/new", nameA, 1)] ∧
    (runSched c0' schedAB).fs.content 1 = labelledBytes ∧
    (runSched c0' schedAB).origin 1 = 0 := by decide +kernel

theorem rr_facts : Hiso c0 schedRR = true ∧ (runSched c0 schedRR).quiescent = true ∧
    (runSched c0 schedRR).parties.map (·.result) = [some true, some false] ∧
    (runSched c0 schedRR).fs.entries = [(ofString "/d/new", ofString "7.2_1.h:2,", 0)] ∧
    (runSched c0 schedRR).fs.content 0 = content := by rw [c0_eq]; exact rr_facts'

theorem ab_facts : Hiso c0 schedAB = true ∧ (runSched c0 schedAB).quiescent = true ∧
    (runSched c0 schedAB).parties.map (·.result) = [some false, some true] ∧
    (runSched c0 schedAB).fs.entries = [(ofString "/m/new", nameA, 1)] ∧
    (runSched c0 schedAB).fs.content 1 = labelledBytes ∧
    (runSched c0 schedAB).origin 1 = 0 := by rw [c0_eq]; exact ab_facts'

/-- Every `renameat` of the trace failed and every `unlinkat` of `name` failed. -/
def lostTrace (name : Bytes) (tr : List (Call × Res)) : Bool :=
  tr.all fun x =>
    match x.1 with
    | .renameat .. => x.2.isErr
    | .unlinkat _ n => n != name || x.2.isErr
    | _ => true

set_option maxRecDepth 1000000 in
theorem rr_loser' : ((runSched c0' schedRR).parties.map fun ps => (lostTrace (ofString "a") ps.trace, ps.result)) =
    [(true, some true), (false, some false)] := by decide +kernel

theorem rr_loser : ((runSched c0 schedRR).parties.map fun ps => (lostTrace (ofString "a") ps.trace, ps.result)) =
    [(true, some true), (false, some false)] := by rw [c0_eq]; exact rr_loser'

/-! ## the client needs no isolation hypothesis: two movers and the client of `m0` -/

/-- The names the processes `env pid` can generate. -/
def NW (n : Bytes) : Prop := ∃ pid flags count, n = genName (env pid) flags count

theorem dec7 : decimalInt 7 = [55] := by decide +kernel

theorem nw_head {n : Bytes} (h : NW n) : n.head? = some 55 := by
  obtain ⟨pid, flags, count, rfl⟩ := h
  simp [genName, env, dec7]

theorem nw_gen (pid : Nat) : GenNames NW (env pid) := fun flags count => ⟨pid, flags, count, rfl⟩

theorem m_startOKc : StartOKc MW m0 := by
  refine startOKc_of_checks m0 (fresh_init _ _) (by decide +kernel) ?_
  intro i ps h
  have hm : ps ∈ m0.parties := List.mem_of_getElem? h
  simp only [m0, Shared.init, List.map_cons, List.map_nil, List.mem_cons, List.not_mem_nil, or_false] at hm
  rcases hm with rfl | rfl | rfl
  · exact .inl ⟨env 1, [moveAct], stOf (ofString "a") msg, .inr rfl, rfl⟩
  · exact .inl ⟨env 2, [moveAct], stOf (ofString "a") msg, .inr rfl, rfl⟩
  · exact .inr (.inr ⟨_, rfl⟩)

set_option maxRecDepth 1000000 in
theorem m_isoExcept : HisoExcept [2] m0 schedM = true := by decide +kernel

theorem m_gen (i : Nat) (ps : PState) (h : m0.parties[i]? = some ps) (hi : i ∉ [2]) :
    (∃ env ml st, GenNames NW env ∧ ps.prog = errOf (matchesExec env ml st)) ∨
    (∃ env md rule fuel e, GenNames NW env ∧ ps.prog = scanExec env md rule fuel e) := by
  match i, h with
  | 0, h => cases h; exact .inl ⟨env 1, _, _, nw_gen 1, rfl⟩
  | 1, h => cases h; exact .inl ⟨env 2, _, _, nw_gen 2, rfl⟩
  | 2, _ => simp at hi
  | i + 3, h => simp [m0, Shared.init] at h

theorem m_client (i : Nat) (ps : PState) (hi : i ∈ [2]) (h : m0.parties[i]? = some ps) :
    ∃ ops, ps.prog = clientProg ops ∧ ∀ op ∈ ops, op.avoids NW := by
  have : i = 2 := by simpa using hi
  subst this
  cases h
  refine ⟨_, rfl, ?_⟩
  intro op hop
  rw [List.mem_singleton.1 hop]
  refine ⟨fun h => ?_, fun h => ?_⟩
  · have h1 : (ofString "b").head? ≠ some 55 := by decide +kernel
    exact h1 (nw_head h)
  · have h1 : (ofString "b:2,S").head? ≠ some 55 := by decide +kernel
    exact h1 (nw_head h)

end Mdsort.Proofs.Parties.W
