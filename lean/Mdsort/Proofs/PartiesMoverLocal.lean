import Mdsort.Proofs.Parties
import Mdsort.Proofs.WorldOwnScripts

/-! The local protocol of a rename-based delivery (move / flag / flags on one device): a name is
created exclusively, the message is renamed onto it or, failing that, the name is unlinked; nothing
else is created, removed or written.  Proved for `matchesExec` on lists of such actions with the
weakest-precondition calculus over traces. -/

namespace Mdsort.Proofs.Parties
set_option linter.unusedSimpArgs false
open Mdsort Mdsort.Model
open Mdsort.Proofs.World (bind_eq pure_eq ret_bind call_bind' call_bind bind_assoc Calls All)
open Mdsort.Proofs.Own

theorem inFlightH_snoc (tr : Trace) (e : Call × Res) : inFlightH (tr ++ [e]) = inFlightUpd (inFlightH tr) e := by
  simp [inFlightH, List.foldl_append]

theorem inFlightUpd_unlinkat (acc : List (Handle × Bytes)) (d : Handle) (n : Bytes) (r : Res) :
    inFlightUpd acc (.unlinkat d n, r) =
      if acc.contains (d, n) then acc.filter (· != (d, n)) else if isOk r then [] else acc := by
  cases r <;> rfl

/-- Results a mover can see: a `renameat` succeeds or fails, and never with `EXDEV` (one device). -/
def MoverR (c : Call) (r : Res) : Prop :=
  ∀ d1 n1 d2 n2, c = .renameat d1 n1 d2 n2 → (∃ v, r = .ok v) ∨ (∃ e, r = .err e ∧ e ≠ "EXDEV")

/-- The protocol: only entries in flight are unlinked or renamed onto; a name is created, and
descriptors are closed, only with nothing in flight; no other mutating call. -/
def MoverI (tr : Trace) : Call → Prop
  | .unlinkat d n => (d, n) ∈ inFlightH tr
  | .renameat _ _ d2 n2 => (d2, n2) ∈ inFlightH tr
  | .close _ | .closedir _ | .openExcl .. => inFlightH tr = []
  | .opendir _ | .fstatat .. | .utimensat .. => True
  | _ => False

/-- Calls that leave the entries alone and are issued with nothing in flight. -/
def Neutral : Call → Prop
  | .opendir _ | .closedir _ | .close _ | .fstatat .. | .utimensat .. => True
  | _ => False

theorem neutral_upd {c : Call} {r : Res} (h : Neutral c) (acc : List (Handle × Bytes)) : inFlightUpd acc (c, r) = acc := by
  cases c <;> first | exact h.elim | rfl

theorem neutral_I {tr : Trace} {c : Call} (h : Neutral c) (h0 : inFlightH tr = []) : MoverI tr c := by
  cases c <;> first | exact h.elim | exact h0 | exact True.intro

theorem wp_neutral {α} {P : α → Prop} {p : Prog α} (hc : Calls Neutral p) (ha : All P p) (tr : Trace)
    (h0 : inFlightH tr = []) : wp MoverR MoverI p (fun a tr' => P a ∧ inFlightH tr' = []) tr := by
  induction p generalizing tr with
  | ret a => exact ⟨ha, h0⟩
  | call c k ih =>
    refine ⟨neutral_I hc.1 h0, fun r _ => ih r (hc.2 r) (ha r) _ ?_⟩
    rw [inFlightH_snoc, neutral_upd hc.1, h0]

theorem wp_neutral' {α} {p : Prog α} (hc : Calls Neutral p) (tr : Trace) (h0 : inFlightH tr = []) :
    wp MoverR MoverI p (fun _ tr' => inFlightH tr' = []) tr :=
  wp_mono (wp_neutral hc (All.trivial p) tr h0) fun _ _ h => h.2

macro "neutral_step" : tactic =>
  `(tactic| first
      | (with_reducible exact Calls.ret_intro _)
      | ((with_reducible show Neutral _); exact True.intro)
      | (with_reducible apply Calls.call_intro)
      | (intro _)
      | (with_reducible apply Calls.bind)
      | split
      | (dsimp only; split))

theorem neutral_maildirClose (md : Maildir) : Calls Neutral (maildirClose md) := by
  unfold maildirClose
  simp only [bind_eq, pure_eq, call_bind]
  repeat' neutral_step

theorem neutral_maildirOpendir (md : Maildir) (path : Bytes) : Calls Neutral (maildirOpendir md path) := by
  unfold maildirOpendir
  simp only [bind_eq, pure_eq, call_bind]
  repeat' neutral_step

theorem neutral_maildirOpenDst (path : Bytes) : Calls Neutral (maildirOpenDst path) := by
  unfold maildirOpenDst
  simp only [bind_eq, pure_eq]
  repeat' (first | exact neutral_maildirOpendir _ _ | neutral_step)

theorem neutral_setFile_none (ms : MsgSt) (dir name : Bytes) : Calls Neutral (messageSetFile ms dir name none) := by
  unfold messageSetFile
  simp only [bind_eq, pure_eq, call_bind]
  repeat' neutral_step

/-! ## the scripts -/

theorem mover_genname (env : PEnv) (md : Maildir) (flags : Option Bytes) (fuel count : Nat) (tr : Trace)
    (h0 : inFlightH tr = []) :
    wp MoverR MoverI (genname env md flags fuel count)
      (fun res tr' => match res with
        | none => inFlightH tr' = []
        | some x => ∃ d, md.dirH = some d ∧ inFlightH tr' = [(d, x.2)]) tr := by
  induction fuel generalizing count tr with
  | zero => unfold genname; exact h0
  | succ fuel ih =>
    unfold genname
    simp only [bind_eq, pure_eq, call_bind]
    generalize (decimalInt env.now ++ [46] ++ decimal env.pid ++ [95] ++ decimal ((count + 1) % gennameWrap) ++ [46] ++ env.host ++
          flags.getD []) = nm
    split
    · exact h0
    split
    · exact h0
    rename_i d hd
    refine wp_call (show inFlightH tr = [] from h0) fun r _ => ?_
    cases r with
    | ok h =>
      refine ⟨d, hd, ?_⟩
      rw [inFlightH_snoc, h0]; rfl
    | err e =>
      dsimp only
      have h1 : inFlightH (tr ++ [(Call.openExcl d nm, Res.err e)]) = [] := by rw [inFlightH_snoc, h0]; rfl
      split
      · exact ih _ _ h1
      · exact h1
    | name n => show inFlightH _ = []; rw [inFlightH_snoc, h0]; rfl
    | eof => show inFlightH _ = []; rw [inFlightH_snoc, h0]; rfl

/-- What follows the rename (and the rollback) in `maildir_move`. -/
theorem mover_moveTail (dh fd : Handle) (dstname : Bytes) (ms' : MsgSt) (b : Bool) (mt : Option Nat)
    (fin : Prog (MsgSt × Bool)) (hfin : Calls Neutral fin) (T : Trace) (h0 : inFlightH T = []) :
    wp MoverR MoverI
      (Prog.call (Call.close fd) fun _ =>
        (if (!b && mt.isSome) = true then Prog.call (Call.utimensat dh dstname none mt) fun r => Prog.ret !isOk r
            else Prog.ret b).bind
          fun err2 => if err2 = true then Prog.ret (ms', true) else fin)
      (fun _ tr' => inFlightH tr' = []) T := by
  refine wp_neutral' ?_ T h0
  repeat' (first | exact hfin | neutral_step)

/-- The last step of a successful `maildir_move` (`message_set_file`; in later versions of the model
`messageSetFileMoved`) issues no call that concerns the protocol. -/
macro "neutral_fin" : tactic =>
  `(tactic| first
      | exact neutral_setFile_none _ _ _
      | (unfold messageSetFileMoved; simp only [bind_eq, pure_eq, call_bind]; repeat' neutral_step))

theorem mover_maildirMove (env : PEnv) (s dst : Maildir) (ms : MsgSt) (tr : Trace) (h0 : inFlightH tr = []) :
    wp MoverR MoverI (maildirMove env s dst ms) (fun _ tr' => inFlightH tr' = []) tr := by
  unfold maildirMove gennameStart
  simp only [bind_eq, pure_eq, call_bind]
  split
  · exact h0
  split
  rotate_left
  · exact h0
  rename_i sh dh hsh hdh
  refine wp_bind_ext (P := fun _ T => inFlightH T = []) ?_ ?_
  · split
    · refine wp_neutral' ?_ tr h0
      repeat' neutral_step
    · exact h0
  intro doutime L0 h1
  split
  · exact h1
  rename_i fl _
  refine wp_bind_ext (mover_genname env dst (some fl) gennameAttempts _ _ h1) ?_
  intro g L1 hg
  cases g with
  | none => exact hg
  | some x =>
  obtain ⟨fd, dstname⟩ := x
  obtain ⟨d, hd, hin⟩ := hg
  rw [hdh] at hd
  cases hd
  dsimp only at hin ⊢
  generalize tr ++ L0 ++ L1 = T at hin ⊢
  refine wp_call (show (dh, dstname) ∈ inFlightH T by rw [hin]; exact List.mem_singleton.2 rfl) fun r hr => ?_
  rcases hr _ _ _ _ rfl with ⟨v, rfl⟩ | ⟨e, rfl, he⟩
  · -- the rename succeeded: nothing in flight any more
    have h2 : inFlightH (T ++ [(Call.renameat sh ms.name dh dstname, Res.ok v)]) = [] := by
      rw [inFlightH_snoc, hin]; simp [inFlightUpd]
    simp only [ret_bind, Bool.false_eq_true, if_false]
    exact mover_moveTail dh fd dstname _ false doutime _ (by neutral_fin) _ h2
  · -- it failed: roll the name back
    have h2 : inFlightH (T ++ [(Call.renameat sh ms.name dh dstname, Res.err e)]) = [(dh, dstname)] := by
      rw [inFlightH_snoc, hin]; rfl
    have hne : (e == "EXDEV") = false := by simpa using he
    simp only [hne, Bool.false_eq_true, if_false, ret_bind, if_true]
    unfold maildirUnlink
    simp only [hdh, bind_eq, pure_eq, call_bind, call_bind', ret_bind]
    refine wp_call (show (dh, dstname) ∈ inFlightH _ by rw [h2]; exact List.mem_singleton.2 rfl) fun r2 _ => ?_
    have h3 : inFlightH (T ++ [(Call.renameat sh ms.name dh dstname, Res.err e)] ++ [(Call.unlinkat dh dstname, r2)]) = [] := by
      rw [inFlightH_snoc, h2]; simp [inFlightUpd]
    exact mover_moveTail dh fd dstname _ true doutime _ (by neutral_fin) _ h3

theorem mover_moveBranch (env : PEnv) (mh : Match) (st : ExecSt) (tr : Trace) (h0 : inFlightH tr = []) :
    wp MoverR MoverI (moveBranch env mh st) (fun _ tr' => inFlightH tr' = []) tr := by
  unfold moveBranch
  refine wp_bind_ext (wp_neutral' (neutral_maildirOpenDst _) _ h0) ?_
  intro d L0 h1
  cases d with
  | none => exact h1
  | some dst =>
    dsimp only
    refine wp_bind_ext (mover_maildirMove env st.src dst st.ms _ h1) ?_
    intro x L1 h2
    have closeThen : ∀ (md : Maildir) (r : ExecSt × Bool),
        wp MoverR MoverI ((maildirClose md).bind fun _ => Prog.ret r) (fun _ tr' => inFlightH tr' = []) (tr ++ L0 ++ L1) := by
      intro md r
      refine wp_bind_ext (wp_neutral' (neutral_maildirClose _) _ h2) ?_
      intro _ L2 h3
      exact h3
    split
    · exact closeThen _ _
    · split
      · split
        · exact closeThen _ _
        · exact h2
      · exact closeThen _ _

/-- The action types that deliver by renaming. -/
def isMover (mh : Match) : Prop := mh.ty = .move ∨ mh.ty = .flag ∨ mh.ty = .flags

theorem mover_matchesExec (env : PEnv) (ml : MatchList) (hml : ∀ mh ∈ ml, isMover mh) (st : ExecSt) (tr : Trace)
    (h0 : inFlightH tr = []) :
    wp MoverR MoverI (matchesExec env ml st) (fun _ tr' => inFlightH tr' = []) tr := by
  induction ml generalizing st tr with
  | nil =>
    rw [matchesExec_nil]
    split
    · refine wp_bind_ext (wp_neutral' (neutral_maildirClose _) _ h0) ?_
      intro _ L h1
      exact h1
    · exact h0
  | cons mh rest ih =>
    rw [matchesExec_cons, execOne_move env mh st (hml mh (List.mem_cons_self ..))]
    refine wp_bind_ext (mover_moveBranch env mh st tr h0) ?_
    intro x L h1
    split
    · unfold errTail
      split
      · refine wp_bind_ext (wp_neutral' (neutral_maildirClose _) _ h1) ?_
        intro _ L2 h2
        exact h2
      · exact h1
    · exact ih (fun mh h => hml mh (List.mem_cons_of_mem _ h)) x.1 _ h1

/-- The party program: the protocol holds from the empty trace. -/
theorem mover_party (env : PEnv) (ml : MatchList) (hml : ∀ mh ∈ ml, isMover mh) (st : ExecSt) :
    wp MoverR MoverI (errOf (matchesExec env ml st)) (fun _ tr' => inFlightH tr' = []) [] := by
  unfold errOf
  refine wp_bind_ext (mover_matchesExec env ml hml st [] rfl) ?_
  intro x L h
  exact h

end Mdsort.Proofs.Parties
