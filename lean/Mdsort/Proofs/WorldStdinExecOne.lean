import Mdsort.Proofs.WorldStdinExec

/-! One action of `matches_exec` in a stdin run, and the whole list. -/

namespace Mdsort.Proofs.World
open Mdsort Mdsort.Model

theorem InvX.mono {S : Spool} {X X' : Handle → Prop} {w0 w : World} (a : InvX S X w0 w) (h : ∀ x, X x → X' x) :
    InvX S X' w0 w :=
  ⟨fun x hx hn => a.objs x hx (fun hh => hn (h x hh)), a.len, a.exist, a.root⟩

/-- The invariant is untouched by anything that keeps the directories and the old handles. -/
theorem ActPre.frame {S : Spool} {T NSD : Prop} {cs : List Bytes} {w w' : World} {st : ExecSt}
    (pre : ActPre S T NSD cs w st) (inv : Inv S w w') (hd : ∀ q, w'.dir q = w.dir q)
    (htr : T → ∃ f0, GoodAt w' cs st.src.path st.ms.name f0) : ActPre S T NSD cs w' st := by
  obtain ⟨sh, h1, h2, h3, h4, h5, h6⟩ := pre.src
  refine ⟨⟨sh, h1, inv.dirPath h2, by rw [hd]; exact h3, h4, h5, ?_⟩, pre.stdinSrc, pre.shape, inv.dirPath pre.dOpen,
    inv.root, pre.names.congr (hd _), pre.nm95, htr, pre.msg, pre.nsd⟩
  intro f hf
  obtain ⟨a, b, c⟩ := h6 f hf
  exact ⟨a, b, Nat.lt_of_lt_of_le c inv.len⟩

theorem AllPost.ofInv {S : Spool} {T NSD : Prop} {cs : List Bytes} {w w' : World} {st : ExecSt}
    (pre : ActPre S T NSD cs w st) (inv : Inv S w w') (hd : ∀ q, w'.dir q = w.dir q) (b : Bool) : AllPost S w (st, b) w' := by
  obtain ⟨sh, h1, h2, h3, h4, h5, h6⟩ := pre.src
  refine ⟨inv.toX _, pre.two w' st.ms.name pre.nm95 ((pre.names.congr (hd _)).mono (fun x hx => List.mem_cons_of_mem _ hx)),
    fun f hf => (h6 f hf).1, fun hc => ⟨sh, h1, h5 hc⟩⟩

/-- One action. -/
theorem spec_execOne_sp (S : Spool) (hS : SpoolShape S) (T NSD : Prop) (cs : List Bytes) (env : PEnv) (mh : Match)
    (st : ExecSt) {w : World} (pre : ActPre S T NSD cs w st) (hT : T → mh.ty ≠ .discard)
    (hN : NSD → moveTy mh.ty → destPath mh.path ≠ some S.sp) :
    wp (fun _ => True) (execOne env mh st)
      (fun r w' => AllPost S w r w' ∧
        (r.2 = false → ActPre S T NSD cs w' r.1 ∧ (moveTy mh.ty → r.1.chsrc = true) ∧
          (st.chsrc = true → r.1.chsrc = true))) w := by
  obtain ⟨sh, hsh, hps, hsd, hch0, hch1, hfds⟩ := pre.src
  have hdlt : S.d < w.handles.length := lt_of_dirPath pre.dOpen
  have hshlt : sh < w.handles.length := lt_of_dirPath hps
  have hsr1 := shape_ne_sr hS pre.shape
  have noop : ∀ (st' : ExecSt), st'.src = st.src → st'.chsrc = st.chsrc → st'.ms = st.ms → ∀ (hm : ¬ moveTy mh.ty),
      (fun (r : ExecSt × Bool) w' => AllPost S w r w' ∧
        (r.2 = false → ActPre S T NSD cs w' r.1 ∧ (moveTy mh.ty → r.1.chsrc = true) ∧
          (st.chsrc = true → r.1.chsrc = true))) (st', false) w := by
    intro st' e1 e2 e3 hm
    have pre' : ActPre S T NSD cs w st' := by
      refine ⟨?_, ?_, ?_, pre.dOpen, pre.root, ?_, ?_, ?_, ?_, ?_⟩
      · rw [e1, e2, e3]; exact pre.src
      · rw [e1, e2]; exact pre.stdinSrc
      · rw [e1]; exact pre.shape
      · rw [e1, e3]; exact pre.names
      · rw [e3]; exact pre.nm95
      · rw [e1, e3]; exact pre.trk
      · rw [e3]; exact pre.msg
      · rw [e1, e2]; exact pre.nsd
    refine ⟨⟨(Inv.refl pre.root).toX _, ?_, ?_, ?_⟩, fun _ => ⟨pre', fun h => absurd h hm, fun h => by rw [e2]; exact h⟩⟩
    · exact pre.two w st.ms.name pre.nm95 (pre.names.mono (fun x hx => List.mem_cons_of_mem _ hx))
    · intro f hf; rw [e3] at hf; exact (hfds f hf).1
    · intro hc; rw [e2] at hc; rw [e1]; exact ⟨sh, hsh, hch1 hc⟩
  have hdfd : st.ms.fd ≠ some sh := by
    intro h; exact (hfds sh h).2.1 rfl
  have writeBr : ¬ moveTy mh.ty → wp (fun _ => True)
      ((maildirWrite env st.src st.ms).bind fun x =>
        Prog.ret (({ src := st.src, chsrc := st.chsrc, ms := x.fst, reject := st.reject } : ExecSt), x.snd))
      (fun r w' => AllPost S w r w' ∧
        (r.2 = false → ActPre S T NSD cs w' r.1 ∧ (moveTy mh.ty → r.1.chsrc = true) ∧
          (st.chsrc = true → r.1.chsrc = true))) w := by
    intro hnm
    refine wp_bind_mono (spec_maildirWrite_sp S T cs env st.src st.ms hsh hps hsd hsr1 pre.root pre.names hdfd pre.trk pre.msg) ?_
    rintro ⟨ms', e⟩ w' ⟨invx, hmsg, ⟨nm, hnm95, hn⟩, hfd, hok⟩
    dsimp only at hmsg hfd hok ⊢
    have hX : ∀ x, st.ms.fd = some x → S.d < x := fun x hx => (hfds x hx).1
    have fdsNew : ∀ f, ms'.fd = some f → S.d < f ∧ f ≠ sh ∧ f < w'.handles.length := by
      intro f hf
      rcases hfd f hf with h | ⟨h1, h2⟩
      · obtain ⟨a, b, c⟩ := hfds f h
        exact ⟨a, b, Nat.lt_of_lt_of_le c invx.len⟩
      · exact ⟨Nat.lt_of_lt_of_le hdlt h1, Nat.ne_of_gt (Nat.lt_of_lt_of_le hshlt h1), h2⟩
    refine ⟨⟨invx.mono hX, pre.two w' nm hnm95 hn, fun f hf => (fdsNew f hf).1, fun hc => ⟨sh, hsh, hch1 hc⟩⟩, ?_⟩
    intro he
    subst he
    obtain ⟨h95, hnok, htrok⟩ := hok rfl
    refine ⟨⟨⟨sh, hsh, invx.dirPath hps hdfd, by rw [invx.exist]; exact hsd, hch0, hch1, fdsNew⟩, pre.stdinSrc, pre.shape,
      invx.dirPath pre.dOpen ?_, invx.root, ?_, h95, htrok, by rw [hmsg]; exact pre.msg, pre.nsd⟩,
      fun h => absurd h hnm, fun h => h⟩
    · intro h
      exact Nat.lt_irrefl _ (hfds S.d h).1
    · refine hnok.mono ?_
      intro x hx
      by_cases hsp : st.src.path = S.sp
      · simp only [hsp, if_true] at hx ⊢
        rcases List.mem_cons.1 hx with h | h
        · simp [h]
        · simp at h
      · simp only [hsp, if_false] at hx ⊢
        exact hx
  unfold execOne
  simp only [bind_eq, pure_eq, call_bind]
  split
  · rename_i hty
    refine wp_mono (spec_moveBranch_sp S hS T NSD cs env mh st pre (fun h => hN h (.inl hty))) ?_
    rintro r w' ⟨a, b⟩
    exact ⟨a, fun he => ⟨(b he).1, fun _ => (b he).2, fun _ => (b he).2⟩⟩
  · rename_i hty
    refine wp_mono (spec_moveBranch_sp S hS T NSD cs env mh st pre (fun h => hN h (.inr (.inl hty)))) ?_
    rintro r w' ⟨a, b⟩
    exact ⟨a, fun he => ⟨(b he).1, fun _ => (b he).2, fun _ => (b he).2⟩⟩
  · rename_i hty
    refine wp_mono (spec_moveBranch_sp S hS T NSD cs env mh st pre (fun h => hN h (.inr (.inr hty)))) ?_
    rintro r w' ⟨a, b⟩
    exact ⟨a, fun he => ⟨(b he).1, fun _ => (b he).2, fun _ => (b he).2⟩⟩
  · -- discard
    rename_i hty
    have hnm : ¬ moveTy mh.ty := by rw [hty]; rintro (h | h | h) <;> cases h
    unfold maildirUnlink
    simp only [hsh, bind_eq, pure_eq, call_bind, call_bind', ret_bind]
    intro ft
    refine ⟨trivial, ?_⟩
    rcases unlinkat_results ft w sh st.ms.name with ⟨e, he⟩ | ⟨he, p, fid, hp, hl⟩
    · rw [he]
      have hsf := sameFsS_err w (.unlinkat sh st.ms.name) e (by intro _ h; cases h) (by intro _ h; cases h) (by intro _ h; cases h)
      simp only [isOk, Bool.not_false, if_true]
      exact ⟨AllPost.ofInv pre (Inv.ofSameFs hsf pre.root) (fun q => hsf.dir q) true, by intro h; cases h⟩
    · rw [he]
      have hpp : p = st.src.path := by rw [hps] at hp; cases hp; rfl
      subst hpp
      simp only [isOk, Bool.not_true, Bool.false_eq_true, if_false]
      have inv1 := (Inv.refl (S := S) pre.root).step (.unlinkat sh st.ms.name) (.ok 0) rfl (by intro h hh; cases hh)
        (dir_unlinkat_other w sh st.ms.name (.ok 0) hps (Ne.symm hsr1))
      have hn1 : NamesIn (stepWorld w (.unlinkat sh st.ms.name) (.ok 0)) S.sp (if st.src.path = S.sp then [st.ms.name] else []) :=
        (pre.names.unlinkat_ok hps hl 0).mono (fun x hx => mem_filter_sub hx)
      have hex : ((stepWorld w (.unlinkat sh st.ms.name) (.ok 0)).dir st.src.path).isSome := by
        rw [inv1.exist]; exact hsd
      refine ⟨⟨inv1.toX _, pre.two _ st.ms.name pre.nm95 (hn1.mono (fun x hx => List.mem_cons_of_mem _ hx)),
        fun f hf => (hfds f hf).1, fun hc => ⟨sh, hsh, hch1 hc⟩⟩, fun _ => ⟨?_, fun h => absurd h hnm, fun h => h⟩⟩
      refine ⟨⟨sh, hsh, inv1.dirPath hps, hex, hch0, hch1, ?_⟩, pre.stdinSrc, pre.shape, inv1.dirPath pre.dOpen, inv1.root,
        hn1, pre.nm95, fun hT' => absurd hty (hT hT'), pre.msg, pre.nsd⟩
      intro f hf
      obtain ⟨a, b, c⟩ := hfds f hf
      exact ⟨a, b, Nat.lt_of_lt_of_le c inv1.len⟩
  · -- label
    rename_i hty
    exact writeBr (by rw [hty]; rintro (h | h | h) <;> cases h)
  · -- add-header
    rename_i hty
    exact writeBr (by rw [hty]; rintro (h | h | h) <;> cases h)
  · -- reject
    rename_i hty
    exact noop { src := st.src, chsrc := st.chsrc, ms := st.ms, reject := true } rfl rfl rfl
      (by rw [hty]; rintro (h | h | h) <;> cases h)
  · -- exec
    rename_i hty
    have hnm : ¬ moveTy mh.ty := by rw [hty]; rintro (h | h | h) <;> cases h
    refine wp_mono (wp_and (Q2 := fun _ w' => T → ∃ f0, GoodAt w' cs st.src.path st.ms.name f0)
      (Fresh.wp (N := w.handles.length) (Q := fun r : ExecSt × Bool => r.1 = st) ?fr (Nat.le_refl _)) ?tk) ?_
    case fr =>
      refine Fresh.bind (R := fun fdr => ∀ h, fdr = some (some h) → w.handles.length ≤ h) ?_ ?_
      · split
        · refine Fresh.bind (fresh_messageGetFd _ env st.ms _ mh.execBody) (fun f hf => ?_)
          intro h hh
          cases f with
          | none => cases hh
          | some fd => cases hh; exact hf _ rfl
        · intro h hh; cases hh
      · intro fdr hfdr
        cases fdr with
        | none => exact rfl
        | some fd =>
          dsimp only
          refine Fresh.bind (fresh_execP _ _ fd) (fun rc _ => ?_)
          cases fd with
          | none => exact rfl
          | some h => exact Fresh.call rfl (subj_some rfl (hfdr h rfl)) (fun _ _ => rfl)
    case tk =>
      by_cases hT' : T
      · obtain ⟨f0, hg⟩ := pre.trk hT'
        refine wp_mono (wp_bind_mono (R := fun _ w' => GoodAt w' cs st.src.path st.ms.name f0) ?_ ?_)
          (fun _ _ h (_ : T) => ⟨f0, h⟩)
        · split
          · refine wp_bind_mono (wp_true (spec_messageGetFd env st.ms _ mh.execBody hg)) ?_
            intro f w1 hg1
            exact hg1
          · exact hg
        · intro fdr w1 hg1
          cases fdr with
          | none => exact hg1
          | some fd =>
            dsimp only
            refine wp_bind_mono (wp_true (wp_harmlessAt (harmless_execP _ fd) hg1)) ?_
            intro rc w2 hg2
            cases fd with
            | none => exact hg2
            | some h =>
              dsimp only
              refine wp_call_any fun r => ⟨trivial, ?_⟩
              exact hg2.step _ _ trivial trivial
      · exact wp_mono wp_triv (fun _ _ _ h => absurd h hT')
    rintro ⟨st', b⟩ w' ⟨⟨hq, hdirs, hobjs, hlen⟩, htr⟩
    dsimp only at hq
    subst hq
    have inv := (Inv.refl (S := S) pre.root).ofFresh hdirs hobjs hlen
    exact ⟨AllPost.ofInv pre inv (dir_of_dirs hdirs) b,
      fun _ => ⟨pre.frame inv (dir_of_dirs hdirs) htr, fun h => absurd h hnm, fun h => h⟩⟩
  · -- entries that are no actions
    have hnm : ¬ moveTy mh.ty := by rintro (h | h | h) <;> contradiction
    exact noop st rfl rfl rfl hnm

theorem AllPost.trans {S : Spool} {w w1 w2 : World} {r1 r2 : ExecSt × Bool} (a : AllPost S w r1 w1)
    (b : AllPost S w1 r2 w2) : AllPost S w r2 w2 :=
  ⟨a.1.trans b.1, b.2.1, b.2.2.1, b.2.2.2⟩

/-- What is known when the whole list succeeded. -/
structure ExecOk (S : Spool) (T NSD : Prop) (cs : List Bytes) (w' : World) (st' : ExecSt) : Prop where
  trk : T → ∃ f0, GoodAt w' cs st'.src.path st'.ms.name f0
  nsd : NSD → st'.chsrc = true → st'.src.path ≠ S.sp

/-- The whole action list. -/
theorem spec_matchesExec_sp (S : Spool) (hS : SpoolShape S) (T NSD : Prop) (cs : List Bytes) (env : PEnv) (ml : MatchList)
    (st : ExecSt) {w : World} (pre : ActPre S T NSD cs w st) (hT : T → ∀ m ∈ ml, m.ty ≠ .discard)
    (hN : NSD → ∀ m ∈ ml, moveTy m.ty → destPath m.path ≠ some S.sp) :
    wp (fun _ => True) (matchesExec env ml st)
      (fun r w' => AllPost S w r w' ∧
        (r.2 = false → ExecOk S T NSD cs w' r.1 ∧
          ((st.chsrc = true ∨ ∃ m ∈ ml, moveTy m.ty) → r.1.chsrc = true))) w := by
  induction ml generalizing st w with
  | nil =>
    obtain ⟨sh, hsh, hps, hsd, hch0, hch1, hfds⟩ := pre.src
    unfold matchesExec
    simp only [bind_eq, pure_eq]
    split
    · rename_i hch
      unfold maildirClose
      simp only [hsh, bind_eq, pure_eq, call_bind, call_bind', ret_bind]
      refine wp_call_any fun rc => ⟨trivial, ?_⟩
      refine ⟨(AllPost.ofInv pre (Inv.refl pre.root) (fun _ => rfl) false).closedir sh rc (hch1 hch),
        fun _ => ⟨⟨?_, pre.nsd⟩, fun _ => hch⟩⟩
      intro hT'
      obtain ⟨f0, hg⟩ := pre.trk hT'
      exact ⟨f0, hg.step _ _ trivial trivial⟩
    · rename_i hch
      refine ⟨AllPost.ofInv pre (Inv.refl pre.root) (fun _ => rfl) false, fun _ => ⟨⟨pre.trk, pre.nsd⟩, ?_⟩⟩
      rintro (h | ⟨m, hm, _⟩)
      · exact absurd h hch
      · cases hm
  | cons mh rest ih =>
    unfold matchesExec
    simp only [bind_eq, pure_eq]
    refine wp_bind_mono (spec_execOne_sp S hS T NSD cs env mh st pre (fun h => hT h mh (List.mem_cons_self ..))
      (fun h => hN h mh (List.mem_cons_self ..))) ?_
    rintro ⟨st', e⟩ w1 ⟨all1, hok1⟩
    dsimp only at hok1 ⊢
    cases e with
    | true =>
      simp only [if_true]
      split
      · rename_i hch
        obtain ⟨h, hh0, hd⟩ := all1.2.2.2 hch
        have hh : st'.src.dirH = some h := hh0
        unfold maildirClose
        simp only [hh, bind_eq, pure_eq, call_bind, call_bind', ret_bind]
        refine wp_call_any fun rc => ⟨trivial, ?_⟩
        exact ⟨all1.closedir h rc hd, by intro h; cases h⟩
      · exact ⟨all1, by intro h; cases h⟩
    | false =>
      obtain ⟨pre1, hmv, hkeep⟩ := hok1 rfl
      simp only [Bool.false_eq_true, if_false]
      refine wp_mono (ih st' pre1 (fun h m hm => hT h m (List.mem_cons_of_mem _ hm))
        (fun h m hm => hN h m (List.mem_cons_of_mem _ hm))) ?_
      rintro r w2 ⟨all2, hok2⟩
      refine ⟨all1.trans all2, fun he => ⟨(hok2 he).1, ?_⟩⟩
      rintro (h | ⟨m, hm, hty⟩)
      · exact (hok2 he).2 (.inl (hkeep h))
      · rcases List.mem_cons.1 hm with rfl | hm'
        · exact (hok2 he).2 (.inl (hmv hty))
        · exact (hok2 he).2 (.inr ⟨m, hm', hty⟩)

end Mdsort.Proofs.World
