import Mdsort.Model.Flags

/-!
# `pathslice` on a message path `root/sub/name`

`pathslice(path, buf, bufsiz, 0, -2)` is the maildir and `pathslice(path, buf, bufsiz, -2, -2)` the
subdirectory of a message, for every absolute `root` (any number of components, empty ones included)
and every relative non-empty `root` (theorem `slices`), as long as `sub` and `name` contain no `/` and the result fits.
-/

namespace Mdsort.Proofs.Dest
open Mdsort Mdsort.Model

/-- `/c1/c2/.../cn` -/
def flat : List Bytes → Bytes
  | [] => []
  | c :: cs => 47 :: (c ++ flat cs)

theorem flat_append (a b : List Bytes) : flat (a ++ b) = flat a ++ flat b := by
  induction a with
  | nil => rfl
  | cons c cs ih => simp [flat, ih]

/-- No component contains a `/`. -/
abbrev NoSlash (cs : List Bytes) : Prop := ∀ c ∈ cs, (47 : UInt8) ∉ c

theorem countSlash_append (a b : Bytes) : countSlash (a ++ b) = countSlash a + countSlash b := by
  simp [countSlash]

theorem countSlash_noslash (c : Bytes) (h : (47 : UInt8) ∉ c) : countSlash c = 0 := by
  unfold countSlash
  rw [List.length_eq_zero_iff, List.filter_eq_nil_iff]
  intro x hx hx'
  have : x = 47 := by simpa using hx'
  exact h (this ▸ hx)

theorem countSlash_flat (cs : List Bytes) (h : NoSlash cs) : countSlash (flat cs) = cs.length := by
  induction cs with
  | nil => rfl
  | cons c cs ih =>
    have hc := countSlash_noslash c (h c (by simp))
    have ih' := ih (fun c' hc' => h c' (by simp [hc']))
    show countSlash ([47] ++ (c ++ flat cs)) = _
    rw [countSlash_append, countSlash_append, hc, ih']
    simp [countSlash]
    omega

/-- Every byte string is a (possibly empty) first component followed by `/`-led components. -/
theorem exists_comps (s : Bytes) : ∃ c cs, (47 : UInt8) ∉ c ∧ NoSlash cs ∧ s = c ++ flat cs := by
  induction s with
  | nil =>
    refine ⟨[], [], ?_, ?_, rfl⟩
    · simp
    · intro c hc; cases hc
  | cons x s ih =>
    obtain ⟨c, cs, hc, hcs, rfl⟩ := ih
    by_cases hx : x = 47
    · subst hx
      refine ⟨[], c :: cs, by simp, ?_, rfl⟩
      intro c' hc'
      rcases List.mem_cons.1 hc' with h | h
      · exact h ▸ hc
      · exact hcs c' h
    · refine ⟨x :: c, cs, ?_, hcs, rfl⟩
      intro h
      rcases List.mem_cons.1 h with h | h
      · exact hx h.symm
      · exact hc h

/-! ## the copy loop of one component -/

theorem sliceComp_skip (c : Bytes) (hc : (47 : UInt8) ∉ c) (cs : List Bytes) (out : Bytes) (room : Nat) :
    sliceComp false (c ++ flat cs) out room = some (flat cs, out, room) := by
  induction c with
  | nil =>
    cases cs with
    | nil => rfl
    | cons d ds => simp [flat, sliceComp]
  | cons x r ih =>
    have hx : ¬ x = 47 := fun h => hc (h ▸ List.mem_cons_self)
    have hr : (47 : UInt8) ∉ r := fun h => hc (List.mem_cons_of_mem _ h)
    show sliceComp false (x :: (r ++ flat cs)) out room = _
    unfold sliceComp
    simp only [beq_iff_eq, hx, if_false, Bool.not_false, if_true]
    exact ih hr

theorem sliceComp_copy (c : Bytes) (hc : (47 : UInt8) ∉ c) (cs : List Bytes) (out : Bytes) (room : Nat)
    (hroom : c.length ≤ room) :
    sliceComp true (c ++ flat cs) out room = some (flat cs, out ++ c, room - c.length) := by
  induction c generalizing out room with
  | nil =>
    cases cs with
    | nil => simp [flat, sliceComp]
    | cons d ds => simp [flat, sliceComp]
  | cons x r ih =>
    have hx : ¬ x = 47 := fun h => hc (h ▸ List.mem_cons_self)
    have hr : (47 : UInt8) ∉ r := fun h => hc (List.mem_cons_of_mem _ h)
    have hroom' : ¬ room = 0 := by simp at hroom; omega
    show sliceComp true (x :: (r ++ flat cs)) out room = _
    unfold sliceComp
    simp only [beq_iff_eq, hx, if_false, Bool.not_true, Bool.false_eq_true, hroom']
    rw [ih hr (out ++ [x]) (room - 1) (by simp at hroom; omega)]
    simp only [List.append_assoc, List.singleton_append, List.length_cons]
    congr 3
    omega

/-! ## the loop over the components -/

/-- What the loop copies from the components `cs`, the first of which has index `i`. -/
def sel (isrange : Bool) (b e : Int) : Nat → List Bytes → Bytes
  | _, [] => []
  | i, c :: cs =>
    (if b ≤ (i : Int) ∧ (i : Int) ≤ e then (if isrange then 47 :: c else c) else []) ++ sel isrange b e (i + 1) cs

theorem sel_append (isrange : Bool) (b e : Int) (i : Nat) (x y : List Bytes) :
    sel isrange b e i (x ++ y) = sel isrange b e i x ++ sel isrange b e (i + x.length) y := by
  induction x generalizing i with
  | nil => simp [sel]
  | cons c cs ih =>
    simp only [List.cons_append, sel, ih, List.append_assoc, List.length_cons]
    congr 3
    omega

theorem sel_all (b e : Int) (i : Nat) (cs : List Bytes) (hb : b ≤ (i : Int)) (he : ((i + cs.length : Nat) : Int) ≤ e + 1) :
    sel true b e i cs = flat cs := by
  induction cs generalizing i with
  | nil => rfl
  | cons c cs ih =>
    simp only [List.length_cons] at he
    have h1 : b ≤ (i : Int) ∧ (i : Int) ≤ e := ⟨hb, by omega⟩
    simp only [sel, h1, and_self, if_true, flat]
    rw [ih (i + 1) (by omega) (by omega)]
    simp

theorem sel_none (isrange : Bool) (b e : Int) (i : Nat) (cs : List Bytes)
    (h : ((i + cs.length : Nat) : Int) ≤ b ∨ e < (i : Int)) : sel isrange b e i cs = [] := by
  induction cs generalizing i with
  | nil => rfl
  | cons c cs ih =>
    simp only [List.length_cons] at h
    have h1 : ¬ (b ≤ (i : Int) ∧ (i : Int) ≤ e) := by omega
    simp only [sel, h1, if_false, List.nil_append]
    exact ih (i + 1) (by omega)

theorem sliceLoop_abs (isrange : Bool) (b e : Int) (cs : List Bytes) (hcs : NoSlash cs) (n i : Nat) (out : Bytes)
    (room : Nat) (hn : cs.length ≤ n) (hroom : (sel isrange b e i cs).length < room) :
    sliceLoop isrange b e n i { p := flat cs, out := out, room := room, isabs := true } =
      some { p := [], out := out ++ sel isrange b e i cs, room := room - (sel isrange b e i cs).length, isabs := true } := by
  induction cs generalizing n i out room with
  | nil =>
    cases n with
    | zero => simp [sliceLoop, sel, flat]
    | succ n => simp [sliceLoop, sel, flat]
  | cons c cs ih =>
    have hc : (47 : UInt8) ∉ c := hcs c (by simp)
    have hcs' : NoSlash cs := fun c' hc' => hcs c' (by simp [hc'])
    cases n with
    | zero => simp at hn
    | succ n =>
      simp only [List.length_cons, Nat.add_le_add_iff_right] at hn
      by_cases hd : b ≤ (i : Int) ∧ (i : Int) ≤ e
      · -- this component is copied
        have hdc : (decide (b ≤ (i : Int)) && decide ((i : Int) ≤ e)) = true := by simp [hd]
        cases isrange with
        | true =>
          simp only [sel, hd, and_self, if_true, List.length_append, List.length_cons] at hroom ⊢
          have hr0 : ¬ room = 0 := by omega
          unfold sliceLoop
          simp only [flat, hdc, if_true, beq_iff_eq, hr0, if_false, Bool.and_self]
          rw [sliceComp_copy c hc cs (out ++ [47]) (room - 1) (by omega)]
          simp only
          rw [ih hcs' n (i + 1) _ _ hn (by omega)]
          simp only [Option.some.injEq, SliceSt.mk.injEq, true_and, and_true]
          exact ⟨by simp, by omega⟩
        | false =>
          simp only [sel, hd, and_self, if_true, List.length_append, Bool.false_eq_true, if_false] at hroom ⊢
          have hr0 : ¬ room = 0 := by omega
          unfold sliceLoop
          simp only [flat, hdc, if_true, beq_iff_eq, hr0, if_false, Bool.and_false, Bool.false_eq_true,
            Bool.not_true]
          rw [sliceComp_copy c hc cs out room (by omega)]
          simp only
          rw [ih hcs' n (i + 1) _ _ hn (by omega)]
          simp only [Option.some.injEq, SliceSt.mk.injEq, true_and, and_true]
          exact ⟨by simp, by omega⟩
      · have hdc : (decide (b ≤ (i : Int)) && decide ((i : Int) ≤ e)) = false := by
          rw [Bool.and_eq_false_iff]
          by_cases h1 : b ≤ (i : Int)
          · right; simp; omega
          · left; simp [h1]
        simp only [sel, hd, if_false, List.nil_append] at hroom ⊢
        unfold sliceLoop
        simp only [flat, hdc, Bool.false_eq_true, if_false]
        rw [sliceComp_skip c hc cs out room]
        simp only
        exact ih hcs' n (i + 1) _ _ hn hroom


/-! ## pathslice on an absolute path -/

/-- `pathslice` after `isabs`, `ncomps`, `isrange` and the resolved `beg`, `end` are known. -/
def sliceRun (path : Bytes) (bufsiz : Nat) (isabs : Bool) (ncomps : Int) (isrange : Bool) (beg1 end1 : Int) :
    Option Bytes :=
  if beg1 < 0 || beg1 > end1 || end1 < 0 || end1 ≥ ncomps then none
  else
    match sliceLoop isrange beg1 end1 ncomps.toNat 0 { p := path, out := [], room := bufsiz, isabs := isabs } with
    | none => none
    | some st => if st.room == 0 then none else some st.out

theorem pathslice_abs_maildir (t : Bytes) (bufsiz : Nat) :
    pathslice (47 :: t) bufsiz 0 (-2) =
      sliceRun (47 :: t) bufsiz true (0 + (countSlash (47 :: t) : Int)) true 0
        (0 + (countSlash (47 :: t) : Int) + (-2) - 1) := rfl

theorem pathslice_abs_subdir (t : Bytes) (bufsiz : Nat) :
    pathslice (47 :: t) bufsiz (-2) (-2) =
      sliceRun (47 :: t) bufsiz true (0 + (countSlash (47 :: t) : Int)) false
        (0 + (countSlash (47 :: t) : Int) + (-2) - 0) (0 + (countSlash (47 :: t) : Int) + (-2) - 0) := rfl

theorem sliceRun_abs (cs : List Bytes) (hcs : NoSlash cs) (bufsiz : Nat) (isrange : Bool) (b1 e1 : Int)
    (hv : 0 ≤ b1 ∧ b1 ≤ e1 ∧ e1 < (cs.length : Int))
    (hfit : (sel isrange b1 e1 0 cs).length < bufsiz) :
    sliceRun (flat cs) bufsiz true (cs.length : Int) isrange b1 e1 = some (sel isrange b1 e1 0 cs) := by
  unfold sliceRun
  have hc : (decide (b1 < 0) || decide (b1 > e1) || decide (e1 < 0) || decide (e1 ≥ (cs.length : Int))) = false := by
    simp only [Bool.or_eq_false_iff, decide_eq_false_iff_not]
    omega
  rw [if_neg (by rw [hc]; exact Bool.false_ne_true)]
  rw [Int.toNat_natCast, sliceLoop_abs isrange b1 e1 cs hcs cs.length 0 [] bufsiz (Nat.le_refl _) hfit]
  have : ¬ (bufsiz - (sel isrange b1 e1 0 cs).length = 0) := by omega
  simp [this]


theorem slices_flat (c : Bytes) (cs : List Bytes) (sub name : Bytes) (hN : NoSlash ((c :: cs) ++ [sub, name]))
    (b1 b2 : Nat) (h1 : (flat (c :: cs)).length < b1) (h2 : sub.length < b2) :
    pathslice (flat ((c :: cs) ++ [sub, name])) b1 0 (-2) = some (flat (c :: cs)) ∧
    pathslice (flat ((c :: cs) ++ [sub, name])) b2 (-2) (-2) = some sub := by
  have hlen : ((c :: cs) ++ [sub, name]).length = cs.length + 3 := by simp
  have hn : (0 : Int) + (countSlash (47 :: (c ++ flat (cs ++ [sub, name]))) : Int)
      = (((c :: cs) ++ [sub, name]).length : Int) := by
    rw [Int.zero_add]
    exact congrArg Int.ofNat (countSlash_flat ((c :: cs) ++ [sub, name]) hN)
  constructor
  · show pathslice (47 :: (c ++ flat (cs ++ [sub, name]))) b1 0 (-2) = _
    rw [pathslice_abs_maildir, hn]
    have hsel : sel true 0 ((((c :: cs) ++ [sub, name]).length : Int) + (-2) - 1) 0 ((c :: cs) ++ [sub, name])
        = flat (c :: cs) := by
      rw [sel_append, sel_all _ _ 0 (c :: cs) (by omega) (by rw [hlen]; simp; omega),
        sel_none _ _ _ _ _ (Or.inr (by rw [hlen]; simp; omega))]
      simp
    show sliceRun (flat ((c :: cs) ++ [sub, name])) b1 true _ true 0 _ = _
    rw [sliceRun_abs _ hN b1 true 0 _ (by rw [hlen]; omega) (by rw [hsel]; exact h1), hsel]
  · show pathslice (47 :: (c ++ flat (cs ++ [sub, name]))) b2 (-2) (-2) = _
    rw [pathslice_abs_subdir, hn]
    have hsel : sel false ((((c :: cs) ++ [sub, name]).length : Int) + (-2) - 0)
        ((((c :: cs) ++ [sub, name]).length : Int) + (-2) - 0) 0 ((c :: cs) ++ [sub, name]) = sub := by
      rw [sel_append, sel_none _ _ _ 0 (c :: cs) (Or.inl (by rw [hlen]; simp; omega))]
      have hin : ((((c :: cs) ++ [sub, name]).length : Int) + (-2) - 0) ≤ ((0 + (c :: cs).length : Nat) : Int) ∧
          ((0 + (c :: cs).length : Nat) : Int) ≤ ((((c :: cs) ++ [sub, name]).length : Int) + (-2) - 0) := by
        rw [hlen]; simp; omega
      have hout : ¬ (((((c :: cs) ++ [sub, name]).length : Int) + (-2) - 0) ≤ ((0 + (c :: cs).length + 1 : Nat) : Int) ∧
          ((0 + (c :: cs).length + 1 : Nat) : Int) ≤ ((((c :: cs) ++ [sub, name]).length : Int) + (-2) - 0)) := by
        rw [hlen]; simp; omega
      simp only [sel, hin, hout, and_self, if_true, if_false, Bool.false_eq_true, List.nil_append, List.append_nil]
    show sliceRun (flat ((c :: cs) ++ [sub, name])) b2 true _ false _ _ = _
    rw [sliceRun_abs _ hN b2 false _ _ (by rw [hlen]; omega) (by rw [hsel]; exact h2), hsel]

/-- The maildir and the subdirectory of `root/sub/name`, `root` absolute. -/
theorem slices_abs (root sub name : Bytes) (hroot : root.head? = some 47) (hsub : (47 : UInt8) ∉ sub)
    (hname : (47 : UInt8) ∉ name) (b1 b2 : Nat) (h1 : root.length < b1) (h2 : sub.length < b2) :
    pathslice (root ++ [47] ++ sub ++ [47] ++ name) b1 0 (-2) = some root ∧
    pathslice (root ++ [47] ++ sub ++ [47] ++ name) b2 (-2) (-2) = some sub := by
  obtain ⟨t, rfl⟩ : ∃ t, root = 47 :: t := by
    cases root with
    | nil => cases hroot
    | cons x t => simp at hroot; exact ⟨t, by rw [hroot]⟩
  obtain ⟨c, cs, hc, hcs, rfl⟩ := exists_comps t
  have hN : NoSlash ((c :: cs) ++ [sub, name]) := by
    intro x hx
    simp only [List.cons_append, List.mem_cons, List.mem_append, List.not_mem_nil, or_false] at hx
    rcases hx with h | h | h | h
    · exact h ▸ hc
    · exact hcs x h
    · exact h ▸ hsub
    · exact h ▸ hname
  have hpath : (47 :: (c ++ flat cs)) ++ [47] ++ sub ++ [47] ++ name = flat ((c :: cs) ++ [sub, name]) := by
    rw [flat_append]
    simp [flat]
  rw [hpath]
  exact slices_flat c cs sub name hN b1 b2 h1 h2

/-! ## pathslice on a relative path -/

/-- `isabs` of `pathslice`. -/
def isAbs (path : Bytes) : Bool :=
  match path with
  | 47 :: _ => true
  | _ => false

theorem isAbs_rel (x : UInt8) (t : Bytes) (hx : x ≠ 47) : isAbs (x :: t) = false := by
  unfold isAbs
  split
  · rename_i heq
    injection heq with h1 _
    exact absurd h1 hx
  · rfl

theorem pathslice_unfold_maildir (path : Bytes) (bufsiz : Nat) :
    pathslice path bufsiz 0 (-2) =
      sliceRun path bufsiz (isAbs path) ((if isAbs path then 0 else 1) + (countSlash path : Int)) true 0
        ((if isAbs path then 0 else 1) + (countSlash path : Int) + (-2) - 1) := rfl

theorem pathslice_unfold_subdir (path : Bytes) (bufsiz : Nat) :
    pathslice path bufsiz (-2) (-2) =
      sliceRun path bufsiz (isAbs path) ((if isAbs path then 0 else 1) + (countSlash path : Int)) false
        ((if isAbs path then 0 else 1) + (countSlash path : Int) + (-2) - 0)
        ((if isAbs path then 0 else 1) + (countSlash path : Int) + (-2) - 0) := rfl

/-- The first iteration on a relative path, then the loop over the `/`-led components. -/
theorem sliceLoop_rel (isrange : Bool) (b e : Int) (x : UInt8) (c : Bytes) (hc : (47 : UInt8) ∉ c)
    (cs : List Bytes) (hcs : NoSlash cs) (n : Nat) (room : Nat) (hn : cs.length + 1 ≤ n)
    (hroom : ((if b ≤ 0 ∧ 0 ≤ e then x :: c else []) ++ sel isrange b e 1 cs).length < room) :
    sliceLoop isrange b e n 0 { p := x :: (c ++ flat cs), out := [], room := room, isabs := false } =
      some { p := [], out := (if b ≤ 0 ∧ 0 ≤ e then x :: c else []) ++ sel isrange b e 1 cs,
             room := room - ((if b ≤ 0 ∧ 0 ≤ e then x :: c else []) ++ sel isrange b e 1 cs).length, isabs := true } := by
  cases n with
  | zero => omega
  | succ n =>
    have hn' : cs.length ≤ n := by omega
    by_cases hd : b ≤ 0 ∧ 0 ≤ e
    · have hdc : (decide (b ≤ ((0 : Nat) : Int)) && decide (((0 : Nat) : Int) ≤ e)) = true := by simp [hd]
      simp only [hd, and_self, if_true, List.length_append, List.length_cons] at hroom ⊢
      have hr0 : ¬ room = 0 := by omega
      unfold sliceLoop
      simp only [hdc, if_true, beq_iff_eq, hr0, if_false, Bool.false_and, Bool.false_eq_true, Bool.not_false,
        Nat.zero_add]
      rw [sliceComp_copy c hc cs ([] ++ [x]) (room - 1) (by omega)]
      simp only
      rw [sliceLoop_abs isrange b e cs hcs n 1 _ _ hn' (by omega)]
      simp only [Option.some.injEq, SliceSt.mk.injEq, true_and, and_true]
      exact ⟨by simp, by omega⟩
    · have hdc : (decide (b ≤ ((0 : Nat) : Int)) && decide (((0 : Nat) : Int) ≤ e)) = false := by
        rw [Bool.and_eq_false_iff]
        by_cases h1 : b ≤ 0
        · right; simp; omega
        · left; simp [h1]
      simp only [hd, if_false, List.nil_append] at hroom ⊢
      unfold sliceLoop
      simp only [hdc, Bool.false_eq_true, if_false, Nat.zero_add]
      have hskip : sliceComp false (c ++ flat cs) [] room = some (flat cs, [], room) := sliceComp_skip c hc cs [] room
      rw [hskip]
      simp only
      rw [sliceLoop_abs isrange b e cs hcs n 1 _ _ hn' hroom]
      simp

theorem sliceRun_rel (x : UInt8) (c : Bytes) (hc : (47 : UInt8) ∉ c) (cs : List Bytes) (hcs : NoSlash cs)
    (bufsiz : Nat) (isrange : Bool) (b1 e1 : Int) (hv : 0 ≤ b1 ∧ b1 ≤ e1 ∧ e1 < (cs.length : Int) + 1)
    (hfit : ((if b1 ≤ 0 ∧ 0 ≤ e1 then x :: c else []) ++ sel isrange b1 e1 1 cs).length < bufsiz) :
    sliceRun (x :: (c ++ flat cs)) bufsiz false (1 + (cs.length : Int)) isrange b1 e1 =
      some ((if b1 ≤ 0 ∧ 0 ≤ e1 then x :: c else []) ++ sel isrange b1 e1 1 cs) := by
  unfold sliceRun
  have hcnd : (decide (b1 < 0) || decide (b1 > e1) || decide (e1 < 0) || decide (e1 ≥ 1 + (cs.length : Int))) = false := by
    simp only [Bool.or_eq_false_iff, decide_eq_false_iff_not]
    omega
  rw [if_neg (by rw [hcnd]; exact Bool.false_ne_true)]
  have htn : (1 + (cs.length : Int)).toNat = cs.length + 1 := by omega
  rw [htn, sliceLoop_rel isrange b1 e1 x c hc cs hcs (cs.length + 1) bufsiz (Nat.le_refl _) hfit]
  have : ¬ (bufsiz - ((if b1 ≤ 0 ∧ 0 ≤ e1 then x :: c else []) ++ sel isrange b1 e1 1 cs).length = 0) := by omega
  simp only [beq_iff_eq, this, if_false]

/-- The maildir and the subdirectory of `root/sub/name`, `root` relative and not empty. -/
theorem slices_rel (root sub name : Bytes) (x : UInt8) (t : Bytes) (hroot : root = x :: t) (hx : x ≠ 47)
    (hsub : (47 : UInt8) ∉ sub) (hname : (47 : UInt8) ∉ name) (b1 b2 : Nat) (h1 : root.length < b1) (h2 : sub.length < b2) :
    pathslice (root ++ [47] ++ sub ++ [47] ++ name) b1 0 (-2) = some root ∧
    pathslice (root ++ [47] ++ sub ++ [47] ++ name) b2 (-2) (-2) = some sub := by
  subst hroot
  obtain ⟨c, cs, hc, hcs, rfl⟩ := exists_comps t
  have hN : NoSlash (cs ++ [sub, name]) := by
    intro y hy
    simp only [List.mem_cons, List.mem_append, List.not_mem_nil, or_false] at hy
    rcases hy with h | h | h
    · exact hcs y h
    · exact h ▸ hsub
    · exact h ▸ hname
  have hpath : (x :: (c ++ flat cs)) ++ [47] ++ sub ++ [47] ++ name = x :: (c ++ flat (cs ++ [sub, name])) := by
    rw [flat_append]
    simp [flat]
  have hlen : (cs ++ [sub, name]).length = cs.length + 2 := by simp
  have hcount : (countSlash (x :: (c ++ flat (cs ++ [sub, name]))) : Int) = ((cs ++ [sub, name]).length : Int) := by
    have h0 : countSlash (x :: (c ++ flat (cs ++ [sub, name]))) = countSlash ([x] ++ (c ++ flat (cs ++ [sub, name]))) := rfl
    rw [h0, countSlash_append, countSlash_append, countSlash_noslash c hc, countSlash_flat _ hN,
      countSlash_noslash [x] (by simp; exact fun h => hx h.symm)]
    simp
  rw [hpath]
  constructor
  · rw [pathslice_unfold_maildir, isAbs_rel x _ hx, hcount]
    simp only [Bool.false_eq_true, if_false]
    have hsel : ((if (0 : Int) ≤ 0 ∧ (0 : Int) ≤ 1 + ((cs ++ [sub, name]).length : Int) + (-2) - 1 then x :: c else []) ++
        sel true 0 (1 + ((cs ++ [sub, name]).length : Int) + (-2) - 1) 1 (cs ++ [sub, name])) = x :: (c ++ flat cs) := by
      have hc0 : (0 : Int) ≤ 0 ∧ (0 : Int) ≤ 1 + ((cs ++ [sub, name]).length : Int) + (-2) - 1 := by
        rw [hlen]; simp; omega
      rw [if_pos hc0, sel_append, sel_all _ _ 1 cs (by omega) (by rw [hlen]; simp; omega),
        sel_none _ _ _ _ _ (Or.inr (by rw [hlen]; simp; omega))]
      simp
    rw [sliceRun_rel x c hc _ hN b1 true 0 _ (by rw [hlen]; simp; omega) (by rw [hsel]; exact h1), hsel]
  · rw [pathslice_unfold_subdir, isAbs_rel x _ hx, hcount]
    simp only [Bool.false_eq_true, if_false]
    have hsel : ((if 1 + ((cs ++ [sub, name]).length : Int) + (-2) - 0 ≤ 0 ∧
          (0 : Int) ≤ 1 + ((cs ++ [sub, name]).length : Int) + (-2) - 0 then x :: c else []) ++
        sel false (1 + ((cs ++ [sub, name]).length : Int) + (-2) - 0) (1 + ((cs ++ [sub, name]).length : Int) + (-2) - 0) 1
          (cs ++ [sub, name])) = sub := by
      have hc0 : ¬ (1 + ((cs ++ [sub, name]).length : Int) + (-2) - 0 ≤ 0 ∧
          (0 : Int) ≤ 1 + ((cs ++ [sub, name]).length : Int) + (-2) - 0) := by
        rw [hlen]; simp; omega
      rw [if_neg hc0, sel_append, sel_none _ _ _ 1 cs (Or.inl (by rw [hlen]; simp; omega))]
      have hin : (1 + ((cs ++ [sub, name]).length : Int) + (-2) - 0) ≤ ((1 + cs.length : Nat) : Int) ∧
          ((1 + cs.length : Nat) : Int) ≤ (1 + ((cs ++ [sub, name]).length : Int) + (-2) - 0) := by
        rw [hlen]; simp; omega
      have hout : ¬ ((1 + ((cs ++ [sub, name]).length : Int) + (-2) - 0) ≤ ((1 + cs.length + 1 : Nat) : Int) ∧
          ((1 + cs.length + 1 : Nat) : Int) ≤ (1 + ((cs ++ [sub, name]).length : Int) + (-2) - 0)) := by
        rw [hlen]; simp; omega
      simp only [sel, hin, hout, and_self, if_true, if_false, Bool.false_eq_true, List.nil_append, List.append_nil]
    rw [sliceRun_rel x c hc _ hN b2 false _ _ (by rw [hlen]; simp; omega) (by rw [hsel]; exact h2), hsel]

/-- The maildir and the subdirectory of `root/sub/name` for every non-empty `root`. -/
theorem slices (root sub name : Bytes) (hroot : root ≠ []) (hsub : (47 : UInt8) ∉ sub)
    (hname : (47 : UInt8) ∉ name) (b1 b2 : Nat) (h1 : root.length < b1) (h2 : sub.length < b2) :
    pathslice (root ++ [47] ++ sub ++ [47] ++ name) b1 0 (-2) = some root ∧
    pathslice (root ++ [47] ++ sub ++ [47] ++ name) b2 (-2) (-2) = some sub := by
  cases root with
  | nil => exact absurd rfl hroot
  | cons x t =>
    by_cases hx : x = 47
    · subst hx
      exact slices_abs (47 :: t) sub name rfl hsub hname b1 b2 h1 h2
    · exact slices_rel (x :: t) sub name x t rfl hx hsub hname b1 b2 h1 h2

end Mdsort.Proofs.Dest
