import Mdsort.Proofs.WorldStep

/-! A weakest-precondition calculus for `Prog` under arbitrary fault plans, and the invariant
"a complete version of the message is bound somewhere". -/

namespace Mdsort.Proofs.World
open Mdsort Mdsort.Model

/-! ## the invariant -/

/-- Entry `(p, n)` is bound to file `fid` whose visible and durable contents are both in `cs`. -/
def GoodAt (w : World) (cs : List Bytes) (p n : Bytes) (fid : Nat) : Prop :=
  w.lookup p n = some fid ∧ fid < w.nextFid ∧ ∃ f, w.file fid = some f ∧ f.data ∈ cs ∧ f.durable ∈ cs

def Good (w : World) (cs : List Bytes) : Prop := ∃ p n fid, GoodAt w cs p n fid

theorem GoodAt.good {w cs p n fid} (h : GoodAt w cs p n fid) : Good w cs := ⟨p, n, fid, h⟩

theorem GoodAt.step {w cs p n fid} (hg : GoodAt w cs p n fid) (c : Call) (r : Res)
    (hd : dirSafe w p n c) (hf : fileSafe w fid c) : GoodAt (stepWorld w c r) cs p n fid := by
  obtain ⟨hl, hlt, f, hfile, h1, h2⟩ := hg
  refine ⟨?_, ?_, f, ?_, h1, h2⟩
  · simpa using core_lookup w c r p n fid hl hd
  · simpa using Nat.lt_of_lt_of_le hlt (core_nextFid w c r)
  · simpa [core_file w c r fid hlt hf] using hfile

/-- Calls that cannot remove an entry or change the content of an existing file, whatever they act on. -/
def Harmless : Call → Prop
  | .write .. | .fprintf .. | .fsync .. | .fflush .. | .fclose .. | .unlinkat .. | .renameat ..
  | .mkdtemp .. | .mkdir .. | .rmdir .. => False
  | _ => True

theorem Harmless.dirSafe {c : Call} (h : Harmless c) (w : World) (p n : Bytes) : dirSafe w p n c := by
  cases c <;> first | trivial | exact h.elim
theorem Harmless.fileSafe {c : Call} (h : Harmless c) (w : World) (fid : Nat) : fileSafe w fid c := by
  cases c <;> first | trivial | exact h.elim

/-! ## weakest preconditions -/

/-- Under every choice of faults: every intermediate world satisfies `I`, and the final value and
world satisfy `Q`. -/
def wp {α} (I : World → Prop) : Prog α → (α → World → Prop) → World → Prop
  | .ret a, Q, w => Q a w
  | .call c k, Q, w => ∀ f : Option Fault,
      I (stepWorld w c (faultResult f w c)) ∧ wp I (k (faultResult f w c)) Q (stepWorld w c (faultResult f w c))

theorem wp_ret {α} {I : World → Prop} {a : α} {Q : α → World → Prop} {w : World} (h : Q a w) : wp I (.ret a) Q w := h

theorem wp_bind {α β} {I : World → Prop} {p : Prog α} {f : α → Prog β} {Q : β → World → Prop} {w : World}
    (h : wp I p (fun a w' => wp I (f a) Q w') w) : wp I (p.bind f) Q w := by
  induction p generalizing w with
  | ret a => exact h
  | call c k ih => intro ft; exact ⟨(h ft).1, ih _ (h ft).2⟩

theorem wp_mono {α} {I : World → Prop} {p : Prog α} {Q Q' : α → World → Prop} {w : World}
    (h : wp I p Q w) (hq : ∀ a w', Q a w' → Q' a w') : wp I p Q' w := by
  induction p generalizing w with
  | ret a => exact hq _ _ h
  | call c k ih => intro ft; exact ⟨(h ft).1, ih _ (h ft).2⟩

theorem wp_inv_mono {α} {I I' : World → Prop} {p : Prog α} {Q : α → World → Prop} {w : World}
    (h : wp I p Q w) (hi : ∀ w', I w' → I' w') : wp I' p Q w := by
  induction p generalizing w with
  | ret a => exact h
  | call c k ih => intro ft; exact ⟨hi _ (h ft).1, ih _ (h ft).2⟩

/-- `wp` with the postcondition spelled as a consequence. -/
theorem wp_bind_mono {α β} {I : World → Prop} {p : Prog α} {f : α → Prog β} {Q : β → World → Prop}
    {R : α → World → Prop} {w : World}
    (h : wp I p R w) (hf : ∀ a w', R a w' → wp I (f a) Q w') : wp I (p.bind f) Q w :=
  wp_bind (wp_mono h hf)

theorem wp_call {α} {I : World → Prop} {c : Call} {k : Res → Prog α} {Q : α → World → Prop} {w : World}
    (R : Res → Prop) (hr : ∀ f, R (faultResult f w c))
    (h : ∀ r, R r → I (stepWorld w c r) ∧ wp I (k r) Q (stepWorld w c r)) : wp I (.call c k) Q w :=
  fun f => h _ (hr f)

theorem wp_sound {α} {I : World → Prop} {p : Prog α} {Q : α → World → Prop} {w : World} (plan : Plan)
    (h : wp I p Q w) (i : Nat) :
    (∀ w' ∈ (run plan p w i).2.2.2, I w') ∧ Q (run plan p w i).1 (run plan p w i).2.1 := by
  induction p generalizing w i with
  | ret a => exact ⟨by simp [run], h⟩
  | call c k ih =>
    have hc := h (plan i)
    have := ih _ hc.2 (i + 1)
    refine ⟨?_, this.2⟩
    intro w' hw'
    simp only [run, List.mem_cons] at hw'
    rcases hw' with rfl | hw'
    · exact hc.1
    · exact this.1 w' hw'

/-- A program made of harmless calls keeps a fixed good entry. -/
theorem wp_harmlessAt {α} {cs : List Bytes} {p0 n0 : Bytes} {fid0 : Nat} {p : Prog α} (hc : Calls Harmless p) {w : World}
    (hg : GoodAt w cs p0 n0 fid0) :
    wp (fun w' => GoodAt w' cs p0 n0 fid0) p (fun _ w' => GoodAt w' cs p0 n0 fid0) w := by
  induction p generalizing w with
  | ret a => exact hg
  | call c k ih =>
    intro f
    have := hg.step c (faultResult f w c) (hc.1.dirSafe _ _ _) (hc.1.fileSafe _ _)
    exact ⟨this, ih _ (hc.2 _) this⟩

theorem wp_harmless {α} {cs : List Bytes} {p : Prog α} (hc : Calls Harmless p) {w : World} (hg : Good w cs) :
    wp (fun w' => Good w' cs) p (fun _ w' => Good w' cs) w := by
  obtain ⟨p0, n0, fid0, hg⟩ := hg
  exact wp_mono (wp_inv_mono (wp_harmlessAt hc hg) fun _ h => h.good) fun _ _ h => h.good

/-! ## possible results -/

theorem faultResult_cases (f : Option Fault) (w : World) (c : Call)
    (h1 : ∀ fd, c ≠ .read fd) (h2 : ∀ fd d, c ≠ .write fd d) :
    faultResult f w c = predict w c ∨ ∃ e, faultResult f w c = .err e := by
  unfold faultResult
  split
  · exact .inl rfl
  · exact .inr ⟨_, rfl⟩
  · split
    · exact absurd rfl (h1 _)
    · exact absurd rfl (h2 _ _)
    · exact .inl rfl

theorem faultResult_write (f : Option Fault) (w : World) (fd : Handle) (data : Bytes) :
    (∃ n, faultResult f w (.write fd data) = .ok n ∧ (n = data.length ∨ (0 < n ∧ n < data.length))) ∨
      ∃ e, faultResult f w (.write fd data) = .err e := by
  unfold faultResult
  split
  · exact .inl ⟨_, rfl, .inl rfl⟩
  · exact .inr ⟨_, rfl⟩
  · simp only [predict]
    rename_i n
    by_cases hc : (decide (0 < n) && decide (n < data.length)) = true
    · simp only [hc, if_true]
      simp only [Bool.and_eq_true, decide_eq_true_eq] at hc
      exact .inl ⟨_, rfl, .inr hc⟩
    · simp only [hc]
      exact .inl ⟨_, rfl, .inl rfl⟩

/-- A failed call that does not release a handle leaves the file system alone. -/
theorem core_err (w : World) (c : Call) (e : String)
    (h1 : ∀ d, c ≠ .closedir d) (h2 : ∀ d, c ≠ .close d) (h3 : ∀ d, c ≠ .fclose d) : core w c (.err e) = w := by
  unfold core applyOk
  split <;> first | rfl | (exfalso; first | exact h1 _ rfl | exact h2 _ rfl | exact h3 _ rfl) | skip
  all_goals (rename_i h; first | cases h | skip)

end Mdsort.Proofs.World
