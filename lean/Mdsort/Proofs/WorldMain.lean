import Mdsort.Proofs.WorldBasic
import Mdsort.Proofs.EvalPCalls

/-! Control-flow facts about `mainP`: exit status, configuration-only runs, dry run. -/

namespace Mdsort.Proofs.World
open Mdsort Mdsort.Model

theorem mainP_all (env : PEnv) (orc : EvalOracles) (ok : Bool) (conf : List ConfBlock) (files : Files) (input : Bytes) :
    All (fun r : Nat × MainSt => r.1 = exitStatus env r.2) (mainP env orc ok conf files input) := by
  unfold mainP
  simp only [bind_eq, pure_eq, call_bind]
  repeat' (first | exact rfl | (apply All.bind_of_forall; intro _) | (intro _) | split | (dsimp only; split))

/-- The calls a run issued, read off the trace (same as `Mdsort.Proofs.callsOf`). -/
def callsOf' {α} (plan : Plan) (p : Prog α) (w : World) : List Call :=
  ((runPlan plan p w 0 []).2.1.trace.drop w.trace.length).map (·.1)

/-- The shape of `mainP` when it stops after the configuration. -/
def confOnly (env : PEnv) (st1 st2 : Nat × MainSt) : Prog (Nat × MainSt) :=
  .call (.fopen env.confpath) fun r =>
    match r with
    | .ok h => .call (.fclose h) fun _ => .ret st1
    | _ => .ret st2

theorem confOnly_calls (env : PEnv) (st1 st2 : Nat × MainSt) (plan : Plan) (w : World) :
    callsOf' plan (confOnly env st1 st2) w = [.fopen env.confpath] ∨
    ∃ h, callsOf' plan (confOnly env st1 st2) w = [.fopen env.confpath, .fclose h] := by
  unfold callsOf' confOnly
  simp only [runPlan_eq, run]
  split
  · right
    rename_i h _
    exact ⟨h, by simp [run, stepWorld_trace]⟩
  · left
    simp [run, stepWorld_trace]

theorem mainP_syntaxOnly (env : PEnv) (orc : EvalOracles) (ok : Bool) (conf : List ConfBlock) (files : Files) (input : Bytes)
    (hn : env.syntaxOnly = true) : ∃ st1 st2, mainP env orc ok conf files input = confOnly env st1 st2 := by
  unfold mainP confOnly
  simp only [bind_eq, pure_eq, call_bind, hn, if_true]
  cases ok
  · exact ⟨_, _, rfl⟩
  · exact ⟨_, _, rfl⟩

/-- A call of a dry run: not mutating, and a `fork` only if the configuration has a `command` condition (`hc`):
conditions are evaluated under `-d` as they are otherwise, actions are not executed. -/
def Quiet (hc : Bool) (c : Call) : Prop := c.mutating = false ∧ (c.isFork = true → hc = true)

theorem quiet_evalP (hc : Bool) (env : Env) (e : Expr) (m : Msg) (fl : MFlags)
    (h : hasCommand e = true → hc = true) : Calls (Quiet hc) (evalP env e m fl) := by
  refine calls_mono' (evalP_calls_of env e m fl) fun c hcall => ⟨hcall.evalCall.quiet, fun hf => ?_⟩
  rcases hcall with ⟨h1, _⟩ | ⟨_, p, hp⟩
  · exact h h1
  · rw [hp] at hf; cases hf

theorem Calls.ret_intro {α} {Q : Call → Prop} (a : α) : Calls Q (Prog.ret a) := trivial
theorem Calls.call_intro {α} {Q : Call → Prop} {c : Call} {k : Res → Prog α} (h : Q c) (hk : ∀ r, Calls Q (k r)) :
    Calls Q (Prog.call c k) := ⟨h, hk⟩

macro "calls_step" : tactic =>
  `(tactic| first
      | (with_reducible exact Calls.ret_intro _)
      | ((with_reducible show Quiet _ _); exact ⟨rfl, fun h => by cases h⟩)
      | (with_reducible apply Calls.call_intro)
      | (intro _)
      | (with_reducible apply Calls.bind)
      | split
      | (dsimp only; split))

theorem quiet_maildirOpendir (hc : Bool) (md : Maildir) (path : Bytes) : Calls (Quiet hc) (maildirOpendir md path) := by
  unfold maildirOpendir
  simp only [bind_eq, pure_eq, call_bind]
  repeat' calls_step

theorem quiet_maildirClose (hc : Bool) (md : Maildir) : Calls (Quiet hc) (maildirClose md) := by
  unfold maildirClose
  simp only [bind_eq, pure_eq, call_bind]
  repeat' calls_step

theorem quiet_readAll (hc : Bool) (fd : Handle) (fuel : Nat) : Calls (Quiet hc) (readAll fd fuel) := by
  induction fuel with
  | zero => exact Calls.ret_intro _
  | succ n ih =>
    unfold readAll
    simp only [bind_eq, pure_eq, call_bind]
    repeat' (first | exact ih | calls_step)

theorem quiet_messageParseP (hc : Bool) (d : Handle) (dir name content : Bytes) : Calls (Quiet hc) (messageParseP d dir name content) := by
  unfold messageParseP
  simp only [bind_eq, pure_eq, call_bind]
  repeat' (first | exact quiet_readAll _ _ _ | calls_step)

theorem quiet_processMessage (hc : Bool) (env : PEnv) (orc : EvalOracles) (expr : Expr) (md : Maildir) (name : Bytes) (st : MainSt)
    (hd : env.dryrun = true) (he : hasCommand expr = true → hc = true) :
    Calls (Quiet hc) (processMessage env orc expr md name st) := by
  unfold processMessage
  simp only [bind_eq, pure_eq, call_bind, hd, if_true]
  repeat' (first | exact quiet_messageParseP _ _ _ _ _ | exact quiet_evalP hc _ _ _ _ he | calls_step)

theorem quiet_walk (hc : Bool) (env : PEnv) (orc : EvalOracles) (expr : Expr) (hd : env.dryrun = true)
    (he : hasCommand expr = true → hc = true) (fuel : Nat) (md : Maildir) (st : MainSt) :
    Calls (Quiet hc) (walk env orc expr fuel md st) := by
  induction fuel generalizing md st with
  | zero => exact Calls.ret_intro _
  | succ n ih =>
    unfold walk
    simp only [bind_eq, pure_eq, call_bind]
    repeat' (first | exact ih _ _ | exact quiet_processMessage hc _ _ _ _ _ _ hd he | exact quiet_maildirOpendir _ _ _ | calls_step)

theorem quiet_paths (hc : Bool) (env : PEnv) (orc : EvalOracles) (input : Bytes) (b : ConfBlock) (hd : env.dryrun = true) (hm : env.stdinMode = false)
    (he : hasCommand b.expr = true → hc = true)
    (ps : List Bytes) (st : MainSt) : Calls (Quiet hc) (mainP.blocks.paths env orc input b ps st) := by
  induction ps generalizing st with
  | nil => unfold mainP.blocks.paths; exact Calls.ret_intro _
  | cons p more ih =>
    unfold mainP.blocks.paths
    simp only [bind_eq, hm]
    by_cases hp : isStdinPath p = true
    · simp only [hp]
      exact ih _
    · simp only [hp]
      repeat' (first | contradiction | exact ih _ | exact quiet_walk hc _ _ _ hd he _ _ _ | exact quiet_maildirOpendir _ _ _ | exact quiet_maildirClose _ _ | calls_step)

theorem quiet_blocks (hc : Bool) (env : PEnv) (orc : EvalOracles) (input : Bytes) (hd : env.dryrun = true) (hm : env.stdinMode = false)
    (bs : List ConfBlock) (he : confHasCommand bs = true → hc = true) (st : MainSt) :
    Calls (Quiet hc) (mainP.blocks env orc input bs st) := by
  induction bs generalizing st with
  | nil => unfold mainP.blocks; exact Calls.ret_intro _
  | cons b rest ih =>
    have he1 : hasCommand b.expr = true → hc = true := fun h => he (by simp [confHasCommand, h])
    have he2 : confHasCommand rest = true → hc = true := fun h => he (by
      simp only [confHasCommand, List.any_cons, Bool.or_eq_true] at h ⊢; exact .inr h)
    unfold mainP.blocks
    simp only [bind_eq]
    repeat' (first | exact ih he2 _ | exact quiet_paths hc _ _ _ _ hd hm he1 _ _ | calls_step)

theorem quiet_mainP (env : PEnv) (orc : EvalOracles) (ok : Bool) (conf : List ConfBlock) (files : Files) (input : Bytes)
    (hd : env.dryrun = true) (hm : env.stdinMode = false) :
    Calls (Quiet (confHasCommand conf)) (mainP env orc ok conf files input) := by
  unfold mainP
  simp only [bind_eq, pure_eq, call_bind]
  repeat' (first | exact quiet_blocks _ _ _ _ hd hm _ id _ | calls_step)

theorem confOnly_result (env : PEnv) (st1 st2 : Nat × MainSt) (plan : Plan) (w : World) :
    (runPlan plan (confOnly env st1 st2) w 0 []).1 = st1 ∨ (runPlan plan (confOnly env st1 st2) w 0 []).1 = st2 := by
  unfold confOnly
  simp only [runPlan_eq, run]
  split
  · left; simp [run]
  · right; simp [run]

theorem mainP_badconf (env : PEnv) (orc : EvalOracles) (conf : List ConfBlock) (files : Files) (input : Bytes) :
    ∃ st : Nat × MainSt, st.2.error = true ∧ mainP env orc false conf files input = confOnly env st st := by
  unfold mainP confOnly
  simp only [bind_eq, pure_eq, call_bind]
  exact ⟨_, rfl, rfl⟩

theorem quiet_callsOf {α} (hc : Bool) (plan : Plan) (p : Prog α) (w : World) (h : Calls (Quiet hc) p) :
    ∀ c ∈ callsOf' plan p w, c.mutating = false ∧ (c.isFork = true → hc = true) := by
  obtain ⟨L, hL, hQ⟩ := h.trace plan w 0
  unfold callsOf'
  simp only [runPlan_eq, hL, List.drop_left]
  intro c hc
  obtain ⟨x, hx, rfl⟩ := List.mem_map.1 hc
  exact hQ x hx

end Mdsort.Proofs.World
