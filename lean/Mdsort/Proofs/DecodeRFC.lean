import Mdsort.Spec.DecodeRFC
import Mdsort.Proofs.Decode

/-! Helper lemmas for `C16_qp_vs_rfc` and `C16_rfc2047_vs_rfc`: the reference decoders of `Spec/Decode.lean`
(to which the model is equal) against the RFC readings of `Spec/DecodeRFC.lean`. -/

namespace Mdsort.Proofs
open Mdsort Spec

/-! ## Quoted-printable -/

theorem qpRFC_nil (us : Bool) : qpRFC us [] = [] := by rw [qpRFC]

theorem qpRFC_ne61 (us : Bool) (c : UInt8) (r : Bytes) (h : c ≠ 61) :
    qpRFC us (c :: r) = (if us && c == 95 then 32 else c) :: qpRFC us r := by
  rw [qpRFC]
  intro h'; exact absurd h' h

theorem qpRFC_61 (us : Bool) (r : Bytes) :
    qpRFC us (61 :: r) = match softBreak r with
      | some t => qpRFC us t
      | none => match hexPair r with
        | some (b, r') => b :: qpRFC us r'
        | none => 61 :: qpRFC us r := by
  rw [qpRFC]
  split
  · simp [*]
  · rename_i h; simp only [h]; split <;> simp [*]

theorem softBreak_lf (r : Bytes) : softBreak (10 :: r) = some r := by
  simp [softBreak, isblank]

theorem softBreak_nil : softBreak [] = none := by simp [softBreak]

theorem QpLFOnly_tail {c : UInt8} {r : Bytes} (h : QpLFOnly (c :: r) = true) : QpLFOnly r = true := by
  unfold QpLFOnly at h
  split at h
  · rename_i heq; cases heq
  · rename_i r' heq; cases heq; simp at h; exact h.2
  · rename_i c' r' _ heq; cases heq; exact h

theorem QpLFOnly_61 {x : UInt8} {r : Bytes} (h : QpLFOnly (61 :: x :: r) = true) (hx : x ≠ 10) :
    softBreak (x :: r) = none := by
  rw [QpLFOnly] at h
  simp at h
  rcases h.1 with h1 | h1
  · exact h1
  · exact absurd h1 hx

theorem hexPair_cons2 (x y : UInt8) (r : Bytes) :
    hexPair (x :: y :: r) = match hexval x, hexval y with
      | some hi, some lo => some (byte (hi * 16 + lo), r)
      | _, _ => none := by
  rfl

theorem qp_eq_qpRFC (us : Bool) : ∀ s : Bytes, QpLFOnly s = true → Spec.qp us s = qpRFC us s
  | [], _ => by simp [Spec.qp, qpRFC_nil]
  | c :: r, h => by
    by_cases hc : c = 61
    · subst hc
      rw [qpRFC_61]
      cases r with
      | nil => simp [softBreak_nil, hexPair, qp_61_single, qpRFC_nil]
      | cons x r1 =>
        by_cases hx : x = 10
        · subst hx
          rw [qp_61_10, softBreak_lf]
          exact qp_eq_qpRFC us r1 (QpLFOnly_tail (QpLFOnly_tail h))
        · rw [QpLFOnly_61 h hx]
          have h1 := QpLFOnly_tail h
          cases r1 with
          | nil =>
            rw [qp_61_x us x hx]
            simp only [hexPair]
            rw [qp_eq_qpRFC us [x] h1]
          | cons y r2 =>
            rw [qp_61_x_y us x y r2 hx, hexPair_cons2]
            have h2 := QpLFOnly_tail (QpLFOnly_tail h1)
            cases hexval x with
            | none => simp only; rw [qp_eq_qpRFC us (x :: y :: r2) h1]
            | some hi =>
              cases hexval y with
              | none => simp only; rw [qp_eq_qpRFC us (x :: y :: r2) h1]
              | some lo => simp only; rw [qp_eq_qpRFC us r2 h2]
    · rw [qp_ne61 us c r hc, qpRFC_ne61 us c r hc, qp_eq_qpRFC us r (QpLFOnly_tail h)]
termination_by s => s.length

/-! ### The hypothesis is exact: where `QpLFOnly` fails the two decoders differ (already in length) -/

theorem qp_61_general (us : Bool) (r : Bytes) (h : r.head? ≠ some 10) :
    Spec.qp us (61 :: r) = match hexPair r with
      | some (b, r') => b :: Spec.qp us r'
      | none => 61 :: Spec.qp us r := by
  cases r with
  | nil => simp [hexPair, qp_61_single, Spec.qp]
  | cons x r1 =>
    have hx : x ≠ 10 := by intro hx; subst hx; simp at h
    cases r1 with
    | nil => rw [qp_61_x us x hx]; simp only [hexPair]
    | cons y r2 =>
      rw [qp_61_x_y us x y r2 hx, hexPair_cons2]
      cases hexval x with
      | none => rfl
      | some hi => cases hexval y <;> rfl

theorem isblank_ne61 {c : UInt8} (h : isblank c = true) : c ≠ 61 := by
  rintro rfl; revert h; decide

theorem softBreak_blank {c : UInt8} (r : Bytes) (h : isblank c = true) : softBreak (c :: r) = softBreak r := by
  simp [softBreak, h]

theorem softBreak_nonblank {c : UInt8} (r : Bytes) (h : isblank c = false) :
    softBreak (c :: r) = match c :: r with
      | 10 :: t => some t
      | 13 :: 10 :: t => some t
      | _ => none := by
  simp [softBreak, h]
  rfl

/-- What a soft line break looks like at its head: a blank, a CR followed by LF, or LF. -/
theorem softBreak_head {c : UInt8} {r t : Bytes} (h : softBreak (c :: r) = some t) :
    (isblank c = true ∧ softBreak r = some t) ∨ (c = 10 ∧ t = r) ∨ (c = 13 ∧ r = 10 :: t) := by
  by_cases hb : isblank c = true
  · left; exact ⟨hb, by rw [← softBreak_blank r hb]; exact h⟩
  · have hb' : isblank c = false := by simpa using hb
    rw [softBreak_nonblank r hb'] at h
    split at h
    · rename_i t' heq; cases heq; cases h; right; left; exact ⟨rfl, rfl⟩
    · rename_i t' heq; cases heq; cases h; right; right; exact ⟨rfl, rfl⟩
    · contradiction

theorem qp_softBreak_len (us : Bool) : ∀ (r t : Bytes), softBreak r = some t →
    (Spec.qp us t).length ≤ (Spec.qp us r).length
  | [], t, h => by simp [softBreak_nil] at h
  | c :: r, t, h => by
    rcases softBreak_head h with ⟨hb, h'⟩ | ⟨rfl, rfl⟩ | ⟨rfl, rfl⟩
    · have := qp_softBreak_len us r t h'
      rw [qp_ne61 us c r (isblank_ne61 hb)]; simp; omega
    · rw [qp_ne61 us 10 t (by decide)]; simp
    · rw [qp_ne61 us 13 _ (by decide), qp_ne61 us 10 t (by decide)]; simp; omega

theorem isblank_hexval : ∀ c : UInt8, isblank c = true → hexval c = none := by
  apply forall_u8; decide +kernel

theorem hexval_none_of_softBreak {c : UInt8} {r t : Bytes} (h : softBreak (c :: r) = some t) : hexval c = none := by
  rcases softBreak_head h with ⟨hb, _⟩ | ⟨rfl, _⟩ | ⟨rfl, _⟩
  · exact isblank_hexval c hb
  · decide
  · decide

theorem hexPair_none_of_softBreak {r t : Bytes} (h : softBreak r = some t) : hexPair r = none := by
  cases r with
  | nil => rfl
  | cons x r1 =>
    cases r1 with
    | nil => rfl
    | cons y r2 => rw [hexPair_cons2, hexval_none_of_softBreak h]

theorem hexval_61 : hexval 61 = none := by decide

theorem hexPair_some {r r' : Bytes} {b : UInt8} (h : hexPair r = some (b, r')) :
    ∃ x y, r = x :: y :: r' ∧ x ≠ 61 ∧ y ≠ 61 ∧ x ≠ 10 := by
  unfold hexPair at h
  split at h
  · rename_i x y r2
    split at h
    · rename_i hi lo hx hy
      cases h
      refine ⟨x, y, rfl, ?_, ?_, ?_⟩
      · rintro rfl; rw [hexval_61] at hx; contradiction
      · rintro rfl; rw [hexval_61] at hy; contradiction
      · rintro rfl; have h0 : hexval 10 = none := by decide
        rw [h0] at hx; contradiction
    · contradiction
  · contradiction

theorem QpLFOnly_ne61 {c : UInt8} (r : Bytes) (h : c ≠ 61) : QpLFOnly (c :: r) = QpLFOnly r := by
  rw [QpLFOnly]
  intro h'; exact h h'

theorem QpLFOnly_61_eq (r : Bytes) :
    QpLFOnly (61 :: r) = (((softBreak r).isNone || r.head? == some 10) && QpLFOnly r) := by
  rw [QpLFOnly]

theorem qpRFC_len_le (us : Bool) : ∀ s : Bytes, (qpRFC us s).length ≤ (Spec.qp us s).length
  | [] => by simp [qpRFC_nil]
  | c :: r => by
    by_cases hc : c = 61
    · subst hc
      rw [qpRFC_61]
      cases hsb : softBreak r with
      | some t =>
        have hlt := softBreak_le hsb
        have h1 := qpRFC_len_le us t
        have h2 := qp_softBreak_len us r t hsb
        dsimp only
        by_cases h10 : r.head? = some 10
        · cases r with
          | nil => simp at h10
          | cons x r1 =>
            simp at h10; subst h10
            rw [softBreak_lf] at hsb; cases hsb
            rw [qp_61_10]; exact h1
        · rw [qp_61_general us r h10, hexPair_none_of_softBreak hsb]; simp; omega
      | none =>
        have h10 : r.head? ≠ some 10 := by
          intro h10
          cases r with
          | nil => simp at h10
          | cons x r1 => simp at h10; subst h10; rw [softBreak_lf] at hsb; contradiction
        rw [qp_61_general us r h10]
        dsimp only
        cases hp : hexPair r with
        | none => have := qpRFC_len_le us r; simp; omega
        | some p =>
          obtain ⟨b, r'⟩ := p
          have hlt := hexPair_lt hp
          have := qpRFC_len_le us r'
          simp; omega
    · have := qpRFC_len_le us r
      rw [qp_ne61 us c r hc, qpRFC_ne61 us c r hc]; simp; omega
termination_by s => s.length

theorem qpRFC_len_lt (us : Bool) : ∀ s : Bytes, QpLFOnly s = false → (qpRFC us s).length < (Spec.qp us s).length
  | [], h => by simp [QpLFOnly] at h
  | c :: r, h => by
    by_cases hc : c = 61
    · subst hc
      rw [qpRFC_61]
      rw [QpLFOnly_61_eq] at h
      by_cases h10 : r.head? = some 10
      · cases r with
        | nil => simp at h10
        | cons x r1 =>
          simp at h10; subst h10
          rw [QpLFOnly_ne61 r1 (by decide)] at h
          simp at h
          rw [softBreak_lf, qp_61_10]
          exact qpRFC_len_lt us r1 h
      · rw [qp_61_general us r h10]
        cases hsb : softBreak r with
        | some t =>
          have hlt := softBreak_le hsb
          have h1 := qpRFC_len_le us t
          have h2 := qp_softBreak_len us r t hsb
          rw [hexPair_none_of_softBreak hsb]; simp; omega
        | none =>
          have hq : QpLFOnly r = false := by simpa [hsb] using h
          dsimp only
          cases hp : hexPair r with
          | none => have := qpRFC_len_lt us r hq; simp; omega
          | some p =>
            obtain ⟨b, r'⟩ := p
            have hlt := hexPair_lt hp
            obtain ⟨x, y, rfl, hx, hy, _⟩ := hexPair_some hp
            rw [QpLFOnly_ne61 _ hx, QpLFOnly_ne61 _ hy] at hq
            have := qpRFC_len_lt us r' hq
            simp; omega
    · rw [QpLFOnly_ne61 r hc] at h
      have := qpRFC_len_lt us r h
      rw [qp_ne61 us c r hc, qpRFC_ne61 us c r hc]; simp; omega
termination_by s => s.length

theorem qp_eq_qpRFC_iff (us : Bool) (s : Bytes) : Spec.qp us s = qpRFC us s ↔ QpLFOnly s = true := by
  constructor
  · intro h
    cases hq : QpLFOnly s with
    | true => rfl
    | false => have := qpRFC_len_lt us s hq; rw [h] at this; omega
  · exact qp_eq_qpRFC us s

/-! ### The simpler sufficient condition -/

theorem QpNoCRNoPad_tail {c : UInt8} {r : Bytes} (h : QpNoCRNoPad (c :: r) = true) :
    c ≠ 13 ∧ QpNoCRNoPad r = true := by
  by_cases hc : c = 61
  · subst hc
    cases r with
    | nil => exact ⟨by decide, rfl⟩
    | cons x r1 => rw [QpNoCRNoPad] at h; simp at h; exact ⟨by decide, h.2⟩
  · rw [QpNoCRNoPad] at h
    · simpa using h
    · intro c' r' h' _; exact hc h'

theorem softBreak_of_nonblank_noCR {c : UInt8} {r : Bytes} (hb : isblank c = false) (h13 : c ≠ 13) (h10 : c ≠ 10) :
    softBreak (c :: r) = none := by
  rw [softBreak_nonblank r hb]
  split
  · rename_i heq; cases heq; exact absurd rfl h10
  · rename_i heq; cases heq; exact absurd rfl h13
  · rfl

theorem QpLFOnly_of_NoCRNoPad : ∀ s : Bytes, QpNoCRNoPad s = true → QpLFOnly s = true
  | [], _ => rfl
  | c :: r, h => by
    have ⟨_, hr⟩ := QpNoCRNoPad_tail h
    have ih := QpLFOnly_of_NoCRNoPad r hr
    by_cases hc : c = 61
    · subst hc
      rw [QpLFOnly_61_eq, ih]
      cases r with
      | nil => simp [softBreak_nil]
      | cons x r1 =>
        rw [QpNoCRNoPad] at h
        simp at h
        have hx13 := (QpNoCRNoPad_tail h.2).1
        by_cases hx : x = 10
        · subst hx; simp
        · rw [softBreak_of_nonblank_noCR (by simpa using h.1) hx13 hx]; simp
    · rw [QpLFOnly_ne61 r hc]; exact ih

/-! ## Encoded words -/

def toTok : Item → Tok
  | .text c => .lit c
  | .word w => .word w.enc w.text

/-- What `scanWords` guarantees of every word it recognises. -/
def WordOK (w : Word) : Prop :=
  (∀ c ∈ w.text, isEncTextChar c = true) ∧ payload w.enc w.text = some w.decoded

theorem dropWhile_append_stop {α} (p : α → Bool) (a : List α) (x : α) (b : List α)
    (ha : ∀ c ∈ a, p c = true) (hx : p x = false) : (a ++ x :: b).dropWhile p = x :: b := by
  induction a with
  | nil => simp [hx]
  | cons c a ih =>
    have hc := ha c (by simp)
    simp only [List.cons_append, List.dropWhile_cons, hc, if_true]
    exact ih (fun c hc => ha c (by simp [hc]))

theorem split_at_dropWhile {α} (p : α → Bool) (l : List α) (x : List α) (h : l.dropWhile p = x) :
    l = l.takeWhile p ++ x := by
  rw [← h, List.takeWhile_append_dropWhile]

theorem wordAt_head {s rest : Bytes} {w : Word} (h : wordAt s = some (w, rest)) : ∃ r1, s = 61 :: 63 :: r1 := by
  unfold wordAt at h
  split at h
  · exact ⟨_, rfl⟩
  · contradiction

theorem wordAt_spec {r1 rest : Bytes} {w : Word} (h : wordAt (61 :: 63 :: r1) = some (w, rest)) :
    ∃ en, r1 = w.charset ++ 63 :: (en ++ 63 :: (w.text ++ 63 :: 61 :: rest)) ∧
      (∀ c ∈ w.charset, isTokenChar c = true) ∧ encodingOf en = some w.enc ∧ WordOK w ∧
      delimited rest = true := by
  rw [wordAt] at h
  split at h
  · rename_i r2 h1
    split at h
    · rename_i r3 h2
      split at h
      · rename_i rest' h3
        dsimp only at h
        split at h
        · rename_i hc
          cases he : encodingOf (List.takeWhile isTokenChar r2) with
          | none => simp [he] at h
          | some e =>
            simp only [he, Option.bind_some, Option.map_eq_some_iff] at h
            obtain ⟨d, hd, hw⟩ := h
            cases hw
            refine ⟨r2.takeWhile isTokenChar, ?_, takeWhile_all _ _, he, ⟨takeWhile_all _ _, hd⟩, hc.2.2⟩
            have e1 := split_at_dropWhile _ _ _ h1
            have e2 := split_at_dropWhile _ _ _ h2
            have e3 := split_at_dropWhile _ _ _ h3
            dsimp only
            rw [← e3, ← e2, ← e1]
        · contradiction
      · contradiction
    · contradiction
  · contradiction

theorem splitAtQE_append (tx rest : Bytes) (h : ∀ c ∈ tx, c ≠ 63) :
    splitAtQE (tx ++ 63 :: 61 :: rest) = some (tx, rest) := by
  induction tx with
  | nil => simp [splitAtQE]
  | cons c tx ih =>
    have hc : c ≠ 63 := h c (by simp)
    have ih' := ih (fun c hc => h c (by simp [hc]))
    rw [List.cons_append, splitAtQE]
    · rw [ih']; rfl
    · intro h'; simp at h'
    · intro r' h'; exact absurd h' hc

theorem isTokenChar_ne63 : ∀ c : UInt8, isTokenChar c = true → (c != 63) = true := by
  apply forall_u8; decide +kernel

theorem isEncTextChar_ne63 : ∀ c : UInt8, isEncTextChar c = true → c ≠ 63 := by
  intro c h hc; subst hc; revert h; decide

theorem isEncTextChar_ne10 : ∀ c : UInt8, isEncTextChar c = true → c ≠ 10 := by
  intro c h hc; subst hc; revert h; decide

theorem encodingOf_some {en : Bytes} {e : Enc} (h : encodingOf en = some e) :
    ∃ c, en = [c] ∧ (((c == 66 || c == 98) = true ∧ e = .B) ∨
      ((c == 66 || c == 98) = false ∧ (c == 81 || c == 113) = true ∧ e = .Q)) := by
  unfold encodingOf at h
  split at h
  · rename_i c
    refine ⟨c, rfl, ?_⟩
    split at h
    · rename_i hb; cases h; left; exact ⟨hb, rfl⟩
    · rename_i hb
      split at h
      · rename_i hq; cases h; right; exact ⟨by simpa using hb, hq, rfl⟩
      · contradiction
  · contradiction

theorem encodedWord_of_wordAt {r rest : Bytes} {w : Word} (h : wordAt (61 :: 63 :: r) = some (w, rest)) :
    encodedWord r = some (w.enc, w.text, rest) := by
  obtain ⟨en, hs, hcs, hen, hok, _⟩ := wordAt_spec h
  obtain ⟨c, rfl, hcase⟩ := encodingOf_some hen
  subst hs
  unfold encodedWord
  rw [dropWhile_append_stop (fun c => c != 63) _ 63 _ (fun c hc => isTokenChar_ne63 c (hcs c hc)) (by decide)]
  simp only [List.cons_append, List.nil_append]
  rw [splitAtQE_append _ _ (fun c hc => isEncTextChar_ne63 c (hok.1 c hc))]
  rcases hcase with ⟨hb, he⟩ | ⟨hb, hq, he⟩
  · simp [hb, he]
  · simp [hb, hq, he]

theorem scanWords_nil (strict a : Bool) : scanWords strict a [] = some [] := by rw [scanWords]

theorem scanWords_cons (strict a : Bool) (c : UInt8) (r : Bytes) :
    scanWords strict a (c :: r) = match (if a then wordAt (c :: r) else none) with
      | some (w, rest) => (scanWords strict false rest).map (Item.word w :: ·)
      | none =>
        if strict && c == 61 && r.head? == some 63 then none
        else (scanWords strict (isLWS c) r).map (Item.text c :: ·) := by
  rw [scanWords]
  split <;> simp [*]

/-- On a value that scans (property reading) the tokeniser of `Spec.rfc2047` finds the same words. -/
theorem scanWords_tokens : ∀ (s : Bytes) (a : Bool) (items : List Item), scanWords true a s = some items →
    tokens s = some (items.map toTok) ∧ ∀ w, Item.word w ∈ items → WordOK w
  | [], a, items, h => by
    rw [scanWords_nil] at h; cases h; simp [tokens_nil]
  | c :: r, a, items, h => by
    rw [scanWords_cons] at h
    cases hw : (if a = true then wordAt (c :: r) else none) with
    | some p =>
      obtain ⟨w, rest⟩ := p
      rw [hw] at h; dsimp only at h
      have hwa : wordAt (c :: r) = some (w, rest) := by
        split at hw
        · exact hw
        · contradiction
      have hlt := wordAt_lt hwa
      obtain ⟨r1, hr1⟩ := wordAt_head hwa
      simp only [List.cons.injEq] at hr1
      obtain ⟨rfl, rfl⟩ := hr1
      obtain ⟨_, _, _, _, hok, _⟩ := wordAt_spec hwa
      simp only [Option.map_eq_some_iff] at h
      obtain ⟨items', hi, rfl⟩ := h
      have ⟨ih1, ih2⟩ := scanWords_tokens rest false items' hi
      refine ⟨?_, ?_⟩
      · rw [tokens_word, encodedWord_of_wordAt hwa]; dsimp only; rw [ih1]; simp [toTok]
      · intro w' hw'
        simp only [List.mem_cons, Item.word.injEq] at hw'
        rcases hw' with rfl | hw'
        · exact hok
        · exact ih2 w' hw'
    | none =>
      rw [hw] at h; dsimp only at h
      split at h
      · contradiction
      · rename_i hcond
        simp only [Option.map_eq_some_iff] at h
        obtain ⟨items', hi, rfl⟩ := h
        have ⟨ih1, ih2⟩ := scanWords_tokens r (isLWS c) items' hi
        refine ⟨?_, ?_⟩
        · rw [tokens_lit c r (by rintro ⟨rfl, r', rfl⟩; simp at hcond), ih1]; simp [toTok]
        · intro w' hw'
          simp only [List.mem_cons, reduceCtorEq, false_or] at hw'
          exact ih2 w' hw'
termination_by s => s.length

/-! ### Decoded content of a word -/

theorem noLF_softBreak (r : Bytes) (h : ∀ c ∈ r, c ≠ 10) : softBreak r = none := by
  unfold softBreak
  split
  · rename_i t heq
    have : (10 : UInt8) ∈ r := (List.dropWhile_sublist isblank).subset (by rw [heq]; simp)
    exact absurd rfl (h 10 this)
  · rename_i t heq
    have : (10 : UInt8) ∈ r := (List.dropWhile_sublist isblank).subset (by rw [heq]; simp)
    exact absurd rfl (h 10 this)
  · rfl

theorem QpLFOnly_of_noLF : ∀ t : Bytes, (∀ c ∈ t, c ≠ 10) → QpLFOnly t = true
  | [], _ => rfl
  | c :: r, h => by
    have hr : ∀ c ∈ r, c ≠ 10 := fun c hc => h c (by simp [hc])
    have ih := QpLFOnly_of_noLF r hr
    by_cases hc : c = 61
    · subst hc; rw [QpLFOnly_61_eq, ih, noLF_softBreak r hr]; rfl
    · rw [QpLFOnly_ne61 r hc]; exact ih

theorem tokBytes_toTok (it : Item) (hok : ∀ w, it = .word w → WordOK w)
    (hn : ∀ w, it = .word w → w.enc = .B → ∀ b ∈ w.decoded, b ≠ 0) : tokBytes (toTok it) = some it.bytes := by
  cases it with
  | text c => rfl
  | word w =>
    obtain ⟨htx, hp⟩ := hok w rfl
    have hn' := hn w rfl
    obtain ⟨cs, e, tx, d⟩ := w
    cases e with
    | B =>
      simp only [payload] at hp
      simp only [toTok, tokBytes, Item.bytes, hp, Option.map_some]
      rw [cstr_of_no_nul (hn' rfl)]
    | Q =>
      simp only [payload, Option.some.injEq] at hp
      simp only [toTok, tokBytes, Item.bytes]
      rw [qp_eq_qpRFC true tx (QpLFOnly_of_noLF tx (fun c hc => isEncTextChar_ne10 c (htx c hc))), hp]

theorem nulFree_mem : ∀ (items : List Item), nulFree items = true →
    ∀ w, Item.word w ∈ items → w.enc = .B → ∀ b ∈ w.decoded, b ≠ 0
  | [], _, w, hw, _ => by simp at hw
  | it :: ts, h, w, hw, he => by
    cases it with
    | text c =>
      have h' : nulFree ts = true := by
        rw [nulFree] at h
        · exact h
        · intro w hw; cases hw
      simp only [List.mem_cons, reduceCtorEq, false_or] at hw
      exact nulFree_mem ts h' w hw he
    | word w' =>
      rw [nulFree] at h
      simp only [Bool.and_eq_true] at h
      simp only [List.mem_cons, Item.word.injEq] at hw
      rcases hw with rfl | hw
      · intro b hb
        have := h.1
        simp [he] at this
        exact this b hb
      · exact nulFree_mem ts h.2 w hw he

theorem mapM_toTok : ∀ (l : List Item), (∀ it ∈ l, tokBytes (toTok it) = some it.bytes) →
    (l.map toTok).mapM tokBytes = some (l.map Item.bytes)
  | [], _ => by simp
  | it :: ts, h => by
    rw [List.map_cons, mapM_cons_opt, h it (by simp), mapM_toTok ts (fun x hx => h x (by simp [hx]))]
    simp

/-! ### Joining adjacent words: `isspace` runs against linear white space -/

def headIsWordItem : List Item → Bool
  | a :: _ => isWordItem a
  | [] => false

def selR (ts : List Item) : List Item :=
  if headIsWordItem (ts.dropWhile isLWSItem) then ts.dropWhile isLWSItem else ts

def selS (ts : List Item) : List Item :=
  if headIsWordItem (ts.dropWhile isSpaceItem) then ts.dropWhile isSpaceItem else ts

theorem joinWords_nil : joinWords [] = [] := by rw [joinWords]

theorem joinWords_word (t : Item) (ts : List Item) (h : isWordItem t = true) :
    joinWords (t :: ts) = t :: joinWords (selR ts) := by
  rw [joinWords]
  simp only [h, if_true, selR]
  cases hd : ts.dropWhile isLWSItem with
  | nil => simp [headIsWordItem]
  | cons a tl =>
    by_cases ha : isWordItem a = true
    · simp [headIsWordItem, ha]
    · simp [headIsWordItem, ha]

theorem joinWords_text (c : UInt8) (ts : List Item) :
    joinWords (.text c :: ts) = .text c :: joinWords ts := by
  rw [joinWords]
  simp [isWordItem]

theorem isSpaceTok_toTok (it : Item) : isSpaceTok (toTok it) = isSpaceItem it := by cases it <;> rfl
theorem isWord_toTok (it : Item) : isWord (toTok it) = isWordItem it := by cases it <;> rfl

theorem dropWhile_map_toTok : ∀ ts : List Item,
    (ts.map toTok).dropWhile isSpaceTok = (ts.dropWhile isSpaceItem).map toTok
  | [] => rfl
  | t :: ts => by
    simp only [List.map_cons, List.dropWhile_cons, isSpaceTok_toTok]
    split
    · exact dropWhile_map_toTok ts
    · rfl

theorem headIsWord_map (l : List Item) : headIsWord (l.map toTok) = headIsWordItem l := by
  cases l with
  | nil => rfl
  | cons a l => simp [headIsWord, headIsWordItem, isWord_toTok]

theorem sel_map (ts : List Item) : sel (ts.map toTok) = (selS ts).map toTok := by
  simp only [sel, selS, dropWhile_map_toTok, headIsWord_map]
  split <;> rfl

theorem isLWS_isspace : ∀ c : UInt8, isLWS c = true → isspace c = true := by
  apply forall_u8; decide +kernel

theorem isLWSItem_space (it : Item) (h : isLWSItem it = true) : isSpaceItem it = true := by
  cases it with
  | text c => exact isLWS_isspace c h
  | word w => simp [isLWSItem] at h

theorem headIsWordItem_cons {l : List Item} (h : headIsWordItem l = true) :
    ∃ a b, l = a :: b ∧ isWordItem a = true := by
  cases l with
  | nil => simp [headIsWordItem] at h
  | cons a b => exact ⟨a, b, rfl, h⟩

theorem word_not_space {a : Item} (h : isWordItem a = true) : isSpaceItem a = false ∧ isLWSItem a = false := by
  cases a with
  | text c => simp [isWordItem] at h
  | word w => exact ⟨rfl, rfl⟩

/-- If linear white space alone leads to a word, so does the `isspace` run (it is the same run). -/
theorem dropLWS_word {ts : List Item} (h : headIsWordItem (ts.dropWhile isLWSItem) = true) :
    ts.dropWhile isSpaceItem = ts.dropWhile isLWSItem := by
  obtain ⟨a, b, hab, ha⟩ := headIsWordItem_cons h
  have hs := split_at_dropWhile _ _ _ hab
  rw [hab]
  rw [hs]
  exact dropWhile_append_stop isSpaceItem _ a b
    (fun c hc => isLWSItem_space c (takeWhile_all isLWSItem ts c hc)) (word_not_space ha).1

/-- If the `isspace` run leads to a word and consists of linear white space, it is the run of linear white space. -/
theorem dropSpace_word {ts : List Item} (h : headIsWordItem (ts.dropWhile isSpaceItem) = true)
    (hall : (ts.takeWhile isSpaceItem).all isLWSItem = true) :
    ts.dropWhile isLWSItem = ts.dropWhile isSpaceItem := by
  obtain ⟨a, b, hab, ha⟩ := headIsWordItem_cons h
  have hs := split_at_dropWhile _ _ _ hab
  rw [hab]
  rw [hs]
  exact dropWhile_append_stop isLWSItem _ a b
    (fun c hc => by simpa using (List.all_eq_true.mp hall) c hc) (word_not_space ha).2

theorem joinOK_cons (t : Item) (ts : List Item) :
    joinOK (t :: ts) = ((if isWordItem t then
      match ts.dropWhile isSpaceItem with
      | a :: _ => !isWordItem a || (ts.takeWhile isSpaceItem).all isLWSItem
      | [] => true
    else true) && joinOK ts) := by
  rw [joinOK]
  rfl

theorem joinOK_tail {t : Item} {ts : List Item} (h : joinOK (t :: ts) = true) : joinOK ts = true := by
  rw [joinOK_cons] at h
  simp only [Bool.and_eq_true] at h
  exact h.2

theorem joinOK_dropWhile (p : Item → Bool) : ∀ ts : List Item, joinOK ts = true → joinOK (ts.dropWhile p) = true
  | [], h => h
  | t :: ts, h => by
    rw [List.dropWhile_cons]
    split
    · exact joinOK_dropWhile p ts (joinOK_tail h)
    · exact h

theorem joinOK_word {t : Item} {ts : List Item} (h : joinOK (t :: ts) = true) (ht : isWordItem t = true)
    (hS : headIsWordItem (ts.dropWhile isSpaceItem) = true) :
    (ts.takeWhile isSpaceItem).all isLWSItem = true := by
  rw [joinOK_cons] at h
  simp only [Bool.and_eq_true] at h
  have h1 := h.1
  obtain ⟨a, b, hab, ha⟩ := headIsWordItem_cons hS
  rw [hab] at h1
  simp only [ht, if_true, ha, Bool.not_true, Bool.false_or] at h1
  exact h1

theorem selS_eq_selR {t : Item} {ts : List Item} (h : joinOK (t :: ts) = true) (ht : isWordItem t = true) :
    selS ts = selR ts := by
  unfold selS selR
  by_cases hR : headIsWordItem (ts.dropWhile isLWSItem) = true
  · have heq := dropLWS_word hR
    rw [heq]
  · by_cases hS : headIsWordItem (ts.dropWhile isSpaceItem) = true
    · have heq := dropSpace_word hS (joinOK_word h ht hS)
      rw [heq] at hR
      exact absurd hS hR
    · simp [hR, hS]

theorem selR_length (ts : List Item) : (selR ts).length ≤ ts.length := by
  unfold selR
  split
  · exact dropWhile_length_le _ _
  · exact Nat.le_refl _

theorem selR_joinOK {ts : List Item} (h : joinOK ts = true) : joinOK (selR ts) = true := by
  unfold selR
  split
  · exact joinOK_dropWhile _ _ h
  · exact h

theorem selR_subset {ts : List Item} {x : Item} (h : x ∈ selR ts) : x ∈ ts := by
  unfold selR at h
  split at h
  · exact (List.dropWhile_sublist _).subset h
  · exact h

theorem diws_map : ∀ items : List Item, joinOK items = true →
    dropInterWordSpace (items.map toTok) = (joinWords items).map toTok
  | [], _ => by simp [diws_nil, joinWords_nil]
  | it :: ts, h => by
    cases it with
    | text c =>
      rw [List.map_cons, joinWords_text, List.map_cons]
      simp only [toTok]
      rw [diws_lit, diws_map ts (joinOK_tail h)]
    | word w =>
      have hsel := selS_eq_selR h (rfl : isWordItem (.word w) = true)
      have hlen := selR_length ts
      rw [List.map_cons, diws_word _ _ (by rfl), joinWords_word _ _ rfl, sel_map, hsel,
        diws_map (selR ts) (selR_joinOK (joinOK_tail h)), List.map_cons]
termination_by items => items.length

theorem mem_joinWords : ∀ (items : List Item) (x : Item), x ∈ joinWords items → x ∈ items
  | [], x, h => by rw [joinWords_nil] at h; exact h
  | it :: ts, x, h => by
    cases it with
    | text c =>
      rw [joinWords_text] at h
      simp only [List.mem_cons] at h ⊢
      rcases h with h | h
      · left; exact h
      · right; exact mem_joinWords ts x h
    | word w =>
      have hlen := selR_length ts
      rw [joinWords_word _ _ rfl] at h
      simp only [List.mem_cons] at h ⊢
      rcases h with h | h
      · left; exact h
      · right; exact selR_subset (mem_joinWords (selR ts) x h)
termination_by items => items.length

/-- A value that scans in the property reading scans to the same items word by word. -/
theorem scanWords_strict_lax : ∀ (s : Bytes) (a : Bool) (items : List Item), scanWords true a s = some items →
    scanWords false a s = some items
  | [], a, items, h => by rw [scanWords_nil] at h ⊢; exact h
  | c :: r, a, items, h => by
    rw [scanWords_cons] at h ⊢
    cases hw : (if a = true then wordAt (c :: r) else none) with
    | some p =>
      obtain ⟨w, rest⟩ := p
      rw [hw] at h; dsimp only at h ⊢
      have hlt : rest.length < (c :: r).length := by
        split at hw
        · exact wordAt_lt hw
        · contradiction
      simp only [Option.map_eq_some_iff] at h
      obtain ⟨items', hi, rfl⟩ := h
      rw [scanWords_strict_lax rest false items' hi]; rfl
    | none =>
      rw [hw] at h; dsimp only at h ⊢
      split at h
      · contradiction
      · simp only [Option.map_eq_some_iff] at h
        obtain ⟨items', hi, rfl⟩ := h
        rw [scanWords_strict_lax r (isLWS c) items' hi]; simp
termination_by s => s.length

theorem rfc2047RFC_eq_perWord (s : Bytes) (h : WellFormed2047 s = true) : rfc2047RFC s = rfc2047PerWord s := by
  unfold WellFormed2047 at h
  unfold rfc2047RFC rfc2047PerWord
  cases hs : scanWords true true s with
  | none => simp [hs] at h
  | some items => rw [scanWords_strict_lax s true items hs]

/-- On well-formed values the reference decoder of `Spec/Decode.lean` is the RFC decoder. -/
theorem rfc2047_eq_RFC (s : Bytes) (h : WellFormed2047 s = true) : Spec.rfc2047 s = rfc2047RFC s := by
  unfold WellFormed2047 at h
  unfold rfc2047RFC
  cases hs : scanWords true true s with
  | none => simp [hs] at h
  | some items =>
    rw [hs] at h
    simp only [Bool.and_eq_true] at h
    obtain ⟨ht, hok⟩ := scanWords_tokens s true items hs
    unfold Spec.rfc2047
    rw [ht]
    dsimp only
    rw [diws_map items h.2, mapM_toTok]
    · simp [List.flatMap_def]
    · intro it hit
      have hmem := mem_joinWords items it hit
      exact tokBytes_toTok it (fun w hw => hok w (hw ▸ hmem))
        (fun w hw => nulFree_mem items h.1 w (hw ▸ hmem))

end Mdsort.Proofs
