import Mdsort.Proofs.ExecSeqBasic

/-!
`maildir_genname`, `message_write` and `maildir_write` against arbitrary possible results: what the
new file holds, which handle the message's descriptor becomes, and that nothing else is touched.
-/

namespace Mdsort.Proofs.ExecSeq
open Mdsort Mdsort.Model Mdsort.Spec Mdsort.Proofs.World

/-! ## genname -/

theorem possible_openExcl {w : World} {d : Handle} {n : Bytes} {r : Res} (hp : Possible w (.openExcl d n) r) :
    (∃ e, r = .err e) ∨ (r = .ok w.handles.length ∧ ∃ p, w.dirPath d = some p ∧ w.lookup p n = none) := by
  rcases possible_handle hp rfl rfl with rfl | h
  · right
    refine ⟨rfl, ?_⟩
    have h := hp.1
    simp only [applyOk] at h
    cases hd : w.dirPath d with
    | none => simp [hd] at h
    | some p =>
      refine ⟨p, rfl, ?_⟩
      cases hl : w.lookup p n with
      | none => rfl
      | some x => simp [hd, hl] at h
  · exact .inl h

theorem spec_genname (env : PEnv) (md : Maildir) (flags : Option Bytes) (fid0 : Nat) (c0 : Bytes) (w0 : World)
    (fuel count : Nat) {w : World} (fr : Frm fid0 c0 w0 w) :
    wpo (genname env md flags fuel count)
      (fun res w' => Frm fid0 c0 w0 w' ∧
        ∀ fd name, res = some (fd, name) →
          ∃ d p fid, md.dirH = some d ∧ NewFile w' d fd name p fid ∧ fid0 < fid ∧ w0.handles.length ≤ fd) w := by
  induction fuel generalizing count w with
  | zero => exact ⟨fr, by intro _ _ h; cases h⟩
  | succ fuel ih =>
    unfold genname
    simp only [bind_eq, pure_eq, call_bind]
    generalize (decimalInt env.now ++ [46] ++ decimal env.pid ++ [95] ++ decimal ((count + 1) % gennameWrap) ++ [46] ++ env.host ++
          flags.getD []) = nm
    split
    · exact ⟨fr, by intro _ _ h; cases h⟩
    · split
      · exact ⟨fr, by intro _ _ h; cases h⟩
      · rename_i d hd
        intro r hp
        have fr' := fr.step (.openExcl d nm) r (by intro _ h; cases h) trivial
        rcases possible_openExcl hp with ⟨e, rfl⟩ | ⟨rfl, p, hpth, hl⟩
        · dsimp only
          split
          · exact ih _ fr'
          · exact ⟨fr', by intro _ _ h; cases h⟩
        · refine ⟨fr', ?_⟩
          intro fd name h
          simp only [Option.some.injEq, Prod.mk.injEq] at h
          obtain ⟨rfl, rfl⟩ := h
          exact ⟨d, p, w.nextFid, hd, newFile_of_openExcl hpth hl, fr.file.lt, fr.len⟩

/-! ## message_write -/

/-- `Frm` together with "no directory entry changed since `wa`". -/
structure Frd (fid0 : Nat) (c0 : Bytes) (w0 wa w : World) : Prop where
  fr : Frm fid0 c0 w0 w
  dirs : w.dirs = wa.dirs
  lena : wa.handles.length ≤ w.handles.length

theorem Frd.step {fid0 c0} {w0 wa w : World} (s : Frd fid0 c0 w0 wa w) (c : Call) (r : Res) (hd : Call.dirOp c = false)
    (hsub : ∀ h, Call.subject c = some h → w0.handles.length ≤ h) (hfs : fileSafe w fid0 c) :
    Frd fid0 c0 w0 wa (stepWorld w c r) :=
  ⟨s.fr.step c r hsub hfs, by simp [core_dirs w c r hd, s.dirs], by simpa using Nat.le_trans s.lena (core_len w c r)⟩

/-- State while the stream `N` on file `fid` is being written. -/
structure WS (fid0 : Nat) (c0 : Bytes) (w0 wa : World) (N : Handle) (fid : Nat) (w : World) (f : File) (buf : Bytes) : Prop where
  fd : Frd fid0 c0 w0 wa w
  obj : w.obj N = .stream fid buf
  file : w.file fid = some f

theorem WS.lt {fid0 c0 w0 wa N fid w f buf} (s : WS fid0 c0 w0 wa N fid w f buf) : N < w.handles.length :=
  lt_of_obj_ne_closed w N (by simp [s.obj])

theorem WS.fileSafe {fid0 c0 w0 wa N fid w f buf} (s : WS fid0 c0 w0 wa N fid w f buf) (hne : fid ≠ fid0) :
    objFid (w.obj N) ≠ some fid0 := by
  simp [s.obj, objFid, hne]

theorem WS.err {fid0 c0 w0 wa N fid w f buf} (s : WS fid0 c0 w0 wa N fid w f buf)
    (hN : w0.handles.length ≤ N) (c : Call) (e : String)
    (hd : Call.dirOp c = false) (hsub : ∀ h, Call.subject c = some h → h = N)
    (h1 : ∀ d, c ≠ .closedir d) (h2 : ∀ d, c ≠ .close d) (h3 : ∀ d, c ≠ .fclose d)
    (hfs : World.fileSafe w fid0 c) :
    WS fid0 c0 w0 wa N fid (stepWorld w c (.err e)) f buf := by
  have hc := core_err w c e h1 h2 h3
  refine ⟨s.fd.step c _ hd (fun h hh => by rw [hsub h hh]; exact hN) hfs, ?_, ?_⟩
  · rw [stepWorld_obj, hc]; exact s.obj
  · rw [stepWorld_file, hc]; exact s.file

theorem WS.fprintf {fid0 c0 w0 wa N fid w f buf} (s : WS fid0 c0 w0 wa N fid w f buf) (hne : fid ≠ fid0)
    (hN : w0.handles.length ≤ N) (data : Bytes) :
    WS fid0 c0 w0 wa N fid (stepWorld w (.fprintf N data) (.ok data.length)) f (buf ++ data) := by
  have hc := core_fprintf_ok s.obj data
  refine ⟨s.fd.step _ _ rfl (fun h hh => by cases hh; exact hN) (s.fileSafe hne), ?_, ?_⟩
  · rw [stepWorld_obj, hc]; simp [obj_setObj, s.lt]
  · rw [stepWorld_file, hc]; simpa using s.file

theorem WS.fflush {fid0 c0 w0 wa N fid w f buf} (s : WS fid0 c0 w0 wa N fid w f buf) (hne : fid ≠ fid0)
    (hN : w0.handles.length ≤ N) (v : Nat) :
    WS fid0 c0 w0 wa N fid (stepWorld w (.fflush N) (.ok v)) { f with data := f.data ++ buf } [] := by
  have hc := core_fflush_ok s.obj s.file v
  refine ⟨s.fd.step _ _ rfl (fun h hh => by cases hh; exact hN) (s.fileSafe hne), ?_, ?_⟩
  · rw [stepWorld_obj, hc]; simp [obj_setObj, s.lt]
  · rw [stepWorld_file, hc]; simp [file_setFile]

theorem WS.fsync {fid0 c0 w0 wa N fid w f buf} (s : WS fid0 c0 w0 wa N fid w f buf) (hne : fid ≠ fid0) (v : Nat) :
    WS fid0 c0 w0 wa N fid (stepWorld w (.fsync N) (.ok v)) { f with durable := f.data } buf := by
  have hc := core_fsync_stream_ok s.obj s.file v
  refine ⟨s.fd.step _ _ rfl (fun h hh => by cases hh) (s.fileSafe hne), ?_, ?_⟩
  · rw [stepWorld_obj, hc]; simpa using s.obj
  · rw [stepWorld_file, hc]; simp [file_setFile]

theorem spec_hdrs {fid0 c0 w0 wa N fid} (hne : fid ≠ fid0) (hN : w0.handles.length ≤ N) (hs : List Hdr)
    {w : World} {f : File} {buf : Bytes} (s : WS fid0 c0 w0 wa N fid w f buf) :
    wpo (messageWriteP.hdrs N hs)
      (fun err w' => ∃ buf', WS fid0 c0 w0 wa N fid w' f buf' ∧ (err = false → buf' = buf ++ hs.flatMap hdrLine)) w := by
  induction hs generalizing w buf with
  | nil =>
    unfold messageWriteP.hdrs
    exact ⟨buf, s, by simp⟩
  | cons h rest ih =>
    unfold messageWriteP.hdrs
    simp only [bind_eq, pure_eq, call_bind]
    intro r hp
    rcases possible_fprintf hp with rfl | ⟨e, rfl⟩
    · have s1 := s.fprintf hne hN (hdrLine h)
      simp only [isOk, if_true]
      refine wpo_mono (ih s1) ?_
      rintro err w' ⟨buf', a, b⟩
      exact ⟨buf', a, fun he => by simp [b he, List.flatMap_cons]⟩
    · simp only [isOk]
      have s1 := s.err hN (.fprintf N (hdrLine h)) e rfl (by intro _ h; cases h; rfl) (by intro _ h; cases h)
        (by intro _ h; cases h) (by intro _ h; cases h) (s.fileSafe hne)
      exact ⟨buf, s1, by intro h; cases h⟩

theorem spec_mwTail {fid0 c0 w0 wa N fid w f buf} (s : WS fid0 c0 w0 wa N fid w f buf) (hne : fid ≠ fid0)
    (hN : w0.handles.length ≤ N) (body : Bytes) (herr : Bool) :
    wpo (mwTail N body herr)
      (fun err w' => ∃ f' buf', WS fid0 c0 w0 wa N fid w' f' buf' ∧
        (err = false → herr = false ∧ f'.data = f.data ++ buf ++ [10] ++ body ∧ buf' = [])) w := by
  unfold mwTail
  split
  · exact ⟨f, buf, s, by intro h; cases h⟩
  · rename_i hherr
    intro r hp
    rcases possible_fprintf hp with rfl | ⟨e, rfl⟩
    · have s1 := s.fprintf hne hN ([10] ++ body)
      simp only [isOk, Bool.not_true, Bool.false_eq_true, if_false]
      intro r hp
      rcases possible_plain hp rfl with ⟨v, rfl⟩ | ⟨e, rfl⟩
      · have s2 := s1.fflush hne hN v
        simp only [isOk, Bool.not_true, Bool.false_eq_true, if_false]
        intro r hp
        rcases possible_plain hp rfl with ⟨v', rfl⟩ | ⟨e, rfl⟩
        · have s3 := s2.fsync hne v'
          refine ⟨_, _, s3, ?_⟩
          intro _
          refine ⟨by simpa using hherr, ?_, rfl⟩
          simp [List.append_assoc]
        · have s3 := s2.err hN (.fsync N) e rfl (by intro _ h; cases h) (by intro _ h; cases h) (by intro _ h; cases h)
            (by intro _ h; cases h) (s2.fileSafe hne)
          exact ⟨_, _, s3, by intro h; simp [isOk] at h⟩
      · have s2 := s1.err hN (.fflush N) e rfl (by intro _ h; cases h; rfl) (by intro _ h; cases h) (by intro _ h; cases h)
          (by intro _ h; cases h) (s1.fileSafe hne)
        exact ⟨_, _, s2, by intro h; simp [isOk] at h⟩
    · have s1 := s.err hN (.fprintf N ([10] ++ body)) e rfl (by intro _ h; cases h; rfl) (by intro _ h; cases h)
        (by intro _ h; cases h) (by intro _ h; cases h) (s.fileSafe hne)
      exact ⟨_, _, s1, by intro h; simp [isOk] at h⟩

/-- `message_write(msg, fd)` onto file `fid` (not the protected one): every handle that existed is
untouched, no directory entry changes, the protected file is untouched; when it reports success
the file has grown by exactly the rendered message. -/
theorem spec_messageWriteP {fid0 : Nat} {c0 : Bytes} {w0 : World} (m : Msg) (fd : Handle) {w : World}
    {fid off : Nat} {wr : Bool} {f0 : File}
    (fr : Frm fid0 c0 w0 w) (ho : w.obj fd = .file fid off wr) (hne : fid ≠ fid0) (hf : w.file fid = some f0) :
    wpo (messageWriteP m fd)
      (fun err w' => Frd fid0 c0 w0 w w' ∧ ∃ f, w'.file fid = some f ∧
          (err = false → f.data = f0.data ++ (messageWrite m).1)) w := by
  have hfdlt : fd < w.handles.length := lt_of_obj_ne_closed w fd (by simp [ho])
  unfold messageWriteP
  simp only [bind_eq, pure_eq, call_bind]
  intro r hp
  have fd0 : Frd fid0 c0 w0 w w := ⟨fr, rfl, Nat.le_refl _⟩
  have fd1 := fd0.step (.dupfd fd) r rfl (by intro _ h; cases h) trivial
  rcases possible_handle hp rfl rfl with rfl | ⟨e, rfl⟩
  rotate_left
  · have hc := core_err w (.dupfd fd) e (by intro _ h; cases h) (by intro _ h; cases h) (by intro _ h; cases h)
    exact ⟨fd1, f0, by rw [stepWorld_file, hc]; exact hf, by intro h; cases h⟩
  have hc1 := core_dupfd_ok ho w.handles.length
  generalize hw1 : stepWorld w (.dupfd fd) (.ok w.handles.length) = w1 at fd1 ⊢
  have hN : w0.handles.length ≤ w.handles.length := fr.len
  have ho1 : w1.obj w.handles.length = .file fid off wr := by
    rw [← hw1, stepWorld_obj, hc1]; simp [obj_newHandle]
  have hf1 : w1.file fid = some f0 := by
    rw [← hw1, stepWorld_file, hc1]; simpa using hf
  dsimp only
  intro r hp
  have fd2 := fd1.step (.fdopen w.handles.length) r rfl (by intro _ h; cases h; exact hN) trivial
  rcases possible_plain hp rfl with ⟨v, rfl⟩ | ⟨e, rfl⟩
  rotate_left
  · have hc := core_err w1 (.fdopen w.handles.length) e (by intro _ h; cases h) (by intro _ h; cases h) (by intro _ h; cases h)
    simp only [isOk, Bool.not_false, if_true]
    intro r3 _
    have fd3 := fd2.step (.close w.handles.length) r3 rfl (by intro _ h; cases h; exact hN) trivial
    refine ⟨fd3, f0, ?_, by intro h; cases h⟩
    rw [stepWorld_file, core_close]
    simp only [file_setObj, stepWorld_file, hc]
    exact hf1
  have hc2 := core_fdopen_ok ho1 v
  have s2 : WS fid0 c0 w0 w w.handles.length fid (stepWorld w1 (.fdopen w.handles.length) (.ok v)) f0 [] := by
    refine ⟨fd2, ?_, ?_⟩
    · rw [stepWorld_obj, hc2]; simp [obj_setObj, lt_of_obj_ne_closed w1 w.handles.length (by simp [ho1])]
    · rw [stepWorld_file, hc2]; simpa using hf1
  simp only [isOk, Bool.not_true, Bool.false_eq_true, if_false]
  refine wpo_bind_mono (spec_hdrs hne hN (sortById m.headers) s2) ?_
  rintro herr w3 ⟨buf3, s3, hbuf3⟩
  refine wpo_bind_mono (spec_mwTail s3 hne hN m.body herr) ?_
  rintro err1 w4 ⟨f4, buf4, s4, h4⟩
  intro r3 _
  have fd5 := s4.fd.step (.fclose w.handles.length) r3 rfl (by intro _ h; cases h; exact hN) (s4.fileSafe hne)
  refine ⟨fd5, ?_⟩
  have hc5 := core_fclose_stream s4.obj s4.file r3
  have key : ∀ r : Res, r.isErr = false → (err1 || !isOk r) = false →
      ({ f4 with data := f4.data ++ buf4 } : File).data = f0.data ++ (messageWrite m).1 := by
    intro r _ he
    have he1 : err1 = false := by cases err1 <;> simp at he ⊢
    obtain ⟨hherr, hd, hb⟩ := h4 he1
    subst hb
    simp only [List.append_nil]
    rw [hd, hbuf3 hherr, render_eq]
    simp [List.append_assoc]
  cases r3 with
  | err e =>
    refine ⟨f4, ?_, by intro h; simp [isOk] at h⟩
    rw [stepWorld_file, hc5]; simpa [Res.isErr] using s4.file
  | ok v =>
    refine ⟨{ f4 with data := f4.data ++ buf4 }, ?_, key (.ok v) rfl⟩
    rw [stepWorld_file, hc5]; simp [Res.isErr, file_setFile]
  | name n =>
    refine ⟨{ f4 with data := f4.data ++ buf4 }, ?_, key (.name n) rfl⟩
    rw [stepWorld_file, hc5]; simp [Res.isErr, file_setFile]
  | eof =>
    refine ⟨{ f4 with data := f4.data ++ buf4 }, ?_, key .eof rfl⟩
    rw [stepWorld_file, hc5]; simp [Res.isErr, file_setFile]

end Mdsort.Proofs.ExecSeq
