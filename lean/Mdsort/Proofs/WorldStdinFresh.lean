import Mdsort.Proofs.WorldStdinFrame

/-! The scripts that only act through descriptors they opened themselves: `message_write`,
`writefd`, `message_get_fd`, `exec`. -/

namespace Mdsort.Proofs.World
open Mdsort Mdsort.Model

theorem subj_none {N : Nat} {c : Call} (h : Call.subject c = none) : ∀ x, Call.subject c = some x → N ≤ x := by
  intro x hx; rw [h] at hx; cases hx

theorem subj_some {N : Nat} {c : Call} {y : Handle} (h : Call.subject c = some y) (hy : N ≤ y) :
    ∀ x, Call.subject c = some x → N ≤ x := by
  intro x hx; rw [h] at hx; cases hx; exact hy

theorem fresh_hdrs (N : Nat) (newfd : Handle) (hN : N ≤ newfd) (hs : List Hdr) :
    Fresh N (messageWriteP.hdrs newfd hs) (fun _ => True) := by
  induction hs with
  | nil => unfold messageWriteP.hdrs; exact trivial
  | cons h rest ih =>
    unfold messageWriteP.hdrs
    simp only [bind_eq, pure_eq, call_bind]
    refine Fresh.call rfl (subj_some rfl hN) (fun r _ => ?_)
    split
    · exact ih
    · exact trivial

theorem fresh_messageWriteP (N : Nat) (m : Msg) (fd : Handle) : Fresh N (messageWriteP m fd) (fun _ => True) := by
  unfold messageWriteP
  simp only [bind_eq, pure_eq, call_bind]
  refine Fresh.call rfl (subj_none rfl) (fun r hr => ?_)
  split
  · rename_i newfd
    have hN : N ≤ newfd := hr rfl newfd rfl
    refine Fresh.call rfl (subj_some rfl hN) (fun r2 _ => ?_)
    split
    · exact Fresh.call rfl (subj_some rfl hN) (fun _ _ => trivial)
    · refine Fresh.bind (fresh_hdrs N newfd hN _) (fun herr _ => ?_)
      refine Fresh.bind (R := fun _ => True) ?_ (fun err1 _ => Fresh.call rfl (subj_some rfl hN) (fun _ _ => trivial))
      split
      · exact trivial
      · refine Fresh.call rfl (subj_some rfl hN) (fun r3 _ => ?_)
        split
        · exact trivial
        · refine Fresh.call rfl (subj_some rfl hN) (fun r4 _ => ?_)
          split
          · exact trivial
          · exact Fresh.call rfl (subj_none rfl) (fun _ _ => trivial)
  · exact trivial

theorem fresh_writefd (N : Nat) (tmpdir : Bytes) : Fresh N (writefd tmpdir) (fun r => ∀ fd, r = some fd → N ≤ fd) := by
  unfold writefd
  split
  · intro fd h; cases h
  · simp only [bind_eq, pure_eq, call_bind]
    refine Fresh.call rfl (subj_none rfl) (fun r hr => ?_)
    split
    · rename_i fd
      have hN : N ≤ fd := hr rfl fd rfl
      refine Fresh.call rfl (subj_none rfl) (fun r2 _ => ?_)
      split
      · intro fd' h; cases h; exact hN
      · exact Fresh.call rfl (subj_some rfl hN) (fun _ _ => by intro fd' h; cases h)
    · intro fd h; cases h

theorem fresh_writeAll (N : Nat) (fd : Handle) (hN : N ≤ fd) (fuel : Nat) (data : Bytes) :
    Fresh N (writeAll fd fuel data) (fun _ => True) := by
  induction fuel generalizing data with
  | zero => unfold writeAll; exact trivial
  | succ fuel ih =>
    unfold writeAll
    split
    · exact trivial
    · simp only [bind_eq, pure_eq, call_bind]
      refine Fresh.call rfl (subj_some rfl hN) (fun r _ => ?_)
      split
      · split
        · exact trivial
        · exact ih _
      · exact trivial

theorem fresh_messageGetFd (N : Nat) (env : PEnv) (ms : MsgSt) (part : Option Msg) (dobody : Bool) :
    Fresh N (messageGetFd env ms part dobody) (fun r => ∀ fd, r = some fd → N ≤ fd) := by
  unfold messageGetFd
  simp only [bind_eq, pure_eq, call_bind]
  refine Fresh.bind (R := fun r => ∀ fd, r = some fd → N ≤ fd) ?_ ?_
  · split
    · split
      · intro fd h; cases h
      · refine Fresh.bind (fresh_writefd N env.tmpdir) (fun f hf => ?_)
        cases f with
        | none => intro fd h; cases h
        | some fd =>
          have hN := hf fd rfl
          dsimp only
          refine Fresh.bind (fresh_writeAll N fd hN _ _) (fun e _ => ?_)
          split
          · exact Fresh.call rfl (subj_some rfl hN) (fun _ _ => by intro fd' h; cases h)
          · intro fd' h; cases h; exact hN
    · split
      · refine Fresh.bind (fresh_writefd N env.tmpdir) (fun f hf => ?_)
        cases f with
        | none => intro fd h; cases h
        | some fd =>
          have hN := hf fd rfl
          dsimp only
          refine Fresh.bind (fresh_messageWriteP N _ fd) (fun e _ => ?_)
          split
          · exact Fresh.call rfl (subj_some rfl hN) (fun _ _ => by intro fd' h; cases h)
          · intro fd' h; cases h; exact hN
      · split
        · intro fd h; cases h
        · refine Fresh.call rfl (subj_none rfl) (fun r hr => ?_)
          intro fd h
          cases r with
          | ok v =>
            simp only [resHandle, Option.some.injEq] at h
            subst h
            exact hr rfl _ rfl
          | _ => simp [resHandle] at h
  · intro fdo hfdo
    cases fdo with
    | none => intro fd h; cases h
    | some fd =>
      have hN := hfdo fd rfl
      dsimp only
      refine Fresh.call rfl (subj_none rfl) (fun r _ => ?_)
      split
      · intro fd' h; cases h; exact hN
      · exact Fresh.call rfl (subj_some rfl hN) (fun _ _ => by intro fd' h; cases h)

theorem fresh_execP (N : Nat) (argv : List Bytes) (fdin : Option Handle) : Fresh N (execP argv fdin) (fun _ => True) := by
  unfold execP
  simp only [bind_eq, pure_eq, call_bind]
  refine Fresh.bind (R := fun dn => ∀ h, dn = some (some h) → N ≤ h) ?_ ?_
  · split
    · intro h hh; cases hh
    · refine Fresh.call rfl (subj_none rfl) (fun r hr => ?_)
      split
      · rename_i h
        intro h' hh
        cases hh
        exact hr rfl h rfl
      · intro h hh; cases hh
  · intro dn hdn
    cases dn with
    | none => exact trivial
    | some devnull =>
      dsimp only
      refine Fresh.call rfl (subj_none rfl) (fun r _ => ?_)
      refine Fresh.bind (R := fun _ => True) ?_ ?_
      · split
        · refine Fresh.call rfl (subj_none rfl) (fun w _ => ?_)
          split <;> exact trivial
        · exact trivial
      · intro res _
        cases devnull with
        | none => exact trivial
        | some h => exact Fresh.call rfl (subj_some rfl (hdn h rfl)) (fun _ _ => trivial)

end Mdsort.Proofs.World
