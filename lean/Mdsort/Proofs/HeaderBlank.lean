import Mdsort.Proofs.Header

/-!
# `message_set_header` with any C-string value (C08, after /repo 4ac7c48)

`message_set_header` turns every `'\n'` / `'\r'` of the value into a space before it updates the table
(`Model.headerSafe`, `Model.setHeader`).  What can still distinguish the value from one "that keeps the line structure"
(`ValOk`) is a run of leading blanks: `message_write` prints `name ": " value`, and a reader drops ALL blanks after the
colon.  This file widens the read-back lemmas of Proofs/HeaderReparse.lean to such values: the printed table reads back as
the table with the leading blanks of every value removed (`seen`).
-/

set_option linter.unusedSimpArgs false

namespace Mdsort.Proofs
open Mdsort Mdsort.Model

/-- What a reader sees of a field: the value without its leading blanks. -/
def seen (f : Fld) : Fld := (f.1, f.2.dropWhile isblank)

/-- `v` is blanks `bl`, a first line `v0` (no leading blank) and continuation lines `conts`. -/
def ValShapeB (v bl v0 : Bytes) (conts : List Bytes) : Prop :=
  v = bl ++ (v0 ++ conts.flatMap (fun c => 10 :: c)) ∧ (∀ c ∈ bl, isblank c = true) ∧ (10 : UInt8) ∉ v0 ∧
  (∀ c, v0.head? = some c → isblank c = false) ∧
  ∀ c ∈ conts, Spec.isCont c = true ∧ (10 : UInt8) ∉ c

def ValOkB (v : Bytes) : Prop := (∀ c ∈ v, c ≠ 0) ∧ ∃ bl v0 conts, ValShapeB v bl v0 conts

theorem valOkB_of_valOk {v : Bytes} (h : ValOk v) : ValOkB v := by
  obtain ⟨h0, v0, conts, h1, h2, h3, h4⟩ := h
  exact ⟨h0, [], v0, conts, by simpa using h1, by simp, h2, h3, h4⟩

theorem dropWhile_blanks_then (bl r : Bytes) (hbl : ∀ c ∈ bl, isblank c = true)
    (hr : ∀ c, r.head? = some c → isblank c = false) : (bl ++ r).dropWhile isblank = r := by
  induction bl with
  | nil =>
    cases r with
    | nil => rfl
    | cons x t => simp [hr x rfl]
  | cons x bl ih => simp [hbl x (by simp), ih (fun c hc => hbl c (by simp [hc]))]

theorem head_first_line (v0 : Bytes) (conts : List Bytes) (hv : ∀ c, v0.head? = some c → isblank c = false) :
    ∀ c, (v0 ++ conts.flatMap (fun c => 10 :: c)).head? = some c → isblank c = false := by
  intro c hc
  cases v0 with
  | nil =>
    cases conts with
    | nil => simp at hc
    | cons a r => simp at hc; subst hc; decide
  | cons x t => simp at hc; subst hc; exact hv x rfl

theorem seen_of_shape {v bl v0 : Bytes} {conts : List Bytes} (h : ValShapeB v bl v0 conts) (k : Bytes) :
    seen (k, v) = (k, v0 ++ conts.flatMap (fun c => 10 :: c)) := by
  obtain ⟨rfl, hbl, _, hv, _⟩ := h
  unfold seen
  simp only
  rw [dropWhile_blanks_then bl _ hbl (head_first_line v0 conts hv)]

theorem startLine_mkB (k bl v0 : Bytes) (hk : ∀ c ∈ k, c ≠ 58 ∧ isspace c = false)
    (hbl : ∀ c ∈ bl, isblank c = true) (hv : ∀ c, v0.head? = some c → isblank c = false) :
    Spec.startLine (k ++ 58 :: 32 :: (bl ++ v0)) = some (k, v0) := by
  unfold Spec.startLine
  simp only [takeWhile_ne_append k _ (fun c hc => (hk c hc).1)]
  have h1 : (k.length == (k ++ 58 :: 32 :: (bl ++ v0)).length) = false := by simp
  have h2 : k.any isspace = false := by
    rw [List.any_eq_false]
    intro c hc
    simp [(hk c hc).2]
  have h3 : (k ++ 58 :: 32 :: (bl ++ v0)).drop (k.length + 1) = 32 :: (bl ++ v0) := by
    rw [show k ++ 58 :: 32 :: (bl ++ v0) = (k ++ [58]) ++ 32 :: (bl ++ v0) by simp]
    rw [List.drop_left' (by simp)]
  have h4 : (32 :: (bl ++ v0)).dropWhile isblank = v0 := by
    have := dropWhile_blanks_then (32 :: bl) v0 (by
      intro c hc
      rcases List.mem_cons.mp hc with rfl | hc
      · decide
      · exact hbl c hc) hv
    simpa using this
  simp only [h1, h2, Bool.false_eq_true, if_false, h3, h4]

theorem fields_linesB (fs : List (Bytes × Bytes)) (hfs : ∀ f ∈ fs, KeyOk f.1 ∧ ValOkB f.2) :
    ∃ ls, (∀ l ∈ ls, l ≠ [] ∧ (10 : UInt8) ∉ l) ∧
      (fs.flatMap fun f => f.1 ++ [58, 32] ++ f.2 ++ [10]) = flat ls ∧
      (∀ l, ls.head? = some l → Spec.isCont l = false) ∧
      ∀ fuel, ls.length < fuel → Spec.groupFields fuel ls = some (fs.map seen) := by
  induction fs with
  | nil =>
    refine ⟨[], by simp, rfl, by simp, ?_⟩
    intro fuel hf
    cases fuel with
    | zero => omega
    | succ f => rfl
  | cons f fs ih =>
    obtain ⟨ls', h1, h2, h3, h4⟩ := ih (fun f hf => hfs f (by simp [hf]))
    obtain ⟨k, v⟩ := f
    obtain ⟨hk, hv0, bl, v0, conts, hshape⟩ := hfs (k, v) (by simp)
    have hseen := seen_of_shape hshape k
    obtain ⟨rfl, hbl, hv1, hv2, hv3⟩ := hshape
    have hk10 : (10 : UInt8) ∉ k := by
      intro hm
      have := (hk 10 hm).2.1
      revert this; decide
    have hbl10 : (10 : UInt8) ∉ bl := by
      intro hm
      have := hbl 10 hm
      revert this; decide
    refine ⟨(k ++ 58 :: 32 :: (bl ++ v0)) :: (conts ++ ls'), ?_, ?_, ?_, ?_⟩
    · intro l hl
      rcases List.mem_cons.mp hl with rfl | hl
      · refine ⟨by simp, ?_⟩
        simp only [List.mem_append, List.mem_cons, not_or]
        exact ⟨hk10, by decide, by decide, hbl10, hv1⟩
      · rcases List.mem_append.mp hl with hl | hl
        · refine ⟨?_, (hv3 l hl).2⟩
          intro e
          have := (hv3 l hl).1
          rw [e] at this
          simp [Spec.isCont] at this
        · exact h1 l hl
    · simp only [List.flatMap_cons, h2, flat_cons, flat_append]
      simp only [List.append_assoc, List.cons_append, List.nil_append]
      rw [flatMap_nl']
    · intro l hl
      simp only [List.head?_cons, Option.some.injEq] at hl
      subst hl
      cases k with
      | nil => simp [Spec.isCont]; decide
      | cons c k =>
        simp only [List.cons_append, Spec.isCont]
        have := (hk c (by simp)).2.1
        cases hb : isblank c with
        | false => rfl
        | true => rw [isspace_of_isblank c hb] at this; cases this
    · intro fuel hf
      cases fuel with
      | zero => omega
      | succ fuel =>
        rw [Spec.groupFields]
        rw [startLine_mkB k bl v0 (fun c hc => ⟨(hk c hc).1, (hk c hc).2.1⟩) hbl hv2]
        simp only
        obtain ⟨e1, e2⟩ := takeWhile_append_head Spec.isCont conts ls' (fun x hx => (hv3 x hx).1) h3
        rw [e1, e2, h4 fuel (by simp at hf; omega)]
        simp only [List.map_cons, hseen, Option.map_some]

theorem dropFromLine_renderFB (fs : List (Bytes × Bytes)) (b : Bytes)
    (hfs : ∀ f ∈ fs, KeyOk f.1 ∧ ValOkB f.2) :
    Spec.dropFromLine (renderF fs b) = renderF fs b := by
  unfold Spec.dropFromLine
  have : ([70, 114, 111, 109, 32] : Bytes).isPrefixOf (renderF fs b) = false := by
    cases fs with
    | nil => simp [renderF, List.isPrefixOf]
    | cons f fs =>
      obtain ⟨k, v⟩ := f
      have hk := (hfs (k, v) (by simp)).1
      have : renderF ((k, v) :: fs) b = k ++ 58 :: (32 :: v ++ [10] ++
          (fs.flatMap fun f => f.1 ++ [58, 32] ++ f.2 ++ [10]) ++ [10] ++ b) := by
        simp [renderF]
      rw [this]
      exact not_from_prefix k _ (fun c hc => ⟨(hk c hc).1, (hk c hc).2.1⟩)
  rw [this]
  simp

/-- The printed table reads back as the table a reader sees. -/
theorem read_renderFB (fs : List (Bytes × Bytes)) (b : Bytes)
    (hfs : ∀ f ∈ fs, KeyOk f.1 ∧ ValOkB f.2) (hb0 : ∀ c ∈ b, c ≠ 0)
    (hb : ∀ c, b.head? = some c → c ≠ 10) :
    Spec.read (renderF fs b) = some (fs.map seen, b) := by
  obtain ⟨ls, h1, h2, -, h4⟩ := fields_linesB fs hfs
  have hnul : (renderF fs b).contains 0 = false := by
    rw [List.contains_eq_mem, decide_eq_false_iff_not]
    intro hm
    simp only [renderF, List.mem_append, List.mem_flatMap, List.mem_cons, List.not_mem_nil,
      or_false] at hm
    rcases hm with (⟨f, hf, hm⟩ | hm) | hm
    · obtain ⟨hk, hv, -⟩ := hfs f hf
      rcases hm with ((hm | hm) | hm) | hm
      · exact (hk 0 hm).2.2 rfl
      · rcases hm with hm | hm <;> revert hm <;> decide
      · exact hv 0 hm rfl
      · revert hm; decide
    · revert hm; decide
    · exact hb0 0 hm rfl
  have htext : renderF fs b = flat ls ++ 10 :: b := by
    unfold renderF; rw [h2]; simp
  unfold Spec.read
  rw [hnul, dropFromLine_renderFB fs b hfs, htext, splitHB_flat ls b h1]
  simp only [Bool.false_eq_true, if_false]
  rw [h4 (ls.length + 1) (by omega)]
  split
  · rename_i r
    exact absurd rfl (hb 10 rfl)
  · rfl

/-! ## the table: invariant, one setting, write and read back -/

def TOkB (hs : List Hdr) : Prop := ∀ h ∈ hs, KeyOk h.key ∧ ValOkB h.val

structure GoodB (M : Msg) : Prop where
  inv : TInv M.headers
  ok : TOkB M.headers

theorem goodB_of_good {M : Msg} (h : Good M) : GoodB M :=
  ⟨h.inv, fun x hx => ⟨(h.ok x hx).1, valOkB_of_valOk (h.ok x hx).2⟩⟩

theorem setHeaderRaw_goodB (M : Msg) (k v : Bytes) (hM : GoodB M) (hk : KeyOk k) (hv : ValOkB v) :
    GoodB (setHeaderRaw M k v) ∧ (setHeaderRaw M k v).body = M.body ∧
    StepRel k v (FO M.headers) (FO (setHeaderRaw M k v).headers) := by
  obtain ⟨h1, h2, h3, h4⟩ := setHeaderRaw_step M k v hM.inv
  refine ⟨⟨h1, ?_⟩, h2, stepRel_of_tableStep k v _ _ h4⟩
  intro x hx
  rcases h3 x hx with hx | ⟨hxv, hxk⟩
  · exact hM.ok x hx
  · refine ⟨?_, by rw [hxv]; exact hv⟩
    rcases hxk with hxk | ⟨y, hy, hyk⟩
    · rw [hxk]; exact hk
    · rw [← hyk]; exact (hM.ok y hy).1

theorem write_readB (M : Msg) (hM : GoodB M) (hb0 : ∀ c ∈ M.body, c ≠ 0)
    (hb : ∀ c, M.body.head? = some c → c ≠ 10) :
    Spec.read (messageWrite M).1 = some ((FO M.headers).map seen, M.body) := by
  have e : (messageWrite M).1 = renderF (FO M.headers) M.body := by
    unfold messageWrite FO
    simp only
    rw [render_eq]; rfl
  rw [e]
  apply read_renderFB _ _ _ hb0 hb
  intro f hf
  unfold FO at hf
  rw [List.mem_map] at hf
  obtain ⟨h, hh, rfl⟩ := hf
  rw [sortById, List.mem_mergeSort] at hh
  exact hM.ok h hh

/-! ## what a reader sees of a chain of settings -/

theorem qk_seen (k : Bytes) (f : Fld) : qk k (seen f) = qk k f := rfl

theorem filter_map_seen (q : Fld → Bool) (hq : ∀ f, q (seen f) = q f) (F : List Fld) :
    (F.map seen).filter q = (F.filter q).map seen := by
  induction F with
  | nil => rfl
  | cons f F ih =>
    simp only [List.map_cons, List.filter_cons, hq f]
    split <;> simp [ih]

theorem takeWhile_map_seen (q : Fld → Bool) (hq : ∀ f, q (seen f) = q f) (F : List Fld) :
    (F.map seen).takeWhile q = (F.takeWhile q).map seen := by
  induction F with
  | nil => rfl
  | cons f F ih =>
    simp only [List.map_cons, List.takeWhile_cons, hq f]
    split <;> simp [ih]

theorem stepRel_seen {k v : Bytes} {F F1 : List Fld} (h : StepRel k v F F1) :
    StepRel k (v.dropWhile isblank) (F.map seen) (F1.map seen) := by
  obtain ⟨h1, h2, h3⟩ := h
  have hq : ∀ f, (fun f => !qk k f) (seen f) = (fun f => !qk k f) f := fun f => rfl
  refine ⟨?_, ?_, ?_⟩
  · rw [filter_map_seen _ hq, filter_map_seen _ hq, h1]
  · rw [filter_map_seen _ (qk_seen k), List.map_map]
    have : ((fun x : Fld => x.2) ∘ seen) = fun f => f.2.dropWhile isblank := rfl
    rw [this]
    have := congrArg (List.map (fun v : Bytes => v.dropWhile isblank)) h2
    simpa [List.map_map] using this
  · intro hany
    have hany' : F.any (qk k) = true := by
      rw [List.any_map] at hany
      simpa [Function.comp_def, qk_seen] using hany
    rw [takeWhile_map_seen _ hq, takeWhile_map_seen _ hq, h3 hany']

theorem chain_seen : ∀ (kvs a b : List Fld), Chain kvs a b → Chain (kvs.map seen) (a.map seen) (b.map seen)
  | [], a, b, h => by cases h; rfl
  | (k, v) :: rest, a, b, h => by
    obtain ⟨a1, h1, h2⟩ := h
    exact ⟨a1.map seen, stepRel_seen h1, chain_seen rest a1 b h2⟩

/-- Fields read from a file have no leading blanks: a reader sees them as they are. -/
theorem seen_of_read (fs : List Fld) (hfs : ∀ f ∈ fs, KeyOk f.1 ∧ ValOk f.2) : fs.map seen = fs := by
  have : ∀ f ∈ fs, seen f = f := by
    intro f hf
    obtain ⟨_, _, v0, conts, h1, _, h3, _⟩ := hfs f hf
    obtain ⟨k, v⟩ := f
    simp only at h1
    subst h1
    unfold seen
    simp only
    rw [dropWhile_blank_self _ (head_first_line v0 conts h3)]
  calc fs.map seen = fs.map id := List.map_congr_left this
    _ = fs := List.map_id fs

/-! ## `message_set_header` as the code has it: line breaks replaced first -/

theorem headerSafe_no_nl (v : Bytes) : (10 : UInt8) ∉ headerSafe v := by
  unfold headerSafe
  intro h
  obtain ⟨c, _, hc⟩ := List.mem_map.1 h
  split at hc
  · cases hc
  · rename_i hn
    subst hc
    simp at hn

theorem headerSafe_no_nul (v : Bytes) (h : ∀ c ∈ v, c ≠ 0) : ∀ c ∈ headerSafe v, c ≠ 0 := by
  unfold headerSafe
  intro c hc
  obtain ⟨d, hd, rfl⟩ := List.mem_map.1 hc
  split
  · decide
  · exact h d hd

/-- Any NUL-free value, once its line breaks are spaces, is blanks followed by one line. -/
theorem valOkB_headerSafe (v : Bytes) (h : ∀ c ∈ v, c ≠ 0) : ValOkB (headerSafe v) := by
  refine ⟨headerSafe_no_nul v h, (headerSafe v).takeWhile isblank, (headerSafe v).dropWhile isblank, [], ?_, ?_, ?_, ?_, ?_⟩
  · simp
  · intro c hc; exact mem_takeWhile_imp' hc
  · intro hm; exact headerSafe_no_nl v ((List.dropWhile_sublist _).subset hm)
  · intro c hc
    cases hd : (headerSafe v).dropWhile isblank with
    | nil => rw [hd] at hc; cases hc
    | cons x r =>
      have := List.head_dropWhile_not isblank (l := headerSafe v) (by rw [hd]; simp)
      simp only [hd, List.head_cons] at this
      rw [hd] at hc
      simp only [List.head?_cons, Option.some.injEq] at hc
      subst hc; exact this
  · intro c hc; cases hc

/-- Apply a sequence of header settings as `message_set_header` does them (label / add-header, in order). -/
def applySets (m : Msg) : List (Bytes × Bytes) → Msg
  | [] => m
  | (k, v) :: rest => applySets (setHeader m k v) rest

/-- The settings with the values as `message_set_header` stores them. -/
def safeKvs (kvs : List Fld) : List Fld := kvs.map fun kv => (kv.1, headerSafe kv.2)

theorem applySets_eq_raw (m : Msg) (kvs : List Fld) : applySets m kvs = applySetsRaw m (safeKvs kvs) := by
  induction kvs generalizing m with
  | nil => rfl
  | cons kv rest ih =>
    obtain ⟨k, v⟩ := kv
    simp only [applySets, safeKvs, List.map_cons, applySetsRaw, setHeader]
    exact ih _

/-- What is left to ask of a setting: a field name that keeps the line structure and a value without NUL (every C
string). -/
def SetRes (kv : Fld) : Prop := KeyOk kv.1 ∧ ∀ c ∈ kv.2, c ≠ 0

theorem applySetsRaw_goodB (M : Msg) (kvs : List Fld) (hM : GoodB M)
    (hk : ∀ kv ∈ kvs, KeyOk kv.1 ∧ ValOkB kv.2) :
    GoodB (applySetsRaw M kvs) ∧ (applySetsRaw M kvs).body = M.body ∧
    Chain kvs (FO M.headers) (FO (applySetsRaw M kvs).headers) := by
  induction kvs generalizing M with
  | nil => exact ⟨hM, rfl, rfl⟩
  | cons kv rest ih =>
    obtain ⟨k, v⟩ := kv
    obtain ⟨hk1, hv1⟩ := hk (k, v) (by simp)
    obtain ⟨g1, b1, s1⟩ := setHeaderRaw_goodB M k v hM hk1 hv1
    obtain ⟨g2, b2, c2⟩ := ih (setHeaderRaw M k v) g1 (fun kv hkv => hk kv (by simp [hkv]))
    exact ⟨g2, b2.trans b1, _, s1, c2⟩

/-- **Any sequence of settings, any C-string values.**  For a well-formed message and settings whose names keep the line
structure and whose values hold no NUL: the file `message_write` prints after the settings is accepted by
`Spec.rewriteOk` for the values a reader sees - line breaks replaced by spaces, leading blanks dropped. -/
theorem rewrite_preserves_any (m : Bytes) (kvs : List Fld) (hwf : Spec.WF m) (hk : ∀ kv ∈ kvs, SetRes kv) :
    Spec.rewriteOk m ((safeKvs kvs).map seen) (messageWrite (applySets (parseMessage m) kvs)).1 = true := by
  unfold Spec.WF at hwf
  obtain ⟨⟨fs, b⟩, hread⟩ := Option.isSome_iff_exists.mp hwf
  obtain ⟨hfs, hb0, hb⟩ := read_fields_ok m fs b hread
  obtain ⟨g0, hfo, hbody⟩ := parse_good m fs b hread
  rw [applySets_eq_raw]
  have hk' : ∀ kv ∈ safeKvs kvs, KeyOk kv.1 ∧ ValOkB kv.2 := by
    intro kv hkv
    obtain ⟨kv0, h0, rfl⟩ := List.mem_map.1 hkv
    exact ⟨(hk kv0 h0).1, valOkB_headerSafe _ (hk kv0 h0).2⟩
  obtain ⟨g, hbd, hchain⟩ := applySetsRaw_goodB (parseMessage m) (safeKvs kvs) (goodB_of_good g0) hk'
  rw [hfo] at hchain
  have hbd' : (applySetsRaw (parseMessage m) (safeKvs kvs)).body = b := hbd.trans hbody
  have hout := write_readB _ g (by rw [hbd']; exact hb0) (by rw [hbd']; exact hb)
  rw [hbd'] at hout
  have hc := chain_seen _ _ _ hchain
  rw [seen_of_read fs hfs] at hc
  exact chain_rewriteOk m _ _ fs _ b hread hout hc

theorem second_write_same_any (m : Bytes) (kvs : List Fld) :
    let w := messageWrite (applySets (parseMessage m) kvs)
    (messageWrite w.2).1 = w.1 := by
  intro w
  have : w.2 = applySets (parseMessage m) kvs := by
    show (messageWrite (applySets (parseMessage m) kvs)).2 = _
    rw [applySets_eq_raw]
    exact messageWrite_snd _ (applySetsRaw_inv _ _ (TInv_parseHeaders _))
  rw [this]

end Mdsort.Proofs
