import Mdsort.Proofs.WorldOwnScripts

/-! C17: a party only ever removes or replaces names it was handed as its message or created itself. -/

namespace Mdsort.Proofs
set_option linter.unusedSimpArgs false

open Mdsort Mdsort.Model
open Mdsort.Proofs.World (bind_eq pure_eq ret_bind call_bind' call_bind bind_assoc)
open Mdsort.Proofs.Own

/-- The names a run may remove or rename at step `i`: the name of the message it was given, and
every name it created itself (exclusively) before that step. -/
def ownNames (src : Bytes) (tr : List (Call × Res)) (i : Nat) : List Bytes := src :: createdNames (tr.take i)

/-- Whatever the file system and other parties do (arbitrary results), executing an action list
never unlinks a name and never renames from a name that is not its own, and never renames ONTO a
name it did not create itself (so it never replaces a file created by another party, nor removes
a winner's copy). -/
theorem exec_touches_only_own (env : PEnv) (ml : MatchList) (st : ExecSt) (orc : Nat → Call → Res) :
    let tr := (runOracle orc (matchesExec env ml st) 0 []).2
    ∀ i c r, tr[i]? = some (c, r) →
      (∀ d n, c = .unlinkat d n → n ∈ ownNames st.ms.name tr i) ∧
      (∀ d1 n1 d2 n2, c = .renameat d1 n1 d2 n2 → n1 ∈ ownNames st.ms.name tr i ∧ n2 ∈ createdNames (tr.take i)) := by
  intro tr i c r hget
  have h := wp_sound (R := fun _ _ => True) orc (fun _ _ => True.intro)
    (spec_matchesExec st.ms.name env ml st [] (Own.src _ _)) 0
  exact h.2.2 i c r (Nat.zero_le _) hget

/-- Once the source name is gone (its removal or rename fails), the run reports an error for this
message: a lost race is never reported as success.  Stated for a single move/flag/flags entry. -/
theorem lost_race_is_error (env : PEnv) (mh : Match) (st : ExecSt) (orc : Nat → Call → Res)
    (hty : mh.ty = .move ∨ mh.ty = .flag ∨ mh.ty = .flags)
    (hlost : ∀ i d1 n1 d2 n2, orc i (.renameat d1 n1 d2 n2) = .err "ENOENT") :
    (runOracle orc (execOne env mh st) 0 []).1.2 = true := by
  rw [execOne_move env mh st hty]
  refine (wp_sound (R := Lost) orc ?_ (lost_moveBranch env mh st []) 0).1
  intro i c d1 n1 d2 n2 hc
  subst hc
  exact hlost i d1 n1 d2 n2

/-! ### C13: exit statuses, argument vectors -/

/-- The handle a successful call returned (`open("/dev/null")` in `exec()`); 0 when the call failed (then no `fork`
is issued and the value is not used). -/
def Own.okHandle : Res → Handle
  | .ok h => h
  | _ => 0

/-- The value of `execP` in terms of the three results it consumes; the `fork` is asked with the vector `execP` was
handed and with the descriptor handed in resp. the handle `open("/dev/null")` returned. -/
theorem Own.execP_run (argv : List Bytes) (fdin : Option Handle) (orc : Nat → Call → Res) (i : Nat) :
    (runO orc (execP argv fdin) i).1 =
      match fdin with
      | some fd => execValue true (orc i (.fork argv fd)) (orc (i + 1) .waitpid)
      | none =>
        match orc i (.openPath (ofString "/dev/null")) with
        | .ok h => execValue true (orc (i + 1) (.fork argv h)) (orc (i + 2) .waitpid)
        | r => execValue false (orc (i + 1) (.fork argv (Own.okHandle r))) (orc (i + 2) .waitpid) := by
  unfold execP
  simp only [bind_eq, pure_eq, call_bind]
  cases fdin with
  | some h =>
    simp only [ret_bind, runO_call, execValue, childStdin]
    cases orc i (.fork argv h) <;> simp only [call_bind', ret_bind, runO_call, runO_ret] <;> try rfl
    cases orc (i + 1) .waitpid <;> simp only [call_bind', ret_bind, runO_call, runO_ret] <;> try rfl
  | none =>
    simp only [call_bind', runO_call]
    cases orc i (.openPath (ofString "/dev/null")) with
    | ok hn =>
      simp only [ret_bind, runO_call, runO_ret, execValue, childStdin]
      cases orc (i + 1) (.fork argv hn) <;> simp only [call_bind', ret_bind, runO_call, runO_ret] <;> try rfl
      cases orc (i + 1 + 1) .waitpid <;> simp only [call_bind', ret_bind, runO_call, runO_ret] <;> try rfl
    | _ => simp only [ret_bind, runO_call, runO_ret, execValue] <;> rfl

theorem execP_value (argv : List Bytes) (fdin : Option Handle) (orc : Nat → Call → Res) :
    ∃ devnullOk forkRes waitRes, (runOracle orc (execP argv fdin) 0 []).1 = execValue devnullOk forkRes waitRes := by
  rw [runOracle_eq]
  simp only [Own.execP_run]
  cases fdin with
  | some h => exact ⟨_, _, _, rfl⟩
  | none =>
    dsimp only
    split <;> exact ⟨_, _, _, rfl⟩

/-- An entry whose execution reports an error ends the action list: what follows it is not
executed (the run is the same whatever the rest of the list is) and the error is returned. -/
theorem error_stops_list (env : PEnv) (mh : Match) (rest rest' : MatchList) (st : ExecSt) (orc : Nat → Call → Res)
    (he : (runOracle orc (execOne env mh st) 0 []).1.2 = true) :
    (runOracle orc (matchesExec env (mh :: rest) st) 0 []).1.2 = true ∧
    (runOracle orc (matchesExec env (mh :: rest) st) 0 []).2 = (runOracle orc (matchesExec env (mh :: rest') st) 0 []).2 := by
  simp only [runOracle_eq, matchesExec_cons, runO_bind] at he ⊢
  simp only [he, if_true, errTail, and_true]
  split <;> simp only [runO_bind, runO_ret]

/-- A non-zero value of `exec()` is an error of the exec action. -/
theorem exec_nonzero_is_error (env : PEnv) (mh : Match) (st : ExecSt) (orc : Nat → Call → Res)
    (hty : mh.ty = .exec) (hs : mh.execStdin = false)
    (hnz : (runOracle orc (execP mh.argv none) 0 []).1 ≠ 0) :
    (runOracle orc (execOne env mh st) 0 []).1.2 = true := by
  have hexec : execOne env mh st = (execP mh.argv none).bind fun rc => Prog.ret (st, rc != 0) := by
    unfold execOne
    simp only [hty, hs]
    rfl
  simp only [runOracle_eq, hexec, runO_bind, runO_ret] at hnz ⊢
  simpa using hnz

/-- The argument vector is one interpolated string per configured string, in order: no splitting,
no joining. -/
theorem argv_one_per_string (macros : Option (List (Bytes × Bytes))) (ml : MatchList) (i : Nat) (mh mh' : Match)
    (msgs : Nat → Msg) (upd : Option (Nat × Msg)) (hty : mh.ty = .exec ∨ mh.ty = .command)
    (h : matchInterpolate macros ml i mh msgs = some (mh', upd)) :
    mh'.argv.length = mh.strings.length ∧
    ∀ (k : Nat) (s : Bytes), mh.strings[k]? = some s → ∃ v, interpolate (ml.take i) macros s = some v ∧ mh'.argv[k]? = some (cstr v) := by
  have h' : (mh.strings.mapM (interpolate (ml.take i) macros)).map
      (fun av => (({ mh with argv := av.map cstr } : Match), (none : Option (Nat × Msg)))) = some (mh', upd) := by
    unfold matchInterpolate at h
    rcases hty with hty | hty <;> simpa only [hty] using h
  simp only [Option.map_eq_some_iff, Prod.mk.injEq] at h'
  obtain ⟨av, hav, rfl, -⟩ := h'
  obtain ⟨hl, hk⟩ := mapM_option_some hav
  refine ⟨by simp [hl], ?_⟩
  intro k s hks
  obtain ⟨v, hv, hvk⟩ := hk k s hks
  exact ⟨v, hv, by simp [hvk]⟩

end Mdsort.Proofs
