import Mdsort.Proofs.WorldFs

/-! Effect of one call on the observations of the abstract file system. -/

namespace Mdsort.Proofs.World
open Mdsort Mdsort.Model

/-- The world after a call, before the trace is extended. -/
def core (w : World) (c : Call) (r : Res) : World := (applyOk w c r).getD w

theorem getD_map_P {β} {P : World → Prop} {w : World} {o : Option β} {f : β → World} (hw : P w)
    (h : ∀ x, o = some x → P (f x)) : P ((o.map f).getD w) := by
  cases o with
  | none => exact hw
  | some x => exact h x rfl

theorem getD_bind_P {β} {P : World → Prop} {w : World} {o : Option β} {g : β → Option World} (hw : P w)
    (h : ∀ x, o = some x → P ((g x).getD w)) : P ((o.bind g).getD w) := by
  cases o with
  | none => exact hw
  | some x => exact h x rfl

@[simp] theorem nextFid_setObj (w : World) (h : Handle) (o : Obj) : (w.setObj h o).nextFid = w.nextFid := rfl
@[simp] theorem nextFid_setFile (w : World) (fid : Nat) (f : File) : (w.setFile fid f).nextFid = w.nextFid := rfl
@[simp] theorem nextFid_newHandle (w : World) (o : Obj) : (w.newHandle o).1.nextFid = w.nextFid := rfl
@[simp] theorem nextFid_bind (w : World) (p n : Bytes) (fid : Nat) : (w.bind p n fid).nextFid = w.nextFid := by
  unfold World.bind; split <;> rfl
@[simp] theorem nextFid_unbind (w : World) (p n : Bytes) : (w.unbind p n).nextFid = w.nextFid := by
  unfold World.unbind; split <;> rfl
@[simp] theorem nextFid_applyWrite (w : World) (fd : Handle) (data : Bytes) (n : Nat) : (applyWrite w fd data n).nextFid = w.nextFid := by
  unfold applyWrite
  split
  · split <;> rfl
  · rfl
  · rfl

theorem core_nextFid (w : World) (c : Call) (r : Res) : w.nextFid ≤ (core w c r).nextFid := by
  unfold core applyOk
  split <;>
    repeat' (first
      | exact Nat.le_refl _
      | (apply getD_bind_P (P := fun w' => w.nextFid ≤ w'.nextFid) (Nat.le_refl _); intro _ _)
      | (apply getD_map_P (P := fun w' => w.nextFid ≤ w'.nextFid) (Nat.le_refl _); intro _ _)
      | (simp; done)
      | split
      | (show w.nextFid ≤ ((if _ then _ else _ : Option World).getD w).nextFid))

/-! ### observations commute with the updates that do not concern them -/

@[simp] theorem file_setObj (w : World) (h : Handle) (o : Obj) (g : Nat) : (w.setObj h o).file g = w.file g := rfl
@[simp] theorem file_newHandle (w : World) (o : Obj) (g : Nat) : (w.newHandle o).1.file g = w.file g := rfl
@[simp] theorem file_bind (w : World) (p n : Bytes) (fid g : Nat) : (w.bind p n fid).file g = w.file g := by
  unfold World.bind; split <;> rfl
@[simp] theorem file_unbind (w : World) (p n : Bytes) (g : Nat) : (w.unbind p n).file g = w.file g := by
  unfold World.unbind; split <;> rfl

@[simp] theorem lookup_setObj (w : World) (h : Handle) (o : Obj) (p n : Bytes) : (w.setObj h o).lookup p n = w.lookup p n := rfl
@[simp] theorem lookup_newHandle (w : World) (o : Obj) (p n : Bytes) : (w.newHandle o).1.lookup p n = w.lookup p n := rfl
@[simp] theorem lookup_setFile (w : World) (fid : Nat) (f : File) (p n : Bytes) : (w.setFile fid f).lookup p n = w.lookup p n := rfl
@[simp] theorem dir_setObj (w : World) (h : Handle) (o : Obj) (p : Bytes) : (w.setObj h o).dir p = w.dir p := rfl
@[simp] theorem dir_newHandle (w : World) (o : Obj) (p : Bytes) : (w.newHandle o).1.dir p = w.dir p := rfl
@[simp] theorem dir_setFile (w : World) (fid : Nat) (f : File) (p : Bytes) : (w.setFile fid f).dir p = w.dir p := rfl

@[simp] theorem obj_setFile (w : World) (fid : Nat) (f : File) (h : Handle) : (w.setFile fid f).obj h = w.obj h := rfl
@[simp] theorem obj_bind (w : World) (p n : Bytes) (fid : Nat) (h : Handle) : (w.bind p n fid).obj h = w.obj h := by
  unfold World.bind; split <;> rfl
@[simp] theorem obj_unbind (w : World) (p n : Bytes) (h : Handle) : (w.unbind p n).obj h = w.obj h := by
  unfold World.unbind; split <;> rfl
@[simp] theorem dirPath_setFile (w : World) (fid : Nat) (f : File) (h : Handle) : (w.setFile fid f).dirPath h = w.dirPath h := rfl

@[simp] theorem len_setObj (w : World) (h : Handle) (o : Obj) : (w.setObj h o).handles.length = w.handles.length := by
  simp [World.setObj]
@[simp] theorem len_newHandle (w : World) (o : Obj) : (w.newHandle o).1.handles.length = w.handles.length + 1 := by
  simp [World.newHandle]
@[simp] theorem len_setFile (w : World) (fid : Nat) (f : File) : (w.setFile fid f).handles.length = w.handles.length := rfl
@[simp] theorem len_bind (w : World) (p n : Bytes) (fid : Nat) : (w.bind p n fid).handles.length = w.handles.length := by
  unfold World.bind; split <;> rfl
@[simp] theorem len_unbind (w : World) (p n : Bytes) : (w.unbind p n).handles.length = w.handles.length := by
  unfold World.unbind; split <;> rfl

@[simp] theorem lookup_applyWrite (w : World) (fd : Handle) (data : Bytes) (k : Nat) (p n : Bytes) :
    (applyWrite w fd data k).lookup p n = w.lookup p n := by
  unfold applyWrite
  split
  · split <;> rfl
  · rfl
  · rfl
@[simp] theorem len_applyWrite (w : World) (fd : Handle) (data : Bytes) (k : Nat) :
    (applyWrite w fd data k).handles.length = w.handles.length := by
  unfold applyWrite
  split
  · split <;> simp
  · simp
  · rfl

/-- The file a handle refers to, if any. -/
def objFid : Obj → Option Nat
  | .file fid _ _ => some fid
  | .stream fid _ => some fid
  | _ => none

theorem file_applyWrite (w : World) (fd : Handle) (data : Bytes) (k : Nat) (g : Nat) (hg : objFid (w.obj fd) ≠ some g) :
    (applyWrite w fd data k).file g = w.file g := by
  unfold applyWrite
  split
  · rename_i fid off wr ho
    split
    · have : g ≠ fid := by intro e; subst e; simp [ho, objFid] at hg
      simp [file_setFile, this]
    · rfl
  · rfl
  · rfl

theorem obj_applyWrite (w : World) (fd : Handle) (data : Bytes) (k : Nat) (h : Handle) (hne : h ≠ fd) :
    (applyWrite w fd data k).obj h = w.obj h := by
  unfold applyWrite
  split
  · split
    · simp [obj_setObj, hne]
    · rfl
  · simp [obj_setObj, hne]
  · rfl

/-! ### general frame lemmas (every call, every result) -/

theorem core_len (w : World) (c : Call) (r : Res) : w.handles.length ≤ (core w c r).handles.length := by
  unfold core applyOk
  split <;>
    repeat' (first
      | exact Nat.le_refl _
      | (apply getD_bind_P (P := fun w' => w.handles.length ≤ w'.handles.length) (Nat.le_refl _); intro _ _)
      | (apply getD_map_P (P := fun w' => w.handles.length ≤ w'.handles.length) (Nat.le_refl _); intro _ _)
      | (simp; done)
      | split
      | (show w.handles.length ≤ ((if _ then _ else _ : Option World).getD w).handles.length))

/-- The handle a call acts on (the only existing handle whose object it can change). -/
def Call.subject : Call → Option Handle
  | .readdir d | .rewinddir d | .closedir d => some d
  | .read fd | .write fd _ | .close fd | .fdopen fd | .fprintf fd _ | .fflush fd | .fclose fd => some fd
  | _ => none

theorem core_obj (w : World) (c : Call) (r : Res) (h : Handle) (hl : h < w.handles.length) (hs : Call.subject c ≠ some h) :
    (core w c r).obj h = w.obj h := by
  have hne : h ≠ w.handles.length := Nat.ne_of_lt hl
  unfold core applyOk
  split <;> (try simp only [Call.subject, ne_eq, Option.some.injEq] at hs) <;>
    repeat' (first
      | rfl
      | (apply getD_bind_P (P := fun w' => w'.obj h = w.obj h) rfl; intro _ _)
      | (apply getD_map_P (P := fun w' => w'.obj h = w.obj h) rfl; intro _ _)
      | (simp [obj_setObj, obj_newHandle, hne, Ne.symm hs]; done)
      | (simp [obj_setObj, obj_newHandle, hne]; done)
      | (simp [obj_setObj, obj_newHandle, hne]; rfl)
      | (apply obj_applyWrite; exact Ne.symm hs)
      | split
      | (show ((if _ then _ else _ : Option World).getD w).obj h = w.obj h))

/-- The call does not remove or replace the entry `(p0, n0)`. -/
def dirSafe (w : World) (p0 n0 : Bytes) : Call → Prop
  | .unlinkat d n => ¬ (w.dirPath d = some p0 ∧ n = n0)
  | .renameat d1 n1 d2 n2 => ¬ (w.dirPath d1 = some p0 ∧ n1 = n0) ∧ ¬ (w.dirPath d2 = some p0 ∧ n2 = n0)
  | .mkdtemp _ | .mkdir _ | .rmdir _ => False
  | _ => True

theorem core_lookup (w : World) (c : Call) (r : Res) (p0 n0 : Bytes) (fid0 : Nat)
    (hl : w.lookup p0 n0 = some fid0) (hs : dirSafe w p0 n0 c) : (core w c r).lookup p0 n0 = some fid0 := by
  unfold core applyOk
  split <;> (try simp only [dirSafe] at hs) <;>
    repeat' (first
      | exact hl
      | contradiction
      | (apply getD_bind_P (P := fun w' => w'.lookup p0 n0 = some fid0) hl; intro _ _)
      | (apply getD_map_P (P := fun w' => w'.lookup p0 n0 = some fid0) hl; intro _ _)
      | (simp [hl]; done)
      | split
      | (show ((if _ then _ else _ : Option World).getD w).lookup p0 n0 = some fid0))
  · rename_i d n v p hp _ hnone
    show ((({ w with nextFid := w.nextFid + 1 } : World).setFile w.nextFid _).bind p n w.nextFid |>.newHandle _).1.lookup p0 n0 = some fid0
    rw [lookup_newHandle, lookup_bind_ne]
    · exact hl
    · rintro ⟨rfl, rfl⟩
      rw [hnone] at hl; cases hl
  · rename_i d1 n1 d2 n2 v p1 hp1 p2 hp2 x hx
    rw [lookup_bind_ne, lookup_unbind]
    · have : ¬ (p0 = p1 ∧ n0 = n1) := by
        rintro ⟨rfl, rfl⟩; exact hs.1 ⟨hp1, rfl⟩
      simp [this, hl]
    · rintro ⟨rfl, rfl⟩; exact hs.2 ⟨hp2, rfl⟩
  · rename_i d n v p hp x hx
    rw [lookup_unbind]
    have : ¬ (p0 = p ∧ n0 = n) := by
      rintro ⟨rfl, rfl⟩; exact hs ⟨hp, rfl⟩
    simp [this, hl]

/-- The call does not write through a handle that refers to file `fid0`. -/
def fileSafe (w : World) (fid0 : Nat) : Call → Prop
  | .write fd _ | .fprintf fd _ | .fsync fd | .fflush fd | .fclose fd => objFid (w.obj fd) ≠ some fid0
  | _ => True

theorem core_file (w : World) (c : Call) (r : Res) (fid0 : Nat)
    (hl : fid0 < w.nextFid) (hs : fileSafe w fid0 c) : (core w c r).file fid0 = w.file fid0 := by
  have hne : fid0 ≠ w.nextFid := Nat.ne_of_lt hl
  unfold core applyOk
  split <;> (try simp only [fileSafe] at hs) <;>
    repeat' (first
      | rfl
      | (apply getD_bind_P (P := fun w' => w'.file fid0 = w.file fid0) rfl; intro _ _)
      | (apply getD_map_P (P := fun w' => w'.file fid0 = w.file fid0) rfl; intro _ _)
      | (simp; done)
      | (apply file_applyWrite; exact hs)
      | (rename_i heq _ _; simp only [heq, objFid, ne_eq, Option.some.injEq] at hs
         simp [file_setFile, Ne.symm hs]; done)
      | (simp [file_setFile, hne]; rfl)
      | split
      | (show ((if _ then _ else _ : Option World).getD w).file fid0 = w.file fid0))
  · rename_i heq _ _ _
    simp only [heq, objFid, ne_eq, Option.some.injEq] at hs
    simp [file_setFile, Ne.symm hs]

theorem dir_append_isSome (w : World) (p q : Bytes) (h : (w.dir p).isSome) :
    (({ w with dirs := w.dirs ++ [(q, [])] } : World).dir p).isSome := by
  unfold World.dir at h ⊢
  simp only [List.find?_append, Option.isSome_map] at h ⊢
  cases hf : List.find? (fun x => x.1 == p) w.dirs with
  | none => simp [hf] at h
  | some x => simp

theorem dir_applyWrite (w : World) (fd : Handle) (data : Bytes) (k : Nat) (p : Bytes) :
    (applyWrite w fd data k).dir p = w.dir p := by
  unfold applyWrite
  split
  · split <;> rfl
  · rfl
  · rfl

theorem core_dir_isSome (w : World) (c : Call) (r : Res) (p : Bytes)
    (hd : (w.dir p).isSome) (hc : ∀ q, c ≠ .rmdir q) : ((core w c r).dir p).isSome := by
  unfold core applyOk
  split <;>
    repeat' (first
      | exact hd
      | (exfalso; exact hc _ rfl)
      | (apply getD_bind_P (P := fun w' => (w'.dir p).isSome) hd; intro _ _)
      | (apply getD_map_P (P := fun w' => (w'.dir p).isSome) hd; intro _ _)
      | (simp [dir_bind_isSome, dir_unbind_isSome, hd]; done)
      | (exact dir_append_isSome w p _ hd)
      | (simp [dir_applyWrite, hd]; done)
      | (show (((World.newHandle (World.bind (World.setFile _ _ _) _ _ _) _).1).dir p).isSome
         simp only [dir_newHandle, dir_bind_isSome, dir_setFile]; exact hd)
      | split
      | (show (((if _ then _ else _ : Option World).getD w).dir p).isSome))

/-! ### `stepWorld` has the observations of `core` -/

@[simp] theorem stepWorld_lookup (w : World) (c : Call) (r : Res) (p n : Bytes) : (stepWorld w c r).lookup p n = (core w c r).lookup p n := rfl
@[simp] theorem stepWorld_dir (w : World) (c : Call) (r : Res) (p : Bytes) : (stepWorld w c r).dir p = (core w c r).dir p := rfl
@[simp] theorem stepWorld_file (w : World) (c : Call) (r : Res) (g : Nat) : (stepWorld w c r).file g = (core w c r).file g := rfl
@[simp] theorem stepWorld_obj (w : World) (c : Call) (r : Res) (h : Handle) : (stepWorld w c r).obj h = (core w c r).obj h := rfl
@[simp] theorem stepWorld_dirPath (w : World) (c : Call) (r : Res) (h : Handle) : (stepWorld w c r).dirPath h = (core w c r).dirPath h := rfl
@[simp] theorem stepWorld_nextFid (w : World) (c : Call) (r : Res) : (stepWorld w c r).nextFid = (core w c r).nextFid := rfl
@[simp] theorem stepWorld_handles (w : World) (c : Call) (r : Res) : (stepWorld w c r).handles = (core w c r).handles := rfl

def Call.dirOp : Call → Bool
  | .openExcl .. | .renameat .. | .unlinkat .. | .mkdtemp .. | .mkdir .. | .rmdir .. => true
  | _ => false

def Call.creates : Call → Bool
  | .openExcl .. | .mkostemp .. => true
  | _ => false

@[simp] theorem dirs_setObj (w : World) (h : Handle) (o : Obj) : (w.setObj h o).dirs = w.dirs := rfl
@[simp] theorem dirs_setFile (w : World) (fid : Nat) (f : File) : (w.setFile fid f).dirs = w.dirs := rfl
@[simp] theorem dirs_newHandle (w : World) (o : Obj) : (w.newHandle o).1.dirs = w.dirs := rfl
@[simp] theorem dirs_applyWrite (w : World) (fd : Handle) (data : Bytes) (k : Nat) : (applyWrite w fd data k).dirs = w.dirs := by
  unfold applyWrite
  split
  · split <;> rfl
  · rfl
  · rfl

theorem core_dirs (w : World) (c : Call) (r : Res) (hc : Call.dirOp c = false) : (core w c r).dirs = w.dirs := by
  unfold core applyOk
  split <;> (try simp only [Call.dirOp] at hc) <;>
    repeat' (first
      | rfl
      | contradiction
      | (apply getD_bind_P (P := fun w' => w'.dirs = w.dirs) rfl; intro _ _)
      | (apply getD_map_P (P := fun w' => w'.dirs = w.dirs) rfl; intro _ _)
      | (simp; done)
      | split
      | (show ((if _ then _ else _ : Option World).getD w).dirs = w.dirs))

theorem core_nextFid_eq (w : World) (c : Call) (r : Res) (hc : Call.creates c = false) : (core w c r).nextFid = w.nextFid := by
  unfold core applyOk
  split <;> (try simp only [Call.creates] at hc) <;>
    repeat' (first
      | rfl
      | contradiction
      | (apply getD_bind_P (P := fun w' => w'.nextFid = w.nextFid) rfl; intro _ _)
      | (apply getD_map_P (P := fun w' => w'.nextFid = w.nextFid) rfl; intro _ _)
      | (simp; done)
      | split
      | (show ((if _ then _ else _ : Option World).getD w).nextFid = w.nextFid))

theorem lookup_of_dirs {w w' : World} (h : w'.dirs = w.dirs) (p n : Bytes) : w'.lookup p n = w.lookup p n := by
  unfold World.lookup World.dir; rw [h]
theorem dir_of_dirs {w w' : World} (h : w'.dirs = w.dirs) (p : Bytes) : w'.dir p = w.dir p := by
  unfold World.dir; rw [h]

@[simp] theorem stepWorld_dirs (w : World) (c : Call) (r : Res) : (stepWorld w c r).dirs = (core w c r).dirs := rfl

/-! ### explicit effects -/

theorem core_dupfd_ok {w : World} {fd : Handle} {fid off : Nat} {wr : Bool} (ho : w.obj fd = .file fid off wr) (v : Nat) :
    core w (.dupfd fd) (.ok v) = (w.newHandle (.file fid off wr)).1 := by
  simp [core, applyOk, ho]

theorem core_fdopen_ok {w : World} {fd : Handle} {fid off : Nat} {wr : Bool} (ho : w.obj fd = .file fid off wr) (v : Nat) :
    core w (.fdopen fd) (.ok v) = w.setObj fd (.stream fid []) := by
  simp [core, applyOk, ho]

theorem core_close (w : World) (fd : Handle) (r : Res) : core w (.close fd) r = w.setObj fd .closed := by
  cases r <;> simp [core, applyOk]

theorem core_fprintf_ok {w : World} {fd : Handle} {fid : Nat} {buf : Bytes} (ho : w.obj fd = .stream fid buf) (data : Bytes) :
    core w (.fprintf fd data) (.ok data.length) = w.setObj fd (.stream fid (buf ++ data)) := by
  simp [core, applyOk, applyWrite, ho]

theorem core_fflush_ok {w : World} {fd : Handle} {fid : Nat} {buf : Bytes} {f : File} (ho : w.obj fd = .stream fid buf)
    (hf : w.file fid = some f) (v : Nat) :
    core w (.fflush fd) (.ok v) = (w.setFile fid { f with data := f.data ++ buf }).setObj fd (.stream fid []) := by
  simp [core, applyOk, ho, hf]

theorem core_fsync_stream_ok {w : World} {fd : Handle} {fid : Nat} {buf : Bytes} {f : File} (ho : w.obj fd = .stream fid buf)
    (hf : w.file fid = some f) (v : Nat) :
    core w (.fsync fd) (.ok v) = w.setFile fid { f with durable := f.data } := by
  simp [core, applyOk, ho, hf]

theorem core_fclose_stream {w : World} {fd : Handle} {fid : Nat} {buf : Bytes} {f : File} (ho : w.obj fd = .stream fid buf)
    (hf : w.file fid = some f) (r : Res) :
    core w (.fclose fd) r = (if r.isErr then w else w.setFile fid { f with data := f.data ++ buf }).setObj fd .closed := by
  cases r <;> simp [core, applyOk, ho, hf]

theorem core_write_file_ok {w : World} {fd : Handle} {fid off : Nat} {wr : Bool} {f : File} (ho : w.obj fd = .file fid off wr)
    (hf : w.file fid = some f) (data : Bytes) (n : Nat) (hn : 0 < n) (hle : n ≤ data.length) :
    core w (.write fd data) (.ok n) =
      (w.setFile fid { f with data := f.data ++ data.take n }).setObj fd (.file fid (off + n) wr) := by
  have h1 : ¬ (n = 0) := by omega
  have h2 : ¬ (data.length < n) := by omega
  simp [core, applyOk, applyWrite, ho, hf, h1, h2]

theorem core_mkostemp_ok (w : World) (t : Bytes) (v : Nat) :
    core w (.mkostemp t) (.ok v) =
      ((({ w with nextFid := w.nextFid + 1 } : World).setFile w.nextFid ⟨[], []⟩).newHandle (.file w.nextFid 0 true)).1 := by
  simp [core, applyOk]

end Mdsort.Proofs.World
