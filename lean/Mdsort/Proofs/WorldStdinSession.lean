import Mdsort.Proofs.WorldStdinClean

/-! One stdin block up to the cleanup: every way `maildir_stdin` can end, and the walk. -/

namespace Mdsort.Proofs.World
open Mdsort Mdsort.Model

/-- The template `mkdtemp` is called with (and, in the model, the name it returns). -/
def spoolRoot (env : PEnv) : Bytes := env.tmpdir ++ [47] ++ ofString "mdsort-XXXXXXXX"
/-- The spool directory proper. -/
def spoolPath (env : PEnv) : Bytes := spoolRoot env ++ [47] ++ subdirName .new

/-- `mkdtemp` creates a directory that did not exist before. -/
def SpoolFresh (env : PEnv) (w : World) : Prop := w.dir (spoolRoot env) = none ∧ w.dir (spoolPath env) = none

theorem spoolRoot_last (env : PEnv) : (spoolRoot env).getLast? = some 88 := by
  have h : ofString "mdsort-XXXXXXXX" = [109, 100, 115, 111, 114, 116, 45, 88, 88, 88, 88, 88, 88, 88, 88] := by
    decide +kernel
  simp [spoolRoot, h]

theorem spoolRoot_ne_path (env : PEnv) : spoolRoot env ≠ spoolPath env := by
  intro h
  have := congrArg List.length h
  simp [spoolPath, subdirName] at this

theorem dir_of_append {w w' : World} {ex : List (Bytes × List (Bytes × Nat))} (h : w'.dirs = w.dirs ++ ex) (q : Bytes) :
    w'.dir q = (w.dir q).or ((ex.find? (·.1 == q)).map (·.2)) := by
  unfold World.dir
  rw [h, List.find?_append]
  cases w.dirs.find? (·.1 == q) <;> simp

/-- Early failures: only empty directories named by the maildir have been added. -/
theorem clean_of_append {w w1 : World} {ex : List (Bytes × List (Bytes × Nat))} {a b : Bytes} (hd : w1.dirs = w.dirs ++ ex)
    (hex : ∀ e ∈ ex, e.2 = [] ∧ (e.1 = a ∨ e.1 = b)) :
    ∀ q, (w1.dir q).isSome → (w.dir q).isSome ∨ ((q = a ∨ q = b) ∧ w1.dir q = some []) := by
  intro q hq
  rw [dir_of_append hd] at hq ⊢
  cases hw : w.dir q with
  | some es => exact .inl rfl
  | none =>
    rw [hw] at hq
    simp only [Option.none_or, Option.isSome_map] at hq ⊢
    obtain ⟨e, he⟩ := Option.isSome_iff_exists.1 hq
    have hmem := List.mem_of_find?_eq_some he
    have hkey := List.find?_some he
    simp only [beq_iff_eq] at hkey
    obtain ⟨h1, h2⟩ := hex e hmem
    refine .inr ⟨by rw [← hkey]; exact h2, ?_⟩
    rw [he]
    simp [h1]

theorem CleanPre.congr {w0 w0' w : World} {md : Maildir} (h : CleanPre w0 w md) (hd : ∀ q, w0'.dir q = w0.dir q) :
    CleanPre w0' w md := by
  rcases h with ⟨a, b⟩ | ⟨d, es, a1, a2, a3, a4, a5, a6, a7, a8⟩
  · exact .inl ⟨a, fun q hq => by rw [hd]; exact b q hq⟩
  · exact .inr ⟨d, es, a1, a2, a3, a4, a5, a6, a7, fun q h1 h2 h3 => by rw [hd]; exact a8 q h1 h2 h3⟩

theorem Files.get_put (fs : Files) (d n x : Bytes) : (fs.put d n x).get d n = some x := by
  unfold Files.get Files.put
  rw [List.find?_append]
  have : (fs.filter fun e => !(e.1 == d && e.2.1 == n)).find? (fun e => e.1 == d && e.2.1 == n) = none := by
    rw [List.find?_eq_none]
    intro e he hc
    have h := (List.mem_filter.1 he).2
    simp only [hc, Bool.not_true, Bool.false_eq_true] at h
  rw [this]
  simp

/-- What is known when `maildir_close` is entered (relative to the world `w` before the spool was made). -/
def HeadPost (env : PEnv) (orc : EvalOracles) (expr : Expr) (input : Bytes) (w : World) (y : MainSt × Maildir) (w1 : World) : Prop :=
  CleanPre w w1 y.2 ∧
  (y.1.error = false → ∃ S name0, S.sp = spoolPath env ∧ y.2 = spoolMd S ∧ (∃ k, name0 = gennameName env none k) ∧
    (∃ snap pos, w1.obj S.d = .dir S.sp snap pos) ∧ Done S env orc expr input name0 w1)

theorem dir_spool_bind {w w' : World} {tmpl p name : Bytes} {fid : Nat} (hf1 : w.dir tmpl = none) (hf2 : w.dir p = none)
    (hne : tmpl ≠ p) (hd : w'.dirs = ((spoolDirs w tmpl p).bind p name fid).dirs) :
    w'.dir p = some [(name, fid)] ∧ w'.dir tmpl = some [] ∧ ∀ q, q ≠ p → q ≠ tmpl → w'.dir q = w.dir q := by
  have hs : ∀ q, (spoolDirs w tmpl p).dir q = (w.dir q).or (([(tmpl, []), (p, [])].find? (·.1 == q)).map (·.2)) :=
    fun q => dir_of_append (w := w) (w' := spoolDirs w tmpl p) rfl q
  have hp : (spoolDirs w tmpl p).dir p = some [] := by
    rw [hs, hf2]
    simp [hne]
  have ht : (spoolDirs w tmpl p).dir tmpl = some [] := by
    rw [hs, hf1]
    simp
  refine ⟨?_, ?_, ?_⟩
  · rw [dir_of_dirs hd, dir_bind]; simp [hp]
  · rw [dir_of_dirs hd, dir_bind]; simp [hne, ht]
  · intro q h1 h2
    have h3 : ¬ tmpl = q := fun e => h2 e.symm
    have h4 : ¬ p = q := fun e => h1 e.symm
    rw [dir_of_dirs hd, dir_bind]
    simp only [h1, if_false]
    rw [hs]
    simp [h3, h4]

/-- One stdin block up to `maildir_close`, under every fault plan. -/
theorem spec_sessionHead (env : PEnv) (orc : EvalOracles) (input : Bytes) (expr : Expr) (st : MainSt) {w : World}
    (hin : StdinIs w input) (hfresh : SpoolFresh env w) :
    wp (fun _ => True) (sessionHead env orc input expr st) (HeadPost env orc expr input w) w := by
  obtain ⟨hf1, hf2⟩ := hfresh
  have hne := spoolRoot_ne_path env
  unfold sessionHead
  refine wp_bind_mono (spec_maildirStdin env input hin) ?_
  rintro ⟨md, failed, spooled⟩ w1 hpost
  dsimp only
  rcases hpost with ⟨hr, hd⟩ | ⟨tmpl, htmpl, hrest⟩
  · cases hr
    simp only [if_true]
    exact ⟨.inl ⟨rfl, fun q hq => .inl (by rw [← dir_of_dirs hd q]; exact hq)⟩, by intro h; cases h⟩
  obtain rfl : tmpl = spoolRoot env := pathjoin_eq htmpl
  rcases hrest with ⟨hr, hd⟩ | ⟨p, hp, hrest⟩
  · cases hr
    simp only [if_true]
    refine ⟨.inl ⟨rfl, clean_of_append hd ?_⟩, by intro h; cases h⟩
    intro e he
    simp only [List.mem_singleton] at he
    subst he
    exact ⟨rfl, .inr rfl⟩
  obtain rfl : p = spoolPath env := pathjoin_eq hp
  rcases hrest with ⟨hr, hd⟩ | ⟨d, hr, hd, hdp, hdge⟩ |
    ⟨d, name, fid, hmd, hsp, hd, hdp, hdge, hdlt, hl, hfid, hfidge, hex, hok, h95, hobj, hk⟩
  · cases hr
    simp only [if_true]
    refine ⟨.inl ⟨rfl, ?_⟩, by intro h; cases h⟩
    rcases hd with hd | hd
    · refine clean_of_append hd ?_
      intro e he
      simp only [List.mem_singleton] at he
      subst he
      exact ⟨rfl, .inr rfl⟩
    · refine clean_of_append hd ?_
      intro e he
      simp only [List.mem_cons, List.not_mem_nil, or_false] at he
      rcases he with rfl | rfl
      · exact ⟨rfl, .inr rfl⟩
      · exact ⟨rfl, .inl rfl⟩
  · cases hr
    simp only [if_true]
    refine ⟨.inr ⟨d, [], rfl, hne, hdp, ?_, by simp, by simp, ?_, ?_⟩, by intro h; cases h⟩
    · show w1.dir (spoolPath env) = some []
      rw [dir_of_append hd, hf2]
      simp [hne]
    · show w1.dir (spoolRoot env) = some []
      rw [dir_of_append hd, hf1]
      simp
    · intro q h1 h2 hq
      rw [dir_of_append hd] at hq
      have h3 : ¬ spoolRoot env = q := fun e => h2 e.symm
      have h4 : ¬ spoolPath env = q := fun e => h1 e.symm
      simpa [h3, h4] using hq
  · dsimp only at hmd hsp hok
    subst hmd hsp
    obtain ⟨hdirp, hdirt, hoth⟩ := dir_spool_bind hf1 hf2 hne hd
    have hclean : ∀ w2 es, w2.dirPath d = some (spoolPath env) → w2.dir (spoolPath env) = some es → es.length ≤ 61 →
        (∀ e ∈ es, (95 : UInt8) ∈ e.1) → w2.dir (spoolRoot env) = some [] →
        (∀ q, (w2.dir q).isSome = (w1.dir q).isSome) →
        CleanPre w w2 { md0 with root := spoolRoot env, path := spoolPath env, dirH := some d } := by
      intro w2 es a1 a2 a3 a4 a5 a6
      refine .inr ⟨d, es, rfl, hne, a1, a2, a3, a4, a5, ?_⟩
      intro q h1 h2 hq
      rw [a6, hoth q h1 h2] at hq
      exact hq
    cases failed with
    | true =>
      simp only [if_true]
      exact ⟨hclean w1 _ hdp hdirp (by simp) (by intro e he; simp at he; subst he; exact h95) hdirt (fun _ => rfl),
        by intro h; cases h⟩
    | false =>
      simp only [Bool.false_eq_true, if_false]
      have hfile := hok rfl
      have hnd := notDot_of_mem h95
      have hS : SpoolShape ⟨d, spoolPath env, spoolRoot env⟩ := ⟨spoolRoot_last env, rfl⟩
      have hrem : remOf ⟨d, spoolPath env, spoolRoot env⟩ w1 = sortedNames [(name, fid)] := by
        simp [remOf, hobj, hdirp]
      have hmemS : ∀ x, x ∈ sortedNames [(name, fid)] ↔ (x = [46] ∨ x = [46, 46] ∨ x = name) := by
        intro x
        unfold sortedNames
        rw [List.mem_mergeSort]
        simp
      have base : WalkBase ⟨d, spoolPath env, spoolRoot env⟩ w1 w1 :=
        ⟨⟨fun _ _ _ => rfl, Nat.le_refl _, fun _ => rfl, hdirt⟩, ⟨none, 0, hobj⟩,
          ⟨name, name, h95, h95, ⟨[(name, fid)], hdirp, by simp, by simp⟩⟩⟩
      refine wp_mono (spec_walk_sp ⟨d, spoolPath env, spoolRoot env⟩ hS env orc expr name input fid h95 w1 (stdinFuel env) _ true base
        ?_ ?_ ?_ ?_ (by intro h; cases h)) ?_
      · intro x hx
        rw [hrem] at hx
        exact (hmemS x).1 hx
      · rw [hrem]
        unfold sortedNames
        rw [(List.mergeSort_perm _ _).nodup_iff]
        have h1 : ¬ ([46] : Bytes) = name := fun h => hnd.1 h.symm
        have h2 : ¬ ([46, 46] : Bytes) = name := fun h => hnd.2 h.symm
        simp [h1, h2]
      · rw [hrem, length_sortedNames]
        simp only [List.length_cons, List.length_nil, stdinFuel]
        omega
      · intro _
        refine ⟨by rw [hrem]; exact (hmemS name).2 (.inr (.inr rfl)), ⟨hdirp, hfile, hfid, Files.get_put _ _ _ _, hdirt⟩⟩
      · rintro ⟨st', md'⟩ w2 ⟨hmd', base2, hdone⟩
        dsimp only at hmd' hdone
        subst hmd'
        obtain ⟨snap, pos, ho2⟩ := base2.dOpen
        obtain ⟨a, b, ha, hb, hn2⟩ := base2.names
        obtain ⟨es, hes, hlen, hnames⟩ := hn2.length_le2
        refine ⟨hclean w2 es (dirPath_of_obj ho2) hes (by omega) ?_ base2.inv.root base2.inv.exist, ?_⟩
        · intro e he
          rcases hnames e he with h | h
          · rw [h]; exact ha
          · rw [h]; exact hb
        · intro he
          exact ⟨⟨d, spoolPath env, spoolRoot env⟩, name, rfl, rfl, hk, ⟨snap, pos, ho2⟩, hdone he⟩

end Mdsort.Proofs.World
