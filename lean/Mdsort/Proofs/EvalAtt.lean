import Mdsort.Proofs.EvalAttRules
import Mdsort.Proofs.EvalAttWiden
import Mdsort.Proofs.Eval

/-! Helper definitions and the final step for C03 with attachment conditions and attachment blocks
(`C03_eval_refines_spec_att`).

The proof is spread over `EvalAttDom` (the pieces of `InDomainA`), `EvalAttList` (match-list
lemmas with the part index), `EvalAttCond` (conditions with `attachment c` are context-free),
`EvalAttSim` (the invariant, actions, chains on any part), `EvalAttParse` (what `parseRuleA`
recognises, monotonicity of the specification run) and `EvalAttRules` (the induction over rules,
actions and parts). -/

namespace Mdsort.Proofs
open Mdsort Mdsort.Model

/-- (type, line, part) of the action entries of a match list (pass/break markers excluded). -/
def mlKeysP (ml : MatchList) : List (MType × Nat × Nat) :=
  (ml.filter fun m => m.ty.isAction && m.ty != .brk && m.ty != .pass).map fun m => (m.ty, m.lno, m.part)

/-- The context the specification is given: the parts `message_get_attachments` returns, and each
matcher evaluated on its own on the given (part index, message). -/
def partCtx (env : Env) (root : Msg) (f : MFlags) : Spec.PartCtx Msg :=
  { parts := getAttachments
    v := fun k m a => (eval env root a k m { ml := [], flags := f }).1 }

/-- Decidable domain of `C03_eval_refines_spec_att`: `InDomain` with attachments.

* `wfTreeA false e`: as `wfTree`, plus `attachment c` wherever a condition may stand, and
  `attachment { ... }` as an action; inside an attachment block the only actions are `exec`
  (no `pass` / `break`, no nested attachment block: `expr_validate_attachment_block`), conditions
  are unrestricted (`attachment c` inside a block included), nested `match c { ... }` blocks too.
* `old` reads the Seen flag only when evaluated on the message itself (`hasOld` does not look
  inside attachment nodes); then no `flags` action of the tree may set `S`.
* `matches_append` cannot fail: as in `InDomain`. -/
def InDomainA (env : Env) (e : Expr) : Bool :=
  wfTreeA false e && (!hasOld e || flagsKeepSeenA e) &&
  match pathslice env.path PATH_MAX 0 (-2), pathslice env.path NAME_MAX1 (-2) (-2) with
  | some maildir, some subdir =>
    let L := max subdir.length (maxSubdirA e)
    decide (maildir.length + 1 + L < PATH_MAX) && movesFitA L e
  | _, _ => false

theorem mlKeysP_eq (ml : MatchList) : mlKeysP ml = keysP ml := rfl
theorem partCtx_eq : partCtx = att_ctx := rfl

theorem InDomainA_spec {env : Env} {e : Expr} (h : InDomainA env e = true) :
    ∃ L, PCtx env L ∧ okA L (hasOld e) 0 e := by
  unfold InDomainA at h
  simp only [Bool.and_eq_true] at h
  obtain ⟨⟨hw, hold⟩, h⟩ := h
  have hold' : hasOld e = true → flagsKeepSeenA e = true := by
    intro ho
    simpa [ho] using hold
  cases hm : pathslice env.path PATH_MAX 0 (-2) with
  | none => simp [hm] at h
  | some m0 =>
    cases hs : pathslice env.path NAME_MAX1 (-2) (-2) with
    | none => simp [hm, hs] at h
    | some s0 =>
      simp only [hm, hs, Bool.and_eq_true, decide_eq_true_eq] at h
      exact ⟨max s0.length (maxSubdirA e), ⟨⟨m0, hm, h.1⟩, ⟨s0, hs, Nat.le_max_left _ _⟩⟩,
        att_wfG_of_wfTreeA e false hw, h.2, Nat.le_max_right _ _, fun _ => id, hold'⟩

/-- Decidable domain of `C03_eval_refines_spec_att_wide`: `InDomainA` (which says nothing about where
`pass` / `break` stand - with `Spec.parseBlockA` the shape function confines them to the last place)
and `ctlPlaced`: every action list of the tree is `placedOK`, that is, it is none of

* `actionAfterPass` (something other than `pass` after a `pass`: never evaluated),
* `attAfterBreak` (an attachment block after a `break`: its block consumes the BREAK entry),
* `ctlMixed` (both `pass` and `break`: no documented meaning). -/
def InDomainAW (env : Env) (e : Expr) : Bool := InDomainA env e && ctlPlaced e

/-- `InDomain` for trees with `pass` / `break` anywhere (domain of `C03_eval_refines_spec_wide`). -/
def InDomainW (env : Env) (e : Expr) : Bool := InDomain env e && ctlPlaced e

theorem att_eval_refines_spec_wide (env : Env) (root : Msg) (f : MFlags) (e : Expr) (rules : List Spec.RuleA)
    (hp : Spec.parseBlockAW e = some rules) (hd : InDomainAW env e = true)
    (hc : (Spec.evalBlockA (partCtx env root f) actionErr root rules).crosses = false)
    (hl : (Spec.evalBlockA (partCtx env root f) actionErr root rules).leaks = false) :
    let o := Spec.evalBlockA (partCtx env root f) actionErr root rules
    let r := eval env root e 0 root { ml := [], flags := f }
    r.1 = o.res ∧
      (o.res = .match → Spec.planP (mlKeysP r.2.ml) = Spec.planP (o.actions.filterMap Spec.actKeyP)) := by
  simp only [InDomainAW, Bool.and_eq_true] at hd
  obtain ⟨hd, hplaced⟩ := hd
  obtain ⟨L, hctx, hok⟩ := InDomainA_spec hd
  rw [partCtx_eq, actionErr_eq] at hc hl ⊢
  cases e with
  | block lno e' =>
    simp only [Spec.parseBlockAW] at hp
    have hR0 : RelA L ({ ml := [], flags := f } : St).ml
        ({ pend := [], crosses := false, leaks := false } : Spec.RunA).pend (false || false) :=
      ⟨rfl, rfl, rfl, by simp, by intro m hm; simp at hm⟩
    have hflags : (Spec.evalRulesA (att_ctx env root f) actErr false false 0 0 root rules false
          { pend := [], crosses := false, leaks := false }).2.crosses = false ∧
        (Spec.evalRulesA (att_ctx env root f) actErr false false 0 0 root rules false
          { pend := [], crosses := false, leaks := false }).2.leaks = false := by
      unfold Spec.evalBlockA at hc hl
      rcases h : Spec.evalRulesA (att_ctx env root f) actErr false false 0 0 root rules false
        { pend := [], crosses := false, leaks := false } with ⟨b, run⟩
      rw [h] at hc hl
      cases b <;> exact ⟨hc, hl⟩
    have hpost := (att_sim hctx root f (hasOld (.block lno e')) (sizeOf rules + 1)).1 rules (Nat.lt_succ_self _)
      (orChain e') (att_parseRulesA_orChain e' rules hp) 0 root (att_okA_orChain e' (okA_block hok))
      (ctlPlaced_orChain e' (by simpa [ctlPlaced] using hplaced)) false false 0 false
      { pend := [], crosses := false, leaks := false } { ml := [], flags := f } (fun _ => ⟨rfl, rfl⟩) hR0 (fun _ => rfl)
      hflags.1 hflags.2
    rw [← att_eval_orChain, ← eval_block env root lno] at hpost
    intro o r
    show r.1 = o.res ∧ _
    have ho : o = Spec.evalBlockA (att_ctx env root f) actErr root rules := rfl
    have hr : r = eval env root (.block lno e') 0 root { ml := [], flags := f } := rfl
    rw [← hr] at hpost
    unfold Spec.evalBlockA at ho
    rcases h : Spec.evalRulesA (att_ctx env root f) actErr false false 0 0 root rules false
      { pend := [], crosses := false, leaks := false } with ⟨b, run⟩
    rw [h] at hpost ho
    cases b with
    | err =>
      simp only at ho
      rw [ho]
      exact ⟨hpost, fun h => by cases h⟩
    | matched =>
      simp only at ho
      rw [ho]
      obtain ⟨h1, h2, _⟩ := hpost
      exact ⟨h1, fun _ => h2.plan⟩
    | «nomatch» =>
      simp only at ho
      rw [ho]
      exact ⟨hpost.1, fun h => by cases h⟩
    | broke =>
      simp only at ho
      rw [ho]
      exact ⟨hpost.1, fun h => by cases h⟩
  | _ => simp [Spec.parseBlockAW] at hp

/-- `pass` / `break` last: the special case `Spec.parseBlockA` / `InDomainA` of the theorem above. -/
theorem att_eval_refines_spec (env : Env) (root : Msg) (f : MFlags) (e : Expr) (rules : List Spec.RuleA)
    (hp : Spec.parseBlockA e = some rules) (hd : InDomainA env e = true)
    (hc : (Spec.evalBlockA (partCtx env root f) actionErr root rules).crosses = false)
    (hl : (Spec.evalBlockA (partCtx env root f) actionErr root rules).leaks = false) :
    let o := Spec.evalBlockA (partCtx env root f) actionErr root rules
    let r := eval env root e 0 root { ml := [], flags := f }
    r.1 = o.res ∧
      (o.res = .match → Spec.planP (mlKeysP r.2.ml) = Spec.planP (o.actions.filterMap Spec.actKeyP)) := by
  obtain ⟨hpw, hpl⟩ := att_parseBlockAW_of_parseBlockA hp
  exact att_eval_refines_spec_wide env root f e rules hpw (by simp [InDomainAW, hd, hpl]) hc hl

end Mdsort.Proofs
