import Mdsort.Proofs.ConfErrors
import Mdsort.Proofs.LexAux

/-!
# Diagnostics of the lexer are diagnostics of the parser

* `mt_peek_lex_error`: wherever the parser reads a token (`peek` with no lookahead), a diagnostic of the
  lexer ends the parse with an error; `mt_bind_err`: an error is never caught.
* What the lexer diagnoses: a pattern with both `l` and `u` (`mt_lex_pattern_lu`), a time unit that is a
  prefix of several units (`mt_lex_unit_ambiguous`), an integer that does not fit 32 bits
  (`Proofs.lex_int`); an unknown unit is no unit token at all (`mt_lex_unit_unknown`), which `parseScalar`
  refuses (`mt_parseScalar_unknown`).
* `mt_lex_clean`: every token the lexer returns WITHOUT a diagnostic is clean (`tokClean`).
-/

namespace Mdsort.Proofs.MainText
open Mdsort Mdsort.Model

/-! ## The parser reads tokens only through `peek`; errors are never caught -/

/-- A diagnostic of the lexer at a position where the parser reads a token ends the parse: `peek`
returns the error, on the line `lexErrLine` computes. -/
theorem mt_peek_lex_error (cx : PCtx) (pf sf : Bool) (s : ParseSt) (hla : s.la = none)
    (herr : (lex1 pf sf s.afterMacro s.rest).errors > 0) :
    ∃ s', peek cx pf sf s = .err (lexErrLine cx.nl s.afterMacro s.rest) s' := by
  unfold peek
  simp only [hla, herr, if_true]
  exact ⟨_, rfl⟩

/-- An error passes through every continuation (the parser monad has no handler). -/
theorem mt_bind_err {α β : Type} (m : PM α) (f : α → PM β) (s s' : ParseSt) (l : Nat) (h : m s = .err l s') :
    (m >>= f) s = .err l s' := by
  show PM.bind m f s = _
  unfold PM.bind
  rw [h]

/-! ## What a token read without a diagnostic looks like -/

/-- The values of the time units. -/
def unitValues : List Nat := Gen.scalars.map (·.2)

/-- Clean tokens: a pattern has not both `l` and `u`, an integer fits 32 bits, a unit is one of the seven. -/
def tokClean : Token → Bool
  | .pattern _ _ l u => !(l && u)
  | .int n => decide (n < 2 ^ 32)
  | .scalar (some v) => unitValues.contains v
  | .scalar none => false
  | _ => true

theorem mt_patFlags_lu : ∀ (fuel : Nat) (s : Bytes) (i l u : Bool) (e : Nat),
    e ≤ (patFlags fuel s i l u e).2.2 ∧
    (((patFlags fuel s i l u e).1.2.1 && (patFlags fuel s i l u e).1.2.2) = true →
      (l && u) = true ∨ e < (patFlags fuel s i l u e).2.2) := by
  intro fuel
  induction fuel with
  | zero =>
    intro s i l u e
    simp only [patFlags]
    exact ⟨Nat.le_refl _, fun h => Or.inl h⟩
  | succ fuel ih =>
    intro s i l u e
    unfold patFlags
    split
    · exact ih _ _ _ _ _
    · rename_i r
      have := ih r i true u (if u then e + 1 else e)
      cases u
      · simp only [Bool.false_eq_true, if_false, Bool.and_false] at this ⊢
        exact ⟨this.1, fun h => Or.inr (by rcases this.2 h with h' | h' <;> first | exact h' | cases h')⟩
      · simp only [if_true, Bool.and_true] at this ⊢
        exact ⟨by omega, fun _ => Or.inr (by omega)⟩
    · rename_i r
      have := ih r i l true (if l then e + 1 else e)
      cases l
      · simp only [Bool.false_eq_true, if_false, Bool.false_and] at this ⊢
        exact ⟨this.1, fun h => Or.inr (by rcases this.2 h with h' | h' <;> first | exact h' | cases h')⟩
      · simp only [if_true, Bool.true_and] at this ⊢
        exact ⟨by omega, fun _ => Or.inr (by omega)⟩
    · exact ⟨Nat.le_refl _, fun h => Or.inl h⟩

theorem mt_lexDigits_bound : ∀ (fuel : Nat) (s : Bytes) (n : Nat) (ovf : Bool) (e : Nat), n < 2 ^ 32 →
    (lexDigits fuel s n ovf e).1 < 2 ^ 32 := by
  intro fuel
  induction fuel with
  | zero => intro s n ovf e h; simpa [lexDigits] using h
  | succ fuel ih =>
    intro s n ovf e h
    unfold lexDigits
    split
    · split
      · split
        · exact ih _ _ _ _ h
        · simp only
          split
          · exact ih _ _ _ _ (Nat.mod_lt _ (by decide))
          · rename_i hno
            apply ih
            simp only [Bool.or_eq_true, decide_eq_true_eq, not_or, Nat.not_le] at hno
            exact hno.2
      · exact h
    · exact h

/-- Every result of the token reader proper: no diagnostic, clean token. -/
theorem mt_lexTok_clean (pf sf : Bool) (c : UInt8) (r : Bytes) (e0 : Nat)
    (h : (lex1.lexTok pf sf c r e0).errors = 0) : tokClean (lex1.lexTok pf sf c r e0).tok = true := by
  revert h
  unfold lex1.lexTok
  split
  · split <;> intro _ <;> rfl
  · split
    · split
      · intro _; rfl
      · intro _; rfl
      · rename_i lexeme rest _
        intro h
        have hp := mt_patFlags_lu (rest.length + 1) rest false false false 0
        generalize patFlags (rest.length + 1) rest false false false 0 = res at hp h
        obtain ⟨⟨i, l, u⟩, rest2, e⟩ := res
        simp only at hp h ⊢
        simp only [tokClean, Bool.not_eq_true']
        cases hlu : (l && u)
        · rfl
        · rcases hp.2 hlu with h' | h'
          · cases h'
          · omega
    · split
      · intro _
        have hb := mt_lexDigits_bound (r.length + 2) (c :: r) 0 false 0 (by decide)
        generalize lexDigits (r.length + 2) (c :: r) 0 false 0 = res at hb
        obtain ⟨n, rest, e⟩ := res
        simp only at hb ⊢
        simp only [tokClean, decide_eq_true_eq]
        exact hb
      · split
        · simp only
          split
          · intro _; rfl
          · split
            · intro _; rfl
            · split
              · split
                · intro _; rfl
                · rename_i name v hms
                  intro _
                  simp only [tokClean, unitValues, List.contains_iff_mem, List.mem_map]
                  have hmem : (name, v) ∈ [(name, v)] := by simp
                  rw [← hms] at hmem
                  exact ⟨(name, v), (List.mem_filter.1 hmem).1, rfl⟩
                · intro h; simp at h
              · intro _; rfl
        · split <;> intro _ <;> rfl

theorem mt_lex1Aux_clean (pf sf am : Bool) : ∀ (fuel : Nat) (input : Bytes),
    (lex1.lex1Aux pf sf am input fuel).errors = 0 → tokClean (lex1.lex1Aux pf sf am input fuel).tok = true := by
  intro fuel
  induction fuel with
  | zero => intro input _; rfl
  | succ fuel ih =>
    intro input
    unfold lex1.lex1Aux
    simp only
    split
    · intro _; rfl
    · split
      · intro _; rfl
      · split
        · split
          · intro _; rfl
          · rename_i x r2 _
            intro h
            simp only at h ⊢
            exact ih r2 (by omega)
        · exact mt_lexTok_clean _ _ _ _ _

/-- A token the lexer returns without a diagnostic is clean - in every mode, at every position. -/
theorem mt_lex_clean (pf sf am : Bool) (input : Bytes) (h : (lex1 pf sf am input).errors = 0) :
    tokClean (lex1 pf sf am input).tok = true := by
  revert h
  unfold lex1
  simp only
  split
  · intro _; rfl
  · split
    · intro _; rfl
    · split
      · split
        · intro _; rfl
        · rename_i x r2 _
          intro h
          simp only at h ⊢
          exact mt_lex1Aux_clean pf sf am input.length r2 (by omega)
      · exact mt_lexTok_clean _ _ _ _ _

/-- Error class "`l' and `u' flags cannot be combined": wherever a pattern is read, a pattern token with
both flags comes with a diagnostic. -/
theorem mt_lex_pattern_lu (pf sf am : Bool) (input src : Bytes) (i : Bool)
    (h : (lex1 pf sf am input).tok = .pattern src i true true) : (lex1 pf sf am input).errors > 0 := by
  cases he : (lex1 pf sf am input).errors with
  | zero =>
    have := mt_lex_clean pf sf am input he
    rw [h] at this
    cases this
  | succ n => omega

/-- Error class "ambiguous keyword" (a unit that is a prefix of several units, like `m`): the token
`scalar none` comes with a diagnostic. -/
theorem mt_lex_unit_ambiguous (pf sf am : Bool) (input : Bytes)
    (h : (lex1 pf sf am input).tok = .scalar none) : (lex1 pf sf am input).errors > 0 := by
  cases he : (lex1 pf sf am input).errors with
  | zero =>
    have := mt_lex_clean pf sf am input he
    rw [h] at this
    cases this
  | succ n => omega

/-- Where a unit is expected, anything but a unit token is a syntax error (an unknown unit is lexed as a
MACRO token): `parseScalar` fails on the line of that token. -/
theorem mt_parseScalar_not_unit (cx : PCtx) (s : ParseSt) (t : Tk) (hla : s.la = some t)
    (ht : ∀ v, t ≠ .scalar (some v)) : parseScalar cx s = .err s.tokLine s := by
  unfold parseScalar
  show PM.bind (peek cx false true) _ s = _
  simp only [PM.bind, peek, hla]
  cases t with
  | scalar v =>
    cases v with
    | none => rfl
    | some v => exact absurd rfl (ht v)
  | _ => rfl

/-- An integer token never exceeds 32 bits; an age `n * unit` of 2^32 seconds or more is diagnosed by
`parseDate` ("integer too large" is also the lexer's diagnostic for the literal itself: `Proofs.lex_int`). -/
theorem mt_lex_int_bound (pf sf am : Bool) (input : Bytes) (n : Nat)
    (h : (lex1 pf sf am input).tok = .int n) : (lex1 pf sf am input).errors > 0 ∨ n < 2 ^ 32 := by
  cases he : (lex1 pf sf am input).errors with
  | zero =>
    have := mt_lex_clean pf sf am input he
    rw [h] at this
    right
    simpa [tokClean] using this
  | succ n => left; omega

end Mdsort.Proofs.MainText
