import Mdsort.Proofs.WorldExitMain
import Mdsort.Proofs.World

/-!
# Exit status 0 of a whole maildir run (C01), in the terms of `runPlan`; a decidable form of the hypotheses
-/

namespace Mdsort.Proofs
open Mdsort Mdsort.Model

/-- The invariant at the end of a run that ends without the error flag (at most one fault). -/
theorem exit0_main_runPlan (C : exit0_Ctx) (hG : exit0_Good C) (hm : C.env.stdinMode = false) (hsyn : C.env.syntaxOnly = false)
    (confOk : Bool) (conf : List ConfBlock) (input : Bytes) (hdirs : C.dirs = exit0_dirsOf conf)
    (hstep : ∀ b ∈ conf, exit0_StepOK C.env C.orc b.expr) (hreg : WholeReg C.w0 C.files0)
    (plan : Plan) (hp : World.SingleFault plan)
    (he : (runPlan plan (mainP C.env C.orc confOk conf C.files0 input) C.w0 0 []).1.2.error = false) :
    exit0_Inv C [] none (runPlan plan (mainP C.env C.orc confOk conf C.files0 input) C.w0 0 []).1.2
      (runPlan plan (mainP C.env C.orc confOk conf C.files0 input) C.w0 0 []).2.1 := by
  rw [World.runPlan_eq] at he ⊢
  obtain ⟨b', h⟩ := World.wpS_sound plan (exit0_mainP C hG hm hsyn confOk conf input hdirs hstep hreg true) hp.budget
  exact h he

/-- **The standard fuel suffices** for a run that ends without the error flag (maildir mode, at most one fault,
`exit0_Good`: no directory walked twice, distinct names, every name of a walked directory registered, no message sent to a
directory still to be walked): no `readdir` loop of the model stopped for lack of fuel. -/
theorem exit0_main_fuel (C : exit0_Ctx) (hG : exit0_Good C) (hm : C.env.stdinMode = false) (hsyn : C.env.syntaxOnly = false)
    (confOk : Bool) (conf : List ConfBlock) (input : Bytes) (hdirs : C.dirs = exit0_dirsOf conf)
    (hstep : ∀ b ∈ conf, exit0_StepOK C.env C.orc b.expr) (hreg : WholeReg C.w0 C.files0)
    (plan : Plan) (hp : World.SingleFault plan)
    (he : (runPlan plan (mainP C.env C.orc confOk conf C.files0 input) C.w0 0 []).1.2.error = false) :
    (runPlan plan (mainP C.env C.orc confOk conf C.files0 input) C.w0 0 []).1.2.fuelOut = false := by
  rw [World.runPlan_eq] at he ⊢
  obtain ⟨b', h⟩ := World.wpS_sound plan (exit0_mainP' C hG hm hsyn confOk conf input hdirs hstep hreg true) hp.budget
  exact (h he).2.2

/-- In maildir mode exit status 0 means that the error flag is clear. -/
theorem exit0_status_zero (env : PEnv) (orc : EvalOracles) (confOk : Bool) (conf : List ConfBlock) (files : Files) (input : Bytes)
    (w : World) (plan : Plan) (hm : env.stdinMode = false)
    (h0 : (runPlan plan (mainP env orc confOk conf files input) w 0 []).1.1 = 0) :
    (runPlan plan (mainP env orc confOk conf files input) w 0 []).1.2.error = false := by
  have h := exit_status_table env orc confOk conf files input w plan
  dsimp only at h
  rw [h] at h0
  unfold exitStatus at h0
  simp only [hm, Bool.false_eq_true, if_false] at h0
  cases he : (runPlan plan (mainP env orc confOk conf files input) w 0 []).1.2.error with
  | false => rfl
  | true => rw [he] at h0; simp at h0

/-- The registered file `n` of `D` (content `c`) is where the rules `e` put it: no match - bound as
before to a file with its content; actions - an entry of the directory of the last move/flag/flags action
is bound to a file that holds, visibly and durably, the rewritten message if there is a label/add-header
action, and in any case the original or the rewritten bytes; an error verdict is excluded. -/
def exit0_Placed (env : PEnv) (orc : EvalOracles) (e : Expr) (D n c : Bytes) (st : MainSt) (w' : World) : Prop :=
  match verdict env orc e D n c with
  | .act ml msgs _ =>
    ∃ n' fid c', st.files.get (World.finalDir ml D) n' = some c' ∧ w'.lookup (World.finalDir ml D) n' = some fid ∧
      w'.file fid = some ⟨c', c'⟩ ∧ (World.rewrites ml = true → c' = (messageWrite (msgs 0)).1) ∧
      (c' = c ∨ c' = (messageWrite (msgs 0)).1)
  | .nomatch => ∃ fid, st.files.get D n = some c ∧ w'.lookup D n = some fid ∧ w'.file fid = some ⟨c, c⟩
  | _ => False

/-- **Exit status 0 of a whole run** (maildir mode, real run, rules without discard that ask the operating system
nothing - no `command`, `isdirectory`, file-time `date` condition -, at most one fault,
no message visited twice): every message of the initial registry in a configured maildir is where the
rules put it, and the log is the reference log. -/
theorem exit0_main_exit0 (env : PEnv) (orc : EvalOracles) (confOk : Bool) (conf : List ConfBlock) (files : Files) (input : Bytes)
    (w : World) (plan : Plan) (hm : env.stdinMode = false) (hsyn : env.syntaxOnly = false) (hdry : env.dryrun = false)
    (hfree : ∀ b ∈ conf, asksFree b.expr = true)
    (hnd : ∀ b ∈ conf, WholeNoDiscard env orc b.expr) (hreg : WholeReg w files)
    (hG : exit0_Good ⟨env, orc, exit0_dirsOf conf, files, w⟩) (hp : World.SingleFault plan)
    (h0 : (runPlan plan (mainP env orc confOk conf files input) w 0 []).1.1 = 0) :
    (∀ D e n c, (D, e) ∈ exit0_dirsOf conf → files.get D n = some c →
      exit0_Placed env orc e D n c (runPlan plan (mainP env orc confOk conf files input) w 0 []).1.2
        (runPlan plan (mainP env orc confOk conf files input) w 0 []).2.1) ∧
    (runPlan plan (mainP env orc confOk conf files input) w 0 []).1.2.log =
      exit0_refDirs ⟨env, orc, exit0_dirsOf conf, files, w⟩ (exit0_dirsOf conf) := by
  have he := exit0_status_zero env orc confOk conf files input w plan hm h0
  have hinv := exit0_main_runPlan ⟨env, orc, exit0_dirsOf conf, files, w⟩ hG hm hsyn confOk conf input rfl
    (fun b hb => exit0_step_real env orc b.expr (hfree b hb) hdry (hnd b hb)) hreg plan hp he
  obtain ⟨hpl, hlog⟩ := exit0_final hG hreg hinv
  refine ⟨?_, hlog⟩
  intro D e n c hmem hc
  obtain ⟨key, c', lines, fid, hout, hget, hl, hf⟩ := hpl D e n c hmem hc
  unfold exit0_Placed
  unfold exit0_Outcome at hout
  dsimp only at hout
  cases hv : verdict env orc e D n c with
  | act ml msgs fl =>
    rw [hv] at hout
    simp only [hdry, Bool.false_eq_true, if_false] at hout
    obtain ⟨_, hk, h1, h2⟩ := hout
    refine ⟨key.2, fid, c', ?_, ?_, hf, h1, h2⟩
    · rw [← hk]; exact hget
    · rw [← hk]; exact hl
  | «nomatch» =>
    rw [hv] at hout
    obtain ⟨hk, hcc, _⟩ := hout
    subst hcc
    rw [hk] at hget hl
    exact ⟨fid, hget, hl, hf⟩
  | unparsable => rw [hv] at hout; exact hout.elim
  | error => rw [hv] at hout; exact hout.elim
  | interpFail => rw [hv] at hout; exact hout.elim

/-! ## a decidable form of `exit0_Good` -/

def exit0_uniqueOk (w : World) : Bool := w.dirs.all fun d => decide ((d.2.map (·.1)).Nodup)

theorem exit0_unique_of_ok {w : World} (h : exit0_uniqueOk w = true) : exit0_Unique w := by
  intro d es hd
  unfold World.dir at hd
  simp only [Option.map_eq_some_iff] at hd
  obtain ⟨x, hx, rfl⟩ := hd
  unfold exit0_uniqueOk at h
  rw [List.all_eq_true] at h
  exact of_decide_eq_true (h x (List.mem_of_find?_eq_some hx))

def exit0_listedOk (C : exit0_Ctx) : Bool :=
  C.dirs.all fun de => ((C.w0.dir de.1).getD []).all fun x => !isDot x.1 && (C.files0.get de.1 x.1).isSome

def exit0_norevOk (C : exit0_Ctx) : Bool :=
  (List.range C.dirs.length).all fun i =>
    match C.dirs[i]? with
    | none => true
    | some de => C.files0.all fun x =>
        !(x.1 == de.1) || !(((C.dirs.drop (i + 1)).map (·.1)).contains (exit0_dest C.env C.orc de.2 de.1 x.2.1 x.2.2))

/-- The hypotheses on configuration, registry and world, as one Boolean. -/
def exit0_goodOk (C : exit0_Ctx) : Bool :=
  decide ((C.dirs.map (·.1)).Nodup) && exit0_uniqueOk C.w0 && exit0_listedOk C && exit0_norevOk C

theorem exit0_good_of_ok {C : exit0_Ctx} (h : exit0_goodOk C = true) : exit0_Good C := by
  unfold exit0_goodOk at h
  simp only [Bool.and_eq_true, decide_eq_true_eq] at h
  obtain ⟨⟨⟨h1, h2⟩, h3⟩, h4⟩ := h
  refine ⟨h1, exit0_unique_of_ok h2, ?_, ?_⟩
  · intro D e hmem n hn
    unfold exit0_listedOk at h3
    rw [List.all_eq_true] at h3
    have h5 := h3 (D, e) hmem
    cases hd : C.w0.dir D with
    | none =>
      unfold World.lookup at hn
      rw [hd] at hn
      cases hn
    | some es =>
      simp only [hd, Option.getD_some] at h5
      rw [List.all_eq_true] at h5
      obtain ⟨x, hx, rfl⟩ := List.mem_map.1 ((exit0_lookup_isSome_iff hd).1 hn)
      have := h5 x hx
      simp only [Bool.and_eq_true, Bool.not_eq_true'] at this
      exact this
  · intro pre D e post hs n c hc hmem
    unfold exit0_norevOk at h4
    rw [List.all_eq_true] at h4
    have hlen : pre.length < C.dirs.length := by rw [hs]; simp
    have h5 := h4 pre.length (List.mem_range.2 hlen)
    have hget : C.dirs[pre.length]? = some (D, e) := by rw [hs]; simp
    rw [hget] at h5
    dsimp only at h5
    rw [List.all_eq_true] at h5
    unfold Files.get at hc
    simp only [Option.map_eq_some_iff] at hc
    obtain ⟨x, hx, rfl⟩ := hc
    have hx1 := List.find?_some hx
    simp only [Bool.and_eq_true, beq_iff_eq] at hx1
    have h6 := h5 x (List.mem_of_find?_eq_some hx)
    have hdrop : C.dirs.drop (pre.length + 1) = post := by rw [hs]; simp
    rw [hdrop, hx1.1] at h6
    simp only [beq_self_eq_true, Bool.not_true, Bool.false_or, Bool.not_eq_true'] at h6
    rw [hx1.2] at h6
    have hcon := List.contains_iff_mem.2 hmem
    rw [h6] at hcon
    cases hcon

theorem exit0_get_mem {fs : Files} {D n c : Bytes} (h : fs.get D n = some c) : (D, n, c) ∈ fs := by
  unfold Files.get at h
  simp only [Option.map_eq_some_iff] at h
  obtain ⟨x, hx, rfl⟩ := h
  have h1 := List.find?_some hx
  simp only [Bool.and_eq_true, beq_iff_eq] at h1
  have h2 := List.mem_of_find?_eq_some hx
  obtain ⟨x1, x2, x3⟩ := x
  simp only at h1
  rw [← h1.1, ← h1.2]
  exact h2

/-- **A simple sufficient form of the side condition**: every message stays in its directory or is sent to
a directory that is not configured at all. -/
theorem exit0_good_of_outside {C : exit0_Ctx} (h1 : (C.dirs.map (·.1)).Nodup) (h2 : exit0_uniqueOk C.w0 = true)
    (h3 : exit0_listedOk C = true)
    (h4 : ∀ D e n c, (D, e) ∈ C.dirs → C.files0.get D n = some c →
      exit0_dest C.env C.orc e D n c = D ∨ exit0_dest C.env C.orc e D n c ∉ C.dirs.map (·.1)) : exit0_Good C := by
  refine ⟨h1, exit0_unique_of_ok h2, ?_, ?_⟩
  · intro D e hmem n hn
    unfold exit0_listedOk at h3
    rw [List.all_eq_true] at h3
    have h5 := h3 (D, e) hmem
    cases hd : C.w0.dir D with
    | none =>
      unfold World.lookup at hn
      rw [hd] at hn
      cases hn
    | some es =>
      simp only [hd, Option.getD_some] at h5
      rw [List.all_eq_true] at h5
      obtain ⟨x, hx, rfl⟩ := List.mem_map.1 ((exit0_lookup_isSome_iff hd).1 hn)
      have := h5 x hx
      simp only [Bool.and_eq_true, Bool.not_eq_true'] at this
      exact this
  · intro pre D e post hs n c hc hmem
    have hD : (D, e) ∈ C.dirs := by rw [hs]; simp
    have hn := h1
    rw [hs, List.map_append, List.map_cons, List.nodup_append] at hn
    rcases h4 D e n c hD hc with h | h
    · rw [h] at hmem
      exact (List.nodup_cons.1 hn.2.1).1 hmem
    · apply h
      rw [hs, List.map_append, List.map_cons]
      exact List.mem_append_right _ (List.mem_cons_of_mem _ hmem)

end Mdsort.Proofs
