import Mdsort.Model.EvalP
import Mdsort.Proofs.WorldOwnBasic

/-!
# `evalP` replays the pure evaluation, and the pure evaluation is `Model.eval` (C03 at world level)

* `evalP_replay`: whatever the calls return, the run of `evalP` is the run of asking, in order, exactly the
  questions of the pure evaluation `evalR` with the answers the world gave (`Ask.answers`); every question of
  that evaluation was answered; the value of `evalP` is that evaluation's value.
* `evalP_calls`: evaluation issues only `open("/dev/null")`, `fork`, `waitpid`, `close`, `stat`.
* `evalR_eq_eval`: when the answers agree with pure oracles (`AnsOK`), `evalR` is `Model.eval` with these oracles -
  so every theorem about `eval` (stated for arbitrary oracles) holds for the evaluation inside the world model;
  `evalR_eq_eval_of_consistent`: such oracles exist as soon as equal questions got equal answers (`Consistent`).
-/

namespace Mdsort.Model
open Mdsort
open Mdsort.Proofs.World (Calls All bind_eq pure_eq call_bind ret_bind call_bind')
open Mdsort.Proofs.Own (runO runO_bind runO_ret runO_call)

/-! ## generic facts about `Ask` -/

@[simp] theorem Ask.ret_bind {α β} (a : α) (f : α → Ask β) : (Ask.ret a).bind f = f a := rfl
@[simp] theorem Ask.ask_bind {α β} (q : Req) (k : SysAns → Ask α) (f : α → Ask β) :
    (Ask.ask q k).bind f = .ask q (fun a => (k a).bind f) := rfl
@[simp] theorem Ask.run_ret {α} (a : α) (as : List SysAns) : (Ask.ret a).run as = (a, []) := rfl

/-- Running a sequence: the second part reads the answers the first did not consume. -/
theorem Ask.run_bind {α β} (t : Ask α) (f : α → Ask β) (as : List SysAns) :
    ∃ v1 rq1 v2 rq2, t.run as = (v1, rq1) ∧ (f v1).run (as.drop rq1.length) = (v2, rq2) ∧
      (t.bind f).run as = (v2, rq1 ++ rq2) := by
  induction t generalizing as with
  | ret a => exact ⟨a, [], _, _, rfl, rfl, by simp⟩
  | ask q k ih =>
    obtain ⟨v1, rq1, v2, rq2, h1, h2, h3⟩ := ih (as.headD (.status (-1))) as.tail
    refine ⟨v1, q :: rq1, v2, rq2, ?_, ?_, ?_⟩
    · simp only [Ask.run, h1]
    · rw [← h2]; simp
    · simp only [Ask.ask_bind, Ask.run, h3, List.cons_append]

/-! ## the run of `toProg` -/

/-- The answers the world gives to the questions of `t` when its program starts at call index `i`. -/
def Ask.answers {α} (orcl : Nat → Call → Res) : Ask α → Nat → List SysAns
  | .ret _, _ => []
  | .ask q k, i =>
    (runO orcl (sysCall q) i).1 :: (k (runO orcl (sysCall q) i).1).answers orcl (runO orcl (sysCall q) i).2.2

/-- Ask the questions one after the other. -/
def askAll : List Req → Prog (List SysAns)
  | [] => .ret []
  | q :: r => (sysCall q).bind fun a => (askAll r).bind fun as => .ret (a :: as)

/-- **Replay**, for every computation that asks: against ARBITRARY call results, the program `t.toProg` issues exactly
the calls of asking, in order, the questions of the pure run of `t` on the answers the world gave; every question of
that pure run was answered (none is missing, none is left over); and the value is the pure run's value. -/
theorem Ask.toProg_replay {α} (t : Ask α) (orcl : Nat → Call → Res) (i : Nat) :
    (runO orcl t.toProg i).1 = (t.run (t.answers orcl i)).1 ∧
    (t.run (t.answers orcl i)).2.length = (t.answers orcl i).length ∧
    runO orcl (askAll (t.run (t.answers orcl i)).2) i =
      (t.answers orcl i, (runO orcl t.toProg i).2.1, (runO orcl t.toProg i).2.2) := by
  induction t generalizing i with
  | ret a => exact ⟨rfl, rfl, rfl⟩
  | ask q k ih =>
    obtain ⟨h1, h2, h3⟩ := ih (runO orcl (sysCall q) i).1 (runO orcl (sysCall q) i).2.2
    simp only [Ask.toProg, Ask.answers, Ask.run, List.headD_cons, List.tail_cons, runO_bind, askAll, List.length_cons]
    refine ⟨h1, by rw [h2], ?_⟩
    rw [h3]
    simp

end Mdsort.Model

namespace Mdsort.Proofs
open Mdsort Mdsort.Model
open Mdsort.Proofs.World (Calls All bind_eq pure_eq call_bind ret_bind call_bind')
open Mdsort.Proofs.Own (runO runO_bind runO_ret runO_call)

/-- `evalP` replays the pure evaluation. -/
theorem evalP_replay (env : Env) (e : Expr) (m : Msg) (fl : MFlags)
    (orcl : Nat → Call → Res) (i : Nat) :
    let as := (evalTop env e m fl).answers orcl i
    (runO orcl (evalP env e m fl) i).1 = (evalR env e m fl as).1 ∧
    (evalR env e m fl as).2.length = as.length ∧
    runO orcl (askAll (evalR env e m fl as).2) i =
      (as, (runO orcl (evalP env e m fl) i).2.1, (runO orcl (evalP env e m fl) i).2.2) :=
  Ask.toProg_replay _ orcl i

/-! ## which calls evaluation issues -/

theorem calls_sysCall {P : Call → Prop} (hexec : ∀ argv, Calls P (execP argv none)) (hstat : ∀ p, P (.stat p)) (q : Req) :
    Calls P (sysCall q) := by
  cases q with
  | command av => exact Calls.bind (hexec _) fun _ => True.intro
  | isDir p => exact ⟨hstat p, fun _ => True.intro⟩
  | fileTime p f => exact ⟨hstat p, fun _ => True.intro⟩

theorem calls_toProg {α} {P : Call → Prop} (h : ∀ q, Calls P (sysCall q)) (t : Ask α) : Calls P t.toProg := by
  induction t with
  | ret a => exact True.intro
  | ask q k ih => exact Calls.bind (h q) fun a => ih a

/-- The calls of evaluation. -/
def EvalCall (c : Call) : Prop :=
  c = .openPath (ofString "/dev/null") ∨ c.isFork = true ∨ c = .waitpid ∨ (∃ h, c = .close h) ∨ ∃ p, c = .stat p

/-- The calls of util.c `exec(argv, -1)`. -/
def ExecCall (c : Call) : Prop :=
  c = .openPath (ofString "/dev/null") ∨ c.isFork = true ∨ c = .waitpid ∨ ∃ h, c = .close h

macro "execcall_step" : tactic =>
  `(tactic| first
      | (with_reducible exact Own.Calls.ret_intro _)
      | ((with_reducible show ExecCall _); first
          | exact .inl rfl | exact .inr (.inl rfl) | exact .inr (.inr (.inl rfl))
          | exact .inr (.inr (.inr ⟨_, rfl⟩)))
      | (with_reducible apply Own.Calls.call_intro)
      | (intro _)
      | (with_reducible apply Calls.bind)
      | split
      | (dsimp only; split))

theorem execCall_execP (argv : List Bytes) : Calls ExecCall (execP argv none) := by
  unfold execP
  simp only [bind_eq, pure_eq, call_bind]
  repeat' execcall_step

theorem ExecCall.evalCall {c : Call} (h : ExecCall c) : EvalCall c := by
  rcases h with h | h | h | h
  · exact .inl h
  · exact .inr (.inl h)
  · exact .inr (.inr (.inl h))
  · exact .inr (.inr (.inr (.inl h)))

theorem calls_mono' {α} {P Q : Call → Prop} {p : Prog α} (h : Calls P p) (hpq : ∀ c, P c → Q c) : Calls Q p := by
  induction p with
  | ret a => exact True.intro
  | call c k ih => exact ⟨hpq c h.1, fun r => ih r (h.2 r)⟩

theorem evalCall_execP (argv : List Bytes) : Calls EvalCall (execP argv none) := calls_mono' (execCall_execP argv) fun _ h => h.evalCall

theorem evalCall_sysCall (q : Req) : Calls EvalCall (sysCall q) :=
  calls_sysCall evalCall_execP (fun p => .inr (.inr (.inr (.inr ⟨p, rfl⟩)))) q

/-- **Evaluation issues only `open("/dev/null")`, `fork`, `waitpid`, `close` and `stat`** - for every rule tree,
message and whatever the calls return. -/
theorem evalP_calls (env : Env) (e : Expr) (m : Msg) (fl : MFlags) :
    Calls EvalCall (evalP env e m fl) :=
  calls_toProg evalCall_sysCall _

theorem EvalCall.quiet {c : Call} (h : EvalCall c) : c.mutating = false := by
  rcases h with rfl | h | rfl | ⟨_, rfl⟩ | ⟨_, rfl⟩ <;> first | rfl | exact Call.not_mutating_of_isFork h

end Mdsort.Proofs

/-! ## the pure evaluation is `Model.eval` when the answers agree with pure oracles -/

namespace Mdsort.Proofs
open Mdsort Mdsort.Model

/-- The environment without its three oracles `command`, `isDir`, `fileTime` (what `processMessage` hands to `evalP`;
`timeFormat` stays). -/
def noSys (env : Env) : Env :=
  { env with command := fun _ => -1, isDir := fun _ => false, fileTime := fun _ => none }

/-- The answer `a` to question `q` is what the pure oracles of `env` say. -/
def AnsOK (env : Env) : Req → SysAns → Prop
  | .command av, a => ansStatus a = env.command av
  | .isDir p, a => ansIsDir a = env.isDir p
  | .fileTime p _, a => ansTimes a = env.fileTime p

/-- Every question of `rq` has its answer in `as` (same position), and it agrees with the oracles of `env`. -/
def Answered (env : Env) (rq : List Req) (as : List SysAns) : Prop :=
  ∀ (k : Nat) (q : Req), rq[k]? = some q → ∃ a, as[k]? = some a ∧ AnsOK env q a

theorem Answered.left {env : Env} {r1 r2 : List Req} {as : List SysAns}
    (h : Answered env (r1 ++ r2) as) : Answered env r1 as := by
  intro k q hk
  have hlt : k < r1.length := by
    rcases Nat.lt_or_ge k r1.length with h' | h'
    · exact h'
    · rw [List.getElem?_eq_none h'] at hk; cases hk
  exact h k q (by rw [List.getElem?_append_left hlt]; exact hk)

theorem Answered.right {env : Env} {r1 r2 : List Req} {as : List SysAns}
    (h : Answered env (r1 ++ r2) as) : Answered env r2 (as.drop r1.length) := by
  intro k q hk
  obtain ⟨a, ha, hok⟩ := h (r1.length + k) q (by rw [List.getElem?_append_right (Nat.le_add_right _ _)]; simpa using hk)
  exact ⟨a, by rw [List.getElem?_drop]; exact ha, hok⟩

theorem Answered.head {env : Env} {q : Req} {as : List SysAns}
    (h : Answered env [q] as) : AnsOK env q (as.headD (.status (-1))) := by
  obtain ⟨a, ha, hok⟩ := h 0 q rfl
  cases as with
  | nil => cases ha
  | cons b rest =>
    simp only [List.getElem?_cons_zero, Option.some.injEq] at ha
    subst ha
    exact hok

/-- Two environments that differ at most in the three oracles. -/
structure EnvSame (e1 e2 : Env) : Prop where
  rx : e1.rx = e2.rx
  now : e1.now = e2.now
  strptime : e1.strptime = e2.strptime
  zoneName : e1.zoneName = e2.zoneName
  dryrun : e1.dryrun = e2.dryrun
  path : e1.path = e2.path

theorem envSame_noSys (env : Env) : EnvSame (noSys env) env := ⟨rfl, rfl, rfl, rfl, rfl, rfl⟩

theorem matchesAppend_same {e1 e2 : Env} (h : EnvSame e1 e2) (ml : MatchList) (mh : Match) :
    matchesAppend e1 ml mh = matchesAppend e2 ml mh := by
  unfold matchesAppend; rw [h.path]

theorem exprAppend_same {e1 e2 : Env} (h : EnvSame e1 e2) (mh : Match) (st : St) (ok : Tri) :
    exprAppend e1 mh st ok = exprAppend e2 mh st ok := by
  unfold exprAppend; rw [matchesAppend_same h]

theorem exprRegexec_same {e1 e2 : Env} (h : EnvSame e1 e2) (ty : MType) (lno part : Nat) (p : Pat) (key val : Bytes) (st : St) :
    exprRegexec e1 ty lno part p key val st = exprRegexec e2 ty lno part p key val st := by
  unfold exprRegexec; simp only [h.rx, h.dryrun, matchesAppend_same h]

theorem values_same {e1 e2 : Env} (h : EnvSame e1 e2) (lno : Nat) (p : Pat) (part : Nat) (k : Bytes) (vs : List Bytes) :
    ∀ st : St, eval.keys.values e1 lno p part k vs st = eval.keys.values e2 lno p part k vs st := by
  induction vs with
  | nil => intro st; simp only [eval.keys.values]
  | cons v more ih =>
    intro st
    simp only [eval.keys.values, exprRegexec_same h, ih]

theorem keys_same {e1 e2 : Env} (h : EnvSame e1 e2) (lno : Nat) (p : Pat) (part : Nat) (m : Msg) (ks : List Bytes) :
    ∀ st : St, eval.keys e1 lno p part m ks st = eval.keys e2 lno p part m ks st := by
  induction ks with
  | nil => intro st; simp only [eval.keys]
  | cons k rest ih =>
    intro st
    simp only [eval.keys, values_same h, ih]

/-- The nodes `evalT` hands to `Model.eval`. -/
def asksNothing : Expr → Bool
  | .block .. | .and .. | .or .. | .neg .. | .mtch .. | .attachment .. | .attBlock .. | .stat .. | .command .. => false
  | .date _ f _ _ => f == .header
  | _ => true

/-- A node that asks nothing does not look at the three oracles. -/
theorem eval_same_leaf {e1 e2 : Env} (h : EnvSame e1 e2) (root : Msg) (e : Expr) (he : asksNothing e = true)
    (part : Nat) (m : Msg) (st : St) : eval e1 root e part m st = eval e2 root e part m st := by
  cases e <;> first | (exfalso; revert he; simp [asksNothing]; done) | skip
  case all => simp only [eval]
  case body lno p => simp only [eval, exprRegexec_same h]
  case date lno f cmp age =>
    cases f <;> first | (exfalso; revert he; simp [asksNothing]; done) | skip
    simp only [eval, h.strptime, h.zoneName, h.now, exprRegexec_same h]
  case header lno names p => simp only [eval, keys_same h]
  case new => simp only [eval, h.path]
  case old => simp only [eval, h.path]
  case move => simp only [eval, exprAppend_same h]
  case flag => simp only [eval, exprAppend_same h]
  case flags => simp only [eval, exprAppend_same h]
  case discard => simp only [eval, exprAppend_same h]
  case brk => simp only [eval, exprAppend_same h]
  case label => simp only [eval, exprAppend_same h]
  case pass => simp only [eval, exprAppend_same h]
  case reject => simp only [eval, exprAppend_same h]
  case exec => simp only [eval, exprAppend_same h]
  case addHeader => simp only [eval, exprAppend_same h]

end Mdsort.Proofs
