import Mdsort.Proofs.WorldSingleList
import Mdsort.Proofs.WorldSingleReport
import Mdsort.Proofs.World

/-! C01 under at most one fault: the whole action list, the discard, and the statements in terms
of `runPlan`. -/

namespace Mdsort.Proofs.World
set_option linter.unusedSimpArgs false
open Mdsort Mdsort.Model

/-! ## the list without the final close -/

/-- `matches_exec` without the closing of a changed source maildir at the end. -/
def execList (env : PEnv) : MatchList → ExecSt → Prog (ExecSt × Bool)
  | [], st => Prog.ret (st, false)
  | mh :: rest, st => (execOne env mh st).bind fun x => if x.2 = true then Prog.ret x else execList env rest x.1

/-- The end of `matches_exec`: a changed source maildir is closed. -/
def finish (x : ExecSt × Bool) : Prog (ExecSt × Bool) :=
  if x.1.chsrc = true then (maildirClose x.1.src).bind fun _ => Prog.ret x else Prog.ret x

theorem matchesExec_eq (env : PEnv) (ml : MatchList) (st : ExecSt) :
    matchesExec env ml st = (execList env ml st).bind finish := by
  induction ml generalizing st with
  | nil =>
    rw [matchesExec]
    rfl
  | cons mh rest ih =>
    rw [matchesExec]
    unfold execList
    rw [bind_assoc]
    simp only [bind_eq, pure_eq]
    congr 1
    funext x
    obtain ⟨st', e⟩ := x
    cases e with
    | false =>
      simp only [Bool.false_eq_true, if_false]
      exact ih st'
    | true =>
      simp only [if_true, ret_bind]
      rfl

theorem execList_append (env : PEnv) (pre post : MatchList) (st : ExecSt) :
    execList env (pre ++ post) st =
      (execList env pre st).bind fun x => if x.2 = true then Prog.ret x else execList env post x.1 := by
  induction pre generalizing st with
  | nil => simp [execList]
  | cons mh rest ih =>
    simp only [List.cons_append, execList]
    rw [bind_assoc]
    congr 1
    funext x
    obtain ⟨st', e⟩ := x
    cases e with
    | false => simp only [Bool.false_eq_true, if_false]; exact ih st'
    | true => simp only [if_true, ret_bind]

/-- The directory the message is in after the whole list has succeeded. -/
def finalDir : MatchList → Bytes → Bytes
  | [], p => p
  | mh :: rest, p => finalDir rest (stepDir mh p)

/-- The list contains a label or add-header action. -/
def rewrites (ml : MatchList) : Bool := ml.any fun mh => isRewriteTy mh.ty

/-- What a discard-free list guarantees under at most one fault, before the final close. -/
def ListPost (w : World) (ml : MatchList) (st : ExecSt) (r : ExecSt × Bool) (w' : World) : Prop :=
  ∃ nb, Located w' r.1.ms nb ∧ Delta w w' (st.src.path, st.ms.name) nb ∧ r.1.ms.msg = st.ms.msg ∧
    (r.1.ms.content = st.ms.content ∨ r.1.ms.content = (messageWrite st.ms.msg).1) ∧
    (r.2 = false → (∃ sh' fid', At w' r.1 sh' fid') ∧ r.1.src.path = finalDir ml st.src.path ∧
      (rewrites ml = true → r.1.ms.content = (messageWrite st.ms.msg).1))

theorem sf_execList (env : PEnv) (ml : MatchList) (st : ExecSt) {w : World} {sh : Handle} {fid : Nat}
    (hA : At w st sh fid) (hnd : ∀ m ∈ ml, m.ty ≠ .discard) (b : Bool) :
    wpS (execList env ml st) (fun _ => ListPost w ml st) b w := by
  induction ml generalizing st w sh fid b with
  | nil =>
    exact ⟨_, hA.located, Delta.refl w _, rfl, .inl rfl, fun _ => ⟨⟨sh, fid, hA⟩, rfl, by intro h; cases h⟩⟩
  | cons mh rest ih =>
    unfold execList
    refine wpS_bind_mono (sf_execOne env mh st hA (hnd mh (List.mem_cons_self ..)) b) ?_
    rintro b1 ⟨st1, e⟩ w1 ⟨nb, hloc1, d01, hmsg1, hcont1, hfin1⟩
    simp only at hloc1 hmsg1 hcont1 hfin1
    cases e with
    | true =>
      simp only [if_true]
      exact ⟨nb, hloc1, d01, hmsg1, hcont1, by intro h; cases h⟩
    | false =>
      simp only [Bool.false_eq_true, if_false]
      obtain ⟨⟨sh1, fid1, hA1⟩, hdir1, hrw1⟩ := hfin1 rfl
      have hnb : nb = (st1.src.path, st1.ms.name) := by
        have := hloc1.1
        rw [hA1.hloc] at this
        exact (Option.some.inj this).symm
      subst hnb
      refine wpS_mono (ih st1 hA1 (fun m hm => hnd m (List.mem_cons_of_mem _ hm)) b1) ?_
      rintro b2 ⟨st2, e2⟩ w2 ⟨nb2, hloc2, d12, hmsg2, hcont2, hfin2⟩
      simp only at hloc2 hmsg2 hcont2 hfin2
      rw [hmsg1] at hcont2
      refine ⟨nb2, hloc2, d01.trans d12, hmsg2.trans hmsg1, ?_, ?_⟩
      · rcases hcont2 with h | h
        · rw [h]; exact hcont1
        · exact .inr h
      · intro he
        obtain ⟨hA2, hdir2, hrw2⟩ := hfin2 he
        refine ⟨hA2, by rw [hdir2, hdir1]; rfl, ?_⟩
        intro hr
        rw [hmsg1] at hrw2
        simp only [rewrites, List.any_cons, Bool.or_eq_true] at hr
        rcases hr with hr | hr
        · have h1 := hrw1 hr
          rcases hcont2 with h | h
          · rw [h]; exact h1
          · exact h
        · exact hrw2 hr

/-- What `matches_exec` guarantees for a discard-free list under at most one fault: the message
is at the entry its ghost location names, complete; the entries changed as `Delta` says; without
error the entry is in the last destination and, after a label or add-header, holds the rewritten
message. -/
def FinalPost (w : World) (ml : MatchList) (st : ExecSt) (r : ExecSt × Bool) (w' : World) : Prop :=
  ∃ nb, Located w' r.1.ms nb ∧ Delta w w' (st.src.path, st.ms.name) nb ∧ r.1.ms.msg = st.ms.msg ∧
    (r.1.ms.content = st.ms.content ∨ r.1.ms.content = (messageWrite st.ms.msg).1) ∧
    (r.2 = false → nb.1 = finalDir ml st.src.path ∧
      (rewrites ml = true → r.1.ms.content = (messageWrite st.ms.msg).1))

/-- The final close keeps any statement that only a directory operation or a write could break. -/
theorem sf_finish {Q : ExecSt × Bool → World → Prop} (x : ExecSt × Bool) (b : Bool) {w : World}
    (hq : Q x w) (hstep : ∀ d r, Q x (stepWorld w (.closedir d) r)) :
    wpS (finish x) (fun _ => Q) b w := by
  unfold finish
  split
  · unfold maildirClose
    split
    · simp only [bind_eq, pure_eq, call_bind, call_bind', ret_bind]
      exact wpS_call_any fun r _ => hstep _ r
    · exact hq
  · exact hq

theorem sf_matchesExec (env : PEnv) (ml : MatchList) (st : ExecSt) {w : World} {sh : Handle} {fid : Nat}
    (hA : At w st sh fid) (hnd : ∀ m ∈ ml, m.ty ≠ .discard) (b : Bool) :
    wpS (matchesExec env ml st) (fun _ => FinalPost w ml st) b w := by
  rw [matchesExec_eq]
  refine wpS_bind_mono (sf_execList env ml st hA hnd b) ?_
  rintro b1 x w1 ⟨nb, hloc, d, hmsg, hcont, hfin⟩
  have hfin' : x.2 = false → nb.1 = finalDir ml st.src.path ∧
      (rewrites ml = true → x.1.ms.content = (messageWrite st.ms.msg).1) := by
    intro he
    obtain ⟨⟨sh', fid', hA'⟩, hdir, hrw⟩ := hfin he
    have hnb : nb = (x.1.src.path, x.1.ms.name) := by
      have := hloc.1
      rw [hA'.hloc] at this
      exact (Option.some.inj this).symm
    exact ⟨by rw [hnb]; exact hdir, hrw⟩
  refine sf_finish x b1 ⟨nb, hloc, d, hmsg, hcont, hfin'⟩ ?_
  intro dd r
  exact ⟨nb, hloc.step _ r rfl (fun _ => trivial), d.step _ r rfl (fun _ _ => trivial), hmsg, hcont, hfin'⟩

/-! ## discard -/

/-- All that changed after a successful discard: the entry `a` is free, everything else is as before. -/
structure Removed (w w' : World) (a : Ent) : Prop where
  nextFid : w.nextFid ≤ w'.nextFid
  files : ∀ g, g < w.nextFid → w'.file g = w.file g
  dirSome : ∀ q, (w'.dir q).isSome = (w.dir q).isSome
  others : ∀ x, x ≠ a → lk w' x = lk w x
  gone : lk w' a = none

theorem Removed.step {w w' : World} {a : Ent} (d : Removed w w' a) (c : Call) (r : Res)
    (hd : Call.dirOp c = false) (hfs : ∀ g, g < w.nextFid → fileSafe w' g c) : Removed w (stepWorld w' c r) a := by
  have hdirs : (stepWorld w' c r).dirs = w'.dirs := by rw [stepWorld_dirs]; exact core_dirs w' c r hd
  refine ⟨?_, ?_, ?_, ?_, ?_⟩
  · simpa using Nat.le_trans d.nextFid (core_nextFid w' c r)
  · intro g hg
    rw [stepWorld_file, core_file w' c r g (Nat.lt_of_lt_of_le hg d.nextFid) (hfs g hg), d.files g hg]
  · intro q
    rw [← d.dirSome q, dir_of_dirs hdirs q]
  · intro x hx; rw [lk_step _ _ _ hd, d.others x hx]
  · rw [lk_step _ _ _ hd, d.gone]

theorem Delta.removed {w0 w1 w2 : World} {a b : Ent} (d : Delta w0 w1 a b) (r : Removed w1 w2 b) : Removed w0 w2 a := by
  refine ⟨Nat.le_trans d.nextFid r.nextFid, ?_, ?_, ?_, ?_⟩
  · intro g hg
    rw [r.files g (Nat.lt_of_lt_of_le hg d.nextFid), d.files g hg]
  · intro q; rw [r.dirSome, d.dirSome]
  · intro x hxa
    by_cases hxb : x = b
    · subst hxb
      rw [r.gone, d.fresh (Ne.symm hxa)]
    · rw [r.others x hxb, d.others x hxa hxb]
  · by_cases hab : a = b
    · subst hab; exact r.gone
    · rw [r.others a hab]; exact d.gone hab

/-- The discard action under at most one fault. -/
def DiscardPost (w : World) (st : ExecSt) (r : ExecSt × Bool) (w' : World) : Prop :=
  (r.2 = true ∧ r.1 = st ∧ Mid w w' (lk w)) ∨
  (r.2 = false ∧ r.1.ms.loc = none ∧ Removed w w' (st.src.path, st.ms.name))

theorem sf_discard (env : PEnv) (mh : Match) (st : ExecSt) (hty : mh.ty = .discard) {w : World} {sh : Handle} {fid : Nat}
    (hA : At w st sh fid) (b : Bool) :
    wpS (execOne env mh st) (fun _ => DiscardPost w st) b w := by
  have hprog : execOne env mh st = (maildirUnlink st.src st.ms.name).bind fun e =>
      Prog.ret (if e = true then st else { st with ms := { st.ms with loc := none } }, e) := by
    unfold execOne
    simp only [hty]
    rfl
  rw [hprog, maildirUnlink_some hA.hsh]
  simp only [call_bind', ret_bind]
  refine wpS_call_res (by intro _ h; cases h) (by intro _ _ h; cases h) ?_
  intro r b' hr
  have hl : w.lookup st.src.path st.ms.name = some fid := hA.hlk
  have hp : predict w (.unlinkat sh st.ms.name) = .ok 0 := by simp [predict, hA.hps, hl]
  rw [hp] at hr
  have hcases : r = .ok 0 ∨ ∃ e, r = .err e := by
    rcases hr with ⟨hr, _⟩ | ⟨_, _, hr | ⟨e, he⟩⟩
    · exact .inl hr
    · exact .inl hr
    · exact .inr ⟨e, he⟩
  rcases hcases with rfl | ⟨e, rfl⟩
  · have m := (Mid.refl w).unlink hA.hps hl 0
    refine Or.inr ⟨rfl, rfl, m.nextFid, m.files, m.dirSome, ?_, ?_⟩
    · intro x hx; rw [m.look]; simp [hx]
    · rw [m.look]; simp
  · exact Or.inl ⟨rfl, rfl, (Mid.refl w).err _ _ (by intro _ h; cases h) (by intro _ h; cases h) (by intro _ h; cases h)⟩

/-- A list that ends in a discard (the grammar makes discard exclusive, so in practice the list
is the discard alone, possibly after entries that are no actions): either an error is returned
and the message is intact exactly once as for any other list, or the message is gone and nothing
else has changed. -/
def DiscardListPost (w : World) (st : ExecSt) (r : ExecSt × Bool) (w' : World) : Prop :=
  (r.2 = true ∧ ∃ nb, Located w' r.1.ms nb ∧ Delta w w' (st.src.path, st.ms.name) nb ∧ r.1.ms.msg = st.ms.msg ∧
    (r.1.ms.content = st.ms.content ∨ r.1.ms.content = (messageWrite st.ms.msg).1)) ∨
  (r.2 = false ∧ r.1.ms.loc = none ∧ Removed w w' (st.src.path, st.ms.name))

theorem sf_matchesExec_discard (env : PEnv) (pre : MatchList) (md : Match) (st : ExecSt) {w : World} {sh : Handle} {fid : Nat}
    (hA : At w st sh fid) (hnd : ∀ m ∈ pre, m.ty ≠ .discard) (hty : md.ty = .discard) (b : Bool) :
    wpS (matchesExec env (pre ++ [md]) st) (fun _ => DiscardListPost w st) b w := by
  rw [matchesExec_eq, execList_append]
  have fin : ∀ (x : ExecSt × Bool) (b' : Bool) (w' : World), DiscardListPost w st x w' →
      wpS (finish x) (fun _ => DiscardListPost w st) b' w' := by
    intro x b' w' hq
    refine sf_finish x b' hq ?_
    intro dd r
    rcases hq with ⟨he, nb, hloc, d, hmsg, hcont⟩ | ⟨he, hl, hr⟩
    · exact Or.inl ⟨he, nb, hloc.step _ r rfl (fun _ => trivial), d.step _ r rfl (fun _ _ => trivial), hmsg, hcont⟩
    · exact Or.inr ⟨he, hl, hr.step _ r rfl (fun _ _ => trivial)⟩
  refine wpS_bind (wpS_bind_mono (sf_execList env pre st hA hnd b) ?_)
  rintro b1 ⟨st1, e⟩ w1 ⟨nb, hloc1, d01, hmsg1, hcont1, hfin1⟩
  simp only at hloc1 hmsg1 hcont1 hfin1
  cases e with
  | true =>
    simp only [if_true]
    exact fin _ _ _ (Or.inl ⟨rfl, nb, hloc1, d01, hmsg1, hcont1⟩)
  | false =>
    simp only [Bool.false_eq_true, if_false]
    obtain ⟨⟨sh1, fid1, hA1⟩, -, -⟩ := hfin1 rfl
    have hnb : nb = (st1.src.path, st1.ms.name) := by
      have := hloc1.1
      rw [hA1.hloc] at this
      exact (Option.some.inj this).symm
    subst hnb
    unfold execList
    refine wpS_bind (wpS_mono (sf_discard env md st1 hty hA1 b1) ?_)
    rintro b2 ⟨st2, e2⟩ w2 hd
    have hpost : DiscardListPost w st (st2, e2) w2 := by
      rcases hd with ⟨he, hst, m⟩ | ⟨he, hl, hr⟩
      · simp only at he hst
        subst he hst
        refine Or.inl ⟨rfl, _, ⟨hA1.hloc, fid1, by rw [m.look]; exact hA1.hlk, Nat.lt_of_lt_of_le hA1.hlt m.nextFid,
          (m.files fid1 hA1.hlt).trans hA1.hf⟩, d01.trans (m.delta_same _), hmsg1, hcont1⟩
      · simp only at he hl
        subst he
        exact Or.inr ⟨rfl, hl, d01.removed hr⟩
    cases e2 with
    | true => simp only [if_true]; exact fin _ _ _ hpost
    | false =>
      simp only [Bool.false_eq_true, if_false, execList]
      exact fin _ _ _ hpost

end Mdsort.Proofs.World

/-! ## statements in terms of `runPlan` -/

namespace Mdsort.Proofs
open Mdsort Mdsort.Model

/-- `Start`, and what the single-fault statements need in addition: the source maildir's path is
the join of its root and subdirectory (as `maildir_open` and the walk build it), the ghost
location and content of the message are those of its entry, and the message's own descriptor is
an existing handle other than the source directory's. -/
structure StartAt (w : World) (st : ExecSt) (orig : Bytes) : Prop where
  start : Start w st orig
  wf : pathjoin PATH_MAX st.src.root (subdirName st.src.subdir) = some st.src.path
  loc : st.ms.loc = some (st.src.path, st.ms.name)
  content : st.ms.content = orig
  msgFd : ∀ h, st.ms.fd = some h → h < w.handles.length ∧ st.src.dirH ≠ some h

theorem StartAt.at {w : World} {st : ExecSt} {orig : Bytes} (hs : StartAt w st orig) :
    ∃ sh fid, World.At w st sh fid := by
  obtain ⟨sh, hsh, hps⟩ := hs.start.srcOpen
  obtain ⟨fid, hl, hf⟩ := hs.start.bound
  refine ⟨sh, fid, hsh, hps, hs.wf, hs.loc, hl, hs.start.freshIds _ (World.mem_files_of_file hf),
    by rw [hs.content]; exact hf, ?_⟩
  intro h hh
  obtain ⟨h1, h2⟩ := hs.msgFd h hh
  exact ⟨h1, fun e => h2 (by rw [hsh, e])⟩

theorem exec_single_fault (env : PEnv) (ml : MatchList) (st : ExecSt) (w : World) (orig : Bytes) (plan : Plan)
    (hs : StartAt w st orig) (hd : NoDiscard ml) (hp : World.SingleFault plan) :
    World.FinalPost w ml st (runPlan plan (matchesExec env ml st) w 0 []).1
      (runPlan plan (matchesExec env ml st) w 0 []).2.1 := by
  obtain ⟨sh, fid, hA⟩ := hs.at
  rw [World.runPlan_eq]
  obtain ⟨b', h⟩ := World.wpS_sound plan (World.sf_matchesExec env ml st hA hd true) hp.budget
  exact h

/-- Exactly once: the message is bound at the entry its ghost location names, to a file that
holds a complete version (visibly and durably); that entry is the original one or was free
before, in which case the original entry is free now; every other entry is bound as before. -/
theorem exec_single_fault_exactly_once (env : PEnv) (ml : MatchList) (st : ExecSt) (w : World) (orig : Bytes) (plan : Plan)
    (hs : StartAt w st orig) (hd : NoDiscard ml) (hp : World.SingleFault plan) :
    let r := runPlan plan (matchesExec env ml st) w 0 []
    ∃ p n fid, r.1.1.ms.loc = some (p, n) ∧ r.2.1.lookup p n = some fid ∧
      r.2.1.file fid = some ⟨r.1.1.ms.content, r.1.1.ms.content⟩ ∧ r.1.1.ms.content ∈ stages st.ms orig ∧
      ((p, n) = (st.src.path, st.ms.name) ∨ (w.lookup p n = none ∧ r.2.1.lookup st.src.path st.ms.name = none)) ∧
      ∀ q m, (q, m) ≠ (p, n) → (q, m) ≠ (st.src.path, st.ms.name) → r.2.1.lookup q m = w.lookup q m := by
  intro r
  obtain ⟨⟨p, n⟩, ⟨hl, fid, hlk, _, hf⟩, d, _, hcont, _⟩ := exec_single_fault env ml st w orig plan hs hd hp
  refine ⟨p, n, fid, hl, hlk, hf, ?_, ?_, ?_⟩
  · rw [hs.content] at hcont
    rcases hcont with h | h <;> simp [stages, r, h]
  · by_cases h : (p, n) = (st.src.path, st.ms.name)
    · exact .inl h
    · exact .inr ⟨d.fresh (Ne.symm h), d.gone (Ne.symm h)⟩
  · intro q m h1 h2
    exact d.others (q, m) h2 h1

/-- No stray entry: every entry that exists after the run is the message's entry, or an entry
that existed before, bound to the same file, whose content is unchanged.  In particular no name
created by the run is left bound to an empty or partial file. -/
theorem exec_single_fault_no_stray (env : PEnv) (ml : MatchList) (st : ExecSt) (w : World) (orig : Bytes) (plan : Plan)
    (hs : StartAt w st orig) (hd : NoDiscard ml) (hp : World.SingleFault plan) :
    let r := runPlan plan (matchesExec env ml st) w 0 []
    ∀ q m fid, r.2.1.lookup q m = some fid →
      r.1.1.ms.loc = some (q, m) ∨
      (w.lookup q m = some fid ∧ (fid < w.nextFid → r.2.1.file fid = w.file fid)) := by
  intro r q m fid hq
  obtain ⟨nb, ⟨hl, _⟩, d, _, _, _⟩ := exec_single_fault env ml st w orig plan hs hd hp
  by_cases h1 : (q, m) = nb
  · exact .inl (by rw [h1]; exact hl)
  · right
    by_cases h2 : (q, m) = (st.src.path, st.ms.name)
    · have := d.gone (by rw [← h2]; exact h1)
      rw [← h2] at this
      have hq' : World.lk r.2.1 (q, m) = some fid := hq
      rw [this] at hq'
      cases hq'
    · have := d.others (q, m) h2 h1
      exact ⟨by rw [← hq]; exact this.symm, fun hlt => d.files fid hlt⟩

/-- Counting: if no other entry of the initial world is bound to a file that holds a version of
the message, then after the run the ONLY entry bound to such a file is the message's. -/
theorem exec_single_fault_unique (env : PEnv) (ml : MatchList) (st : ExecSt) (w : World) (orig : Bytes) (plan : Plan)
    (hs : StartAt w st orig) (hd : NoDiscard ml) (hp : World.SingleFault plan)
    (hu : ∀ q m fid, w.lookup q m = some fid → (q, m) ≠ (st.src.path, st.ms.name) →
      fid < w.nextFid ∧ ∀ f, w.file fid = some f → f.data ∉ stages st.ms orig) :
    let r := runPlan plan (matchesExec env ml st) w 0 []
    ∀ q m fid f, r.2.1.lookup q m = some fid → r.2.1.file fid = some f → f.data ∈ stages st.ms orig →
      r.1.1.ms.loc = some (q, m) := by
  intro r q m fid f hq hf hdata
  obtain ⟨nb, ⟨hl, _⟩, d, _, _, _⟩ := exec_single_fault env ml st w orig plan hs hd hp
  by_cases h1 : (q, m) = nb
  · rw [h1]; exact hl
  · exfalso
    by_cases h2 : (q, m) = (st.src.path, st.ms.name)
    · have := d.gone (by rw [← h2]; exact h1)
      rw [← h2] at this
      have hq' : World.lk r.2.1 (q, m) = some fid := hq
      rw [this] at hq'
      cases hq'
    · have h3 := d.others (q, m) h2 h1
      have hq' : World.lk r.2.1 (q, m) = some fid := hq
      rw [h3] at hq'
      obtain ⟨hlt, hno⟩ := hu q m fid hq' h2
      have hf' : r.2.1.file fid = w.file fid := d.files fid hlt
      rw [hf'] at hf
      exact hno f hf hdata

/-- Exit 0 means final place: without error the message is in the directory of the last
move/flag/flags action (the source directory if there is none), holds the rewritten message if
the list has a label or add-header action (and in any case the original or the rewritten
bytes), and the original entry is free unless it is the final one. -/
theorem exec_exit0_final (env : PEnv) (ml : MatchList) (st : ExecSt) (w : World) (orig : Bytes) (plan : Plan)
    (hs : StartAt w st orig) (hd : NoDiscard ml) (hp : World.SingleFault plan)
    (he : (runPlan plan (matchesExec env ml st) w 0 []).1.2 = false) :
    let r := runPlan plan (matchesExec env ml st) w 0 []
    ∃ n fid, r.1.1.ms.loc = some (World.finalDir ml st.src.path, n) ∧
      r.2.1.lookup (World.finalDir ml st.src.path) n = some fid ∧
      r.2.1.file fid = some ⟨r.1.1.ms.content, r.1.1.ms.content⟩ ∧
      (World.rewrites ml = true → r.1.1.ms.content = (messageWrite st.ms.msg).1) ∧
      (r.1.1.ms.content = orig ∨ r.1.1.ms.content = (messageWrite st.ms.msg).1) ∧
      ((World.finalDir ml st.src.path, n) ≠ (st.src.path, st.ms.name) → r.2.1.lookup st.src.path st.ms.name = none) := by
  intro r
  obtain ⟨⟨p, n⟩, ⟨hl, fid, hlk, _, hf⟩, d, _, hcont, hfin⟩ := exec_single_fault env ml st w orig plan hs hd hp
  obtain ⟨hdir, hrw⟩ := hfin he
  simp only at hdir
  subst hdir
  rw [hs.content] at hcont
  exact ⟨n, fid, hl, hlk, hf, hrw, hcont, fun h => d.gone (Ne.symm h)⟩

/-- A list that ends in a discard: without error the message's entry is gone and nothing else
has changed; with an error the message is intact exactly once. -/
theorem exec_single_fault_discard (env : PEnv) (pre : MatchList) (md : Match) (st : ExecSt) (w : World) (orig : Bytes)
    (plan : Plan) (hs : StartAt w st orig) (hd : NoDiscard pre) (hty : md.ty = .discard) (hp : World.SingleFault plan) :
    let r := runPlan plan (matchesExec env (pre ++ [md]) st) w 0 []
    (r.1.2 = false → r.1.1.ms.loc = none ∧ r.2.1.lookup st.src.path st.ms.name = none ∧
      (∀ q m, (q, m) ≠ (st.src.path, st.ms.name) → r.2.1.lookup q m = w.lookup q m) ∧
      ∀ g, g < w.nextFid → r.2.1.file g = w.file g) ∧
    (r.1.2 = true → ∃ p n fid, r.1.1.ms.loc = some (p, n) ∧ r.2.1.lookup p n = some fid ∧
      r.2.1.file fid = some ⟨r.1.1.ms.content, r.1.1.ms.content⟩ ∧ r.1.1.ms.content ∈ stages st.ms orig ∧
      ((p, n) = (st.src.path, st.ms.name) ∨ (w.lookup p n = none ∧ r.2.1.lookup st.src.path st.ms.name = none)) ∧
      ∀ q m, (q, m) ≠ (p, n) → (q, m) ≠ (st.src.path, st.ms.name) → r.2.1.lookup q m = w.lookup q m) := by
  intro r
  obtain ⟨sh, fid0, hA⟩ := hs.at
  have hpost : World.DiscardListPost w st r.1 r.2.1 := by
    obtain ⟨b', h⟩ := World.wpS_sound plan (World.sf_matchesExec_discard env pre md st hA hd hty true) hp.budget
    simp only [r]
    rw [World.runPlan_eq]
    exact h
  refine ⟨?_, ?_⟩
  · intro he
    rcases hpost with ⟨he', _⟩ | ⟨_, hl, hr⟩
    · rw [he] at he'; cases he'
    · exact ⟨hl, hr.gone, fun q m h => hr.others (q, m) h, hr.files⟩
  · intro he
    rcases hpost with ⟨_, ⟨p, n⟩, ⟨hl, fid, hlk, _, hf⟩, d, _, hcont⟩ | ⟨he', _⟩
    · refine ⟨p, n, fid, hl, hlk, hf, ?_, ?_, ?_⟩
      · rw [hs.content] at hcont
        rcases hcont with h | h <;> simp [stages, h]
      · by_cases h : (p, n) = (st.src.path, st.ms.name)
        · exact .inl h
        · exact .inr ⟨d.fresh (Ne.symm h), d.gone (Ne.symm h)⟩
      · intro q m h1 h2
        exact d.others (q, m) h2 h1
    · rw [he] at he'; cases he'

/-- A failure is reported, for EVERY fault plan: if any call of the execution of an action list
fails - because the plan injects a failure or because the file system says so - at a site that
is not ignored (`close`, `closedir`, the `fstatat` of `maildir_move`) with an errno mdsort does
not recover from (`EEXIST` of the exclusive create, `EXDEV` of the rename), `matches_exec`
returns an error. -/
theorem exec_failure_reported' (env : PEnv) (ml : MatchList) (st : ExecSt) (w : World) (plan : Plan)
    (c : Call) (e : String)
    (hmem : (c, Res.err e) ∈ (runPlan plan (matchesExec env ml st) w 0 []).2.1.trace.drop w.trace.length)
    (hsite : World.ignoredSite c = false) (herr : World.handledErr c e = false) :
    (runPlan plan (matchesExec env ml st) w 0 []).1.2 = true := by
  rw [World.runPlan_eq] at hmem ⊢
  exact World.exec_failure_reported env ml st w plan c e hmem hsite herr

/-- In terms of the plan: the failure injected at call number `i` (counted from the start of
`matches_exec`) is reported. -/
theorem exec_fault_reported' (env : PEnv) (ml : MatchList) (st : ExecSt) (w : World) (plan : Plan)
    (i : Nat) (c : Call) (r : Res) (e : String)
    (hget : ((runPlan plan (matchesExec env ml st) w 0 []).2.1.trace.drop w.trace.length)[i]? = some (c, r))
    (hp : plan i = some (.fail e)) (hsite : World.ignoredSite c = false) (herr : World.handledErr c e = false) :
    (runPlan plan (matchesExec env ml st) w 0 []).1.2 = true := by
  rw [World.runPlan_eq] at hget ⊢
  exact World.exec_fault_reported env ml st w plan i c r e hget hp hsite herr

end Mdsort.Proofs
