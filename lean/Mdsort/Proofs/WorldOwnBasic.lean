import Mdsort.Proofs.WorldBasic

/-! `runOracle`: accumulator-free variant, bind law, and a weakest-precondition calculus whose
state is the trace of calls issued so far. -/

namespace Mdsort.Proofs.Own
open Mdsort Mdsort.Model
open Mdsort.Proofs.World (bind_eq pure_eq ret_bind call_bind' call_bind bind_assoc Calls All)

abbrev Trace := List (Call × Res)

/-! ## `runO`: value, new calls, next index -/

def runO {α} (orc : Nat → Call → Res) : Prog α → Nat → α × Trace × Nat
  | .ret a, i => (a, [], i)
  | .call c k, i =>
    let x := runO orc (k (orc i c)) (i + 1)
    (x.1, (c, orc i c) :: x.2.1, x.2.2)

@[simp] theorem runO_ret {α} (orc : Nat → Call → Res) (a : α) (i : Nat) : runO orc (.ret a) i = (a, [], i) := rfl

theorem runO_call {α} (orc : Nat → Call → Res) (c : Call) (k : Res → Prog α) (i : Nat) :
    runO orc (.call c k) i =
      ((runO orc (k (orc i c)) (i + 1)).1, (c, orc i c) :: (runO orc (k (orc i c)) (i + 1)).2.1,
        (runO orc (k (orc i c)) (i + 1)).2.2) := rfl

theorem runOracle_eq {α} (orc : Nat → Call → Res) (p : Prog α) (i : Nat) (tr : Trace) :
    runOracle orc p i tr = ((runO orc p i).1, tr ++ (runO orc p i).2.1) := by
  induction p generalizing i tr with
  | ret a => simp [runOracle, runO]
  | call c k ih => simp [runOracle, runO, ih]

theorem runO_bind {α β} (orc : Nat → Call → Res) (p : Prog α) (f : α → Prog β) (i : Nat) :
    runO orc (p.bind f) i =
      ((runO orc (f (runO orc p i).1) (runO orc p i).2.2).1,
       (runO orc p i).2.1 ++ (runO orc (f (runO orc p i).1) (runO orc p i).2.2).2.1,
       (runO orc (f (runO orc p i).1) (runO orc p i).2.2).2.2) := by
  induction p generalizing i with
  | ret a => simp [runO, Prog.bind]
  | call c k ih => simp [runO, Prog.bind, ih]

/-! ## weakest preconditions over the trace -/

/-- For every choice of results allowed by `R`: every call `c` issued when the trace is `tr`
satisfies `I tr c`, and the final value and trace satisfy `Q`. -/
def wp {α} (R : Call → Res → Prop) (I : Trace → Call → Prop) : Prog α → (α → Trace → Prop) → Trace → Prop
  | .ret a, Q, tr => Q a tr
  | .call c k, Q, tr => I tr c ∧ ∀ r, R c r → wp R I (k r) Q (tr ++ [(c, r)])

variable {R : Call → Res → Prop} {I : Trace → Call → Prop}

theorem wp_ret {α} {a : α} {Q : α → Trace → Prop} {tr : Trace} (h : Q a tr) : wp R I (.ret a) Q tr := h

theorem wp_call {α} {c : Call} {k : Res → Prog α} {Q : α → Trace → Prop} {tr : Trace}
    (hi : I tr c) (h : ∀ r, R c r → wp R I (k r) Q (tr ++ [(c, r)])) : wp R I (.call c k) Q tr := ⟨hi, h⟩

theorem wp_bind {α β} {p : Prog α} {f : α → Prog β} {Q : β → Trace → Prop} {tr : Trace}
    (h : wp R I p (fun a tr' => wp R I (f a) Q tr') tr) : wp R I (p.bind f) Q tr := by
  induction p generalizing tr with
  | ret a => exact h
  | call c k ih => exact ⟨h.1, fun r hr => ih r (h.2 r hr)⟩

theorem wp_mono {α} {p : Prog α} {Q Q' : α → Trace → Prop} {tr : Trace}
    (h : wp R I p Q tr) (hq : ∀ a tr', Q a tr' → Q' a tr') : wp R I p Q' tr := by
  induction p generalizing tr with
  | ret a => exact hq _ _ h
  | call c k ih => exact ⟨h.1, fun r hr => ih r (h.2 r hr)⟩

theorem wp_bind_mono {α β} {p : Prog α} {f : α → Prog β} {Q : β → Trace → Prop} {P : α → Trace → Prop} {tr : Trace}
    (h : wp R I p P tr) (hf : ∀ a tr', P a tr' → wp R I (f a) Q tr') : wp R I (p.bind f) Q tr :=
  wp_bind (wp_mono h hf)

/-- The final trace extends the initial one: may be assumed of the postcondition. -/
theorem wp_prefix {α} {p : Prog α} {Q : α → Trace → Prop} {tr : Trace} :
    wp R I p Q tr ↔ wp R I p (fun a tr' => (∃ L, tr' = tr ++ L) → Q a tr') tr := by
  constructor
  · intro h; exact wp_mono h fun _ _ hq _ => hq
  · intro h
    induction p generalizing tr with
    | ret a => exact h ⟨[], by simp⟩
    | call c k ih =>
      refine ⟨h.1, fun r hr => ih r (wp_mono (h.2 r hr) ?_)⟩
      intro a tr' hq ⟨L, hL⟩
      exact hq ⟨(c, r) :: L, by simp [hL]⟩

/-- The final trace extends the initial one: may be added to the postcondition. -/
theorem wp_ext {α} {p : Prog α} {Q : α → Trace → Prop} {tr : Trace} (h : wp R I p Q tr) :
    wp R I p (fun a tr' => Q a tr' ∧ ∃ L, tr' = tr ++ L) tr := by
  rw [wp_prefix]
  exact wp_mono h fun _ _ hq hL => ⟨hq, hL⟩

theorem wp_bind_ext {α β} {p : Prog α} {f : α → Prog β} {Q : β → Trace → Prop} {P : α → Trace → Prop} {tr : Trace}
    (h : wp R I p P tr) (hf : ∀ a L, P a (tr ++ L) → wp R I (f a) Q (tr ++ L)) : wp R I (p.bind f) Q tr := by
  refine wp_bind_mono (wp_ext h) ?_
  rintro a tr' ⟨hp, L, rfl⟩
  exact hf a L hp

theorem wp_sound {α} {p : Prog α} {Q : α → Trace → Prop} {tr : Trace} (orc : Nat → Call → Res)
    (horc : ∀ i c, R c (orc i c)) (h : wp R I p Q tr) (i : Nat) :
    Q (runOracle orc p i tr).1 (runOracle orc p i tr).2 ∧
    (∃ L, (runOracle orc p i tr).2 = tr ++ L) ∧
    ∀ j c r, tr.length ≤ j → (runOracle orc p i tr).2[j]? = some (c, r) → I ((runOracle orc p i tr).2.take j) c := by
  induction p generalizing tr i with
  | ret a =>
    refine ⟨h, ⟨[], by simp [runOracle]⟩, ?_⟩
    intro j c r hj hget
    simp only [runOracle] at hget
    rw [List.getElem?_eq_none hj] at hget
    cases hget
  | call c k ih =>
    have := ih (orc i c) (h.2 _ (horc i c)) (i + 1)
    simp only [runOracle]
    obtain ⟨hq, ⟨L, hL⟩, hall⟩ := this
    refine ⟨hq, ⟨(c, orc i c) :: L, by simp [hL]⟩, ?_⟩
    intro j c' r' hj hget
    by_cases hj' : j = tr.length
    · subst hj'
      rw [hL] at hget ⊢
      simp only [List.append_assoc, List.singleton_append, List.getElem?_append_right (Nat.le_refl _),
        Nat.sub_self, List.getElem?_cons_zero, Option.some.injEq, Prod.mk.injEq] at hget
      simp only [List.append_assoc, List.take_left']
      rw [← hget.1]
      exact h.1
    · exact hall j c' r' (by simp; omega) hget

/-! ## calls that satisfy `I` whatever the trace -/

theorem wp_calls {α} {P : α → Prop} {C : Call → Prop} (hC : ∀ tr c, C c → I tr c) {p : Prog α}
    (hc : Calls C p) (ha : All P p) (tr : Trace) : wp R I p (fun a _ => P a) tr := by
  induction p generalizing tr with
  | ret a => exact ha
  | call c k ih => exact ⟨hC _ _ hc.1, fun r _ => ih r (hc.2 r) (ha r) _⟩

theorem All.trivial {α} (p : Prog α) : All (fun _ => True) p := by
  induction p with
  | ret a => exact True.intro
  | call c k ih => exact fun r => ih r

theorem Calls.ret_intro {α} {Q : Call → Prop} (a : α) : Calls Q (Prog.ret a) := True.intro
theorem Calls.call_intro {α} {Q : Call → Prop} {c : Call} {k : Res → Prog α} (h : Q c) (hk : ∀ r, Calls Q (k r)) :
    Calls Q (Prog.call c k) := ⟨h, hk⟩
theorem All.ret_intro {α} {P : α → Prop} {a : α} (h : P a) : All P (Prog.ret a) := h
theorem All.call_intro {α} {P : α → Prop} {c : Call} {k : Res → Prog α} (h : ∀ r, All P (k r)) : All P (Prog.call c k) := h

/-! ## `List.mapM` in `Option` -/

theorem mapM_option_some {α β} {f : α → Option β} : ∀ {l : List α} {out : List β}, l.mapM f = some out →
    out.length = l.length ∧ ∀ (k : Nat) (s : α), l[k]? = some s → ∃ v, f s = some v ∧ out[k]? = some v := by
  intro l
  induction l with
  | nil =>
    intro out h
    simp at h
    subst h
    simp
  | cons a l ih =>
    intro out h
    simp only [List.mapM_cons, Option.bind_eq_bind, Option.pure_def, Option.bind_eq_some_iff] at h
    obtain ⟨b, hb, bs, hbs, hout⟩ := h
    simp only [Option.some.injEq] at hout
    subst hout
    obtain ⟨hl, hk⟩ := ih hbs
    refine ⟨by simp [hl], ?_⟩
    intro k s hks
    cases k with
    | zero =>
      simp only [List.getElem?_cons_zero, Option.some.injEq] at hks
      subst hks
      exact ⟨b, hb, by simp⟩
    | succ k =>
      simp only [List.getElem?_cons_succ] at hks ⊢
      exact hk k s hks

end Mdsort.Proofs.Own
