import Mdsort.Model.Lex

/-!
# The recursion budgets of the lexer model are never the reason for a result

`Model.lex1` and its helpers (`collect`, `patFlags`, `lexDigits`, `lex1.lex1Aux`) are written with a budget argument so
that they are structurally recursive; when the budget is 0 they return a default (`none` = "unterminated", the flags /
digits read so far, end of input WITHOUT a diagnostic).  Each of them is called with a budget larger than the length
of what it reads, and every step consumes a byte; the lemmas below state the consequence in the usual form: any two
budgets larger than the input give the same result, so the default of the exhausted case never shows.
-/

namespace Mdsort.Proofs
open Mdsort Mdsort.Model

theorem collect_fuel (d : UInt8) : ∀ (f1 f2 : Nat) (s acc : Bytes), s.length < f1 → s.length < f2 →
    collect d f1 s acc = collect d f2 s acc := by
  intro f1
  induction f1 with
  | zero => intro f2 s acc h1; omega
  | succ f1 ih =>
    intro f2 s acc h1 h2
    cases f2 with
    | zero => omega
    | succ f2 =>
      cases s with
      | nil => rfl
      | cons c r =>
        simp only [List.length_cons] at h1 h2
        have key : ∀ (s' : Bytes) (ch : Option UInt8), s'.length ≤ r.length →
            (match ch with
              | none => none
              | some ch => if acc.length == BUFSIZ - 1 then some (none, s') else collect d f1 s' (acc ++ [ch])) =
            (match ch with
              | none => none
              | some ch => if acc.length == BUFSIZ - 1 then some (none, s') else collect d f2 s' (acc ++ [ch])) := by
          intro s' ch hl
          cases ch with
          | none => rfl
          | some ch =>
            simp only
            split
            · rfl
            · exact ih f2 s' _ (by omega) (by omega)
        cases hcd : c == d with
        | true =>
          conv => lhs; unfold collect
          conv => rhs; unfold collect
          simp only [hcd, if_true]
        | false =>
          cases hc : c == 92 with
          | false =>
            conv => lhs; unfold collect
            conv => rhs; unfold collect
            simp only [hcd, hc, Bool.false_eq_true, if_false]
            exact key r (some c) (Nat.le_refl _)
          | true =>
            cases r with
            | nil =>
              conv => lhs; unfold collect
              conv => rhs; unfold collect
              simp only [hcd, hc, Bool.false_eq_true, if_false, if_true]
              exact key [] (some c) (Nat.le_refl _)
            | cons d' r2 =>
              cases hd : d' == d with
              | true =>
                conv => lhs; unfold collect
                conv => rhs; unfold collect
                simp only [hcd, hc, hd, Bool.false_eq_true, if_false, if_true]
                exact key r2 (some d') (by simp)
              | false =>
                conv => lhs; unfold collect
                conv => rhs; unfold collect
                simp only [hcd, hc, hd, Bool.false_eq_true, if_false, if_true]
                exact key (d' :: r2) (some c) (Nat.le_refl _)

theorem patFlags_fuel : ∀ (f1 f2 : Nat) (s : Bytes) (i l u : Bool) (e : Nat), s.length < f1 → s.length < f2 →
    patFlags f1 s i l u e = patFlags f2 s i l u e := by
  intro f1
  induction f1 with
  | zero => intro f2 s i l u e h1; omega
  | succ f1 ih =>
    intro f2 s i l u e h1 h2
    cases f2 with
    | zero => omega
    | succ f2 =>
      unfold patFlags
      split
      · rename_i r; simp only [List.length_cons] at h1 h2; exact ih f2 r _ _ _ _ (by omega) (by omega)
      · rename_i r; simp only [List.length_cons] at h1 h2; exact ih f2 r _ _ _ _ (by omega) (by omega)
      · rename_i r; simp only [List.length_cons] at h1 h2; exact ih f2 r _ _ _ _ (by omega) (by omega)
      · rfl

theorem lexDigits_fuel : ∀ (f1 f2 : Nat) (s : Bytes) (n : Nat) (o : Bool) (e : Nat), s.length < f1 → s.length < f2 →
    lexDigits f1 s n o e = lexDigits f2 s n o e := by
  intro f1
  induction f1 with
  | zero => intro f2 s n o e h1; omega
  | succ f1 ih =>
    intro f2 s n o e h1 h2
    cases f2 with
    | zero => omega
    | succ f2 =>
      cases s with
      | nil => rfl
      | cons c r =>
        simp only [List.length_cons] at h1 h2
        unfold lexDigits
        simp only
        split
        · split
          · exact ih f2 r _ _ _ (by omega) (by omega)
          · split
            · exact ih f2 r _ _ _ (by omega) (by omega)
            · exact ih f2 r _ _ _ (by omega) (by omega)
        · rfl

theorem lex1Aux_fuel (pf sf am : Bool) : ∀ (f1 f2 : Nat) (input : Bytes), input.length < f1 → input.length < f2 →
    lex1.lex1Aux pf sf am input f1 = lex1.lex1Aux pf sf am input f2 := by
  intro f1
  induction f1 with
  | zero => intro f2 input h1; omega
  | succ f1 ih =>
    intro f2 input h1 h2
    cases f2 with
    | zero => omega
    | succ f2 =>
      unfold lex1.lex1Aux
      simp only
      have hs0 : (input.dropWhile isspace).length ≤ input.length := (List.dropWhile_suffix _).length_le
      split
      · rfl
      · rename_i c r heq
        rw [heq] at hs0
        split
        · rfl
        · split
          · split
            · rfl
            · rename_i x r2 heq2
              have h2' : (x :: r2).length ≤ r.length := by rw [← heq2]; exact (List.dropWhile_suffix _).length_le
              simp only [List.length_cons] at h2' hs0
              rw [ih f2 r2 (by omega) (by omega)]
          · rfl

end Mdsort.Proofs
