import Mdsort.Proofs.EvalAtt

/-!
# `C03_eval_refines_spec` as a corollary of `C03_eval_refines_spec_att`

On a tree without attachment nodes (`wfTree`) the grammar shape `parseRuleA` recognises is the one
`parseRule` recognises, `evalRulesA` on the message itself computes what `evalRules` computes (every
action tagged with part 0, `leaks` never set), and `InDomain` implies `InDomainA`.
-/

namespace Mdsort.Proofs
open Mdsort Mdsort.Model Mdsort.Spec

/-! ## the domain -/

theorem att_dom_of_wfTree : ∀ (e : Expr), wfTree e = true → ∀ L : Nat,
    wfTreeA false e = true ∧ maxSubdirA e = maxSubdir e ∧ movesFitA L e = movesFit L e ∧
      flagsKeepSeenA e = flagsKeepSeen e := by
  intro e
  induction e with
  | block _ e ih =>
    intro h L
    simp only [wfTree] at h
    simpa [wfTreeA, maxSubdirA, maxSubdir, movesFitA, movesFit, flagsKeepSeenA, flagsKeepSeen] using ih h L
  | neg _ e ih =>
    intro h L
    simp only [wfTree] at h
    simpa [wfTreeA, maxSubdirA, maxSubdir, movesFitA, movesFit, flagsKeepSeenA, flagsKeepSeen] using ih h L
  | and _ l r ihl ihr =>
    intro h L
    simp only [wfTree, Bool.and_eq_true] at h
    obtain ⟨a1, a2, a3, a4⟩ := ihl h.1 L
    obtain ⟨b1, b2, b3, b4⟩ := ihr h.2 L
    simp [wfTreeA, maxSubdirA, maxSubdir, movesFitA, movesFit, flagsKeepSeenA, flagsKeepSeen, a1, a2, a3, a4, b1, b2,
      b3, b4]
  | or _ l r ihl ihr =>
    intro h L
    simp only [wfTree, Bool.and_eq_true] at h
    obtain ⟨a1, a2, a3, a4⟩ := ihl h.1 L
    obtain ⟨b1, b2, b3, b4⟩ := ihr h.2 L
    simp [wfTreeA, maxSubdirA, maxSubdir, movesFitA, movesFit, flagsKeepSeenA, flagsKeepSeen, a1, a2, a3, a4, b1, b2,
      b3, b4]
  | mtch _ l r ihl ihr =>
    intro h L
    simp only [wfTree, Bool.and_eq_true] at h
    obtain ⟨a1, a2, a3, a4⟩ := ihl h.1 L
    obtain ⟨b1, b2, b3, b4⟩ := ihr h.2 L
    simp [wfTreeA, maxSubdirA, maxSubdir, movesFitA, movesFit, flagsKeepSeenA, flagsKeepSeen, a1, a2, a3, a4, b1, b2,
      b3, b4]
  | attachment _ c _ => intro h; simp [wfTree] at h
  | attBlock _ c _ => intro h; simp [wfTree] at h
  | _ =>
    intro h L
    simp_all [wfTree, wfTreeA, maxSubdirA, maxSubdir, movesFitA, movesFit, flagsKeepSeenA, flagsKeepSeen]

theorem att_wfTree_of_inDomain {env : Env} {e : Expr} (h : InDomain env e = true) : wfTree e = true := by
  unfold InDomain at h
  simp only [Bool.and_eq_true] at h
  exact h.1.1

theorem att_inDomainA_of_inDomain {env : Env} {e : Expr} (h : InDomain env e = true) : InDomainA env e = true := by
  have hw := att_wfTree_of_inDomain h
  have hd := att_dom_of_wfTree e hw
  have hmf : ∀ L, movesFitA L e = movesFit L e := fun L => (hd L).2.2.1
  unfold InDomain at h
  unfold InDomainA
  rw [(hd 0).1, (hd 0).2.2.2, (hd 0).2.1]
  cases hm : pathslice env.path PATH_MAX 0 (-2) with
  | none => simp [hm] at h
  | some m0 =>
    cases hs : pathslice env.path NAME_MAX1 (-2) (-2) with
    | none => simp [hm, hs] at h
    | some s0 =>
      simp only [hm, hs, hw] at h ⊢
      simp only [hmf]
      exact h

theorem att_wfTree_orChain : ∀ (e : Expr), wfTree e = true → ∀ x ∈ orChain e, wfTree x = true := by
  intro e
  induction e with
  | or lno l r ihl _ =>
    intro h x hx
    rw [orChain] at hx
    simp only [wfTree, Bool.and_eq_true] at h
    rcases List.mem_append.1 hx with hx | hx
    · exact ihl h.1 x hx
    · simp only [List.mem_singleton] at hx; rw [hx]; exact h.2
  | _ =>
    intro h x hx
    simp only [orChain, List.mem_singleton] at hx
    rw [hx]; exact h

/-! ## the shape -/

theorem att_parseActA_plain {a : Expr} (h : isActionExpr a = true) : parseActA a = some (.plain a) := by
  cases a <;> simp [isActionExpr] at h <;> simp [parseActA, isActionExpr]

theorem att_isCtl_of_action {a : Expr} (h : isActionExpr a = true) : isCtlExpr a = Option.none := by
  cases a <;> simp [isActionExpr] at h <;> rfl

theorem att_parseChainA_plain : ∀ (e : Expr), (∀ a ∈ andChain e, isActionExpr a = true) →
    parseChainA e = some ((andChain e).map ActA.plain) := by
  intro e
  induction e with
  | and lno l r ihl _ =>
    intro h
    have hl := ihl (fun a ha => h a (by simp [andChain, ha]))
    have hr := att_parseActA_plain (h r (by simp [andChain]))
    rw [parseChainA, hl, hr]
    simp [andChain]
  | _ =>
    intro h
    simp only [andChain, List.mem_singleton, forall_eq] at h
    simp [parseChainA, andChain, att_parseActA_plain h]

/-- A rule with actions that `parseRule` accepts is accepted by `parseRuleA`, with the same
condition, the same actions and the same control action. -/
theorem att_parseRuleA_acts (lno : Nat) (c rhs : Expr) (as : List Expr) (ctl : Ctl) (hc : isCond c = true)
    (hnb : ∀ l e, rhs ≠ .block l e) (hsp : splitActs (andChain rhs) = some (as, ctl)) :
    parseRuleA (.mtch lno c rhs) = some (.acts lno c (as.map ActA.plain) ctl) := by
  rcases splitActs_spec hsp with ⟨rfl, hl, hne, hact⟩ | ⟨hctl, xc, hl, hcx, hact⟩
  · -- no control action
    by_cases hand : ∃ l0 l r, rhs = .and l0 l r
    · obtain ⟨l0, l, r, rfl⟩ := hand
      rw [andChain] at hl
      have hr : isActionExpr r = true := hact r (by rw [← hl]; simp)
      have hls : ∀ a ∈ andChain l, isActionExpr a = true := fun a ha => hact a (by rw [← hl]; simp [ha])
      simp only [parseRuleA, hc, Bool.not_true, Bool.false_eq_true, if_false, att_isCtl_of_action hr,
        att_parseChainA_plain l hls, att_parseActA_plain hr]
      rw [← hl]
      simp
    · have hleaf : andChain rhs = [rhs] := att_andChain_leaf rhs (fun l0 l r h => hand ⟨l0, l, r, h⟩)
      rw [hleaf] at hl
      subst hl
      have hr : isActionExpr rhs = true := hact rhs (by simp)
      cases rhs <;> simp [isActionExpr] at hr <;> simp [parseRuleA, hc, isCtlExpr, parseActA, isActionExpr]
  · -- `pass` / `break` last
    by_cases hand : ∃ l0 l r, rhs = .and l0 l r
    · obtain ⟨l0, l, r, rfl⟩ := hand
      rw [andChain] at hl
      have hinj := List.append_inj' hl rfl
      obtain ⟨h1, h2⟩ := hinj
      simp only [List.cons.injEq, and_true] at h2
      subst h2
      have hls : ∀ a ∈ andChain l, isActionExpr a = true := fun a ha => hact a (by rw [← h1]; exact ha)
      simp only [parseRuleA, hc, Bool.not_true, Bool.false_eq_true, if_false, hcx, att_parseChainA_plain l hls]
      rw [← h1]
      simp
    · have hleaf : andChain rhs = [rhs] := att_andChain_leaf rhs (fun l0 l r h => hand ⟨l0, l, r, h⟩)
      rw [hleaf] at hl
      have hinj := List.append_inj' (s₁ := []) (s₂ := as) (t₁ := [rhs]) (t₂ := [xc]) (by simpa using hl) rfl
      obtain ⟨h1, h2⟩ := hinj
      simp only [List.cons.injEq, and_true] at h2
      subst h2
      subst h1
      rcases isCtlExpr_spec hcx with ⟨rfl, lp, rfl⟩ | ⟨rfl, lb, rfl⟩
      · simp [parseRuleA, hc, isCtlExpr]
      · simp [parseRuleA, hc, isCtlExpr]

theorem att_parseAllA_snoc_inv : ∀ (xs : List Expr) (x : Expr) (rs : List RuleA),
    att_parseAllA (xs ++ [x]) = some rs →
    ∃ rs0 r0, att_parseAllA xs = some rs0 ∧ parseRuleA x = some r0 ∧ rs = rs0 ++ [r0] := by
  intro xs
  induction xs with
  | nil =>
    intro x rs h
    simp only [List.nil_append, att_parseAllA] at h
    cases hx : parseRuleA x with
    | none => simp [hx] at h
    | some r0 =>
      simp only [hx, Option.some.injEq] at h
      exact ⟨[], r0, rfl, rfl, by simp [← h]⟩
  | cons y ys ih =>
    intro x rs h
    simp only [List.cons_append, att_parseAllA] at h
    cases hy : parseRuleA y with
    | none => simp [hy] at h
    | some ry =>
      cases hys : att_parseAllA (ys ++ [x]) with
      | none => simp [hy, hys] at h
      | some rys =>
        simp only [hy, hys, Option.some.injEq] at h
        obtain ⟨rs0, r0, h1, h2, h3⟩ := ih x rys hys
        exact ⟨ry :: rs0, r0, by simp [att_parseAllA, hy, h1], h2, by simp [← h, h3]⟩

/-- Converse of `att_parseRulesA_orChain`. -/
theorem att_parseRulesA_of_orChain : ∀ (e : Expr) (rs : List RuleA), att_parseAllA (orChain e) = some rs →
    parseRulesA e = some rs := by
  intro e
  induction e with
  | or lno l r ihl _ =>
    intro rs h
    rw [orChain] at h
    obtain ⟨rs0, r0, h1, h2, h3⟩ := att_parseAllA_snoc_inv _ _ _ h
    rw [parseRulesA, ihl rs0 h1, h2, h3]
  | _ =>
    intro rs h
    simp only [orChain, att_parseAllA] at h
    split at h
    · rename_i r0 rs0 hr hn
      simp only [Option.some.injEq] at hn h
      subst hn
      simp [parseRulesA, hr, ← h]
    · cases h

/-! ## the evaluation -/

/-- Conditions without `attachment` nodes: `condValA` is `condVal` of the valuation on that part. -/
theorem att_condValA_eq {α : Type} (cx : PartCtx α) (k : Nat) (m : α) : ∀ (c : Expr), wfTree c = true →
    condValA cx c k m = condVal (cx.v k m) c := by
  intro c
  induction c with
  | and _ l r ihl ihr =>
    intro h
    simp only [wfTree, Bool.and_eq_true] at h
    simp only [condValA, condVal, ihl h.1, ihr h.2]
    cases condVal (cx.v k m) l <;> rfl
  | or _ l r ihl ihr =>
    intro h
    simp only [wfTree, Bool.and_eq_true] at h
    simp only [condValA, condVal, ihl h.1, ihr h.2]
    cases condVal (cx.v k m) l <;> rfl
  | neg _ e ih =>
    intro h
    simp only [wfTree] at h
    simp only [condValA, condVal, ih h]
    cases condVal (cx.v k m) e <;> rfl
  | attachment _ c _ => intro h; simp [wfTree] at h
  | _ => intro _; simp only [condValA, condVal]

/-- Tag every action with part 0. -/
def att_tag0 (as : List Expr) : List (Nat × Expr) := as.map fun a => (0, a)

def RunRel (run : Run) (runA : RunA) : Prop :=
  runA.pend = att_tag0 run.pend ∧ runA.crosses = run.crosses ∧ runA.leaks = false

def ResRel (o : BRes × Run) (oA : BRes × RunA) : Prop :=
  oA.1 = o.1 ∧ oA.2.crosses = o.2.crosses ∧ oA.2.leaks = false ∧ (o.1 ≠ .err → oA.2.pend = att_tag0 o.2.pend)

theorem RunRel.length {run : Run} {runA : RunA} (h : RunRel run runA) : runA.pend.length = run.pend.length := by
  rw [h.1, att_tag0, List.length_map]

/-- A list of plain actions: an error iff one of them cannot be evaluated, else all are collected. -/
theorem att_evalActsA_plain {α : Type} (cx : PartCtx α) (aerr : Expr → Bool) (hasPass : Bool) (k : Nat) (m : α) :
    ∀ (as : List Expr) (runA : RunA),
    (as.any aerr = true → ∃ r, evalActsA cx aerr hasPass k m (as.map ActA.plain) runA = (Option.none, r) ∧
      r.crosses = runA.crosses ∧ r.leaks = runA.leaks) ∧
    (as.any aerr = false → evalActsA cx aerr hasPass k m (as.map ActA.plain) runA =
      (some true, { runA with pend := runA.pend ++ as.map fun a => (k, a) })) := by
  intro as
  induction as with
  | nil =>
    intro runA
    refine ⟨fun h => by simp at h, fun _ => ?_⟩
    rw [List.map_nil, evalActsA]
    simp
  | cons a as ih =>
    intro runA
    rw [List.map_cons, evalActsA]
    by_cases ha : aerr a = true
    · simp only [ha, if_true]
      exact ⟨fun _ => ⟨runA, rfl, rfl, rfl⟩, fun h => by simp [ha] at h⟩
    · simp only [ha, Bool.false_eq_true, if_false]
      obtain ⟨i1, i2⟩ := ih { runA with pend := runA.pend ++ [(k, a)] }
      have hany : (a :: as).any aerr = as.any aerr := by simp [ha]
      rw [hany]
      refine ⟨fun h => ?_, fun h => ?_⟩
      · obtain ⟨r, h1, h2, h3⟩ := i1 h
        exact ⟨r, h1, h2, h3⟩
      · rw [i2 h]
        simp [List.append_assoc]

theorem att_bridge {α : Type} (cx : PartCtx α) (aerr : Expr → Bool) (root : α) (n : Nat) :
    ∀ (rs : List Rule), sizeOf rs < n → ∀ (es : List Expr), parseAll es = some rs → (∀ x ∈ es, wfTree x = true) →
    ∃ rsA, att_parseAllA es = some rsA ∧
      ∀ (nested outerPass : Bool) (start : Nat) (passSeen : Bool) (run : Run) (runA : RunA), RunRel run runA →
        ResRel (evalRules (cx.v 0 root) aerr nested outerPass start rs passSeen run)
          (evalRulesA cx aerr nested outerPass start 0 root rsA passSeen runA) := by
  induction n with
  | zero => intro rs h; omega
  | succ n ih =>
    intro rs hsz es hpa hwf
    cases rs with
    | nil =>
      have hes : es = [] := by
        cases es with
        | nil => rfl
        | cons x xs =>
          simp only [parseAll] at hpa
          cases h1 : parseRule x <;> cases h2 : parseAll xs <;> simp [h1, h2] at hpa
      subst hes
      refine ⟨[], rfl, ?_⟩
      intro nested outerPass start passSeen run runA hrel
      rw [evalRules, evalRulesA]
      refine ⟨?_, ?_, hrel.2.2, fun _ => hrel.1⟩
      · simp only [hrel.length]
      · simp only [hrel.length, hrel.2.1]
    | cons r rest =>
      have hrest : sizeOf rest < n := by
        simp only [List.cons.sizeOf_spec] at hsz; omega
      cases es with
      | nil => simp [parseAll] at hpa
      | cons x xs =>
        simp only [parseAll] at hpa
        cases hx : parseRule x with
        | none => simp [hx] at hpa
        | some r' =>
          cases hxs : parseAll xs with
          | none => simp [hx, hxs] at hpa
          | some rest' =>
            simp only [hx, hxs, Option.some.injEq, List.cons.injEq] at hpa
            obtain ⟨hr1, hr2⟩ := hpa
            subst hr1 hr2
            have hwx := hwf x (by simp)
            obtain ⟨restA, hrestA, hrestE⟩ := ih rest' hrest xs hxs (fun y hy => hwf y (by simp [hy]))
            rcases parseRule_spec hx with ⟨lno, c, rhs, as, ctl, rfl, rfl, hc, hnb, hsp⟩ |
              ⟨lno, c, l, e, rs', rfl, rfl, hc, hpr⟩
            · -- actions
              simp only [wfTree, Bool.and_eq_true] at hwx
              refine ⟨.acts lno c (as.map ActA.plain) ctl :: restA, ?_, ?_⟩
              · simp [att_parseAllA, att_parseRuleA_acts lno c rhs as ctl hc hnb hsp, hrestA]
              · intro nested outerPass start passSeen run runA hrel
                rw [evalRules, evalRulesA, att_condValA_eq cx 0 root c hwx.1]
                cases condVal (cx.v 0 root) c with
                | error => exact ⟨rfl, hrel.2.1, hrel.2.2, fun h => absurd rfl h⟩
                | «nomatch» => exact hrestE _ _ _ _ _ _ hrel
                | «match» =>
                  dsimp only
                  obtain ⟨a1, a2⟩ := att_evalActsA_plain cx aerr (outerPass || passSeen) 0 root as runA
                  by_cases hany : as.any aerr = true
                  · obtain ⟨r1, h1, h2, h3⟩ := a1 hany
                    simp only [hany, if_true, h1]
                    exact ⟨rfl, by rw [h2]; exact hrel.2.1, by rw [h3]; exact hrel.2.2, fun h => absurd rfl h⟩
                  · have hany' : as.any aerr = false := by simpa using hany
                    have hrel1 : RunRel { run with pend := run.pend ++ as }
                        { runA with pend := runA.pend ++ as.map fun a => (0, a) } :=
                      ⟨by simp [att_tag0, hrel.1], hrel.2.1, hrel.2.2⟩
                    simp only [hany', Bool.false_eq_true, if_false, a2 hany']
                    cases ctl with
                    | pass => exact hrestE _ _ _ _ _ _ hrel1
                    | brk => exact ⟨rfl, by simp [hrel.2.1], hrel.2.2, fun _ => hrel1.1⟩
                    | none => exact ⟨rfl, hrel.2.1, hrel.2.2, fun _ => hrel1.1⟩
            · -- nested block
              simp only [wfTree, Bool.and_eq_true] at hwx
              have hrs' : sizeOf rs' < n := by
                simp only [List.cons.sizeOf_spec, Rule.blk.sizeOf_spec] at hsz; omega
              obtain ⟨rsA', hA', hE'⟩ := ih rs' hrs' (orChain e) (parseRules_orChain e rs' hpr)
                (att_wfTree_orChain e hwx.2)
              have hpA := att_parseRulesA_of_orChain e rsA' hA'
              refine ⟨.blk lno c rsA' :: restA, ?_, ?_⟩
              · simp [att_parseAllA, parseRuleA, hc, hpA, hrestA]
              · intro nested outerPass start passSeen run runA hrel
                rw [evalRules, evalRulesA, att_condValA_eq cx 0 root c hwx.1]
                cases condVal (cx.v 0 root) c with
                | error => exact ⟨rfl, hrel.2.1, hrel.2.2, fun h => absurd rfl h⟩
                | «nomatch» => exact hrestE _ _ _ _ _ _ hrel
                | «match» =>
                  dsimp only
                  have hin := hE' true (outerPass || passSeen) run.pend.length false run runA hrel
                  rw [hrel.length]
                  rcases h1 : evalRules (cx.v 0 root) aerr true (outerPass || passSeen) run.pend.length rs' false run
                    with ⟨b, run1⟩
                  rcases h2 : evalRulesA cx aerr true (outerPass || passSeen) run.pend.length 0 root rsA' false runA
                    with ⟨bA, runA1⟩
                  rw [h1, h2] at hin
                  obtain ⟨e1, e2, e3, e4⟩ := hin
                  simp only at e1 e2 e3 e4
                  subst e1
                  cases bA with
                  | err => exact ⟨rfl, e2, e3, fun h => absurd rfl h⟩
                  | matched => exact ⟨rfl, e2, e3, fun _ => e4 (by decide)⟩
                  | «nomatch» => exact hrestE _ _ _ _ _ _ ⟨e4 (by decide), e2, e3⟩
                  | broke => exact hrestE _ _ _ _ _ _ ⟨e4 (by decide), e2, e3⟩

/-! ## the corollary -/

/-- `eval_refines_spec` (the statement of `C03_eval_refines_spec`) from `att_eval_refines_spec`. -/
theorem att_eval_refines_spec_old (env : Env) (root : Msg) (f : MFlags) (e : Expr) (rules : List Spec.Rule)
    (hp : Spec.parseBlock e = some rules) (hd : InDomain env e = true)
    (hl : (Spec.evalBlock (valuation env root f) actionErr rules).crosses = false) :
    let o := Spec.evalBlock (valuation env root f) actionErr rules
    let r := eval env root e 0 root { ml := [], flags := f }
    r.1 = o.res ∧ (o.res = .match → Spec.planOf (mlKeys r.2.ml) = Spec.planOf (o.actions.filterMap Spec.actKey)) := by
  have hw := att_wfTree_of_inDomain hd
  cases e with
  | block lno e' =>
    simp only [Spec.parseBlock] at hp
    simp only [wfTree] at hw
    obtain ⟨rsA, hA, hE⟩ := att_bridge (partCtx env root f) actionErr root (sizeOf rules + 1) rules (Nat.lt_succ_self _)
      (orChain e') (parseRules_orChain e' rules hp) (att_wfTree_orChain e' hw)
    have hpA : Spec.parseBlockA (.block lno e') = some rsA := att_parseRulesA_of_orChain e' rsA hA
    have hrel := hE false false 0 false { pend := [], crosses := false } { pend := [], crosses := false, leaks := false }
      ⟨rfl, rfl, rfl⟩
    have hv : (partCtx env root f).v 0 root = valuation env root f := rfl
    rw [hv] at hrel
    -- the two outcomes
    have hout : (Spec.evalBlockA (partCtx env root f) actionErr root rsA).res =
          (Spec.evalBlock (valuation env root f) actionErr rules).res ∧
        (Spec.evalBlockA (partCtx env root f) actionErr root rsA).crosses =
          (Spec.evalBlock (valuation env root f) actionErr rules).crosses ∧
        (Spec.evalBlockA (partCtx env root f) actionErr root rsA).leaks = false ∧
        ((Spec.evalBlock (valuation env root f) actionErr rules).res = .match →
          (Spec.evalBlockA (partCtx env root f) actionErr root rsA).actions =
            att_tag0 (Spec.evalBlock (valuation env root f) actionErr rules).actions) := by
      unfold Spec.evalBlockA Spec.evalBlock
      rcases h1 : Spec.evalRules (valuation env root f) actionErr false false 0 rules false { pend := [], crosses := false }
        with ⟨b, run1⟩
      rcases h2 : Spec.evalRulesA (partCtx env root f) actionErr false false 0 0 root rsA false
        { pend := [], crosses := false, leaks := false } with ⟨bA, runA1⟩
      rw [h1, h2] at hrel
      obtain ⟨e1, e2, e3, e4⟩ := hrel
      simp only at e1 e2 e3 e4
      subst e1
      cases bA with
      | err => exact ⟨rfl, e2, e3, fun h => by cases h⟩
      | matched => exact ⟨rfl, e2, e3, fun _ => e4 (by decide)⟩
      | «nomatch» => exact ⟨rfl, e2, e3, fun h => by cases h⟩
      | broke => exact ⟨rfl, e2, e3, fun h => by cases h⟩
    obtain ⟨o1, o2, o3, o4⟩ := hout
    have hnew := att_eval_refines_spec env root f (.block lno e') rsA hpA (att_inDomainA_of_inDomain hd)
      (by rw [o2]; exact hl) o3
    intro o r
    obtain ⟨n1, n2⟩ := hnew
    refine ⟨n1.trans o1, fun hm => ?_⟩
    have hm' : (Spec.evalBlockA (partCtx env root f) actionErr root rsA).res = .match := by rw [o1]; exact hm
    have h3 := planOf_of_planP (n2 hm')
    rw [mlKeysP_eq, ← keysOf_eq_map, att_filterMap_drop, o4 hm] at h3
    rw [mlKeys_eq]
    have hmap : (att_tag0 o.actions).map (·.2) = o.actions := by
      simp [att_tag0, Function.comp_def]
    rw [hmap] at h3
    exact h3
  | _ => simp [Spec.parseBlock] at hp

end Mdsort.Proofs
